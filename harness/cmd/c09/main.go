// C09: event queries return exactly the matching events, for any paging.
//
// Three comparisons on every generated history:
//  1. predicate: concatenation of the pages the real EventFilter returns (following its continuation
//     tokens, every chunk size 1..5 x scan limits) == naive scan over all receipts of the range
//     (== filter_spec of the Coq development, evaluated by the oracle on the model's copy of the chain);
//  2. correspondence: every single page (events and token) and every store / revert outcome equals what
//     the extracted model (theories/C09/Model.v, W = core.NumBlocksPerFilter) answers;
//  3. model-only histories at small W (2..5): model pages vs a naive scan in Go, and the theorem's
//     hypotheses (cache_fresh, disk_ok at ungraceful restarts) evaluated on the same history.
package main

import (
	"encoding/binary"
	"encoding/json"
	"errors"
	"flag"
	"fmt"
	"iter"
	"os"
	"sort"
	"strconv"
	"strings"
	"time"

	"github.com/NethermindEth/juno/blockchain"
	"github.com/NethermindEth/juno/core"
	"github.com/NethermindEth/juno/core/felt"
	"github.com/NethermindEth/juno/core/pending"
	"github.com/NethermindEth/juno/db"
	"verifharness/chain"
	"verifharness/hx"
)

// ---------- histories ----------
type Blk struct {
	Txs  [][]chain.Ev `json:"txs"`
	Salt uint64       `json:"salt,omitempty"`
}

type Qry struct {
	Addrs []uint64   `json:"addrs"`
	Keys  [][]uint64 `json:"keys"`
	From  uint64     `json:"from"`
	To    uint64     `json:"to"`
}

type Op struct {
	K   string   `json:"k"` // store | light | revert | restart | query | forget
	Blk *Blk     `json:"blk,omitempty"`
	N   int      `json:"n,omitempty"`    // light: number of empty blocks; revert: number of blocks
	G   bool     `json:"g,omitempty"`    // restart: graceful (running filter snapshot written)
	Q   *Qry     `json:"q,omitempty"`
	Ws  []uint64 `json:"ws,omitempty"`   // forget (model-only histories)
	Pre []*Blk   `json:"pre,omitempty"`  // queryp: pre-confirmed blocks above the head, oldest first
	FB  *BID     `json:"fb,omitempty"`   // rpcq: from_block / to_block ids of starknet_getEvents
	TB  *BID     `json:"tb,omitempty"`
	S   uint64   `json:"salt,omitempty"` // light
}

type History struct {
	Kind     string `json:"kind"` // real | model
	W        uint64 `json:"w"`
	NewState bool   `json:"new_state"`
	Ops      []Op   `json:"ops"`
}

type pcfg struct{ chunk, limit uint64 }

func pagingConfigs() []pcfg {
	var r []pcfg
	for ch := uint64(1); ch <= 5; ch++ {
		for _, l := range []uint64{0, 1, 2, 3, 7} {
			r = append(r, pcfg{ch, l})
		}
	}
	return append(r, pcfg{1000, 0})
}

// ---------- textual forms for the oracle ----------
func blkLine(b *Blk) string {
	if len(b.Txs) == 0 {
		return "-"
	}
	var txs []string
	for _, t := range b.Txs {
		if len(t) == 0 {
			txs = append(txs, "e")
			continue
		}
		var evs []string
		for _, e := range t {
			s := strconv.FormatUint(e.From, 10)
			if len(e.Keys) > 0 {
				ks := make([]string, len(e.Keys))
				for i, k := range e.Keys {
					ks[i] = strconv.FormatUint(k, 10)
				}
				s += "/" + strings.Join(ks, ".")
			}
			evs = append(evs, s)
		}
		txs = append(txs, strings.Join(evs, ","))
	}
	return strings.Join(txs, "|")
}

func joinU(xs []uint64, sep, empty string) string {
	if len(xs) == 0 {
		return empty
	}
	s := make([]string, len(xs))
	for i, x := range xs {
		s[i] = strconv.FormatUint(x, 10)
	}
	return strings.Join(s, sep)
}

func filterWords(q *Qry) string {
	ks := "-"
	if len(q.Keys) > 0 {
		p := make([]string, len(q.Keys))
		for i, alts := range q.Keys {
			p[i] = joinU(alts, ".", "e")
		}
		ks = strings.Join(p, "|")
	}
	return joinU(q.Addrs, ".", "-") + " " + ks
}

// ---------- the naive SPEC in Go (independent of juno's matcher and of the Coq model) ----------
type nev struct {
	tx, idx   int
	from      uint64
	keys      []uint64
	canonical string // everything the query must return for this event
}

func naiveMatch(q *Qry, from uint64, keys []uint64) bool {
	if len(q.Addrs) > 0 {
		ok := false
		for _, a := range q.Addrs {
			if a == from {
				ok = true
			}
		}
		if !ok {
			return false
		}
	}
	if len(keys) < len(q.Keys) {
		return false
	}
	for i, alts := range q.Keys {
		if len(alts) == 0 {
			continue
		}
		ok := false
		for _, k := range alts {
			if k == keys[i] {
				ok = true
			}
		}
		if !ok {
			return false
		}
	}
	return true
}

// ---------- real run ----------
type viol struct {
	class, what string
	noInput     bool
}

type realRun struct {
	c        *hx.Ctx
	or       *hx.Oracle
	node     *chain.Node
	newState bool
	naive    [][]nev // per block
	viols    []viol
	pre      *preChain
	rpc      *rpcStage
	hashes   []string // block hashes of the canonical chain
	l1       *uint64
	quiet    bool // shrinking: no counters
	long     bool
	// an ungraceful restart found a running-filter snapshot on the real disk that the model says was consumed
	// (InitializeRunningEventFilter deletes the snapshot it reads): the stale-snapshot defect is back
	snapUnconsumed bool
}

var preConfNil = func() (blockchain.PreConfirmedReader, error) { return nil, nil }

func feltU(f *felt.Felt) string { return f.String() }

func (r *realRun) fail(class, what string, noInput bool) {
	for _, v := range r.viols {
		if v.class == class {
			return
		}
	}
	r.viols = append(r.viols, viol{class, what, noInput})
}

func okErr(err error) string {
	if err != nil {
		return "err"
	}
	return "ok"
}

func (r *realRun) readBack(n uint64) []nev {
	b, err := r.node.BC.BlockByNumber(n)
	hx.Must(err)
	var out []nev
	for ti, rc := range b.Receipts {
		for ei, e := range rc.Events {
			ks := make([]string, len(e.Keys))
			for i := range e.Keys {
				ks[i] = e.Keys[i].String()
			}
			ds := make([]string, len(e.Data))
			for i := range e.Data {
				ds[i] = e.Data[i].String()
			}
			x := nev{tx: ti, idx: ei}
			x.canonical = fmt.Sprintf("%d.%d.%d|bh=%s|th=%s|from=%s|keys=%s|data=%s", n, ti, ei,
				feltU(b.Hash), feltU(rc.TransactionHash), feltU(e.From), strings.Join(ks, ","), strings.Join(ds, ","))
			out = append(out, x)
		}
	}
	return out
}

func (r *realRun) store(b *Blk) bool {
	spec := &chain.BlockSpec{Txs: b.Txs, Salt: b.Salt}
	_, err := r.node.Finalise(spec)
	m := r.or.Ask("store "+blkLine(b), 1)[0]
	if okErr(err) != m {
		r.fail("model-mismatch:store", fmt.Sprintf("Store at height %d: implementation %v, model %s", len(r.naive), err, m), true)
	}
	if err != nil {
		if !r.quiet {
			r.c.Hist["store-refused"]++
		}
		return false
	}
	n := uint64(len(r.naive))
	evs := r.readBack(n)
	// attach the small-integer view of the events (for the naive matcher)
	i := 0
	for _, t := range b.Txs {
		for _, e := range t {
			evs[i].from = e.From
			evs[i].keys = e.Keys
			i++
		}
	}
	if i != len(evs) {
		hx.Fatalf("read back %d events, stored %d", len(evs), i)
	}
	r.naive = append(r.naive, evs)
	hdr, err := r.node.BC.HeadsHeader()
	hx.Must(err)
	r.hashes = append(r.hashes, hdr.Hash.String())
	return true
}

func (r *realRun) revert() bool {
	err := r.node.BC.RevertHead()
	m := r.or.Ask("revert", 1)[0]
	if okErr(err) != m {
		r.fail("model-mismatch:revert", fmt.Sprintf("RevertHead at height %d: implementation %v, model %s", len(r.naive), err, m), true)
	}
	if err != nil {
		return false
	}
	r.naive = r.naive[:len(r.naive)-1]
	r.hashes = r.hashes[:len(r.hashes)-1]
	return true
}

func (r *realRun) restart(g bool) {
	if g {
		_ = r.node.BC.WriteRunningEventFilter()
		r.or.Ask("restart g", 1)
	} else {
		if r.realSnap() != "none" && r.or.Ask("snap", 1)[0] == "none" {
			r.snapUnconsumed = true
		}
		r.or.Ask("restart u", 1)
	}
	r.node = r.node.Reopen(r.newState)
	r.rpc = nil
}

// the running-filter snapshot on the real disk: none | <from> <next>
func (r *realRun) realSnap() string {
	f, err := core.GetRunningEventFilter(r.node.DB)
	if err != nil {
		if errors.Is(err, db.ErrKeyNotFound) {
			return "none"
		}
		return "err:" + err.Error()
	}
	from, _ := f.FromBlock()
	next, _ := f.NextBlock()
	return fmt.Sprintf("%d %d", from, next)
}

// after every operation: the snapshot on the real disk is the one on the model's disk (written by a graceful
// stop, consumed by the first initialisation on a non-empty chain), and the predicate of C09_snapshot_consumed
// holds on the implementation after an operation that initialised the filter
func (r *realRun) checkSnap(o *Op, heightChanged bool) {
	real, model := r.realSnap(), r.or.Ask("snap", 1)[0]
	if !r.quiet {
		if real == "none" {
			r.c.Hist["snapshot-on-disk:none"]++
		} else {
			r.c.Hist["snapshot-on-disk:present-after-"+o.K]++
		}
	}
	if real != model {
		r.fail("model-mismatch:snapshot", fmt.Sprintf("after %s at height %d: snapshot on disk %q, model %q", o.K, len(r.naive), real, model), true)
	}
	if heightChanged && real != "none" && real != "0 0" {
		r.fail("snapshot:not-consumed", fmt.Sprintf("after %s at height %d the running-filter snapshot %q is still on disk although the filter was initialised in this process", o.K, len(r.naive), real), false)
	}
}

func (r *realRun) naiveScan(q *Qry) (short []string, full []string) {
	if len(r.naive) == 0 {
		return nil, nil
	}
	to := q.To
	if to > uint64(len(r.naive)-1) {
		to = uint64(len(r.naive) - 1)
	}
	for n := q.From; n <= to; n++ {
		for _, e := range r.naive[n] {
			if naiveMatch(q, e.from, e.keys) {
				short = append(short, fmt.Sprintf("%d.%d.%d", n, e.tx, e.idx))
				full = append(full, e.canonical)
			}
		}
	}
	return
}

func evsWord(s []string) string {
	if len(s) == 0 {
		return "-"
	}
	return strings.Join(s, ",")
}

// ---------- the paging predicates of C09_paging_terminates, evaluated on the IMPLEMENTATION's page sequence ----------
// (page_chunk_ok / page_empty_ok / page_progress_ok = the conjuncts of pages_ok, page_count_ok; the oracle runs the
// extracted booleans and names the first failing conjunct)
var pagingClass = map[string]string{
	"chunk":    "paging:chunk-exceeded",
	"empty":    "paging:empty-page-without-scan-limit",
	"progress": "paging:token-not-advancing",
	"count":    "paging:too-many-pages",
	"pages_ok": "paging:pages_ok",
}

func (r *realRun) checkPaging(cmd string, pages []string, desc string) {
	rep := r.or.Ask(cmd+" "+strings.Join(pages, " "), 1)[0]
	if !r.quiet {
		r.c.Hist["paging-predicates:"+strings.Fields(rep)[0]]++
	}
	if f := strings.Fields(rep); f[0] == "bad" {
		class := pagingClass[f[1]]
		if class == "" {
			class = "paging:" + f[1]
		}
		r.fail(class, fmt.Sprintf("%s: page sequence (size:token) %v violates %s (%s)", desc, pages, f[1], rep), false)
	}
}

// kinds of continuation tokens relative to the canonical / pre-confirmed border (height = number of canonical blocks)
func (r *realRun) countToken(nb, nc string, size int, height uint64, npre int) {
	if r.quiet || (nb == "0" && nc == "0") {
		return
	}
	b, _ := strconv.ParseUint(nb, 10, 64)
	c, _ := strconv.ParseUint(nc, 10, 64)
	h := r.c.Hist
	if size == 0 {
		h["token:empty-page(scan-limit)"]++
	}
	switch {
	case b < height && c == 0:
		h["token:canonical-block-start"]++
	case b < height:
		h["token:mid-canonical-block"]++
	}
	if npre == 0 {
		return
	}
	switch {
	case b+1 == height:
		h["border-token:last-canonical-block"]++
	case b == height && c == 0:
		h["border-token:first-preconfirmed-block-start"]++
	case b == height:
		h["border-token:mid-first-preconfirmed-block"]++
	case b > height && c == 0:
		h["border-token:later-preconfirmed-block-start"]++
	case b > height:
		h["border-token:mid-later-preconfirmed-block"]++
	}
}

func canonFiltered(e *blockchain.FilteredEvent) (string, string) {
	ks := make([]string, len(e.Keys))
	for i := range e.Keys {
		ks[i] = e.Keys[i].String()
	}
	ds := make([]string, len(e.Data))
	for i := range e.Data {
		ds[i] = e.Data[i].String()
	}
	short := fmt.Sprintf("%d.%d.%d", e.BlockNumber, e.TransactionIndex, e.EventIndex)
	bh, th := "<nil>", "<nil>"
	if e.BlockHash != nil {
		bh = e.BlockHash.String()
	}
	if e.TransactionHash != nil {
		th = e.TransactionHash.String()
	}
	return short, fmt.Sprintf("%s|bh=%s|th=%s|from=%s|keys=%s|data=%s", short, bh, th, e.From.String(),
		strings.Join(ks, ","), strings.Join(ds, ","))
}

// one page through the real code
func (r *realRun) realPage(q *Qry, cfg pcfg, tok *blockchain.ContinuationToken) (short, full []string, next blockchain.ContinuationToken, err error) {
	addrs := make([]felt.Address, len(q.Addrs))
	for i, a := range q.Addrs {
		addrs[i] = felt.Address(*chain.F(a))
	}
	var keys [][]felt.Felt
	for _, alts := range q.Keys {
		row := make([]felt.Felt, len(alts))
		for i, k := range alts {
			row[i] = *chain.F(k)
		}
		keys = append(keys, row)
	}
	preFn := preConfNil
	if r.pre != nil {
		pc := r.pre
		preFn = func() (blockchain.PreConfirmedReader, error) { return pc, nil }
	}
	f, err := r.node.BC.EventFilter(addrs, keys, preFn)
	if err != nil {
		return nil, nil, next, err
	}
	defer f.Close()
	if err = f.SetRangeEndBlockByNumber(blockchain.EventFilterFrom, q.From); err != nil {
		return nil, nil, next, err
	}
	if err = f.SetRangeEndBlockByNumber(blockchain.EventFilterTo, q.To); err != nil {
		return nil, nil, next, err
	}
	var ef blockchain.EventFilterer = f
	if cfg.limit > 0 {
		ef = f.WithLimit(uint(cfg.limit))
	}
	evs, next, err := ef.Events(tok, cfg.chunk)
	if err != nil {
		return nil, nil, next, err
	}
	for i := range evs {
		s, fl := canonFiltered(&evs[i])
		short = append(short, s)
		full = append(full, fl)
	}
	return short, full, next, nil
}

func diffKind(got, want []string) string {
	gs := map[string]int{}
	for _, g := range got {
		gs[g]++
	}
	missing, extra := 0, 0
	for _, w := range want {
		if gs[w] > 0 {
			gs[w]--
		} else {
			missing++
		}
	}
	for _, n := range gs {
		extra += n
	}
	switch {
	case missing > 0 && extra == 0:
		return "missing"
	case missing == 0 && extra > 0:
		return "extra"
	case missing > 0:
		return "missing+extra"
	}
	return "reordered"
}

// model pages of one config from the current oracle state (used for counterfactuals)
func modelAll(or *hx.Oracle, q *Qry, cfg pcfg, maxPages int) ([]string, bool) {
	var all []string
	tb, tc := "0", "0"
	for p := 0; p < maxPages; p++ {
		rep := strings.Fields(or.Ask(fmt.Sprintf("query %s %d %d %d %d %s %s", filterWords(q), q.From, q.To, cfg.chunk, cfg.limit, tb, tc), 1)[0])
		if rep[0] != "page" {
			return all, false
		}
		if rep[1] != "-" {
			all = append(all, strings.Split(rep[1], ",")...)
		}
		tb, tc = rep[2], rep[3]
		if tb == "0" && tc == "0" {
			return all, true
		}
	}
	return all, false
}

func eqS(a, b []string) bool {
	if len(a) != len(b) {
		return false
	}
	for i := range a {
		if a[i] != b[i] {
			return false
		}
	}
	return true
}

func (r *realRun) classify(q *Qry, cfg pcfg, spec []string, kind string) string {
	hyp := r.or.Ask("hyp", 1)[0]
	if strings.Contains(hyp, "fresh=0") {
		r.or.Ask("push", 1)
		r.or.Ask("forgetall", 1)
		all, ok := modelAll(r.or, q, cfg, len(spec)+len(r.naive)+8)
		r.or.Ask("pop", 1)
		if ok && eqS(all, spec) {
			return "stale-cache-after-cross-window-reorg"
		}
	}
	if strings.Contains(hyp, "snapbad=1") || r.snapUnconsumed {
		return "stale-snapshot-after-reorg+ungraceful-restart"
	}
	if strings.Contains(hyp, "stalepers=1") {
		return "stale-persisted-window-on-rebuild-after-cross-window-revert"
	}
	return "unexplained:" + kind
}

// the pre-confirmed chain handed to EventFilter (what rpc/v10 gets from syncReader.PreConfirmedChain)
type preChain struct{ items []*pending.PreConfirmed }

func (p *preChain) Length() int                { return len(p.items) }
func (p *preChain) Head() *pending.PreConfirmed { return p.items[len(p.items)-1] }
func (p *preChain) OldestFirst() iter.Seq[*pending.PreConfirmed] {
	return func(yield func(*pending.PreConfirmed) bool) {
		for _, x := range p.items {
			if !yield(x) {
				return
			}
		}
	}
}

// buildPre turns block specs into pre-confirmed blocks numbered height, height+1, ... and returns the
// naive view of their events.
func buildPre(height uint64, pre []*Blk) (*preChain, [][]nev) {
	pc := &preChain{}
	var views [][]nev
	for i, b := range pre {
		n := height + uint64(i)
		var rcs []*core.TransactionReceipt
		var view []nev
		for ti, t := range b.Txs {
			th := chain.F(7_000_000 + n*100 + uint64(ti))
			rc := &core.TransactionReceipt{TransactionHash: th}
			for ei, e := range t {
				ev := &core.Event{From: chain.F(e.From)}
				ks := make([]string, len(e.Keys))
				for j, k := range e.Keys {
					ev.Keys = append(ev.Keys, *chain.F(k))
					ks[j] = chain.F(k).String()
				}
				ds := make([]string, len(e.Data))
				for j, d := range e.Data {
					ev.Data = append(ev.Data, *chain.F(d))
					ds[j] = chain.F(d).String()
				}
				rc.Events = append(rc.Events, ev)
				view = append(view, nev{tx: ti, idx: ei, from: e.From, keys: e.Keys,
					canonical: fmt.Sprintf("%d.%d.%d|bh=<nil>|th=%s|from=%s|keys=%s|data=%s", n, ti, ei,
						th.String(), chain.F(e.From).String(), strings.Join(ks, ","), strings.Join(ds, ","))})
			}
			rcs = append(rcs, rc)
		}
		blk := &core.Block{Header: &core.Header{Number: n, EventsBloom: core.EventsBloom(rcs),
			TransactionCount: uint64(len(rcs))}, Receipts: rcs}
		pc.items = append(pc.items, &pending.PreConfirmed{Block: blk})
		views = append(views, view)
	}
	return pc, views
}

func blkWords(pre []*Blk) string {
	w := make([]string, len(pre))
	for i, b := range pre {
		w[i] = blkLine(b)
	}
	return strings.Join(w, " ")
}

func (r *realRun) query(q *Qry, cfgs []pcfg) { r.queryX(q, nil, cfgs) }

func (r *realRun) queryX(q *Qry, pre []*Blk, cfgs []pcfg) {
	shortSpec, fullSpec := r.naiveScan(q)
	height := uint64(len(r.naive))
	var pc *preChain
	qword, sword, preWords := "query", "spec", ""
	if len(pre) > 0 && height > 0 {
		var views [][]nev
		pc, views = buildPre(height, pre)
		qword, sword, preWords = "queryp", "specp", " "+blkWords(pre)
		for i, view := range views {
			n := height + uint64(i)
			if n < q.From || n > q.To {
				continue
			}
			for _, e := range view {
				if naiveMatch(q, e.from, e.keys) {
					shortSpec = append(shortSpec, fmt.Sprintf("%d.%d.%d", n, e.tx, e.idx))
					fullSpec = append(fullSpec, e.canonical)
				}
			}
		}
	}
	r.pre = pc
	defer func() { r.pre = nil }()
	// the Go naive scan and the theorem's filter_spec must be the same function
	ms := strings.Fields(r.or.Ask(fmt.Sprintf("%s %s %d %d%s", sword, filterWords(q), q.From, q.To, preWords), 1)[0])
	if ms[1] != evsWord(shortSpec) {
		r.fail("spec-mismatch", fmt.Sprintf("naive scan %s vs filter_spec %s for %+v", evsWord(shortSpec), ms[1], *q), true)
	}
	for _, cfg := range cfgs {
		var allShort, allFull []string
		var tok *blockchain.ContinuationToken
		tb, tc := "0", "0"
		maxPages := len(shortSpec) + len(r.naive) + 8
		pages := 0
		failed := false
		var seq []string
		for {
			pages++
			short, full, next, err := r.realPage(q, cfg, tok)
			m := r.or.Ask(fmt.Sprintf("%s %s %d %d %d %d %s %s%s", qword, filterWords(q), q.From, q.To, cfg.chunk, cfg.limit, tb, tc, preWords), 1)[0]
			var impl string
			if err != nil {
				impl = "err"
			} else {
				nb, nc := "0", "0"
				if !next.IsEmpty() {
					p := strings.SplitN(next.String(), "-", 2)
					nb, nc = p[0], p[1]
				}
				impl = fmt.Sprintf("page %s %s %s", evsWord(short), nb, nc)
			}
			if impl != m {
				r.fail("model-mismatch:page", fmt.Sprintf("query %+v chunk=%d limit=%d token=%s-%s: implementation %q (%v), model %q",
					*q, cfg.chunk, cfg.limit, tb, tc, impl, err, m), true)
			}
			if err != nil {
				failed = true
				if len(r.naive) > 0 {
					r.fail(r.classifyErr(), fmt.Sprintf("query %+v chunk=%d limit=%d fails: %v", *q, cfg.chunk, cfg.limit, err), false)
				}
				break
			}
			allShort = append(allShort, short...)
			allFull = append(allFull, full...)
			{
				nb, nc := "0", "0"
				if !next.IsEmpty() {
					p := strings.SplitN(next.String(), "-", 2)
					nb, nc = p[0], p[1]
				}
				seq = append(seq, fmt.Sprintf("%d:%s:%s", len(short), nb, nc))
				r.countToken(nb, nc, len(short), height, len(pre))
			}
			if next.IsEmpty() {
				break
			}
			if pages > maxPages {
				r.fail("paging-no-progress", fmt.Sprintf("query %+v chunk=%d limit=%d: more than %d pages", *q, cfg.chunk, cfg.limit, maxPages), false)
				failed = true
				break
			}
			nt := next
			tok = &nt
			p := strings.SplitN(next.String(), "-", 2)
			tb, tc = p[0], p[1]
		}
		if !r.quiet {
			key := fmt.Sprintf("%v|%d|%d|%d", *q, cfg.chunk, cfg.limit, len(r.naive))
			r.c.Count(key, pages > 1 || len(shortSpec) > 0)
			r.c.Hist[fmt.Sprintf("pages:%s", bucket(pages))]++
		}
		if failed {
			continue
		}
		npre := 0
		if pc != nil {
			npre = len(pre)
		}
		r.checkPaging(fmt.Sprintf("pgseq %d %d %d %d %d %d", q.From, q.To, cfg.chunk, cfg.limit, len(shortSpec), npre), seq,
			fmt.Sprintf("query %+v chunk=%d limit=%d height=%d preconfirmed=[%s]", *q, cfg.chunk, cfg.limit, len(r.naive), strings.TrimSpace(preWords)))
		if !eqS(allFull, fullSpec) {
			kind := diffKind(allShort, shortSpec)
			if kind == "reordered" && eqS(allShort, shortSpec) {
				kind = "tags"
			}
			var class string
			canon := func(xs []string) []string { // events of canonical blocks only
				var out []string
				for _, x := range xs {
					b, _ := strconv.ParseUint(strings.SplitN(x, ".", 2)[0], 10, 64)
					if b < height {
						out = append(out, x)
					}
				}
				return out
			}
			if pc != nil && eqS(canon(allShort), canon(shortSpec)) {
				class = "preconfirmed:" + kind
			} else {
				class = r.classify(q, cfg, canon(shortSpec), kind)
			}
			r.fail(class, fmt.Sprintf("query %+v chunk=%d limit=%d height=%d preconfirmed=[%s]: got %s want %s (%s)", *q, cfg.chunk, cfg.limit,
				len(r.naive), strings.TrimSpace(preWords), evsWord(allShort), evsWord(shortSpec), kind), false)
		}
	}
}

// sweep: every range [a, b] around the window boundary W (b = W-2..W+2, a in {0, W-192, W-1, W}), chunk sizes
// 1..3 with continuation tokens crossing the boundary, with and without a scan limit
func (r *realRun) sweep(W uint64) {
	var cfgs []pcfg
	for ch := uint64(1); ch <= 3; ch++ {
		cfgs = append(cfgs, pcfg{ch, 0}, pcfg{ch, 1}, pcfg{ch, 2})
	}
	for _, a := range []uint64{0, W - 192, W - 1, W} {
		for b := W - 2; b <= W+2; b++ {
			r.query(&Qry{Addrs: []uint64{10}, From: a, To: b}, cfgs)
			r.query(&Qry{Keys: [][]uint64{{}, {2, 3}}, From: a, To: b}, cfgs[:3])
			if !r.quiet {
				r.c.Hist["sweep-range"]++
			}
		}
	}
}

func (r *realRun) classifyErr() string {
	hyp := r.or.Ask("hyp", 1)[0]
	if strings.Contains(hyp, "snapbad=1") || r.snapUnconsumed {
		return "query-error:stale-snapshot"
	}
	if strings.Contains(hyp, "stalepers=1") {
		return "query-error:stale-persisted-window"
	}
	return "query-error:unexplained"
}

func bucket(n int) string {
	switch {
	case n <= 1:
		return "1"
	case n <= 3:
		return "2-3"
	case n <= 8:
		return "4-8"
	}
	return "9+"
}

// real bloom bit locations of the key universe, so that the model's membership test is the real one
func sendLocations(or *hx.Oracle, addrs, keys []uint64, positions int) {
	bits := func(b []byte) string {
		bf := core.EventsBloom(nil)
		bf.Add(b)
		bs := bf.BitSet()
		var out []string
		for i, ok := bs.NextSet(0); ok; i, ok = bs.NextSet(i + 1) {
			out = append(out, strconv.Itoa(int(i)))
		}
		return strings.Join(out, " ")
	}
	for _, a := range addrs {
		b := chain.F(a).Bytes()
		or.Ask(fmt.Sprintf("loc a %d %s", a, bits(b[:])), 1)
	}
	for _, k := range keys {
		for p := 0; p < positions; p++ {
			b := chain.F(k).Bytes()
			kb := binary.AppendVarint(b[:], int64(p))
			or.Ask(fmt.Sprintf("loc k %d %d %s", p, k, bits(kb)), 1)
		}
	}
}

var uniAddrs = []uint64{10, 11, 12, 13, 99}
var uniKeys = []uint64{1, 2, 3, 7}

const uniPositions = 4

func runReal(c *hx.Ctx, or *hx.Oracle, h *History, cfgs []pcfg, quiet bool) []viol {
	or.Ask(fmt.Sprintf("reset %d", core.NumBlocksPerFilter), 1)
	sendLocations(or, uniAddrs, uniKeys, uniPositions)
	r := &realRun{c: c, or: or, node: chain.NewNode(nil, h.NewState), newState: h.NewState, quiet: quiet}
	for _, o := range h.Ops {
		heightBefore := len(r.naive)
		switch o.K {
		case "store":
			r.store(o.Blk)
		case "light":
			for i := 0; i < o.N; i++ {
				if !r.store(&Blk{Salt: o.S}) {
					break
				}
			}
		case "revert":
			for i := 0; i < o.N; i++ {
				if !r.revert() {
					break
				}
			}
		case "restart":
			r.restart(o.G)
		case "query":
			r.query(o.Q, cfgs)
		case "queryp":
			r.queryX(o.Q, o.Pre, cfgs)
		case "sweep":
			r.sweep(uint64(o.N))
		case "rpcq":
			r.rpcQuery(o.Q, o.FB, o.TB, o.Pre)
		case "l1":
			if n := uint64(o.N); n < uint64(len(r.naive)) {
				b, err := r.node.BC.BlockByNumber(n)
				hx.Must(err)
				hx.Must(r.node.BC.SetL1Head(&core.L1Head{BlockNumber: n, BlockHash: b.Hash, StateRoot: b.GlobalStateRoot}))
				r.l1 = &n
			}
		}
		r.checkSnap(&o, len(r.naive) != heightBefore)
	}
	// the naive table must still be what the database holds
	if n := len(r.naive); n > 0 {
		for _, b := range []int{0, n / 2, n - 1} {
			got := r.readBack(uint64(b))
			for i := range got {
				if i >= len(r.naive[b]) || got[i].canonical != r.naive[b][i].canonical {
					hx.Fatalf("naive table out of sync at block %d", b)
				}
			}
		}
	}
	return r.viols
}

// ---------- generators ----------
func genEvent(rng *hx.RNG, addrs []uint64) chain.Ev {
	e := chain.Ev{From: addrs[rng.Intn(len(addrs))]}
	nk := rng.Intn(4)
	for i := 0; i < nk; i++ {
		e.Keys = append(e.Keys, uniKeys[rng.Intn(3)])
	}
	nd := rng.Intn(3)
	for i := 0; i < nd; i++ {
		e.Data = append(e.Data, uint64(rng.Intn(50)))
	}
	return e
}

func genBlock(rng *hx.RNG, addrs []uint64, salt uint64) *Blk {
	b := &Blk{Salt: salt}
	if rng.Chance(25) {
		return b
	}
	nt := 1 + rng.Intn(3)
	for t := 0; t < nt; t++ {
		ne := rng.Intn(4)
		tx := []chain.Ev{}
		for i := 0; i < ne; i++ {
			tx = append(tx, genEvent(rng, addrs))
		}
		b.Txs = append(b.Txs, tx)
	}
	return b
}

func genFilter(rng *hx.RNG) ([]uint64, [][]uint64) {
	var addrs []uint64
	switch rng.Intn(5) {
	case 0:
	case 1, 2:
		addrs = []uint64{uniAddrs[rng.Intn(4)]}
	case 3:
		addrs = []uint64{uniAddrs[rng.Intn(4)], uniAddrs[rng.Intn(5)]}
	case 4:
		addrs = []uint64{99}
	}
	var keys [][]uint64
	switch rng.Intn(9) {
	case 8:
		keys = [][]uint64{{uniKeys[rng.Intn(3)], uniKeys[rng.Intn(3)]}, {}}
	case 0, 1, 2:
	case 3:
		keys = [][]uint64{{uniKeys[rng.Intn(3)]}}
	case 4:
		keys = [][]uint64{{1, 2}}
	case 5:
		keys = [][]uint64{{}, {uniKeys[rng.Intn(3)]}}
	case 6:
		keys = [][]uint64{{uniKeys[rng.Intn(3)]}, {}, {uniKeys[rng.Intn(4)], 3}}
	case 7:
		keys = [][]uint64{{}, {}}
	}
	return addrs, keys
}

func genQuery(rng *hx.RNG, height int, points []uint64) *Qry {
	if height < 0 {
		height = 0
	}
	a, k := genFilter(rng)
	q := &Qry{Addrs: a, Keys: k}
	pick := func() uint64 {
		if len(points) > 0 && rng.Chance(60) {
			return points[rng.Intn(len(points))]
		}
		if height <= 0 {
			return 0
		}
		return uint64(rng.Intn(height))
	}
	switch rng.Intn(6) {
	case 0, 1, 2:
		q.From, q.To = 0, uint64(height+3)
	case 3:
		q.From, q.To = pick(), uint64(height)
	case 4:
		x, y := pick(), pick()
		if x > y {
			x, y = y, x
		}
		q.From, q.To = x, y
	case 5:
		q.From, q.To = pick(), pick() // possibly from > to
	}
	return q
}

// a query whose range reaches 1..3 pre-confirmed blocks above the head
func genQueryP(rng *hx.RNG, height int, addrs []uint64) Op {
	np := 1 + rng.Intn(3)
	var pre []*Blk
	for i := 0; i < np; i++ {
		b := genBlock(rng, addrs, 7)
		if len(b.Txs) == 0 && rng.Chance(70) {
			b.Txs = [][]chain.Ev{{genEvent(rng, addrs), genEvent(rng, addrs)}}
		}
		pre = append(pre, b)
	}
	q := genQuery(rng, height-1+np, nil)
	if rng.Chance(70) {
		q.To = uint64(height + np + 1)
	}
	return Op{K: "queryp", Q: q, Pre: pre}
}

// a starknet_getEvents request with random block ids (numbers up to 3 above the head, hashes, tags)
func genRPCQ(rng *hx.RNG, height int, addrs []uint64) Op {
	bid := func() *BID {
		switch rng.Intn(8) {
		case 0:
			return nil
		case 1:
			return &BID{K: "latest"}
		case 2:
			return &BID{K: "pre"}
		case 3:
			return &BID{K: "h", N: uint64(rng.Intn(height + 2))}
		}
		return &BID{K: "n", N: uint64(rng.Intn(height + 4))}
	}
	op := genQueryP(rng, height, addrs)
	op.K, op.FB, op.TB = "rpcq", bid(), bid()
	if rng.Chance(40) {
		op.Pre = nil
	}
	return op
}

func genShort(rng *hx.RNG) *History {
	h := &History{Kind: "real", W: core.NumBlocksPerFilter, NewState: rng.Bool()}
	height := 0
	salt := uint64(0)
	n := 8 + rng.Intn(30)
	addrs := uniAddrs[:4]
	for i := 0; i < n; i++ {
		x := rng.Intn(100)
		switch {
		case x < 55 || height == 0:
			h.Ops = append(h.Ops, Op{K: "store", Blk: genBlock(rng, addrs, salt)})
			height++
		case x < 67:
			k := 1 + rng.Intn(3)
			if k > height {
				k = height
			}
			h.Ops = append(h.Ops, Op{K: "revert", N: k})
			height -= k
			salt++
		case x < 80:
			h.Ops = append(h.Ops, Op{K: "restart", G: rng.Bool()})
		case x < 90:
			h.Ops = append(h.Ops, Op{K: "query", Q: genQuery(rng, height-1, nil)})
		case x < 95:
			h.Ops = append(h.Ops, genQueryP(rng, height, addrs))
		default:
			h.Ops = append(h.Ops, genRPCQ(rng, height, addrs))
		}
	}
	var qs []Op
	for i := 0; i < 3; i++ {
		qs = append(qs, Op{K: "query", Q: genQuery(rng, height-1, nil)})
	}
	qs = append(qs, genQueryP(rng, height, addrs), genRPCQ(rng, height, addrs))
	h.Ops = append(h.Ops, qs...)
	h.Ops = append(h.Ops, Op{K: "restart", G: false})
	h.Ops = append(h.Ops, qs...)
	return h
}

// buildTo appends ops that extend the chain from height cur (number of blocks) to height target, placing
// event blocks at the given block numbers and empty blocks elsewhere.
func buildTo(ops []Op, rng *hx.RNG, cur, target int, at map[int]bool, addrs []uint64, salt uint64) []Op {
	run := 0
	flush := func() {
		if run > 0 {
			ops = append(ops, Op{K: "light", N: run, S: salt})
			run = 0
		}
	}
	for n := cur; n < target; n++ {
		if at[n] {
			flush()
			b := genBlock(rng, addrs, salt)
			if len(b.Txs) == 0 {
				b.Txs = [][]chain.Ev{{genEvent(rng, addrs)}}
			}
			ops = append(ops, Op{K: "store", Blk: b})
		} else {
			run++
		}
	}
	flush()
	return ops
}

// long histories: real 8192-block window, reorg across the boundary after the cache was warmed
func genLong(rng *hx.RNG, shape int) *History {
	W := int(core.NumBlocksPerFilter)
	h := &History{Kind: "real", W: uint64(W), NewState: rng.Bool()}
	setA := []uint64{10, 11}
	setB := []uint64{12, 13}
	at := map[int]bool{}
	var points []uint64
	for i := 0; i < 4; i++ {
		at[60+rng.Intn(80)] = true
	}
	for _, n := range []int{W - 3, W - 2, W - 1, W, W + 1} {
		if rng.Chance(75) {
			at[n] = true
		}
	}
	for n := range at {
		points = append(points, uint64(n))
	}
	points = append(points, 0, uint64(W-1), uint64(W))
	sort.Slice(points, func(i, j int) bool { return points[i] < points[j] })
	h1 := W + 1 + rng.Intn(5)
	h.Ops = buildTo(h.Ops, rng, 0, h1, at, setA, 0)
	addQueries := func(k, height int) {
		for i := 0; i < k; i++ {
			h.Ops = append(h.Ops, Op{K: "query", Q: selective(genQuery(rng, height-1, points))})
		}
		// one whole-chain query per address set so that every window is touched
		h.Ops = append(h.Ops, Op{K: "query", Q: &Qry{Addrs: []uint64{setA[0], setB[0]}, From: 0, To: uint64(height + 2)}})
	}
	addQueries(2, h1) // warms the cache with window 0
	// phase C: restart before the reorg
	c := rng.Intn(10)
	if shape == 0 || shape == 1 {
		c = 9
	}
	if c < 3 {
		h.Ops = append(h.Ops, Op{K: "restart", G: true})
		addQueries(1, h1)
	} else if c < 5 {
		h.Ops = append(h.Ops, Op{K: "restart", G: false})
		addQueries(1, h1)
	}
	// phase D: revert so that R blocks remain
	var R int
	d := rng.Intn(10)
	if shape == 0 || shape == 1 {
		d = 0
	}
	switch {
	case d < 5:
		R = 40 + rng.Intn(20)
	case d < 7:
		R = W - 8 + rng.Intn(7)
	case d < 8:
		R = W
	default:
		R = W + 1
	}
	if R > h1 {
		R = h1
	}
	h.Ops = append(h.Ops, Op{K: "revert", N: h1 - R})
	addQueries(2, R)
	// phase F: a few different blocks on top
	cur := R
	if R < W-40 {
		m := 3 + rng.Intn(25)
		at2 := map[int]bool{R: true, R + 1 + rng.Intn(m-1): true}
		h.Ops = buildTo(h.Ops, rng, cur, cur+m, at2, setB, 1)
		cur += m
	}
	// phase G: restart in the middle of the reorg
	g := rng.Intn(10)
	if shape == 0 {
		g = 9
	}
	if shape == 1 {
		g = 0
	}
	if g < 4 {
		h.Ops = append(h.Ops, Op{K: "restart", G: false})
	} else if g < 6 {
		h.Ops = append(h.Ops, Op{K: "restart", G: true})
	}
	addQueries(2, cur)
	// phase H: rebuild past the boundary with different events at the same numbers
	h2 := W + 1 + rng.Intn(5)
	if cur < h2 {
		h.Ops = buildTo(h.Ops, rng, cur, h2, at, setB, 1)
		cur = h2
	}
	addQueries(3, cur)
	h.Ops = append(h.Ops, Op{K: "restart", G: false})
	addQueries(2, cur)
	return h
}

// long histories, second family: reorgs of depth 1..3 around a window edge (head on the last block of a
// window, on the first block of the next one, or one above), the window cached by queries before and between
// the reverts, different blocks stored at the same heights afterwards
// on the 8192-block chains a filter without address and keys makes every block a candidate (thousands of
// pages under a scan limit): give it an address set
func selective(q *Qry) *Qry {
	if len(q.Addrs) == 0 && len(q.Keys) == 0 {
		q.Addrs = []uint64{10, 12}
	}
	return q
}

func genEdge(rng *hx.RNG) *History {
	W := int(core.NumBlocksPerFilter)
	h := &History{Kind: "real", W: uint64(W), NewState: rng.Bool()}
	sets := [][]uint64{{10, 11}, {12, 13}}
	at := map[int]bool{60 + rng.Intn(60): true, W - 3: true, W - 2: true}
	height := W - 1 + rng.Intn(3) // head = W-2, W-1 or W before the first round
	h.Ops = buildTo(h.Ops, rng, 0, height, at, sets[0], 0)
	points := []uint64{0, uint64(W - 3), uint64(W - 1), uint64(W)}
	queries := func(k int) {
		for i := 0; i < k; i++ {
			h.Ops = append(h.Ops, Op{K: "query", Q: selective(genQuery(rng, height-1, points))})
		}
		h.Ops = append(h.Ops, Op{K: "query", Q: &Qry{Addrs: []uint64{10, 12}, From: 0, To: uint64(height + 2)}})
	}
	rounds := 3 + rng.Intn(2)
	for round := 1; round <= rounds; round++ {
		set := sets[round%2]
		// grow to one of the edge heights with event blocks
		target := W - 1 + rng.Intn(3) + 1
		for height < target {
			b := genBlock(rng, set, uint64(round))
			if len(b.Txs) == 0 {
				b.Txs = [][]chain.Ev{{genEvent(rng, set)}}
			}
			h.Ops = append(h.Ops, Op{K: "store", Blk: b})
			height++
		}
		queries(1)
		d := 1 + rng.Intn(3)
		for i := 0; i < d; i++ {
			h.Ops = append(h.Ops, Op{K: "revert", N: 1})
			height--
			if rng.Chance(50) {
				queries(0)
			}
		}
		if rng.Chance(15) {
			h.Ops = append(h.Ops, Op{K: "restart", G: rng.Bool()})
		}
	}
	set := sets[(rounds+1)%2]
	for i := 0; i < 2; i++ {
		h.Ops = append(h.Ops, Op{K: "store", Blk: &Blk{Txs: [][]chain.Ev{{genEvent(rng, set), genEvent(rng, set)}}, Salt: 9}})
		height++
	}
	queries(2)
	return h
}

// ---------- model-only histories at small W ----------
func runModel(c *hx.Ctx, or *hx.Oracle, h *History, cfgs []pcfg) []viol {
	var viols []viol
	or.Ask(fmt.Sprintf("reset %d", h.W), 1)
	var ch []*Blk
	okStep := func(line string) bool { return or.Ask(line, 1)[0] == "ok" }
	for _, o := range h.Ops {
		switch o.K {
		case "store":
			if okStep("store " + blkLine(o.Blk)) {
				ch = append(ch, o.Blk)
			} else {
				c.Hist["model:store-refused"]++
			}
		case "revert":
			for i := 0; i < o.N; i++ {
				if okStep("revert") {
					ch = ch[:len(ch)-1]
				}
			}
		case "restart":
			if o.G {
				or.Ask("restart g", 1)
			} else {
				or.Ask("restart u", 1)
			}
		case "forget":
			or.Ask("forget "+joinU(o.Ws, " ", ""), 1)
		case "query":
			q := o.Q
			var spec []string
			if len(ch) > 0 {
				to := q.To
				if to > uint64(len(ch)-1) {
					to = uint64(len(ch) - 1)
				}
				for n := q.From; n <= to; n++ {
					for ti, t := range ch[n].Txs {
						for ei, e := range t {
							if naiveMatch(q, e.From, e.Keys) {
								spec = append(spec, fmt.Sprintf("%d.%d.%d", n, ti, ei))
							}
						}
					}
				}
			}
			ms := strings.Fields(or.Ask(fmt.Sprintf("spec %s %d %d", filterWords(q), q.From, q.To), 1)[0])
			if ms[1] != evsWord(spec) {
				viols = append(viols, viol{"spec-mismatch", fmt.Sprintf("naive scan %s vs filter_spec %s for %+v", evsWord(spec), ms[1], *q), true})
			}
			for _, cfg := range cfgs {
				hyp := or.Ask("hyp", 1)[0]
				all, ok := modelAll(or, q, cfg, len(spec)+len(ch)+8)
				c.Count(fmt.Sprintf("m|%d|%v|%d|%d|%d", h.W, *q, cfg.chunk, cfg.limit, len(ch)), len(spec) > 0)
				good := ok && eqS(all, spec)
				hypOK := hyp == "fresh=1 snapbad=0 stalepers=0"
				switch {
				case good:
					c.Hist["model:exact"]++
				case len(ch) == 0:
					c.Hist["model:empty-chain-error"]++
				case !hypOK:
					c.Hist["model:inexact-under-"+strings.ReplaceAll(hyp, " ", ",")]++
				default:
					viols = append(viols, viol{"model-contradicts-theorem",
						fmt.Sprintf("W=%d query %+v chunk=%d limit=%d: model pages %s (complete=%v) vs spec %s although every hypothesis holds",
							h.W, *q, cfg.chunk, cfg.limit, evsWord(all), ok, evsWord(spec)), true})
				}
			}
		}
	}
	return viols
}

func genModel(rng *hx.RNG) *History {
	W := 2 + rng.Intn(4)
	h := &History{Kind: "model", W: uint64(W)}
	height := 0
	salt := uint64(0)
	n := 15 + rng.Intn(40)
	addrs := uniAddrs[:4]
	for i := 0; i < n; i++ {
		x := rng.Intn(100)
		switch {
		case x < 50 || height == 0:
			h.Ops = append(h.Ops, Op{K: "store", Blk: genBlock(rng, addrs, salt)})
			height++
		case x < 65:
			k := 1 + rng.Intn(2*W)
			if k > height {
				k = height
			}
			h.Ops = append(h.Ops, Op{K: "revert", N: k})
			height -= k
			salt++
		case x < 75:
			h.Ops = append(h.Ops, Op{K: "restart", G: rng.Bool()})
		case x < 80:
			h.Ops = append(h.Ops, Op{K: "forget", Ws: []uint64{uint64(rng.Intn(4) * W)}})
		default:
			h.Ops = append(h.Ops, Op{K: "query", Q: genQuery(rng, height-1, nil)})
		}
	}
	h.Ops = append(h.Ops, Op{K: "query", Q: genQuery(rng, height-1, nil)})
	return h
}

// ---------- shrinking (short real histories only) ----------
func hasClass(vs []viol, class string) *viol {
	for i := range vs {
		if vs[i].class == class {
			return &vs[i]
		}
	}
	return nil
}

func blocksOf(h *History) int {
	n := 0
	for _, o := range h.Ops {
		switch o.K {
		case "store":
			n++
		case "light":
			n += o.N
		}
	}
	return n
}

func shrink(c *hx.Ctx, or *hx.Oracle, h *History, class string, cfgs []pcfg) (*History, *viol) {
	cur := h
	best := hasClass(runReal(c, or, cur, cfgs, true), class)
	if best == nil {
		return h, nil
	}
	budget := 250
	for changed := true; changed && budget > 0; {
		changed = false
		for i := len(cur.Ops) - 1; i >= 0 && budget > 0; i-- {
			cand := &History{Kind: cur.Kind, W: cur.W, NewState: cur.NewState}
			cand.Ops = append(append([]Op{}, cur.Ops[:i]...), cur.Ops[i+1:]...)
			budget--
			if v := hasClass(runReal(c, or, cand, cfgs, true), class); v != nil {
				cur, best, changed = cand, v, true
			}
		}
	}
	// empty the blocks that do not matter
	for i := range cur.Ops {
		if cur.Ops[i].K == "store" && len(cur.Ops[i].Blk.Txs) > 0 && budget > 0 {
			cand := &History{Kind: cur.Kind, W: cur.W, NewState: cur.NewState, Ops: append([]Op{}, cur.Ops...)}
			cand.Ops[i] = Op{K: "store", Blk: &Blk{Salt: cur.Ops[i].Blk.Salt}}
			budget--
			if v := hasClass(runReal(c, or, cand, cfgs, true), class); v != nil {
				cur, best = cand, v
			}
		}
	}
	return cur, best
}

// classes registered as known findings of C09 need no shrinking (hx prints them as KNOWN-FINDING)
var knownClasses = func() map[string]bool {
	m := map[string]bool{}
	path := "/verif/known_findings.json"
	if f := flag.Lookup("known"); f != nil && f.Value.String() != "" {
		path = f.Value.String()
	}
	var all []hx.Known
	if b, err := os.ReadFile(path); err == nil && json.Unmarshal(b, &all) == nil {
		for _, k := range all {
			if k.Property == "C09" && k.Kind == "known" {
				m[k.ID] = true
			}
		}
	}
	return m
}

func report(c *hx.Ctx, or *hx.Oracle, h *History, vs []viol, cfgs []pcfg) {
	known := knownClasses()
	for _, v := range vs {
		hh, vv := h, &v
		if h.Kind == "real" && blocksOf(h) < 400 && !known[v.class] {
			if s, sv := shrink(c, or, h, v.class, cfgs); sv != nil {
				hh, vv = s, sv
			}
		}
		c.Violation(vv.class, vv.what, hh, vv.noInput)
	}
}

func classesOf(vs []viol) []string {
	r := []string{}
	for _, v := range vs {
		r = append(r, v.class)
	}
	return r
}

func evB(from uint64) *Blk { return &Blk{Txs: [][]chain.Ev{{{From: from, Keys: []uint64{1}}}}} }

func corpus() []*History {
	W := int(core.NumBlocksPerFilter)
	qa := func(a uint64, to int) Op { return Op{K: "query", Q: &Qry{Addrs: []uint64{a}, From: 0, To: uint64(to)}} }
	b12 := evB(12)
	b12.Salt = 1
	return []*History{
		// regression input for /repo 5bb6f6f (stale cache): window 0 cached by a query, reverted into, refilled
		// with different blocks; the last queries must now be exact on the long-lived instance
		// (first: events in blocks W-1, W, W+1 and a sweep of all ranges around the boundary, once with the head
		// exactly at W and once at W+2 - before any reorg, so the cache is fresh)
		{Kind: "real", W: uint64(W), NewState: true, Ops: []Op{
			{K: "light", N: 100}, {K: "store", Blk: evB(10)}, {K: "light", N: W - 1 - 101},
			// reorgs of depth 1 and 2 at the window edge: head on the LAST block of window 0 (the window has just
			// been persisted and is cached by a query), the block is replaced by one with other events; then the
			// mirror with the head on the first block of the next window and a query between the two reverts
			{K: "store", Blk: evB(12)}, qa(12, W+2), {K: "revert", N: 1}, {K: "store", Blk: bnd(11)}, qa(11, W+2), qa(12, W+2),
			{K: "store", Blk: evB(13)}, qa(13, W+2), {K: "revert", N: 1}, qa(11, W+2), {K: "revert", N: 1},
			{K: "store", Blk: bnd(10)}, {K: "store", Blk: bnd(10)}, qa(10, W+2), qa(11, W+2), qa(13, W+2),
			{K: "sweep", N: W},
			{K: "store", Blk: bnd(10)}, {K: "light", N: 1}, {K: "sweep", N: W}, qa(10, W+2),
			{K: "revert", N: W + 3 - 51}, {K: "light", N: 49, S: 1}, {K: "store", Blk: b12}, {K: "light", N: W - 101 + 3, S: 1},
			qa(12, W+2), qa(10, W+2)}},
		// stale snapshot: written at a graceful stop, head replaced afterwards, then a crash
		{Kind: "real", W: uint64(W), NewState: false, Ops: []Op{
			{K: "light", N: 3}, {K: "store", Blk: evB(10)}, {K: "restart", G: true}, {K: "revert", N: 1},
			{K: "store", Blk: b12}, {K: "restart", G: false}, qa(12, 3), qa(10, 3)}},
		// regression input for /repo 5440575 (stale persisted window found by the rebuild): revert across the
		// boundary, new block below it, crash -> rebuild; must now be exact and the following Store must succeed
		{Kind: "real", W: uint64(W), NewState: true, Ops: []Op{
			{K: "light", N: W + 1}, {K: "revert", N: W + 1 - 51}, {K: "store", Blk: b12}, {K: "restart", G: false},
			qa(12, 60), {K: "light", N: 1, S: 1}}},
		// pre-confirmed blocks above the head: wildcard key positions, alternatives, address sets, ranges that
		// start below / at / above the head, tokens crossing the canonical / pre-confirmed border
		{Kind: "real", W: uint64(W), NewState: false, Ops: preOps()},
		// starknet_getEvents through rpc v8 / v9 / v10: every kind of block id, incl. numbers above the head
		{Kind: "real", W: uint64(W), NewState: true, Ops: rpcOps()},
	}
}

func rpcOps() []Op {
	pre := []*Blk{
		{Txs: [][]chain.Ev{{{From: 10, Keys: []uint64{1, 2}}, {From: 11, Keys: []uint64{3}}}}},
		{Txs: [][]chain.Ev{{{From: 10, Keys: []uint64{1}}}, {{From: 10, Keys: []uint64{2, 2}}}}},
	}
	ops := []Op{{K: "store", Blk: evB(10)}, {K: "store", Blk: bnd(10)}, {K: "light", N: 1}, {K: "store", Blk: bnd(11)},
		{K: "store", Blk: bnd(10)}, {K: "l1", N: 2}} // head = 4
	froms := []*BID{nil, {K: "n", N: 0}, {K: "n", N: 3}, {K: "n", N: 4}, {K: "n", N: 5}, {K: "n", N: 6}, {K: "n", N: 9},
		{K: "h", N: 1}, {K: "h", N: 77}, {K: "latest"}, {K: "pre"}, {K: "l1"}}
	tos := []*BID{nil, {K: "latest"}, {K: "pre"}, {K: "n", N: 3}, {K: "n", N: 7}, {K: "h", N: 4}, {K: "l1"}, {K: "n", N: 0}}
	filters := []Qry{{}, {Addrs: []uint64{10}}, {Keys: [][]uint64{{}, {2}}}, {Addrs: []uint64{10, 11}, Keys: [][]uint64{{1, 2}}}}
	i := 0
	for _, fb := range froms {
		for j, tb := range tos {
			if (i+j)%2 == 1 && fb != nil && fb.K != "n" {
				continue
			}
			q := filters[i%len(filters)]
			op := Op{K: "rpcq", Q: &q, FB: fb, TB: tb}
			if i%3 != 2 {
				op.Pre = pre
			}
			ops = append(ops, op)
			i++
		}
	}
	return ops
}

func bnd(a uint64) *Blk {
	return &Blk{Txs: [][]chain.Ev{{{From: a, Keys: []uint64{1, 2}}, {From: a, Keys: []uint64{2, 3}}}, {{From: a, Keys: []uint64{1}}}}}
}

func preOps() []Op {
	pre := []*Blk{
		{Txs: [][]chain.Ev{{{From: 10, Keys: []uint64{1, 2}}, {From: 11, Keys: []uint64{3, 2}, Data: []uint64{5}}}}},
		{Txs: [][]chain.Ev{}},
		{Txs: [][]chain.Ev{{{From: 10, Keys: []uint64{1, 7}}}, {{From: 12, Keys: []uint64{2, 2, 3}}, {From: 10, Keys: []uint64{1, 2}}}}},
	}
	ops := []Op{{K: "light", N: 2}, {K: "store", Blk: bnd(10)}, {K: "store", Blk: evB(11)}}
	filters := []Qry{
		{}, {Addrs: []uint64{10}}, {Addrs: []uint64{11, 12}}, {Addrs: []uint64{99}},
		{Keys: [][]uint64{{1}, {}}}, {Keys: [][]uint64{{}, {2}}}, {Keys: [][]uint64{{1, 3}, {}}},
		{Keys: [][]uint64{{}, {2, 7}}}, {Keys: [][]uint64{{}, {}, {3}}}, {Keys: [][]uint64{{}, {}}},
		{Addrs: []uint64{10, 11}, Keys: [][]uint64{{1, 3}, {2}}}, {Addrs: []uint64{10}, Keys: [][]uint64{{}, {7}}},
	}
	ranges := [][2]uint64{{0, 10}, {0, 4}, {3, 5}, {4, 6}, {5, 10}, {6, 6}}
	for i := range filters {
		for j, rg := range ranges {
			if j > 1 && i%3 != j%3 {
				continue
			}
			q := filters[i]
			q.From, q.To = rg[0], rg[1]
			ops = append(ops, Op{K: "queryp", Q: &q, Pre: pre})
		}
	}
	return ops
}

func main() {
	c := hx.NewCtx("C09")
	or := hx.StartOracle(c.OraclePath)
	defer or.Close()
	cfgs := pagingConfigs()

	if c.ReplayIn != "" {
		var h History
		c.LoadReplay(&h)
		var vs []viol
		if h.Kind == "model" {
			vs = runModel(c, or, &h, cfgs)
		} else {
			vs = runReal(c, or, &h, cfgs, false)
		}
		for _, v := range vs {
			c.Violation(v.class, v.what, &h, v.noInput)
		}
		c.Finish("replay")
	}

	rng := hx.NewRNG(c.Seed)
	nShort, nLong, nModel := 50, 1, 300
	if c.Thorough() {
		nShort, nLong, nModel = 800, 24, 3000
	}
	envInt := func(name string, p *int) { // development only
		if v, err := strconv.Atoi(os.Getenv(name)); err == nil {
			*p = v
		}
	}
	envInt("C09_SHORT", &nShort)
	envInt("C09_LONG", &nLong)
	envInt("C09_MODEL", &nModel)
	t0 := time.Now()
	// corpus first: the minimal histories of the three defect classes seen so far (two of them cross the
	// real 8192-block window boundary), so that the replay reported for a class is the minimal one
	for i, h := range corpus() {
		vs := runReal(c, or, h, cfgs, false)
		c.Hist["history:corpus"]++
		c.Sample(map[string]any{"corpus": i, "blocks_built": blocksOf(h), "violation_classes": classesOf(vs)})
		for _, v := range vs {
			c.Violation(v.class, v.what, h, v.noInput)
		}
	}
	// random long histories: real 8192-block window, reorg across the boundary after the cache was warmed
	// (every chunk size 1..5, fewer limit combinations than on the short histories: the oracle walks 8192+k
	// blocks per page)
	var longCfgs []pcfg
	for ch := uint64(1); ch <= 5; ch++ {
		longCfgs = append(longCfgs, pcfg{ch, 0}, pcfg{ch, 2})
	}
	longCfgs = append(longCfgs, pcfg{1, 1}, pcfg{2, 3}, pcfg{3, 7}, pcfg{1000, 0})
	for i := 0; i < nLong; i++ {
		var h *History
		if (c.Seed+uint64(i))%2 == 0 {
			h = genLong(rng.Fork(uint64(1000+i)), 2+i)
		} else {
			h = genEdge(rng.Fork(uint64(2000 + i)))
		}
		vs := runReal(c, or, h, longCfgs, false)
		c.Hist["history:long"]++
		if i < 2 {
			c.Sample(map[string]any{"long_history_ops": len(h.Ops), "blocks_built": blocksOf(h), "violation_classes": classesOf(vs)})
		}
		report(c, or, h, vs, cfgs)
	}
	c.Extra["long_s"] = time.Since(t0).Seconds()
	t0 = time.Now()
	for i := 0; i < nShort; i++ {
		h := genShort(rng.Fork(uint64(5000 + i)))
		vs := runReal(c, or, h, cfgs, false)
		c.Hist["history:short"]++
		for _, o := range h.Ops {
			c.Hist["op:"+o.K]++
		}
		report(c, or, h, vs, cfgs)
	}
	c.Extra["short_s"] = time.Since(t0).Seconds()
	t0 = time.Now()
	for i := 0; i < nModel; i++ {
		h := genModel(rng.Fork(uint64(900000 + i)))
		vs := runModel(c, or, h, cfgs)
		c.Hist["history:model"]++
		for _, v := range vs {
			c.Violation(v.class, v.what, h, v.noInput)
		}
	}
	c.Extra["model_s"] = time.Since(t0).Seconds()
	// counts of continuation tokens at the canonical / pre-confirmed border met in the generated queries
	border := map[string]int{}
	for k, v := range c.Hist {
		if strings.HasPrefix(k, "border-token:") || strings.HasPrefix(k, "token:") || strings.HasPrefix(k, "paging-predicates:") {
			border[k] = v
		}
	}
	c.Extra["border_tokens_and_paging_predicates"] = border
	c.Extra["window_size_is_const"] = true
	c.Extra["real_window"] = core.NumBlocksPerFilter
	_ = os.Stdout
	c.Finish("every page of the real EventFilter equals the extracted model's page; concatenated pages equal the naive receipt scan (= filter_spec / filter_spec_pre); every page sequence of the implementation (EventFilter and rpc v8/v9/v10) satisfies pages_ok and page_count_ok (chunk bound, empty page only at the scan limit, token progress, at most max(1, blocks+matches) pages); model-only histories at W=2..5 are exact whenever cache_fresh and disk_ok hold")
}
