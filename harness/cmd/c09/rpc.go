// C09, RPC stage: starknet_getEvents through the real rpc v8 / v9 / v10 method tables mounted on real
// jsonrpc servers over the same Blockchain, block ids of every kind (absent, latest, pre_confirmed, numbers
// incl. above the head, hashes incl. unknown, l1_accepted), chunk sizes + continuation tokens, scan limits.
package main

import (
	"bytes"
	"context"
	"encoding/json"
	"fmt"
	"strconv"
	"strings"

	"github.com/NethermindEth/juno/blockchain"
	"github.com/NethermindEth/juno/blockchain/networks"
	"github.com/NethermindEth/juno/core/pending"
	"github.com/NethermindEth/juno/jsonrpc"
	"github.com/NethermindEth/juno/rpc"
	rpcv10 "github.com/NethermindEth/juno/rpc/v10"
	rpcv8 "github.com/NethermindEth/juno/rpc/v8"
	rpcv9 "github.com/NethermindEth/juno/rpc/v9"
	"github.com/NethermindEth/juno/sync"
	"github.com/NethermindEth/juno/sync/preconfirmed"
	"github.com/NethermindEth/juno/utils/log"
	"verifharness/hx"
)

// the sync reader of the handlers: serves the pre-confirmed chain of the current query
type c09Sync struct {
	sync.NoopSynchronizer
	pre []*pending.PreConfirmed
}

func (s *c09Sync) PreConfirmedChain() (preconfirmed.ChainReader, error) {
	if len(s.pre) == 0 {
		return preconfirmed.ChainReader{}, pending.ErrPreConfirmedNotFound
	}
	return preconfirmed.NewChain(s.pre...)
}

type rpcStage struct {
	h    *rpc.Handler
	sync *c09Sync
	srv  map[string]*jsonrpc.Server
}

func mountRPC(bc *blockchain.Blockchain) *rpcStage {
	logger := log.NewNopZapLogger()
	st := &rpcStage{sync: &c09Sync{}, srv: map[string]*jsonrpc.Server{}}
	st.h = rpc.New(bc, st.sync, nil, "c09", logger, &networks.Sepolia)
	reg := func(v string, val jsonrpc.Validator, ms []jsonrpc.Method) {
		srv := jsonrpc.NewServer(4, logger).WithValidator(val)
		hx.Must(srv.RegisterMethods(ms...))
		st.srv[v] = srv
	}
	m10, _ := st.h.MethodsV0_10()
	m9, _ := st.h.MethodsV0_9()
	m8, _ := st.h.MethodsV0_8()
	reg("v10", rpcv10.Validator(), m10)
	reg("v9", rpcv9.Validator(), m9)
	reg("v8", rpcv8.Validator(), m8)
	return st
}

// BID: a block id of the request. K: "" absent | latest | pre | n (number N) | h (hash of block N; unknown when N
// is not a canonical block) | l1
type BID struct {
	K string `json:"k,omitempty"`
	N uint64 `json:"n,omitempty"`
}

type rpcEv struct {
	BlockNumber *uint64  `json:"block_number"`
	BlockHash   *string  `json:"block_hash"`
	TxHash      string   `json:"transaction_hash"`
	TxIndex     *uint64  `json:"transaction_index"`
	EvIndex     *uint64  `json:"event_index"`
	From        string   `json:"from_address"`
	Keys        []string `json:"keys"`
	Data        []string `json:"data"`
}

type rpcReply struct {
	Result *struct {
		Events []rpcEv `json:"events"`
		Token  string  `json:"continuation_token"`
	} `json:"result"`
	Error *struct {
		Code    int    `json:"code"`
		Message string `json:"message"`
	} `json:"error"`
}

func fhex(x uint64) string { return "0x" + strconv.FormatUint(x, 16) }

// one starknet_getEvents call
func (st *rpcStage) getEvents(v string, q *Qry, fb, tb any, chunk uint64, token string) (*rpcReply, string) {
	filter := map[string]any{"chunk_size": chunk}
	if fb != nil {
		filter["from_block"] = fb
	}
	if tb != nil {
		filter["to_block"] = tb
	}
	if token != "" {
		filter["continuation_token"] = token
	}
	if len(q.Addrs) == 1 {
		filter["address"] = fhex(q.Addrs[0])
	} else if len(q.Addrs) > 1 {
		as := make([]string, len(q.Addrs))
		for i, a := range q.Addrs {
			as[i] = fhex(a)
		}
		filter["address"] = as
	}
	if q.Keys != nil {
		ks := make([][]string, len(q.Keys))
		for i, alts := range q.Keys {
			ks[i] = []string{}
			for _, k := range alts {
				ks[i] = append(ks[i], fhex(k))
			}
		}
		filter["keys"] = ks
	}
	body, _ := json.Marshal(map[string]any{"jsonrpc": "2.0", "id": 1, "method": "starknet_getEvents",
		"params": map[string]any{"filter": filter}})
	out, _, err := st.srv[v].HandleReader(context.Background(), bytes.NewReader(body))
	if err != nil {
		return nil, "transport:" + err.Error()
	}
	var rep rpcReply
	if err := json.Unmarshal(out, &rep); err != nil {
		return nil, "unparsable:" + string(out)
	}
	return &rep, string(out)
}

// the content of one emitted event, without the positions that v8 / v9 do not report
func (e *rpcEv) content() string {
	bn, bh := "<nil>", "<nil>"
	if e.BlockNumber != nil {
		bn = strconv.FormatUint(*e.BlockNumber, 10)
	}
	if e.BlockHash != nil {
		bh = *e.BlockHash
	}
	return fmt.Sprintf("%s|bh=%s|th=%s|from=%s|keys=%s|data=%s", bn, bh, e.TxHash, e.From,
		strings.Join(e.Keys, ","), strings.Join(e.Data, ","))
}

// "n.t.i|bh=..|th=.." (the naive scan's canonical form) -> the same content form
func contentOfCanonical(c string) string {
	parts := strings.SplitN(c, "|", 2)
	return strings.SplitN(parts[0], ".", 2)[0] + "|" + parts[1]
}

// resolved view of one block id: JSON form, oracle word, number used by the naive scan
type bidView struct {
	json     any
	word     string
	num      uint64
	empty    bool // the id denotes nothing (from = pre_confirmed without pre-confirmed blocks)
	notFound bool
	skipV8   bool
}

func (r *realRun) viewBID(b *BID, isTo bool, head uint64, npre int) bidView {
	if b == nil || b.K == "" {
		if isTo {
			return bidView{word: "-", num: head}
		}
		return bidView{word: "-", num: 0}
	}
	switch b.K {
	case "latest":
		return bidView{json: "latest", word: "latest", num: head}
	case "pre":
		v := bidView{json: "pre_confirmed", word: "pre", num: head + uint64(npre), skipV8: true}
		if npre == 0 {
			v.num, v.empty = head, !isTo
		}
		return v
	case "n":
		n := b.N
		if isTo && n > head {
			n = head
		}
		return bidView{json: map[string]any{"block_number": b.N}, word: fmt.Sprintf("n:%d", b.N), num: n}
	case "h":
		if b.N <= head {
			return bidView{json: map[string]any{"block_hash": r.hashes[b.N]}, word: fmt.Sprintf("r:%d", b.N), num: b.N}
		}
		return bidView{json: map[string]any{"block_hash": fhex(0xdead0000 + b.N)}, word: "r:x", notFound: true}
	case "l1":
		if r.l1 == nil {
			return bidView{json: "l1_accepted", word: "r:x", notFound: true, skipV8: true}
		}
		return bidView{json: "l1_accepted", word: fmt.Sprintf("r:%d", *r.l1), num: *r.l1, skipV8: true}
	}
	panic("bid kind " + b.K)
}

var rpcCfgs = []pcfg{{1, 0}, {2, 0}, {3, 0}, {1000, 0}, {1, 2}, {2, 1}}

func (r *realRun) rpcQuery(q *Qry, fb, tb *BID, pre []*Blk) {
	if len(r.naive) == 0 {
		return
	}
	if r.rpc == nil {
		r.rpc = mountRPC(r.node.BC)
	}
	height := uint64(len(r.naive))
	head := height - 1
	for _, v := range []string{"v10", "v9", "v8"} {
		if v != "v10" && len(q.Addrs) > 1 {
			continue // v8 / v9 take a single address
		}
		usePre := pre
		if v == "v8" {
			usePre = nil // v8 hands EventFilter no pre-confirmed data
		}
		f, t := r.viewBID(fb, false, head, len(usePre)), r.viewBID(tb, true, head, len(usePre))
		if v == "v8" && (f.skipV8 || t.skipV8) {
			continue
		}
		if (f.word[0] == 'r' && f.num > head && !f.notFound) || (t.word[0] == 'r' && t.num > head && !t.notFound) {
			continue // l1 head above the canonical head: left out
		}
		// the naive scan of the requested range
		var spec []string
		var views [][]nev
		r.rpc.sync.pre = nil
		preWords := ""
		if len(usePre) > 0 {
			var pc *preChain
			pc, views = buildPre(height, usePre)
			r.rpc.sync.pre = pc.items
			preWords = " " + blkWords(usePre)
		}
		if !f.empty && !f.notFound && !t.notFound {
			for n := f.num; n <= t.num && n <= head; n++ {
				for _, e := range r.naive[n] {
					if naiveMatch(q, e.from, e.keys) {
						spec = append(spec, contentOfCanonical(e.canonical))
					}
				}
			}
			for i, view := range views {
				if n := height + uint64(i); n >= f.num && n <= t.num {
					for _, e := range view {
						if naiveMatch(q, e.from, e.keys) {
							spec = append(spec, contentOfCanonical(e.canonical))
						}
					}
				}
			}
		}
		for _, cfg := range rpcCfgs {
			r.rpcPages(v, q, &f, &t, cfg, preWords, spec, len(usePre))
		}
	}
	r.rpc.sync.pre = nil
}

// all pages of one request through version v, compared page by page with the model and, concatenated, with
// the naive scan
func (r *realRun) rpcPages(v string, q *Qry, f, t *bidView, cfg pcfg, preWords string, spec []string, npre int) {
	limit := ^uint(0)
	if cfg.limit > 0 {
		limit = uint(cfg.limit)
	}
	r.rpc.h.WithFilterLimit(limit)
	var all []string
	var seq []string
	token, tb, tc := "", "0", "0"
	maxPages := len(spec) + len(r.naive) + 8
	desc := func() string {
		return fmt.Sprintf("%s starknet_getEvents filter=%+v from=%s to=%s chunk=%d limit=%d height=%d preconfirmed=[%s]",
			v, filterWords(q), f.word, t.word, cfg.chunk, cfg.limit, len(r.naive), strings.TrimSpace(preWords))
	}
	for pages := 1; ; pages++ {
		rep, raw := r.rpc.getEvents(v, q, f.json, t.json, cfg.chunk, token)
		m := r.or.Ask(fmt.Sprintf("rpcq %s %s %s %d %d %s %s%s", filterWords(q), f.word, t.word, cfg.chunk, cfg.limit, tb, tc, preWords), 1)[0]
		if rep == nil {
			r.fail("rpc:transport", desc()+": "+raw, false)
			return
		}
		var impl string
		nb, nc := "0", "0"
		switch {
		case rep.Error != nil && rep.Error.Code == 24:
			impl = "notfound"
		case rep.Error != nil || rep.Result == nil:
			impl = "err"
		default:
			if rep.Result.Token != "" {
				p := strings.SplitN(rep.Result.Token, "-", 2)
				if len(p) == 2 {
					nb, nc = p[0], p[1]
				}
			}
			var short []string
			exact := v == "v10"
			for i := range rep.Result.Events {
				e := &rep.Result.Events[i]
				all = append(all, e.content())
				if e.BlockNumber == nil || e.TxIndex == nil || e.EvIndex == nil {
					exact = false
				} else {
					short = append(short, fmt.Sprintf("%d.%d.%d", *e.BlockNumber, *e.TxIndex, *e.EvIndex))
				}
			}
			if exact {
				impl = fmt.Sprintf("page %s %s %s", evsWord(short), nb, nc)
			} else { // positions not reported: compare the size of the page and the token
				impl = fmt.Sprintf("page #%d %s %s", len(rep.Result.Events), nb, nc)
				if mf := strings.Fields(m); len(mf) == 4 && mf[0] == "page" {
					n := 0
					if mf[1] != "-" {
						n = len(strings.Split(mf[1], ","))
					}
					m = fmt.Sprintf("page #%d %s %s", n, mf[2], mf[3])
				}
			}
		}
		if impl != m {
			r.fail("model-mismatch:rpc-page", fmt.Sprintf("%s token=%s-%s: implementation %q, model %q", desc(), tb, tc, impl, m), true)
		}
		if !r.quiet {
			r.c.Hist["rpc:"+v+":"+strings.Fields(impl)[0]]++
		}
		if !strings.HasPrefix(impl, "page") {
			if impl == "notfound" && (f.notFound || t.notFound) {
				return // the expected answer for an unknown hash / missing l1 head
			}
			r.fail("rpc:"+v+":"+impl, desc()+": "+raw, false)
			return
		}
		seq = append(seq, fmt.Sprintf("%d:%s:%s", len(rep.Result.Events), nb, nc))
		r.countToken(nb, nc, len(rep.Result.Events), uint64(len(r.naive)), npre)
		if nb == "0" && nc == "0" {
			break
		}
		if pages > maxPages {
			r.fail("rpc:paging-no-progress", desc(), false)
			return
		}
		token, tb, tc = rep.Result.Token, nb, nc
	}
	if !r.quiet {
		r.c.Count(desc(), len(spec) > 0)
	}
	if f.notFound || t.notFound {
		r.fail("rpc:"+v+":unknown-block-accepted", desc(), false)
		return
	}
	r.checkPaging(fmt.Sprintf("pgseqr %s %s %d %d %d %d", f.word, t.word, cfg.chunk, cfg.limit, len(spec), npre), seq, desc())
	if !eqS(all, spec) {
		kind := diffKind(all, spec)
		class := "rpc:" + v + ":" + kind
		if strings.Contains(r.or.Ask("hyp", 1)[0], "snapbad=1") || r.snapUnconsumed {
			class = "stale-snapshot-after-reorg+ungraceful-restart"
		}
		r.fail(class, fmt.Sprintf("%s: got %d events %v want %d events %v (%s)", desc(), len(all), shorten(all), len(spec), shorten(spec), kind), false)
	}
}

func shorten(xs []string) []string {
	out := make([]string, 0, len(xs))
	for _, x := range xs {
		p := strings.Split(x, "|")
		out = append(out, p[0]+"/"+strings.TrimPrefix(p[3], "from="))
	}
	return out
}
