package main

// The Rust VM / Sierra compiler symbols referenced by juno's cgo packages (vm, starknet/compiler), defined
// here so that the link never pulls the archive members of /verif/cstubs (which reference `stderr` from
// non-PIC code and do not link under Go 1.26's `-z nocopyreloc -no-pie` external link on this image).
// None of them is ever called by the C09 check (trace/simulate/call/estimateFee are out of scope): abort().

/*
#include <stdlib.h>
void cairoVMCall(void) { abort(); }
void cairoVMExecute(void) { abort(); }
void setVersionedConstants(void) { abort(); }
void freeString(void) { abort(); }
void compileSierraToCasm(void) { abort(); }
void freeCstr(void) { abort(); }
*/
import "C"
