package main

import (
	"fmt"
	"sort"
	"strings"

	"github.com/NethermindEth/juno/core/crypto"
	"github.com/NethermindEth/juno/core/felt"
	"github.com/NethermindEth/juno/core/trie"
	"github.com/NethermindEth/juno/core/trie2"
	"verifharness/hx"
)

type verdict struct {
	class, what string
	noInput     bool
	extra       any
}

func zeroIfNone(s string) string {
	if s == "none" {
		return "0"
	}
	return s
}

// position of the node that ends the walk, for the distribution histogram
func keyKind(actual string, s2 pset, rootZero bool) string {
	if rootZero {
		return "empty-trie"
	}
	if actual != "0" {
		return "present"
	}
	if len(s2) == 0 {
		return "absent:no-nodes"
	}
	last := s2[len(s2)-1].N
	switch {
	case last.Bin:
		return "absent:at-binary" // not reachable in canonical tries; would be a model gap
	case len(s2) == 1:
		return "absent:diverges-in-root-edge"
	case last.C.Val:
		return "absent:diverges-in-leaf-edge"
	default:
		return "absent:diverges-in-inner-edge"
	}
}

type caseStats struct {
	tampers int
}

// evalCase returns the verdicts found (a failing predicate first, correspondence gaps after)
func evalCase(c *hx.Ctx, or *hx.Oracle, r *hx.RNG, tc trieCase, sweep bool) []verdict {
	var vs []verdict
	fail := func(class, what string, noInput bool, extra any) {
		vs = append(vs, verdict{class, what, noInput, extra})
	}
	b, err := buildTries(tc)
	if err != nil {
		fail("build-error", err.Error(), true, nil)
		return vs
	}
	hf := hashFn(tc.Hash)
	mroot, canon, mk := parseModel(or.AskUntil(tc.line(), "end"), len(tc.Keys))
	if !canon {
		fail("model-not-canonical", "C01 update model left canonical form", true, nil)
	}
	if mroot != fhex(&b.root) {
		fail("model-vs-impl:root", fmt.Sprintf("model %s impl %s", mroot, fhex(&b.root)), true, nil)
		return vs
	}
	rootZero := b.root.IsZero()
	full := tc.Height == 251
	sweepLeft := 5
	for i, ks := range tc.Keys {
		key := hexF(ks)
		kbits := keyBits(&key, tc.Height)
		v2, err := b.t2.Get(&key)
		if err != nil {
			fail("trie2-get-error", err.Error(), true, nil)
			continue
		}
		v1, err := b.t1.Get(&key)
		if err != nil {
			fail("legacy-get-error", err.Error(), true, nil)
			continue
		}
		actual := fhex(&v2)
		if fhex(&v1) != actual || zeroIfNone(mk[i].get) != actual {
			fail("get-mismatch", fmt.Sprintf("key %s trie2 %s legacy %s model %s", ks, actual, fhex(&v1), mk[i].get), true, nil)
			continue
		}
		p2 := trie2.NewProofNodeSet()
		if err := b.t2.Prove(&key, p2); err != nil {
			fail("trie2-prove-error", err.Error(), false, nil)
			continue
		}
		s2, err := fromTrie2(p2)
		if err != nil {
			fail("model-vs-trie2:prove-node-shape", err.Error(), true, nil)
			continue
		}
		p1 := trie.NewProofNodeSet()
		if err := b.t1.Prove(&key, p1); err != nil {
			fail("legacy-prove-error", err.Error(), false, nil)
			continue
		}
		s1, err := fromLegacy(p1)
		if err != nil {
			fail("model-vs-legacy:prove-node-shape", err.Error(), true, nil)
			continue
		}
		kind := keyKind(actual, s2, rootZero)
		c.Hist["key:"+kind]++
		c.Hist[fmt.Sprintf("height:%d", tc.Height)]++
		c.Count(fmt.Sprintf("%s|%d|%s|%s", tc.Hash, tc.Height, strings.Join(tc.Ops, ","), ks), kind != "present")
		if !eqStrings(s2.strings(true), mk[i].s2.strings(true)) {
			fail("model-vs-trie2:prove", fmt.Sprintf("key %s (%s): trie2 %v model %v", ks, kind, s2.strings(true), mk[i].s2.strings(true)), true, nil)
		}
		if !eqStrings(s1.strings(false), mk[i].s1.strings(false)) {
			fail("model-vs-legacy:prove", fmt.Sprintf("key %s (%s): legacy %v model %v", ks, kind, s1.strings(false), mk[i].s1.strings(false)), true, nil)
		}
		// every node is stored under its own hash (both implementations)
		for _, e := range append(s2.clone(), s1...) {
			h := e.N.hash(hf)
			if fhex(&h) != e.Key {
				fail("proof-node-key-not-its-hash", fmt.Sprintf("key %s node %s stored under %s hashes to %s", ks, e.N, e.Key, fhex(&h)), false, nil)
			}
		}
		want := "ok " + actual
		if rootZero {
			// empty trie: Prove yields no node, every verifier reports an error (C10_empty_trie)
			want = "err"
			c.Hist["empty-trie:verify-reports-error"]++
		}
		// the model verifying the model's proof (term level): C10_prove_complete instantiated
		if mk[i].v2 != want || mk[i].v1 != want {
			fail("model-self-verify", fmt.Sprintf("key %s: v2 %s v1 %s want %s", ks, mk[i].v2, mk[i].v1, want), true, nil)
		}
		// independent verifier (model, concrete) on what the implementations produced: all heights
		if got := verifyModel(or, "vw", b.root, kbits, s1, hf); got != want {
			fail("legacy:proof-fails-independent-verifier:"+kind, fmt.Sprintf("key %s: %s want %s", ks, got, want), false, tc)
		}
		if got := verifyModel(or, "vw", b.root, kbits, s2, hf); got != want {
			fail("trie2:proof-fails-independent-verifier:"+kind, fmt.Sprintf("key %s: %s want %s", ks, got, want), false, tc)
		}
		if got := verifyModel(or, "v2s", b.root, kbits, s2, hf); got != want {
			fail("trie2:proof-fails-strict-verifier:"+kind, fmt.Sprintf("key %s: %s want %s", ks, got, want), false, tc)
		}
		if !full {
			continue // VerifyProof of both implementations is fixed to 251-bit keys
		}
		// the property predicate on the implementations: own proof verifies to the actual value
		g2 := verify2Go(b.root, key, p2, hf)
		g2w := verify2Go(b.root, key, toTrie2(s2), hf)
		g1 := verify1Go(b.root, key, p1, hf)
		g1w := verify1Go(b.root, key, toLegacy(s1), hf)
		if g2 != want || g2w != want {
			fail("trie2:honest-proof-not-verified:"+kind, fmt.Sprintf("key %s: VerifyProof %s (re-decoded %s) want %s", ks, g2, g2w, want), false, tc)
		}
		if g1 != want || g1w != want {
			fail("legacy:honest-proof-not-verified:"+kind, fmt.Sprintf("key %s: VerifyProof %s (re-decoded %s) want %s", ks, g1, g1w, want), false, tc)
		}
		if m := verifyModel(or, "v2", b.root, kbits, s2, hf); m != g2w {
			fail("model-vs-trie2:verify-honest", fmt.Sprintf("key %s: model %s impl %s", ks, m, g2w), true, nil)
		}
		if m := verifyModel(or, "v1", b.root, kbits, s1, hf); m != g1w {
			fail("model-vs-legacy:verify-honest", fmt.Sprintf("key %s: model %s impl %s", ks, m, g1w), true, nil)
		}
		// legacy sets verify under trie2's verifier and vice versa? (same wire content modulo the
		// extra binary node; tags: all hash nodes) — cross check, value returned for a hash leaf
		if g := verify2Go(b.root, key, toTrie2(s1), hf); g != want {
			fail("trie2:verify-of-untagged-proof", fmt.Sprintf("key %s: %s want %s", ks, g, want), false, tc)
		}
		if !sweep || rootZero || sweepLeft == 0 || (kind == "present" && r.Chance(50)) {
			continue
		}
		sweepLeft--
		for _, impl := range []string{"trie2", "legacy"} {
			honest := s2
			if impl == "legacy" {
				honest = s1
			}
			for _, tp := range tamperings(r, honest, ks, hf, impl == "trie2", c.Thorough()) {
				k2 := hexF(tp.Key)
				av, _ := b.t2.Get(&k2)
				act := fhex(&av)
				kb := keyBits(&k2, 251)
				var g, m string
				strictRefuses := false
				if impl == "trie2" {
					g = verify2Go(b.root, k2, toTrie2(tp.Set), hf)
					m = verifyModel(or, "v2", b.root, kb, tp.Set, hf)
					// theorem C10_tamper_rejected on the strict and the independent verifier
					for _, mk := range []string{"v2s", "vw"} {
						x := verifyModel(or, mk, b.root, kb, tp.Set, hf)
						if !notForged(x, act) {
							fail("model-verifier-forged:"+mk, fmt.Sprintf("%s: %s actual %s", tp.Kind, x, act), true, tp)
						}
						if mk == "v2s" && !strings.HasPrefix(x, "ok ") {
							strictRefuses = true
						}
					}
				} else {
					g = verify1Go(b.root, k2, toLegacy(tp.Set), hf)
					m = verifyModel(or, "v1", b.root, kb, tp.Set, hf)
				}
				c.Evaluations++
				c.Hist["tamper:"+impl+":"+tp.Kind]++
				if strings.HasPrefix(g, "ok ") {
					c.Hist["tamper-result:"+impl+":same-value"]++
				} else {
					c.Hist["tamper-result:"+impl+":"+strings.Fields(g)[0]]++
				}
				if !notForged(g, act) {
					kind := strings.TrimSuffix(strings.TrimSuffix(tp.Kind, ":stale-key"), ":rekeyed")
					if impl == "trie2" && strictRefuses && g == m {
						// whatever the alteration was called: the faithful model accepts it too and the
						// strict verifier refuses it, i.e. the set holds a node with a ValueNode-tagged child
						// above leaf depth (C10_verify2_value_tag_refuted) — the registered class
						kind = "retag-child"
					}
					fail(impl+":forged:"+kind, fmt.Sprintf("root %s key %s: altered proof (%s %s) verifies to %s, actual value %s",
						fhex(&b.root), tp.Key, tp.Kind, tp.What, g, act),
						false, map[string]any{"impl": impl, "hash": tc.Hash, "root": fhex(&b.root), "tampered": tp, "trie": tc, "actual": act})
				}
				if g != m {
					fail("model-vs-"+impl+":verify-tampered", fmt.Sprintf("%s: impl %s model %s", tp.Kind, g, m), true, tp)
				}
			}
		}
	}
	sharedSet(c, or, tc, b, mk, hf, fail)
	return vs
}

// sharedSet: all keys of the case proven, one after another, into ONE proof set per implementation (the way
// starknet_getStorageProof and GetRangeProof use Prove). The set must be the union of the per-key sets of the model
// (C10_prove_complete holds for any superset of a key's own nodes: the walk only looks nodes up by hash), and every
// key must still verify to its actual value against the shared set.
func sharedSet(c *hx.Ctx, or *hx.Oracle, tc trieCase, b *built, mk []modelKey, hf crypto.HashFn,
	fail func(class, what string, noInput bool, extra any)) {
	if len(tc.Keys) < 2 || b.root.IsZero() {
		return
	}
	p2, p1 := trie2.NewProofNodeSet(), trie.NewProofNodeSet()
	for _, ks := range tc.Keys {
		key := hexF(ks)
		if err := b.t2.Prove(&key, p2); err != nil {
			fail("trie2-prove-error:shared-set", err.Error(), false, tc)
			return
		}
		if err := b.t1.Prove(&key, p1); err != nil {
			fail("legacy-prove-error:shared-set", err.Error(), false, tc)
			return
		}
	}
	s2, err := fromTrie2(p2)
	if err != nil {
		fail("model-vs-trie2:prove-node-shape", err.Error(), true, nil)
		return
	}
	s1, err := fromLegacy(p1)
	if err != nil {
		fail("model-vs-legacy:prove-node-shape", err.Error(), true, nil)
		return
	}
	union := func(pick func(modelKey) pset) []string {
		seen := map[string]bool{}
		var out []string
		for _, m := range mk {
			for _, e := range pick(m) {
				if !seen[e.Key] {
					seen[e.Key] = true
					out = append(out, e.Key+"="+e.N.wire())
				}
			}
		}
		sort.Strings(out)
		return out
	}
	sorted := func(p pset) []string { x := p.strings(false); sort.Strings(x); return x }
	c.Hist["shared-set:cases"]++
	if tc.Shape != "" {
		c.Hist["shared-set:"+tc.Shape]++
	}
	dup := len(union(func(m modelKey) pset { return m.s1 }))
	tot := 0
	for _, m := range mk {
		tot += len(m.s1)
	}
	if dup < tot {
		c.Hist["shared-set:keys-share-nodes"]++
	}
	if w := union(func(m modelKey) pset { return m.s2 }); !eqStrings(sorted(s2), w) {
		fail("trie2:shared-proof-set-is-not-the-union", fmt.Sprintf("keys %v proven into one set: trie2 %v, union of the model's per-key sets %v", tc.Keys, sorted(s2), w), false, tc)
	}
	if w := union(func(m modelKey) pset { return m.s1 }); !eqStrings(sorted(s1), w) {
		fail("legacy:shared-proof-set-is-not-the-union", fmt.Sprintf("keys %v proven into one set: legacy %v, union of the model's per-key sets %v", tc.Keys, sorted(s1), w), false, tc)
	}
	for _, ks := range tc.Keys {
		key := hexF(ks)
		kbits := keyBits(&key, tc.Height)
		v, err := b.t2.Get(&key)
		if err != nil {
			continue
		}
		want := "ok " + fhex(&v)
		c.Evaluations++
		if got := verifyModel(or, "vw", b.root, kbits, s1, hf); got != want {
			fail("legacy:shared-set-proof-fails-independent-verifier", fmt.Sprintf("key %s against the set of %v: %s want %s", ks, tc.Keys, got, want), false, tc)
		}
		if got := verifyModel(or, "vw", b.root, kbits, s2, hf); got != want {
			fail("trie2:shared-set-proof-fails-independent-verifier", fmt.Sprintf("key %s against the set of %v: %s want %s", ks, tc.Keys, got, want), false, tc)
		}
		if tc.Height != 251 {
			continue
		}
		if g := verify1Go(b.root, key, toLegacy(s1), hf); g != want {
			fail("legacy:honest-proof-not-verified:shared-set", fmt.Sprintf("key %s against the set of %v: VerifyProof %s want %s", ks, tc.Keys, g, want), false, tc)
		}
		if g := verify2Go(b.root, key, toTrie2(s2), hf); g != want {
			fail("trie2:honest-proof-not-verified:shared-set", fmt.Sprintf("key %s against the set of %v: VerifyProof %s want %s", ks, tc.Keys, g, want), false, tc)
		}
	}
}

var _ = felt.Zero
