// C10 correspondence: Merkle proofs of core/trie2 and the legacy core/trie against the extracted Coq
// model (coq/theories/C10/Model.v).
//   - Prove: the proof sets produced by both implementations are compared node by node (order, key,
//     child tags) with the model's sets (hash TERMS evaluated with juno's Pedersen/Poseidon).
//   - VerifyProof on the honest proof must return the key's actual value / absence (the property
//     predicate), and equal the model verifier's answer.
//   - every single-node / single-field corruption: VerifyProof must never establish a different value
//     (predicate not_forged), and must equal the model verifier on the same concrete set (the hash
//     function is handed to the model as a finite table computed here with core/crypto).
//   - hash-consistent synthetic node chains (not from a trie) exercise the deep paths of both
//     verifiers (uint8 position wrap, empty / over-long edge paths, value nodes above leaf depth).
//   - range proofs: GetRangeProof + VerifyRangeProof on honest and altered ranges (differential only).
//   - RPC: rpc.go.
package main

import (
	"fmt"
	"math/big"
	"sort"
	"strings"

	"github.com/NethermindEth/juno/core/crypto"
	"github.com/NethermindEth/juno/core/felt"
	"github.com/NethermindEth/juno/core/trie"
	"github.com/NethermindEth/juno/core/trie2"
	"github.com/NethermindEth/juno/core/trie2/trienode"
	"github.com/NethermindEth/juno/core/trie2/trieutils"
	"verifharness/hx"
	"verifharness/term"
)

// ---------- canonical (wire-level) view of a proof set ----------
type child struct {
	Val bool   `json:"val"` // trie2: *trienode.ValueNode (true) or *trienode.HashNode (false)
	F   string `json:"f"`   // hex
}
type wnode struct {
	Bin  bool   `json:"bin"`
	L    child  `json:"l"`
	R    child  `json:"r"`
	Path string `json:"path"` // bits, MSB first ("" = empty)
	C    child  `json:"c"`
}
type entry struct {
	Key string `json:"key"` // the hash the node is stored under
	N   wnode  `json:"n"`
}
type pset []entry

func fhex(f *felt.Felt) string { return f.Text(16) }
func hexF(s string) felt.Felt  { return term.FeltFromHex(s) }

func (c child) tag() string {
	if c.Val {
		return "V"
	}
	return "H"
}
func (n wnode) String() string {
	if n.Bin {
		return fmt.Sprintf("B %s%s %s%s", n.L.tag(), n.L.F, n.R.tag(), n.R.F)
	}
	p := n.Path
	if p == "" {
		p = "-"
	}
	return fmt.Sprintf("E %s %s%s", p, n.C.tag(), n.C.F)
}
func (n wnode) wire() string { // without tags
	if n.Bin {
		return fmt.Sprintf("B %s %s", n.L.F, n.R.F)
	}
	return fmt.Sprintf("E %s %s", n.Path, n.C.F)
}
func (p pset) strings(tags bool) []string {
	res := make([]string, len(p))
	for i, e := range p {
		if tags {
			res[i] = e.Key + "=" + e.N.String()
		} else {
			res[i] = e.Key + "=" + e.N.wire()
		}
	}
	return res
}
func (p pset) clone() pset { return append(pset{}, p...) }

func hashFn(name string) crypto.HashFn {
	if name == "pos" {
		return crypto.Poseidon
	}
	return crypto.Pedersen
}

func bitsToBig(bits string) *big.Int {
	b := new(big.Int)
	if bits != "" {
		b.SetString(bits, 2)
	}
	return b
}
func bitsToBytes32(bits string) []byte {
	var buf [32]byte
	bitsToBig(bits).FillBytes(buf[:])
	return buf[:]
}
func pathFelt2(bits string) felt.Felt {
	p := new(trieutils.BitArray).SetBytes(uint8(len(bits)), bitsToBytes32(bits))
	return p.Felt()
}

// inner hash of a node (what the model receives as its hash table) and the node hash
func (n wnode) inner(hf crypto.HashFn) felt.Felt {
	if n.Bin {
		l, r := hexF(n.L.F), hexF(n.R.F)
		return hf(&l, &r)
	}
	c, p := hexF(n.C.F), pathFelt2(n.Path)
	return hf(&c, &p)
}
func (n wnode) hash(hf crypto.HashFn) felt.Felt {
	in := n.inner(hf)
	if n.Bin {
		return in
	}
	l := felt.FromUint64[felt.Felt](uint64(len(n.Path)))
	var res felt.Felt
	res.Add(&in, &l)
	return res
}

// ---------- conversion from / to the implementations' proof sets ----------
func bitsOf2(p *trieutils.BitArray) string {
	var sb strings.Builder
	for i := uint8(0); i < p.Len(); i++ {
		sb.WriteByte('0' + p.Bit(i))
	}
	return sb.String()
}
func bitsOf1(p *trie.BitArray) string {
	var sb strings.Builder
	for i := uint8(0); i < p.Len(); i++ {
		sb.WriteByte('0' + p.Bit(i))
	}
	return sb.String()
}

func child2(n trienode.Node) (child, error) {
	switch c := n.(type) {
	case *trienode.HashNode:
		f := felt.Felt(*c)
		return child{false, fhex(&f)}, nil
	case *trienode.ValueNode:
		f := felt.Felt(*c)
		return child{true, fhex(&f)}, nil
	default:
		return child{}, fmt.Errorf("proof node child of type %T", n)
	}
}

func fromTrie2(ps *trie2.ProofNodeSet) (pset, error) {
	keys, nodes := ps.Keys(), ps.List()
	res := make(pset, len(keys))
	for i := range keys {
		e := entry{Key: fhex(&keys[i])}
		switch n := nodes[i].(type) {
		case *trienode.BinaryNode:
			l, err := child2(n.Children[0])
			if err != nil {
				return nil, err
			}
			r, err := child2(n.Children[1])
			if err != nil {
				return nil, err
			}
			e.N = wnode{Bin: true, L: l, R: r}
		case *trienode.EdgeNode:
			c, err := child2(n.Child)
			if err != nil {
				return nil, err
			}
			e.N = wnode{Path: bitsOf2(n.Path), C: c}
		default:
			return nil, fmt.Errorf("proof node of type %T", nodes[i])
		}
		res[i] = e
	}
	return res, nil
}

func mkChild2(c child) trienode.Node {
	f := hexF(c.F)
	if c.Val {
		return (*trienode.ValueNode)(&f)
	}
	return (*trienode.HashNode)(&f)
}

// fresh nodes, as a decoder of the wire format would build them (no cached hash in Flags)
func toTrie2(p pset) *trie2.ProofNodeSet {
	ps := trie2.NewProofNodeSet()
	for _, e := range p {
		var n trienode.Node
		if e.N.Bin {
			n = &trienode.BinaryNode{Children: [2]trienode.Node{mkChild2(e.N.L), mkChild2(e.N.R)}}
		} else {
			path := new(trieutils.BitArray).SetBytes(uint8(len(e.N.Path)), bitsToBytes32(e.N.Path))
			n = &trienode.EdgeNode{Child: mkChild2(e.N.C), Path: path}
		}
		ps.Put(hexF(e.Key), n)
	}
	return ps
}

func fromLegacy(ps *trie.ProofNodeSet) (pset, error) {
	keys, nodes := ps.Keys(), ps.List()
	res := make(pset, len(keys))
	for i := range keys {
		e := entry{Key: fhex(&keys[i])}
		switch n := nodes[i].(type) {
		case *trie.Binary:
			e.N = wnode{Bin: true, L: child{false, fhex(n.LeftHash)}, R: child{false, fhex(n.RightHash)}}
		case *trie.Edge:
			e.N = wnode{Path: bitsOf1(n.Path), C: child{false, fhex(n.Child)}}
		default:
			return nil, fmt.Errorf("legacy proof node of type %T", nodes[i])
		}
		res[i] = e
	}
	return res, nil
}

func toLegacy(p pset) *trie.ProofNodeSet {
	ps := trie.NewProofNodeSet()
	for _, e := range p {
		var n trie.ProofNode
		if e.N.Bin {
			l, r := hexF(e.N.L.F), hexF(e.N.R.F)
			n = &trie.Binary{LeftHash: &l, RightHash: &r}
		} else {
			c := hexF(e.N.C.F)
			path := new(trie.BitArray).SetBytes(uint8(len(e.N.Path)), bitsToBytes32(e.N.Path))
			n = &trie.Edge{Child: &c, Path: path}
		}
		ps.Put(hexF(e.Key), n)
	}
	return ps
}

// ---------- running the verifiers ----------
func res(v felt.Felt, err error) string {
	if err != nil {
		return "err"
	}
	return "ok " + fhex(&v)
}

func verify2Go(root, key felt.Felt, ps *trie2.ProofNodeSet, hf crypto.HashFn) (out string) {
	defer func() {
		if r := recover(); r != nil {
			out = fmt.Sprintf("panic %v", r)
		}
	}()
	return res(trie2.VerifyProof(&root, &key, ps, hf))
}
func verify1Go(root, key felt.Felt, ps *trie.ProofNodeSet, hf crypto.HashFn) (out string) {
	defer func() {
		if r := recover(); r != nil {
			out = fmt.Sprintf("panic %v", r)
		}
	}()
	return res(trie.VerifyProof(&root, &key, ps, hf))
}

func keyBits(key *felt.Felt, h int) string {
	b := key.BigInt(new(big.Int))
	s := b.Text(2)
	if len(s) > h {
		s = s[len(s)-h:]
	}
	return strings.Repeat("0", h-len(s)) + s
}

// the model verifier on a concrete set; kind = v2 | v2s | v1 | vw
// putNorm: the set as utils.OrderedSet holds it when the entries are Put in order (an entry whose key
// is already present replaces that entry in place). The implementations receive their sets through
// Put (toTrie2 / toLegacy); the model receives the same normalised list.
func putNorm(p pset) pset {
	pos := map[string]int{}
	var out pset
	for _, e := range p {
		if i, ok := pos[e.Key]; ok {
			out[i] = e
			continue
		}
		pos[e.Key] = len(out)
		out = append(out, e)
	}
	return out
}

func verifyModel(or *hx.Oracle, kind string, root felt.Felt, kbits string, p pset, hf crypto.HashFn) string {
	p = putNorm(p)
	var sb strings.Builder
	fmt.Fprintf(&sb, "verify %s %s %s", kind, fhex(&root), kbits)
	for _, e := range p {
		in := e.N.inner(hf)
		if e.N.Bin {
			fmt.Fprintf(&sb, " %s=B,%s%s,%s%s,%s", e.Key, e.N.L.tag(), e.N.L.F, e.N.R.tag(), e.N.R.F, fhex(&in))
		} else {
			path := e.N.Path
			if path == "" {
				path = "-"
			}
			fmt.Fprintf(&sb, " %s=E,%s,%s%s,%s", e.Key, path, e.N.C.tag(), e.N.C.F, fhex(&in))
		}
	}
	rep := or.AskUntil(sb.String(), "end")
	if len(rep) != 1 {
		hx.Fatalf("oracle verify reply has %d lines", len(rep))
	}
	f := strings.Split(rep[0], "\t")
	if f[0] == "ok" {
		return "ok " + f[1]
	}
	return f[0]
}

// not_forged: an error, or exactly the true answer
func notForged(result, actual string) bool {
	return !strings.HasPrefix(result, "ok ") || result == "ok "+actual
}

// memoised term evaluation
var termMemo = map[string]string{}

func evalTerm(s string) string {
	if v, ok := termMemo[s]; ok {
		return v
	}
	f := term.MustEval(s)
	v := fhex(&f)
	termMemo[s] = v
	return v
}

func sortedKeys(m map[string]int) []string {
	ks := make([]string, 0, len(m))
	for k := range m {
		ks = append(ks, k)
	}
	sort.Strings(ks)
	return ks
}

