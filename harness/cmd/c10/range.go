package main

// Range proofs: GetRangeProof + VerifyRangeProof of core/trie2 and of the legacy core/trie against the
// extracted models (Model.v: verify_range2 / verify_range1) and against the property predicate:
// an accepted range states exactly the trie's entries between first and the last claimed key, and the
// returned flag says whether entries follow.

import (
	"bytes"
	"context"
	"encoding/json"
	"fmt"
	"math/big"
	"os"
	"os/exec"
	"sort"
	"strconv"
	"strings"
	"time"

	"github.com/NethermindEth/juno/core/felt"
	"github.com/NethermindEth/juno/core/trie"
	"github.com/NethermindEth/juno/core/trie2"
	"verifharness/hx"
)

type rangeCase struct {
	Trie      trieCase `json:"trie"`
	First     string   `json:"first"`
	Keys      []string `json:"keys"`
	Values    []string `json:"values"`
	Tamper    string   `json:"tamper"`     // "" = honest claim and proof
	ProofKeys []string `json:"proof_keys"` // nil: [first,last claimed]; ["nil"]: no proof; [l,r]
	Muts      []string `json:"muts"`       // alterations of the proof set (see oracle/c10/main.ml)
	Shape     string   `json:"shape"`
}

func felts(hs []string) []*felt.Felt {
	res := make([]*felt.Felt, len(hs))
	for i, h := range hs {
		f := hexF(h)
		res[i] = &f
	}
	return res
}

// withTimeout runs f; a verifier that does not return within 3 s is reported as "hang" (the goroutine
// is abandoned and keeps spinning)
func withTimeout(f func() string) string {
	ch := make(chan string, 1)
	go func() { ch <- f() }()
	select {
	case s := <-ch:
		return s
	case <-time.After(3 * time.Second):
		return "hang"
	}
}

func rangeVerify2(root, first felt.Felt, keys, vals []string, ps *trie2.ProofNodeSet) string {
	return withTimeout(func() string { return rangeVerify2raw(root, first, keys, vals, ps) })
}
func rangeVerify1(root, first felt.Felt, keys, vals []string, ps *trie.ProofNodeSet) string {
	return withTimeout(func() string { return rangeVerify1raw(root, first, keys, vals, ps) })
}

func rangeVerify2raw(root, first felt.Felt, keys, vals []string, ps *trie2.ProofNodeSet) (out string) {
	defer func() {
		if r := recover(); r != nil {
			out = "panic"
		}
	}()
	more, err := trie2.VerifyRangeProof(&root, &first, felts(keys), felts(vals), ps)
	if err != nil {
		return "err"
	}
	return fmt.Sprintf("ok more=%v", more)
}
func rangeVerify1raw(root, first felt.Felt, keys, vals []string, ps *trie.ProofNodeSet) (out string) {
	defer func() {
		if r := recover(); r != nil {
			out = "panic"
		}
	}()
	more, err := trie.VerifyRangeProof(&root, &first, felts(keys), felts(vals), ps)
	if err != nil {
		return "err"
	}
	return fmt.Sprintf("ok more=%v", more)
}

// the same alterations the oracle applies to the model's set
func applyMuts(p pset, muts []string) pset {
	for _, m := range muts {
		f := strings.Split(m, ":")
		i, _ := strconv.Atoi(f[1])
		if i >= len(p) {
			continue
		}
		q := p.clone()
		pick := func(n *wnode, side string) *child {
			if n.Bin {
				if side == "l" {
					return &n.L
				}
				if side == "r" {
					return &n.R
				}
				return nil
			}
			return &n.C
		}
		switch f[0] {
		case "drop":
			q = append(p[:i:i].clone(), p[i+1:]...)
		case "swap":
			if q[i].N.Bin {
				q[i].N.L, q[i].N.R = q[i].N.R, q[i].N.L
			}
		case "retag":
			if c := pick(&q[i].N, f[2]); c != nil {
				c.Val = !c.Val
			}
		case "child":
			if c := pick(&q[i].N, f[2]); c != nil {
				c.F = f[3]
			}
		case "pathflip":
			j, _ := strconv.Atoi(f[2])
			if !q[i].N.Bin && j < len(q[i].N.Path) {
				q[i].N.Path = flipBit(q[i].N.Path, j)
			}
		case "setedge":
			bits := f[2]
			if bits == "-" {
				bits = ""
			}
			q[i].N = wnode{Path: bits, C: child{false, f[3]}}
		case "copy":
			j, _ := strconv.Atoi(f[2])
			if j < len(p) {
				q[j].N = p[i].N
			}
		}
		p = q
	}
	return p
}

// Alterations that can make the proof set cyclic are verified in a child process: the trie2 hasher
// recurses without bound on a cyclic structure and the Go runtime kills the process (fatal stack
// overflow, not recoverable).
type childReq struct {
	Impl string    `json:"impl"`
	Case rangeCase `json:"case"`
}

func rangeOutcomes(rc rangeCase, b *built, impl string) string {
	first := hexF(rc.First)
	pk := rc.proofKeys()
	l, r := hexF(pk[0]), hexF(pk[1])
	if impl == "trie2" {
		p2 := trie2.NewProofNodeSet()
		hx.Must(b.t2.GetRangeProof(&l, &r, p2))
		s2, err := fromTrie2(p2)
		hx.Must(err)
		return rangeVerify2raw(b.root, first, rc.Keys, rc.Values, toTrie2(applyMuts(s2, rc.Muts)))
	}
	p1 := trie.NewProofNodeSet()
	hx.Must(b.t1.GetRangeProof(&l, &r, p1))
	s1, err := fromLegacy(p1)
	hx.Must(err)
	return rangeVerify1raw(b.root, first, rc.Keys, rc.Values, toLegacy(applyMuts(s1, rc.Muts)))
}

// childMain: C10_CHILD=1, request on stdin, outcome on stdout
func childMain() {
	var rq childReq
	hx.Must(json.NewDecoder(os.Stdin).Decode(&rq))
	b, err := buildTries(rq.Case.Trie)
	hx.Must(err)
	fmt.Println("outcome " + rangeOutcomes(rq.Case, b, rq.Impl))
}

func inChild(rc rangeCase, impl string) string {
	ctx, cancel := context.WithTimeout(context.Background(), 4*time.Second)
	defer cancel()
	cmd := exec.CommandContext(ctx, os.Args[0])
	cmd.Env = append(os.Environ(), "C10_CHILD=1")
	in, _ := json.Marshal(childReq{impl, rc})
	cmd.Stdin = bytes.NewReader(in)
	out, err := cmd.Output()
	for _, l := range strings.Split(string(out), "\n") {
		if strings.HasPrefix(l, "outcome ") {
			return strings.TrimPrefix(l, "outcome ")
		}
	}
	if ctx.Err() != nil {
		return "hang"
	}
	_ = err
	return "crash"
}

var cyclicRuns int
var cyclicMax = 1

func cycleProne(rc rangeCase) bool {
	for _, m := range rc.Muts {
		if strings.HasPrefix(m, "copy:") {
			return true
		}
	}
	return false
}

type content struct {
	keys []*big.Int
	vals map[string]string
}

func contentOf(tc trieCase) content {
	m := map[string]string{}
	for _, o := range tc.Ops {
		f := strings.Split(o, ":")
		k := hexFbig(f[0]).Text(16)
		if f[1] == "0" {
			delete(m, k)
		} else {
			m[k] = f[1]
		}
	}
	c := content{vals: m}
	for k := range m {
		c.keys = append(c.keys, hexFbig(k))
	}
	sort.Slice(c.keys, func(i, j int) bool { return c.keys[i].Cmp(c.keys[j]) < 0 })
	return c
}

// the property predicate: does an accepted answer (more) state the truth about the trie?
func (ct content) claimTrue(first string, keys, vals []string, more bool) bool {
	fb := hexFbig(first)
	if len(keys) == 0 {
		for _, k := range ct.keys {
			if k.Cmp(fb) >= 0 {
				return false
			}
		}
		return !more
	}
	lb := hexFbig(keys[len(keys)-1])
	// a claim that starts below [first] states the content of the wider interval [keys[0], last]
	if k0 := hexFbig(keys[0]); k0.Cmp(fb) < 0 {
		fb = k0
	}
	claim := map[string]string{}
	for i, k := range keys {
		claim[hexFbig(k).Text(16)] = hexFbig(vals[i]).Text(16) // later entries win, as Update does
	}
	n := 0
	follows := false
	for _, k := range ct.keys {
		if k.Cmp(lb) > 0 {
			follows = true
		}
		if k.Cmp(fb) >= 0 && k.Cmp(lb) <= 0 {
			n++
			if v, ok := claim[k.Text(16)]; !ok || v != hexFbig(ct.vals[k.Text(16)]).Text(16) {
				return false
			}
		}
	}
	return n == len(claim) && more == follows
}

func (rc rangeCase) oracleLine(impl string) string {
	var kvs []string
	for i := range rc.Keys {
		kvs = append(kvs, rc.Keys[i]+":"+rc.Values[i])
	}
	pk := rc.proofKeys()
	return fmt.Sprintf("range%s %d %s | %s | %s | %s | %s", impl, rc.Trie.Height, strings.Join(rc.Trie.Ops, " "),
		rc.First, strings.Join(kvs, " "), strings.Join(pk, " "), strings.Join(rc.Muts, " "))
}

func (rc rangeCase) proofKeys() []string {
	if rc.ProofKeys != nil {
		return rc.ProofKeys
	}
	if len(rc.Keys) == 0 {
		return []string{rc.First, rc.First}
	}
	return []string{rc.First, rc.Keys[len(rc.Keys)-1]}
}

// models available so far
var rangeModels = map[string]bool{"2": true, "1": true}

// runRange evaluates one case on both implementations; returns the outcomes
func runRange(c *hx.Ctx, or *hx.Oracle, rc rangeCase, verbose bool) {
	b, err := buildTries(rc.Trie)
	if err != nil {
		c.Violation("build-error", err.Error(), rc, true)
		return
	}
	ct := contentOf(rc.Trie)
	first := hexF(rc.First)
	pk := rc.proofKeys()
	var g2, g1 string
	if cycleProne(rc) && !verbose {
		if cyclicRuns >= cyclicMax {
			return // child processes are slow; a few per run are enough
		}
		cyclicRuns++
	}
	if cycleProne(rc) {
		g2, g1 = inChild(rc, "trie2"), inChild(rc, "legacy")
	} else if len(pk) == 1 && pk[0] == "nil" {
		g2 = rangeVerify2(b.root, first, rc.Keys, rc.Values, nil)
		g1 = rangeVerify1(b.root, first, rc.Keys, rc.Values, nil)
	} else {
		l, r := hexF(pk[0]), hexF(pk[1])
		p2 := trie2.NewProofNodeSet()
		hx.Must(b.t2.GetRangeProof(&l, &r, p2))
		p1 := trie.NewProofNodeSet()
		hx.Must(b.t1.GetRangeProof(&l, &r, p1))
		s2, err := fromTrie2(p2)
		hx.Must(err)
		s1, err := fromLegacy(p1)
		hx.Must(err)
		// the verifiers link and cut the nodes of the set in place: always hand them fresh nodes
		g2 = rangeVerify2(b.root, first, rc.Keys, rc.Values, toTrie2(applyMuts(s2, rc.Muts)))
		g1 = rangeVerify1(b.root, first, rc.Keys, rc.Values, toLegacy(applyMuts(s1, rc.Muts)))
		if len(rc.Muts) == 0 {
			// ... and the implementation's own objects (they carry cached hashes)
			if g := rangeVerify2(b.root, first, rc.Keys, rc.Values, p2); g != g2 {
				c.Violation("trie2:range-verify-differs-on-own-nodes", fmt.Sprintf("fresh nodes %s, Prove's nodes %s", g2, g), rc, false)
			}
		}
	}
	if verbose {
		fmt.Printf("replay: range first=%s keys=%v (%s %s): trie2.VerifyRangeProof %s, trie.VerifyRangeProof %s\n", rc.First, rc.Keys, rc.Shape, rc.Tamper, g2, g1)
	}
	honest := rc.Tamper == "" && len(rc.Muts) == 0
	// identical sub-nodes under different parents on the two boundary paths: the hash-keyed proof set holds ONE object
	// for them, and trie2's range verifier links and cuts proof nodes in place (the registered root cause of
	// trie2:honest-range-proof-panics); trie2's honest-range failures carry the suffix so that this family stays apart
	shared := ""
	if !(len(pk) == 1 && pk[0] == "nil") && sharedSubnodes(b, pk) {
		shared = ":identical-sub-nodes"
		c.Hist["range:boundary-paths-share-identical-sub-nodes"]++
	}
	for _, ig := range [][3]string{{"trie2", g2, "2"}, {"legacy", g1, "1"}} {
		impl, g := ig[0], ig[1]
		c.Evaluations++
		c.Hist["range:"+impl+":"+strings.Fields(g)[0]]++
		if rangeModels[ig[2]] {
			rep := or.AskUntil(rc.oracleLine(ig[2]), "end")
			m := ""
			if len(rep) == 1 {
				m = rep[0]
			}
			if m == "fuel" && (g == "hang" || g == "crash") {
				m = g // the model runs out of fuel exactly on cyclic sets: the code loops / overflows its stack
			}
			if m == "fuel" {
				// an altered, cyclic proof set on which the model's fuel runs out while the code happens to give up
				// earlier: outside every theorem (their statements exclude fuel exhaustion); counted, not compared
				c.Hist["range:model-out-of-fuel:"+impl+":"+strings.Fields(g)[0]]++
				m = g
			}
			if m != g {
				c.Violation("model-vs-"+impl+":range", fmt.Sprintf("%s %s: impl %s model %v", rc.Shape, rc.Tamper, g, rep), rc, true)
			}
		}
		if impl == "trie2" && strings.HasPrefix(g, "ok") && !hasDupKeys(rc.Keys) {
			// the certified verifier (theorem range2_cert_sound): code accepts => certificate holds,
			// and the recomputed flag is the code's
			rep := or.AskUntil(rc.oracleLine("2c"), "end")
			cg := ""
			if len(rep) == 1 {
				cg = rep[0]
			}
			c.Hist["range:certified:"+strings.Fields(cg+" ?")[0]]++
			if cg != g {
				c.Hist["range:accepted-without-certificate:"+rc.Tamper]++
				startsBelow := len(rc.Keys) > 0 && hexFbig(rc.Keys[0]).Cmp(hexFbig(rc.First)) < 0 // the certificate is about [first,last] only
				if len(rc.Muts) == 0 && !startsBelow && ct.claimTrue(rc.First, rc.Keys, rc.Values, strings.HasSuffix(g, "true")) {
					// a true statement accepted although the certificate fails: the certificate would be too strong
					c.Violation("model:certificate-rejects-true-claim", fmt.Sprintf("%s %s: code %s certified %s", rc.Shape, rc.Tamper, g, cg), rc, true)
				}
			}
		}
		if strings.HasPrefix(g, "ok") {
			more := strings.HasSuffix(g, "true")
			if ct.claimTrue(rc.First, rc.Keys, rc.Values, more) {
				continue
			}
			// accepted, but the statement is false
			if honest || ct.claimTrue(rc.First, rc.Keys, rc.Values, !more) {
				c.Violation(impl+":honest-range-proof-wrong-more-flag",
					fmt.Sprintf("root %s range first=%s [%s..] (%s): %s but the opposite holds", fhex(&b.root), rc.First, rc.Shape, rc.Tamper, g), rc, false)
			} else {
				c.Violation(impl+":range-forged:"+rc.Tamper, "altered range accepted: "+g, rc, false)
			}
			continue
		}
		if honest && b.root.IsZero() && !(len(pk) == 1 && pk[0] == "nil") {
			// empty trie: the proof set is empty and the verifiers report "proof node not found" (as
			// for membership proofs, C10_empty_trie): recorded, not raised
			c.Hist["range:empty-trie-with-empty-proof:"+impl+":"+g]++
			continue
		}
		if honest && (ct.claimTrue(rc.First, rc.Keys, rc.Values, false) || ct.claimTrue(rc.First, rc.Keys, rc.Values, true)) {
			cl := impl + ":honest-range-proof-not-verified"
			if g == "panic" {
				cl = impl + ":honest-range-proof-panics"
			} else if impl == "trie2" {
				cl += shared
			}
			c.Violation(cl, fmt.Sprintf("root %s first=%s %d claimed entries (%s): %s", fhex(&b.root), rc.First, len(rc.Keys), rc.Shape, g), rc, false)
		}
		if g == "hang" || g == "crash" {
			c.Violation(impl+":range-verify-diverges-on-cyclic-proof-set", fmt.Sprintf("root %s first=%s muts=%v: VerifyRangeProof %s (hang = still running after the time limit, crash = the process died: unbounded recursion)", fhex(&b.root), rc.First, rc.Muts, g), rc, false)
		}
		if !honest && g == "panic" {
			c.Hist["range:"+impl+":panic-on-altered-input:"+rc.Tamper]++
		}
	}
}

// sharedSubnodes: below the point where the two boundary keys part, their membership proofs contain a node with the
// same hash (identical sub-tries under different parents). A proof node that starts at bit offset o is the same trie
// node on both paths iff the keys agree on all bits before o.
func sharedSubnodes(b *built, pk []string) bool {
	if len(pk) != 2 || b.root.IsZero() {
		return false
	}
	type at struct {
		hash string
		off  int
	}
	path := func(k string) ([]at, string) {
		key := hexF(k)
		p := trie2.NewProofNodeSet()
		if err := b.t2.Prove(&key, p); err != nil {
			return nil, ""
		}
		s, err := fromTrie2(p)
		if err != nil {
			return nil, ""
		}
		out := make([]at, len(s))
		off := 0
		for i, e := range s {
			out[i] = at{e.Key, off}
			if e.N.Bin {
				off++
			} else {
				off += len(e.N.Path)
			}
		}
		return out, keyBits(&key, 251)
	}
	l, lb := path(pk[0])
	r, rb := path(pk[1])
	cb := 0
	for cb < len(lb) && cb < len(rb) && lb[cb] == rb[cb] {
		cb++
	}
	seen := map[string]bool{}
	for _, n := range l {
		if n.off > cb {
			seen[n.hash] = true
		}
	}
	for _, n := range r {
		if n.off > cb && seen[n.hash] {
			return true
		}
	}
	return false
}

func hasDupKeys(ks []string) bool {
	seen := map[string]bool{}
	for _, k := range ks {
		x := hexFbig(k).Text(16)
		if seen[x] {
			return true
		}
		seen[x] = true
	}
	return false
}

func between(a, b *big.Int) *big.Int { // a value strictly between, or nil
	m := new(big.Int).Add(a, b)
	m.Rsh(m, 1)
	if m.Cmp(a) > 0 && m.Cmp(b) < 0 {
		return m
	}
	return nil
}

// all range cases derived from one trie
func evalRanges(c *hx.Ctx, or *hx.Oracle, r *hx.RNG, tc trieCase) {
	if tc.Height != 251 {
		return
	}
	tc.Hash = "ped" // both VerifyRangeProof implementations are fixed to Pedersen
	tc.Keys = nil
	ct := contentOf(tc)
	n := len(ct.keys)
	hexs := func(ks []*big.Int) (k, v []string) {
		for _, x := range ks {
			k = append(k, x.Text(16))
			v = append(v, ct.vals[x.Text(16)])
		}
		return
	}
	mk := func(shape, first string, ks []*big.Int) rangeCase {
		k, v := hexs(ks)
		return rangeCase{Trie: tc, First: first, Keys: k, Values: v, Shape: shape}
	}
	var cases []rangeCase
	max := new(big.Int).Sub(new(big.Int).Lsh(big.NewInt(1), 251), big.NewInt(1))
	if n == 0 {
		cases = append(cases, mk("empty-trie:empty-range", "5", nil))
		e := mk("empty-trie:nil-proof", "0", nil)
		e.ProofKeys = []string{"nil"}
		cases = append(cases, e)
	} else {
		i := r.Intn(n)
		j := i + r.Intn(n-i)
		cases = append(cases, mk("inner", ct.keys[i].Text(16), ct.keys[i:j+1]))
		cases = append(cases, mk("from-first-element", ct.keys[0].Text(16), ct.keys[:j+1]))
		cases = append(cases, mk("to-last-element", ct.keys[i].Text(16), ct.keys[i:]))
		cases = append(cases, mk("all-elements-with-proof", ct.keys[0].Text(16), ct.keys))
		cases = append(cases, mk("all-elements-first=0", "0", ct.keys))
		a := mk("all-elements-nil-proof", ct.keys[0].Text(16), ct.keys)
		a.ProofKeys = []string{"nil"}
		cases = append(cases, a)
		cases = append(cases, mk("single", ct.keys[i].Text(16), ct.keys[i:i+1]))
		// first is an absent key before the first claimed element
		lo := big.NewInt(0)
		if i > 0 {
			lo = ct.keys[i-1]
		}
		if m := between(lo, ct.keys[i]); m != nil {
			cases = append(cases, mk("absent-first", m.Text(16), ct.keys[i:j+1]))
			cases = append(cases, mk("single-absent-first", m.Text(16), ct.keys[i:i+1]))
		}
		// empty ranges: behind the last element (true), before some element (false: must be refused)
		if ct.keys[n-1].Cmp(max) < 0 {
			if m := between(ct.keys[n-1], new(big.Int).Add(max, big.NewInt(1))); m != nil {
				cases = append(cases, mk("empty-range-behind-last", m.Text(16), nil))
			}
		}
		if m := between(lo, ct.keys[i]); m != nil {
			e := mk("empty-range-with-followers", m.Text(16), nil)
			e.Tamper = "empty-claim-but-entries-follow"
			cases = append(cases, e)
			// ... and the root node replaced (under the root's hash) by an edge that diverges below
			// the key: the followers are hidden; only recomputing the hashes can tell
			if m.Sign() > 0 {
				f := mk("empty-range-with-followers", m.Text(16), nil)
				f.Tamper = "empty-claim-root-node-replaced"
				f.Muts = []string{"setedge:0:" + strings.Repeat("0", 251) + ":1"}
				cases = append(cases, f)
			}
		}
	}
	// altered claims / proofs derived from the honest cases with >= 1 element
	var alts []rangeCase
	for _, h := range cases {
		if len(h.Keys) == 0 || h.Tamper != "" || !r.Chance(60) {
			continue
		}
		cp := func(t string) rangeCase {
			x := h
			x.Keys = append([]string{}, h.Keys...)
			x.Values = append([]string{}, h.Values...)
			x.Tamper = t
			return x
		}
		m := len(h.Keys)
		x := cp("value-changed")
		p := r.Intn(m)
		x.Values[p] = incHex(h.Values[p])
		alts = append(alts, x)
		if m >= 3 {
			x := cp("inner-element-omitted")
			p := 1 + r.Intn(m-2)
			x.Keys = append(x.Keys[:p], x.Keys[p+1:]...)
			x.Values = append(x.Values[:p], x.Values[p+1:]...)
			alts = append(alts, x)
		}
		if m >= 2 && len(h.ProofKeys) == 0 {
			// everything but the LAST element omitted (the proof is the honest one of [first, last]): re-inserting the
			// last key changes nothing on the right boundary path, so only a verifier that really recomputes every
			// hash between the boundaries (no cached hash of a proof node survives) can refuse it
			if m >= 3 { // with two elements this is the first-element-omitted claim below
				w := cp("only-last-element-kept")
				w.Keys, w.Values = w.Keys[m-1:], w.Values[m-1:]
				alts = append(alts, w)
			}
			x := cp("first-element-omitted") // first stays; the proof is the one of [first, last]
			x.Keys, x.Values = x.Keys[1:], x.Values[1:]
			alts = append(alts, x)
			y := cp("last-element-omitted-proof-of-old-last")
			y.ProofKeys = []string{h.First, h.Keys[m-1]}
			y.Keys, y.Values = y.Keys[:m-1], y.Values[:m-1]
			alts = append(alts, y)
			z := cp("first-moved-past-first-element")
			z.First = h.Keys[1]
			z.ProofKeys = []string{h.Keys[1], h.Keys[m-1]}
			alts = append(alts, z)
		}
		if m >= 2 {
			p := r.Intn(m - 1)
			if mid := between(hexFbig(h.Keys[p]), hexFbig(h.Keys[p+1])); mid != nil {
				x := cp("element-inserted")
				x.Keys = append(append(append([]string{}, h.Keys[:p+1]...), mid.Text(16)), h.Keys[p+1:]...)
				x.Values = append(append(append([]string{}, h.Values[:p+1]...), "7"), h.Values[p+1:]...)
				alts = append(alts, x)
			}
		}
		{
			x := cp("key-duplicated-true-value-last") // [k:v', k:v]: the later (true) value wins; refusing it is fine too
			p := r.Intn(m)
			x.Keys = append(append(append([]string{}, h.Keys[:p+1]...), h.Keys[p]), h.Keys[p+1:]...)
			x.Values = append(append(append([]string{}, h.Values[:p]...), incHex(h.Values[p]), h.Values[p]), h.Values[p+1:]...)
			alts = append(alts, x)
			y := cp("key-duplicated-wrong-value-last")
			y.Keys = x.Keys
			y.Values = append(append(append([]string{}, h.Values[:p+1]...), incHex(h.Values[p])), h.Values[p+1:]...)
			alts = append(alts, y)
		}
		if h.Shape == "single" {
			// the value changed in the claim AND in the proof node holding it (the node stays stored
			// under its honest hash): only recomputing the hashes can tell
			b, err := buildTries(h.Trie)
			if err == nil {
				kf := hexF(h.Keys[0])
				p2 := trie2.NewProofNodeSet()
				b.t2.Prove(&kf, p2)
				if sz := p2.Size(); sz > 0 {
					s2, _ := fromTrie2(p2)
					side := "c"
					if s2[sz-1].N.Bin {
						side = "l"
						if kf.BigInt(new(big.Int)).Bit(0) == 1 {
							side = "r"
						}
					}
					x := cp("single-element-value-forged-also-in-proof-node")
					x.Values[0] = incHex(h.Values[0])
					x.Muts = []string{fmt.Sprintf("child:%d:%s:%s", sz-1, side, x.Values[0])}
					alts = append(alts, x)
				}
			}
		}
		if len(h.ProofKeys) == 0 {
			// altered boundary proof: the set has at least one node
			b, err := buildTries(h.Trie)
			if err == nil {
				l, rr := hexF(h.First), hexF(h.Keys[m-1])
				p2 := trie2.NewProofNodeSet()
				b.t2.GetRangeProof(&l, &rr, p2)
				if sz := p2.Size(); sz > 0 {
					i := r.Intn(sz)
					side := []string{"l", "r"}[r.Intn(2)]
					muts := []string{
						fmt.Sprintf("drop:%d", i), fmt.Sprintf("swap:%d", i), fmt.Sprintf("retag:%d:%s", i, side),
						fmt.Sprintf("child:%d:%s:%s", i, side, randFelt(r)), fmt.Sprintf("pathflip:%d:%d", i, r.Intn(8)),
						fmt.Sprintf("copy:%d:%d", i, r.Intn(sz)),
					}
					x := cp("proof-node-altered")
					x.Muts = []string{muts[r.Intn(len(muts))]}
					x.Tamper = "proof-" + strings.Split(x.Muts[0], ":")[0]
					alts = append(alts, x)
				}
			}
		}
	}
	for _, rc := range append(cases, alts...) {
		c.Count("range|"+strings.Join(tc.Ops, ",")+"|"+rc.First+"|"+rc.Shape+"|"+rc.Tamper+"|"+strings.Join(rc.Muts, ","), true)
		c.Hist["range-case:"+rc.Shape]++
		if rc.Tamper != "" {
			c.Hist["range-altered:"+rc.Tamper]++
		}
		runRange(c, or, rc, false)
	}
}

// corpus: minimised failures of earlier runs, run first on every invocation (testdata/*.json hold
// the same cases as replay files)
func corpus(c *hx.Ctx, or *hx.Oracle) {
	k250 := "4" + strings.Repeat("0", 62)
	k250p1 := "4" + strings.Repeat("0", 61) + "1"
	mk := func(ops []string, keys, vals []string, tamper string) rangeCase {
		return rangeCase{Trie: trieCase{Hash: "ped", Height: 251, Ops: ops}, First: keys[0], Keys: keys, Values: vals, Tamper: tamper, Shape: "corpus"}
	}
	t159 := trieCase{Hash: "ped", Height: 251, Ops: []string{"1:a", "5:b", "9:c"}}
	for _, rc := range []rangeCase{
		mk([]string{"1:a", "5:b", "9:c"}, []string{"1", "9"}, []string{"a", "c"}, "inner-element-omitted"),
		mk([]string{"1:a", k250 + ":b", k250p1 + ":c"}, []string{"1", k250}, []string{"a", "b"}, ""),
		// two boundary paths with IDENTICAL sub-nodes (same path suffix, same value => same node hash)
		mk([]string{"1:5", k250p1 + ":5"}, []string{"1", k250p1}, []string{"5", "5"}, ""),
		// legacy: an honest empty range behind the last entry is refused (the key diverges inside the root edge)
		{Trie: t159, First: k250, Shape: "corpus:empty-range-behind-last"},
		// legacy: claims that are not bound to the proof
		{Trie: t159, First: "1", Keys: []string{"5", "9"}, Values: []string{"b", "c"}, ProofKeys: []string{"1", "9"}, Tamper: "first-element-omitted", Shape: "corpus"},
		// trie2: a boundary leaf hanging directly under a binary node is not cut by unset: entry 0 left out
		{Trie: trieCase{Hash: "ped", Height: 251, Ops: []string{"0:a", "1:b", "9:c"}}, First: "0", Keys: []string{"1", "9"}, Values: []string{"b", "c"}, ProofKeys: []string{"0", "9"}, Tamper: "first-element-omitted", Shape: "corpus"},
		{Trie: t159, First: "0", Keys: []string{"1", "5", "9"}, Values: []string{"ff", "b", "c"}, Tamper: "value-changed", Shape: "corpus"},
		{Trie: trieCase{Hash: "ped", Height: 251, Ops: []string{"1:a", k250 + ":b", k250p1 + ":c"}}, First: "2", Tamper: "empty-claim-but-entries-follow", Shape: "corpus"},
		// an empty claim whose `first` leaves the trie inside an INTERNAL edge (an edge above a binary node, not a leaf
		// edge) that sorts above it, every binary node above left through its right child or none above at all: only
		// hasRightElement's comparison inside the edge decides (round-4 seed trie2-hasright-edge-padding)
		{Trie: trieCase{Hash: "ped", Height: 251, Ops: []string{"10:a", "11:b"}}, First: "0", Tamper: "empty-claim-but-entries-follow", Shape: "corpus"},
		{Trie: trieCase{Hash: "ped", Height: 251, Ops: []string{"1:a", "70:b", "71:c"}}, First: "40", Tamper: "empty-claim-but-entries-follow", Shape: "corpus"},
		// identical sub-nodes on the two boundary paths, honest range refused with an error (not a panic) by trie2
		{Trie: trieCase{Hash: "ped", Height: 251, Ops: []string{"6:6", "7:6", "1536bb68aba798674:6", "1536bb68aba798675:6"}, Shape: "repeated-subtrie"},
			First: "6", Keys: []string{"6", "7", "1536bb68aba798674"}, Values: []string{"6", "6", "6"}, Shape: "corpus"},
		// both: the single-element branch recomputes no hash (value altered in the claim and in the proof node, node still under its honest hash)
		{Trie: t159, First: "5", Keys: []string{"5"}, Values: []string{"ff"}, Tamper: "single-element-value-forged-also-in-proof-node", Muts: []string{"child:3:c:ff"}, Shape: "corpus"},
		// trie2: the empty-range branch recomputes no hash (root object replaced by a diverging edge)
		{Trie: t159, First: "3", Tamper: "empty-claim-root-node-replaced", Muts: []string{"setedge:0:" + strings.Repeat("0", 251) + ":1"}, Shape: "corpus"},
		// only the LAST element kept, first absent and leaving the trie inside the edge on which the two boundary paths
		// fork (root edge / inner edge above a binary subtree): re-inserting the last key changes nothing, so the
		// omission is only noticed if no proof node keeps a cached hash (the own-nodes comparison of runRange)
		{Trie: trieCase{Hash: "ped", Height: 251, Ops: []string{"4:a", "5:b", "6:c", "7:d"}}, First: "0", Keys: []string{"7"}, Values: []string{"d"},
			ProofKeys: []string{"0", "7"}, Tamper: "only-last-element-kept", Shape: "corpus"},
		{Trie: trieCase{Hash: "ped", Height: 251, Ops: []string{"c:a", "d:b", "e:c", "f:d", k250p1 + ":e"}}, First: "8", Keys: []string{"f"}, Values: []string{"d"},
			ProofKeys: []string{"8", "f"}, Tamper: "only-last-element-kept", Shape: "corpus"},
		{Trie: trieCase{Hash: "ped", Height: 251, Ops: []string{"14:a", "15:b", "16:c", "17:d", "1:e"}}, First: "10", Keys: []string{"16", "17"}, Values: []string{"c", "d"},
			ProofKeys: []string{"10", "17"}, Tamper: "first-element-omitted", Shape: "corpus"},
		// a node also stored under the hash of its child: the linked structure is cyclic
		{Trie: trieCase{Hash: "ped", Height: 251, Ops: []string{"1:a", "5:b", "9:c"}}, First: "1", Keys: []string{"1", "5", "9"},
			Values: []string{"a", "b", "c"}, Tamper: "proof-copy", Muts: []string{"copy:1:2"}, Shape: "corpus"},
	} {
		c.Hist["corpus:range"]++
		if cycleProne(rc) {
			cyclicRuns-- // the corpus case does not count against the per-run limit
		}
		runRange(c, or, rc, false)
	}
}

func replayRange(c *hx.Ctx, or *hx.Oracle, rc rangeCase, verbose bool) { runRange(c, or, rc, verbose) }
