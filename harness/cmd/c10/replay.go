package main

import (
	"encoding/json"
	"fmt"
	"os"
	"path/filepath"
	"strings"

	"github.com/NethermindEth/juno/core/felt"
	"github.com/NethermindEth/juno/db/memory"
	rpcv10 "github.com/NethermindEth/juno/rpc/v10"
	"github.com/NethermindEth/juno/sync"
	"github.com/NethermindEth/juno/utils/log"
	"verifharness/chain"
	"github.com/NethermindEth/juno/core/trie2"
	"github.com/NethermindEth/juno/core/trie2/trienode"
	"verifharness/hx"
)

// VerifyProof hashes a proof node with hasher.hash, which returns the node's cached hash
// (Flags.Hash) without recomputing it. Nodes handed out by Prove are copies of the trie's nodes and
// carry that cache. Probe: alter a child of such a node in place (as Go code holding the set would)
// and verify.
func cachedHashProbe(c *hx.Ctx, r *hx.RNG) {
	for try := 0; try < 20; try++ {
		tc := genTrieCase(r, []int{251})
		b, err := buildTries(tc)
		if err != nil || b.root.IsZero() || len(tc.Keys) == 0 {
			continue
		}
		hf := hashFn(tc.Hash)
		ks := tc.Keys[r.Intn(len(tc.Keys))]
		key := hexF(ks)
		ps := trie2.NewProofNodeSet()
		if err := b.t2.Prove(&key, ps); err != nil || ps.Size() == 0 {
			continue
		}
		keys, nodes := ps.Keys(), ps.List()
		i := r.Intn(len(nodes))
		cached, _ := nodes[i].Cache()
		c.Hist[fmt.Sprintf("cached-hash-probe:node-carries-cached-hash=%v", cached != nil)]++
		forged := hexF(randFelt(r))
		var altered trienode.Node
		switch n := nodes[i].(type) {
		case *trienode.BinaryNode:
			cp := n.Copy()
			cp.Children[0] = (*trienode.ValueNode)(&forged)
			cp.Children[1] = (*trienode.ValueNode)(&forged)
			altered = cp
		case *trienode.EdgeNode:
			cp := n.Copy()
			cp.Child = (*trienode.ValueNode)(&forged)
			altered = cp
		}
		ps.Put(keys[i], altered)
		actual, _ := b.t2.Get(&key)
		g := verify2Go(b.root, key, ps, hf)
		c.Evaluations++
		if !notForged(g, fhex(&actual)) {
			c.Violation("trie2:forged:node-with-cached-hash-flag",
				fmt.Sprintf("root %s key %s: node %d of Prove's own set altered in place (children replaced by value %s, Flags.Hash kept): VerifyProof %s, actual %s",
					fhex(&b.root), ks, i, fhex(&forged), g, fhex(&actual)),
				map[string]any{"probe": "cached-hash", "trie": tc, "key": ks, "node": i, "forged": fhex(&forged)}, false)
			return
		}
	}
}

func replay(c *hx.Ctx, or *hx.Oracle, r *hx.RNG) {
	c.ReplayDir = filepath.Join(c.ReplayDir, "rerun") // never overwrite the file being replayed
	b, err := os.ReadFile(c.ReplayIn)
	hx.Must(err)
	var w struct {
		Replay json.RawMessage `json:"replay"`
	}
	hx.Must(json.Unmarshal(b, &w))
	var probe struct {
		Probe    string    `json:"probe"`
		Impl     string    `json:"impl"`
		Hash     string    `json:"hash"`
		Root     string    `json:"root"`
		Actual   string    `json:"actual"`
		Tampered *tampered `json:"tampered"`
		Trie     *trieCase `json:"trie"`
		Set      pset      `json:"set"`
		Key      string    `json:"key"`
		First    string    `json:"first"`
		Ops      []string  `json:"ops"`
	}
	hx.Must(json.Unmarshal(w.Replay, &probe))
	var rk struct {
		Kind    string        `json:"kind"`
		Chain   *rpcChainCase `json:"chain"`
		Request *rpcRequest   `json:"request"`
	}
	if json.Unmarshal(w.Replay, &rk) == nil && rk.Kind == "rpc" && rk.Chain != nil {
		replayRPC(c, r, rk.Chain, rk.Request)
		return
	}
	switch {
	case probe.Probe == "cached-hash":
		cachedHashProbe(c, r)
	case probe.Tampered != nil:
		hf := hashFn(probe.Hash)
		root, key := hexF(probe.Root), hexF(probe.Tampered.Key)
		var g string
		if probe.Impl == "trie2" {
			g = verify2Go(root, key, toTrie2(probe.Tampered.Set), hf)
		} else {
			g = verify1Go(root, key, toLegacy(probe.Tampered.Set), hf)
		}
		fmt.Printf("replay: %s VerifyProof(root %s, key %s, altered set %s) = %s ; actual value %s\n",
			probe.Impl, probe.Root, probe.Tampered.Key, probe.Tampered.Kind, g, probe.Actual)
		if !notForged(g, probe.Actual) {
			kind := probe.Tampered.Kind
			valueTag := probe.Impl == "trie2" &&
				!strings.HasPrefix(verifyModel(or, "v2s", root, keyBits(&key, 251), probe.Tampered.Set, hf), "ok ") &&
				verifyModel(or, "v2", root, keyBits(&key, 251), probe.Tampered.Set, hf) == g
			for _, suf := range []string{":stale-key", ":rekeyed"} {
				if len(kind) > len(suf) && kind[len(kind)-len(suf):] == suf {
					kind = kind[:len(kind)-len(suf)]
				}
			}
			if valueTag {
				kind = "retag-child" // a ValueNode-tagged child above leaf depth, whatever the alteration was called
			}
			c.Violation(probe.Impl+":forged:"+kind, "replayed: "+g, probe, false)
		}
	case probe.Root != "" && len(probe.Set) > 0:
		evalSynth(c, or, synthCase{Hash: probe.Hash, Key: probe.Key, Set: probe.Set, Root: probe.Root})
	case probe.Trie != nil && probe.First != "":
		var rc rangeCase
		hx.Must(json.Unmarshal(w.Replay, &rc))
		replayRange(c, or, rc, true)
	case probe.Trie != nil:
		report(c, evalCase(c, or, r, *probe.Trie, true), *probe.Trie)
	default:
		var tc trieCase
		hx.Must(json.Unmarshal(w.Replay, &tc))
		report(c, evalCase(c, or, r, tc, true), tc)
	}
}

var _ = felt.Zero

// replayRPC rebuilds the stored chain and repeats the stored request (the order of
// contracts_storage_proofs follows Go map iteration, so the call is repeated)
func replayRPC(c *hx.Ctx, r *hx.RNG, cc *rpcChainCase, rq *rpcRequest) {
	tag := "legacy"
	if cc.NewState {
		tag = "newstate"
	}
	x := &rpcRun{c: c, r: r, st: &rpcStats{}, tag: tag}
	if rq == nil {
		x.runChain(cc)
		return
	}
	database := memory.New()
	defer database.Close()
	node := chain.NewNode(database, cc.NewState)
	m := newRPCModel()
	for i := range cc.Specs {
		_, err := node.Finalise(&cc.Specs[i])
		hx.Must(err)
		m.apply(&cc.Specs[i])
	}
	head, err := node.BC.HeadsHeader()
	hx.Must(err)
	handler := rpcv10.New(node.BC, &sync.NoopSynchronizer{}, nil, log.NewNopZapLogger())
	for i := 0; i < 25 && c.NViolations() == 0; i++ {
		x.query(handler, node, head.Number, head.Hash, head.GlobalStateRoot, m, cc, rq)
	}
	fmt.Printf("replay: rpc StorageProof request repeated; violations reproduced: %d\n", c.NViolations())
}
