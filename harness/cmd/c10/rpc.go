// C10 (rpc part): starknet_getStorageProof of rpc v10 on synthetic chains, both state backends, checked
// by an independent Merkle-Patricia proof verifier written from the Starknet JSON-RPC specification
// (node_hash -> {binary | edge} mapping; binary hash = H(left,right); edge hash = H(child,path)+length).
// Nothing of core/trie or core/trie2 is used for verification.
package main

// The Rust VM / Sierra compiler symbols referenced by juno's cgo packages (vm, starknet/compiler; pulled in
// by rpc/v10). They are defined here, WEAK, so that the link does not need the archive members of
// /verif/cstubs (which reference `stderr` from non-PIC code and fail under the `-z nocopyreloc -no-pie`
// external link of this toolchain; same workaround as harness/cmd/c08/vmstubs.go). Weak: another file of
// this package or a stub library may define them as well. Nothing here ever calls them (no VM is given
// to the handler): abort().

/*
#include <stdlib.h>
__attribute__((weak)) void cairoVMCall(void) { abort(); }
__attribute__((weak)) void cairoVMExecute(void) { abort(); }
__attribute__((weak)) void setVersionedConstants(void) { abort(); }
__attribute__((weak)) void freeString(void) { abort(); }
__attribute__((weak)) void compileSierraToCasm(void) { abort(); }
__attribute__((weak)) void freeCstr(void) { abort(); }
*/
import "C"

import (
	"encoding/json"
	"errors"
	"fmt"
	"math/big"
	"sort"
	"strings"

	"github.com/NethermindEth/juno/core/crypto"
	"github.com/NethermindEth/juno/core/felt"
	"github.com/NethermindEth/juno/db/memory"
	rpcv10 "github.com/NethermindEth/juno/rpc/v10"
	"github.com/NethermindEth/juno/sync"
	"github.com/NethermindEth/juno/utils/log"
	"verifharness/chain"
	"verifharness/hx"
)

// ---------------------------------------------------------------------------------------------
// response, as seen on the wire (the handler's result is marshalled to JSON and parsed into these
// types, so the JSON shapes of BinaryNode / EdgeNode / ContractProof / GlobalRoots are exercised too)
// ---------------------------------------------------------------------------------------------

type rpcPNode struct {
	Left   *felt.Felt `json:"left,omitempty"`
	Right  *felt.Felt `json:"right,omitempty"`
	Path   *string    `json:"path,omitempty"`
	Length *int       `json:"length,omitempty"`
	Child  *felt.Felt `json:"child,omitempty"`
}

type rpcPEntry struct {
	Hash *felt.Felt `json:"node_hash"`
	Node rpcPNode   `json:"node"`
}

type rpcLeaf struct {
	Nonce       *felt.Felt `json:"nonce"`
	ClassHash   *felt.Felt `json:"class_hash"`
	StorageRoot *felt.Felt `json:"storage_root"`
}

type rpcResp struct {
	ClassesProof   []rpcPEntry `json:"classes_proof"`
	ContractsProof *struct {
		Nodes  []rpcPEntry `json:"nodes"`
		Leaves []*rpcLeaf  `json:"contract_leaves_data"`
	} `json:"contracts_proof"`
	StorageProofs [][]rpcPEntry `json:"contracts_storage_proofs"`
	GlobalRoots   *struct {
		ContractsTreeRoot *felt.Felt `json:"contracts_tree_root"`
		ClassesTreeRoot   *felt.Felt `json:"classes_tree_root"`
		BlockHash         *felt.Felt `json:"block_hash"`
	} `json:"global_roots"`
}

// ---------------------------------------------------------------------------------------------
// the independent verifier
// ---------------------------------------------------------------------------------------------

const rpcKeyBits = 251

type rpcHashFn func(a, b *felt.Felt) felt.Felt

func rpcPedersen(a, b *felt.Felt) felt.Felt { return crypto.Pedersen(a, b) }
func rpcPoseidon(a, b *felt.Felt) felt.Felt { return crypto.Poseidon(a, b) }

func rpcParsePath(s string) (*big.Int, error) {
	if !strings.HasPrefix(s, "0x") || len(s) < 3 {
		return nil, fmt.Errorf("edge path %q is not 0x-hex", s)
	}
	f, err := felt.NewFromString[felt.Felt](s)
	if err != nil {
		return nil, fmt.Errorf("edge path %q: %v", s, err)
	}
	return f.BigInt(new(big.Int)), nil
}

// rpcNodeHash recomputes the hash of a proof node from its fields.
func rpcNodeHash(n *rpcPNode, h rpcHashFn) (felt.Felt, error) {
	isBin := n.Left != nil || n.Right != nil
	isEdge := n.Path != nil || n.Length != nil || n.Child != nil
	switch {
	case isBin && isEdge:
		return felt.Felt{}, errors.New("node has both binary and edge members")
	case isBin:
		if n.Left == nil || n.Right == nil {
			return felt.Felt{}, errors.New("binary node lacks a child")
		}
		return h(n.Left, n.Right), nil
	case isEdge:
		if n.Path == nil || n.Length == nil || n.Child == nil {
			return felt.Felt{}, errors.New("edge node lacks a member")
		}
		p, err := rpcParsePath(*n.Path)
		if err != nil {
			return felt.Felt{}, err
		}
		if *n.Length < 1 || *n.Length > rpcKeyBits {
			return felt.Felt{}, fmt.Errorf("edge length %d out of range", *n.Length)
		}
		if p.BitLen() > *n.Length {
			return felt.Felt{}, fmt.Errorf("edge path %s wider than its length %d", *n.Path, *n.Length)
		}
		pf := new(felt.Felt).SetBigInt(p)
		hh := h(n.Child, pf)
		lf := felt.FromUint64[felt.Felt](uint64(*n.Length))
		hh.Add(&hh, &lf)
		return hh, nil
	}
	return felt.Felt{}, errors.New("node is neither binary nor edge")
}

// rpcVerify walks the proof from root along key (251 bits, most significant first). It returns the
// leaf value (zero = proven absent), the indices of the proof entries it visited, or an error when
// the proof does not establish anything about key.
func rpcVerify(entries []rpcPEntry, root *felt.Felt, key *big.Int, h rpcHashFn) (felt.Felt, []int, error) {
	if key.Sign() < 0 || key.BitLen() > rpcKeyBits {
		return felt.Felt{}, nil, fmt.Errorf("key wider than %d bits", rpcKeyBits)
	}
	if root.IsZero() {
		return felt.Zero, nil, nil // empty trie: every key is absent
	}
	idx := make(map[felt.Felt]int, len(entries))
	for i := range entries {
		if entries[i].Hash == nil {
			return felt.Felt{}, nil, fmt.Errorf("entry %d has no node_hash", i)
		}
		if _, dup := idx[*entries[i].Hash]; !dup {
			idx[*entries[i].Hash] = i
		}
	}
	expected := *root
	consumed := 0
	var trace []int
	for consumed < rpcKeyBits {
		i, ok := idx[expected]
		if !ok {
			return felt.Felt{}, trace, fmt.Errorf("node %s missing from the proof (after %d key bits)", expected.String(), consumed)
		}
		trace = append(trace, i)
		n := &entries[i].Node
		got, err := rpcNodeHash(n, h)
		if err != nil {
			return felt.Felt{}, trace, fmt.Errorf("node %s: %v", expected.String(), err)
		}
		if !got.Equal(&expected) {
			return felt.Felt{}, trace, fmt.Errorf("node %s rehashes to %s", expected.String(), got.String())
		}
		if n.Left != nil { // binary
			if key.Bit(rpcKeyBits-1-consumed) == 0 {
				expected = *n.Left
			} else {
				expected = *n.Right
			}
			consumed++
			continue
		}
		l := *n.Length
		if l > rpcKeyBits-consumed {
			return felt.Felt{}, trace, fmt.Errorf("edge %s of length %d overruns the key (%d bits left)", expected.String(), l, rpcKeyBits-consumed)
		}
		p, _ := rpcParsePath(*n.Path)
		seg := new(big.Int).Rsh(key, uint(rpcKeyBits-consumed-l))
		mask := new(big.Int).Sub(new(big.Int).Lsh(big.NewInt(1), uint(l)), big.NewInt(1))
		seg.And(seg, mask)
		if seg.Cmp(p) != 0 {
			return felt.Zero, trace, nil // the only subtree below this node is elsewhere: key absent
		}
		consumed += l
		expected = *n.Child
	}
	return expected, trace, nil
}

// ---------------------------------------------------------------------------------------------
// chain generation and the model of what it wrote
// ---------------------------------------------------------------------------------------------

type rpcModel struct {
	Casm    map[uint64]uint64            // sierra id -> current compiled class hash
	Class   map[uint64]uint64            // address -> class hash (presence = deployed)
	Nonce   map[uint64]uint64            // address -> nonce
	Store   map[uint64]map[uint64]uint64 // address -> slot -> value (non-zero only)
	Written map[uint64]map[uint64]bool   // address -> slots ever written
}

func newRPCModel() *rpcModel {
	return &rpcModel{Casm: map[uint64]uint64{}, Class: map[uint64]uint64{}, Nonce: map[uint64]uint64{},
		Store: map[uint64]map[uint64]uint64{}, Written: map[uint64]map[uint64]bool{}}
}

func (m *rpcModel) apply(sp *chain.BlockSpec) {
	for id, c := range sp.DeclareV1 {
		m.Casm[id] = c
	}
	for id, c := range sp.Migrate {
		m.Casm[id] = c
	}
	for a, c := range sp.Deploy {
		m.Class[a] = c
	}
	for a, c := range sp.Replace {
		m.Class[a] = c
	}
	for a, n := range sp.Nonces {
		m.Nonce[a] = n
	}
	for a, kv := range sp.Storage {
		if _, ok := m.Class[a]; !ok && (a == 1 || a == 2) {
			m.Class[a] = 0 // system contracts are deployed with class hash zero on first storage write
		}
		if m.Store[a] == nil {
			m.Store[a] = map[uint64]uint64{}
			m.Written[a] = map[uint64]bool{}
		}
		for k, v := range kv {
			m.Written[a][k] = true
			if v == 0 {
				delete(m.Store[a], k)
			} else {
				m.Store[a][k] = v
			}
		}
	}
}

var (
	rpcAddrPool   = []uint64{100, 101, 0x1000000000000, 0x1000000000001} // deployable; pairs share long prefixes
	rpcAddrAbsent = []uint64{102, 0x1000000000002, 0x7fffffffffffffff}   // never deployed
	rpcSlotPool   = []uint64{0, 1, 2, 3, 1 << 62, 1<<62 + 1, 1<<62 + 2, 1<<63 + 5, 0xfffffffffffffffe, 0xffffffffffffffff}
	rpcCairo0     = []uint64{500, 501}
	rpcSierraIDs  = []uint64{1, 2, 3, 4} // id 5 is never declared
)

type rpcChainCase struct {
	NewState bool              `json:"new_state"`
	Version  string            `json:"version"`
	Specs    []chain.BlockSpec `json:"specs"`
	Empty    uint64            `json:"empty_storage_contract"`
}

func rpcSortedKeys[V any](m map[uint64]V) []uint64 {
	ks := make([]uint64, 0, len(m))
	for k := range m {
		ks = append(ks, k)
	}
	sort.Slice(ks, func(i, j int) bool { return ks[i] < ks[j] })
	return ks
}

func rpcGenChain(r *hx.RNG, newState bool) rpcChainCase {
	cc := rpcChainCase{NewState: newState, Version: "0.14.0"}
	if r.Chance(20) {
		cc.Version = "0.13.5"
	}
	nb := 3 + r.Intn(4)
	// which contracts get deployed (2..4), in which block; one of them keeps an empty storage
	perm := append([]uint64(nil), rpcAddrPool...)
	for i := len(perm) - 1; i > 0; i-- {
		j := r.Intn(i + 1)
		perm[i], perm[j] = perm[j], perm[i]
	}
	ndep := 2 + r.Intn(3)
	deployAt := map[uint64]int{}
	for i := 0; i < ndep; i++ {
		deployAt[perm[i]] = r.Intn(nb)
	}
	deployAt[perm[0]] = r.Intn(2) // at least one early
	cc.Empty = perm[1]
	declAt := map[uint64]int{}
	for _, id := range rpcSierraIDs {
		if r.Chance(70) {
			declAt[id] = r.Intn(nb)
		}
	}
	declAt[rpcSierraIDs[0]] = 0
	declAt[rpcSierraIDs[1]] = nb - 1 // the last block declares
	useSystem := r.Chance(50)

	deployed := map[uint64]bool{}
	declared := map[uint64]bool{}
	for b := 0; b < nb; b++ {
		sp := chain.BlockSpec{Version: cc.Version, Timestamp: uint64(2000 + b), Salt: uint64(r.Intn(1 << 16)),
			Deploy: map[uint64]uint64{}, Replace: map[uint64]uint64{}, Nonces: map[uint64]uint64{},
			Storage: map[uint64]map[uint64]uint64{}, DeclareV1: map[uint64]uint64{}}
		if b == 0 {
			sp.DeclareV0 = append([]uint64(nil), rpcCairo0...)
		}
		for _, id := range rpcSierraIDs {
			if at, ok := declAt[id]; ok && at == b {
				sp.DeclareV1[id] = 9000 + id*16 + uint64(r.Intn(16))
				declared[id] = true
			} else if declared[id] && cc.Version == "0.14.0" && r.Chance(12) {
				if sp.Migrate == nil {
					sp.Migrate = map[uint64]uint64{}
				}
				sp.Migrate[id] = 9500 + id*16 + uint64(r.Intn(16))
			}
		}
		for _, a := range rpcAddrPool {
			if at, ok := deployAt[a]; ok && at == b {
				sp.Deploy[a] = rpcCairo0[r.Intn(len(rpcCairo0))]
				deployed[a] = true
			}
		}
		last := b == nb-1
		for _, a := range rpcAddrPool {
			if !deployed[a] {
				continue
			}
			if _, now := sp.Deploy[a]; !now && r.Chance(15) {
				sp.Replace[a] = rpcCairo0[r.Intn(len(rpcCairo0))]
			}
			if r.Chance(45) || last {
				sp.Nonces[a] = uint64(1 + b*3 + r.Intn(3))
			}
			if a == cc.Empty {
				continue
			}
			if r.Chance(70) || last {
				kv := map[uint64]uint64{}
				n := 1 + r.Intn(5)
				for i := 0; i < n; i++ {
					k := rpcSlotPool[r.Intn(len(rpcSlotPool))]
					v := uint64(r.Intn(5)) // zero: delete / write zero to an absent slot
					if r.Chance(25) {
						v = r.U64() | 1
					}
					kv[k] = v
				}
				sp.Storage[a] = kv
			}
		}
		if useSystem && (r.Chance(50) || last) {
			// system contract 0x1 (block-hash table): only non-zero writes, like the protocol does
			sp.Storage[1] = map[uint64]uint64{uint64(b): 7000 + uint64(b), uint64(b) + 1<<40: uint64(b) + 1}
		}
		cc.Specs = append(cc.Specs, sp)
	}
	return cc
}

// ---------------------------------------------------------------------------------------------
// requests
// ---------------------------------------------------------------------------------------------

type rpcSlotReq struct {
	Addr uint64   `json:"addr"`
	Keys []string `json:"keys"` // hex felts
}

type rpcRequest struct {
	By        string       `json:"by"`        // number | hash | latest
	Sierra    []uint64     `json:"sierra"`    // sierra ids (class hash = chain.SierraHash(id))
	RawClass  []uint64     `json:"raw_class"` // class hashes given as small integers (never in the classes trie)
	Contracts []uint64     `json:"contracts"`
	Slots     []rpcSlotReq `json:"slots"`
}

func rpcFeltHex(s string) felt.Felt {
	f, err := felt.NewFromString[felt.Felt](s)
	hx.Must(err)
	return *f
}

func rpcBig(f *felt.Felt) *big.Int { return f.BigInt(new(big.Int)) }

// never-written slots that are not small integers: 2^250+1, 2^251-1, and a neighbour of 2^62
var rpcWideSlots = []string{
	"0x400000000000000000000000000000000000000000000000000000000000001",
	"0x7ffffffffffffffffffffffffffffffffffffffffffffffffffffffffffffff",
	"0x4000000000000003",
}

func rpcGenRequest(r *hx.RNG, by string, full bool, m *rpcModel, cc *rpcChainCase) rpcRequest {
	rq := rpcRequest{By: by}
	for _, id := range append(append([]uint64(nil), rpcSierraIDs...), 5) {
		if full || r.Chance(60) {
			rq.Sierra = append(rq.Sierra, id)
		}
	}
	for _, c := range []uint64{500, 424242} { // a cairo0 class (not in the classes trie) and a random number
		if full || r.Chance(40) {
			rq.RawClass = append(rq.RawClass, c)
		}
	}
	cands := append(append([]uint64(nil), rpcAddrPool...), rpcAddrAbsent...)
	if _, ok := m.Class[1]; ok || r.Chance(30) {
		cands = append(cands, 1)
	}
	for _, a := range cands {
		if full || r.Chance(60) {
			rq.Contracts = append(rq.Contracts, a)
		}
	}
	// storage keys only of existing contracts (the storage root comes from their leaf data)
	for _, a := range rpcSortedKeys(m.Class) {
		if !full && !r.Chance(70) {
			continue
		}
		sr := rpcSlotReq{Addr: a}
		seen := map[string]bool{}
		add := func(h string) {
			if !seen[h] {
				seen[h] = true
				sr.Keys = append(sr.Keys, h)
			}
		}
		for _, k := range rpcSortedKeys(m.Written[a]) {
			if full || r.Chance(80) {
				add(chain.F(k).String())
			}
		}
		for i := 0; i < 3; i++ {
			add(chain.F(rpcSlotPool[r.Intn(len(rpcSlotPool))]).String())
		}
		add(rpcWideSlots[r.Intn(len(rpcWideSlots))])
		if full {
			for _, w := range rpcWideSlots {
				add(w)
			}
		}
		rq.Slots = append(rq.Slots, sr)
	}
	// the handler answers storage proofs per contract in the order of the request: shuffle it
	for i := len(rq.Slots) - 1; i > 0; i-- {
		j := r.Intn(i + 1)
		rq.Slots[i], rq.Slots[j] = rq.Slots[j], rq.Slots[i]
	}
	return rq
}

// ---------------------------------------------------------------------------------------------
// one chain: build, query, verify
// ---------------------------------------------------------------------------------------------

type rpcStats struct {
	chains, calls, keys, tampers, tamperRejected, tamperSame, proofNodes int
	maxDepth                                                             int
	permutedCalls                                                        int
}

type rpcRun struct {
	c   *hx.Ctx
	r   *hx.RNG
	st  *rpcStats
	tag string // legacy | newstate
}

func (x *rpcRun) violate(kind, what string, cc *rpcChainCase, rq *rpcRequest, detail any) {
	x.c.Violation("rpc-storage-proof:"+kind+":"+x.tag, what,
		map[string]any{"kind": "rpc", "chain": cc, "request": rq, "detail": detail}, false)
}

func (x *rpcRun) hist(k string) { x.c.Hist["rpc:"+k]++ }

// tamper mutates one field of one node (optionally re-keying the entry under its new hash) in a copy
// of entries and checks that the verifier errs or returns the same answer.
func (x *rpcRun) tamper(entries []rpcPEntry, trace []int, root *felt.Felt, key *big.Int, h rpcHashFn,
	want felt.Felt, cc *rpcChainCase, rq *rpcRequest, what string) {
	if len(entries) == 0 {
		return
	}
	b, _ := json.Marshal(entries)
	var cp []rpcPEntry
	hx.Must(json.Unmarshal(b, &cp))
	i := x.r.Intn(len(cp))
	if len(trace) > 0 && x.r.Chance(80) {
		i = trace[x.r.Intn(len(trace))] // prefer a node the verifier really walks through
	}
	n := &cp[i].Node
	flip := func(f *felt.Felt) *felt.Felt {
		one := felt.FromUint64[felt.Felt](uint64(1) << uint(x.r.Intn(60)))
		return new(felt.Felt).Add(f, &one)
	}
	var mut string
	if n.Left != nil && n.Right != nil {
		switch x.r.Intn(3) {
		case 0:
			n.Left, mut = flip(n.Left), "left"
		case 1:
			n.Right, mut = flip(n.Right), "right"
		default:
			n.Left, n.Right, mut = n.Right, n.Left, "swap"
		}
	} else if n.Child != nil && n.Path != nil && n.Length != nil {
		switch x.r.Intn(4) {
		case 0:
			n.Child, mut = flip(n.Child), "child"
		case 1:
			p, _ := rpcParsePath(*n.Path)
			if p == nil {
				return
			}
			bit := x.r.Intn(*n.Length)
			p.SetBit(p, bit, p.Bit(bit)^1)
			s := "0x" + p.Text(16)
			n.Path, mut = &s, "path-bit"
		case 2:
			l := *n.Length + 1
			n.Length, mut = &l, "length+1"
		default:
			l := *n.Length - 1
			n.Length, mut = &l, "length-1"
		}
	} else {
		return
	}
	if x.r.Chance(40) { // consistent node, wrong place: re-key the entry by the hash of the mutated node
		if nh, err := rpcNodeHash(n, h); err == nil {
			cp[i].Hash = &nh
			mut += "+rehash"
		}
	}
	got, _, err := rpcVerify(cp, root, key, h)
	x.st.tampers++
	x.hist("tamper")
	switch {
	case err != nil:
		x.st.tamperRejected++
		x.hist("tamper-rejected")
	case got.Equal(&want):
		x.st.tamperSame++
		x.hist("tamper-same-answer")
	default:
		x.violate("verifier-not-discriminating", fmt.Sprintf("%s: tampered proof (%s of entry %d) verifies to %s instead of %s",
			what, mut, i, got.String(), want.String()), cc, rq, map[string]any{"tampered": cp, "key": "0x" + key.Text(16)})
	}
}

func rpcVersionLess(v string, maj, min, pat int) bool {
	var a, b, c int
	fmt.Sscanf(v, "%d.%d.%d", &a, &b, &c)
	if a != maj {
		return a < maj
	}
	if b != min {
		return b < min
	}
	return c < pat
}

func (x *rpcRun) runChain(cc *rpcChainCase) {
	c := x.c
	database := memory.New()
	defer database.Close()
	node := chain.NewNode(database, cc.NewState)
	m := newRPCModel()
	for i := range cc.Specs {
		if _, err := node.Finalise(&cc.Specs[i]); err != nil {
			x.violate("chain-build", fmt.Sprintf("block %d not finalised: %v", i, err), cc, nil, nil)
			return
		}
		m.apply(&cc.Specs[i])
	}
	x.st.chains++
	head, err := node.BC.HeadsHeader()
	hx.Must(err)

	handler := rpcv10.New(node.BC, &sync.NoopSynchronizer{}, nil, log.NewNopZapLogger())

	// only the head block is served: an older number is refused, a later one is unknown
	if head.Number > 0 {
		old := rpcv10.BlockIDFromNumber(head.Number - 1)
		if _, e := handler.StorageProof(&old, nil, []felt.Felt{*chain.F(100)}, nil); e == nil {
			x.violate("old-block-served", "a proof was returned for a block below the head", cc, nil, head.Number-1)
		} else {
			x.hist("old-block-refused")
		}
	}
	next := rpcv10.BlockIDFromNumber(head.Number + 1)
	if _, e := handler.StorageProof(&next, nil, []felt.Felt{*chain.F(100)}, nil); e == nil {
		x.violate("future-block-served", "a proof was returned for a block above the head", cc, nil, head.Number+1)
	} else {
		x.hist("future-block-refused")
	}

	for qi, by := range []string{"number", "hash", "latest"} {
		rq := rpcGenRequest(x.r, by, qi == int(head.Number)%3, m, cc)
		x.query(handler, node, head.Number, head.Hash, head.GlobalStateRoot, m, cc, &rq)
	}

	// storage keys of a contract that does not exist: an error, or an empty proof
	{
		absent := chain.F(rpcAddrAbsent[x.r.Intn(len(rpcAddrAbsent))])
		id := rpcv10.BlockIDLatest()
		res, e := handler.StorageProof(&id, nil, nil, []rpcv10.StorageKeys{{Contract: absent, Keys: []felt.Felt{*chain.F(1), *chain.F(1 << 62)}}})
		switch {
		case e != nil:
			x.hist("undeployed-storage-error")
		case len(res.ContractsStorageProofs) != 1:
			x.violate("undeployed-storage-shape", fmt.Sprintf("%d storage proofs for one contract", len(res.ContractsStorageProofs)), cc, nil, absent.String())
		case len(res.ContractsStorageProofs[0]) != 0:
			x.violate("undeployed-storage-nonempty", fmt.Sprintf("storage proof of undeployed contract %s has %d nodes",
				absent.String(), len(res.ContractsStorageProofs[0])), cc, nil, absent.String())
		default:
			x.hist("undeployed-storage-empty-proof")
		}
		c.Count(fmt.Sprintf("rpc|%s|undeployed-storage|%s", x.tag, absent.String()), false)
	}
}

func (x *rpcRun) query(handler *rpcv10.Handler, node *chain.Node, headNum uint64, headHash, headRoot *felt.Felt,
	m *rpcModel, cc *rpcChainCase, rq *rpcRequest) {
	c := x.c
	var id rpcv10.BlockID
	switch rq.By {
	case "number":
		id = rpcv10.BlockIDFromNumber(headNum)
	case "hash":
		id = rpcv10.BlockIDFromHash(headHash)
	default:
		id = rpcv10.BlockIDLatest()
	}
	x.hist("by-" + rq.By)

	type classQ struct {
		hash   felt.Felt
		sierra uint64 // 0 = raw
	}
	var classQs []classQ
	var classes []felt.Felt
	for _, sid := range rq.Sierra {
		classQs = append(classQs, classQ{*chain.SierraHash(sid), sid})
	}
	for _, raw := range rq.RawClass {
		classQs = append(classQs, classQ{*chain.F(raw), 0})
	}
	for _, q := range classQs {
		classes = append(classes, q.hash)
	}
	var contracts []felt.Felt
	for _, a := range rq.Contracts {
		contracts = append(contracts, *chain.F(a))
	}
	var sks []rpcv10.StorageKeys
	for _, s := range rq.Slots {
		sk := rpcv10.StorageKeys{Contract: chain.F(s.Addr)}
		for _, k := range s.Keys {
			sk.Keys = append(sk.Keys, rpcFeltHex(k))
		}
		sks = append(sks, sk)
	}

	res, rerr := handler.StorageProof(&id, classes, contracts, sks)
	x.st.calls++
	if rerr != nil {
		x.violate("handler-error", fmt.Sprintf("StorageProof(by %s) of the head block failed: code %d %s %v", rq.By, rerr.Code, rerr.Message, rerr.Data), cc, rq, nil)
		return
	}
	wire, err := json.Marshal(res)
	if err != nil {
		x.violate("marshal-error", "result does not marshal: "+err.Error(), cc, rq, nil)
		return
	}
	var resp rpcResp
	if err := json.Unmarshal(wire, &resp); err != nil {
		x.violate("wire-shape", "result JSON does not have the specified shape: "+err.Error(), cc, rq, string(wire))
		return
	}
	if resp.GlobalRoots == nil || resp.GlobalRoots.BlockHash == nil || resp.GlobalRoots.ClassesTreeRoot == nil ||
		resp.GlobalRoots.ContractsTreeRoot == nil || resp.ContractsProof == nil {
		x.violate("wire-shape", "global_roots / contracts_proof incomplete", cc, rq, string(wire))
		return
	}
	x.st.proofNodes += len(resp.ClassesProof) + len(resp.ContractsProof.Nodes)

	state, closer, err := node.BC.HeadState()
	hx.Must(err)
	defer closer()

	// ---- 1. global roots
	gr := resp.GlobalRoots
	if !gr.BlockHash.Equal(headHash) {
		x.violate("block-hash-mismatch", fmt.Sprintf("global_roots.block_hash %s, head is %s", gr.BlockHash.String(), headHash.String()), cc, rq, nil)
	}
	var commitment felt.Felt
	switch {
	case gr.ClassesTreeRoot.IsZero() && gr.ContractsTreeRoot.IsZero():
		commitment = felt.Zero
	case gr.ClassesTreeRoot.IsZero() && rpcVersionLess(cc.Version, 0, 14, 0):
		commitment = *gr.ContractsTreeRoot
	default:
		sv := felt.FromBytes[felt.Felt]([]byte("STARKNET_STATE_V0"))
		commitment = crypto.PoseidonElems(&sv, gr.ContractsTreeRoot, gr.ClassesTreeRoot)
	}
	if !commitment.Equal(headRoot) {
		x.violate("state-commitment-mismatch", fmt.Sprintf("roots (contracts %s, classes %s) commit to %s, header says %s",
			gr.ContractsTreeRoot.String(), gr.ClassesTreeRoot.String(), commitment.String(), headRoot.String()), cc, rq, nil)
	}
	c.Count(fmt.Sprintf("rpc|%s|roots|%s", x.tag, headHash.String()), true)

	// ---- 2. classes
	leafVersion := felt.FromBytes[felt.Felt]([]byte("CONTRACT_CLASS_LEAF_V0"))
	for _, q := range classQs {
		got, trace, err := rpcVerify(resp.ClassesProof, gr.ClassesTreeRoot, rpcBig(&q.hash), rpcPoseidon)
		var want felt.Felt
		present := false
		if casm, ok := m.Casm[q.sierra]; ok && q.sierra != 0 {
			want = crypto.Poseidon(&leafVersion, chain.F(casm))
			present = true
		}
		if len(trace) > x.st.maxDepth {
			x.st.maxDepth = len(trace)
		}
		x.st.keys++
		c.Count(fmt.Sprintf("rpc|%s|class|%s|%s", x.tag, gr.ClassesTreeRoot.String(), q.hash.String()), present || len(trace) > 1)
		switch {
		case err != nil:
			x.violate("class-proof-invalid", fmt.Sprintf("class %s: %v", q.hash.String(), err), cc, rq, string(wire))
			continue
		case present && got.IsZero():
			x.violate("class-declared-proven-absent", fmt.Sprintf("declared class %s is proven absent", q.hash.String()), cc, rq, string(wire))
		case present && !got.Equal(&want):
			x.violate("class-leaf-mismatch", fmt.Sprintf("class %s: proven leaf %s, expected Poseidon(CONTRACT_CLASS_LEAF_V0, casm)=%s",
				q.hash.String(), got.String(), want.String()), cc, rq, string(wire))
		case !present && !got.IsZero():
			x.violate("class-undeclared-proven-present", fmt.Sprintf("undeclared class %s has leaf %s", q.hash.String(), got.String()), cc, rq, string(wire))
		}
		if present {
			x.hist("class-present")
		} else {
			x.hist("class-absent")
		}
		if x.r.Chance(35) {
			x.tamper(resp.ClassesProof, trace, gr.ClassesTreeRoot, rpcBig(&q.hash), rpcPoseidon, got, cc, rq, "class "+q.hash.String())
		}
	}

	// ---- 3. contracts
	if len(resp.ContractsProof.Leaves) != len(rq.Contracts) {
		x.violate("leaves-data-count", fmt.Sprintf("%d contract_leaves_data for %d distinct contracts", len(resp.ContractsProof.Leaves), len(rq.Contracts)), cc, rq, string(wire))
	}
	leafOf := map[uint64]*rpcLeaf{}
	for i, a := range rq.Contracts {
		af := chain.F(a)
		got, trace, err := rpcVerify(resp.ContractsProof.Nodes, gr.ContractsTreeRoot, rpcBig(af), rpcPedersen)
		wantClass, deployed := m.Class[a]
		var ld *rpcLeaf
		if i < len(resp.ContractsProof.Leaves) {
			ld = resp.ContractsProof.Leaves[i]
		}
		if len(trace) > x.st.maxDepth {
			x.st.maxDepth = len(trace)
		}
		x.st.keys++
		c.Count(fmt.Sprintf("rpc|%s|contract|%s|%s", x.tag, gr.ContractsTreeRoot.String(), af.String()), deployed || len(trace) > 1)
		if err != nil {
			x.violate("contract-proof-invalid", fmt.Sprintf("contract %s: %v", af.String(), err), cc, rq, string(wire))
			continue
		}
		if !deployed {
			x.hist("contract-absent")
			if !got.IsZero() {
				x.violate("contract-undeployed-proven-present", fmt.Sprintf("undeployed contract %s has leaf %s", af.String(), got.String()), cc, rq, string(wire))
			}
			if ld != nil {
				x.violate("contract-undeployed-has-leaf-data", fmt.Sprintf("undeployed contract %s has contract_leaves_data", af.String()), cc, rq, string(wire))
			} else {
				x.hist("leaf-data-null-for-undeployed")
			}
			if _, e := state.ContractClassHash(af); e == nil {
				x.violate("contract-undeployed-in-state", fmt.Sprintf("state knows a class hash of undeployed contract %s", af.String()), cc, rq, nil)
			}
		} else {
			x.hist("contract-present")
			if a == 1 || a == 2 {
				x.hist("contract-system")
			}
			if ld == nil || ld.Nonce == nil || ld.ClassHash == nil || ld.StorageRoot == nil {
				x.violate("contract-leaf-data-missing", fmt.Sprintf("deployed contract %s has no (complete) contract_leaves_data", af.String()), cc, rq, string(wire))
				continue
			}
			leafOf[a] = ld
			h1 := crypto.Pedersen(ld.ClassHash, ld.StorageRoot)
			h2 := crypto.Pedersen(&h1, ld.Nonce)
			want := crypto.Pedersen(&h2, &felt.Zero)
			switch {
			case got.IsZero():
				x.violate("contract-deployed-proven-absent", fmt.Sprintf("deployed contract %s is proven absent", af.String()), cc, rq, string(wire))
			case !got.Equal(&want):
				x.violate("contract-leaf-mismatch", fmt.Sprintf("contract %s: proven leaf %s, leaf data (class %s, root %s, nonce %s) hashes to %s",
					af.String(), got.String(), ld.ClassHash.String(), ld.StorageRoot.String(), ld.Nonce.String(), want.String()), cc, rq, string(wire))
			}
			sClass, e1 := state.ContractClassHash(af)
			sNonce, e2 := state.ContractNonce(af)
			if e1 != nil || e2 != nil {
				x.violate("contract-state-read-error", fmt.Sprintf("contract %s: class hash err %v, nonce err %v", af.String(), e1, e2), cc, rq, nil)
			} else if !sClass.Equal(ld.ClassHash) || !sNonce.Equal(ld.Nonce) {
				x.violate("contract-leaf-data-vs-state", fmt.Sprintf("contract %s: leaf data (class %s, nonce %s), state (class %s, nonce %s)",
					af.String(), ld.ClassHash.String(), ld.Nonce.String(), sClass.String(), sNonce.String()), cc, rq, string(wire))
			}
			if !ld.ClassHash.Equal(chain.F(wantClass)) || !ld.Nonce.Equal(chain.F(m.Nonce[a])) {
				x.violate("contract-leaf-data-vs-history", fmt.Sprintf("contract %s: leaf data (class %s, nonce %s), blocks wrote (class %s, nonce %s)",
					af.String(), ld.ClassHash.String(), ld.Nonce.String(), chain.F(wantClass).String(), chain.F(m.Nonce[a]).String()), cc, rq, string(wire))
			}
			if len(m.Store[a]) == 0 != ld.StorageRoot.IsZero() {
				x.violate("contract-storage-root-emptiness", fmt.Sprintf("contract %s: %d live slots but storage_root %s",
					af.String(), len(m.Store[a]), ld.StorageRoot.String()), cc, rq, string(wire))
			}
		}
		if x.r.Chance(35) {
			x.tamper(resp.ContractsProof.Nodes, trace, gr.ContractsTreeRoot, rpcBig(af), rpcPedersen, got, cc, rq, "contract "+af.String())
		}
	}

	// ---- 4. contract storage
	if len(resp.StorageProofs) != len(rq.Slots) {
		x.violate("storage-proofs-count", fmt.Sprintf("%d contracts_storage_proofs for %d contracts", len(resp.StorageProofs), len(rq.Slots)), cc, rq, string(wire))
	}
	permuted := false
	for i, s := range rq.Slots {
		af := chain.F(s.Addr)
		// the storage root: from this response's leaf data when the contract was also requested,
		// otherwise from a separate single-contract request
		ld := leafOf[s.Addr]
		if ld == nil {
			lid := rpcv10.BlockIDLatest()
			r2, e := handler.StorageProof(&lid, nil, []felt.Felt{*af}, nil)
			if e != nil || r2.ContractsProof == nil || len(r2.ContractsProof.LeavesData) != 1 || r2.ContractsProof.LeavesData[0] == nil {
				x.violate("contract-leaf-data-missing", fmt.Sprintf("no leaf data for deployed contract %s in a single-contract request", af.String()), cc, rq, nil)
				continue
			}
			l := r2.ContractsProof.LeavesData[0]
			ld = &rpcLeaf{Nonce: l.Nonce, ClassHash: l.ClassHash, StorageRoot: l.StorageRoot}
		}
		if ld.StorageRoot.IsZero() {
			x.hist("empty-storage-trie")
		}
		// which of the returned per-contract proofs is this contract's? By the specification: the i-th.
		pick := -1
		tryIdx := func(j int) bool {
			if j >= len(resp.StorageProofs) {
				return false
			}
			for _, k := range s.Keys {
				kf := rpcFeltHex(k)
				if _, _, err := rpcVerify(resp.StorageProofs[j], ld.StorageRoot, rpcBig(&kf), rpcPedersen); err != nil {
					return false
				}
			}
			// an empty trie verifies against anything: require the node list to be empty as well
			return !ld.StorageRoot.IsZero() || len(resp.StorageProofs[j]) == 0
		}
		if tryIdx(i) {
			pick = i
		} else {
			for j := range resp.StorageProofs {
				if j != i && tryIdx(j) {
					pick = j
					break
				}
			}
			if pick >= 0 {
				permuted = true
				x.violate("storage-proofs-permuted", fmt.Sprintf("contracts_storage_proofs[%d] does not prove the keys of the %d-th requested contract %s, contracts_storage_proofs[%d] does (%d contracts requested)",
					i, i, af.String(), pick, len(rq.Slots)), cc, rq, string(wire))
			} else {
				pick = i
			}
		}
		if pick >= len(resp.StorageProofs) {
			continue
		}
		proof := resp.StorageProofs[pick]
		x.st.proofNodes += len(proof)
		if ld.StorageRoot.IsZero() && len(proof) != 0 {
			x.violate("empty-storage-nonempty-proof", fmt.Sprintf("contract %s has storage root 0 but %d proof nodes", af.String(), len(proof)), cc, rq, string(wire))
		}
		for _, k := range s.Keys {
			kf := rpcFeltHex(k)
			got, trace, err := rpcVerify(proof, ld.StorageRoot, rpcBig(&kf), rpcPedersen)
			if leafOf[s.Addr] != nil { // the contract's proof and leaf data are part of this response
				rpcModelSlot(x, &commitment, headRoot, &resp, ld, af, &kf, proof, got, err)
			}
			if len(trace) > x.st.maxDepth {
				x.st.maxDepth = len(trace)
			}
			var want felt.Felt
			if kb := rpcBig(&kf); kb.IsUint64() {
				want = *chain.F(m.Store[s.Addr][kb.Uint64()])
			}
			x.st.keys++
			c.Count(fmt.Sprintf("rpc|%s|slot|%s|%s", x.tag, ld.StorageRoot.String(), kf.String()), !want.IsZero() || len(trace) > 1)
			if want.IsZero() {
				x.hist("slot-absent")
			} else {
				x.hist("slot-present")
			}
			if err != nil {
				x.violate("slot-proof-invalid", fmt.Sprintf("contract %s key %s: %v", af.String(), kf.String(), err), cc, rq, string(wire))
				continue
			}
			sv, e := state.ContractStorage(af, &kf)
			if e != nil {
				x.violate("slot-state-read-error", fmt.Sprintf("contract %s key %s: %v", af.String(), kf.String(), e), cc, rq, nil)
			} else if !sv.Equal(&got) {
				kind := "slot-proof-vs-state"
				if got.Equal(&want) {
					// the proof agrees with what the blocks wrote; the head state reader does not
					kind = "slot-head-state-read-stale"
				}
				msg := fmt.Sprintf("contract %s key %s: proven %s, blocks wrote %s, head state ContractStorage reads %s",
					af.String(), kf.String(), got.String(), want.String(), sv.String())
				if kind == "slot-head-state-read-stale" {
					// the PROOF is right (C10 holds); the head-state read is a C03 matter: recorded, not a C10 violation
					x.c.Hist["rpc:cross-property:head-state-read-stale:"+x.tag]++
					if _, ok := x.c.Extra["cross_property_head_state_read_stale"]; !ok {
						x.c.Extra["cross_property_head_state_read_stale"] = msg
					}
				} else {
					x.violate(kind, msg, cc, rq, string(wire))
				}
			}
			if !got.Equal(&want) {
				x.violate("slot-proof-vs-history", fmt.Sprintf("contract %s key %s: proven %s, blocks wrote %s", af.String(), kf.String(), got.String(), want.String()), cc, rq, string(wire))
			}
			if x.r.Chance(20) {
				x.tamper(proof, trace, ld.StorageRoot, rpcBig(&kf), rpcPedersen, got, cc, rq, "slot "+af.String()+"/"+kf.String())
			}
		}
	}
	if permuted {
		x.st.permutedCalls++
	}
	if len(rq.Slots) > 1 {
		x.hist("multi-contract-storage-request")
	}
}

// runRPC checks starknet_getStorageProof (rpc v10) on synthetic chains over both state backends.
func runRPC(c *hx.Ctx, r *hx.RNG) {
	nchains := 30
	if c.Thorough() {
		nchains = 150
	}
	summary := map[string]any{}
	for _, newState := range []bool{false, true} {
		tag := "legacy"
		if newState {
			tag = "newstate"
		}
		st := &rpcStats{}
		x := &rpcRun{c: c, r: r.Fork(uint64(len(tag))), st: st, tag: tag}
		for i := 0; i < nchains; i++ {
			cc := rpcGenChain(x.r, newState)
			x.hist("backend-" + map[bool]string{false: "legacy", true: "new"}[newState])
			x.hist(fmt.Sprintf("blocks-%d", len(cc.Specs)))
			x.runChain(&cc)
		}
		summary[tag] = map[string]any{
			"chains": st.chains, "calls": st.calls, "keys_verified": st.keys, "proof_nodes": st.proofNodes,
			"max_nodes_on_a_path": st.maxDepth, "tampers": st.tampers, "tamper_rejected": st.tamperRejected,
			"tamper_same_answer": st.tamperSame, "calls_with_permuted_storage_proofs": st.permutedCalls,
		}
	}
	c.Extra["rpc"] = summary
}
