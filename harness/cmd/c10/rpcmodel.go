package main

// The Coq-modelled client verifier (Model.v rpc_verify_slot; theorem C10_rpc_slot_pinned) run on
// the responses of the real rpc/v10 StorageProof handler, next to the Go verifier of rpc.go.

import (
	"fmt"
	"strings"

	"github.com/NethermindEth/juno/core/crypto"
	"github.com/NethermindEth/juno/core/felt"
	"verifharness/hx"
)

var rpcOracle *hx.Oracle

func rpcEntries(es []rpcPEntry, sb *strings.Builder) bool {
	for _, e := range es {
		n := e.Node
		switch {
		case n.Left != nil && n.Right != nil:
			in := crypto.Pedersen(n.Left, n.Right)
			fmt.Fprintf(sb, " %s=B,H%s,H%s,%s", fhex(e.Hash), fhex(n.Left), fhex(n.Right), fhex(&in))
		case n.Path != nil && n.Length != nil && n.Child != nil:
			p, err := rpcParsePath(*n.Path)
			if err != nil || *n.Length < 0 || *n.Length > 255 || p.BitLen() > *n.Length {
				return false
			}
			bits := p.Text(2)
			if p.Sign() == 0 {
				bits = ""
			}
			bits = strings.Repeat("0", *n.Length-len(bits)) + bits
			pf := pathFelt2(bits)
			in := crypto.Pedersen(n.Child, &pf)
			if bits == "" {
				bits = "-"
			}
			fmt.Fprintf(sb, " %s=E,%s,H%s,%s", fhex(e.Hash), bits, fhex(n.Child), fhex(&in))
		default:
			return false
		}
	}
	return true
}

func rpcModelSlot(x *rpcRun, commitment, headRoot *felt.Felt, resp *rpcResp, ld *rpcLeaf, addr, key *felt.Felt,
	sproof []rpcPEntry, got felt.Felt, gerr error) {
	if rpcOracle == nil || resp.GlobalRoots == nil || resp.ContractsProof == nil {
		return
	}
	gr := resp.GlobalRoots
	h1 := crypto.Pedersen(ld.ClassHash, ld.StorageRoot)
	h2 := crypto.Pedersen(&h1, ld.Nonce)
	h3 := crypto.Pedersen(&h2, &felt.Zero)
	var sb strings.Builder
	fmt.Fprintf(&sb, "rpcslot %s %s %s %s %s %s %s %s %s %s %s %s |", fhex(commitment), fhex(headRoot),
		fhex(gr.ContractsTreeRoot), fhex(gr.ClassesTreeRoot), keyBits(addr, 251),
		fhex(ld.ClassHash), fhex(ld.Nonce), fhex(ld.StorageRoot), fhex(&h1), fhex(&h2), fhex(&h3), keyBits(key, 251))
	if !rpcEntries(resp.ContractsProof.Nodes, &sb) {
		return
	}
	sb.WriteString(" |")
	if !rpcEntries(sproof, &sb) {
		return
	}
	rep := rpcOracle.AskUntil(sb.String(), "end")
	want := "err"
	if gerr == nil {
		want = "ok " + fhex(&got)
	}
	m := ""
	if len(rep) == 1 {
		f := strings.Split(rep[0], "\t")
		m = f[0]
		if f[0] == "ok" {
			m = "ok " + f[1]
		}
	}
	x.hist("coq-client-verifier:" + strings.Fields(m + " ?")[0])
	if m != want {
		x.c.Violation("model-vs-rpc-client-verifier:"+x.tag, fmt.Sprintf("contract %s key %s: Go verifier %s, Coq client verifier %s", addr.String(), key.String(), want, m), map[string]any{"oracle_line": sb.String()}, true)
	}
}
