package main

import (
	"fmt"
	"os"
	"math/big"
	"strings"

	"github.com/NethermindEth/juno/core/crypto"
	"github.com/NethermindEth/juno/core/felt"
	"verifharness/hx"
)

// ---------- hash-consistent synthetic chains: deep paths of both verifiers ----------
type synthCase struct {
	Hash string `json:"hash"`
	Key  string `json:"key"`
	Set  pset   `json:"set"`
	Root string `json:"root"`

	overflow bool // the summed edge lengths pass 255: the legacy verifier's uint8 position wraps
}

func genSynth(r *hx.RNG) synthCase {
	sc := synthCase{Hash: "ped"}
	hf := hashFn(sc.Hash)
	var kf felt.Felt
	kf.SetBigInt(new(big.Int).Rsh(hexFbig(randFelt(r)), 1)) // < 2^251
	sc.Key = fhex(&kf)
	kb := keyBits(&kf, 251)
	type step struct {
		n    wnode
		side byte // for binary: which child continues
	}
	var steps []step
	pos := 0
	nsteps := 1 + r.Intn(7)
	for i := 0; i < nsteps; i++ {
		rem := 251 - pos
		if rem <= 0 {
			if r.Chance(60) {
				break
			}
			rem = 0
		}
		if r.Chance(35) && rem > 0 {
			steps = append(steps, step{n: wnode{Bin: true}, side: kb[pos]})
			pos++
			continue
		}
		var l int
		switch r.Intn(8) {
		case 0:
			l = 0
		case 1:
			l = rem
		case 2:
			l = rem + 1 + r.Intn(4)
		case 3:
			l = 200 + r.Intn(56)
		case 4:
			l = 255
		default:
			l = 1 + r.Intn(12)
		}
		if l > 255 {
			l = 255
		}
		var sb strings.Builder
		for j := 0; j < l; j++ {
			if pos+j < 251 {
				sb.WriteByte(kb[pos+j])
			} else {
				sb.WriteByte('0' + byte(r.Intn(2)))
			}
		}
		p := sb.String()
		if l > 0 && r.Chance(12) {
			p = flipBit(p, r.Intn(l)) // a diverging edge
		}
		steps = append(steps, step{n: wnode{Path: p}})
		pos += l
	}
	cur := child{r.Chance(60), randFelt(r)}
	for i := len(steps) - 1; i >= 0; i-- {
		n := steps[i].n
		if n.Bin {
			other := child{r.Chance(10), randFelt(r)}
			if steps[i].side == '1' {
				n.L, n.R = other, cur
			} else {
				n.L, n.R = cur, other
			}
		} else {
			n.C = cur
		}
		h := n.hash(hf)
		sc.Set = append(pset{entry{fhex(&h), n}}, sc.Set...)
		cur = child{r.Chance(12), fhex(&h)}
	}
	sc.Root = cur.F
	sc.overflow = pos > 255
	return sc
}

func hexFbig(s string) *big.Int { f := hexF(s); return f.BigInt(new(big.Int)) }

func evalSynth(c *hx.Ctx, or *hx.Oracle, sc synthCase) {
	hf := hashFn(sc.Hash)
	root, key := hexF(sc.Root), hexF(sc.Key)
	kb := keyBits(&key, 251)
	g2 := verify2Go(root, key, toTrie2(sc.Set), hf)
	m2 := verifyModel(or, "v2", root, kb, sc.Set, hf)
	g1 := verify1Go(root, key, toLegacy(sc.Set), hf)
	m1 := verifyModel(or, "v1", root, kb, sc.Set, hf)
	c.Count("synth|"+sc.Root+"|"+sc.Key, true)
	if sc.overflow {
		c.Hist["synthetic-chain:summed-lengths-pass-255"]++
	}
	c.Hist["synthetic-chain:trie2:"+strings.Fields(g2)[0]]++
	c.Hist["synthetic-chain:legacy:"+strings.Fields(g1)[0]]++
	if g2 != m2 {
		c.Violation("model-vs-trie2:verify-synthetic", fmt.Sprintf("impl %s model %s", g2, m2), sc, true)
	}
	if g1 != m1 {
		c.Violation("model-vs-legacy:verify-synthetic", fmt.Sprintf("impl %s model %s", g1, m1), sc, true)
	}
}

var _ = crypto.Pedersen

func report(c *hx.Ctx, vs []verdict, tc trieCase) {
	for _, v := range vs {
		var rp any = tc
		if v.extra != nil {
			rp = v.extra
		}
		c.Violation(v.class, v.what, rp, v.noInput)
	}
}

func main() {
	if os.Getenv("C10_CHILD") == "1" {
		childMain()
		return
	}
	c := hx.NewCtx("C10")
	or := hx.StartOracle(c.OraclePath)
	defer or.Close()
	r := hx.NewRNG(c.Seed)

	if c.ReplayIn != "" {
		var raw map[string]any
		c.LoadReplay(&raw)
		replay(c, or, r)
		c.Finish("replay")
	}

	corpus(c, or)
	nTries, nSynth, nRange := 150, 1200, 16
	if c.Thorough() {
		nTries, nSynth, nRange = 2500, 30000, 800
		cyclicMax = 6
	}
	only := os.Getenv("C10_ONLY") // development aid: "range" runs the range-proof part alone
	if only == "range" {
		nTries, nSynth = 0, 0
	}
	// small heights: Prove correspondence + model verifiers; height 251: everything
	for i := 0; i < nTries; i++ {
		heights := []int{3, 8, 64, 251, 251, 251}
		tc := genTrieCase(r, heights)
		vs := evalCase(c, or, r, tc, true)
		if len(vs) > 0 {
			report(c, vs, tc)
		}
		if i < 4 {
			c.Sample(map[string]any{"trie": tc})
		}
	}
	for i := 0; i < nSynth; i++ {
		sc := genSynth(r)
		evalSynth(c, or, sc)
		if i == 0 {
			c.Sample(map[string]any{"synthetic_chain": sc})
		}
	}
	for i := 0; i < nRange; i++ {
		tc := genTrieCase(r, []int{251})
		tc.Hash = "ped"
		evalRanges(c, or, r, tc)
	}
	if only == "" {
		cachedHashProbe(c, r)
		rpcOracle = or
		runRPC(c, r.Fork(0x10))
	}
	c.Extra["term_evaluations_memoised"] = len(termMemo)
	c.Finish("every generated trie/key: Prove sets == model, VerifyProof(own proof) == actual value; every single-field corruption: never a different value and == model verifier; synthetic chains: verifiers == model; RPC proofs verify with an independent verifier against GlobalStateRoot")
}
