package main

import (
	"fmt"
	"math/big"
	"sort"
	"strings"

	"github.com/NethermindEth/juno/core/crypto"
	"github.com/NethermindEth/juno/core/felt"
	"github.com/NethermindEth/juno/core/trie"
	"github.com/NethermindEth/juno/core/trie2"
	"verifharness/hx"
)

// ---------- hash-consistent synthetic chains: deep paths of both verifiers ----------
type synthCase struct {
	Hash string `json:"hash"`
	Key  string `json:"key"`
	Set  pset   `json:"set"`
	Root string `json:"root"`

	overflow bool // the summed edge lengths pass 255: the legacy verifier's uint8 position wraps
}

func genSynth(r *hx.RNG) synthCase {
	sc := synthCase{Hash: "ped"}
	hf := hashFn(sc.Hash)
	var kf felt.Felt
	kf.SetBigInt(new(big.Int).Rsh(hexFbig(randFelt(r)), 1)) // < 2^251
	sc.Key = fhex(&kf)
	kb := keyBits(&kf, 251)
	type step struct {
		n    wnode
		side byte // for binary: which child continues
	}
	var steps []step
	pos := 0
	nsteps := 1 + r.Intn(7)
	for i := 0; i < nsteps; i++ {
		rem := 251 - pos
		if rem <= 0 {
			if r.Chance(60) {
				break
			}
			rem = 0
		}
		if r.Chance(35) && rem > 0 {
			steps = append(steps, step{n: wnode{Bin: true}, side: kb[pos]})
			pos++
			continue
		}
		var l int
		switch r.Intn(8) {
		case 0:
			l = 0
		case 1:
			l = rem
		case 2:
			l = rem + 1 + r.Intn(4)
		case 3:
			l = 200 + r.Intn(56)
		case 4:
			l = 255
		default:
			l = 1 + r.Intn(12)
		}
		if l > 255 {
			l = 255
		}
		var sb strings.Builder
		for j := 0; j < l; j++ {
			if pos+j < 251 {
				sb.WriteByte(kb[pos+j])
			} else {
				sb.WriteByte('0' + byte(r.Intn(2)))
			}
		}
		p := sb.String()
		if l > 0 && r.Chance(12) {
			p = flipBit(p, r.Intn(l)) // a diverging edge
		}
		steps = append(steps, step{n: wnode{Path: p}})
		pos += l
	}
	cur := child{r.Chance(60), randFelt(r)}
	for i := len(steps) - 1; i >= 0; i-- {
		n := steps[i].n
		if n.Bin {
			other := child{r.Chance(10), randFelt(r)}
			if steps[i].side == '1' {
				n.L, n.R = other, cur
			} else {
				n.L, n.R = cur, other
			}
		} else {
			n.C = cur
		}
		h := n.hash(hf)
		sc.Set = append(pset{entry{fhex(&h), n}}, sc.Set...)
		cur = child{r.Chance(12), fhex(&h)}
	}
	sc.Root = cur.F
	sc.overflow = pos > 255
	return sc
}

func hexFbig(s string) *big.Int { f := hexF(s); return f.BigInt(new(big.Int)) }

func evalSynth(c *hx.Ctx, or *hx.Oracle, sc synthCase) {
	hf := hashFn(sc.Hash)
	root, key := hexF(sc.Root), hexF(sc.Key)
	kb := keyBits(&key, 251)
	g2 := verify2Go(root, key, toTrie2(sc.Set), hf)
	m2 := verifyModel(or, "v2", root, kb, sc.Set, hf)
	g1 := verify1Go(root, key, toLegacy(sc.Set), hf)
	m1 := verifyModel(or, "v1", root, kb, sc.Set, hf)
	c.Count("synth|"+sc.Root+"|"+sc.Key, true)
	if sc.overflow {
		c.Hist["synthetic-chain:summed-lengths-pass-255"]++
	}
	c.Hist["synthetic-chain:trie2:"+strings.Fields(g2)[0]]++
	c.Hist["synthetic-chain:legacy:"+strings.Fields(g1)[0]]++
	if g2 != m2 {
		c.Violation("model-vs-trie2:verify-synthetic", fmt.Sprintf("impl %s model %s", g2, m2), sc, true)
	}
	if g1 != m1 {
		c.Violation("model-vs-legacy:verify-synthetic", fmt.Sprintf("impl %s model %s", g1, m1), sc, true)
	}
}

// ---------- range proofs (differential; the reconstruction is not modelled) ----------
type rangeCase struct {
	Trie   trieCase `json:"trie"`
	First  string   `json:"first"`
	Keys   []string `json:"keys"`
	Values []string `json:"values"`
	Tamper string   `json:"tamper"`
}

func felts(hs []string) []*felt.Felt {
	res := make([]*felt.Felt, len(hs))
	for i, h := range hs {
		f := hexF(h)
		res[i] = &f
	}
	return res
}

func rangeVerify2(root, first felt.Felt, keys, vals []string, ps *trie2.ProofNodeSet) (out string) {
	defer func() {
		if r := recover(); r != nil {
			out = fmt.Sprintf("panic %v", r)
		}
	}()
	more, err := trie2.VerifyRangeProof(&root, &first, felts(keys), felts(vals), ps)
	if err != nil {
		return "err"
	}
	return fmt.Sprintf("ok more=%v", more)
}
func rangeVerify1(root, first felt.Felt, keys, vals []string, ps *trie.ProofNodeSet) (out string) {
	defer func() {
		if r := recover(); r != nil {
			out = fmt.Sprintf("panic %v", r)
		}
	}()
	more, err := trie.VerifyRangeProof(&root, &first, felts(keys), felts(vals), ps)
	if err != nil {
		return "err"
	}
	return fmt.Sprintf("ok more=%v", more)
}

func evalRange(c *hx.Ctx, r *hx.RNG, tc trieCase) {
	if tc.Height != 251 || tc.Hash != "ped" {
		return
	}
	b, err := buildTries(tc)
	if err != nil {
		return
	}
	content := map[string]string{}
	for _, o := range tc.Ops {
		f := strings.Split(o, ":")
		if f[1] == "0" {
			delete(content, f[0])
		} else {
			content[f[0]] = f[1]
		}
	}
	if len(content) < 2 {
		return
	}
	type kvp struct {
		k *big.Int
		v string
	}
	var all []kvp
	for k, v := range content {
		all = append(all, kvp{hexFbig(k), v})
	}
	sort.Slice(all, func(i, j int) bool { return all[i].k.Cmp(all[j].k) < 0 })
	i := r.Intn(len(all) - 1)
	j := i + 1 + r.Intn(len(all)-i-1)
	var keys, vals []string
	for _, e := range all[i : j+1] {
		keys = append(keys, e.k.Text(16))
		vals = append(vals, e.v)
	}
	first, last := hexF(keys[0]), hexF(keys[len(keys)-1])
	wantMore := j < len(all)-1
	p2 := trie2.NewProofNodeSet()
	if err := b.t2.GetRangeProof(&first, &last, p2); err != nil {
		c.Violation("trie2:range-proof-error", err.Error(), tc, false)
		return
	}
	p1 := trie.NewProofNodeSet()
	if err := b.t1.GetRangeProof(&first, &last, p1); err != nil {
		c.Violation("legacy:range-proof-error", err.Error(), tc, false)
		return
	}
	want := fmt.Sprintf("ok more=%v", wantMore)
	c.Count("range|"+strings.Join(tc.Ops, ",")+"|"+keys[0]+"|"+keys[len(keys)-1], true)
	c.Hist[fmt.Sprintf("range:honest:len=%d", min(len(keys), 6))]++
	honestClass := func(impl, g string) string {
		if strings.HasPrefix(g, "panic") {
			return impl + ":honest-range-proof-panics"
		}
		if strings.HasPrefix(g, "ok") {
			return impl + ":honest-range-proof-wrong-more-flag" // verified, but "more elements to the right" is wrong
		}
		return impl + ":honest-range-proof-not-verified"
	}
	if g := rangeVerify2(b.root, first, keys, vals, p2); g != want {
		c.Violation(honestClass("trie2", g), fmt.Sprintf("root %s range [%s..%s] of %d entries: %s want %s", fhex(&b.root), keys[0], keys[len(keys)-1], len(all), g, want), rangeCase{tc, keys[0], keys, vals, ""}, false)
	}
	if g := rangeVerify1(b.root, first, keys, vals, p1); g != want {
		c.Violation(honestClass("legacy", g), fmt.Sprintf("root %s range [%s..%s] of %d entries: %s want %s", fhex(&b.root), keys[0], keys[len(keys)-1], len(all), g, want), rangeCase{tc, keys[0], keys, vals, ""}, false)
	}
	// altered ranges: a changed value, an omitted inner element, an inserted element
	type alt struct {
		name       string
		keys, vals []string
	}
	var alts []alt
	x := r.Intn(len(keys))
	v2 := append([]string{}, vals...)
	v2[x] = incHex(vals[x])
	alts = append(alts, alt{"value-changed", keys, v2})
	if len(keys) >= 3 {
		m := 1 + r.Intn(len(keys)-2)
		alts = append(alts, alt{"inner-element-omitted",
			append(append([]string{}, keys[:m]...), keys[m+1:]...), append(append([]string{}, vals[:m]...), vals[m+1:]...)})
	}
	{
		// an element that is not in the trie, between two neighbours
		m := r.Intn(len(keys) - 1)
		a, bb := hexFbig(keys[m]), hexFbig(keys[m+1])
		mid := new(big.Int).Add(a, bb)
		mid.Rsh(mid, 1)
		if mid.Cmp(a) > 0 && mid.Cmp(bb) < 0 {
			ks := append(append(append([]string{}, keys[:m+1]...), mid.Text(16)), keys[m+1:]...)
			vs := append(append(append([]string{}, vals[:m+1]...), "7"), vals[m+1:]...)
			alts = append(alts, alt{"element-inserted", ks, vs})
		}
	}
	for _, a := range alts {
		c.Evaluations++
		c.Hist["range:altered:"+a.name]++
		p2 := trie2.NewProofNodeSet()
		b.t2.GetRangeProof(&first, &last, p2)
		if g := rangeVerify2(b.root, first, a.keys, a.vals, p2); strings.HasPrefix(g, "ok") {
			c.Violation("trie2:range-forged:"+a.name, "altered range accepted: "+g, rangeCase{tc, keys[0], a.keys, a.vals, a.name}, false)
		}
		p1 := trie.NewProofNodeSet()
		b.t1.GetRangeProof(&first, &last, p1)
		if g := rangeVerify1(b.root, first, a.keys, a.vals, p1); strings.HasPrefix(g, "ok") {
			c.Violation("legacy:range-forged:"+a.name, "altered range accepted: "+g, rangeCase{tc, keys[0], a.keys, a.vals, a.name}, false)
		}
	}
}

// replayRange re-runs one stored (possibly altered) range against the proof of its end points
func replayRange(c *hx.Ctx, rc rangeCase, verbose bool) {
	b, err := buildTries(rc.Trie)
	hx.Must(err)
	first, last := hexF(rc.First), hexF(rc.Keys[len(rc.Keys)-1])
	p2 := trie2.NewProofNodeSet()
	hx.Must(b.t2.GetRangeProof(&first, &last, p2))
	p1 := trie.NewProofNodeSet()
	hx.Must(b.t1.GetRangeProof(&first, &last, p1))
	g2 := rangeVerify2(b.root, first, rc.Keys, rc.Values, p2)
	g1 := rangeVerify1(b.root, first, rc.Keys, rc.Values, p1)
	if verbose {
		fmt.Printf("replay: range %v (altered: %q): trie2.VerifyRangeProof %s, trie.VerifyRangeProof %s\n", rc.Keys, rc.Tamper, g2, g1)
	}
	if rc.Tamper != "" {
		if strings.HasPrefix(g2, "ok") {
			c.Violation("trie2:range-forged:"+rc.Tamper, "replayed: "+g2, rc, false)
		}
		if strings.HasPrefix(g1, "ok") {
			c.Violation("legacy:range-forged:"+rc.Tamper, "replayed: "+g1, rc, false)
		}
		return
	}
	// honest range: expected flag from the trie content
	content := map[string]bool{}
	for _, o := range rc.Trie.Ops {
		f := strings.Split(o, ":")
		if f[1] == "0" {
			delete(content, f[0])
		} else {
			content[f[0]] = true
		}
	}
	more := false
	lb := hexFbig(rc.Keys[len(rc.Keys)-1])
	for k := range content {
		if hexFbig(k).Cmp(lb) > 0 {
			more = true
		}
	}
	want := fmt.Sprintf("ok more=%v", more)
	for _, ig := range [][2]string{{"trie2", g2}, {"legacy", g1}} {
		impl, g := ig[0], ig[1]
		if g != want {
			cl := impl + ":honest-range-proof-not-verified"
			if strings.HasPrefix(g, "ok") {
				cl = impl + ":honest-range-proof-wrong-more-flag"
			}
			if strings.HasPrefix(g, "panic") {
				cl = impl + ":honest-range-proof-panics"
			}
			c.Violation(cl, "replayed: "+g+" want "+want, rc, false)
		}
	}
}

// corpus: minimised failures of earlier runs, run first on every invocation (testdata/*.json hold
// the same cases as replay files)
func corpus(c *hx.Ctx) {
	k250 := "4" + strings.Repeat("0", 62)
	k250p1 := "4" + strings.Repeat("0", 61) + "1"
	mk := func(ops []string, keys, vals []string, tamper string) rangeCase {
		return rangeCase{Trie: trieCase{Hash: "ped", Height: 251, Ops: ops}, First: keys[0], Keys: keys, Values: vals, Tamper: tamper}
	}
	for _, rc := range []rangeCase{
		mk([]string{"1:a", "5:b", "9:c"}, []string{"1", "9"}, []string{"a", "c"}, "inner-element-omitted"),
		mk([]string{"1:a", k250 + ":b", k250p1 + ":c"}, []string{"1", k250}, []string{"a", "b"}, ""),
		// two boundary paths with IDENTICAL sub-nodes (same path suffix, same value => same node hash)
		mk([]string{"1:5", k250p1 + ":5"}, []string{"1", k250p1}, []string{"5", "5"}, ""),
	} {
		c.Evaluations++
		c.Hist["corpus:range"]++
		replayRange(c, rc, false)
	}
}

var _ = crypto.Pedersen

func report(c *hx.Ctx, vs []verdict, tc trieCase) {
	for _, v := range vs {
		var rp any = tc
		if v.extra != nil {
			rp = v.extra
		}
		c.Violation(v.class, v.what, rp, v.noInput)
	}
}

func main() {
	c := hx.NewCtx("C10")
	or := hx.StartOracle(c.OraclePath)
	defer or.Close()
	r := hx.NewRNG(c.Seed)

	if c.ReplayIn != "" {
		var raw map[string]any
		c.LoadReplay(&raw)
		replay(c, or, r)
		c.Finish("replay")
	}

	corpus(c)
	nTries, nSynth, nRange := 150, 1200, 120
	if c.Thorough() {
		nTries, nSynth, nRange = 2500, 30000, 3000
	}
	// small heights: Prove correspondence + model verifiers; height 251: everything
	for i := 0; i < nTries; i++ {
		heights := []int{3, 8, 64, 251, 251, 251}
		tc := genTrieCase(r, heights)
		vs := evalCase(c, or, r, tc, true)
		if len(vs) > 0 {
			report(c, vs, tc)
		}
		if i < 4 {
			c.Sample(map[string]any{"trie": tc})
		}
	}
	for i := 0; i < nSynth; i++ {
		sc := genSynth(r)
		evalSynth(c, or, sc)
		if i == 0 {
			c.Sample(map[string]any{"synthetic_chain": sc})
		}
	}
	for i := 0; i < nRange; i++ {
		tc := genTrieCase(r, []int{251})
		tc.Hash = "ped"
		evalRange(c, r, tc)
	}
	cachedHashProbe(c, r)
	runRPC(c, r.Fork(0x10))
	c.Extra["term_evaluations_memoised"] = len(termMemo)
	c.Finish("every generated trie/key: Prove sets == model, VerifyProof(own proof) == actual value; every single-field corruption: never a different value and == model verifier; synthetic chains: verifiers == model; RPC proofs verify with an independent verifier against GlobalStateRoot")
}
