package main

import (
	"math/big"

	"github.com/NethermindEth/juno/core/crypto"
	"github.com/NethermindEth/juno/core/felt"
	"verifharness/hx"
)

type tampered struct {
	Kind string `json:"kind"` // class suffix
	What string `json:"what"`
	Set  pset   `json:"set"`
	Key  string `json:"key"` // hex of the key verified
}

func randFelt(r *hx.RNG) string {
	b := new(big.Int)
	for i := 0; i < 4; i++ {
		b.Lsh(b, 62)
		b.Or(b, new(big.Int).SetUint64(r.U64()>>2))
	}
	var f felt.Felt
	f.SetBigInt(b)
	return fhex(&f)
}

func incHex(s string) string {
	f := hexF(s)
	one := felt.FromUint64[felt.Felt](1)
	f.Add(&f, &one)
	return fhex(&f)
}

func flipBit(bits string, j int) string {
	b := []byte(bits)
	if b[j] == '0' {
		b[j] = '1'
	} else {
		b[j] = '0'
	}
	return string(b)
}

// every single-node / single-field corruption of one proof set. typed: trie2 (child tags exist).
func tamperings(r *hx.RNG, honest pset, keyHex string, hf crypto.HashFn, typed bool, thorough bool) []tampered {
	var out []tampered
	n := len(honest)
	if n == 0 {
		return nil
	}
	// node indices to corrupt: first, last, and a few in between
	idx := map[int]bool{0: true, n - 1: true}
	extra := 2
	if thorough {
		extra = 8
	}
	for i := 0; i < extra && n > 2; i++ {
		idx[1+r.Intn(n-2)] = true
	}
	emit := func(kind, what string, i int, nn wnode) {
		// stale: still stored under the honest hash; rekey: stored under its own new hash
		s := honest.clone()
		s[i].N = nn
		out = append(out, tampered{kind + ":stale-key", what, s, keyHex})
		s2 := honest.clone()
		s2[i].N = nn
		h := nn.hash(hf)
		s2[i].Key = fhex(&h)
		out = append(out, tampered{kind + ":rekeyed", what, s2, keyHex})
	}
	for i := 0; i < n; i++ {
		if !idx[i] {
			continue
		}
		nd := honest[i].N
		last := i == n-1
		fields := []string{"c"}
		if nd.Bin {
			fields = []string{"l", "r"}
		}
		get := func(w wnode, f string) child {
			switch f {
			case "l":
				return w.L
			case "r":
				return w.R
			}
			return w.C
		}
		set := func(w wnode, f string, c child) wnode {
			switch f {
			case "l":
				w.L = c
			case "r":
				w.R = c
			default:
				w.C = c
			}
			return w
		}
		for _, f := range fields {
			c := get(nd, f)
			name := "child-hash"
			if last {
				name = "leaf-level-child"
			}
			emit(name+"-random", f, i, set(nd, f, child{c.Val, randFelt(r)}))
			emit(name+"-plus1", f, i, set(nd, f, child{c.Val, incHex(c.F)}))
			if n > 1 {
				j := r.Intn(n)
				emit(name+"-other-node-hash", f, i, set(nd, f, child{c.Val, honest[j].Key}))
			}
			if typed {
				emit("retag-child", f, i, set(nd, f, child{!c.Val, c.F}))
			}
		}
		if nd.Bin {
			w := nd
			w.L, w.R = nd.R, nd.L
			emit("swap-children", "", i, w)
		} else {
			p := nd.Path
			if len(p) > 0 {
				w := nd
				w.Path = flipBit(p, r.Intn(len(p)))
				emit("path-bit", "", i, w)
				w.Path = flipBit(p, len(p)-1)
				emit("path-last-bit", "", i, w)
				w.Path = p[:len(p)-1]
				emit("path-shorter", "", i, w)
				if p[0] == '0' {
					w.Path = p[1:]
					emit("length-minus1-same-path-value", "", i, w)
				}
			}
			if len(p) < 255 {
				w := nd
				w.Path = p + "0"
				emit("path-longer", "", i, w)
				w.Path = "0" + p
				emit("length-plus1-same-path-value", "", i, w)
			}
		}
		// drop the node
		s := append(honest[:i:i].clone(), honest[i+1:]...)
		out = append(out, tampered{"drop-node", "", s, keyHex})
		// the node stored (also) under another node's hash
		if n > 1 {
			j := (i + 1 + r.Intn(n-1)) % n
			s := honest.clone()
			s[j].N = honest[i].N
			out = append(out, tampered{"duplicate-node-under-other-hash", "", s, keyHex})
		}
	}
	// a different value with all hashes above it recomputed (consistent forgery, different root)
	{
		s := honest.clone()
		lastN := s[n-1].N
		nv := randFelt(r)
		if lastN.Bin {
			lastN.L.F = nv
		} else {
			lastN.C.F = nv
		}
		// walk order = set order for a single-key proof without duplicates; relink by old hash
		old := s[n-1].Key
		s[n-1].N = lastN
		h := lastN.hash(hf)
		s[n-1].Key = fhex(&h)
		for i := n - 2; i >= 0; i-- {
			w := s[i].N
			nk := s[i+1].Key
			if w.Bin {
				if w.L.F == old {
					w.L.F = nk
				}
				if w.R.F == old {
					w.R.F = nk
				}
			} else if w.C.F == old {
				w.C.F = nk
			}
			old = s[i].Key
			s[i].N = w
			h := w.hash(hf)
			s[i].Key = fhex(&h)
		}
		out = append(out, tampered{"rehashed-chain-other-value", "", s, keyHex})
	}
	// the key altered: honest set, another key
	kb := hexF(keyHex)
	k := kb.BigInt(new(big.Int))
	depths := []int{0, 1, 125, 249, 250, r.Intn(251), r.Intn(251)}
	for _, d := range depths {
		x := new(big.Int).Xor(k, new(big.Int).Lsh(big.NewInt(1), uint(250-d)))
		out = append(out, tampered{"key-bit", "", honest, x.Text(16)})
	}
	return out
}
