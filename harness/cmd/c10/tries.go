package main

import (
	"fmt"
	"math/big"
	"strings"

	"github.com/NethermindEth/juno/core/felt"
	"github.com/NethermindEth/juno/core/trie"
	"github.com/NethermindEth/juno/core/trie2"
	"github.com/NethermindEth/juno/db/memory"
	"verifharness/hx"
)

type trieCase struct {
	Hash   string   `json:"hash"` // ped | pos
	Height int      `json:"height"`
	Ops    []string `json:"ops"`  // "k:v" hex, v=0 deletes
	Keys   []string `json:"keys"` // queried keys (hex)
	Shape  string   `json:"shape,omitempty"`
}

func (c trieCase) line() string {
	return fmt.Sprintf("prove %s %d %s | %s", c.Hash, c.Height, strings.Join(c.Ops, " "), strings.Join(c.Keys, " "))
}

// C01's generator (few bases, low-bit perturbations => long shared prefixes), plus the queried keys:
// the whole universe (present and deleted keys) and absent keys diverging at chosen depths.
func genTrieCase(r *hx.RNG, heights []int) trieCase {
	c := trieCase{Hash: "ped", Height: heights[r.Intn(len(heights))]}
	if r.Chance(25) {
		c.Hash = "pos"
	}
	h := c.Height
	max := new(big.Int).Lsh(big.NewInt(1), uint(h))
	nb := 1 + r.Intn(3)
	var universe []*big.Int
	for i := 0; i < nb; i++ {
		base := new(big.Int).SetUint64(r.U64())
		base.Lsh(base, uint(r.Intn(190)))
		base.Mod(base, max)
		universe = append(universe, base)
		for j := 0; j < 1+r.Intn(4); j++ {
			x := new(big.Int).Set(base)
			x.Xor(x, new(big.Int).Lsh(big.NewInt(1), uint(r.Intn(h))))
			if r.Bool() {
				x.Xor(x, big.NewInt(int64(r.Intn(4))))
			}
			x.Mod(x, max)
			universe = append(universe, x)
		}
	}
	if r.Chance(20) {
		universe = append(universe, big.NewInt(0), new(big.Int).Sub(max, big.NewInt(1)))
	}
	n := r.Intn(14)
	if r.Chance(5) {
		n = 0 // empty trie
	}
	present := map[string]*big.Int{}
	if r.Chance(22) && h >= 4 {
		// repeated sub-trie: the same small pattern of (suffix, value) pairs under two or three different prefixes, so
		// that identical proof nodes (same hash) are reached through different parents
		sb := 1 + r.Intn(3) // suffix bits
		if h > 8 && r.Chance(40) {
			sb = 1 + r.Intn(h-2) // long identical edges
		}
		type pv struct {
			suf *big.Int
			v   int64
		}
		var pat []pv
		for i := 1 + r.Intn(3); i > 0; i-- {
			suf := new(big.Int).SetUint64(r.U64())
			suf.Mod(suf, new(big.Int).Lsh(big.NewInt(1), uint(sb)))
			pat = append(pat, pv{suf, int64(5 + r.Intn(3))})
		}
		for i := 2 + r.Intn(2); i > 0; i-- {
			pre := new(big.Int).SetUint64(r.U64())
			if r.Chance(50) {
				pre.SetUint64(uint64(r.Intn(8))) // prefixes that differ only in their last bits: deep common path
			}
			pre.Lsh(pre, uint(sb))
			pre.Mod(pre, max)
			for _, q := range pat {
				k := new(big.Int).Or(pre, q.suf)
				c.Ops = append(c.Ops, fmt.Sprintf("%x:%x", k, big.NewInt(q.v)))
				present[k.Text(16)] = k
				universe = append(universe, k)
			}
		}
		c.Shape = "repeated-subtrie"
		if n > 4 {
			n = r.Intn(4)
		}
	}
	for i := 0; i < n; i++ {
		k := universe[r.Intn(len(universe))]
		v := big.NewInt(int64(1 + r.Intn(1000)))
		if r.Chance(20) {
			v = big.NewInt(0)
			delete(present, k.Text(16))
		} else {
			present[k.Text(16)] = k
		}
		c.Ops = append(c.Ops, fmt.Sprintf("%x:%x", k, v))
	}
	seen := map[string]bool{}
	add := func(k *big.Int) {
		s := k.Text(16)
		if !seen[s] && len(c.Keys) < 28 {
			seen[s] = true
			c.Keys = append(c.Keys, s)
		}
	}
	for _, k := range universe {
		add(k)
	}
	// absent keys: flip one bit of a present key at every depth (small heights) or at sampled depths
	for _, k := range present {
		var depths []int
		if h <= 8 {
			for d := 0; d < h; d++ {
				depths = append(depths, d)
			}
		} else {
			depths = []int{0, h - 1, h - 2, r.Intn(h), r.Intn(h), r.Intn(h)}
		}
		for _, d := range depths { // d counted from the MSB
			x := new(big.Int).Xor(k, new(big.Int).Lsh(big.NewInt(1), uint(h-1-d)))
			add(x)
		}
	}
	add(new(big.Int).Mod(new(big.Int).SetUint64(r.U64()), max))
	return c
}

type built struct {
	t2   *trie2.Trie
	t1   *trie.Trie
	root felt.Felt
}

func buildTries(c trieCase) (*built, error) {
	hf := hashFn(c.Hash)
	t2 := trie2.NewEmpty(uint8(c.Height), hf)
	newTrie := trie.NewTriePedersen
	if c.Hash == "pos" {
		newTrie = trie.NewTriePoseidon
	}
	txn := memory.New().NewIndexedBatch()
	t1, err := newTrie(txn, []byte{0x7}, uint8(c.Height))
	if err != nil {
		return nil, err
	}
	for _, o := range c.Ops {
		f := strings.Split(o, ":")
		k, v := hexF(f[0]), hexF(f[1])
		if err := t2.Update(&k, &v); err != nil {
			return nil, fmt.Errorf("trie2 update: %w", err)
		}
		if _, err := t1.Put(&k, &v); err != nil {
			return nil, fmt.Errorf("legacy put: %w", err)
		}
	}
	r2, err := t2.Hash()
	if err != nil {
		return nil, err
	}
	r1, err := t1.Hash()
	if err != nil {
		return nil, err
	}
	if !r1.Equal(&r2) {
		return nil, fmt.Errorf("roots differ: trie2 %s legacy %s (C01 territory)", r2.String(), r1.String())
	}
	return &built{t2: t2, t1: t1, root: r2}, nil
}

// what the oracle says about one key
type modelKey struct {
	get    string // hex or "none"
	s2, s1 pset
	v2, v1 string
}

func parseModel(rep []string, nkeys int) (root string, canon bool, keys []modelKey) {
	if len(rep) < 2 {
		hx.Fatalf("short oracle reply")
	}
	root = evalTerm(strings.TrimPrefix(rep[0], "root\t"))
	canon = rep[1] == "canon\tt"
	var cur *modelKey
	resOf := func(f []string) string {
		if f[1] == "ok" {
			return "ok " + evalTerm(f[2])
		}
		return f[1]
	}
	for _, l := range rep[2:] {
		f := strings.Split(l, "\t")
		switch f[0] {
		case "key":
			keys = append(keys, modelKey{})
			cur = &keys[len(keys)-1]
		case "get":
			if f[1] == "none" {
				cur.get = "none"
			} else {
				cur.get = evalTerm(f[1])
			}
		case "s2":
			e := entry{Key: evalTerm(f[1])}
			if f[2] == "B" {
				e.N = wnode{Bin: true, L: child{f[3] == "V", evalTerm(f[4])}, R: child{f[5] == "V", evalTerm(f[6])}}
			} else {
				p := f[3]
				if p == "-" {
					p = ""
				}
				e.N = wnode{Path: p, C: child{f[4] == "V", evalTerm(f[5])}}
			}
			cur.s2 = append(cur.s2, e)
		case "s1":
			e := entry{Key: evalTerm(f[1])}
			if f[2] == "B" {
				e.N = wnode{Bin: true, L: child{false, evalTerm(f[3])}, R: child{false, evalTerm(f[4])}}
			} else {
				p := f[3]
				if p == "-" {
					p = ""
				}
				e.N = wnode{Path: p, C: child{false, evalTerm(f[4])}}
			}
			cur.s1 = append(cur.s1, e)
		case "v2":
			cur.v2 = resOf(f)
		case "v1":
			cur.v1 = resOf(f)
		default:
			hx.Fatalf("oracle line %q", l)
		}
	}
	if len(keys) != nkeys {
		hx.Fatalf("oracle answered %d keys of %d", len(keys), nkeys)
	}
	return
}

func eqStrings(a, b []string) bool {
	if len(a) != len(b) {
		return false
	}
	for i := range a {
		if a[i] != b[i] {
			return false
		}
	}
	return true
}
