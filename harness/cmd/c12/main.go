// C12 correspondence: real consensus/tendermint state machines vs the extracted Coq model (step), the
// local safety monitor (audit) on the implementation's own event trace, the threshold functions f/q,
// and a small network simulation (real instances + Byzantine script) searching for disagreeing commits.
// ProcessSync is one more kind of call in the generated sequences (model: process_sync); ProcessWAL is tied by
// replaying the log every case wrote into a second real instance and a second model (process_wal) and by
// requiring, on log-disciplined runs, the state and the actions of the live instance (C12_wal_replay_same_state).
package main

import (
	"fmt"
	"math/big"
	"sort"
	"strconv"
	"strings"

	"github.com/NethermindEth/juno/consensus/tendermint"
	"github.com/NethermindEth/juno/consensus/types"
	"github.com/NethermindEth/juno/consensus/types/actions"
	"github.com/NethermindEth/juno/consensus/types/wal"
	"github.com/NethermindEth/juno/consensus/votecounter"
	"github.com/NethermindEth/juno/utils/log"
	"verifharness/hx"
)

// ---------- instantiation of the generic state machine ----------
type Addr [4]uint64
type Hash [4]uint64
type Val uint64

var curM uint64 // value id = value mod curM (0: identity); a non-injective id makes id/value confusion visible

func vid(v uint64) uint64 {
	if curM == 0 {
		return v
	}
	return v % curM
}
func (v Val) Hash() Hash { return Hash{vid(uint64(v))} }

type (
	Proposal  = types.Proposal[Val, Hash, Addr]
	Prevote   = types.Prevote[Hash, Addr]
	Precommit = types.Precommit[Hash, Addr]
	Action    = actions.Action[Val, Hash, Addr]
	SM        = tendermint.StateMachine[Val, Hash, Addr]
)

type Block struct {
	Total uint64   `json:"total"`
	Pows  []uint64 `json:"pows"`
	Props []int    `json:"props"`
}

// In is one call of the state machine.
type In struct {
	K    string `json:"k"` // start | prop | pv | pc | to | sync
	H    uint64 `json:"h,omitempty"`
	R    int    `json:"r"`
	From int    `json:"from,omitempty"`
	VR   int    `json:"vr,omitempty"`
	Val  uint64 `json:"val,omitempty"`
	ID   int64  `json:"id,omitempty"` // -1 = nil
	Step int    `json:"step,omitempty"`
	Sync []In   `json:"sync,omitempty"` // K = sync (ProcessSync): Sync[0] is the proposal, the rest are the precommits
}

func (i In) String() string {
	switch i.K {
	case "start":
		return fmt.Sprintf("start %d", i.R)
	case "prop":
		return fmt.Sprintf("prop %d %d %d %d %d", i.H, i.R, i.From, i.VR, i.Val)
	case "pv", "pc":
		id := "-"
		if i.ID >= 0 {
			id = strconv.FormatInt(i.ID, 10)
		}
		return fmt.Sprintf("%s %d %d %d %s", i.K, i.H, i.R, i.From, id)
	case "to":
		return fmt.Sprintf("to %d %d %d", i.Step, i.H, i.R)
	case "sync":
		p := i.Sync[0]
		parts := []string{fmt.Sprintf("sync %d %d %d %d %d", p.H, p.R, p.From, p.VR, p.Val)}
		for _, v := range i.Sync[1:] {
			id := "-"
			if v.ID >= 0 {
				id = strconv.FormatInt(v.ID, 10)
			}
			parts = append(parts, fmt.Sprintf("%d %d %d %s", v.H, v.R, v.From, id))
		}
		return strings.Join(parts, " ; ")
	}
	panic("input kind " + i.K)
}

type Case struct {
	Self    int      `json:"self"`
	H0      uint64   `json:"h0"`
	M       uint64   `json:"m"`
	Invalid []uint64 `json:"invalid"`
	Values  []uint64 `json:"values"`
	Dflt    uint64   `json:"dflt"`
	Blocks  []Block  `json:"blocks"`
	Inputs  []In     `json:"inputs"`
}

func u64s(l []uint64) string {
	if len(l) == 0 {
		return "-"
	}
	p := make([]string, len(l))
	for i, x := range l {
		p[i] = strconv.FormatUint(x, 10)
	}
	return strings.Join(p, ",")
}
func ints(l []int) string {
	p := make([]string, len(l))
	for i, x := range l {
		p[i] = strconv.Itoa(x)
	}
	return strings.Join(p, ",")
}

func (c *Case) newLine(self int) string {
	bs := make([]string, len(c.Blocks))
	for i, b := range c.Blocks {
		bs[i] = fmt.Sprintf("%d;%s;%s", b.Total, u64s(b.Pows), ints(b.Props))
	}
	return fmt.Sprintf("new %d %d %d %s %s %d %s", self, c.H0, c.M, u64s(c.Invalid), u64s(c.Values), c.Dflt, strings.Join(bs, "/"))
}

// Validators + Application of one instance
type env struct {
	c     *Case
	nval  int
	nCall int
}

func (e *env) blk(h types.Height) *Block {
	i := int(uint64(h) - e.c.H0)
	if uint64(h) < e.c.H0 {
		i = 0
	}
	if i >= len(e.c.Blocks) {
		i = len(e.c.Blocks) - 1
	}
	return &e.c.Blocks[i]
}
func (e *env) TotalVotingPower(h types.Height) types.VotingPower {
	return types.VotingPower(e.blk(h).Total)
}
func (e *env) ValidatorVotingPower(h types.Height, a *Addr) types.VotingPower {
	b := e.blk(h)
	if a[0] < uint64(len(b.Pows)) {
		return types.VotingPower(b.Pows[a[0]])
	}
	return types.VotingPower(e.c.Dflt)
}
func (e *env) Proposer(h types.Height, r types.Round) Addr {
	b := e.blk(h)
	l := len(b.Props)
	return Addr{uint64(b.Props[((int(r)%l)+l)%l])}
}
func (e *env) Value() Val {
	v := e.c.Values[e.nval%len(e.c.Values)]
	e.nval++
	return Val(v)
}
func (e *env) Valid(v Val) bool {
	for _, x := range e.c.Invalid {
		if x == uint64(v) {
			return false
		}
	}
	return true
}

func newSM(c *Case, self int) (SM, *env) {
	e := &env{c: c}
	return tendermint.New[Val, Hash, Addr](log.NewNopZapLogger(), Addr{uint64(self)}, e, e, types.Height(c.H0)), e
}

// ---------- canonical dump of the implementation's whole state (same text as the oracle's "dump") ----------
// Read through the verif hooks tendermint.VerifInspect and VoteCounter.VerifDump / VerifCountVote.
func hexu(x types.VotingPower) string { return strconv.FormatUint(uint64(x), 16) }
func b01(b bool) string {
	if b {
		return "1"
	}
	return "0"
}
func ballotsStr(b votecounter.VerifBallots[Addr]) string {
	as := make([]uint64, 0, len(b.Ballots))
	for a := range b.Ballots {
		as = append(as, a[0])
	}
	sort.Slice(as, func(i, j int) bool { return as[i] < as[j] })
	ps := make([]string, len(as))
	for i, a := range as {
		x := b.Ballots[Addr{a}]
		ps[i] = fmt.Sprintf("%d:%s%s", a, b01(x[votecounter.Prevote]), b01(x[votecounter.Precommit]))
	}
	return hexu(b.PerVoteType[votecounter.Prevote]) + "/" + hexu(b.PerVoteType[votecounter.Precommit]) + "/" + hexu(b.Total) +
		"[" + strings.Join(ps, ",") + "]"
}
func roundsStr(m map[types.Round]votecounter.VerifRound[Val, Hash, Addr]) string {
	rs := make([]int, 0, len(m))
	for r := range m {
		rs = append(rs, int(r))
	}
	sort.Ints(rs)
	out := make([]string, len(rs))
	for i, r := range rs {
		d := m[types.Round(r)]
		prop := "nil"
		if d.Proposal != nil {
			prop = propStr(d.Proposal.Height, d.Proposal.Round, d.Proposal.Sender, d.Proposal.ValidRound, d.Proposal.Value)
		}
		ids := make([]uint64, 0, len(d.PerID))
		for id := range d.PerID {
			ids = append(ids, id[0])
		}
		sort.Slice(ids, func(a, b int) bool { return ids[a] < ids[b] })
		is := make([]string, len(ids))
		for k, id := range ids {
			is[k] = fmt.Sprintf("%d=%s", id, ballotsStr(d.PerID[Hash{id}]))
		}
		out[i] = fmt.Sprintf("R%d{%s|%s|%s|%s|%s}", r, prop, hexu(d.Uncounted), strings.Join(is, ";"), ballotsStr(d.Nil), ballotsStr(d.All))
	}
	return strings.Join(out, " ")
}
func valStr(v *Val) string {
	if v == nil {
		return "-"
	}
	return strconv.FormatUint(uint64(*v), 10)
}

// probeIDs: nil, every id some round of the current height has a ballot set for, and two ids nobody voted for
func probeIDs(d *votecounter.VerifCounter[Val, Hash, Addr]) []string {
	seen := map[uint64]bool{41: true, 977: true}
	for _, r := range d.Rounds {
		for id := range r.PerID {
			seen[id[0]] = true
		}
	}
	ids := make([]uint64, 0, len(seen))
	for id := range seen {
		ids = append(ids, id)
	}
	sort.Slice(ids, func(a, b int) bool { return ids[a] < ids[b] })
	out := []string{"nil"}
	for _, id := range ids {
		out = append(out, strconv.FormatUint(id, 10))
	}
	return out
}

func dumpImpl(sm SM, e *env) (text string, probe []string) {
	st, vc, ok := tendermint.VerifInspect[Val, Hash, Addr](sm)
	if !ok {
		hx.Fatalf("tendermint.VerifInspect: not a state machine created by tendermint.New")
	}
	d := vc.VerifDump()
	probe = probeIDs(&d)
	s := strings.Join([]string{"S", strconv.FormatUint(uint64(st.Height), 10), strconv.Itoa(int(st.Round)), strconv.Itoa(int(st.Step)),
		valStr(st.LockedValue), strconv.Itoa(int(st.LockedRound)), valStr(st.ValidValue), strconv.Itoa(int(st.ValidRound)),
		b01(st.TimeoutPrevoteScheduled), b01(st.TimeoutPrecommitScheduled), b01(st.LockedValueAndOrValidValueSet), b01(st.IsHeightStarted),
		strconv.FormatUint(uint64(st.LastTriggerSync), 10), strconv.FormatUint(uint64(st.LastQuorum), 10), strconv.Itoa(e.nval)}, " ")
	s += " # VC " + strconv.FormatUint(uint64(d.Height), 10) + " t=" + hexu(d.Total) + " f=" + hexu(d.Faulty) + " q=" + hexu(d.Quorum) + " " + roundsStr(d.Rounds)
	hs := make([]uint64, 0, len(d.Future))
	for h := range d.Future {
		hs = append(hs, uint64(h))
	}
	sort.Slice(hs, func(a, b int) bool { return hs[a] < hs[b] })
	fs := make([]string, len(hs))
	for i, h := range hs {
		fs[i] = fmt.Sprintf("F%d(%s)", h, roundsStr(d.Future[types.Height(h)]))
	}
	s += " # " + strings.Join(fs, " ")
	rs := make([]int, 0, len(d.Rounds))
	for r := range d.Rounds {
		rs = append(rs, int(r))
	}
	sort.Ints(rs)
	var cs []string
	for _, r := range rs {
		for _, p := range probe {
			var id *Hash
			ids := "-"
			if p != "nil" {
				n, _ := strconv.ParseUint(p, 10, 64)
				id = &Hash{n}
				ids = p
			}
			pv, _ := vc.VerifCountVote(types.Round(r), votecounter.Prevote, id)
			pc, _ := vc.VerifCountVote(types.Round(r), votecounter.Precommit, id)
			// the public predicate must be the same comparison with the quorum
			if vc.HasQuorumForVote(types.Round(r), votecounter.Prevote, id) != (pv >= d.Quorum) ||
				vc.HasQuorumForVote(types.Round(r), votecounter.Precommit, id) != (pc >= d.Quorum) {
				ids += "!quorum-predicate"
			}
			cs = append(cs, fmt.Sprintf("C%d:%s=%s/%s", r, ids, hexu(pv), hexu(pc)))
		}
	}
	s += " # " + strings.Join(cs, " ")
	return s, probe
}

// dumpNorm is the implementation's state up to Model.st_sim: all scalar fields, and the round data of every cell of
// the vote counter - without the empty map entries getRoundData leaves behind for rejected messages.
func emptyBallots(b votecounter.VerifBallots[Addr]) bool {
	return len(b.Ballots) == 0 && b.Total == 0 && b.PerVoteType[votecounter.Prevote] == 0 && b.PerVoteType[votecounter.Precommit] == 0
}
func nonEmptyRounds(m map[types.Round]votecounter.VerifRound[Val, Hash, Addr]) map[types.Round]votecounter.VerifRound[Val, Hash, Addr] {
	out := map[types.Round]votecounter.VerifRound[Val, Hash, Addr]{}
	for r, d := range m {
		if d.Proposal == nil && d.Uncounted == 0 && len(d.PerID) == 0 && emptyBallots(d.Nil) && emptyBallots(d.All) {
			continue
		}
		out[r] = d
	}
	return out
}
func dumpNorm(sm SM, e *env) string {
	st, vc, ok := tendermint.VerifInspect[Val, Hash, Addr](sm)
	if !ok {
		hx.Fatalf("tendermint.VerifInspect: not a state machine created by tendermint.New")
	}
	d := vc.VerifDump()
	s := strings.Join([]string{"S", strconv.FormatUint(uint64(st.Height), 10), strconv.Itoa(int(st.Round)), strconv.Itoa(int(st.Step)),
		valStr(st.LockedValue), strconv.Itoa(int(st.LockedRound)), valStr(st.ValidValue), strconv.Itoa(int(st.ValidRound)),
		b01(st.TimeoutPrevoteScheduled), b01(st.TimeoutPrecommitScheduled), b01(st.LockedValueAndOrValidValueSet), b01(st.IsHeightStarted),
		strconv.FormatUint(uint64(st.LastTriggerSync), 10), strconv.FormatUint(uint64(st.LastQuorum), 10), strconv.Itoa(e.nval)}, " ")
	s += " # VC " + strconv.FormatUint(uint64(d.Height), 10) + " " + roundsStr(nonEmptyRounds(d.Rounds))
	hs := make([]uint64, 0, len(d.Future))
	for h := range d.Future {
		if uint64(h) >= uint64(d.Height) && len(nonEmptyRounds(d.Future[h])) > 0 {
			hs = append(hs, uint64(h))
		}
	}
	sort.Slice(hs, func(a, b int) bool { return hs[a] < hs[b] })
	for _, h := range hs {
		s += fmt.Sprintf(" F%d(%s)", h, roundsStr(nonEmptyRounds(d.Future[types.Height(h)])))
	}
	return s
}

// ---------- canonical text of actions (same format as the oracle prints) ----------
func idStr(h *Hash) string {
	if h == nil {
		return "-"
	}
	return strconv.FormatUint(h[0], 10)
}
func propStr(h types.Height, r types.Round, from Addr, vr types.Round, v *Val) string {
	val := "nil"
	if v != nil {
		val = strconv.FormatUint(uint64(*v), 10)
	}
	return fmt.Sprintf("%d,%d,%d,%d,%s", uint64(h), int(r), from[0], int(vr), val)
}
func voteStr(h types.Height, r types.Round, from Addr, id *Hash) string {
	return fmt.Sprintf("%d,%d,%d,%s", uint64(h), int(r), from[0], idStr(id))
}

func canon(as []Action) []string {
	out := make([]string, 0, len(as))
	for _, act := range as {
		switch a := act.(type) {
		case *actions.WriteWAL[Val, Hash, Addr]:
			switch e := a.Entry.(type) {
			case *wal.Start:
				out = append(out, fmt.Sprintf("ws:%d", uint64(*e)))
			case *wal.Proposal[Val, Hash, Addr]:
				out = append(out, "wp:"+propStr(e.Height, e.Round, e.Sender, e.ValidRound, e.Value))
			case *wal.Prevote[Hash, Addr]:
				out = append(out, "wv:"+voteStr(e.Height, e.Round, e.Sender, e.ID))
			case *wal.Precommit[Hash, Addr]:
				out = append(out, "wc:"+voteStr(e.Height, e.Round, e.Sender, e.ID))
			case *wal.Timeout:
				out = append(out, fmt.Sprintf("wt:%d,%d,%d", int(e.Step), uint64(e.Height), int(e.Round)))
			default:
				out = append(out, fmt.Sprintf("w?:%T", e))
			}
		case *actions.BroadcastProposal[Val, Hash, Addr]:
			out = append(out, "bp:"+propStr(a.Height, a.Round, a.Sender, a.ValidRound, a.Value))
		case *actions.BroadcastPrevote[Hash, Addr]:
			out = append(out, "bv:"+voteStr(a.Height, a.Round, a.Sender, a.ID))
		case *actions.BroadcastPrecommit[Hash, Addr]:
			out = append(out, "bc:"+voteStr(a.Height, a.Round, a.Sender, a.ID))
		case *actions.ScheduleTimeout:
			out = append(out, fmt.Sprintf("st:%d,%d,%d", int(a.Step), uint64(a.Height), int(a.Round)))
		case *actions.Commit[Val, Hash, Addr]:
			out = append(out, "cm:"+propStr(a.Height, a.Round, a.Sender, a.ValidRound, a.Value))
		case *actions.TriggerSync:
			out = append(out, fmt.Sprintf("ts:%d,%d", uint64(a.Start), uint64(a.End)))
		default:
			out = append(out, fmt.Sprintf("?:%T", act))
		}
	}
	return out
}

func apply(sm SM, i In) []string {
	hdr := types.MessageHeader[Addr]{Height: types.Height(i.H), Round: types.Round(i.R), Sender: Addr{uint64(i.From)}}
	var id *Hash
	if i.ID >= 0 {
		id = &Hash{uint64(i.ID)}
	}
	switch i.K {
	case "start":
		return canon(sm.ProcessStart(types.Round(i.R)))
	case "prop":
		v := Val(i.Val)
		return canon(sm.ProcessProposal(&Proposal{MessageHeader: hdr, ValidRound: types.Round(i.VR), Value: &v}))
	case "pv":
		return canon(sm.ProcessPrevote(&Prevote{MessageHeader: hdr, ID: id}))
	case "pc":
		return canon(sm.ProcessPrecommit(&Precommit{MessageHeader: hdr, ID: id}))
	case "to":
		return canon(sm.ProcessTimeout(types.Timeout{Step: types.Step(i.Step), Height: types.Height(i.H), Round: types.Round(i.R)}))
	case "sync":
		p := i.Sync[0]
		v := Val(p.Val)
		prop := &Proposal{MessageHeader: types.MessageHeader[Addr]{Height: types.Height(p.H), Round: types.Round(p.R), Sender: Addr{uint64(p.From)}},
			ValidRound: types.Round(p.VR), Value: &v}
		pcs := make([]Precommit, 0, len(i.Sync)-1)
		for _, x := range i.Sync[1:] {
			var xid *Hash
			if x.ID >= 0 {
				xid = &Hash{uint64(x.ID)}
			}
			pcs = append(pcs, Precommit{MessageHeader: types.MessageHeader[Addr]{Height: types.Height(x.H), Round: types.Round(x.R), Sender: Addr{uint64(x.From)}}, ID: xid})
		}
		return canon(sm.ProcessSync(prop, pcs))
	}
	panic("input kind")
}

// walEntry rebuilds the WAL entry a WriteWAL action carried from its canonical text (ws: wp: wv: wc: wt:)
func walEntry(a string) wal.Entry[Val, Hash, Addr] {
	tag, body, _ := strings.Cut(a, ":")
	f := strings.Split(body, ",")
	num := func(s string) int { n, _ := strconv.Atoi(s); return n }
	u := func(s string) uint64 { n, _ := strconv.ParseUint(s, 10, 64); return n }
	hdr := func() types.MessageHeader[Addr] {
		return types.MessageHeader[Addr]{Height: types.Height(u(f[0])), Round: types.Round(num(f[1])), Sender: Addr{u(f[2])}}
	}
	vid := func() *Hash {
		if f[3] == "-" {
			return nil
		}
		return &Hash{u(f[3])}
	}
	switch tag {
	case "ws":
		h := wal.Start(u(f[0]))
		return &h
	case "wp":
		v := Val(u(f[4]))
		return &wal.Proposal[Val, Hash, Addr]{MessageHeader: hdr(), ValidRound: types.Round(num(f[3])), Value: &v}
	case "wv":
		return &wal.Prevote[Hash, Addr]{MessageHeader: hdr(), ID: vid()}
	case "wc":
		return &wal.Precommit[Hash, Addr]{MessageHeader: hdr(), ID: vid()}
	case "wt":
		return &wal.Timeout{Step: types.Step(num(f[0])), Height: types.Height(u(f[1])), Round: types.Round(num(f[2]))}
	}
	panic("wal entry " + a)
}

// lockstep of one real instance with one oracle process
type pair struct {
	sm     SM
	env    *env
	noDump bool // set after the first state-only difference: the case goes on so that the monitor can find a failing input
	soft   bool // the last feed's difference was in the internal state only (returned actions agreed)
	or     *hx.Oracle
	c   *Case
	log []string // "input => actions"
	wal  []string // the entries of the WriteWAL actions the instance returned, in order
	acts []string // every action it returned, in order
}

func newPair(or *hx.Oracle, c *Case, self int) *pair {
	curM = c.M
	or.Ask(c.newLine(self)+"\nfq 1", 1) // "new" has no reply; piggy-back a cheap request to stay in sync
	sm, e := newSM(c, self)
	return &pair{sm: sm, env: e, or: or, c: c}
}

// feed returns the implementation's actions and a non-empty diff description on a mismatch
func (p *pair) feed(i In) (acts []string, diff string) {
	acts = apply(p.sm, i)
	a := "-"
	if len(acts) > 0 {
		a = strings.Join(acts, " ")
	}
	rep := p.or.Ask("in "+i.String()+" | "+strings.Join(acts, " "), 1)[0]
	impl := fmt.Sprintf("0 %d %s", uint64(p.sm.Height()), a)
	p.log = append(p.log, i.String()+" => "+a)
	for _, x := range acts {
		if strings.HasPrefix(x, "w") {
			p.wal = append(p.wal, x)
		}
	}
	p.acts = append(p.acts, acts...)
	if rep != impl {
		return acts, fmt.Sprintf("input %q: model %q, implementation %q", i.String(), rep, impl)
	}
	// the whole internal state (consensus variables, every ballot of the vote counter, the future-height buffer,
	// countVote of every round for seen and unseen ids) after the call
	p.soft = false
	if p.noDump {
		return acts, ""
	}
	st, probe := dumpImpl(p.sm, p.env)
	mst := p.or.Ask("dump "+strings.Join(probe, ","), 1)[0]
	if mst != st {
		p.soft = true
		return acts, fmt.Sprintf("input %q: state after the call: model %q, implementation %q", i.String(), stateDiff(mst, st), stateDiff(st, mst))
	}
	return acts, ""
}

// stateDiff keeps the fields of a that differ from b (the dumps are long)
func stateDiff(a, b string) string {
	fa, fb := strings.Fields(a), strings.Fields(b)
	var out []string
	for i, x := range fa {
		if i >= len(fb) || fb[i] != x {
			out = append(out, fmt.Sprintf("[%d]%s", i, x))
		}
		if len(out) >= 6 {
			break
		}
	}
	if len(out) == 0 && len(fb) > len(fa) {
		return fmt.Sprintf("(%d fields fewer)", len(fb)-len(fa))
	}
	return strings.Join(out, " ")
}

// walCheck: ProcessWAL.  The entries of the WriteWAL actions the live instance p returned are fed, in order, through
// ProcessWAL into a second real instance and a second model (Model.process_wal); after every call the returned
// actions and the whole state of the replay instance must equal the model's.  At the end, if the live inputs kept
// the log discipline (Model.wal_disciplined - the hypothesis of C12_wal_replay_same_state), the replayed
// implementation must be in the same state as the live one (dumpNorm = Model.st_sim) and must have returned the
// same actions; the same is asked of the two models (st_sim_b, acts_eqb).  Returns a violation class ("" = fine).
type walRes struct {
	class, detail string
	noInput       bool
	disciplined   bool
	same          bool
	broke         string // which clause of the log discipline the first undisciplined input broke
}

func walCheck(ctx *hx.Ctx, p *pair) walRes {
	or := p.or
	or.Ask("walnew\nfq 1", 1)
	curM = p.c.M
	sm2, e2 := newSM(p.c, p.c.Self)
	var acts2 []string
	var mism *walRes // first difference between the replay instance and its model (the replay goes on without the model)
	for k, w := range p.wal {
		acts := canon(sm2.ProcessWAL(walEntry(w)))
		acts2 = append(acts2, acts...)
		kind, _, _ := strings.Cut(w, ":")
		if ctx != nil {
			ctx.Hist["wal-replay:entry:"+kind]++
		}
		if mism != nil {
			continue
		}
		a := "-"
		if len(acts) > 0 {
			a = strings.Join(acts, " ")
		}
		rep := or.Ask("wal "+w+" | "+strings.Join(acts, " "), 1)[0]
		impl := fmt.Sprintf("0 %d %s", uint64(sm2.Height()), a)
		if rep != impl {
			mism = &walRes{class: "wal-replay:step-mismatch:" + kind, noInput: true,
				detail: fmt.Sprintf("ProcessWAL of entry %d %q on the replay instance: model %q, implementation %q", k, w, rep, impl)}
			continue
		}
		st, probe := dumpImpl(sm2, e2)
		mst := or.Ask("wdump "+strings.Join(probe, ","), 1)[0]
		if mst != st {
			mism = &walRes{class: "wal-replay:state-mismatch:" + kind, noInput: true,
				detail: fmt.Sprintf("ProcessWAL of entry %d %q: state of the replay instance after the call: model %q, implementation %q", k, w, stateDiff(mst, st), stateDiff(st, mst))}
		}
	}
	f := strings.Fields(or.Ask("walcmp", 1)[0])
	wd, msim, macts, rdisc, rcodes, rndv, mself := f[0] == "1", f[1] == "1", f[2] == "1", f[3] == "1", f[4], f[5] == "1", f[6] == "1"
	live, replayed := dumpNorm(p.sm, p.env), dumpNorm(sm2, e2)
	sameState := live == replayed
	sameActs := strings.Join(acts2, " ") == strings.Join(p.acts, " ")
	res := walRes{disciplined: wd, same: sameState && sameActs, broke: f[7]}
	if mism != nil {
		// the correspondence broke; is this run a failing input of the property predicate itself?
		if wd && !res.same {
			res.class = "wal-replay:state-differs"
			if sameState {
				res.class = "wal-replay:actions-differ"
			}
			res.detail = fmt.Sprintf("the inputs keep the log discipline, but the instance fed its log through ProcessWAL does not end like the live one: state live %q, replayed %q; actions live %q, replayed %q (first difference from the model: %s)",
				stateDiff(live, replayed), stateDiff(replayed, live), stateDiff(strings.Join(p.acts, " "), strings.Join(acts2, " ")), stateDiff(strings.Join(acts2, " "), strings.Join(p.acts, " ")), mism.detail)
			return res
		}
		mism.disciplined, mism.same, mism.broke = wd, res.same, f[7]
		return *mism
	}
	if rdisc && (rcodes != "-" || !rndv) {
		res.class = "wal-replay:local-safety:codes=" + rcodes + ":no_double_vote=" + strconv.FormatBool(rndv)
		res.detail = "the trace of the replay instance (ProcessWAL calls) fails the local safety monitor; log: " + strings.Join(p.wal, " ")
		return res
	}
	if !wd {
		return res
	}
	switch {
	case !sameState:
		res.class = "wal-replay:state-differs"
		res.detail = fmt.Sprintf("the inputs keep the log discipline, but the instance fed its log through ProcessWAL is not in the state of the live one: live %q, replayed %q; log: %s",
			stateDiff(live, replayed), stateDiff(replayed, live), strings.Join(p.wal, " "))
	case !sameActs:
		res.class = "wal-replay:actions-differ"
		res.detail = fmt.Sprintf("the inputs keep the log discipline, but the replay returned other actions: live %q, replay %q",
			stateDiff(strings.Join(p.acts, " "), strings.Join(acts2, " ")), stateDiff(strings.Join(acts2, " "), strings.Join(p.acts, " ")))
	case !msim || !macts || !mself:
		res.class = "wal-replay:model-contradicts-theorem"
		res.noInput = true
		res.detail = fmt.Sprintf("extracted model on a log-disciplined run: st_sim_b=%v acts_eqb=%v wal_replay_same=%v (C12_wal_replay_same_state_b says true)", msim, macts, mself)
	}
	return res
}

type auditRes struct {
	disc  bool
	codes string
	ndv   bool
}

func (p *pair) audit() auditRes {
	f := strings.Fields(p.or.Ask("audit", 1)[0])
	return auditRes{disc: f[0] == "1", codes: f[1], ndv: f[2] == "1"}
}

// ---------- generator (adaptive: looks at what the instance emitted so far) ----------
type gen struct {
	r       *hx.RNG
	c       *Case
	n       int // validators
	wild    bool
	driver  bool // like consensus/driver: ProcessStart(0) is the first call of every height
	curR    int
	started bool
	sched   []In // timeouts the instance asked for
	own     []In // its own broadcasts (can be echoed back)
	sent    []In
	queue   []In
	vals    []uint64
	lastSync string
}

func (g *gen) pickVal() uint64 { return g.vals[g.r.Intn(len(g.vals))] }
func (g *gen) pickID() int64 {
	if g.r.Chance(25) {
		return -1
	}
	if g.r.Chance(5) {
		return int64(g.r.Intn(40))
	}
	return int64(vid(g.pickVal()))
}
func (g *gen) pickRound() int {
	switch x := g.r.Intn(100); {
	case x < 60:
		return g.curR
	case x < 75:
		return g.curR + 1
	case x < 85:
		return g.curR + 1 + g.r.Intn(3)
	case x < 95:
		if g.curR > 0 {
			return g.r.Intn(g.curR)
		}
		return 0
	default:
		return g.r.Intn(8) - 3
	}
}
func (g *gen) pickHeight(cur uint64) uint64 {
	switch x := g.r.Intn(100); {
	case x < 80:
		return cur
	case x < 92:
		return cur + 1
	case x < 96:
		return cur + 2
	default:
		if cur > 0 {
			return cur - 1
		}
		return cur
	}
}
func (g *gen) pickSender() int {
	if g.r.Chance(4) {
		return g.n + g.r.Intn(2) // not a validator
	}
	return g.r.Intn(g.n)
}
func (g *gen) proposerOf(h uint64, r int) int {
	e := env{c: g.c}
	return int(e.Proposer(types.Height(h), types.Round(r))[0])
}

// wave: the same vote from many validators (forms quorums)
func (g *gen) wave(kind string, h uint64, r int, id int64) {
	order := make([]int, g.n)
	for i := range order {
		order[i] = i
	}
	for i := len(order) - 1; i > 0; i-- {
		j := g.r.Intn(i + 1)
		order[i], order[j] = order[j], order[i]
	}
	k := g.n - g.r.Intn(2)
	if g.r.Chance(20) {
		k = 1 + g.r.Intn(g.n)
	}
	for _, s := range order[:k] {
		if s == g.c.Self && g.r.Chance(70) {
			continue
		}
		x := id
		if g.r.Chance(8) {
			x = g.pickID()
		}
		g.queue = append(g.queue, In{K: kind, H: h, R: r, From: s, ID: x})
	}
}

func (g *gen) next(cur uint64) In {
	if len(g.queue) > 0 && g.r.Chance(85) {
		i := g.queue[0]
		g.queue = g.queue[1:]
		return i
	}
	if !g.started && g.driver {
		return In{K: "start", R: 0}
	}
	if !g.started {
		x := g.r.Intn(100)
		if x < 70 || (!g.wild && x < 80) {
			r := 0
			if g.r.Chance(10) {
				r = g.r.Intn(3)
			}
			if g.wild && g.r.Chance(5) {
				r = -1
			}
			return In{K: "start", R: r}
		}
		if g.wild && x < 85 {
			return In{K: "to", Step: g.r.Intn(3), H: g.pickHeight(cur), R: g.r.Intn(2)}
		}
	}
	switch x := g.r.Intn(100); {
	case x < 14: // proposal of the current round from the right proposer
		r := g.curR
		if g.r.Chance(20) {
			r = g.pickRound()
		}
		h := cur
		if g.r.Chance(10) {
			h = g.pickHeight(cur)
		}
		vr := -1
		if r > 0 && g.r.Chance(50) {
			vr = g.r.Intn(r)
		} else if g.r.Chance(6) {
			vr = g.r.Intn(6) - 2
		}
		from := g.proposerOf(h, r)
		if g.r.Chance(8) {
			from = g.pickSender()
		}
		return In{K: "prop", H: h, R: r, From: from, VR: vr, Val: g.pickVal()}
	case x < 34:
		return In{K: "pv", H: g.pickHeight(cur), R: g.pickRound(), From: g.pickSender(), ID: g.pickID()}
	case x < 50:
		return In{K: "pc", H: g.pickHeight(cur), R: g.pickRound(), From: g.pickSender(), ID: g.pickID()}
	case x < 64:
		g.wave("pv", cur, g.pickRound(), g.pickID())
	case x < 76:
		g.wave("pc", cur, g.pickRound(), g.pickID())
	case x < 80: // a whole future height arrives early
		h := cur + 1 + uint64(g.r.Intn(2))
		v := g.pickVal()
		g.queue = append(g.queue, In{K: "prop", H: h, R: 0, From: g.proposerOf(h, 0), VR: -1, Val: v})
		g.wave("pv", h, 0, int64(vid(v)))
		g.wave("pc", h, 0, int64(vid(v)))
	case x < 88: // a timeout the instance scheduled (or, rarely, any)
		if len(g.sched) > 0 && g.r.Chance(85) {
			return g.sched[g.r.Intn(len(g.sched))]
		}
		return In{K: "to", Step: g.r.Intn(3), H: g.pickHeight(cur), R: g.pickRound()}
	case x < 92:
		if len(g.own) > 0 {
			return g.own[g.r.Intn(len(g.own))]
		}
	case x < 95:
		if len(g.sent) > 0 {
			return g.sent[g.r.Intn(len(g.sent))]
		}
	case x < 98:
		return g.sync(cur)
	default:
		return In{K: "start", R: g.r.Intn(2)}
	}
	if len(g.queue) > 0 {
		i := g.queue[0]
		g.queue = g.queue[1:]
		return i
	}
	return In{K: "pv", H: cur, R: g.curR, From: g.pickSender(), ID: g.pickID()}
}

func (g *gen) perm() []int {
	order := make([]int, g.n)
	for i := range order {
		order[i] = i
	}
	for i := len(order) - 1; i > 0; i-- {
		j := g.r.Intn(i + 1)
		order[i], order[j] = order[j], order[i]
	}
	return order
}

// sync: one ProcessSync call - a proposal and a list of precommits: enough of them for the proposal's id at its
// height and round (valid), too few (insufficient), for another height (wrong-height: the next one - future buffer
// and TriggerSync path - or the previous one), for another round (wrong-round), or a mix (other ids, nil,
// duplicates, non-validators, an empty list)
func (g *gen) sync(cur uint64) In {
	h, r := cur, g.curR
	if g.r.Chance(25) {
		r = g.pickRound()
	}
	kind := []string{"valid", "valid", "insufficient", "wrong-height", "wrong-round", "mixed"}[g.r.Intn(6)]
	v := g.pickVal()
	vr := -1
	if r > 0 && g.r.Chance(30) {
		vr = g.r.Intn(r)
	}
	ph := h
	if kind == "wrong-height" && g.r.Chance(40) {
		ph = h + 1 // the whole sync is for the next height
	}
	from := g.proposerOf(ph, r)
	if g.r.Chance(6) {
		from = g.pickSender()
	}
	in := In{K: "sync", Sync: []In{{K: "prop", H: ph, R: r, From: from, VR: vr, Val: v}}}
	id := int64(vid(v))
	order := g.perm()
	k := g.n
	pch, pcr := ph, r
	switch kind {
	case "valid":
		k = g.n - g.r.Intn(2)
	case "insufficient":
		k = g.r.Intn(g.n/2 + 1)
	case "wrong-height":
		if ph == h {
			pch = h + 1
			if h > 0 && g.r.Chance(30) {
				pch = h - 1
			}
		}
	case "wrong-round":
		pcr = r + 1 + g.r.Intn(2)
		if r > 0 && g.r.Chance(40) {
			pcr = r - 1
		}
	}
	for _, s := range order[:k] {
		x := In{K: "pc", H: pch, R: pcr, From: s, ID: id}
		if kind == "mixed" {
			x.ID = g.pickID()
			if g.r.Chance(15) {
				x.From = g.pickSender()
			}
			if g.r.Chance(15) {
				x.R = g.pickRound()
			}
			if g.r.Chance(10) {
				x.H = g.pickHeight(cur)
			}
		}
		in.Sync = append(in.Sync, x)
		if kind == "mixed" && g.r.Chance(15) {
			in.Sync = append(in.Sync, x) // duplicate
		}
	}
	g.lastSync = kind
	return in
}

// observe updates the generator's view from the actions of the instance
func (g *gen) observe(i In, acts []string) {
	if i.K == "start" && len(acts) > 0 {
		g.started = true
	}
	for _, a := range acts {
		tag, body, _ := strings.Cut(a, ":")
		f := strings.Split(body, ",")
		num := func(s string) int { n, _ := strconv.Atoi(s); return n }
		switch tag {
		case "st":
			g.sched = append(g.sched, In{K: "to", Step: num(f[0]), H: uint64(num(f[1])), R: num(f[2])})
			g.curR = num(f[2])
		case "bp":
			g.own = append(g.own, In{K: "prop", H: uint64(num(f[0])), R: num(f[1]), From: num(f[2]), VR: num(f[3]), Val: uint64(num(f[4]))})
			g.curR = num(f[1])
		case "bv", "bc":
			id := int64(-1)
			if f[3] != "-" {
				id = int64(num(f[3]))
			}
			k := "pv"
			if tag == "bc" {
				k = "pc"
			}
			g.own = append(g.own, In{K: k, H: uint64(num(f[0])), R: num(f[1]), From: num(f[2]), ID: id})
			g.curR = num(f[1])
		case "cm":
			g.started = false
			g.curR = 0
			g.sched = nil
		}
	}
}

func randomCase(r *hx.RNG) *Case {
	n := 4 + r.Intn(4)
	if r.Chance(10) {
		n = 1 + r.Intn(3)
	}
	c := &Case{Self: r.Intn(n), H0: uint64(r.Intn(3)), Dflt: 0}
	if r.Chance(5) {
		c.Dflt = 1
	}
	switch r.Intn(4) {
	case 0:
		c.M = 0
	case 1:
		c.M = 2
	default:
		c.M = 5
	}
	c.Invalid = []uint64{9}
	if r.Chance(30) {
		c.Invalid = append(c.Invalid, 3)
	}
	for i := 0; i < 3; i++ {
		c.Values = append(c.Values, uint64(1+r.Intn(8)))
	}
	if r.Chance(10) {
		c.Values[0] = 9
	}
	nb := 1 + r.Intn(3)
	for b := 0; b < nb; b++ {
		var blk Block
		weighted := r.Chance(50)
		for i := 0; i < n; i++ {
			p := uint64(1)
			if weighted {
				p = uint64(1 + r.Intn(4))
			}
			if r.Chance(3) {
				p = 0
			}
			blk.Pows = append(blk.Pows, p)
			blk.Total += p
		}
		if r.Chance(4) { // total that is not the sum (the code takes TotalVotingPower at face value)
			blk.Total = uint64(r.Intn(int(blk.Total) + 3))
		}
		off := r.Intn(n)
		for i := 0; i < n; i++ {
			blk.Props = append(blk.Props, (off+i)%n)
		}
		if r.Chance(25) {
			blk.Props[r.Intn(n)] = c.Self
		}
		c.Blocks = append(c.Blocks, blk)
	}
	return c
}

// runCase executes the inputs on a fresh instance + model. Returns index of the first mismatch (-1), detail.
func runCase(or *hx.Oracle, c *Case) (int, string, auditRes, *pair) {
	p := newPair(or, c, c.Self)
	for k, i := range c.Inputs {
		if _, d := p.feed(i); d != "" {
			return k, d, auditRes{}, p
		}
	}
	return -1, "", p.audit(), p
}

func shrink(or *hx.Oracle, c *Case, bad func(*Case) bool) *Case {
	cur := *c
	for changed := true; changed; {
		changed = false
		for k := len(cur.Inputs) - 1; k >= 0; k-- {
			t := cur
			t.Inputs = append(append([]In{}, cur.Inputs[:k]...), cur.Inputs[k+1:]...)
			if bad(&t) {
				cur = t
				changed = true
			}
		}
	}
	return &cur
}

// mismatchClass: step-mismatch:<input kind>; a ProcessSync call gets its own class sync:step-mismatch (returned
// actions) / sync:state-mismatch (internal state after the call)
func mismatchClass(d string) string {
	k := tagOf(d)
	if k == "sync" {
		if strings.Contains(d, "state after the call") {
			return "sync:state-mismatch"
		}
		return "sync:step-mismatch"
	}
	return "step-mismatch:" + k
}

func tagOf(d string) string {
	// class: kind of the input + first differing action tag
	i := strings.Index(d, "input \"")
	k := "?"
	if i >= 0 {
		k = strings.Fields(d[i+7:])[0]
	}
	return k
}

// auditCase feeds all inputs (model/implementation mismatches ignored) and evaluates the monitor on the
// implementation's trace.
func auditCase(or *hx.Oracle, c *Case) (auditRes, *pair) {
	p := newPair(or, c, c.Self)
	for _, i := range c.Inputs {
		p.feed(i)
	}
	return p.audit(), p
}

func auditBad(a auditRes) bool { return a.disc && (a.codes != "-" || !a.ndv) }

func reportMismatch(ctx *hx.Ctx, or *hx.Oracle, c *Case, idx int) {
	// is the sequence that exposed the mismatch (continued after a difference in the internal state only)
	// a failing input of the property itself?
	if a, _ := auditCase(or, c); auditBad(a) {
		cc := *c
		reportAudit(ctx, or, &cc, a)
	}
	c.Inputs = c.Inputs[:idx+1]
	small := shrink(or, c, func(t *Case) bool { k, _, _, _ := runCase(or, t); return k >= 0 })
	_, d, _, _ := runCase(or, small)
	ctx.Violation(mismatchClass(d), "model and implementation disagree: "+d, small, true)
}

// reportWal shrinks a case whose log replay failed (same class) and reports it
func reportWal(ctx *hx.Ctx, or *hx.Oracle, c *Case, w walRes) {
	small := shrink(or, c, func(t *Case) bool {
		k, _, _, p := runCase(or, t)
		return k < 0 && walCheck(nil, p).class == w.class
	})
	_, _, _, p := runCase(or, small)
	w2 := walCheck(nil, p)
	if w2.class != w.class {
		w2, small = w, c
	}
	ctx.Violation(w2.class, w2.detail+" ; live run: "+strings.Join(p.log, " ; "), small, w2.noInput)
}

func reportAudit(ctx *hx.Ctx, or *hx.Oracle, c *Case, a auditRes) {
	key := func(a auditRes) string { return fmt.Sprintf("%s/%v", a.codes, a.ndv) }
	want := key(a)
	small := shrink(or, c, func(t *Case) bool {
		b, _ := auditCase(or, t)
		return b.disc && key(b) == want
	})
	_, p := auditCase(or, small)
	ctx.Violation("local-safety:codes="+a.codes+":no_double_vote="+strconv.FormatBool(a.ndv),
		"the implementation's own trace fails the local safety monitor (1 vote order/double vote, 2 lock, 3 precommit without polka, 4 commit, 5 header): "+strings.Join(p.log, " ; "),
		small, false)
}

// ---------- threshold functions ----------
func checkThresholds(ctx *hx.Ctx, or *hx.Oracle, r *hx.RNG) {
	var ns []uint64
	for n := uint64(0); n <= 700; n++ {
		ns = append(ns, n)
	}
	for s := uint(3); s < 64; s++ {
		ns = append(ns, (uint64(1)<<s)-1, uint64(1)<<s, (uint64(1)<<s)+1, (uint64(1)<<s)+2)
	}
	ns = append(ns, ^uint64(0), ^uint64(0)-1, ^uint64(0)-2)
	extra := 600
	if ctx.Thorough() {
		extra = 20000
	}
	for i := 0; i < extra; i++ {
		ns = append(ns, r.U64()>>uint(r.Intn(64)))
	}
	three := big.NewInt(3)
	two := big.NewInt(2)
	for _, n := range ns {
		f := uint64(votecounter.VerifF(types.VotingPower(n)))
		q := uint64(votecounter.VerifQ(types.VotingPower(n)))
		rep := or.Ask("fq "+strconv.FormatUint(n, 16), 1)[0]
		want := strconv.FormatUint(f, 16) + " " + strconv.FormatUint(q, 16)
		inRange := n >= 1 && n < (uint64(1)<<63)
		ctx.Count(fmt.Sprintf("fq:%d", n), inRange)
		ctx.Hist["thresholds"]++
		if rep != want {
			ctx.Violation("thresholds:model-vs-code", fmt.Sprintf("N=%d: model f,q=%s code f,q=%s", n, rep, want), map[string]any{"n": n}, !inRange)
		}
		if inRange { // the arithmetic property itself, on the code's own values
			N, F, Q := new(big.Int).SetUint64(n), new(big.Int).SetUint64(f), new(big.Int).SetUint64(q)
			lhs := new(big.Int).Sub(new(big.Int).Mul(two, Q), N)
			if !(lhs.Cmp(F) > 0 && new(big.Int).Mul(three, F).Cmp(N) < 0) {
				ctx.Violation("thresholds:quorum-intersection", fmt.Sprintf("N=%d f=%d q=%d: need 2q-N>f and 3f<N", n, f, q), map[string]any{"n": n}, false)
			}
		}
	}
}

// ---------- the replayed hazard: a timeout processed before ProcessStart ----------
// (outside the driver's calling discipline; the model predicts the double vote, C12_discipline_needed)
func hazardCase() *Case {
	// Props.v hazard_ins: validator 2 prevotes id 1 in (0,0) before ProcessStart, precommits id 2 in round 1,
	// and after ProcessStart(0) prevotes nil in (0,0)
	return &Case{Self: 2, H0: 0, M: 0, Invalid: []uint64{9}, Values: []uint64{1}, Dflt: 0,
		Blocks: []Block{{Total: 4, Pows: []uint64{1, 1, 1, 1}, Props: []int{0, 1, 2, 3}}},
		Inputs: []In{
			{K: "prop", H: 0, R: 0, From: 0, VR: -1, Val: 1},
			{K: "pv", H: 0, R: 1, From: 0, ID: 2}, {K: "pv", H: 0, R: 1, From: 1, ID: 2}, {K: "pv", H: 0, R: 1, From: 3, ID: 2},
			{K: "prop", H: 0, R: 1, From: 1, VR: -1, Val: 2},
			{K: "to", Step: 2, H: 7, R: 0}, {K: "to", Step: 2, H: 0, R: 0}, {K: "start", R: 0},
		}}
}

// ---------- network simulation ----------
type netEv struct {
	to int
	in In
}

type simCfg struct {
	name  string
	pows  []uint64
	byz   []int
	H     int // heights to reach
	steps int
}

func runSim(ctx *hx.Ctx, ors []*hx.Oracle, r *hx.RNG, sc simCfg, idx int) {
	n := len(sc.pows)
	var total uint64
	for _, p := range sc.pows {
		total += p
	}
	props := make([]int, n)
	for i := range props {
		props[i] = i
	}
	isByz := map[int]bool{}
	for _, b := range sc.byz {
		isByz[b] = true
	}
	base := &Case{H0: 0, M: 0, Invalid: []uint64{9}, Dflt: 0,
		Blocks: []Block{{Total: total, Pows: sc.pows, Props: props}}}
	var correct []int
	pairs := map[int]*pair{}
	cases := map[int]*Case{}
	oi := 0
	for i := 0; i < n; i++ {
		if isByz[i] {
			continue
		}
		c := *base
		c.Self = i
		c.Values = []uint64{uint64(1 + i), uint64(1 + (i+3)%7)}
		cases[i] = &c
		pairs[i] = newPair(ors[oi], &c, i)
		oi++
		correct = append(correct, i)
	}
	var pend []netEv
	type dec struct {
		node int
		h    uint64
		id   uint64
	}
	var decs []dec
	var pool []In                 // every message sent so far (broadcasts of correct instances, messages of the Byzantine script)
	decProp := map[uint64]In{}    // height -> a decided proposal
	rounds := map[int]int{}
	failed := false
	softAt := map[int]int{}

	var deliver func(to int, in In)
	handle := func(to int, in In, acts []string) {
		for _, a := range acts {
			tag, body, _ := strings.Cut(a, ":")
			f := strings.Split(body, ",")
			num := func(s string) int { x, _ := strconv.Atoi(s); return x }
			var m *In
			switch tag {
			case "bp":
				m = &In{K: "prop", H: uint64(num(f[0])), R: num(f[1]), From: num(f[2]), VR: num(f[3]), Val: uint64(num(f[4]))}
			case "bv", "bc":
				id := int64(-1)
				if f[3] != "-" {
					id = int64(num(f[3]))
				}
				k := "pv"
				if tag == "bc" {
					k = "pc"
				}
				m = &In{K: k, H: uint64(num(f[0])), R: num(f[1]), From: num(f[2]), ID: id}
			case "st":
				pend = append(pend, netEv{to, In{K: "to", Step: num(f[0]), H: uint64(num(f[1])), R: num(f[2])}})
				rounds[to] = num(f[2])
			case "cm":
				decs = append(decs, dec{to, uint64(num(f[0])), vid(uint64(num(f[4])))})
				decProp[uint64(num(f[0]))] = In{K: "prop", H: uint64(num(f[0])), R: num(f[1]), From: num(f[2]), VR: num(f[3]), Val: uint64(num(f[4]))}
				rounds[to] = 0
				deliver(to, In{K: "start", R: 0}) // the driver starts the next height at once
			}
			if m != nil {
				pool = append(pool, *m)
				for _, o := range correct {
					if o != to {
						pend = append(pend, netEv{o, *m})
					}
				}
			}
		}
	}
	deliver = func(to int, in In) {
		if failed {
			return
		}
		p := pairs[to]
		cases[to].Inputs = append(cases[to].Inputs, in)
		acts, d := p.feed(in)
		ctx.Hist["sim:"+in.K]++
		if d != "" && p.soft {
			// internal state differs, actions agree: keep simulating (agreement / monitor may now fail), report at the end
			p.noDump = true
			softAt[to] = len(cases[to].Inputs) - 1
			d = ""
		}
		if d != "" {
			failed = true
			c := *cases[to]
			reportMismatch(ctx, p.or, &c, len(c.Inputs)-1)
			return
		}
		handle(to, in, acts)
	}
	for _, i := range correct {
		deliver(i, In{K: "start", R: 0})
	}
	maxH := func() uint64 {
		var m uint64
		for _, i := range correct {
			if h := uint64(pairs[i].sm.Height()); h > m {
				m = h
			}
		}
		return m
	}
	for step := 0; step < sc.steps && !failed && int(maxH()) < sc.H; step++ {
		// Byzantine script: conflicting proposals / votes, different ones to different peers
		if len(sc.byz) > 0 && r.Chance(35) {
			b := sc.byz[r.Intn(len(sc.byz))]
			to := correct[r.Intn(len(correct))]
			h := uint64(pairs[to].sm.Height())
			rd := rounds[to] + r.Intn(2)
			if r.Chance(10) {
				rd = r.Intn(4)
			}
			v := uint64(1 + r.Intn(7))
			switch r.Intn(3) {
			case 0:
				vr := -1
				if rd > 0 && r.Chance(50) {
					vr = r.Intn(rd)
				}
				pend = append(pend, netEv{to, In{K: "prop", H: h, R: rd, From: b, VR: vr, Val: v}})
			case 1:
				id := int64(vid(v))
				if r.Chance(20) {
					id = -1
				}
				pend = append(pend, netEv{to, In{K: "pv", H: h, R: rd, From: b, ID: id}})
			default:
				id := int64(vid(v))
				if r.Chance(20) {
					id = -1
				}
				pend = append(pend, netEv{to, In{K: "pc", H: h, R: rd, From: b, ID: id}})
			}
			pool = append(pool, pend[len(pend)-1].in)
			ctx.Hist["sim:byz-msg"]++
		}
		// catch-up by ProcessSync: a correct instance that has not decided a height another one decided is handed the
		// decided proposal and the precommits for it that were really sent (the caller hypothesis of C12_agreement_with_sync)
		if len(decProp) > 0 && r.Chance(6) {
			to := correct[r.Intn(len(correct))]
			h := uint64(pairs[to].sm.Height())
			if p, ok := decProp[h]; ok {
				in := In{K: "sync", Sync: []In{p}}
				for _, m := range pool {
					if m.K == "pc" && m.H == h && m.R == p.R && m.ID == int64(vid(p.Val)) {
						in.Sync = append(in.Sync, m)
					}
				}
				ctx.Hist["sim:sync-catch-up"]++
				deliver(to, in)
				if failed {
					return
				}
			}
		}
		if len(pend) == 0 {
			break
		}
		// scheduler: any pending event; messages preferred over timeouts; sometimes duplicate, sometimes drop
		k := r.Intn(len(pend))
		if pend[k].in.K == "to" && r.Chance(80) {
			k = r.Intn(len(pend))
		}
		ev := pend[k]
		switch x := r.Intn(100); {
		case x < 4: // lost (never for timeouts: they are local)
			if ev.in.K != "to" {
				pend = append(pend[:k], pend[k+1:]...)
				ctx.Hist["sim:lost"]++
				continue
			}
			pend = append(pend[:k], pend[k+1:]...)
		case x < 10: // duplicated: stays pending
			ctx.Hist["sim:dup"]++
		default:
			pend = append(pend[:k], pend[k+1:]...)
		}
		deliver(ev.to, ev.in)
	}
	if failed {
		return
	}
	defer func() {
		for _, i := range correct {
			if k, ok := softAt[i]; ok {
				c := *cases[i]
				reportMismatch(ctx, pairs[i].or, &c, k)
			}
		}
	}()
	// agreement on the decisions of the correct instances (the extracted predicate)
	parts := make([]string, len(decs))
	byH := map[uint64]uint64{}
	agree := true
	for i, d := range decs {
		parts[i] = fmt.Sprintf("%d:%d", d.h, d.id)
		if v, ok := byH[d.h]; ok && v != d.id {
			agree = false
		}
		byH[d.h] = d.id
	}
	rep := "1"
	if len(parts) > 0 {
		rep = ors[0].Ask("agree "+strings.Join(parts, ","), 1)[0]
	}
	ctx.Count(fmt.Sprintf("sim:%s:%d", sc.name, idx), len(decs) > 0)
	ctx.Hist["sim:decisions"] += len(decs)
	ctx.Hist["sim:runs"]++
	all := map[string]any{}
	for _, i := range correct {
		all[strconv.Itoa(i)] = cases[i]
	}
	if rep != "1" || !agree {
		ctx.Violation("agreement:two-correct-validators-decided-differently:"+sc.name,
			fmt.Sprintf("decisions (height:id) %v", parts), all, false)
	}
	for _, i := range correct {
		a := pairs[i].audit()
		if a.disc && (a.codes != "-" || !a.ndv) {
			c := *cases[i]
			reportAudit(ctx, pairs[i].or, &c, a)
		}
	}
	if idx == 0 {
		ctx.Sample(map[string]any{"sim": sc.name, "decisions": parts, "validator0_first_events": firstN(pairs[correct[0]].log, 12)})
	}
}

func firstN(l []string, n int) []string {
	if len(l) > n {
		return l[:n]
	}
	return l
}

func main() {
	ctx := hx.NewCtx("C12")
	or := hx.StartOracle(ctx.OraclePath)
	defer or.Close()
	rng := hx.NewRNG(ctx.Seed)

	if ctx.ReplayIn != "" {
		var c Case
		ctx.LoadReplay(&c)
		if len(c.Blocks) == 0 {
			hx.Fatalf("replay file holds no single-instance case (network replays list one case per validator)")
		}
		k, d, a, p := runCase(or, &c)
		fmt.Println(strings.Join(p.log, "\n"))
		if k >= 0 {
			if b, _ := auditCase(or, &c); auditBad(b) {
				ctx.Violation("local-safety:codes="+b.codes+":no_double_vote="+strconv.FormatBool(b.ndv), "replayed", &c, false)
			}
			ctx.Violation(mismatchClass(d), d, &c, true)
		} else if a.disc && (a.codes != "-" || !a.ndv) {
			ctx.Violation("local-safety:codes="+a.codes+":no_double_vote="+strconv.FormatBool(a.ndv), "replayed", &c, false)
		}
		if k < 0 {
			w := walCheck(ctx, p)
			fmt.Printf("log replay: %d entries, log discipline kept: %v, replayed instance in the same state with the same actions: %v\n", len(p.wal), w.disciplined, w.same)
			if w.class != "" {
				ctx.Violation(w.class, w.detail, &c, w.noInput)
			}
		}
		ctx.Finish("replay")
	}

	// 1. thresholds
	checkThresholds(ctx, or, rng.Fork(1))

	// 2. single instance vs model, disciplined and wild call sequences
	ncases, maxLen := 1500, 80
	if ctx.Thorough() {
		ncases, maxLen = 6000, 120
	}
	gr := rng.Fork(2)
	tags := map[string]int{}
	for n := 0; n < ncases; n++ {
		c := randomCase(gr)
		wild := n%4 == 3
		p := newPair(or, c, c.Self)
		g := &gen{r: gr.Fork(uint64(n)), c: c, n: len(c.Blocks[0].Pows), wild: wild, driver: n%4 == 1}
		for v := uint64(1); v <= 3; v++ {
			g.vals = append(g.vals, v+uint64(gr.Intn(3)))
		}
		if gr.Chance(30) {
			g.vals = append(g.vals, 9)
		}
		L := 10 + gr.Intn(maxLen)
		mism := -1
		seen := map[string]bool{}
		for k := 0; k < L; k++ {
			in := g.next(uint64(p.sm.Height()))
			c.Inputs = append(c.Inputs, in)
			g.sent = append(g.sent, in)
			acts, d := p.feed(in)
			ctx.Hist["in:"+in.K]++
			if in.K == "sync" {
				out := "no-action"
				for _, a := range acts {
					if strings.HasPrefix(a, "cm:") {
						out = "commit"
					} else if strings.HasPrefix(a, "ts:") && out != "commit" {
						out = "trigger-sync"
					} else if out == "no-action" {
						out = "actions"
					}
				}
				ctx.Hist["sync:"+g.lastSync+":"+out]++
			}
			for _, a := range acts {
				t, _, _ := strings.Cut(a, ":")
				seen[t] = true
				ctx.Hist["act:"+t]++
			}
			if d != "" && p.soft && mism < 0 {
				// same actions, different internal state: remember the place, stop comparing states and let the
				// case run on (the monitor below then searches this very history for a failing input)
				mism = k
				p.noDump = true
				ctx.Hist["state-only-mismatch"]++
			} else if d != "" {
				if mism < 0 {
					mism = k
				}
				break
			}
			g.observe(in, acts)
		}
		if mism >= 0 {
			reportMismatch(ctx, or, c, mism)
			continue
		}
		a := p.audit()
		var ts []string
		for t := range seen {
			if t == "bv" || t == "bc" || t == "bp" || t == "cm" || t == "ts" {
				ts = append(ts, t)
			}
		}
		sort.Strings(ts)
		key := strings.Join(ts, "+")
		tags[key]++
		ctx.Count(fmt.Sprintf("case:%d", n), len(ts) > 0)
		if a.disc {
			ctx.Hist["disciplined-cases"]++
			if a.codes != "-" || !a.ndv {
				reportAudit(ctx, or, c, a)
			}
		} else {
			ctx.Hist["undisciplined-cases"]++
			if a.codes != "-" {
				ctx.Hist["undisciplined-cases-failing-the-monitor"]++
			}
		}
		if n < 2 {
			ctx.Sample(map[string]any{"self": c.Self, "blocks": c.Blocks, "events": firstN(p.log, 10)})
		}
		// ProcessWAL: replay the log this run wrote into a second instance + second model
		w := walCheck(ctx, p)
		switch {
		case w.class != "":
			reportWal(ctx, or, c, w)
		case w.disciplined:
			ctx.Hist["wal-replay:log-disciplined-runs(same state required)"]++
			ctx.Count(fmt.Sprintf("walreplay:%d", n), len(p.wal) > 1)
		case w.same:
			ctx.Hist["wal-replay:undisciplined-runs-same-state-anyway"]++
			ctx.Hist["wal-replay:undisciplined:"+w.broke+":same-state-anyway"]++
		default:
			ctx.Hist["wal-replay:undisciplined-runs-different-state"]++
			ctx.Hist["wal-replay:undisciplined:"+w.broke+":different-state"]++
		}
		if g.driver {
			ctx.Hist[fmt.Sprintf("wal-replay:driver-like-cases:log-discipline-kept=%v", w.disciplined)]++
		}
		if n == 1 {
			ctx.Sample(map[string]any{"wal_replay_of_case": n, "log": firstN(p.wal, 12), "log_discipline_kept": w.disciplined, "same_state_and_actions": w.same})
		}
	}
	ctx.Extra["action_kind_sets"] = tags

	// 3. the hazard outside the calling discipline, replayed on the real code
	{
		hc := hazardCase()
		k, _, a, p := runCase(or, hc)
		ctx.Extra["hazard_timeout_before_start"] = map[string]any{
			"model_agrees_with_code": k < 0, "disciplined": a.disc, "monitor_codes": a.codes,
			"no_double_vote": a.ndv, "events": p.log}
		ctx.Count("hazard", true)
	}

	// 3b. the validator-list hypothesis of C12_agreement is needed (Props.v C12_validator_list_needed): with a
	// Validators implementation that gives every address power 1 (consensus/mock.go) senders outside the
	// validator list form quorums; two real instances fed by an equivocating proposer decide differently
	{
		mk := func(self int, val uint64) *Case {
			id := int64(val)
			return &Case{Self: self, H0: 0, M: 0, Invalid: []uint64{9}, Values: []uint64{7}, Dflt: 1,
				Blocks: []Block{{Total: 4, Pows: []uint64{1, 1, 1, 1}, Props: []int{0, 1, 2, 3}}},
				Inputs: []In{{K: "start", R: 0}, {K: "prop", H: 0, R: 0, From: 0, VR: -1, Val: val},
					{K: "pv", H: 0, R: 0, From: 100, ID: id}, {K: "pv", H: 0, R: 0, From: 101, ID: id},
					{K: "pc", H: 0, R: 0, From: 100, ID: id}, {K: "pc", H: 0, R: 0, From: 101, ID: id}}}
		}
		res := map[string]any{}
		var commits []string
		for i, cs := range []*Case{mk(1, 1), mk(2, 2)} {
			k, _, _, p := runCase(or, cs)
			last := p.log[len(p.log)-1]
			res[fmt.Sprintf("validator%d", i+1)] = p.log
			res[fmt.Sprintf("validator%d_model_agrees", i+1)] = k < 0
			if j := strings.Index(last, "cm:"); j >= 0 {
				commits = append(commits, last[j:])
			}
		}
		res["commits"] = commits
		ctx.Extra["hypothesis_needed_every_address_has_power"] = res
		ctx.Count("sybil", true)
	}

	// 4. network simulation
	sims := []simCfg{
		{name: "n4-equal-1byz", pows: []uint64{1, 1, 1, 1}, byz: []int{3}, H: 3, steps: 900},
		{name: "n4-equal-1byz-proposer0", pows: []uint64{1, 1, 1, 1}, byz: []int{0}, H: 3, steps: 900},
		{name: "n5-weighted-2byz", pows: []uint64{3, 2, 2, 1, 1}, byz: []int{3, 4}, H: 2, steps: 900},
		{name: "n4-nobyz", pows: []uint64{1, 1, 1, 1}, byz: nil, H: 3, steps: 700},
	}
	var ors []*hx.Oracle
	for i := 0; i < 4; i++ {
		o := hx.StartOracle(ctx.OraclePath)
		defer o.Close()
		ors = append(ors, o)
	}
	reps := 30
	if ctx.Thorough() {
		reps = 200
	}
	sr := rng.Fork(3)
	for i := 0; i < reps; i++ {
		for _, sc := range sims {
			runSim(ctx, ors, sr.Fork(uint64(i)), sc, i)
		}
	}

	ctx.Finish("thresholds f,q: model = code on 0..700, 2^k+-1, random uint64, and 2q-N>f, 3f<N on the code's values for 1<=N<2^63; " +
		"state machine: every returned action list + Height() + the whole internal state of real tendermint.New instances = extracted step / process_sync, on adaptive random/adversarial call sequences " +
		"(equivocation, other rounds/heights, duplicates, echo of own messages, weighted power, proposer and non-proposer, scheduled and arbitrary timeouts, ProcessSync with valid / insufficient / wrong-height / wrong-round / mixed precommit lists; 1/4 of the cases outside the driver's calling discipline, 1/4 with ProcessStart(0) first in every height); " +
		"ProcessWAL: the log every case wrote is replayed through ProcessWAL into a second real instance and a second model (process_wal), every call compared (actions + whole state), and on every log-disciplined run (wal_disciplined) the replayed instance must equal the live one up to st_sim and have returned the same actions; " +
		"local safety monitor (audit) evaluated on the implementation's trace of every disciplined case (live and replay instance); network simulation of real instances + Byzantine script + catch-up by ProcessSync from really sent messages, with agreement predicate; " +
		"non-trivial = the case made the instance broadcast, commit or trigger sync / the replayed log has more than one entry")
}
