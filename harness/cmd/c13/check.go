package main

import (
	"fmt"
	"os"
	"strings"

	"github.com/NethermindEth/juno/consensus/types"
	"verifharness/hx"
)

func typesHeight(h uint64) types.Height { return types.Height(h) }
func typesRound(r int) types.Round      { return types.Round(r) }

type runner struct {
	c      *hx.Ctx
	or     *hx.Oracle
	rng    *hx.RNG
	prevNS string
}

func fixedFeeder(ins []In) feeder {
	i := 0
	return func(*rec) *In {
		if i >= len(ins) {
			return nil
		}
		i++
		return &ins[i-1]
	}
}

func recording(f feeder, out *[]In) feeder {
	return func(r *rec) *In {
		in := f(r)
		if in != nil {
			*out = append(*out, *in)
		}
		return in
	}
}

func countCb(effs []string) uint64 {
	var n uint64
	for _, e := range effs {
		if strings.HasPrefix(e, "cb:") {
			n++
		}
	}
	return n
}

// which kind of conflict is it? (narrow class for known_findings.json)
func classifyConflict(self int, pre, post []string) (string, string) {
	type sv struct{ slot, v string }
	list := func(l []string, tag string) []sv {
		var out []sv
		for _, e := range l {
			if strings.HasPrefix(e, tag) {
				f := strings.Split(e[len(tag):], ",")
				out = append(out, sv{f[0] + "," + f[1], f[len(f)-1]})
			}
		}
		return out
	}
	for _, k := range []string{"bv:", "bc:"} {
		for _, a := range list(pre, k) {
			for _, b := range list(post, k) {
				if a.slot != b.slot || a.v == b.v {
					continue
				}
				what := fmt.Sprintf("%s (height,round)=(%s): before the crash id %s, after the restart id %s", k[:2], a.slot, a.v, b.v)
				// did this validator propose in that round before the crash, and propose something else after it?
				for _, p1 := range list(pre, "bp:") {
					for _, p2 := range list(post, "bp:") {
						if p1.slot == a.slot && p2.slot == a.slot && p1.v != p2.v {
							return "recovery:proposer-revotes-different-value",
								what + fmt.Sprintf("; own proposal for that round was value %s before and %s after (Value() asked again while replaying Start)", p1.v, p2.v)
						}
					}
				}
				return "recovery:conflicting-" + map[string]string{"bv:": "prevote", "bc:": "precommit"}[k] + "-after-restart", what
			}
		}
	}
	return "recovery:conflict-unclassified", ""
}

// how the previous life ended decides the name space of what is found in this one
func faultKind(l *Life, obs *lifeObs) string {
	if l.Fault == nil {
		return "recovery"
	}
	if l.Fault.Kind == "cancel" {
		return "shutdown"
	}
	if strings.HasPrefix(obs.failedOp(), "cb:") {
		return "listener-refuses"
	}
	return "wal-error"
}

func cleanStep(s stepObs) stepObs {
	c := stepObs{Label: s.Label}
	for _, e := range s.Effs {
		if !isMarker(e) {
			c.Effs = append(c.Effs, e)
		}
	}
	return c
}

// judge one life: model correspondence + the property predicates on the observed effects
func (x *runner) judge(sc *Scenario, idx int, obs *lifeObs, pre []string, nextH uint64) {
	l := &sc.Lives[idx]
	// ns: "recovery" unless this life, or the one it recovers from, ended through the regular return path
	ns := faultKind(l, obs)
	if ns == "recovery" && idx > 0 && sc.Lives[idx-1].Fault != nil {
		ns = x.prevNS
	}
	x.prevNS = ns
	lines := x.or.AskUntil(lifeLine(l), "end")
	sum := strings.Fields(lines[len(lines)-1])
	model := lines[:len(lines)-1]
	got := make([]string, len(obs.Steps))
	for i, s := range obs.Steps {
		got[i] = stepLine(s)
	}
	phase := "live"
	if idx > 0 {
		phase = "after-restart"
	}
	if l.CrashAt >= 0 {
		phase += ":killed"
	}
	if l.Fault != nil {
		phase += ":" + l.Fault.Kind
	}
	mismatch := ""
	if strings.Join(model, "\n") != strings.Join(got, "\n") {
		for i := 0; i < len(model) || i < len(got); i++ {
			m, g := "<none>", "<none>"
			if i < len(model) {
				m = model[i]
			}
			if i < len(got) {
				g = got[i]
			}
			if m != g {
				mismatch = fmt.Sprintf("life %d step %d: model [%s] driver [%s]", idx, i, m, g)
				break
			}
		}
	} else if l.Fault != nil {
		if sum[5] != fmt.Sprint(nextH) {
			mismatch = fmt.Sprintf("life %d resume height: model %s harness %d", idx, sum[5], nextH)
		}
	} else if l.CrashAt < 0 {
		if sum[1] != fmt.Sprint(obs.Height) || sum[3] != fmt.Sprint(l.Base+obs.Calls) {
			mismatch = fmt.Sprintf("life %d end: model height/calls %s/%s driver %d/%d", idx, sum[1], sum[3], obs.Height, l.Base+obs.Calls)
		}
	} else if sum[5] != fmt.Sprint(nextH) {
		mismatch = fmt.Sprintf("life %d resume height: model %s harness %d", idx, sum[5], nextH)
	}
	// predicates on what the implementation did
	post := make([]string, len(got))
	for i, s := range obs.Steps {
		post[i] = stepLine(cleanStep(s))
	}
	v := strings.Fields(x.or.Ask(fmt.Sprintf("check %d ; %s ; %s", sc.Case.H0, strings.Join(pre, " "), strings.Join(post, " | ")), 1)[0])
	bad := false
	if v[0] != "1" {
		bad = true
		class, what := classifyConflict(sc.Case.Self, pre, obs.effects())
		if class != "recovery:proposer-revotes-different-value" {
			class = ns + strings.TrimPrefix(class, "recovery")
		}
		x.c.Hist["verdict:conflict"]++
		x.c.Violation(class, what, sc, false)
	}
	if v[1] != "1" {
		bad = true
		x.c.Violation(ns+":resume-height", fmt.Sprintf("life %d: commit callbacks after the restart are not consecutive from the height after the last completed commit", idx), sc, false)
	}
	if v[2] != "1" {
		bad = true
		x.c.Violation(ns+":visible-before-flush:"+phase, fmt.Sprintf("life %d: a broadcast / commit callback happened with unflushed log appends before it", idx), sc, false)
	}
	if v[3] != "1" && staleTimeoutCommit(obs) != "" {
		bad = true
		x.c.Hist["verdict:stale-timeout-commit"]++
		x.c.Violation("recovery:stale-timeout-commits-unlogged", staleTimeoutCommit(obs), sc, false)
	} else if v[3] != "1" {
		bad = true
		x.c.Violation(ns+":visible-without-logged-input:"+phase, fmt.Sprintf("life %d: a step made effects visible without first appending its own input", idx), sc, false)
	}
	if l.Fault != nil || (idx > 0 && sc.Lives[idx-1].Fault != nil) {
		if x.judgeLog(sc, idx, obs, sum, nextH, ns) {
			bad = true
		}
	}
	if mismatch != "" {
		if ns == "recovery" {
			x.c.Violation("model-vs-driver:trace:"+phase, mismatch, sc, !bad)
		} else {
			x.c.Violation(ns+":trace:"+phase, mismatch, sc, !bad)
		}
	}
	if obs.RunErr != "" && !obs.Crashed && !(obs.Stopped && expectedRunErr(l.Fault, obs)) {
		x.c.Violation("driver:run-error", obs.RunErr, sc, true)
	}
	if l.Fault != nil && len(sum) >= 7 {
		x.c.Hist["hypothesis:fault-life-plain="+sum[6]]++
	}
	if len(sum) >= 8 && l.Fault == nil {
		if sum[6] != "-" && l.CrashAt < 0 {
			x.c.Hist["hypothesis:plain_run="+sum[6]]++
		}
		if sum[7] != "-" {
			x.c.Hist["hypothesis:life_disc="+sum[7]]++
		}
		if len(sum) >= 10 && sum[9] != "-" {
			x.c.Hist["hypothesis:replay_quiet="+sum[9]]++
		}
		if len(sum) >= 9 && sum[8] != "-" {
			x.c.Hist["hypothesis:restarted-life-plain(live_plain)="+sum[8]]++
		}
	}
	x.c.Hist["life:"+phase]++
	x.c.Hist["trigger_sync_hidden"] += obs.TrigSync
	replayed := 0
	curH, started := l.H, false
	for _, s := range obs.Steps {
		if strings.HasPrefix(s.Label, "wal ") {
			replayed++
			if strings.HasPrefix(s.Label, "wal ws:") {
				started = true
			} else if !started {
				x.c.Hist["replay:entry-before-start"]++
				if strings.HasPrefix(s.Label, "wal wt:") {
					x.c.Hist["replay:timeout-before-start"]++
				}
			}
		}
		for _, e := range s.Effs {
			if strings.HasPrefix(e, "ws:") && e != fmt.Sprintf("ws:%d", curH) {
				x.c.Hist["start-entry-carries-next-height"]++
			}
			if strings.HasPrefix(e, "cb:") {
				curH++
				started = false
				if strings.HasPrefix(s.Label, "wal ") {
					x.c.Hist["replay:commit-during-replay"]++
				}
			}
		}
	}
	if idx > 0 {
		x.c.Hist[fmt.Sprintf("replayed_entries:%s", bucket(replayed))]++
	}
	x.c.Count(fmt.Sprintf("%s|%d|%s", sc.Case.newLine(), idx, lifeLine(l)), l.CrashAt >= 0 || replayed > 0)
}

// a life with a Fault script returns the injected error (or the context's) and nothing else
func expectedRunErr(f *Fault, obs *lifeObs) bool {
	e := obs.RunErr
	for _, ok := range []string{errInjected.Error(), "commit listener failed", "context canceled", "flushing WAL: ", "writing WAL: ", "deleting WAL messages during commit: ", "\n"} {
		e = strings.ReplaceAll(e, ok, "")
	}
	return strings.TrimSpace(e) == ""
}

// judgeLog: the log directory a life left when it returned through Close (and, when recorded, the directory at
// every state machine call) against the model's, and the predicates about the log on the implementation's
// own observations.  Reports true if a predicate failed.
func (x *runner) judgeLog(sc *Scenario, idx int, obs *lifeObs, sum []string, nextH uint64, ns string) bool {
	l := &sc.Lives[idx]
	bad := false
	effs := obs.effects()
	if l.Fault != nil {
		x.c.Hist["fault:"+l.Fault.Kind+":"+opKind(obs.failedOp())]++
		if len(sum) >= 12 {
			x.c.Hist["hypothesis:stop_ok="+sum[9]]++
			if sum[9] == "0" && os.Getenv("C13DBG") != "" {
				fmt.Fprintln(os.Stderr, "stop_ok=0:", lifeLine(l), strings.Join(effs, " "))
			}
			if sum[10] != "1" {
				x.c.Violation(ns+":script-does-not-fit", fmt.Sprintf("life %d: the operation number %d of the model's life is not a store call / commit callback", idx, l.Fault.At), sc, true)
			}
			if len(sum) >= 13 && sum[12] != "-" {
				x.c.Hist["theorem:stop-restart-same-state="+sum[12]]++
				if sum[12] != "1" {
					x.c.Violation("model-contradicts-theorem:stop-restart-same-state", fmt.Sprintf("life %d", idx), sc, true)
				}
			}
		}
	}
	for _, sd := range obs.StepDirs {
		want := strings.Fields(x.or.Ask(fmt.Sprintf("diskat %d", sd.NEff), 1)[0])
		got := readLog(sd.Dir)
		x.c.Hist["durable-log-compared:at-call"]++
		if strings.Join(want[1:], " ") != strings.Join(got, " ") {
			x.c.Violation(ns+":durable-log-at-call", fmt.Sprintf("life %d after %d effects: model log [%s] driver log [%s]", idx, sd.NEff, strings.Join(want[1:], " "), strings.Join(got, " ")), sc, true)
		}
	}
	if obs.Snapshot == "" || l.Fault == nil {
		return bad
	}
	want := strings.Fields(x.or.Ask("disk", 1)[0])
	got := readLog(obs.Snapshot)
	x.c.Hist["durable-log-compared:at-end"]++
	logMismatch := ""
	if strings.Join(want[1:], " ") != strings.Join(got, " ") {
		logMismatch = fmt.Sprintf("life %d (%s): model log [%s] driver log [%s]", idx, l.Fault, strings.Join(want[1:], " "), strings.Join(got, " "))
	}
	// the predicates, on the driver's effects and on what its directory holds
	v := strings.Fields(x.or.Ask(fmt.Sprintf("covers %d ; %s ; %s", nextH-1, strings.Join(effs, " "), strings.Join(got, " ")), 1)[0])
	if v[0] != "1" {
		bad = true
		what := "log-misses-visible-input"
		if fo := obs.failedOp(); strings.HasPrefix(fo, "cb:") && !strings.Contains(strings.Join(effs, " "), fo) {
			what = "log-pruned-for-incomplete-commit"
		}
		x.c.Violation(ns+":"+what, fmt.Sprintf("life %d (%s): an entry whose effects were made visible, of a height above the last completed commit (%d), is not in the log directory [%s] after [%s]", idx, l.Fault, nextH-1, strings.Join(got, " "), strings.Join(effs, " ")), sc, false)
	}
	if v[1] != "1" {
		bad = true
		x.c.Violation(ns+":prune-without-completed-commit", fmt.Sprintf("life %d (%s): DeleteWALEntries not right after a commit callback of that height that returned true: [%s]", idx, l.Fault, strings.Join(effs, " ")), sc, false)
	}
	if v[2] != "1" {
		bad = true
		x.c.Violation(ns+":pending-when-visible", fmt.Sprintf("life %d (%s): a broadcast / commit callback with appended or pruned records not flushed: [%s]", idx, l.Fault, strings.Join(effs, " ")), sc, false)
	}
	if logMismatch != "" {
		x.c.Violation(ns+":durable-log", logMismatch, sc, !bad)
	}
	return bad
}

func opKind(op string) string {
	switch {
	case op == "":
		return "none"
	case op == "fl":
		return "Flush"
	case strings.HasPrefix(op, "cb:"):
		return "OnCommit"
	case strings.HasPrefix(op, "pr:"):
		return "DeleteWALEntries"
	}
	return "SetWALEntry"
}

// a timeout that matches nothing (stale) still runs processLoop; if a commit was pending (quorum of precommits
// completed by the validator's own precommit while the loop was looking at another round) the commit
// callback runs although nothing of this call was logged.  Returns a description, "" if this is not the case.
func staleTimeoutCommit(obs *lifeObs) string {
	for _, s := range obs.Steps {
		if !strings.HasPrefix(s.Label, "to ") || len(s.Effs) == 0 || strings.HasPrefix(s.Effs[0], "wt:") {
			continue
		}
		for _, e := range s.Effs {
			if strings.HasPrefix(e, "cb:") {
				return "stale timeout [" + s.Label + "] => [" + strings.Join(s.Effs, " ") + "]: the commit callback runs in a call whose input is not logged"
			}
		}
	}
	return ""
}

func bucket(n int) string {
	switch {
	case n == 0:
		return "0"
	case n <= 3:
		return "1-3"
	case n <= 8:
		return "4-8"
	}
	return "9+"
}

// runFixed runs a fully specified scenario (scripted cases, replays)
func (x *runner) runFixed(sc *Scenario) []*lifeObs {
	x.or.Ask(sc.Case.newLine()+"\ncheck 1 ; ; ", 1)
	dir := newDir()
	var pre []string
	var all []*lifeObs
	for i := range sc.Lives {
		l := &sc.Lives[i]
		obs := runLifeF(&sc.Case, dir, l.H, l.Base, l.CrashAt, l.Fault, l.Fault != nil, fixedFeeder(l.Ins))
		nextH := l.H + countCb(obs.effects())
		x.judge(sc, i, obs, pre, nextH)
		pre = append(pre, obs.effects()...)
		all = append(all, obs)
		if obs.Snapshot == "" {
			break
		}
		dir = obs.Snapshot
	}
	return all
}
