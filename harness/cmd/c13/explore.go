package main

import (
	"fmt"
	"os"
	"strings"

	"verifharness/hx"
)

func randomCase(rng *hx.RNG) Case {
	n := 4
	if rng.Chance(25) {
		n = 3 + rng.Intn(3) // 3..5
	}
	pows := make([]uint64, n)
	var total uint64
	for i := range pows {
		pows[i] = 1
		if rng.Chance(15) {
			pows[i] = 2
		}
		total += pows[i]
	}
	self := rng.Intn(n)
	props := make([]int, 2+rng.Intn(4))
	for i := range props {
		props[i] = rng.Intn(n)
	}
	if rng.Chance(45) {
		props[0] = self // proposer of round 0: the role the candidate needs
	}
	if rng.Chance(20) && len(props) > 1 {
		props[1] = self
	}
	var values []uint64
	if rng.Chance(35) {
		values = []uint64{500} // a reproducible application
	} else {
		for i := 0; i < 7; i++ {
			values = append(values, 500+uint64(rng.Intn(4)))
		}
	}
	c := Case{Self: self, H0: 1 + uint64(rng.Intn(4)), Values: values, Dflt: 0,
		Blocks: []Block{{Total: total, Pows: pows, Props: props}}}
	if rng.Chance(20) {
		c.M = 5
	}
	if rng.Chance(30) {
		c.Invalid = []uint64{c.H0*10 + 1, 501}
	}
	return c
}

func nextEffectKind(ref *lifeObs, k int) string {
	effs := ref.effects()
	if k >= len(effs) {
		return "end"
	}
	e := effs[k]
	switch {
	case e == "fl":
		return "flush"
	case strings.HasPrefix(e, "w"):
		return "append"
	case strings.HasPrefix(e, "b"):
		return "broadcast"
	case strings.HasPrefix(e, "st"):
		return "schedule"
	case strings.HasPrefix(e, "cb"):
		return "commit-callback"
	case strings.HasPrefix(e, "pr"):
		return "prune"
	}
	return "?"
}

// explore: one random environment; a reference life driven by the world; then the same life killed at
// many effect boundaries, each followed by a restart on the copied log directory (sometimes killed again).
func (x *runner) explore(maxPoints, maxFaults int) {
	cs := randomCase(x.rng)
	w := newWorld(&cs, x.rng.Fork(1))
	w.budget = 8 + x.rng.Intn(18)
	var ins0 []In
	ref := runLife(&cs, newDir(), cs.H0, 0, -1, recording(w.next, &ins0))
	ins0 = ins0[:ref.Fed]
	sc0 := &Scenario{Case: cs, Lives: []Life{{H: cs.H0, Base: 0, Ins: ins0, CrashAt: -1}}}
	x.or.Ask(cs.newLine()+"\ncheck 1 ; ; ", 1)
	n0 := x.c.NViolations()
	x.judge(sc0, 0, ref, nil, 0)
	x.c.Hist[fmt.Sprintf("ref:heights_committed:%d", countCb(ref.effects()))]++
	if x.c.NViolations() > n0 {
		return
	}
	T := ref.NEff
	ks := make([]int, 0, T+1)
	for k := 0; k <= T; k++ {
		ks = append(ks, k)
	}
	for len(ks) > maxPoints {
		i := x.rng.Intn(len(ks))
		ks = append(ks[:i], ks[i+1:]...)
	}
	type ending struct {
		k int
		f *Fault
	}
	var ends []ending
	for _, k := range ks {
		ends = append(ends, ending{k, nil})
	}
	// the regular ways out: a failing store call / refusing listener, a cancelled context
	for i := 0; i < maxFaults; i++ {
		f := &Fault{Kind: "fail", At: x.rng.Intn(T + 1), Performed: x.rng.Chance(25), CloseOK: x.rng.Chance(70)}
		if x.rng.Chance(40) {
			f.Kind, f.Performed = "cancel", false
			if x.rng.Chance(15) {
				f.At = T + 5 // shut down at the very end
			}
		} else if x.rng.Chance(30) {
			// aim at the commit callback / the prune after it, when the life has one
			var at []int
			for j, e := range ref.effects() {
				if strings.HasPrefix(e, "cb:") || strings.HasPrefix(e, "pr:") {
					at = append(at, j)
				}
			}
			if len(at) > 0 {
				f.At = at[x.rng.Intn(len(at))]
			}
		}
		ends = append(ends, ending{-1, f})
	}
	for _, en := range ends {
		k := en.k
		if en.f == nil {
			x.c.Hist["kill-before:"+nextEffectKind(ref, k)]++
		}
		sc := &Scenario{Case: cs, Lives: []Life{{H: cs.H0, Base: 0, Ins: ins0, CrashAt: k, Fault: en.f}}}
		x.or.Ask(cs.newLine()+"\ncheck 1 ; ; ", 1)
		o0 := runLifeF(&cs, newDir(), cs.H0, 0, k, en.f, en.f != nil && x.rng.Chance(25), fixedFeeder(ins0))
		h1 := cs.H0 + countCb(o0.effects())
		sc.Lives[0].Ins = ins0[:o0.Fed]
		// the model must see all inputs that could matter up to the kill; it stops printing at k effects
		x.judge(sc, 0, o0, nil, h1)
		if o0.Snapshot == "" {
			x.c.Violation(faultKind(&sc.Lives[0], o0)+":no-close", "driver.Run returned without closing the store", sc, true)
			continue
		}
		pre := o0.effects()
		// restart
		w2 := newWorld(&cs, x.rng.Fork(uint64(k+7*len(pre))))
		for _, m := range ins0[:o0.Fed] {
			if m.K != "to" {
				w2.sent = append(w2.sent, m)
			}
		}
		w2.digest(&rec{steps: []stepObs{{Effs: pre}}})
		w2.restart(h1, 4+x.rng.Intn(12))
		k2 := -1
		var f2 *Fault
		if x.rng.Chance(25) {
			k2 = x.rng.Intn(14)
		} else if x.rng.Chance(20) {
			f2 = &Fault{Kind: "fail", At: x.rng.Intn(14), Performed: x.rng.Chance(25), CloseOK: x.rng.Chance(70)}
			if x.rng.Chance(50) {
				f2.Kind, f2.Performed = "cancel", false
			}
		}
		var ins1 []In
		o1 := runLifeF(&cs, o0.Snapshot, h1, 1000, k2, f2, f2 != nil && x.rng.Chance(25), recording(w2.next, &ins1))
		sc.Lives = append(sc.Lives, Life{H: h1, Base: 1000, Ins: ins1[:o1.Fed], CrashAt: k2, Fault: f2})
		h2 := h1 + countCb(o1.effects())
		x.judge(sc, 1, o1, pre, h2)
		if (k2 >= 0 || f2 != nil) && o1.Snapshot != "" {
			pre = append(pre, o1.effects()...)
			w2.seen = 0
			w2.digest(&rec{steps: []stepObs{{Effs: o1.effects()}}})
			w2.restart(h2, 3+x.rng.Intn(8))
			var ins2 []In
			o2 := runLife(&cs, o1.Snapshot, h2, 2000, -1, recording(w2.next, &ins2))
			sc.Lives = append(sc.Lives, Life{H: h2, Base: 2000, Ins: ins2[:o2.Fed], CrashAt: -1})
			x.judge(sc, 2, o2, pre, 0)
			if f2 != nil || en.f != nil {
				x.c.Hist["double-ending-with-fault"]++
			} else {
				x.c.Hist["double-kill"]++
			}
		}
		if len(x.c.Samples) < 3 && k > 3 && len(sc.Lives[1].Ins) > 0 {
			x.c.Sample(map[string]any{"case": cs.newLine(), "life0": lifeLine(&sc.Lives[0]), "life1": lifeLine(&sc.Lives[1]),
				"pre_effects": strings.Join(pre, " "), "after_restart": func() []string {
					var l []string
					for _, s := range o1.Steps {
						l = append(l, stepLine(s))
					}
					return l
				}()})
		}
	}
	os.RemoveAll(scratch)
	hx.Must(os.MkdirAll(scratch, 0o755))
}

// the candidate of DESIGN.md section 8 item 6, as a script: proposer of round 0, killed after its prevote,
// the application answers Value() differently after the restart.
func candidate(values []uint64, k int, base int) *Scenario {
	return &Scenario{
		Case: Case{Self: 0, H0: 1, Values: values, Blocks: []Block{{Total: 4, Pows: []uint64{1, 1, 1, 1}, Props: []int{0, 1, 2, 3}}}},
		Lives: []Life{{H: 1, Base: 0, CrashAt: k}, {H: 1, Base: base, CrashAt: -1}},
		Note: "proposer of (1,0): start => ws:1 fl bp fl bv; killed after k effects; restarted on the copied log",
	}
}

// second scripted case: validator 3 of 4, round 1 proposal re-proposes value 11 with valid round 0; the last
// round-0 prevote arrives late, the validator prevotes, precommits (its precommit completes the quorum) but
// the loop only looks at the proposal of round 0; a stale propose timeout then triggers the commit.
func staleTimeoutCase() *Scenario {
	pv := func(h uint64, r, from int, id int64) In { return In{K: "pv", H: h, R: r, From: from, ID: id} }
	pc := func(h uint64, r, from int, id int64) In { return In{K: "pc", H: h, R: r, From: from, ID: id} }
	return &Scenario{
		Case: Case{Self: 3, H0: 1, Values: []uint64{7}, Blocks: []Block{{Total: 4, Pows: []uint64{1, 1, 1, 1}, Props: []int{0, 1, 2, 3}}}},
		Lives: []Life{{H: 1, Base: 0, CrashAt: -1, Ins: []In{
			{K: "to", Step: 0, H: 1, R: 0}, pv(1, 0, 0, 11), pv(1, 0, 1, 11),
			pc(1, 0, 0, -1), pc(1, 0, 1, -1), pc(1, 0, 2, -1), {K: "to", Step: 2, H: 1, R: 0},
			{K: "prop", H: 1, R: 1, From: 1, VR: 0, Val: 11}, pv(1, 1, 0, 11), pv(1, 1, 1, 11),
			pc(1, 1, 0, 11), pc(1, 1, 1, 11), pv(1, 0, 2, 11), {K: "to", Step: 0, H: 1, R: 1}}}},
		Note: "the last input is a stale propose timeout of round 1; it is not logged, yet its call runs the commit callback",
	}
}

func fallibleEff(e string) bool {
	return e == "fl" || strings.HasPrefix(e, "w") || strings.HasPrefix(e, "pr:") || strings.HasPrefix(e, "cb:")
}

// third scripted case: validator 0 proposes 7 at (1,0), everybody votes for it, height 1 commits, height 2 starts.
func commitCase() (Case, []In) {
	pv := func(h uint64, r, from int, id int64) In { return In{K: "pv", H: h, R: r, From: from, ID: id} }
	pc := func(h uint64, r, from int, id int64) In { return In{K: "pc", H: h, R: r, From: from, ID: id} }
	return Case{Self: 0, H0: 1, Values: []uint64{7}, Blocks: []Block{{Total: 4, Pows: []uint64{1, 1, 1, 1}, Props: []int{0, 1, 2, 3}}}},
		[]In{pv(1, 0, 1, 7), pv(1, 0, 2, 7), pv(1, 0, 3, 7), pc(1, 0, 1, 7), pc(1, 0, 2, 7), pc(1, 0, 3, 7), pv(2, 0, 0, -1), {K: "to", Step: 0, H: 2, R: 0}}
}

// every way out of the committing life: each store call / the commit callback fails (performed or not, Close's
// flush succeeding or not), the context is cancelled at every point; then a restart on what was left.
func (x *runner) scriptedFaults() {
	cs, ins := commitCase()
	ref := runLife(&cs, newDir(), cs.H0, 0, -1, fixedFeeder(ins))
	effs := ref.effects()
	var faults []Fault
	for k := 0; k <= len(effs); k++ {
		for _, c := range []bool{true, false} {
			faults = append(faults, Fault{Kind: "cancel", At: k, CloseOK: c})
			if k < len(effs) && fallibleEff(effs[k]) {
				faults = append(faults, Fault{Kind: "fail", At: k, CloseOK: c}, Fault{Kind: "fail", At: k, Performed: true, CloseOK: c})
			}
		}
	}
	for i := range faults {
		f := faults[i]
		sc := &Scenario{Case: cs, Lives: []Life{{H: cs.H0, Base: 0, Ins: ins, CrashAt: -1, Fault: &f}},
			Note: "proposer of (1,0), height 1 commits; the life ends through the regular return path of driver.Run; restarted on what it left"}
		x.or.Ask(cs.newLine()+"\ncheck 1 ; ; ", 1)
		o0 := runLifeF(&cs, newDir(), cs.H0, 0, -1, &f, true, fixedFeeder(ins))
		sc.Lives[0].Ins = ins[:o0.Fed]
		h1 := cs.H0 + countCb(o0.effects())
		x.judge(sc, 0, o0, nil, h1)
		if o0.Snapshot == "" {
			x.c.Violation(faultKind(&sc.Lives[0], o0)+":no-close", "driver.Run returned without closing the store", sc, true)
			continue
		}
		sc.Lives = append(sc.Lives, Life{H: h1, Base: 1, Ins: ins, CrashAt: -1})
		o1 := runLife(&cs, o0.Snapshot, h1, 1, -1, fixedFeeder(ins))
		sc.Lives[1].Ins = ins[:o1.Fed]
		x.judge(sc, 1, o1, o0.effects(), 0)
		x.c.Hist["scripted:fault:"+f.Kind]++
	}
	os.RemoveAll(scratch)
	hx.Must(os.MkdirAll(scratch, 0o755))
}

func main() {
	c := hx.NewCtx("C13")
	scratch = hx.TempDir("c13")
	defer os.RemoveAll(scratch)
	x := &runner{c: c, or: hx.StartOracle(c.OraclePath), rng: hx.NewRNG(c.Seed)}
	if c.ReplayIn != "" {
		var sc Scenario
		c.LoadReplay(&sc)
		x.runFixed(&sc)
		os.RemoveAll(scratch)
		c.Finish("replay")
	}
	// scripted: a reproducible application first (must be clean at every kill point), then the candidate
	for k := 0; k <= 5; k++ {
		x.runFixed(candidate([]uint64{7}, k, 1))
		c.Hist["scripted:reproducible-app"]++
	}
	for k := 5; k >= 0; k-- {
		x.runFixed(candidate([]uint64{7, 8}, k, 1))
		c.Hist["scripted:proposer-candidate"]++
	}
	x.runFixed(staleTimeoutCase())
	c.Hist["scripted:stale-timeout"]++
	x.scriptedFaults()
	nScen, maxPoints, maxFaults := 260, 22, 4
	if c.Thorough() {
		nScen, maxPoints, maxFaults = 4000, 90, 20
	}
	for i := 0; i < nScen && c.NViolations() < 6; i++ {
		x.explore(maxPoints, maxFaults)
	}
	c.Extra["scenarios"] = nScen
	os.RemoveAll(scratch)
	c.Finish("for every kill point and for every way out through driver.Run's regular return path (failing SetWALEntry / Flush / DeleteWALEntries, refusing commit listener, cancelled context; Close's flush succeeding or not): driver trace == extracted model trace (all lives), log directory read back == the model's durable log (at the end of the life, sampled: at every state machine call), and the extracted predicates no_conflict / consecutive commits from resume height / flush_before_visible / logged_first / log_covers_visible / prunes_follow_cb / clean_when_visible hold on the driver's observed effects and log")
}
