// C13 correspondence: the real consensus/driver.Driver (real tendermint state machine, real WAL store on
// tmpfs directories) is run, killed at an effect boundary chosen through counting wrappers around the WAL
// store / broadcasters / commit listener / timeout function, restarted on a copy of the log directory, and
// compared step by step with the extracted Coq model (C13.Model.lifetime / crash_at).  The property
// predicates (no conflicting vote after recovery, resume height, flush-before-visible, logged-first) are
// the extracted boolean functions, evaluated by the oracle on the implementation's observed effects.
package main

import (
	"fmt"
	"strconv"
	"strings"

	"github.com/NethermindEth/juno/consensus/p2p"
	"github.com/NethermindEth/juno/consensus/tendermint"
	"github.com/NethermindEth/juno/consensus/types"
	"github.com/NethermindEth/juno/consensus/types/actions"
	"github.com/NethermindEth/juno/consensus/types/wal"
	"github.com/NethermindEth/juno/consensus/walstore"
	"github.com/NethermindEth/juno/db"
)

// ---------- instantiation of the generic consensus types ----------
type Addr [4]uint64
type Hash [4]uint64
type Val [4]uint64 // the WAL codec only accepts [4]uint64-shaped values

var curM uint64 // value id = value mod curM (0: identity)

func vid(v uint64) uint64 {
	if curM == 0 {
		return v
	}
	return v % curM
}
func (v Val) Hash() Hash { return Hash{vid(v[0])} }

type (
	Proposal  = types.Proposal[Val, Hash, Addr]
	Prevote   = types.Prevote[Hash, Addr]
	Precommit = types.Precommit[Hash, Addr]
	Action    = actions.Action[Val, Hash, Addr]
	SM        = tendermint.StateMachine[Val, Hash, Addr]
	Store     = walstore.TendermintWALStore[Val, Hash, Addr]
	Entry     = wal.Entry[Val, Hash, Addr]
	Bcasters  = p2p.Broadcasters[Val, Hash, Addr]
	Listeners = p2p.Listeners[Val, Hash, Addr]
)

type Block struct {
	Total uint64   `json:"total"`
	Pows  []uint64 `json:"pows"`
	Props []int    `json:"props"`
}

// In is one input handed to the driver (a message on a listener channel or an expired timeout).
type In struct {
	K    string `json:"k"` // prop | pv | pc | to
	H    uint64 `json:"h"`
	R    int    `json:"r"`
	From int    `json:"from,omitempty"`
	VR   int    `json:"vr,omitempty"`
	Val  uint64 `json:"val,omitempty"`
	ID   int64  `json:"id,omitempty"` // -1 = nil
	Step int    `json:"step,omitempty"`
}

func (i In) String() string {
	switch i.K {
	case "prop":
		return fmt.Sprintf("prop %d %d %d %d %d", i.H, i.R, i.From, i.VR, i.Val)
	case "pv", "pc":
		id := "-"
		if i.ID >= 0 {
			id = strconv.FormatInt(i.ID, 10)
		}
		return fmt.Sprintf("%s %d %d %d %s", i.K, i.H, i.R, i.From, id)
	case "to":
		return fmt.Sprintf("to %d %d %d", i.Step, i.H, i.R)
	}
	panic("input kind " + i.K)
}

// Case: the validator's environment (as in C12) + the application's Value() script.
type Case struct {
	Self    int      `json:"self"`
	H0      uint64   `json:"h0"`
	M       uint64   `json:"m"`
	Invalid []uint64 `json:"invalid"`
	Values  []uint64 `json:"values"` // Value() after n earlier calls = Values[n mod len]
	Dflt    uint64   `json:"dflt"`
	Blocks  []Block  `json:"blocks"`
}

// Fault: how a life ends through the regular return path of driver.Run (deferred Close) instead of a kill.
type Fault struct {
	Kind      string `json:"kind"`      // fail: the first store call / commit callback at or after effect number At reports failure; cancel: context cancelled when At effects are done
	At        int    `json:"at"`
	Performed bool   `json:"performed"` // fail: the operation did its work and reported failure nevertheless
	CloseOK   bool   `json:"close_ok"`  // the flush inside the deferred Close succeeds
}

func (f *Fault) String() string {
	b := func(x bool) int {
		if x {
			return 1
		}
		return 0
	}
	if f.Kind == "fail" {
		return fmt.Sprintf("fail:%d:%d:%d", f.At, b(f.Performed), b(f.CloseOK))
	}
	return fmt.Sprintf("cancel:%d:%d", f.At, b(f.CloseOK))
}

// Life: one run of the validator process.
type Life struct {
	H       uint64 `json:"h"`        // height the state machine is created with
	Base    int    `json:"base"`     // number of Value() calls answered before this process started
	Ins     []In   `json:"ins"`      // inputs delivered (in order)
	CrashAt int    `json:"crash_at"` // kill after this many effects; -1 = run to the end
	Fault   *Fault `json:"fault,omitempty"`
}

type Scenario struct {
	Case  Case   `json:"case"`
	Lives []Life `json:"lives"`
	Note  string `json:"note,omitempty"`
}

func u64s(l []uint64) string {
	if len(l) == 0 {
		return "-"
	}
	p := make([]string, len(l))
	for i, x := range l {
		p[i] = strconv.FormatUint(x, 10)
	}
	return strings.Join(p, ",")
}
func intsStr(l []int) string {
	p := make([]string, len(l))
	for i, x := range l {
		p[i] = strconv.Itoa(x)
	}
	return strings.Join(p, ",")
}

func (c *Case) newLine() string {
	bs := make([]string, len(c.Blocks))
	for i, b := range c.Blocks {
		bs[i] = fmt.Sprintf("%d;%s;%s", b.Total, u64s(b.Pows), intsStr(b.Props))
	}
	return fmt.Sprintf("new %d %d %d %s %s %d %s", c.Self, c.H0, c.M, u64s(c.Invalid), u64s(c.Values), c.Dflt, strings.Join(bs, "/"))
}

// Validators + Application of one process
type env struct {
	c     *Case
	base  int
	calls int
}

func (e *env) blk(h types.Height) *Block {
	i := int(uint64(h) - e.c.H0)
	if uint64(h) < e.c.H0 {
		i = 0
	}
	if i >= len(e.c.Blocks) {
		i = len(e.c.Blocks) - 1
	}
	return &e.c.Blocks[i]
}
func (e *env) TotalVotingPower(h types.Height) types.VotingPower {
	return types.VotingPower(e.blk(h).Total)
}
func (e *env) ValidatorVotingPower(h types.Height, a *Addr) types.VotingPower {
	b := e.blk(h)
	if a[0] < uint64(len(b.Pows)) {
		return types.VotingPower(b.Pows[a[0]])
	}
	return types.VotingPower(e.c.Dflt)
}
func (e *env) Proposer(h types.Height, r types.Round) Addr {
	b := e.blk(h)
	l := len(b.Props)
	return Addr{uint64(b.Props[((int(r)%l)+l)%l])}
}
func (e *env) Value() Val {
	v := e.c.Values[(e.base+e.calls)%len(e.c.Values)]
	e.calls++
	return Val{v}
}
func (e *env) Valid(v Val) bool {
	for _, x := range e.c.Invalid {
		if x == v[0] {
			return false
		}
	}
	return true
}

// the WAL store only asks its database for Path()
type pathDB struct {
	db.KeyValueStore
	path string
}

func (p pathDB) Path() string { return p.path }

// ---------- canonical text (same format as the oracle prints) ----------
func idStr(h *Hash) string {
	if h == nil {
		return "-"
	}
	return strconv.FormatUint(h[0], 10)
}
func propStr(h types.Height, r types.Round, from Addr, vr types.Round, v *Val) string {
	val := "nil"
	if v != nil {
		val = strconv.FormatUint(v[0], 10)
	}
	return fmt.Sprintf("%d,%d,%d,%d,%s", uint64(h), int(r), from[0], int(vr), val)
}
func voteStr(h types.Height, r types.Round, from Addr, id *Hash) string {
	return fmt.Sprintf("%d,%d,%d,%s", uint64(h), int(r), from[0], idStr(id))
}
func entryStr(e Entry) string {
	switch e := e.(type) {
	case *wal.Start:
		return fmt.Sprintf("ws:%d", uint64(*e))
	case *wal.Proposal[Val, Hash, Addr]:
		return "wp:" + propStr(e.Height, e.Round, e.Sender, e.ValidRound, e.Value)
	case *wal.Prevote[Hash, Addr]:
		return "wv:" + voteStr(e.Height, e.Round, e.Sender, e.ID)
	case *wal.Precommit[Hash, Addr]:
		return "wc:" + voteStr(e.Height, e.Round, e.Sender, e.ID)
	case *wal.Timeout:
		return fmt.Sprintf("wt:%d,%d,%d", int(e.Step), uint64(e.Height), int(e.Round))
	}
	return fmt.Sprintf("w?:%T", e)
}
