package main

import (
	"context"
	"errors"
	"fmt"
	"io"
	"iter"
	"os"
	"path/filepath"
	"sync"
	"time"

	"github.com/NethermindEth/juno/consensus/driver"
	"github.com/NethermindEth/juno/consensus/tendermint"
	"github.com/NethermindEth/juno/consensus/types"
	"github.com/NethermindEth/juno/consensus/types/actions"
	"github.com/NethermindEth/juno/consensus/types/wal"
	"github.com/NethermindEth/juno/consensus/walstore"
	jsync "github.com/NethermindEth/juno/sync"
	"github.com/NethermindEth/juno/utils/log"
	"verifharness/hx"
)

// ---------- recorder: the observed trace of one life, and the kill switch ----------
type stepObs struct {
	Label string
	Effs  []string
}

type rec struct {
	mu        sync.Mutex
	steps     []stepObs
	nEff      int
	crashAt   int // -1: never
	crashed   bool
	onCrash   func() // copies the log directory, cancels the context
	schedQ    []string
	nTrigSync int
}

var errCrashed = errors.New("verif: process killed")

func (r *rec) step(label string, sched []string) {
	r.mu.Lock()
	defer r.mu.Unlock()
	if r.crashed {
		return
	}
	r.steps = append(r.steps, stepObs{Label: label})
	r.schedQ = sched
}

// effect is called by a wrapper just before it performs the real operation; false = the process is dead.
func (r *rec) effect(s string) bool {
	r.mu.Lock()
	defer r.mu.Unlock()
	if r.crashed {
		return false
	}
	if r.crashAt >= 0 && r.nEff == r.crashAt {
		r.crashed = true
		r.onCrash()
		return false
	}
	if len(r.steps) == 0 {
		r.steps = append(r.steps, stepObs{Label: "?"})
	}
	st := &r.steps[len(r.steps)-1]
	st.Effs = append(st.Effs, s)
	r.nEff++
	return true
}

func (r *rec) popSched() string {
	r.mu.Lock()
	defer r.mu.Unlock()
	if len(r.schedQ) == 0 {
		return "st:?"
	}
	s := r.schedQ[0]
	r.schedQ = r.schedQ[1:]
	return s
}

// ---------- wrappers ----------
type walWrap struct {
	in Store
	r  *rec
}

func (w *walWrap) Flush() error {
	if !w.r.effect("fl") {
		return errCrashed
	}
	return w.in.Flush()
}
func (w *walWrap) LoadAllEntries() iter.Seq2[Entry, error] { return w.in.LoadAllEntries() }
func (w *walWrap) SetWALEntry(e Entry) error {
	if !w.r.effect(entryStr(e)) {
		return errCrashed
	}
	return w.in.SetWALEntry(e)
}
func (w *walWrap) DeleteWALEntries(h types.Height) error {
	if !w.r.effect(fmt.Sprintf("pr:%d", uint64(h))) {
		return errCrashed
	}
	return w.in.DeleteWALEntries(h)
}
func (w *walWrap) Close() error { return w.in.Close() }

type bcProp struct{ r *rec }
type bcPv struct{ r *rec }
type bcPc struct{ r *rec }

func (b bcProp) Broadcast(_ context.Context, p *Proposal) {
	b.r.effect("bp:" + propStr(p.Height, p.Round, p.Sender, p.ValidRound, p.Value))
}
func (b bcPv) Broadcast(_ context.Context, p *Prevote) {
	b.r.effect("bv:" + voteStr(p.Height, p.Round, p.Sender, p.ID))
}
func (b bcPc) Broadcast(_ context.Context, p *Precommit) {
	b.r.effect("bc:" + voteStr(p.Height, p.Round, p.Sender, p.ID))
}

type commitL struct{ r *rec }

func (c commitL) OnCommit(_ context.Context, h types.Height, v Val) bool {
	return c.r.effect(fmt.Sprintf("cb:%d,%d", uint64(h), v[0]))
}
func (c commitL) Listen() <-chan jsync.CommittedBlock { return nil }

type lis[M any] struct{ ch chan M }

func (l lis[M]) Listen() <-chan M { return l.ch }

var barrierAddr = Addr{^uint64(0), 7, 7, 7}

// state machine wrapper: records one step per call, hides TriggerSync (block fetcher is not part of the rig)
type smWrap struct {
	in SM
	r  *rec
}

func (s *smWrap) out(label string, as []Action) []Action {
	var sched []string
	res := make([]Action, 0, len(as))
	for _, a := range as {
		switch a := a.(type) {
		case *actions.ScheduleTimeout:
			sched = append(sched, fmt.Sprintf("st:%d,%d,%d", int(a.Step), uint64(a.Height), int(a.Round)))
		case *actions.TriggerSync:
			s.r.mu.Lock()
			s.r.nTrigSync++
			s.r.mu.Unlock()
			continue
		}
		res = append(res, a)
	}
	s.r.step(label, sched)
	return res
}
func (s *smWrap) Height() types.Height { return s.in.Height() }
func (s *smWrap) ProcessStart(r types.Round) []Action {
	return s.out(fmt.Sprintf("start %d", int(r)), s.in.ProcessStart(r))
}
func (s *smWrap) ProcessTimeout(t types.Timeout) []Action {
	return s.out(fmt.Sprintf("to %d %d %d", int(t.Step), uint64(t.Height), int(t.Round)), s.in.ProcessTimeout(t))
}
func (s *smWrap) ProcessProposal(p *Proposal) []Action {
	l := "prop " + fmt.Sprintf("%d %d %d %d %d", uint64(p.Height), int(p.Round), p.Sender[0], int(p.ValidRound), (*p.Value)[0])
	return s.out(l, s.in.ProcessProposal(p))
}
func (s *smWrap) ProcessPrevote(p *Prevote) []Action {
	if p.Sender == barrierAddr {
		return nil
	}
	return s.out(fmt.Sprintf("pv %d %d %d %s", uint64(p.Height), int(p.Round), p.Sender[0], idStr(p.ID)), s.in.ProcessPrevote(p))
}
func (s *smWrap) ProcessPrecommit(p *Precommit) []Action {
	return s.out(fmt.Sprintf("pc %d %d %d %s", uint64(p.Height), int(p.Round), p.Sender[0], idStr(p.ID)), s.in.ProcessPrecommit(p))
}
func (s *smWrap) ProcessWAL(e wal.Entry[Val, Hash, Addr]) []Action {
	return s.out("wal "+entryStr(e), s.in.ProcessWAL(e))
}
func (s *smWrap) ProcessSync(p *Proposal, pcs []Precommit) []Action {
	return s.out("sync", s.in.ProcessSync(p, pcs))
}

// ---------- one life of the process ----------
type lifeObs struct {
	Steps    []stepObs
	NEff     int
	Crashed  bool // the kill switch fired (or the life was cut at its end)
	Height   uint64
	Calls    int
	Fed      int    // inputs taken by the driver
	Snapshot string // copy of the log directory at the moment of the kill
	TrigSync int
	RunErr   string
}

func (o *lifeObs) effects() []string {
	var l []string
	for _, s := range o.Steps {
		l = append(l, s.Effs...)
	}
	return l
}

func copyDir(src, dst string) {
	hx.Must(filepath.Walk(src, func(p string, info os.FileInfo, err error) error {
		if err != nil {
			return err
		}
		rel, _ := filepath.Rel(src, p)
		t := filepath.Join(dst, rel)
		if info.IsDir() {
			return os.MkdirAll(t, 0o755)
		}
		in, err := os.Open(p)
		if err != nil {
			return err
		}
		defer in.Close()
		out, err := os.Create(t)
		if err != nil {
			return err
		}
		defer out.Close()
		_, err = io.Copy(out, in)
		return err
	}))
}

// feeder: gives the next input given what has been observed so far (nil = no more input)
type feeder func(o *rec) *In

var scratch string // root of all scratch directories of this run
var nDirs int

func newDir() string {
	nDirs++
	d := filepath.Join(scratch, fmt.Sprintf("d%d", nDirs))
	hx.Must(os.MkdirAll(d, 0o755))
	return d
}

// runLife boots a validator process on dir (its log directory lives below it), feeds inputs, kills it after
// crashAt effects (snapshotting the directory at that very moment), and returns what was observed.
func runLife(c *Case, dir string, h uint64, base int, crashAt int, next feeder) *lifeObs {
	curM = c.M
	store, err := walstore.NewTendermintWALStore[Val, Hash, Addr](pathDB{path: dir})
	hx.Must(err)
	e := &env{c: c, base: base}
	sm := tendermint.New[Val, Hash, Addr](log.NewNopZapLogger(), Addr{uint64(c.Self)}, e, e, types.Height(h))
	ctx, cancel := context.WithCancel(context.Background())
	defer cancel()
	obs := &lifeObs{}
	r := &rec{crashAt: crashAt}
	snap := func() {
		obs.Snapshot = newDir()
		copyDir(dir, obs.Snapshot)
	}
	r.onCrash = func() { snap(); cancel() }
	propCh, pvCh, pcCh := make(chan *Proposal), make(chan *Prevote), make(chan *Precommit)
	drv := driver.New[Val, Hash, Addr](
		log.NewNopZapLogger(), &walWrap{in: store, r: r}, &smWrap{in: sm, r: r}, commitL{r},
		Bcasters{ProposalBroadcaster: bcProp{r}, PrevoteBroadcaster: bcPv{r}, PrecommitBroadcaster: bcPc{r}},
		Listeners{ProposalListener: lis[*Proposal]{propCh}, PrevoteListener: lis[*Prevote]{pvCh}, PrecommitListener: lis[*Precommit]{pcCh}},
		nil, nil,
		func(types.Step, types.Round) time.Duration { r.effect(r.popSched()); return time.Hour },
	)
	done := make(chan struct{})
	var runErr error
	go func() {
		defer close(done)
		defer cancel()
		runErr = drv.Run(ctx)
	}()
	barrier := func() bool {
		select {
		case pvCh <- &Prevote{MessageHeader: types.MessageHeader[Addr]{Sender: barrierAddr}}:
			return true
		case <-ctx.Done():
			return false
		}
	}
	alive := barrier() // replay and the first ProcessStart are over
	for alive {
		in := next(r)
		if in == nil {
			break
		}
		hdr := types.MessageHeader[Addr]{Height: types.Height(in.H), Round: types.Round(in.R), Sender: Addr{uint64(in.From)}}
		var id *Hash
		if in.ID >= 0 {
			id = &Hash{uint64(in.ID)}
		}
		switch in.K {
		case "prop":
			v := Val{in.Val}
			select {
			case propCh <- &Proposal{MessageHeader: hdr, ValidRound: types.Round(in.VR), Value: &v}:
			case <-ctx.Done():
				alive = false
			}
		case "pv":
			select {
			case pvCh <- &Prevote{MessageHeader: hdr, ID: id}:
			case <-ctx.Done():
				alive = false
			}
		case "pc":
			select {
			case pcCh <- &Precommit{MessageHeader: hdr, ID: id}:
			case <-ctx.Done():
				alive = false
			}
		case "to":
			alive = drv.VerifInjectTimeout(ctx, types.Timeout{Step: types.Step(in.Step), Height: types.Height(in.H), Round: types.Round(in.R)})
		default:
			panic("input kind " + in.K)
		}
		if alive {
			obs.Fed++
			alive = barrier()
		}
	}
	r.mu.Lock()
	if !r.crashed && crashAt >= 0 {
		// the life ended before the kill point: it is killed here, after its last effect
		r.crashed = true
		snap()
	}
	r.mu.Unlock()
	cancel()
	<-done
	r.mu.Lock()
	defer r.mu.Unlock()
	obs.Steps, obs.NEff, obs.Crashed, obs.TrigSync = r.steps, r.nEff, r.crashed, r.nTrigSync
	obs.Height, obs.Calls = uint64(sm.Height()), e.calls
	if runErr != nil {
		obs.RunErr = runErr.Error()
	}
	return obs
}
