package main

import (
	"context"
	"errors"
	"fmt"
	"io"
	"iter"
	"os"
	"path/filepath"
	"strings"
	"sync"
	"time"

	"github.com/NethermindEth/juno/consensus/driver"
	"github.com/NethermindEth/juno/consensus/tendermint"
	"github.com/NethermindEth/juno/consensus/types"
	"github.com/NethermindEth/juno/consensus/types/actions"
	"github.com/NethermindEth/juno/consensus/types/wal"
	"github.com/NethermindEth/juno/consensus/walstore"
	jsync "github.com/NethermindEth/juno/sync"
	"github.com/NethermindEth/juno/utils/log"
	"verifharness/hx"
)

// ---------- recorder: the observed trace of one life, and the kill switch ----------
type stepObs struct {
	Label string
	Effs  []string
}

type rec struct {
	mu        sync.Mutex
	steps     []stepObs
	nEff      int
	crashAt   int // -1: never
	crashed   bool
	onCrash   func() // copies the log directory, cancels the context
	schedQ    []string
	nTrigSync int
	// the regular ways out (Fault)
	fault     *Fault
	fired     bool   // the scripted failure / cancellation happened
	cancelled bool   // ... and it was a cancellation
	cancel    func() // cancels the context of the life
	stepSnap  func(nEff int) // when set: called at every state machine call (copies the log directory)
}

var errCrashed = errors.New("verif: process killed")
var errInjected = errors.New("verif: injected failure")

const (
	opOK          = iota // perform the operation
	opDead               // the process is dead (killed)
	opFail               // do not perform it, report failure
	opPerformFail        // perform it, report failure
)

func (r *rec) step(label string, sched []string) {
	r.mu.Lock()
	defer r.mu.Unlock()
	if r.crashed {
		return
	}
	r.steps = append(r.steps, stepObs{Label: label})
	r.schedQ = sched
	if r.stepSnap != nil {
		r.stepSnap(r.nEff)
	}
}

func (r *rec) push(s string, counts bool) {
	if len(r.steps) == 0 {
		r.steps = append(r.steps, stepObs{Label: "?"})
	}
	st := &r.steps[len(r.steps)-1]
	st.Effs = append(st.Effs, s)
	if counts {
		r.nEff++
	}
}

// op is called by a wrapper just before it performs a real operation.  kind: 's' store call, 'c' commit
// callback, 'o' anything else (cannot fail).  Entries starting with '!' in a step are markers, not effects.
func (r *rec) op(s string, kind byte) int {
	r.mu.Lock()
	defer r.mu.Unlock()
	if r.crashed {
		return opDead
	}
	if r.crashAt >= 0 && r.nEff == r.crashAt {
		r.crashed = true
		r.onCrash()
		return opDead
	}
	if f := r.fault; f != nil && !r.fired && r.nEff >= f.At {
		switch {
		case f.Kind == "cancel":
			r.fired, r.cancelled = true, true
			r.cancel()
		case f.Kind == "fail" && kind != 'o':
			r.fired = true
			if !f.Performed {
				r.push("!"+s, false)
				return opFail
			}
			r.push(s, true)
			r.push("!!", false)
			return opPerformFail
		}
	}
	if r.cancelled && kind == 'c' {
		// consensus/driver/commit_listener.go: OnCommit selects on ctx.Done() and returns false
		r.push("!"+s, false)
		return opFail
	}
	r.push(s, true)
	return opOK
}

// effect: an operation that cannot fail (broadcast, timer); false = the process is dead.
func (r *rec) effect(s string) bool { return r.op(s, 'o') == opOK }

func (r *rec) popSched() string {
	r.mu.Lock()
	defer r.mu.Unlock()
	if len(r.schedQ) == 0 {
		return "st:?"
	}
	s := r.schedQ[0]
	r.schedQ = r.schedQ[1:]
	return s
}

// ---------- wrappers ----------
type walWrap struct {
	in      Store
	r       *rec
	onClose func() // copies the log directory
}

func (w *walWrap) do(s string, f func() error) error {
	switch w.r.op(s, 's') {
	case opDead:
		return errCrashed
	case opFail:
		return errInjected
	case opPerformFail:
		return errors.Join(f(), errInjected)
	}
	return f()
}
func (w *walWrap) Flush() error { return w.do("fl", w.in.Flush) }
func (w *walWrap) LoadAllEntries() iter.Seq2[Entry, error] { return w.in.LoadAllEntries() }
func (w *walWrap) SetWALEntry(e Entry) error {
	return w.do(entryStr(e), func() error { return w.in.SetWALEntry(e) })
}
func (w *walWrap) DeleteWALEntries(h types.Height) error {
	return w.do(fmt.Sprintf("pr:%d", uint64(h)), func() error { return w.in.DeleteWALEntries(h) })
}

// Close is the deferred d.db.Close() of driver.Run.  A life that ends through it (Fault) leaves the directory
// as it is after the store's own Close (flush of what is pending) - or, when the script says that flush fails,
// as it is before it.
func (w *walWrap) Close() error {
	w.r.mu.Lock()
	f, dead := w.r.fault, w.r.crashed
	w.r.mu.Unlock()
	if f == nil || dead {
		return w.in.Close()
	}
	if !f.CloseOK {
		w.onClose()
		return errors.Join(w.in.Close(), errInjected)
	}
	err := w.in.Close()
	w.onClose()
	return err
}

type bcProp struct{ r *rec }
type bcPv struct{ r *rec }
type bcPc struct{ r *rec }

func (b bcProp) Broadcast(_ context.Context, p *Proposal) {
	b.r.effect("bp:" + propStr(p.Height, p.Round, p.Sender, p.ValidRound, p.Value))
}
func (b bcPv) Broadcast(_ context.Context, p *Prevote) {
	b.r.effect("bv:" + voteStr(p.Height, p.Round, p.Sender, p.ID))
}
func (b bcPc) Broadcast(_ context.Context, p *Precommit) {
	b.r.effect("bc:" + voteStr(p.Height, p.Round, p.Sender, p.ID))
}

type commitL struct{ r *rec }

func (c commitL) OnCommit(_ context.Context, h types.Height, v Val) bool {
	return c.r.op(fmt.Sprintf("cb:%d,%d", uint64(h), v[0]), 'c') == opOK
}
func (c commitL) Listen() <-chan jsync.CommittedBlock { return nil }

type lis[M any] struct{ ch chan M }

func (l lis[M]) Listen() <-chan M { return l.ch }

var barrierAddr = Addr{^uint64(0), 7, 7, 7}

// state machine wrapper: records one step per call, hides TriggerSync (block fetcher is not part of the rig)
type smWrap struct {
	in SM
	r  *rec
}

func (s *smWrap) out(label string, as []Action) []Action {
	var sched []string
	res := make([]Action, 0, len(as))
	for _, a := range as {
		switch a := a.(type) {
		case *actions.ScheduleTimeout:
			sched = append(sched, fmt.Sprintf("st:%d,%d,%d", int(a.Step), uint64(a.Height), int(a.Round)))
		case *actions.TriggerSync:
			s.r.mu.Lock()
			s.r.nTrigSync++
			s.r.mu.Unlock()
			continue
		}
		res = append(res, a)
	}
	s.r.step(label, sched)
	return res
}
func (s *smWrap) Height() types.Height { return s.in.Height() }
func (s *smWrap) ProcessStart(r types.Round) []Action {
	return s.out(fmt.Sprintf("start %d", int(r)), s.in.ProcessStart(r))
}
func (s *smWrap) ProcessTimeout(t types.Timeout) []Action {
	return s.out(fmt.Sprintf("to %d %d %d", int(t.Step), uint64(t.Height), int(t.Round)), s.in.ProcessTimeout(t))
}
func (s *smWrap) ProcessProposal(p *Proposal) []Action {
	l := "prop " + fmt.Sprintf("%d %d %d %d %d", uint64(p.Height), int(p.Round), p.Sender[0], int(p.ValidRound), (*p.Value)[0])
	return s.out(l, s.in.ProcessProposal(p))
}
func (s *smWrap) ProcessPrevote(p *Prevote) []Action {
	if p.Sender == barrierAddr {
		return nil
	}
	return s.out(fmt.Sprintf("pv %d %d %d %s", uint64(p.Height), int(p.Round), p.Sender[0], idStr(p.ID)), s.in.ProcessPrevote(p))
}
func (s *smWrap) ProcessPrecommit(p *Precommit) []Action {
	return s.out(fmt.Sprintf("pc %d %d %d %s", uint64(p.Height), int(p.Round), p.Sender[0], idStr(p.ID)), s.in.ProcessPrecommit(p))
}
func (s *smWrap) ProcessWAL(e wal.Entry[Val, Hash, Addr]) []Action {
	return s.out("wal "+entryStr(e), s.in.ProcessWAL(e))
}
func (s *smWrap) ProcessSync(p *Proposal, pcs []Precommit) []Action {
	return s.out("sync", s.in.ProcessSync(p, pcs))
}

// ---------- one life of the process ----------
type lifeObs struct {
	Steps    []stepObs
	NEff     int
	Crashed  bool // the kill switch fired (or the life was cut at its end)
	Height   uint64
	Calls    int
	Fed      int    // inputs taken by the driver
	Snapshot string // copy of the log directory at the moment of the kill / after Run returned through Close
	TrigSync int
	RunErr   string
	Stopped  bool // the life ended through the regular return path with a Fault script
	Fired    bool // the scripted failure / cancellation happened (otherwise the life was shut down at its end)
	StepDirs []stepDir
}

type stepDir struct {
	NEff int
	Dir  string
}

func isMarker(e string) bool { return strings.HasPrefix(e, "!") }

// the effects performed (markers of failed operations left out)
func (o *lifeObs) effects() []string {
	var l []string
	for _, s := range o.Steps {
		for _, e := range s.Effs {
			if !isMarker(e) {
				l = append(l, e)
			}
		}
	}
	return l
}

// the operation that failed / the callback that refused ("" if none)
func (o *lifeObs) failedOp() string {
	for _, s := range o.Steps {
		for i, e := range s.Effs {
			if e == "!!" && i > 0 {
				return s.Effs[i-1]
			}
			if isMarker(e) && e != "!!" {
				return e[1:]
			}
		}
	}
	return ""
}

// readLog opens a copy of a log directory with a fresh store and returns what LoadAllEntries yields.
func readLog(dir string) []string {
	tmp := newDir()
	defer os.RemoveAll(tmp)
	copyDir(dir, tmp)
	st, err := walstore.NewTendermintWALStore[Val, Hash, Addr](pathDB{path: tmp})
	hx.Must(err)
	var out []string
	for e, err := range st.LoadAllEntries() {
		hx.Must(err)
		out = append(out, entryStr(e))
	}
	hx.Must(st.Close())
	return out
}

func copyDir(src, dst string) {
	hx.Must(filepath.Walk(src, func(p string, info os.FileInfo, err error) error {
		if err != nil {
			return err
		}
		rel, _ := filepath.Rel(src, p)
		t := filepath.Join(dst, rel)
		if info.IsDir() {
			return os.MkdirAll(t, 0o755)
		}
		in, err := os.Open(p)
		if err != nil {
			return err
		}
		defer in.Close()
		out, err := os.Create(t)
		if err != nil {
			return err
		}
		defer out.Close()
		_, err = io.Copy(out, in)
		return err
	}))
}

// feeder: gives the next input given what has been observed so far (nil = no more input)
type feeder func(o *rec) *In

var scratch string // root of all scratch directories of this run
var nDirs int

func newDir() string {
	nDirs++
	d := filepath.Join(scratch, fmt.Sprintf("d%d", nDirs))
	hx.Must(os.MkdirAll(d, 0o755))
	return d
}

// runLife boots a validator process on dir (its log directory lives below it), feeds inputs, kills it after
// crashAt effects (snapshotting the directory at that very moment), and returns what was observed.
func runLife(c *Case, dir string, h uint64, base int, crashAt int, next feeder) *lifeObs {
	return runLifeF(c, dir, h, base, crashAt, nil, false, next)
}

// runLifeF: as runLife; with a Fault script the life ends through driver.Run's regular return path and the
// directory is copied when the deferred Close is over (stepDirs: also at every state machine call).
func runLifeF(c *Case, dir string, h uint64, base int, crashAt int, fault *Fault, stepDirs bool, next feeder) *lifeObs {
	curM = c.M
	store, err := walstore.NewTendermintWALStore[Val, Hash, Addr](pathDB{path: dir})
	hx.Must(err)
	e := &env{c: c, base: base}
	sm := tendermint.New[Val, Hash, Addr](log.NewNopZapLogger(), Addr{uint64(c.Self)}, e, e, types.Height(h))
	ctx, cancel := context.WithCancel(context.Background())
	defer cancel()
	obs := &lifeObs{}
	r := &rec{crashAt: crashAt, fault: fault, cancel: cancel}
	snap := func() {
		obs.Snapshot = newDir()
		copyDir(dir, obs.Snapshot)
	}
	r.onCrash = func() { snap(); cancel() }
	if stepDirs {
		r.stepSnap = func(n int) {
			d := newDir()
			copyDir(dir, d)
			obs.StepDirs = append(obs.StepDirs, stepDir{n, d})
		}
	}
	propCh, pvCh, pcCh := make(chan *Proposal), make(chan *Prevote), make(chan *Precommit)
	drv := driver.New[Val, Hash, Addr](
		log.NewNopZapLogger(), &walWrap{in: store, r: r, onClose: snap}, &smWrap{in: sm, r: r}, commitL{r},
		Bcasters{ProposalBroadcaster: bcProp{r}, PrevoteBroadcaster: bcPv{r}, PrecommitBroadcaster: bcPc{r}},
		Listeners{ProposalListener: lis[*Proposal]{propCh}, PrevoteListener: lis[*Prevote]{pvCh}, PrecommitListener: lis[*Precommit]{pcCh}},
		nil, nil,
		func(types.Step, types.Round) time.Duration { r.effect(r.popSched()); return time.Hour },
	)
	done := make(chan struct{})
	var runErr error
	go func() {
		defer close(done)
		defer cancel()
		runErr = drv.Run(ctx)
	}()
	barrier := func() bool {
		select {
		case pvCh <- &Prevote{MessageHeader: types.MessageHeader[Addr]{Sender: barrierAddr}}:
			return true
		case <-ctx.Done():
			return false
		}
	}
	alive := barrier() // replay and the first ProcessStart are over
	for alive {
		in := next(r)
		if in == nil {
			break
		}
		hdr := types.MessageHeader[Addr]{Height: types.Height(in.H), Round: types.Round(in.R), Sender: Addr{uint64(in.From)}}
		var id *Hash
		if in.ID >= 0 {
			id = &Hash{uint64(in.ID)}
		}
		switch in.K {
		case "prop":
			v := Val{in.Val}
			select {
			case propCh <- &Proposal{MessageHeader: hdr, ValidRound: types.Round(in.VR), Value: &v}:
			case <-ctx.Done():
				alive = false
			}
		case "pv":
			select {
			case pvCh <- &Prevote{MessageHeader: hdr, ID: id}:
			case <-ctx.Done():
				alive = false
			}
		case "pc":
			select {
			case pcCh <- &Precommit{MessageHeader: hdr, ID: id}:
			case <-ctx.Done():
				alive = false
			}
		case "to":
			alive = drv.VerifInjectTimeout(ctx, types.Timeout{Step: types.Step(in.Step), Height: types.Height(in.H), Round: types.Round(in.R)})
		default:
			panic("input kind " + in.K)
		}
		if alive {
			obs.Fed++
			alive = barrier()
		}
	}
	r.mu.Lock()
	if !r.crashed && crashAt >= 0 {
		// the life ended before the kill point: it is killed here, after its last effect
		r.crashed = true
		snap()
	}
	r.mu.Unlock()
	cancel()
	<-done
	r.mu.Lock()
	defer r.mu.Unlock()
	obs.Steps, obs.NEff, obs.Crashed, obs.TrigSync = r.steps, r.nEff, r.crashed, r.nTrigSync
	obs.Stopped, obs.Fired = fault != nil && !r.crashed, r.fired
	obs.Height, obs.Calls = uint64(sm.Height()), e.calls
	if runErr != nil {
		obs.RunErr = runErr.Error()
	}
	return obs
}
