package main

import (
	"fmt"
	"strconv"
	"strings"

	"verifharness/hx"
)

// world: the rest of the network and the clocks, as far as this validator can tell.  It looks at the
// effects the validator produced so far and decides what to deliver next.  It survives the validator's
// restarts (peers keep their messages), except for the timers, which die with the process.
type world struct {
	c        *Case
	rng      *hx.RNG
	h        uint64
	round    int
	timeouts []In
	props    map[[2]int64]uint64 // (height, round) -> value known to be proposed
	planned  map[[2]int64]bool
	queue    []In
	sent     []In // messages delivered so far (for duplicates / re-delivery after a restart)
	budget   int
	seen     int // effects of the current life already digested
	noise    int // percent
}

func newWorld(c *Case, rng *hx.RNG) *world {
	return &world{c: c, rng: rng, h: c.H0, props: map[[2]int64]uint64{}, planned: map[[2]int64]bool{}, noise: 12}
}

// restart: timers are gone, some peers re-send what they sent before
func (w *world) restart(h uint64, budget int) {
	w.timeouts, w.queue, w.seen, w.budget = nil, nil, 0, budget
	w.h, w.round = h, 0
	w.planned = map[[2]int64]bool{}
	for _, m := range w.sent {
		if m.H >= h && w.rng.Chance(50) {
			w.queue = append(w.queue, m)
		}
	}
}

func atoiAll(s string) []int64 {
	fs := strings.Split(s, ",")
	out := make([]int64, len(fs))
	for i, f := range fs {
		if f == "-" || f == "nil" {
			out[i] = -1
			continue
		}
		v, _ := strconv.ParseInt(f, 10, 64)
		out[i] = v
	}
	return out
}

func (w *world) digest(r *rec) {
	r.mu.Lock()
	var effs []string
	for _, s := range r.steps {
		effs = append(effs, s.Effs...)
	}
	r.mu.Unlock()
	for _, e := range effs[w.seen:] {
		tag, body, _ := strings.Cut(e, ":")
		f := atoiAll(body)
		switch tag {
		case "st":
			w.timeouts = append(w.timeouts, In{K: "to", Step: int(f[0]), H: uint64(f[1]), R: int(f[2])})
			if uint64(f[1]) == w.h && int(f[2]) > w.round {
				w.round = int(f[2])
			}
		case "cb":
			w.h, w.round, w.queue = uint64(f[0])+1, 0, nil
		case "bp":
			w.props[[2]int64{f[0], f[1]}] = uint64(f[4])
			if uint64(f[0]) == w.h && int(f[1]) > w.round {
				w.round = int(f[1])
			}
		case "bv", "bc":
			if uint64(f[0]) == w.h && int(f[1]) > w.round {
				w.round = int(f[1])
			}
		}
	}
	w.seen = len(effs)
}

func (w *world) proposer(h uint64, r int) int {
	e := &env{c: w.c}
	a := e.Proposer(typesHeight(h), typesRound(r))
	return int(a[0])
}

func (w *world) others() []int {
	n := len(w.c.Blocks[0].Pows)
	var l []int
	for i := 0; i < n; i++ {
		if i != w.c.Self {
			l = append(l, i)
		}
	}
	return l
}

func (w *world) plan() {
	key := [2]int64{int64(w.h), int64(w.round)}
	w.planned[key] = true
	p := w.proposer(w.h, w.round)
	val, have := w.props[key]
	vr := -1
	if p != w.c.Self {
		have = w.rng.Chance(88)
		val = w.h*10 + uint64(w.round) + 1
		if w.round > 0 && w.rng.Chance(40) { // re-proposal of an earlier round's value
			if pv, ok := w.props[[2]int64{int64(w.h), int64(w.round - 1)}]; ok {
				val, vr = pv, w.round-1
			}
		}
		if w.rng.Chance(6) && len(w.c.Invalid) > 0 {
			val = w.c.Invalid[0]
		}
		if have {
			w.props[key] = val
			w.queue = append(w.queue, In{K: "prop", H: w.h, R: w.round, From: p, VR: vr, Val: val})
		}
	}
	pick := func() int64 {
		x := w.rng.Intn(100)
		switch {
		case !have || x < 14:
			return -1
		case x < 20:
			return int64(vid(val + 1))
		}
		return int64(vid(val))
	}
	for _, k := range []string{"pv", "pc"} {
		for _, o := range w.others() {
			if w.rng.Chance(90) {
				w.queue = append(w.queue, In{K: k, H: w.h, R: w.round, From: o, ID: pick()})
			}
		}
	}
	if w.rng.Chance(18) {
		// a lagging validator: the whole next height arrives while this one is still open
		h2 := w.h + 1
		p2 := w.proposer(h2, 0)
		if p2 != w.c.Self {
			v2 := h2*10 + 1
			w.props[[2]int64{int64(h2), 0}] = v2
			fut := []In{{K: "prop", H: h2, R: 0, From: p2, VR: -1, Val: v2}}
			for _, k := range []string{"pv", "pc"} {
				for _, o := range w.others() {
					fut = append(fut, In{K: k, H: h2, R: 0, From: o, ID: int64(vid(v2))})
				}
			}
			at := w.rng.Intn(len(w.queue) + 1)
			w.queue = append(w.queue[:at:at], append(fut, w.queue[at:]...)...)
			w.planned[[2]int64{int64(h2), 0}] = true
		}
	}
	for i := 0; i+1 < len(w.queue); i++ {
		if w.rng.Chance(20) {
			w.queue[i], w.queue[i+1] = w.queue[i+1], w.queue[i]
		}
	}
}

func (w *world) noiseMsg() *In {
	hs := []uint64{w.h, w.h, w.h + 1, w.h + 1, w.h + 2}
	if w.h > 1 {
		hs = append(hs, w.h-1)
	}
	h := hs[w.rng.Intn(len(hs))]
	r := w.rng.Intn(3)
	froms := append(w.others(), w.c.Self, 9)
	from := froms[w.rng.Intn(len(froms))]
	id := int64(-1)
	if w.rng.Chance(70) {
		id = int64(vid(h*10 + uint64(r) + 1))
	}
	switch w.rng.Intn(4) {
	case 0:
		return &In{K: "prop", H: h, R: r, From: w.proposer(h, r), VR: -1, Val: h*10 + uint64(r) + 1}
	case 1:
		return &In{K: "pv", H: h, R: r, From: from, ID: id}
	case 2:
		return &In{K: "pc", H: h, R: r, From: from, ID: id}
	}
	if len(w.sent) > 0 {
		m := w.sent[w.rng.Intn(len(w.sent))]
		return &m
	}
	return &In{K: "to", Step: w.rng.Intn(3), H: h, R: r}
}

// next implements feeder
func (w *world) next(r *rec) *In {
	w.digest(r)
	if w.budget <= 0 {
		return nil
	}
	w.budget--
	give := func(m In) *In {
		if m.K != "to" {
			w.sent = append(w.sent, m)
		}
		return &m
	}
	if w.rng.Chance(w.noise) {
		return give(*w.noiseMsg())
	}
	for tries := 0; tries < 6; tries++ {
		if len(w.queue) > 0 {
			m := w.queue[0]
			if !w.rng.Chance(8) { // else: duplicate delivery
				w.queue = w.queue[1:]
			}
			if w.rng.Chance(10) { // lost
				continue
			}
			return give(m)
		}
		if !w.planned[[2]int64{int64(w.h), int64(w.round)}] {
			w.plan()
			continue
		}
		break
	}
	// nothing left to say for this round: let a timer of this process expire
	best := -1
	for i, t := range w.timeouts {
		if t.H == w.h && t.R == w.round && (best < 0 || t.Step < w.timeouts[best].Step) {
			best = i
		}
	}
	if best < 0 && len(w.timeouts) > 0 {
		best = w.rng.Intn(len(w.timeouts))
	}
	if best >= 0 {
		t := w.timeouts[best]
		w.timeouts = append(w.timeouts[:best], w.timeouts[best+1:]...)
		if t.Step == 2 && t.H == w.h && t.R == w.round {
			w.round++
		}
		return give(t)
	}
	return nil
}

func insLine(ins []In) string {
	if len(ins) == 0 {
		return "-"
	}
	p := make([]string, len(ins))
	for i, x := range ins {
		p[i] = strings.ReplaceAll(x.String(), " ", "_")
	}
	return strings.Join(p, "/")
}

func stepLine(s stepObs) string {
	if len(s.Effs) == 0 {
		return s.Label + " => -"
	}
	return s.Label + " => " + strings.Join(s.Effs, " ")
}

func lifeLine(l *Life) string {
	if l.Fault != nil {
		return fmt.Sprintf("flife %d %d %s %s", l.H, l.Base, l.Fault, insLine(l.Ins))
	}
	return fmt.Sprintf("life %d %d %d %s", l.H, l.Base, l.CrashAt, insLine(l.Ins))
}
