// C14, byte level: the record framing of the log files (coq/theories/C14/Frame.v) against the real code.
//
//   - store files: the REAL walstore writes batches of chosen byte sizes (entries are composed so that a
//     record ends exactly at / 1..12 / 19 bytes before a 32 KiB block boundary, spans several blocks, ...);
//     the payload of every WriteRecord is captured through the verif seam; the bytes of the log file must
//     equal the model's encode (after Close: encode ++ EOF trailer) byte for byte.
//   - manager files: the same wal.Manager configuration as walstore, arbitrary payloads (empty, shorter
//     than a batch header, exactly one / two chunk capacities, ...), file numbers up to and beyond 2^32.
//   - cuts: for every chosen offset (all offsets of small files; boundaries +-, block boundaries +-, a
//     random sample of large ones) the file is truncated and read back with the REAL reader
//     (wal.Scan + LogicalLog.OpenForRead + NextRecord as replay.go / recoverLatestWALTail do; for payloads
//     that are not batches record.Reader directly): records, clean / invalid tail and the offset of the
//     valid prefix must equal the model's decode; the property's own predicate is evaluated on what the
//     real reader returned (a prefix of the written records, every synced record present); a sample of the
//     cut files is opened with the REAL store: it must open, return the entries of exactly the complete
//     batches and truncate the file to the model's valid length.
//   - single bit flips (header fields, payload, padding, trailer): real reader vs model decode.
//   - the Gallina CRC-32C (plain and Pebble's masked value) vs hash/crc32 on random inputs.
package main

import (
	"bytes"
	"encoding/hex"
	"errors"
	"fmt"
	"hash/crc32"
	"io"
	"os"
	"path/filepath"
	"sort"
	"strconv"
	"strings"
	"sync"
	"time"

	"github.com/NethermindEth/juno/consensus/walstore"
	"github.com/cockroachdb/pebble/v2"
	"github.com/cockroachdb/pebble/v2/record"
	"github.com/cockroachdb/pebble/v2/vfs"
	pebblewal "github.com/cockroachdb/pebble/v2/wal"
	"verifharness/hx"
)

const (
	frBlock = 32768
	frHdr   = 11
	frCap   = frBlock - frHdr
)

type frameReplay struct {
	Frame    string   `json:"frame"` // store | manager | crc
	Lognum   uint64   `json:"lognum"`
	Payloads []string `json:"payloads"` // hex
	Closed   bool     `json:"closed"`
	Cut      int      `json:"cut"`
	Flip     int      `json:"flip"` // bit index + 1 (0: none)
}

type frame struct {
	c       *hx.Ctx
	or      *hx.Oracle
	rng     *hx.RNG
	base    string
	n       int
	budget  int // bytes the model may still decode in this run
	tModel  time.Duration
	tReal   time.Duration
	sizes   map[string]int // entry class -> encoded size inside a batch
	samples int
}

func hexOf(b []byte) string {
	if len(b) == 0 {
		return "-"
	}
	return hex.EncodeToString(b)
}

func (f *frame) dir(tag string) string {
	f.n++
	d := filepath.Join(f.base, fmt.Sprintf("frame-%s-%d", tag, f.n))
	hx.Must(os.MkdirAll(d, 0o755))
	return d
}

// ---------- the model ----------
type modelCut struct {
	k       int
	status  string
	good    int
	prefix  bool
	sk      int
	sstatus string
	sgood   int
	recs    []string // fraw only
}

func (f *frame) modelSet(lognum uint64, closed bool, payloads [][]byte) []byte {
	t0 := time.Now()
	hs := make([]string, len(payloads))
	for i, p := range payloads {
		hs[i] = hexOf(p)
	}
	cl := "0"
	if closed {
		cl = "1"
	}
	l := f.or.Ask(fmt.Sprintf("fset %d %s %s", uint32(lognum), cl, strings.Join(hs, " ")), 1)[0]
	f.tModel += time.Since(t0)
	parts := strings.Fields(l)
	if len(parts) != 2 {
		hx.Fatalf("oracle fset: %q", short(l))
	}
	if parts[1] == "-" {
		return nil
	}
	b, err := hex.DecodeString(parts[1])
	hx.Must(err)
	return b
}

func (f *frame) modelCut(n int) modelCut {
	t0 := time.Now()
	l := strings.Fields(f.or.Ask(fmt.Sprintf("fcut %d", n), 1)[0])
	f.tModel += time.Since(t0)
	f.budget -= n + 200
	if len(l) != 7 {
		hx.Fatalf("oracle fcut: %v", l)
	}
	at := func(i int) int { v, _ := strconv.Atoi(l[i]); return v }
	return modelCut{k: at(0), status: l[1], good: at(2), prefix: l[3] == "1", sk: at(4), sstatus: l[5], sgood: at(6)}
}

func (f *frame) modelRaw(lognum uint64, b []byte) modelCut {
	t0 := time.Now()
	l := strings.Fields(f.or.Ask(fmt.Sprintf("fraw %d %s", uint32(lognum), hexOf(b)), 1)[0])
	f.tModel += time.Since(t0)
	f.budget -= len(b) + 200
	at := func(i int) int { v, _ := strconv.Atoi(l[i]); return v }
	return modelCut{k: at(0), status: l[1], good: at(2), recs: l[3:]}
}

// ---------- the real readers ----------
type realRead struct {
	recs   [][]byte
	status string // clean | torn | other:<error>
	off    int64
}

func statusOf(err error) string {
	switch {
	case errors.Is(err, io.EOF):
		return "clean"
	case record.IsInvalidRecord(err):
		return "torn"
	}
	return "other:" + err.Error()
}

// readWAL reads the (single) log of dir exactly as walstore does: Scan, OpenForRead, NextRecord.
func readWAL(dir string) realRead {
	logs, err := pebblewal.Scan(pebblewal.Dir{FS: vfs.Default, Dirname: dir})
	hx.Must(err)
	if len(logs) != 1 {
		hx.Fatalf("readWAL: %d logs in %s", len(logs), dir)
	}
	r := logs[0].OpenForRead()
	defer r.Close()
	var res realRead
	for {
		rr, off, err := r.NextRecord()
		if err == nil {
			b, err2 := io.ReadAll(rr)
			hx.Must(err2)
			res.recs = append(res.recs, append([]byte{}, b...))
			continue
		}
		res.status, res.off = statusOf(err), off.Physical
		return res
	}
}

func newRecordReader[T ~uint64](mk func(io.Reader, T) *record.Reader, r io.Reader, n uint64) *record.Reader {
	return mk(r, T(n))
}

// readRecords uses record.Reader (what wal.virtualWALReader wraps) directly: payloads need not be batches.
func readRecords(b []byte, lognum uint64) realRead {
	rr := newRecordReader(record.NewReader, bytes.NewReader(b), lognum)
	var res realRead
	for {
		off := rr.Offset()
		rec, err := rr.Next()
		if err == nil {
			var p []byte
			p, err = io.ReadAll(rec)
			if err == nil {
				res.recs = append(res.recs, p)
				continue
			}
		}
		res.status, res.off = statusOf(err), off
		return res
	}
}

// ---------- layout arithmetic of the harness (independent of the model; used to choose cuts and to
// evaluate the predicate: which records lie wholly below a cut) ----------
type span struct{ Start, End, Next int } // first header byte, just past the last chunk, next record's start

func spans(lens []int) []span {
	var res []span
	off := 0
	for _, n := range lens {
		s := span{Start: off}
		first := true
		for first || n > 0 {
			first = false
			i := off % frBlock
			avail := frBlock - i - frHdr
			r := n
			if r > avail {
				r = avail
			}
			off += frHdr + r
			n -= r
			s.End = off
			if frBlock-off%frBlock < frHdr && off%frBlock != 0 {
				off += frBlock - off%frBlock
			}
		}
		s.Next = off
		res = append(res, s)
	}
	return res
}

func (f *frame) cutSet(total int, sp []span, unclosed int) []int {
	must := map[int]bool{0: true, total: true}
	more := map[int]bool{}
	in := func(m map[int]bool, x int) {
		if x >= 0 && x <= total {
			m[x] = true
		}
	}
	if total <= 700 {
		for i := 0; i <= total; i++ {
			in(must, i)
		}
	}
	for i := 0; i <= 24; i++ {
		in(more, i)
		in(more, total-i)
		in(more, unclosed-i)
		in(more, unclosed+i)
	}
	big := total > 40000
	for _, d := range []int{1, 6, 7, 10} { // inside the EOF trailer
		if d == 1 || !big {
			in(must, unclosed+d)
		} else {
			in(more, unclosed+d)
		}
	}
	for _, s := range sp {
		for _, d := range []int{-2, -1, 0, 1, 2, 6, 7, 10, 11, 12} {
			in(more, s.Start+d)
			in(more, s.End+d)
			in(more, s.Next+d)
		}
		in(more, s.End-12)
		in(must, s.End-1)
		in(must, s.End)
		in(must, s.Next)
		if !big {
			in(must, s.End+1)
			if s.Next-s.End >= 7 {
				in(must, s.End+7)
			}
		}
	}
	for b := frBlock; b <= total+frBlock; b += frBlock {
		for _, d := range []int{-20, -19, -12, -11, -10, -7, -6, -1, 0, 1, 6, 7, 10, 11, 12, 18, 19} {
			in(more, b+d)
		}
		in(must, b)
		in(must, b+1)
		if !big {
			in(must, b-1)
			in(must, b+11)
		}
	}
	for i := 0; i < 12; i++ {
		in(more, f.rng.Intn(total+1))
	}
	keys := func(m map[int]bool) []int {
		var r []int
		for x := range m {
			r = append(r, x)
		}
		sort.Ints(r)
		return r
	}
	if total <= 4096 {
		for x := range more {
			must[x] = true
		}
		return keys(must)
	}
	// large files: the model's cost is the cut offset. The boundary cuts always, of the rest a random sample
	allowance := 150_000
	if f.c.Thorough() {
		allowance = 30_000_000
	}
	rest := keys(more)
	for i := len(rest) - 1; i > 0; i-- {
		j := f.rng.Intn(i + 1)
		rest[i], rest[j] = rest[j], rest[i]
	}
	spent := 0
	for _, x := range rest {
		if must[x] {
			continue
		}
		if spent+x > allowance {
			f.c.Hist["frame:cut-not-sampled"]++
			continue
		}
		spent += x
		must[x] = true
	}
	return keys(must)
}

// ---------- one written file: bytes vs encode, cuts, flips ----------
type written struct {
	kind     string // store | manager
	lognum   uint64
	payloads [][]byte
	counts   []int  // store: entries per batch
	open     []byte // file content before Close
	closed   []byte // after Close (nil: not closed)
	tag      string
}

func (f *frame) replayOf(w *written, closed bool, cut, flip int) frameReplay {
	r := frameReplay{Frame: w.kind, Lognum: w.lognum, Closed: closed, Cut: cut, Flip: flip}
	for _, p := range w.payloads {
		r.Payloads = append(r.Payloads, hexOf(p))
	}
	return r
}

func firstDiff(a, b []byte) int {
	for i := 0; i < len(a) && i < len(b); i++ {
		if a[i] != b[i] {
			return i
		}
	}
	if len(a) != len(b) {
		if len(a) < len(b) {
			return len(a)
		}
		return len(b)
	}
	return -1
}

func (f *frame) read(w *written, b []byte) realRead {
	t0 := time.Now()
	defer func() { f.tReal += time.Since(t0) }()
	if w.kind == "manager" {
		return readRecords(b, w.lognum)
	}
	d := f.dir("cut")
	defer os.RemoveAll(d)
	hx.Must(os.WriteFile(filepath.Join(d, logName(w.lognum)), b, 0o644))
	return readWAL(d)
}

func (f *frame) checkFile(w *written) {
	c := f.c
	lens := make([]int, len(w.payloads))
	for i, p := range w.payloads {
		lens[i] = len(p)
	}
	sp := spans(lens)
	for _, s := range sp {
		pad := s.Next - s.End
		c.Hist[fmt.Sprintf("frame:pad-after-record:%d", pad)]++
		chunks := 0
		for o := s.Start; o < s.End; o += frBlock - o%frBlock {
			chunks++
		}
		c.Hist[fmt.Sprintf("frame:chunks-per-record:%d", min(chunks, 4))]++
		if (s.Start%frBlock)+frHdr == frBlock && s.End-s.Start > frHdr {
			c.Hist["frame:first-chunk-without-payload"]++
		}
	}
	for _, n := range lens {
		switch {
		case n == 0:
			c.Hist["frame:payload:empty"]++
		case n < 12:
			c.Hist["frame:payload:below-batch-header"]++
		case n < 1000:
			c.Hist["frame:payload:<1000"]++
		case n <= frCap:
			c.Hist["frame:payload:<=one-chunk"]++
		default:
			c.Hist["frame:payload:multi-chunk"]++
		}
	}
	// 1. what the real writer wrote = encode
	enc := f.modelSet(w.lognum, false, w.payloads)
	c.Count("frame|encode|"+w.tag, true)
	c.Hist["frame:file:"+w.kind]++
	if d := firstDiff(w.open, enc); d >= 0 {
		c.Violation("frame-encode-mismatch", fmt.Sprintf("%s file %d (%s, payload sizes %v): the real file (%d bytes) and the model's encode (%d bytes) differ at offset %d", w.kind, w.lognum, w.tag, lens, len(w.open), len(enc), d), f.replayOf(w, false, 0, 0), true)
		return
	}
	unclosed := len(w.open)
	file := w.open
	if w.closed != nil {
		encC := f.modelSet(w.lognum, true, w.payloads)
		c.Count("frame|encode-closed|"+w.tag, true)
		if d := firstDiff(w.closed, encC); d >= 0 {
			c.Violation("frame-trailer-mismatch", fmt.Sprintf("%s file %d (%s): after Close the real file (%d bytes) and encode ++ EOF trailer (%d bytes) differ at offset %d", w.kind, w.lognum, w.tag, len(w.closed), len(encC), d), f.replayOf(w, true, 0, 0), true)
			return
		}
		file = w.closed
	}
	// 2. every chosen cut
	cuts := f.cutSet(len(file), sp, unclosed)
	if f.samples < 2 && len(sp) > 1 {
		f.samples++
		c.Sample(map[string]any{"frame_file": w.tag, "kind": w.kind, "lognum": w.lognum, "payload_sizes": lens, "file_bytes": len(file), "record_spans_start_end_next": sp, "cuts": len(cuts)})
	}
	storeOpens := 0
	for _, n := range cuts {
		if f.budget < 0 {
			c.Hist["frame:cut-skipped-budget"]++
			continue
		}
		real := f.read(w, file[:n])
		m := f.modelCut(n)
		kind := "mid-record"
		switch {
		case n > unclosed:
			kind = "in-trailer"
			if n == len(file) {
				kind = "closed-whole"
			}
		case n == unclosed:
			kind = "whole"
		default:
			for _, s := range sp {
				if n == s.Start {
					kind = "at-boundary"
				} else if n >= s.End && n < s.Next {
					kind = "in-padding"
				} else if n > s.Start && n < s.End && n%frBlock == 0 {
					kind = "at-chunk-boundary"
				}
			}
		}
		c.Hist["frame:cut:"+kind]++
		c.Count(fmt.Sprintf("frame|cut|%s|%s|%d|%s", w.tag, kind, real.off, real.status), true)
		rep := f.replayOf(w, w.closed != nil, n, 0)
		// the property's predicate on what the REAL reader returned
		prefix := len(real.recs) <= len(w.payloads)
		for i := 0; prefix && i < len(real.recs); i++ {
			prefix = bytes.Equal(real.recs[i], w.payloads[i])
		}
		synced := 0
		for _, s := range sp {
			if s.Next <= n {
				synced++
			}
		}
		desc := fmt.Sprintf("%s file %d (%s, payload sizes %v) cut at %d of %d (%s)", w.kind, w.lognum, w.tag, lens, n, len(file), kind)
		switch {
		case !prefix:
			c.Violation("frame-partial-record:"+kind, desc+": the real reader returned a record that is not one of the written records in order", rep, false)
		case strings.HasPrefix(real.status, "other"):
			c.Violation("frame-open-error:"+kind, desc+": the real reader failed with "+real.status, rep, false)
		case len(real.recs) < synced:
			c.Violation("frame-lost-synced-record:"+kind, fmt.Sprintf("%s: %d records lie wholly below the cut, the real reader returned %d", desc, synced, len(real.recs)), rep, false)
		case len(real.recs) != m.k || !m.prefix:
			c.Violation("frame-decode-mismatch:records", fmt.Sprintf("%s: real reader %d records, model %d (prefix %v)", desc, len(real.recs), m.k, m.prefix), rep, true)
		case real.status != m.status:
			c.Violation("frame-decode-mismatch:status", fmt.Sprintf("%s: real reader %s, model %s", desc, real.status, m.status), rep, true)
		case int(real.off) != m.good:
			c.Violation("frame-decode-mismatch:valid-length", fmt.Sprintf("%s: real reader offset %d, model %d", desc, real.off, m.good), rep, true)
		case n <= unclosed && (m.k != m.sk || m.status != m.sstatus || m.good != m.sgood):
			c.Violation("frame-spec-mismatch", fmt.Sprintf("%s: decode %d/%s/%d, cut_view %d/%s/%d (C14_frame_crash_image no longer describes the model)", desc, m.k, m.status, m.good, m.sk, m.sstatus, m.sgood), rep, true)
		}
		// 3. the REAL store on the cut file: opens, exactly the complete batches, truncated to the valid length
		if w.kind == "store" && (kind != "mid-record" || f.rng.Chance(10)) && storeOpens < 16 {
			storeOpens++
			f.storeOpen(w, file[:n], m, desc, rep)
		}
	}
	// 4. single bit flips
	if len(file) <= 40000 && len(file) > 0 {
		f.flips(w, file, sp)
	}
}

func (f *frame) storeOpen(w *written, b []byte, m modelCut, desc string, rep frameReplay) {
	t0 := time.Now()
	defer func() { f.tReal += time.Since(t0) }()
	root := f.dir("open")
	defer os.RemoveAll(root)
	hx.Must(os.MkdirAll(walDir(root), 0o755))
	p := filepath.Join(walDir(root), logName(w.lognum))
	hx.Must(os.WriteFile(p, b, 0o644))
	st, err := openStore(root)
	f.c.Hist["frame:store-open-of-cut"]++
	if err != nil {
		f.c.Violation("frame-store-open-error", desc+": NewTendermintWALStore failed: "+short(err.Error()), rep, false)
		return
	}
	got, intact := loadAll(st)
	st.Close()
	n := 0
	if got != "-" {
		n = len(strings.Split(got, ","))
	}
	want := 0
	for i := 0; i < m.k && i < len(w.counts); i++ {
		want += w.counts[i]
	}
	fi, err := os.Stat(p)
	hx.Must(err)
	switch {
	case n != want || !intact:
		f.c.Violation("frame-store-entries", fmt.Sprintf("%s: the store returned %d entries (intact %v), the %d complete batches hold %d", desc, n, intact, m.k, want), rep, false)
	case int(fi.Size()) != m.good:
		f.c.Violation("frame-recover-truncate-mismatch", fmt.Sprintf("%s: after recovery the file has %d bytes, the model's valid length is %d", desc, fi.Size(), m.good), rep, true)
	}
	f.c.Count(fmt.Sprintf("frame|store-open|%s|%d|%d", w.tag, m.k, m.good), true)
}

func (f *frame) flips(w *written, file []byte, sp []span) {
	var at []int
	add := func(x int) {
		if x >= 0 && x < len(file) {
			at = append(at, x)
		}
	}
	for i, s := range sp {
		if i > 3 && i < len(sp)-2 {
			continue
		}
		for _, d := range []int{0, 3, 4, 5, 6, 7, 10, 11} {
			add(s.Start + d)
		}
		add(s.End - 1)
		add(s.End)
		add(s.Next - 1)
		add((s.Start + s.End) / 2)
	}
	for i := 1; i <= 11; i++ {
		add(len(file) - i)
	}
	for i := 0; i < 4; i++ {
		add(f.rng.Intn(len(file)))
	}
	if len(file) > 4096 && !f.c.Thorough() { // each flip costs the model the whole file
		for i := len(at) - 1; i > 0; i-- {
			j := f.rng.Intn(i + 1)
			at[i], at[j] = at[j], at[i]
		}
		at = at[:min(len(at), 6)]
	}
	// directed: the lowest bit of the log-number field of the second record's first chunk. With an even file
	// number the field becomes number+1, which the reader takes for the EOF trailer BEFORE it looks at the
	// checksum: a clean end of the log instead of an invalid record (findings/C14.md section 6)
	directed := -1
	if len(sp) >= 2 && w.lognum%2 == 0 && sp[1].Start+7 < len(file) {
		directed = sp[1].Start + 7
		at = append([]int{directed}, at...)
	}
	for i, x := range at {
		if f.budget < 0 {
			f.c.Hist["frame:flip-skipped-budget"]++
			continue
		}
		bit := f.rng.Intn(8)
		if i == 0 && x == directed {
			bit = 0
		}
		b := append([]byte{}, file...)
		b[x] ^= 1 << bit
		real := f.read(w, b)
		m := f.modelRaw(w.lognum, b)
		f.c.Hist["frame:bit-flip"]++
		if real.status == "clean" && len(real.recs) < len(w.payloads) {
			f.c.Hist["frame:bit-flip-read-as-clean-end-records-dropped"]++
		}
		f.c.Count(fmt.Sprintf("frame|flip|%s|%d|%s", w.tag, real.off, real.status), true)
		rep := f.replayOf(w, w.closed != nil, 0, x*8+bit+1)
		desc := fmt.Sprintf("%s file %d (%s) with bit %d of byte %d flipped", w.kind, w.lognum, w.tag, bit, x)
		prefix := len(real.recs) <= len(w.payloads)
		for i := 0; prefix && i < len(real.recs); i++ {
			prefix = bytes.Equal(real.recs[i], w.payloads[i])
		}
		same := len(real.recs) == m.k
		for i := 0; same && i < m.k; i++ {
			same = hexOf(real.recs[i]) == m.recs[i]
		}
		switch {
		case !prefix:
			f.c.Violation("frame-corrupt-accepted", desc+": the real reader returned an altered record", rep, false)
		case strings.HasPrefix(real.status, "other") && w.kind == "manager":
			f.c.Violation("frame-corrupt-mismatch", desc+": real reader "+real.status, rep, true)
		case strings.HasPrefix(real.status, "other"):
			// wal.Reader's own batch-header check on a record that passed the checksum: not a framing matter
			f.c.Hist["frame:bit-flip-batch-level-error"]++
		case !same || real.status != m.status || int(real.off) != m.good:
			f.c.Violation("frame-corrupt-mismatch", fmt.Sprintf("%s: real reader %d records %s offset %d, model %d %s %d", desc, len(real.recs), real.status, real.off, m.k, m.status, m.good), rep, true)
		}
	}
}

// ---------- writing files with the real code ----------
type capWriter struct {
	pebblewal.Writer
	log *[][]byte
}

func (w capWriter) WriteRecord(p []byte, o pebblewal.SyncOptions, rc pebblewal.RefCount) (int64, error) {
	*w.log = append(*w.log, append([]byte{}, p...))
	return w.Writer.WriteRecord(p, o, rc)
}

var frameClasses = []struct {
	name string
	id   uint64
}{{"start", 0}, {"timeout", 3}, {"prevote", 1}, {"prevote-nil", 5}, {"precommit", 2}, {"proposal", 8}, {"proposal-nil", 4}}

// measure learns the encoded size of each entry class from the real encoder.
func (f *frame) measure() {
	root := f.dir("measure")
	defer os.RemoveAll(root)
	st, err := openStore(root)
	hx.Must(err)
	var got [][]byte
	if !walstore.VerifInterposeWriter(st, func(w pebblewal.Writer) pebblewal.Writer { return capWriter{w, &got} }) {
		hx.Fatalf("verif seam")
	}
	f.sizes = map[string]int{}
	for _, cl := range frameClasses {
		hx.Must(st.SetWALEntry(mkEntry(7, cl.id)))
		hx.Must(st.Flush())
		f.sizes[cl.name] = len(got[len(got)-1]) - 12
	}
	hx.Must(st.Close())
	f.c.Extra["frame_entry_sizes"] = f.sizes
}

// compose returns entry ids whose batch has exactly want payload bytes (or the nearest size above).
func (f *frame) compose(want int) []uint64 {
	for ; ; want++ {
		t := want - 12
		if t < 0 {
			continue
		}
		// fewest-coins change over the class sizes
		const inf = 1 << 30
		from := make([]int, t+1)
		cnt := make([]int, t+1)
		for i := 1; i <= t; i++ {
			from[i], cnt[i] = -1, inf
			for ci, cl := range frameClasses {
				s := f.sizes[cl.name]
				if s <= i && cnt[i-s] < inf && cnt[i-s]+1 < cnt[i] {
					from[i], cnt[i] = ci, cnt[i-s]+1
				}
			}
		}
		if t == 0 || cnt[t] >= inf {
			continue
		}
		var ids []uint64
		for i := t; i > 0; i -= f.sizes[frameClasses[from[i]].name] {
			ids = append(ids, frameClasses[from[i]].id)
		}
		return ids
	}
}

// storeFile lets the real store write one log file whose batches have the planned payload sizes.
func (f *frame) storeFile(plan []int, tag string) {
	t0 := time.Now()
	root := f.dir("store")
	defer os.RemoveAll(root)
	st, err := openStore(root)
	hx.Must(err)
	w := &written{kind: "store", lognum: 1, tag: tag}
	if !walstore.VerifInterposeWriter(st, func(x pebblewal.Writer) pebblewal.Writer { return capWriter{x, &w.payloads} }) {
		hx.Fatalf("verif seam")
	}
	for _, want := range plan {
		ids := f.compose(want)
		for _, id := range ids {
			hx.Must(st.SetWALEntry(mkEntry(7, id)))
		}
		hx.Must(st.Flush())
		w.counts = append(w.counts, len(ids))
	}
	p := filepath.Join(walDir(root), logName(1))
	w.open, err = os.ReadFile(p)
	hx.Must(err)
	hx.Must(st.Close())
	w.closed, err = os.ReadFile(p)
	hx.Must(err)
	f.tReal += time.Since(t0)
	for i, pl := range w.payloads {
		if i < len(plan) && len(pl) != plan[i] {
			f.c.Hist["frame:store-size-approximated"]++
		}
	}
	f.checkFile(w)
}

// managerFile writes arbitrary payloads through a wal.Manager configured as walstore configures it.
func (f *frame) managerFile(lognum uint64, payloads [][]byte, tag string) {
	t0 := time.Now()
	d := f.dir("mgr")
	defer os.RemoveAll(d)
	m, err := pebblewal.Init(pebblewal.Options{
		Primary:             pebblewal.Dir{FS: vfs.Default, Dirname: d},
		MinUnflushedWALNum:  1,
		Logger:              pebble.DefaultLogger,
		EventListener:       noopListener{},
		PreallocateSize:     func() int { return 0 },
		MinSyncInterval:     func() time.Duration { return 0 },
		WriteWALSyncOffsets: func() bool { return false },
	}, nil)
	hx.Must(err)
	wr, err := m.Create(pebblewal.NumWAL(lognum), 0)
	hx.Must(err)
	w := &written{kind: "manager", lognum: lognum, payloads: payloads, tag: tag}
	for _, p := range payloads {
		var wg sync.WaitGroup
		var serr error
		wg.Add(1)
		_, err := wr.WriteRecord(p, pebblewal.SyncOptions{Done: &wg, Err: &serr}, nil)
		hx.Must(err)
		wg.Wait()
		hx.Must(serr)
	}
	path := filepath.Join(d, logName(lognum))
	w.open, err = os.ReadFile(path)
	hx.Must(err)
	_, err = wr.Close()
	hx.Must(err)
	w.closed, err = os.ReadFile(path)
	hx.Must(err)
	hx.Must(m.Close())
	f.tReal += time.Since(t0)
	f.checkFile(w)
}

type noopListener struct{}

func (noopListener) LogCreated(pebblewal.CreateInfo) {}

func (f *frame) randBytes(n int) []byte {
	b := make([]byte, n)
	for i := 0; i < n; i += 8 {
		v := f.rng.U64()
		for j := 0; j < 8 && i+j < n; j++ {
			b[i+j] = byte(v >> (8 * j))
		}
	}
	if n > 0 && f.rng.Chance(20) { // runs of zeros look like block padding
		for i := f.rng.Intn(n); i < n && i < n/2+40; i++ {
			b[i] = 0
		}
	}
	return b
}

// ---------- CRC ----------
func (f *frame) crc() {
	tab := crc32.MakeTable(crc32.Castagnoli)
	lens := []int{0, 1, 2, 3, 4, 5, 7, 8, 9, 15, 16, 17, 63, 64, 65, 255, 256, 1000, 4097}
	for i := 0; i < 24; i++ {
		lens = append(lens, f.rng.Intn(3000))
	}
	inputs := [][]byte{[]byte("123456789"), bytes.Repeat([]byte{0}, 32), bytes.Repeat([]byte{0xff}, 32)}
	for _, n := range lens {
		inputs = append(inputs, f.randBytes(n))
	}
	for _, b := range inputs {
		plain := crc32.Update(0, tab, b)
		masked := uint32(plain>>15|plain<<17) + 0xa282ead8 // pebble/internal/crc.CRC.Value
		l := strings.Fields(f.or.Ask("crc "+hexOf(b), 1)[0])
		f.c.Hist["frame:crc-input"]++
		f.c.Count("frame|crc|"+strconv.Itoa(len(b)), true)
		if l[0] != strconv.FormatUint(uint64(masked), 10) || l[1] != strconv.FormatUint(uint64(plain), 10) {
			f.c.Violation("frame-crc-mismatch", fmt.Sprintf("CRC-32C of %d bytes: hash/crc32 %d (masked %d), Gallina %s (masked %s)", len(b), plain, masked, l[1], l[0]), frameReplay{Frame: "crc", Payloads: []string{hexOf(b)}}, true)
			return
		}
	}
}

// ---------- the run ----------
func runFrame(c *hx.Ctx, or *hx.Oracle, rng *hx.RNG, base string) {
	f := &frame{c: c, or: or, rng: rng, base: base, budget: 12_000_000}
	if c.Thorough() {
		f.budget = 150_000_000
	}
	start := time.Now()
	f.crc()
	f.measure()
	small := 12 + f.sizes["start"]
	// small store files: every offset is cut
	f.storeFile([]int{small}, "store:one-small")
	f.storeFile([]int{small, small + f.sizes["timeout"], 200}, "store:three-small")
	// arbitrary payloads through the manager
	mk := func(lens ...int) [][]byte {
		var r [][]byte
		for _, n := range lens {
			r = append(r, f.randBytes(n))
		}
		return r
	}
	f.managerFile(1, mk(0), "mgr:one-empty")
	f.managerFile(255, mk(0, 0, 5, 0), "mgr:empties")
	f.managerFile(256, mk(1, 11, 12, 13), "mgr:tiny")
	f.managerFile(2, mk(40, 41, 42), "mgr:even-file-number")
	f.managerFile(4294967295, mk(3, 20), "mgr:lognum-2^32-1")
	f.managerFile(4294967297, mk(20, 3), "mgr:lognum-2^32+1")
	f.managerFile(70000, mk(frBlock-2*frHdr, 9, 4), "mgr:first-chunk-without-payload")
	nr := 6
	if c.Thorough() {
		nr = 60
	}
	for i := 0; i < nr; i++ {
		var lens []int
		for k := 0; k < 1+rng.Intn(6); k++ {
			lens = append(lens, []int{0, rng.Intn(30), rng.Intn(300), rng.Intn(300)}[rng.Intn(4)])
		}
		f.managerFile(uint64(1+rng.Intn(1<<20)), mk(lens...), "mgr:random-small")
	}
	// the expensive files last (the model pays the cut offset for every cut)
	// a record that ends d bytes before the block boundary, followed by two small ones
	ds := []int{0, 10, 11}
	all := []int{1, 5, 6, 7, 8, 12, 18, 19, 20, 40}
	if c.Thorough() {
		ds = append(ds, all...)
	} else {
		ds = append(ds, all[rng.Intn(len(all))])
	}
	for _, d := range ds {
		f.storeFile([]int{frBlock - frHdr - d, small, 100}, fmt.Sprintf("store:ends-%d-before-block", d))
	}
	// records spanning blocks
	multi := [][]int{{frCap + 1, small}, {2 * frCap, small}, {2*frCap + 1, small}, {300, 70000, small}, {frCap - 30, 40000}}
	if !c.Thorough() {
		multi = [][]int{multi[rng.Intn(2)], multi[2+rng.Intn(3)]}
	}
	for _, pl := range multi {
		f.storeFile(pl, fmt.Sprintf("store:multi-block-%v", pl))
	}
	big := [][]int{{frCap, 0, 2}, {frCap - 1, 0}, {frCap + 1}, {2 * frCap, 1}, {3*frCap + 5, 0}, {frBlock - 2*frHdr - 1, 2, 0}, {frBlock - frHdr - 7, 0, 0, frCap}}
	if !c.Thorough() {
		big = [][]int{big[rng.Intn(3)], big[3+rng.Intn(4)]}
	}
	for _, pl := range big {
		f.managerFile(uint64(2+rng.Intn(1000)), mk(pl...), fmt.Sprintf("mgr:%v", pl))
	}
	c.Extra["frame_wall_s"] = time.Since(start).Seconds()
	c.Extra["frame_time_split_s"] = map[string]float64{"model": f.tModel.Seconds(), "real": f.tReal.Seconds()}
	c.Extra["frame_budget_left_bytes"] = f.budget
}

func (f *frame) replay(r frameReplay) {
	var ps [][]byte
	for _, h := range r.Payloads {
		if h == "-" {
			ps = append(ps, nil)
			continue
		}
		b, err := hex.DecodeString(h)
		hx.Must(err)
		ps = append(ps, b)
	}
	switch r.Frame {
	case "crc":
		f.crc()
	case "store":
		f.measure()
		var plan []int
		for _, p := range ps {
			plan = append(plan, len(p))
		}
		f.storeFile(plan, "replay")
	default:
		f.managerFile(r.Lognum, ps, "replay")
	}
}
