// C14 harness: the real walstore.NewTendermintWALStore on tmpfs directories, generated histories of
// append / prune / flush / close / reopen with crash points, failed flushes (RLIMIT_FSIZE) and
// cleanup sub-steps, every crash image reopened with the real store and compared with the extracted
// Coq model (build/c14_oracle); the property predicate recover_ok is evaluated on every observation.
package main

import (
	"encoding/base64"
	"encoding/binary"
	"errors"
	"fmt"
	"os"
	"os/signal"
	"path/filepath"
	"reflect"
	"sort"
	"strconv"
	"strings"
	"sync"
	"syscall"
	"time"

	"github.com/NethermindEth/juno/consensus/starknet"
	"github.com/NethermindEth/juno/consensus/types"
	"github.com/NethermindEth/juno/consensus/types/wal"
	"github.com/NethermindEth/juno/consensus/walstore"
	"github.com/NethermindEth/juno/core/felt"
	kvdb "github.com/NethermindEth/juno/db"
	"github.com/cockroachdb/pebble/v2/vfs"
	pebblewal "github.com/cockroachdb/pebble/v2/wal"
	"verifharness/hx"
)

const cleanupInterval = 256 // walstore.cleanupPruneRecordInterval; the model's constant is compared at start

// ---------- operations (the model's op type + the recipe that realises a crash on real files) ----------
type Op struct {
	K    string   `json:"k"`            // a p f ff fc fd c cc o
	H    uint64   `json:"h,omitempty"`  // height
	ID   uint64   `json:"id,omitempty"` // payload id (0 = Start entry)
	W    string   `json:"w,omitempty"`  // ff: n|p (RLIMIT_FSIZE: nothing / a few bytes written), f (hook: record written and synced, sync reported failed), e (hook: write error before anything is written)
	C    string   `json:"c,omitempty"`  // fc: new torn full tmp ren rottorn rot
	Cut  int      `json:"cut,omitempty"`
	Flip int      `json:"flip,omitempty"` // >0: flip this byte (1-based, modulo record length) of the complete record instead of cutting
	Tmp  int      `json:"tmp,omitempty"`  // bytes of watermark content in the .tmp file
	Gone []uint64 `json:"gone,omitempty"`
}

func (o Op) String() string {
	switch o.K {
	case "a":
		return fmt.Sprintf("a:%d:%d", o.H, o.ID)
	case "p":
		return fmt.Sprintf("p:%d", o.H)
	case "ff":
		w := o.W
		if w == "e" {
			w = "n"
		}
		return "ff:" + w + ":1"
	case "fc":
		return "fc:" + o.C
	case "fd":
		s := make([]string, len(o.Gone))
		for i, g := range o.Gone {
			s[i] = strconv.FormatUint(g, 10)
		}
		if len(s) == 0 {
			return "fd"
		}
		return "fd:" + strings.Join(s, ",")
	}
	return o.K
}

func opsLine(ops []Op) string {
	s := make([]string, len(ops))
	for i, o := range ops {
		s[i] = o.String()
	}
	return strings.Join(s, " ")
}

// ---------- the real store ----------
type Store = walstore.TendermintWALStore[starknet.Value, starknet.Hash, starknet.Address]

type pathDB struct {
	kvdb.KeyValueStore
	p string
}

func (d pathDB) Path() string { return d.p }

func openStore(root string) (Store, error) {
	return walstore.NewTendermintWALStore[starknet.Value, starknet.Hash, starknet.Address](pathDB{p: root})
}

// ---------- writer faults through the verif seam walstore.VerifInterposeWriter ----------
type faults struct {
	mode string // "" | "sync" | "write": consumed by the next WriteRecord
	hits int
}

type faultWriter struct {
	pebblewal.Writer
	f *faults
	o *observer
}

func (w *faultWriter) Close() (int64, error) {
	w.o.snap("close-pre", 0)
	off, err := w.Writer.Close()
	w.o.snap("close-post", 0)
	return off, err
}

var errInjected = errors.New("injected writer failure")

func (w *faultWriter) WriteRecord(p []byte, opts pebblewal.SyncOptions, rc pebblewal.RefCount) (int64, error) {
	switch w.f.mode {
	case "write": // nothing reaches the file
		w.f.mode = ""
		w.f.hits++
		return 0, errInjected
	case "sync": // the record is really written and synced, then the sync is reported as failed
		w.f.mode = ""
		w.f.hits++
		var done sync.WaitGroup
		var realErr error
		done.Add(1)
		off, err := w.Writer.WriteRecord(p, pebblewal.SyncOptions{Done: &done, Err: &realErr}, rc)
		if err != nil {
			return off, err
		}
		done.Wait()
		*opts.Err = errInjected
		opts.Done.Done()
		return off, nil
	}
	return w.Writer.WriteRecord(p, opts, rc)
}

// ---------- observing the REAL order of the store's file operations ----------
// Every writer Close (rotation / close / abort), the hand-over of the obsolete list and every removal
// the store issues goes through the verif seams; at each of these moments the log directory is
// copied: every copy is a crash image that really existed, in the order the code produced them.
type fsEvent struct {
	name string   // close-pre close-post obsolete rm-pre rm-post
	num  uint64   // file number for rm-*
	dir  string   // image root holding the copy
	gone []uint64 // files whose removal had returned when the copy was taken
}

type observer struct {
	root    string
	newRoot func() string
	on      bool
	events  []fsEvent
	gone    []uint64
	listed  []uint64 // the obsolete list of the last cleanup
}

func (o *observer) snap(name string, num uint64) {
	if o == nil || !o.on {
		return
	}
	img := o.newRoot()
	copyDir(walDir(o.root), walDir(img))
	o.events = append(o.events, fsEvent{name: name, num: num, dir: img, gone: append([]uint64{}, o.gone...)})
}

func (o *observer) take() []fsEvent {
	ev := o.events
	o.events, o.gone, o.on = nil, nil, false
	return ev
}

type obsFS struct {
	vfs.FS
	o *observer
}

func (f obsFS) Remove(name string) error {
	n, _ := strconv.ParseUint(strings.TrimSuffix(filepath.Base(name), ".log"), 10, 64)
	f.o.snap("rm-pre", n)
	err := f.FS.Remove(name)
	if err == nil {
		f.o.gone = append(f.o.gone, n)
	}
	f.o.snap("rm-post", n)
	return err
}

func (o *observer) wrapObsolete(logs []pebblewal.DeletableLog) []pebblewal.DeletableLog {
	o.gone, o.listed = nil, nil
	for i := range logs {
		o.listed = append(o.listed, uint64(logs[i].NumWAL))
		logs[i].FS = obsFS{FS: logs[i].FS, o: o}
	}
	o.snap("obsolete", 0)
	return logs
}

func openStoreF(root string, newRoot func() string) (Store, *faults, *observer, error) {
	st, err := openStore(root)
	if err != nil {
		return nil, nil, nil, err
	}
	f := &faults{}
	o := &observer{root: root, newRoot: newRoot}
	ok := walstore.VerifInterpose(st, walstore.VerifSeams{
		WrapWriter:   func(w pebblewal.Writer) pebblewal.Writer { return &faultWriter{Writer: w, f: f, o: o} },
		WrapObsolete: o.wrapObsolete,
	})
	if !ok {
		hx.Fatalf("verif seam: store is not the walstore implementation")
	}
	return st, f, o, nil
}

func walDir(root string) string { return walstore.DefaultWALDir(root) }

func mkEntry(h, id uint64) starknet.WALEntry {
	if id == 0 {
		s := wal.Start(types.Height(h))
		return &s
	}
	sender := felt.FromUint64[starknet.Address](id*7 + h)
	val := felt.FromUint64[starknet.Value](id*1000003 + h)
	hash := val.Hash()
	hdr := starknet.MessageHeader{Height: types.Height(h), Round: types.Round(id), Sender: sender}
	switch id % 4 {
	case 0:
		p := starknet.WALProposal{MessageHeader: hdr, ValidRound: types.Round(id % 3), Value: &val}
		if id%8 == 4 {
			p.Value = nil
			p.ValidRound = -1
		}
		return &p
	case 1:
		v := starknet.WALPrevote{MessageHeader: hdr, ID: &hash}
		if id%5 == 0 {
			v.ID = nil
		}
		return &v
	case 2:
		v := starknet.WALPrecommit{MessageHeader: hdr, ID: &hash}
		return &v
	default:
		t := starknet.WALTimeout{Height: types.Height(h), Round: types.Round(id), Step: types.Step(id % 3)}
		return &t
	}
}

// entryKey recovers (height, id) and checks that the whole payload came back intact.
func entryKey(e starknet.WALEntry) (uint64, uint64, bool) {
	var h, id uint64
	switch v := e.(type) {
	case *wal.Start:
		h, id = uint64(*v), 0
	case *starknet.WALProposal:
		h, id = uint64(v.Height), uint64(v.Round)
	case *starknet.WALPrevote:
		h, id = uint64(v.Height), uint64(v.Round)
	case *starknet.WALPrecommit:
		h, id = uint64(v.Height), uint64(v.Round)
	case *starknet.WALTimeout:
		h, id = uint64(v.Height), uint64(v.Round)
	default:
		return 0, 0, false
	}
	return h, id, reflect.DeepEqual(e, mkEntry(h, id))
}

func loadAll(st Store) (string, bool) {
	var parts []string
	intact := true
	for e, err := range st.LoadAllEntries() {
		if err != nil {
			return "err", false
		}
		h, id, ok := entryKey(e)
		if !ok {
			intact = false
		}
		parts = append(parts, fmt.Sprintf("%d.%d", h, id))
	}
	if len(parts) == 0 {
		return "-", intact
	}
	return strings.Join(parts, ","), intact
}

// ---------- directory helpers ----------
func logName(n uint64) string { return fmt.Sprintf("%06d.log", n) }

func listLogs(dir string) map[uint64]int64 {
	res := map[uint64]int64{}
	ents, _ := os.ReadDir(dir)
	for _, e := range ents {
		if strings.HasSuffix(e.Name(), ".log") {
			n, err := strconv.ParseUint(strings.TrimSuffix(e.Name(), ".log"), 10, 64)
			if err == nil {
				fi, _ := e.Info()
				res[n] = fi.Size()
			}
		}
	}
	return res
}

func sortedNums(m map[uint64]int64) []uint64 {
	r := make([]uint64, 0, len(m))
	for n := range m {
		r = append(r, n)
	}
	sort.Slice(r, func(i, j int) bool { return r[i] < r[j] })
	return r
}

func copyDir(src, dst string) {
	hx.Must(os.MkdirAll(dst, 0o755))
	ents, _ := os.ReadDir(src)
	for _, e := range ents {
		if e.IsDir() {
			continue
		}
		b, err := os.ReadFile(filepath.Join(src, e.Name()))
		hx.Must(err)
		hx.Must(os.WriteFile(filepath.Join(dst, e.Name()), b, 0o644))
	}
}

func readWM(dir string) []byte {
	b, err := os.ReadFile(filepath.Join(dir, "prune-watermark"))
	if err != nil {
		return nil
	}
	return b
}

func wmString(b []byte) string {
	if b == nil {
		return "none"
	}
	if len(b) < 8 {
		return "bad"
	}
	return strconv.FormatUint(binary.BigEndian.Uint64(b[len(b)-8:]), 10)
}

// recordEnds parses Pebble's record framing independently of Pebble: 32 KiB blocks, recyclable chunk
// header crc(4) len(2) type(1) lognum(4). Returns the offsets just after every complete record and
// the offset where the clean prefix ends (an EOF trailer, if present, is reported separately).
func recordEnds(b []byte, num uint64) (ends []int, trailerAt int, trailerLen int) {
	const block = 32 * 1024
	off := 0
	trailerAt = -1
	inRec := false
	for {
		rem := block - off%block
		if rem < 11 {
			off += rem
		}
		if off+11 > len(b) {
			return
		}
		ln := int(binary.LittleEndian.Uint16(b[off+4 : off+6]))
		ty := b[off+6]
		lg := binary.LittleEndian.Uint32(b[off+7 : off+11])
		if ty < 5 || ty > 8 {
			return
		}
		if lg == uint32(num)+1 && !inRec {
			trailerAt, trailerLen = off, 11+ln
			return
		}
		if lg != uint32(num) || off+11+ln > len(b) {
			return
		}
		off += 11 + ln
		switch ty {
		case 5:
			ends = append(ends, off)
		case 6:
			inRec = true
		case 8:
			inRec = false
			ends = append(ends, off)
		}
	}
}

// ---------- world: one history executed on the real store ----------
type world struct {
	c      *hx.Ctx
	or     *hx.Oracle
	rng    *hx.RNG
	base   string // scratch root of this scenario
	nimg   int
	root   string // current store root (root/consensus-wal is the log directory)
	st     Store  // nil when dead / closed
	flt    *faults
	obs    *observer
	ops    []Op
	rets   []string // real outcome per op: ok | err | crash
	scen   string
	checks int
	baseLen int // the oracle holds the state after ops[:baseLen]
}

type oracleAns struct {
	res            []string
	disk           string
	model          string
	allowedA       string
	allowedB       string
	pred, norevive string
	live           string
}

func (w *world) ask(ops []Op, obs string) oracleAns {
	if len(ops) < w.baseLen {
		hx.Fatalf("query shorter than the oracle base")
	}
	t0 := time.Now()
	pre := ""
	if obs == "sync" {
		pre, obs = "sync ", "?"
	}
	l := w.or.Ask(pre+opsLine(ops[w.baseLen:])+" # "+obs, 6)
	tOracle += time.Since(t0)
	a := oracleAns{}
	a.res = strings.Fields(strings.TrimPrefix(l[0], "res"))
	a.disk = strings.TrimPrefix(l[1], "disk ")
	a.model = strings.TrimPrefix(l[2], "model ")
	al := strings.SplitN(strings.TrimPrefix(l[3], "allowed "), " | ", 2)
	a.allowedA, a.allowedB = al[0], al[1]
	p := strings.Fields(strings.TrimPrefix(l[4], "pred"))
	a.pred, a.norevive = p[0], p[1]
	a.live = strings.TrimPrefix(l[5], "live ")
	return a
}

func (w *world) newImgRoot() string {
	w.nimg++
	r := filepath.Join(w.base, fmt.Sprintf("img%d", w.nimg))
	hx.Must(os.MkdirAll(walDir(r), 0o755))
	return r
}

type replayImage struct {
	Kind  string            `json:"kind"`
	Ops   []Op              `json:"ops"`
	Files map[string]string `json:"files"` // name -> base64
	Cont  bool              `json:"cont"`
}

func dumpDir(dir string) map[string]string {
	m := map[string]string{}
	ents, _ := os.ReadDir(dir)
	for _, e := range ents {
		b, _ := os.ReadFile(filepath.Join(dir, e.Name()))
		m[e.Name()] = base64.StdEncoding.EncodeToString(b)
	}
	return m
}

func classify(a oracleAns, obs string) string {
	if obs == "err" {
		return "open-error"
	}
	if a.norevive == "0" {
		return "revived-pruned"
	}
	set := func(s string) map[string]int {
		m := map[string]int{}
		if s != "-" {
			for _, x := range strings.Split(s, ",") {
				m[x]++
			}
		}
		return m
	}
	strip0 := func(s string) string {
		var r []string
		if s != "-" {
			for _, x := range strings.Split(s, ",") {
				if !strings.HasPrefix(x, "0.") {
					r = append(r, x)
				}
			}
		}
		return strings.Join(r, ",")
	}
	if so := strip0(obs); so == strip0(a.allowedA) || so == strip0(a.allowedB) {
		return "height0-dropped" // the only discrepancy concerns entries of height 0
	}
	o, la, lb := set(obs), set(a.allowedA), set(a.allowedB)
	for k, n := range o {
		if n > lb[k] && lb[k] > 0 {
			return "duplicate-entry"
		}
	}
	lost, lostZero := 0, 0
	for k, n := range la {
		if o[k] < n {
			lost++
			if strings.HasPrefix(k, "0.") {
				lostZero++
			}
		}
	}
	if lost > 0 && lost == lostZero {
		return "height0-dropped"
	}
	if lost > 0 {
		return "lost-acked"
	}
	extra, missing := 0, 0
	for k, n := range lb {
		if o[k] < n {
			missing++
		}
		if o[k] > la[k] {
			extra++
		}
	}
	if extra > 0 && missing > 0 {
		return "partial-batch"
	}
	if lost == 0 {
		for k, n := range o {
			if n > lb[k] && lb[k] > 0 {
				return "duplicate-entry"
			}
		}
		for k, n := range o {
			if n > lb[k] {
				return "unacknowledged-entry-durable"
			}
		}
	}
	for k, n := range o {
		if n > lb[k] {
			return "foreign-entry"
		}
	}
	return "order"
}

// checkImage opens a crash image with the real store and compares with the model and the predicate.
// ops = history whose last op is the crash (or close/reopen) that produced the image. img is consumed.
func (w *world) checkImage(ops []Op, img string, kind string, cont bool, altCrash *Op) {
	files := map[string]string(nil)
	snapshot := func() {
		if files == nil {
			files = map[string]string{}
		}
	}
	_ = snapshot
	t0 := time.Now()
	pre := dumpDirLazy(walDir(img))
	tDump += time.Since(t0)
	t0 = time.Now()
	st, err := openStore(img)
	obs := "err"
	intact := true
	if err == nil {
		obs, intact = loadAll(st)
	}
	tOpen += time.Since(t0)
	full := append(append([]Op{}, ops...), Op{K: "o"})
	a := w.ask(ops, obs) // the model line is the model's reopen of the final disk; the predicate sees acked / in-flight as they were at the crash
	key := kind
	rep := func() any { return replayImage{Kind: kind, Ops: ops, Files: pre(), Cont: cont} }
	w.c.Hist["image:"+kind]++
	if a.pred != "1" {
		cl := classify(a, obs)
		if cl != "height0-dropped" {
			cl += ":" + kind
		}
		w.c.Violation(cl, fmt.Sprintf("image %s of history [%s]: reopen gave %s, allowed %s | %s%s", kind, short(opsLine(ops)), short(obs), short(a.allowedA), short(a.allowedB), errStr(err)), rep(), false)
	} else if !intact {
		w.c.Violation("payload-changed:"+kind, fmt.Sprintf("image %s: an entry came back with a different payload", kind), rep(), false)
	} else if obs != a.model {
		ok := false
		if altCrash != nil {
			alt := append(append([]Op{}, ops[:len(ops)-1]...), *altCrash)
			ok = w.ask(alt, obs).model == obs
		}
		if !ok {
			w.c.Violation("model-mismatch:"+kind, fmt.Sprintf("image %s of [%s]: real %s, model %s (predicate holds)", kind, short(opsLine(ops)), short(obs), short(a.model)), rep(), true)
		}
	}
	w.c.Count(key+"|"+obs, obs != "-")
	if err != nil {
		os.RemoveAll(img)
		return
	}
	if cont && a.pred == "1" && obs == a.model {
		// the recovered log must be usable: append, flush, close, reopen
		h := uint64(900000 + w.rng.Intn(5))
		e1 := st.SetWALEntry(mkEntry(h, 77))
		e2 := st.Flush()
		e3 := st.Close()
		st2, e4 := openStore(img)
		obs2 := "err"
		if e4 == nil {
			obs2, _ = loadAll(st2)
			st2.Close()
		}
		more := append(append([]Op{}, full...), Op{K: "a", H: h, ID: 77}, Op{K: "f"}, Op{K: "c"}, Op{K: "o"})
		a2 := w.ask(more, obs2)
		w.c.Hist["image-continued"]++
		if e1 == nil && e2 == nil && e3 == nil && e4 == nil && a2.pred != "1" && classify(a2, obs2) == "height0-dropped" {
			w.c.Violation("height0-dropped", fmt.Sprintf("after reopening image %s and appending: got %s allowed %s", kind, short(obs2), short(a2.allowedA)), rep(), false)
		} else if e1 != nil || e2 != nil || e3 != nil || e4 != nil || a2.pred != "1" {
			w.c.Violation("unusable-after-recovery:"+kind, fmt.Sprintf("after reopening image %s: set=%v flush=%v close=%v reopen=%v got %s allowed %s", kind, e1, e2, e3, e4, short(obs2), short(a2.allowedA)), rep(), false)
		} else if obs2 != a2.model {
			w.c.Violation("model-mismatch-continued:"+kind, fmt.Sprintf("real %s model %s", short(obs2), short(a2.model)), rep(), true)
		}
		w.c.Count(key+"|cont|"+obs2, true)
	} else {
		st.Close()
	}
	os.RemoveAll(img)
}

func dumpDirLazy(dir string) func() map[string]string {
	// the image is modified by opening it; keep a copy of the bytes only in memory
	m := dumpDir(dir)
	return func() map[string]string { return m }
}

func errStr(err error) string {
	if err == nil {
		return ""
	}
	return " (error: " + short(err.Error()) + ")"
}

func short(s string) string {
	if len(s) > 300 {
		return s[:140] + " ... " + s[len(s)-140:]
	}
	return s
}

// ---------- executing ordinary ops ----------
func (w *world) exec(o Op) {
	ret := "ok"
	switch o.K {
	case "a":
		if w.st == nil {
			ret = "err"
		} else if err := w.st.SetWALEntry(mkEntry(o.H, o.ID)); err != nil {
			ret = "err"
		}
	case "p":
		if w.st == nil {
			ret = "err"
		} else if err := w.st.DeleteWALEntries(types.Height(o.H)); err != nil {
			ret = "err"
		}
	case "f":
		if w.st == nil {
			ret = "err"
		} else if err := w.st.Flush(); err != nil {
			ret = "err"
		}
	case "ff":
		ret = w.failedFlush(o)
		defer w.afterFailedFlush()
	case "c":
		if w.st != nil {
			if err := w.st.Close(); err != nil {
				ret = "err"
			}
			w.st = nil
		}
	case "o":
		if w.st != nil { // reopen of a store that was not closed = crash at an idle moment: abandon the handle, reopen a copy
			img := w.newImgRoot()
			copyDir(walDir(w.root), walDir(img))
			w.root = img
			w.st = nil
		}
		st, flt, obs, err := openStoreF(w.root, w.newImgRoot)
		if err != nil {
			ret = "err"
		} else {
			w.st, w.flt, w.obs = st, flt, obs
		}
	default:
		hx.Fatalf("exec: op %s", o.K)
	}
	if len(w.ops)-w.baseLen > 6 { // nothing outstanding refers to a shorter prefix here
		w.or.Ask("adv "+opsLine(w.ops[w.baseLen:]), 1)
		w.baseLen = len(w.ops)
	}
	w.ops = append(w.ops, o)
	w.rets = append(w.rets, ret)
	w.c.Hist["op:"+o.K]++
}

// afterFailedFlush: the same instance and a crash image taken right after the failed call must show
// nothing of the failed batch (C14_flush_fail_clean: sdur, sack and the reopen result unchanged).
func (w *world) afterFailedFlush() {
	if w.st == nil {
		return
	}
	w.sync("after-failed-flush")
	img := w.newImgRoot()
	copyDir(walDir(w.root), walDir(img))
	w.checkImage(append([]Op{}, w.ops...), img, "after-failed-flush", w.rng.Chance(50), nil)
}

// failedFlush makes the record write fail through RLIMIT_FSIZE: the kernel cuts the write at the limit
// (W=p: a few bytes of the record reach the file, W=n: none) and returns EFBIG.
func (w *world) failedFlush(o Op) string {
	if w.st == nil {
		return "err"
	}
	a := w.ask(w.ops, "?")
	cur := field(a.disk, "cur")
	pend := field(a.disk, "pend")
	if pend == "0" { // nothing would be written
		if err := w.st.Flush(); err != nil {
			return "err"
		}
		return "ok"
	}
	if o.W == "f" || o.W == "e" {
		w.flt.mode = map[string]string{"f": "sync", "e": "write"}[o.W]
		err := w.st.Flush()
		w.c.Hist["failed-flush-injected:"+w.flt.mode+o.W]++
		if w.flt.mode != "" || err == nil {
			w.flt.mode = ""
			w.c.Violation("fault-injection-ineffective", fmt.Sprintf("Flush under an injected writer failure (%s) returned %v", o.W, err), w.ops, true)
			if err == nil {
				return "ok"
			}
		}
		return "err"
	}
	var size int64
	if cur != "none" {
		n, _ := strconv.ParseUint(cur, 10, 64)
		size = listLogs(walDir(w.root))[n]
	}
	slack := int64(0)
	if o.W == "p" {
		slack = int64(1 + o.Cut%30)
	}
	var old syscall.Rlimit
	hx.Must(syscall.Getrlimit(syscall.RLIMIT_FSIZE, &old))
	hx.Must(syscall.Setrlimit(syscall.RLIMIT_FSIZE, &syscall.Rlimit{Cur: uint64(size + slack), Max: old.Max}))
	err := w.st.Flush()
	hx.Must(syscall.Setrlimit(syscall.RLIMIT_FSIZE, &old))
	w.c.Hist["failed-flush-injected"]++
	if err == nil {
		w.c.Violation("fault-injection-ineffective", "Flush succeeded under RLIMIT_FSIZE", w.ops, true)
		return "ok"
	}
	return "err"
}

func field(disk, name string) string {
	for _, f := range strings.Fields(disk) {
		if strings.HasPrefix(f, name+":") {
			return strings.TrimPrefix(f, name+":")
		}
	}
	return ""
}

// ---------- crash points ----------
type flushShot struct {
	before   map[uint64]int64
	after    map[uint64]int64
	baseDir  string // copy of the log directory before the flush
	target   uint64 // file the record went to (0 = nothing was written)
	isNew    bool
	content  []byte // whole target file after the flush (through a hard link, survives deletion)
	sizeA    int
	recEnd   int
	trailer  []byte
	cleanup  bool
	wmBefore []byte
	wmAfter  []byte
	deleted  []uint64
	err      error
}

// shoot runs Flush (or Close) on the real store and collects what is needed to build every
// intermediate disk state of that call.
func (w *world) shoot(closing bool) *flushShot {
	dir := walDir(w.root)
	s := &flushShot{before: listLogs(dir), wmBefore: readWM(dir)}
	s.baseDir = filepath.Join(w.base, fmt.Sprintf("base%d", w.nimg+1))
	w.nimg++
	copyDir(dir, s.baseDir)
	links := filepath.Join(w.base, fmt.Sprintf("links%d", w.nimg))
	hx.Must(os.MkdirAll(links, 0o755))
	for n := range s.before {
		hx.Must(os.Link(filepath.Join(dir, logName(n)), filepath.Join(links, logName(n))))
	}
	if closing {
		s.err = w.st.Close()
		w.st = nil
	} else {
		s.err = w.st.Flush()
	}
	s.after = listLogs(dir)
	s.wmAfter = readWM(dir)
	for n := range s.after {
		if _, ok := s.before[n]; !ok {
			s.target, s.isNew = n, true
			b, _ := os.ReadFile(filepath.Join(dir, logName(n)))
			s.content = b
		}
	}
	if s.target == 0 {
		for n, sz := range s.before {
			fi, err := os.Stat(filepath.Join(links, logName(n)))
			if err == nil && fi.Size() > sz {
				s.target = n
				s.content, _ = os.ReadFile(filepath.Join(links, logName(n)))
				s.sizeA = int(sz)
			}
		}
	}
	for n := range s.before {
		if _, ok := s.after[n]; !ok {
			s.deleted = append(s.deleted, n)
		}
	}
	sort.Slice(s.deleted, func(i, j int) bool { return s.deleted[i] < s.deleted[j] })
	os.RemoveAll(links)
	if s.target != 0 {
		ends, tAt, tLen := recordEnds(s.content, s.target)
		s.recEnd = s.sizeA
		for _, e := range ends {
			if e > s.sizeA {
				s.recEnd = e
				break
			}
		}
		if tAt >= 0 && tAt >= s.recEnd {
			s.trailer = s.content[tAt : tAt+tLen]
			_ = tLen
		}
	}
	s.cleanup = string(s.wmBefore) != string(s.wmAfter) || len(s.deleted) > 0
	return s
}

// build materialises the crash image named by op from a shot. ok=false: not realisable here.
func (w *world) build(s *flushShot, o Op) (string, bool) {
	t0 := time.Now()
	defer func() { tBuild += time.Since(t0) }()
	img := w.newImgRoot()
	d := walDir(img)
	copyDir(s.baseDir, d)
	put := func(n int) { hx.Must(os.WriteFile(filepath.Join(d, logName(s.target)), s.content[:n], 0o644)) }
	recLen := s.recEnd - s.sizeA
	if s.target == 0 || recLen <= 0 { // nothing was written by this call
		if o.K == "cc" && s.target != 0 && len(s.trailer) > 1 {
			put(s.recEnd + 1 + o.Cut%(len(s.trailer)-1))
		}
		return img, true
	}
	c := o.C
	if o.K == "fd" {
		c = "fd"
	}
	if o.K == "cc" {
		c = "cc"
	}
	if !s.cleanup && (c == "tmp" || c == "ren" || c == "rottorn" || c == "rot" || c == "fd") {
		c = "full"
	}
	switch c {
	case "new":
		if !s.isNew {
			os.RemoveAll(img)
			return "", false
		}
		put(0)
	case "torn":
		if o.Flip > 0 {
			b := append([]byte{}, s.content[:s.recEnd]...)
			b[s.sizeA+(o.Flip-1)%recLen] ^= byte(1 << (o.Flip % 8))
			hx.Must(os.WriteFile(filepath.Join(d, logName(s.target)), b, 0o644))
		} else {
			if recLen < 2 {
				os.RemoveAll(img)
				return "", false
			}
			put(s.sizeA + 1 + o.Cut%(recLen-1))
		}
	case "full":
		put(s.recEnd)
	case "tmp":
		put(s.recEnd)
		n := o.Tmp
		if n > len(s.wmAfter) {
			n = len(s.wmAfter)
		}
		hx.Must(os.WriteFile(filepath.Join(d, "prune-watermark.tmp"), s.wmAfter[:n], 0o644))
	case "ren", "rottorn", "rot", "fd":
		put(s.recEnd)
		hx.Must(os.WriteFile(filepath.Join(d, "prune-watermark"), s.wmAfter, 0o644))
		if c == "rottorn" {
			if len(s.trailer) < 2 {
				os.RemoveAll(img)
				return "", false
			}
			put(s.recEnd + 1 + o.Cut%(len(s.trailer)-1))
		}
		if c == "rot" || c == "fd" {
			put(s.recEnd + len(s.trailer))
		}
		if c == "fd" {
			del := map[uint64]bool{}
			for _, n := range s.deleted {
				del[n] = true
			}
			for _, n := range o.Gone {
				if del[n] {
					os.Remove(filepath.Join(d, logName(n)))
				}
			}
		}
	case "cc":
		if s.cleanup || len(s.trailer) < 2 {
			// rotation already closed the writer: Close has no trailer of its own to tear
			os.RemoveAll(d)
			copyDir(walDir(w.root), d)
			return img, true
		}
		put(s.recEnd + 1 + o.Cut%(len(s.trailer)-1))
	}
	return img, true
}

func subsets(del []uint64, rng *hx.RNG, max int) [][]uint64 {
	var res [][]uint64
	n := len(del)
	if n <= 3 {
		for m := 0; m < 1<<n; m++ {
			var s []uint64
			for i := 0; i < n; i++ {
				if m>>i&1 == 1 {
					s = append(s, del[i])
				}
			}
			res = append(res, s)
		}
		return res
	}
	res = append(res, nil, del)
	for i := 1; i < n && len(res) < max; i++ { // prefixes (the order the code removes in) and suffixes
		res = append(res, del[:i], del[i:])
	}
	for i := 0; i < n && len(res) < max+n; i++ { // all but one, only one
		res = append(res, []uint64{del[i]})
		var s []uint64
		s = append(s, del[:i]...)
		s = append(s, del[i+1:]...)
		res = append(res, s)
	}
	for k := 0; k < 6; k++ {
		var s []uint64
		for _, x := range del {
			if rng.Bool() {
				s = append(s, x)
			}
		}
		res = append(res, s)
	}
	return res
}

// realOrder: the directory copies taken at every file operation of a cleanup are crash images that really
// existed. Each is reopened with the real store (predicate + model), the removal subsets are built from the
// directory as it was when the removals began (not from the final state), and the observed operation order is
// compared with the model's sub-step sequence: watermark tmp + rename, rotation, removals in ascending order.
func (w *world) realOrder(prefix []Op, s *flushShot, events []fsEvent, listed []uint64) bool {
	hasObs := false
	for _, e := range events {
		if e.name == "obsolete" {
			hasObs = true
		}
	}
	if !hasObs {
		for _, e := range events {
			os.RemoveAll(e.dir)
		}
		return false
	}
	w.c.Hist["real-order:cleanup-observed"]++
	with := func(o Op) []Op { return append(append([]Op{}, prefix...), o) }
	// 1. order of operations and the watermark at each of them
	var names, want []string
	for _, e := range events {
		n := e.name
		if strings.HasPrefix(n, "rm-") {
			n += ":" + strconv.FormatUint(e.num, 10)
		}
		names = append(names, n)
	}
	want = append(want, "close-pre", "close-post", "obsolete")
	for _, n := range listed {
		want = append(want, fmt.Sprintf("rm-pre:%d", n), fmt.Sprintf("rm-post:%d", n))
	}
	a := w.ask(w.ops, "?")
	wmWant := field(a.disk, "wm")
	bad := ""
	if strings.Join(names, " ") != strings.Join(want, " ") {
		bad = "the sequence of writer-close / obsolete / remove operations differs from rotation, then removals in ascending order"
	}
	for _, e := range events {
		d := walDir(e.dir)
		_, tmpErr := os.Stat(filepath.Join(d, "prune-watermark.tmp"))
		if got := wmString(readWM(d)); bad == "" && (got != wmWant || tmpErr == nil) {
			bad = fmt.Sprintf("at %s the prune-watermark file holds %s (tmp present: %v); the model's sequence has it renamed to %s before the rotation and before any removal", e.name, got, tmpErr == nil, wmWant)
		}
	}
	if bad != "" {
		w.c.Violation("cleanup-order", fmt.Sprintf("%s; observed [%s] in the flush after [%s]", bad, strings.Join(names, " "), short(opsLine(prefix))), w.ops, true)
	}
	// 2. every observed directory is a crash image of the model's corresponding sub-step
	obsCopy := ""
	for _, e := range events {
		var op Op
		switch e.name {
		case "close-pre":
			op = Op{K: "fc", C: "ren"}
		case "close-post", "obsolete":
			op = Op{K: "fc", C: "rot"}
		default:
			op = Op{K: "fd", Gone: e.gone}
		}
		if e.name == "obsolete" {
			obsCopy = w.newImgRoot()
			copyDir(walDir(e.dir), walDir(obsCopy))
		}
		w.checkImage(with(op), e.dir, "real:"+e.name, w.rng.Chance(30), nil)
	}
	// 3. the removals are not ordered by a directory sync: any subset of the listed files may be gone,
	//    starting from the directory as it really was when the removals began
	for _, g := range subsets(listed, w.rng, 24) {
		img := w.newImgRoot()
		copyDir(walDir(obsCopy), walDir(img))
		for _, n := range g {
			os.Remove(filepath.Join(walDir(img), logName(n)))
		}
		w.checkImage(with(Op{K: "fd", Gone: g}), img, fmt.Sprintf("realfd:%dof%d", len(g), len(listed)), w.rng.Chance(30), nil)
	}
	os.RemoveAll(obsCopy)
	return true
}

// flushWithImages performs a real Flush and checks every crash image of it (quick: boundaries +-2 and
// random cuts; thorough: every byte). Returns the shot so that the caller may adopt one image.
func (w *world) flushWithImages(dense bool) {
	if w.st == nil {
		w.exec(Op{K: "f"})
		return
	}
	prefix := append([]Op{}, w.ops...)
	if w.obs != nil {
		w.obs.on = true
	}
	s := w.shoot(false)
	var events []fsEvent
	var listed []uint64
	if w.obs != nil {
		events, listed = w.obs.take(), w.obs.listed
	}
	ret := "ok"
	if s.err != nil {
		ret = "err"
	}
	w.ops = append(w.ops, Op{K: "f"})
	w.rets = append(w.rets, ret)
	w.c.Hist["op:f"]++
	defer os.RemoveAll(s.baseDir)
	realRemovals := w.realOrder(prefix, s, events, listed)
	recLen := s.recEnd - s.sizeA
	if s.target == 0 || recLen <= 0 {
		return
	}
	var crashes []Op
	if s.isNew {
		crashes = append(crashes, Op{K: "fc", C: "new"})
	}
	cuts := map[int]bool{0: true, 1: true, recLen - 2: true, recLen - 3: true, 10: true, 11: true}
	// chunk boundaries inside a multi-chunk record
	for off := (s.sizeA/32768 + 1) * 32768; off < s.recEnd; off += 32768 {
		for _, dlt := range []int{-3, -2, -1, 0, 1, 10, 11} {
			cuts[off-s.sizeA-1+dlt] = true
		}
	}
	nr := 3
	if dense {
		nr = 40
	}
	if w.c.Thorough() && recLen < 1200 && w.rng.Chance(25) {
		for i := 0; i < recLen-1; i++ {
			cuts[i] = true
		}
	}
	for i := 0; i < nr; i++ {
		cuts[w.rng.Intn(recLen)] = true
	}
	for cu := range cuts {
		if cu >= 0 && cu < recLen-1 {
			crashes = append(crashes, Op{K: "fc", C: "torn", Cut: cu})
		}
	}
	for i := 0; i < nr/2+1; i++ {
		crashes = append(crashes, Op{K: "fc", C: "torn", Flip: 1 + w.rng.Intn(recLen*8)})
	}
	crashes = append(crashes, Op{K: "fc", C: "full"})
	if s.cleanup {
		for _, t := range []int{0, 1, 26, 27, 34, 35} {
			crashes = append(crashes, Op{K: "fc", C: "tmp", Tmp: t})
		}
		crashes = append(crashes, Op{K: "fc", C: "ren"})
		for i := 0; i+1 < len(s.trailer); i++ {
			crashes = append(crashes, Op{K: "fc", C: "rottorn", Cut: i})
		}
		crashes = append(crashes, Op{K: "fc", C: "rot"})
		if !realRemovals { // otherwise the removal images were built from the observed directory
			for _, g := range subsets(s.deleted, w.rng, 24) {
				crashes = append(crashes, Op{K: "fd", Gone: g})
			}
		}
		w.c.Hist["cleanup-flush-imaged"]++
		w.c.Hist[fmt.Sprintf("cleanup-deleted-files:%d", min(len(s.deleted), 5))]++
	}
	sort.Slice(crashes, func(i, j int) bool { return fmt.Sprint(crashes[i]) < fmt.Sprint(crashes[j]) })
	for _, co := range crashes {
		img, ok := w.build(s, co)
		if !ok {
			continue
		}
		kind := co.K + ":" + co.C
		var alt *Op
		if co.Flip > 0 {
			kind = "fc:flip"
			alt = &Op{K: "fc", C: "full"}
		}
		if co.K == "fd" {
			kind = fmt.Sprintf("fd:%dof%d", len(co.Gone), len(s.deleted))
		}
		w.checkImage(append(append([]Op{}, prefix...), co), img, kind, w.rng.Chance(30), alt)
	}
}

// crashHere makes the history itself continue from a crash image of this flush / close.
func (w *world) crashHere(o Op) bool {
	if w.st == nil {
		return false
	}
	prefix := append([]Op{}, w.ops...)
	s := w.shoot(o.K == "cc")
	defer os.RemoveAll(s.baseDir)
	img, ok := w.build(s, o)
	if !ok || s.err != nil {
		// not realisable: the call simply happened
		k := "f"
		if o.K == "cc" {
			k = "c"
		}
		w.ops = append(prefix, Op{K: k})
		r := "ok"
		if s.err != nil {
			r = "err"
		}
		w.rets = append(w.rets, r)
		return false
	}
	w.ops = append(prefix, o)
	w.rets = append(w.rets, "crash")
	w.st = nil // the old handle is abandoned (its files stay in the old directory)
	w.root = img
	w.c.Hist["crash-adopted:"+o.K+":"+o.C]++
	return true
}

// sync compares the live path with the model: return codes, log files, watermark, LoadAllEntries.
func (w *world) sync(where string) {
	w.checks++
	a := w.ask(w.ops, "sync")
	for i, r := range w.rets {
		m := a.res[i]
		okm := m == "ok"
		if (r == "ok") != okm && !(r == "crash" && strings.HasPrefix(m, "crash")) {
			w.c.Violation("result-mismatch:"+w.ops[i].K, fmt.Sprintf("%s: op %d (%s) real %s model %s in [%s]", where, i, w.ops[i], r, m, short(opsLine(w.ops))), w.ops, true)
			return
		}
	}
	dir := walDir(w.root)
	logs := listLogs(dir)
	var parts []string
	for _, n := range sortedNums(logs) {
		b, _ := os.ReadFile(filepath.Join(dir, logName(n)))
		ends, _, _ := recordEnds(b, n)
		parts = append(parts, fmt.Sprintf("f:%d:%d", n, len(ends)))
	}
	real := strings.Join(parts, " ") + " wm:" + wmString(readWM(dir))
	var mparts []string
	for _, f := range strings.Fields(a.disk) {
		if strings.HasPrefix(f, "f:") {
			mparts = append(mparts, f[:strings.LastIndex(f, ":")])
		}
	}
	model := strings.Join(mparts, " ") + " wm:" + field(a.disk, "wm")
	if strings.TrimSpace(real) != strings.TrimSpace(model) {
		w.c.Violation("disk-mismatch", fmt.Sprintf("%s: real files [%s] model [%s] after [%s]", where, real, model, short(opsLine(w.ops))), w.ops, true)
	}
	if w.st != nil && a.live != "dead" {
		got, _ := loadAll(w.st)
		if got != a.live {
			w.c.Violation("live-load-mismatch", fmt.Sprintf("%s: LoadAllEntries real %s model %s", where, short(got), short(a.live)), w.ops, true)
		}
	}
	w.c.Count("sync|"+w.scen+"|"+real, true)
}

// ---------- scenario generators ----------
func (w *world) reset(scen string) {
	w.scen = scen
	w.root = filepath.Join(w.base, fmt.Sprintf("%s-%d", scen, w.nimg))
	w.nimg++
	hx.Must(os.MkdirAll(w.root, 0o755))
	w.st = nil
	w.ops = nil
	w.rets = nil
	w.or.Ask("reset", 1)
	w.baseLen = 0
	w.exec(Op{K: "o"})
}

func (w *world) finish() {
	w.sync("end")
	// final clean close + reopen must also satisfy the predicate
	if w.st != nil {
		w.exec(Op{K: "c"})
	}
	img := w.newImgRoot()
	copyDir(walDir(w.root), walDir(img))
	w.checkImage(append([]Op{}, w.ops...), img, "closed", true, nil)
	w.st = nil
}

var nextID uint64 = 1
var tOracle, tDump, tOpen, tBuild time.Duration

func (w *world) id() uint64 {
	nextID++
	if w.rng.Chance(4) {
		return 0
	}
	return nextID
}

// driverLike: heights advance, each height gets some entries, a flush, a prune and a flush - like
// consensus/driver - for more than the cleanup interval, with stale heights that keep old files alive.
func (w *world) driverLike(heights int, pruneLag int) {
	w.reset("driver")
	h := uint64(1 + w.rng.Intn(3))
	lifetimeFlushes := 0
	for i := 0; i < heights; i++ {
		n := 1 + w.rng.Intn(3)
		if w.rng.Chance(2) {
			n = 350 + w.rng.Intn(200) // a record that spans 32 KiB blocks
		}
		for j := 0; j < n; j++ {
			hh := h
			if w.rng.Chance(8) {
				hh = h + uint64(1+w.rng.Intn(3)) // messages of future heights
			}
			if w.rng.Chance(3) && h > 4 {
				hh = h - uint64(1+w.rng.Intn(4)) // late message of an old (maybe pruned) height
			}
			w.exec(Op{K: "a", H: hh, ID: w.id()})
			if w.rng.Chance(15) {
				w.flushMaybeImaged(3, false)
			}
		}
		w.flushMaybeImaged(3, n > 300)
		if int(h) > pruneLag {
			ph := h - uint64(pruneLag)
			if w.rng.Chance(3) {
				ph = h + 2 // prune ahead
			}
			w.exec(Op{K: "p", H: ph})
			if w.rng.Chance(10) {
				w.exec(Op{K: "p", H: ph + 1}) // merged into the pending prune record
			}
			a := w.ask(w.ops, "?")
			since, _ := strconv.Atoi(field(a.disk, "since"))
			pend := field(a.disk, "pend")
			if since >= cleanupInterval-1 && pend != "0" {
				// this flush runs the cleanup
				switch w.rng.Intn(5) {
				case 0:
					co := []Op{{K: "fc", C: "tmp", Tmp: 35}, {K: "fc", C: "ren"}, {K: "fc", C: "rot"}, {K: "fc", C: "rottorn", Cut: 3}, {K: "fd", Gone: []uint64{uint64(1 + w.rng.Intn(4))}}}[w.rng.Intn(5)]
					if w.crashHere(co) {
						w.exec(Op{K: "o"})
						lifetimeFlushes = 0
					}
				default:
					w.flushWithImages(false)
				}
				w.sync("after-cleanup")
			} else {
				w.flushMaybeImaged(2, false)
			}
		}
		lifetimeFlushes++
		h++
		// reopen / crash / failure, kept rare enough that a lifetime reaches the cleanup interval
		r := w.rng.Intn(1000)
		switch {
		case r < 4:
			w.exec(Op{K: "c"})
			w.exec(Op{K: "o"})
		case r < 7:
			w.exec(Op{K: "o"}) // killed while idle
		case r < 12:
			w.exec(Op{K: "a", H: h, ID: w.id()})
			w.exec(Op{K: "ff", W: []string{"n", "p", "f", "e", "f"}[w.rng.Intn(5)], Cut: w.rng.Intn(30)})
			if w.rng.Bool() {
				w.flushMaybeImaged(100, false)
			}
		case r < 15:
			w.exec(Op{K: "a", H: h, ID: w.id()})
			if w.crashHere(Op{K: "fc", C: []string{"torn", "full", "new"}[w.rng.Intn(3)], Cut: w.rng.Intn(1000)}) {
				w.exec(Op{K: "o"})
			}
		case r < 17:
			w.exec(Op{K: "a", H: h, ID: w.id()})
			if w.crashHere(Op{K: "cc", Cut: w.rng.Intn(10)}) {
				w.exec(Op{K: "o"})
			}
		}
		if i%97 == 96 {
			w.sync("periodic")
		}
	}
	w.finish()
}

func (w *world) flushMaybeImaged(pct int, dense bool) {
	if w.rng.Chance(pct) || dense {
		w.flushWithImages(dense)
	} else {
		w.exec(Op{K: "f"})
	}
}

// adversarial: short histories over a tiny universe, every flush imaged.
func (w *world) adversarial(n int, withZero bool) {
	w.reset("adv")
	lo := 1
	if withZero {
		lo = 0
	}
	for i := 0; i < n; i++ {
		r := w.rng.Intn(100)
		switch {
		case r < 40:
			w.exec(Op{K: "a", H: uint64(lo + w.rng.Intn(7-lo)), ID: w.id()})
		case r < 55:
			w.exec(Op{K: "p", H: uint64(lo + w.rng.Intn(6))})
		case r < 75:
			w.flushWithImages(false)
		case r < 80:
			w.exec(Op{K: "c"})
			w.exec(Op{K: "o"})
		case r < 84:
			w.exec(Op{K: "o"})
		case r < 88:
			w.exec(Op{K: "ff", W: []string{"n", "p", "f", "e", "f"}[w.rng.Intn(5)], Cut: w.rng.Intn(30)})
		case r < 94:
			if w.crashHere(Op{K: "fc", C: []string{"torn", "full", "new", "torn"}[w.rng.Intn(4)], Cut: w.rng.Intn(1000), Flip: w.rng.Intn(2) * w.rng.Intn(400)}) {
				w.exec(Op{K: "o"})
			}
		case r < 97:
			if w.crashHere(Op{K: "cc", Cut: w.rng.Intn(10)}) {
				w.exec(Op{K: "o"})
			}
		default:
			w.exec(Op{K: "c"}) // closed store: every call must be refused, reopen works
			w.exec(Op{K: "a", H: 3, ID: w.id()})
			w.exec(Op{K: "f"})
			w.exec(Op{K: "o"})
		}
	}
	w.finish()
}

// cleanupFocused: several lifetimes leave files behind, some heights stay live in chosen files, then
// one lifetime issues more than cleanupInterval prune flushes with tiny batches.
func (w *world) cleanupFocused() {
	w.reset("cleanup")
	h := uint64(1)
	lives := 2 + w.rng.Intn(4)
	sticky := uint64(100000)
	for l := 0; l < lives; l++ {
		for k := 0; k < 1+w.rng.Intn(3); k++ {
			w.exec(Op{K: "a", H: h, ID: w.id()})
			if w.rng.Chance(30) {
				w.exec(Op{K: "a", H: sticky + uint64(l), ID: w.id()}) // keeps this file referenced
			}
			w.exec(Op{K: "f"})
			if w.rng.Chance(50) {
				w.exec(Op{K: "p", H: h})
				w.exec(Op{K: "f"})
			}
			h++
		}
		if w.rng.Bool() {
			w.exec(Op{K: "c"})
		}
		w.exec(Op{K: "o"})
	}
	rounds := 1 + w.rng.Intn(2)
	for r := 0; r < rounds; r++ {
		for i := 0; i < cleanupInterval+3; i++ {
			if w.rng.Chance(30) {
				w.exec(Op{K: "a", H: h + 1, ID: w.id()})
			}
			w.exec(Op{K: "p", H: h})
			h++
			if r == rounds-1 && i == cleanupInterval/2 {
				w.exec(Op{K: "p", H: sticky + uint64(w.rng.Intn(lives+1))}) // releases the sticky heights (or not)
				h = sticky + uint64(lives) + 2
			}
			a := w.ask(w.ops, "?")
			since, _ := strconv.Atoi(field(a.disk, "since"))
			if since >= cleanupInterval-1 && field(a.disk, "pend") != "0" {
				w.flushWithImages(false)
				w.sync("after-cleanup")
			} else {
				w.exec(Op{K: "f"})
			}
		}
	}
	w.finish()
}

// spreadHeights: heights whose entries are spread over several log files (a restart or a cleanup
// rotation between two flushes of the same height), other heights that live only in the later file,
// then more than cleanupInterval prune flushes that prune the spread heights but not the others:
// the per-file reference counts decide which files the cleanup removes.
func (w *world) spreadHeights() {
	w.reset("spread")
	nSpread := 1 + w.rng.Intn(3)
	base := uint64(20 + w.rng.Intn(60))
	var spread, late []uint64
	for i := 0; i < nSpread; i++ {
		spread = append(spread, base+uint64(i*(1+w.rng.Intn(40))))
	}
	lives := 2 + w.rng.Intn(3)
	for l := 0; l < lives; l++ {
		for _, h := range spread {
			if l == 0 || w.rng.Chance(70) {
				w.exec(Op{K: "a", H: h, ID: w.id()})
			}
		}
		if l > 0 {
			for k := 0; k < 1+w.rng.Intn(2); k++ {
				g := uint64(1000 + w.rng.Intn(2000)) // survives the prune run
				if w.rng.Chance(30) {
					g = base + 100 + uint64(w.rng.Intn(150)) // pruned during the run
				}
				late = append(late, g)
				w.exec(Op{K: "a", H: g, ID: w.id()})
			}
		}
		w.exec(Op{K: "f"})
		if w.rng.Chance(25) {
			w.exec(Op{K: "a", H: spread[0], ID: w.id()})
			w.exec(Op{K: "ff", W: []string{"f", "e", "p"}[w.rng.Intn(3)], Cut: w.rng.Intn(30)}) // the retry lands in a new file
			w.exec(Op{K: "f"})
		}
		if l < lives-1 || w.rng.Bool() {
			if w.rng.Bool() {
				w.exec(Op{K: "c"})
			}
			w.exec(Op{K: "o"})
		}
	}
	h := uint64(1)
	total := cleanupInterval + 4 + w.rng.Intn(2)*(cleanupInterval)
	for i := 0; i < total; i++ {
		if w.rng.Chance(10) {
			w.exec(Op{K: "a", H: late[w.rng.Intn(len(late))], ID: w.id()})
		}
		if w.rng.Chance(5) {
			w.exec(Op{K: "a", H: h + 400, ID: w.id()})
		}
		w.exec(Op{K: "p", H: h})
		h++
		a := w.ask(w.ops, "?")
		since, _ := strconv.Atoi(field(a.disk, "since"))
		if since >= cleanupInterval-1 && field(a.disk, "pend") != "0" {
			w.flushWithImages(false)
			w.sync("after-cleanup")
		} else {
			w.exec(Op{K: "f"})
		}
	}
	w.finish()
}

// ---------- replay ----------
func (w *world) replay() {
	var r replayImage
	var asOps []Op
	raw, err := os.ReadFile(w.c.ReplayIn)
	hx.Must(err)
	if strings.Contains(string(raw), "\"files\"") {
		w.c.LoadReplay(&r)
		img := w.newImgRoot()
		for name, b64 := range r.Files {
			b, _ := base64.StdEncoding.DecodeString(b64)
			hx.Must(os.WriteFile(filepath.Join(walDir(img), name), b, 0o644))
		}
		w.checkImage(r.Ops, img, r.Kind, r.Cont, nil)
		return
	}
	w.c.LoadReplay(&asOps)
	w.scen = "replay"
	w.or.Ask("reset", 1)
	w.root = filepath.Join(w.base, "replay")
	hx.Must(os.MkdirAll(w.root, 0o755))
	for _, o := range asOps {
		switch o.K {
		case "fc", "fd", "cc":
			w.crashHere(o)
		default:
			w.exec(o)
		}
	}
	w.finish()
}

func main() {
	c := hx.NewCtx("C14")
	signal.Ignore(syscall.SIGXFSZ)
	or := hx.StartOracle(c.OraclePath)
	defer or.Close()
	base := hx.TempDir("c14")
	defer os.RemoveAll(base)
	w := &world{c: c, or: or, rng: hx.NewRNG(c.Seed), base: base}
	start := time.Now()
	rule := "byte level: the log files the real store / wal.Manager write equal the model's encode byte for byte, every chosen cut and bit flip of them is read back by the real reader (and the real store) exactly as the model's decode says, the Gallina CRC-32C equals hash/crc32; record level: every crash image (record cut / corrupted past the last synced offset, new empty file, each cleanup sub-step, any subset of obsolete files removed, torn EOF trailer) of generated histories is reopened with the real store; LoadAllEntries must satisfy recover_ok (the theorem's predicate) and equal the extracted model; live return codes, log files, watermark and LoadAllEntries are compared with the model"
	if c.ReplayIn != "" {
		if raw, err := os.ReadFile(c.ReplayIn); err == nil && strings.Contains(string(raw), "\"frame\"") {
			var fr frameReplay
			c.LoadReplay(&fr)
			(&frame{c: c, or: or, rng: w.rng.Fork(0xF4A3E), base: base, budget: 1 << 40}).replay(fr)
			os.RemoveAll(base)
			c.Finish(rule)
		}
		w.replay()
		os.RemoveAll(base)
		c.Finish(rule)
	}
	// byte level first: record framing of the log files (Frame.v) against the real writer and reader
	runFrame(c, or, w.rng.Fork(0xF4A3E), base)
	if os.Getenv("VERIF_C14_ONLY") == "frame" { // development aid: the byte-level part alone
		os.RemoveAll(base)
		c.Finish(rule)
	}
	nAdv, nDrv, nCl := 28, 1, 3
	if c.Thorough() {
		nAdv, nDrv, nCl = 160, 6, 10
	}
	// directed: a flush whose sync fails after the data reached the file, retry, restart (no duplicates,
	// nothing of the failed batch durable in between)
	w.reset("failed-sync")
	w.exec(Op{K: "a", H: 1, ID: 11})
	w.exec(Op{K: "f"})
	w.exec(Op{K: "a", H: 2, ID: 12})
	w.exec(Op{K: "p", H: 1})
	w.exec(Op{K: "ff", W: "f"})
	w.exec(Op{K: "f"})
	w.exec(Op{K: "a", H: 3, ID: 13})
	w.exec(Op{K: "ff", W: "e"})
	w.exec(Op{K: "f"})
	w.finish()
	// directed: height 50 spread over files 1 and 2, height 1000 only in file 2, prune past 50, cleanup
	w.reset("spread-min")
	w.exec(Op{K: "a", H: 50, ID: 21})
	w.exec(Op{K: "f"})
	w.exec(Op{K: "o"})
	w.exec(Op{K: "a", H: 50, ID: 22})
	w.exec(Op{K: "a", H: 1000, ID: 23})
	w.exec(Op{K: "f"})
	for h := uint64(45); h < 45+cleanupInterval+2; h++ {
		w.exec(Op{K: "p", H: h})
		w.exec(Op{K: "f"})
	}
	w.sync("after-cleanup")
	w.finish()
	for i := 0; i < nCl; i++ {
		w.cleanupFocused()
		w.spreadHeights()
	}
	for i := 0; i < nDrv; i++ {
		w.driverLike(cleanupInterval+80+w.rng.Intn(300), []int{0, 0, 1, 3}[w.rng.Intn(4)])
	}
	for i := 0; i < nAdv; i++ {
		w.adversarial(12+w.rng.Intn(40), false)
	}
	// height 0: a directed case and a separate random stream (see findings/C14.md)
	w.reset("height0")
	w.exec(Op{K: "a", H: 0, ID: 5})
	w.exec(Op{K: "a", H: 1, ID: 6})
	w.exec(Op{K: "f"})
	w.finish()
	for i := 0; i < nAdv/4; i++ {
		w.adversarial(8+w.rng.Intn(12), true)
	}
	c.Extra["scenario_wall_s"] = time.Since(start).Seconds()
	c.Extra["time_split_s"] = map[string]float64{"oracle": tOracle.Seconds(), "image_snapshot": tDump.Seconds(), "real_open_load": tOpen.Seconds(), "image_build": tBuild.Seconds()}
	c.Extra["limitations"] = "writer failures: write cut by RLIMIT_FSIZE (EFBIG), and through the verif seam walstore.VerifInterposeWriter a write error before anything is written and a sync reported failed after the record reached the file; a failing truncate (repairRequired) and failing watermark/rename/remove calls are model-only"
	os.RemoveAll(base)
	var _ = errors.New
	c.Finish(rule)
}
