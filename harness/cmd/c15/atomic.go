// atomic.go - batches are all-or-nothing ALSO for a reader that opens its snapshot / iterator while the batch is being
// written. The sequential model (Spec.v / Model.v) applies a batch in one step; this stage evaluates, on every backend,
// the history predicate that this step is atomic with respect to concurrent view creation: every view a reader obtains
// (snapshot, database iterator) shows, under the batch's prefix, exactly the state after SOME whole number of committed
// batches - never the range delete of batch n without its puts, never a mixture of two generations. The Go scheduler is
// sampled (GOMAXPROCS as given, plus runtime.Gosched inside the writer), not enumerated: this is the runtime part the
// Coq model cannot exhibit (checks/C15.json says so).
package main

import (
	"fmt"
	"runtime"
	"sync"
	"sync/atomic"

	"github.com/NethermindEth/juno/db"
	"verifharness/hx"
)

const atomicKeys = 6

func atomicKey(i int) []byte { return []byte{0xa7, 0x01, byte(i)} }

// readGeneration reads the keys of the prefix through r (snapshot) or it (iterator) and reports the generation they
// carry, or a description of the torn view.
func viewOf(vals map[int][]byte) (gen int, torn string) {
	if len(vals) == 0 {
		return 0, ""
	}
	if len(vals) != atomicKeys {
		return -1, fmt.Sprintf("%d of %d keys of the batch are visible", len(vals), atomicKeys)
	}
	g := -1
	for i := 0; i < atomicKeys; i++ {
		v := vals[i]
		if len(v) != 4 {
			return -1, fmt.Sprintf("key %d has a value of %d bytes", i, len(v))
		}
		x := int(v[0])<<24 | int(v[1])<<16 | int(v[2])<<8 | int(v[3])
		if g == -1 {
			g = x
		} else if g != x {
			return -1, fmt.Sprintf("keys carry generations %d and %d", g, x)
		}
	}
	return g, ""
}

func atomicVisibility(c *hx.Ctx, name string, d db.KeyValueStore, batches int) {
	prefix := []byte{0xa7, 0x01}
	end := []byte{0xa7, 0x02}
	_ = d.DeleteRange(prefix, end)
	var stop atomic.Bool
	var mu sync.Mutex
	torn := ""
	views := 0
	note := func(kind, what string) {
		mu.Lock()
		if torn == "" {
			torn = kind + ": " + what
		}
		mu.Unlock()
	}
	var wg sync.WaitGroup
	for rd := 0; rd < 3; rd++ {
		wg.Add(1)
		go func(rd int) {
			defer wg.Done()
			last := 0
			for n := 0; !stop.Load(); n++ {
				vals := map[int][]byte{}
				kind := "snapshot"
				if (n+rd)%2 == 0 {
					s := d.NewSnapshot()
					for i := 0; i < atomicKeys; i++ {
						_ = s.Get(atomicKey(i), func(v []byte) error { vals[i] = append([]byte{}, v...); return nil })
					}
					_ = s.Close()
				} else {
					kind = "iterator"
					it, err := d.NewIterator(prefix, true)
					if err != nil {
						note(kind, err.Error())
						return
					}
					for ok := it.First(); ok; ok = it.Next() {
						k := it.Key()
						v, _ := it.Value()
						if len(k) == 3 {
							vals[int(k[2])] = append([]byte{}, v...)
						}
					}
					_ = it.Close()
				}
				g, t := viewOf(vals)
				mu.Lock()
				views++
				mu.Unlock()
				if t != "" {
					note(kind, t)
					return
				}
				if g < last {
					note(kind, fmt.Sprintf("view of generation %d after a view of generation %d", g, last))
					return
				}
				last = g
			}
		}(rd)
	}
	for g := 1; g <= batches && torn == ""; g++ {
		b := d.NewBatch()
		hx.Must(b.DeleteRange(prefix, end))
		for i := 0; i < atomicKeys; i++ {
			hx.Must(b.Put(atomicKey(i), []byte{byte(g >> 24), byte(g >> 16), byte(g >> 8), byte(g)}))
		}
		hx.Must(b.Write())
		if g%7 == 0 {
			runtime.Gosched()
		}
	}
	stop.Store(true)
	wg.Wait()
	_ = d.DeleteRange(prefix, end)
	c.Hist["atomic-visibility:"+name+":views"] += views
	c.Hist["atomic-visibility:"+name+":batches"] += batches
	c.Evaluations += views
	if torn != "" {
		c.Violation(name+":batch-not-atomic-for-concurrent-readers",
			fmt.Sprintf("%s: a reader that opened its view while batches (range delete + %d puts of one generation) were being written saw a torn state: %s", name, atomicKeys, torn),
			map[string]any{"backend": name, "stage": "atomic-visibility", "batches": batches}, false)
	}
}
