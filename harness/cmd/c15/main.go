// C15 differential: contract (extracted Coq spec) / memory model (extracted) / db/memory /
// db/pebblev2 / db/pebble on generated operation sequences of the storage interface.
package main

import (
	"encoding/hex"
	"errors"
	"fmt"
	"os"
	"strconv"
	"strings"
	"time"

	"github.com/NethermindEth/juno/db"
	"github.com/NethermindEth/juno/db/dbutils"
	"github.com/NethermindEth/juno/db/memory"
	"github.com/NethermindEth/juno/db/pebble"
	"github.com/NethermindEth/juno/db/pebblev2"
	"verifharness/hx"
)

// ---------- operations ----------
type Op struct {
	K    string   // kind
	H    int      // handle
	Src  string   // newiter: db | b | s
	A, B string   // hex keys / values ("-" = empty)
	Flag bool     // newbatch indexed, newiter ub, helper indexed
	Fail bool     // helper
	Rd   string   // helper read key or "_"
	Ws   []string // helper writes "put:K:V" ...
	W    string   // bw: "put K V" | "del K" | "delrange A B"
}

func b2i(b bool) string {
	if b {
		return "1"
	}
	return "0"
}

func (o Op) String() string {
	switch o.K {
	case "put", "delrange":
		return o.K + " " + o.A + " " + o.B
	case "del", "get", "has":
		return o.K + " " + o.A
	case "newbatch":
		return "newbatch " + b2i(o.Flag)
	case "bw":
		return fmt.Sprintf("bw %d %s", o.H, o.W)
	case "bget", "bhas", "sget", "shas", "seek":
		return fmt.Sprintf("%s %d %s", o.K, o.H, o.A)
	case "bsize", "bwrite", "bclose", "sclose", "first", "next", "prev", "iclose":
		return fmt.Sprintf("%s %d", o.K, o.H)
	case "newsnap":
		return "newsnap"
	case "newiter":
		s := "db"
		if o.Src != "db" {
			s = fmt.Sprintf("%s:%d", o.Src, o.H)
		}
		return fmt.Sprintf("newiter %s %s %s", s, o.A, b2i(o.Flag))
	case "helper":
		return strings.TrimSpace(fmt.Sprintf("helper %s %s %s %s", b2i(o.Flag), b2i(o.Fail), o.Rd, strings.Join(o.Ws, " ")))
	}
	panic("op kind " + o.K)
}

func caseLine(ops []Op) string {
	parts := make([]string, len(ops))
	for i, o := range ops {
		parts[i] = o.String()
	}
	return strings.Join(parts, ";")
}

func unhex(s string) []byte {
	if s == "-" {
		return []byte{}
	}
	b, err := hex.DecodeString(s)
	hx.Must(err)
	return b
}
func tohex(b []byte) string {
	if len(b) == 0 {
		return "-"
	}
	return hex.EncodeToString(b)
}

// ---------- running a case on a real backend ----------
// wrapper modes for indexed batches: the two thin wrappers of package db must be transparent
const (
	wrapNone   = iota
	wrapSync   // db.NewSyncBatch(indexed batch): every operation
	wrapBuffer // db.NewBufferBatch(indexed batch): Put/Delete/Get/Write/Close only (the rest panics by design)
)

type session struct {
	wrap    int
	d       db.KeyValueStore
	batches []db.Batch
	indexed []bool
	snaps   []db.Snapshot
	iters   []db.Iterator
	held    map[int][]heldBytes // per iterator: every slice Key() / Value() handed out, with its content at that moment
}

// heldBytes: a result the iterator handed to the caller. Key() and Value() results belong to the caller (only
// UncopiedValue is documented as invalidated by the next move): they must keep their bytes while the iterator
// moves on or is closed. The model's results are immutable values, so this is part of the tie, not of the model.
type heldBytes struct {
	got  []byte
	want string
	what string
}

// heldChanged reports (and forgets) results of iterator h whose bytes changed since they were handed out
func (s *session) heldChanged(h int) string {
	for _, x := range s.held[h] {
		if string(x.got) != x.want {
			delete(s.held, h)
			return ":earlier-" + x.what + "-result-changed-under-the-caller"
		}
	}
	return ""
}

func (s *session) iterObs(h int, ret bool) string {
	it := s.iters[h]
	out := iterOut(it, ret)
	if it.Valid() {
		if s.held == nil {
			s.held = map[int][]heldBytes{}
		}
		k := it.Key()
		v, err := it.Value()
		if len(s.held[h]) < 64 {
			s.held[h] = append(s.held[h], heldBytes{k, string(k), "Key"})
			if err == nil {
				s.held[h] = append(s.held[h], heldBytes{v, string(v), "Value"})
			}
		}
	}
	return out + s.heldChanged(h)
}

func getOut(r db.KeyValueReader, k []byte) string {
	var v []byte
	err := r.Get(k, func(x []byte) error { v = append([]byte{}, x...); return nil })
	if errors.Is(err, db.ErrKeyNotFound) {
		return "none"
	}
	if err != nil {
		return "err"
	}
	return "v:" + tohex(v)
}

func hasOut(r db.KeyValueReader, k []byte) string {
	ok, err := r.Has(k)
	if err != nil {
		return "err"
	}
	if ok {
		return "t"
	}
	return "f"
}

func errOut(err error) string {
	if err != nil {
		return "err"
	}
	return "ok"
}

func applyW(w db.Batch, spec string, sep string) error {
	f := strings.Split(spec, sep)
	switch f[0] {
	case "put":
		return w.Put(unhex(f[1]), unhex(f[2]))
	case "del":
		return w.Delete(unhex(f[1]))
	case "delrange":
		return w.DeleteRange(unhex(f[1]), unhex(f[2]))
	}
	panic("wop " + spec)
}

func iterOut(it db.Iterator, ret bool) string {
	r := "f"
	if ret {
		r = "t"
	}
	if !it.Valid() {
		return "it:" + r + ":none"
	}
	k := it.Key()
	v, err := it.Value()
	if err != nil {
		return "it:" + r + ":valerr"
	}
	return "it:" + r + ":" + tohex(k) + ":" + tohex(v)
}

var errInjected = errors.New("injected callback failure")

func (s *session) step(o Op) (out string) {
	defer func() {
		if r := recover(); r != nil {
			out = "panic"
		}
	}()
	switch o.K {
	case "put":
		return errOut(s.d.Put(unhex(o.A), unhex(o.B)))
	case "del":
		return errOut(s.d.Delete(unhex(o.A)))
	case "delrange":
		return errOut(s.d.DeleteRange(unhex(o.A), unhex(o.B)))
	case "get":
		return getOut(s.d, unhex(o.A))
	case "has":
		return hasOut(s.d, unhex(o.A))
	case "newbatch":
		if o.Flag {
			switch s.wrap {
			case wrapSync:
				s.batches = append(s.batches, db.NewSyncBatch(s.d.NewIndexedBatch()))
			case wrapBuffer:
				s.batches = append(s.batches, db.NewBufferBatch(s.d.NewIndexedBatch()))
			default:
				s.batches = append(s.batches, s.d.NewIndexedBatch())
			}
		} else {
			s.batches = append(s.batches, s.d.NewBatch())
		}
		s.indexed = append(s.indexed, o.Flag)
		return "h:" + strconv.Itoa(len(s.batches)-1)
	case "bw":
		return errOut(applyW(s.batches[o.H], o.W, " "))
	case "bget":
		return getOut(s.batches[o.H].(db.IndexedBatch), unhex(o.A))
	case "bhas":
		return hasOut(s.batches[o.H].(db.IndexedBatch), unhex(o.A))
	case "bsize":
		return "sz:" + strconv.Itoa(s.batches[o.H].Size())
	case "bwrite":
		return errOut(s.batches[o.H].Write())
	case "bclose":
		return errOut(s.batches[o.H].Close())
	case "newsnap":
		s.snaps = append(s.snaps, s.d.NewSnapshot())
		return "h:" + strconv.Itoa(len(s.snaps)-1)
	case "sget":
		return getOut(s.snaps[o.H], unhex(o.A))
	case "shas":
		return hasOut(s.snaps[o.H], unhex(o.A))
	case "sclose":
		return errOut(s.snaps[o.H].Close())
	case "newiter":
		var r db.KeyValueReader
		switch o.Src {
		case "db":
			r = s.d
		case "b":
			r = s.batches[o.H].(db.IndexedBatch)
		case "s":
			r = s.snaps[o.H]
		}
		var prefix []byte
		if o.A != "-" {
			prefix = unhex(o.A)
		}
		it, err := r.NewIterator(prefix, o.Flag)
		if err != nil {
			return "err"
		}
		s.iters = append(s.iters, it)
		return "h:" + strconv.Itoa(len(s.iters)-1)
	case "first":
		return s.iterObs(o.H, s.iters[o.H].First())
	case "next":
		return s.iterObs(o.H, s.iters[o.H].Next())
	case "prev":
		return s.iterObs(o.H, s.iters[o.H].Prev())
	case "seek":
		return s.iterObs(o.H, s.iters[o.H].Seek(unhex(o.A)))
	case "iclose":
		return errOut(s.iters[o.H].Close()) + s.heldChanged(o.H)
	case "helper":
		res := "ok"
		body := func(w db.Batch) error {
			for _, x := range o.Ws {
				if err := applyW(w, x, ":"); err != nil {
					return err
				}
			}
			if o.Rd != "_" && o.Flag {
				res = getOut(w.(db.IndexedBatch), unhex(o.Rd))
			}
			if o.Fail {
				return errInjected
			}
			return nil
		}
		var err error
		if o.Flag {
			err = s.d.Update(func(b db.IndexedBatch) error { return body(b) })
		} else {
			err = s.d.Write(body)
		}
		if err != nil {
			return "err"
		}
		return res
	}
	panic("op " + o.K)
}

func (s *session) cleanup() {
	for _, it := range s.iters {
		func() { defer func() { recover() }(); it.Close() }()
	}
	for _, b := range s.batches {
		func() { defer func() { recover() }(); b.Close() }()
	}
	for _, sn := range s.snaps {
		func() { defer func() { recover() }(); sn.Close() }()
	}
}

// wipe removes every key so that the next case starts from an empty store.
func wipe(d db.KeyValueStore) {
	it, err := d.NewIterator(nil, false)
	hx.Must(err)
	var keys [][]byte
	for ok := it.First(); ok; ok = it.Next() {
		keys = append(keys, append([]byte{}, it.Key()...))
	}
	it.Close()
	for _, k := range keys {
		hx.Must(d.Delete(k))
	}
}

func runOn(d db.KeyValueStore, ops []Op) string { return runWrapped(d, ops, wrapNone) }

// bufferOK: the case uses its indexed batches only through the operations db.BufferBatch supports
// (point writes, Get, Write, Close; nothing after Write/Close) - then the wrapper must be transparent
func bufferOK(ops []Op) bool {
	var indexed, done []bool
	any := false
	for _, o := range ops {
		switch o.K {
		case "newbatch":
			indexed = append(indexed, o.Flag)
			done = append(done, false)
		case "bw", "bget", "bhas", "bsize", "bwrite", "bclose":
			if o.H < 0 || o.H >= len(indexed) {
				return false
			}
			if !indexed[o.H] {
				continue
			}
			if done[o.H] || o.K == "bhas" || o.K == "bsize" || (o.K == "bw" && strings.HasPrefix(o.W, "delrange")) {
				return false
			}
			if o.K == "bwrite" || o.K == "bclose" {
				done[o.H] = true
			}
			any = true
		case "newiter":
			if o.Src == "b" {
				if o.H < 0 || o.H >= len(indexed) || indexed[o.H] {
					return false
				}
			}
		}
	}
	return any
}

func runWrapped(d db.KeyValueStore, ops []Op, wrap int) string {
	s := &session{d: d, wrap: wrap}
	outs := make([]string, len(ops))
	for i, o := range ops {
		outs[i] = s.step(o)
	}
	s.cleanup()
	return strings.Join(outs, " ")
}

// ---------- generator ----------
var alphabet = []byte{0x00, 0x01, 0xfe, 0xff}

func genKey(r *hx.RNG, maxLen int) string {
	n := r.Intn(maxLen + 1)
	b := make([]byte, n)
	for i := range b {
		switch {
		case r.Chance(45):
			b[i] = 0xff
		case r.Chance(50):
			b[i] = 0x00
		default:
			b[i] = alphabet[r.Intn(len(alphabet))]
		}
	}
	return tohex(b)
}

// extendKey returns k followed by one 0xff byte (an end bound that covers exactly k and its extensions up to ff)
func extendKey(k string) string {
	if k == "-" {
		return "ff"
	}
	return k + "ff"
}

func genWop(r *hx.RNG, sep string) string {
	switch x := r.Intn(10); {
	case x < 6:
		return "put" + sep + genKey(r, 3) + sep + genKey(r, 2)
	case x < 8:
		return "del" + sep + genKey(r, 3)
	default:
		return "delrange" + sep + genKey(r, 2) + sep + genKey(r, 3)
	}
}

type genState struct {
	batches []bool // open?
	indexed []bool
	snaps   []bool
	iters   []bool
	iterSrc []string // "db" | "b<h>" | "s<h>": Pebble requires iterators to be closed before their source
	putKeys []string // keys written at database level so far (the generator's approximate view)
}

func (g *genState) newDBIter(ops []Op, prefix string, ub bool) ([]Op, int) {
	g.iters = append(g.iters, true)
	g.iterSrc = append(g.iterSrc, "db")
	return append(ops, Op{K: "newiter", Src: "db", A: prefix, Flag: ub}), len(g.iters) - 1
}

// motif: scan the database, mutate it in ONE step through one of the write paths, scan again (and keep
// using the first iterator): an engine that caches anything between scans (key lists, bounds, positions)
// must invalidate it on every write path
func (g *genState) scanMutateScan(r *hx.RNG, ops []Op) []Op {
	var i1, i2 int
	ops, i1 = g.newDBIter(ops, "-", false)
	ops = append(ops, Op{K: "first", H: i1})
	for j := r.Intn(3); j > 0; j-- {
		ops = append(ops, Op{K: "next", H: i1})
	}
	k := genKey(r, 3)
	if len(g.putKeys) > 0 && r.Chance(80) {
		k = g.putKeys[r.Intn(len(g.putKeys))]
	}
	switch r.Intn(7) {
	case 0:
		ops = append(ops, Op{K: "delrange", A: k, B: extendKey(k)})
	case 1:
		ops = append(ops, Op{K: "delrange", A: "-", B: "ffffffff"})
	case 2:
		ops = append(ops, Op{K: "del", A: k})
	case 3:
		nk := genKey(r, 3)
		g.putKeys = append(g.putKeys, nk)
		ops = append(ops, Op{K: "put", A: nk, B: genKey(r, 2)})
	case 4:
		ix := r.Bool()
		g.batches = append(g.batches, false)
		g.indexed = append(g.indexed, ix)
		h := len(g.batches) - 1
		w := []string{"delrange " + k + " " + extendKey(k), "del " + k, "put " + k + " " + genKey(r, 2)}[r.Intn(3)]
		ops = append(ops, Op{K: "newbatch", Flag: ix}, Op{K: "bw", H: h, W: w}, Op{K: "bwrite", H: h})
	case 5:
		ops = append(ops, Op{K: "helper", Flag: r.Bool(), Rd: "_", Ws: []string{"delrange:" + k + ":" + extendKey(k)}})
	default:
		ops = append(ops, Op{K: "helper", Flag: r.Bool(), Rd: "_", Ws: []string{"del:" + k, "put:" + genKey(r, 3) + ":" + genKey(r, 2)}})
	}
	ops, i2 = g.newDBIter(ops, "-", false)
	ops = append(ops, Op{K: "first", H: i2})
	for j := 1 + r.Intn(4); j > 0; j-- {
		ops = append(ops, Op{K: "next", H: i2})
	}
	ops = append(ops, Op{K: "seek", H: i2, A: k}, Op{K: "next", H: i1}, Op{K: "has", A: k})
	return ops
}

// motif: ONE batch that interleaves several range deletes with point writes of keys inside them (put k,
// delrange covering k, put k again, a second delrange covering k or not, delete k, ...), reading k through the
// indexed batch (Get / Has / iterator) after every write and from the database after Write: the order of
// EVERY pair of (point write, range delete) on one key matters, not only of the last two
func (g *genState) batchRangeInterleave(r *hx.RNG, ops []Op) []Op {
	ix := r.Chance(85)
	g.batches = append(g.batches, false) // closed at the end of the motif
	g.indexed = append(g.indexed, ix)
	h := len(g.batches) - 1
	ops = append(ops, Op{K: "newbatch", Flag: ix})
	ks := []string{genKey(r, 2), genKey(r, 3)}
	if len(g.putKeys) > 0 {
		ks = append(ks, g.putKeys[r.Intn(len(g.putKeys))])
	}
	ks = append(ks, extendKey(ks[0]))
	for n := 3 + r.Intn(5); n > 0; n-- {
		k := ks[r.Intn(len(ks))]
		var w string
		switch r.Intn(6) {
		case 0, 1:
			w = "put " + k + " " + genKey(r, 2)
		case 2:
			w = "del " + k
		case 3:
			w = "delrange " + k + " " + extendKey(k) // covers k
		case 4:
			w = "delrange - ffffffff" // covers everything
		default:
			w = "delrange " + genKey(r, 2) + " " + genKey(r, 3) // may or may not cover
		}
		ops = append(ops, Op{K: "bw", H: h, W: w})
		if ix {
			q := ks[r.Intn(len(ks))]
			ops = append(ops, Op{K: "bget", H: h, A: k}, Op{K: "bhas", H: h, A: q})
			if r.Chance(30) {
				g.iters = append(g.iters, true)
				g.iterSrc = append(g.iterSrc, "b"+strconv.Itoa(h))
				it := len(g.iters) - 1
				ops = append(ops, Op{K: "newiter", Src: "b", H: h, A: "-", Flag: false}, Op{K: "seek", H: it, A: k}, Op{K: "next", H: it})
				ops = g.closeItersOf("b"+strconv.Itoa(h), ops)
			}
		}
	}
	ops = append(ops, Op{K: "bsize", H: h}, Op{K: "bwrite", H: h})
	for _, k := range ks {
		ops = append(ops, Op{K: "get", A: k})
	}
	return append(ops, Op{K: "bclose", H: h})
}

// motif: a prefix scan WITHOUT upper bound (NewIterator(prefix, false): the prefix is only the lower bound) over every
// kind of source - database, indexed batch, snapshot - with keys below the prefix, under it and ABOVE its range in
// the database and, for the batch, among the batch's own writes; walked to the end, then Seek beyond + Prev
func (g *genState) prefixNoBoundScan(r *hx.RNG, ops []Op) []Op {
	hexKey := func(n int) string { // a non-empty key ("-" stands for the empty one in this notation)
		for {
			if k := genKey(r, n); k != "-" && k != "" {
				return k
			}
		}
	}
	p := hexKey(1)
	under1, under2 := p+hexKey(1), p+hexKey(2)
	above := hexKey(2)
	for tries := 0; (above <= p || strings.HasPrefix(above, p)) && tries < 20; tries++ {
		above = "ff" + hexKey(1)
	}
	for _, k := range []string{under1, above, under2} {
		ops = append(ops, Op{K: "put", A: k, B: hexKey(2)})
		g.putKeys = append(g.putKeys, k)
	}
	walk := func(ops []Op, it int) []Op {
		ops = append(ops, Op{K: "first", H: it})
		for j := 0; j < 4; j++ {
			ops = append(ops, Op{K: "next", H: it})
		}
		return append(ops, Op{K: "seek", H: it, A: "ffffffff"}, Op{K: "prev", H: it}, Op{K: "seek", H: it, A: above}, Op{K: "iclose", H: it})
	}
	newIter := func(ops []Op, src string, h int) ([]Op, int) {
		g.iters = append(g.iters, false) // closed by walk
		if src == "db" {
			g.iterSrc = append(g.iterSrc, "db")
		} else {
			g.iterSrc = append(g.iterSrc, src+strconv.Itoa(h))
		}
		return append(ops, Op{K: "newiter", Src: src, H: h, A: p, Flag: false}), len(g.iters) - 1
	}
	var it int
	ops, it = newIter(ops, "db", 0)
	ops = walk(ops, it)
	// indexed batch with one write above the range and one under the prefix
	g.batches = append(g.batches, false)
	g.indexed = append(g.indexed, true)
	h := len(g.batches) - 1
	ops = append(ops, Op{K: "newbatch", Flag: true}, Op{K: "bw", H: h, W: "put " + above + "00 " + hexKey(1)}, Op{K: "bw", H: h, W: "put " + p + "ff " + hexKey(1)})
	ops, it = newIter(ops, "b", h)
	ops = walk(ops, it)
	ops = append(ops, Op{K: "bclose", H: h})
	// snapshot
	g.snaps = append(g.snaps, false)
	sh := len(g.snaps) - 1
	ops = append(ops, Op{K: "newsnap"})
	ops, it = newIter(ops, "s", sh)
	ops = walk(ops, it)
	return append(ops, Op{K: "sclose", H: sh})
}

// closeItersOf emits iclose for every open iterator created on the given source
func (g *genState) closeItersOf(src string, ops []Op) []Op {
	for i, open := range g.iters {
		if open && g.iterSrc[i] == src {
			g.iters[i] = false
			ops = append(ops, Op{K: "iclose", H: i})
		}
	}
	return ops
}

func pickOpen(r *hx.RNG, l []bool) int {
	var open []int
	for i, o := range l {
		if o {
			open = append(open, i)
		}
	}
	if len(open) == 0 {
		return -1
	}
	return open[r.Intn(len(open))]
}

// strictBias: generate iterator creations inside the strict contract most of the time
func genCase(r *hx.RNG, n int, strictBias int) []Op {
	var g genState
	var ops []Op
	for len(ops) < n {
		if r.Chance(3) {
			ops = g.scanMutateScan(r, ops)
			continue
		}
		if r.Chance(3) {
			ops = g.batchRangeInterleave(r, ops)
			continue
		}
		if r.Chance(2) {
			ops = g.prefixNoBoundScan(r, ops)
			continue
		}
		x := r.Intn(100)
		switch {
		case x < 18:
			nk := genKey(r, 3)
			g.putKeys = append(g.putKeys, nk)
			ops = append(ops, Op{K: "put", A: nk, B: genKey(r, 2)})
		case x < 22:
			ops = append(ops, Op{K: "del", A: genKey(r, 3)})
		case x < 25:
			ops = append(ops, Op{K: "delrange", A: genKey(r, 2), B: genKey(r, 3)})
		case x < 30:
			ops = append(ops, Op{K: "get", A: genKey(r, 3)})
		case x < 32:
			ops = append(ops, Op{K: "has", A: genKey(r, 3)})
		case x < 37:
			ix := r.Chance(70)
			g.batches = append(g.batches, true)
			g.indexed = append(g.indexed, ix)
			ops = append(ops, Op{K: "newbatch", Flag: ix})
		case x < 50:
			if h := pickOpen(r, g.batches); h >= 0 {
				// range deletes inside batches are part of the contract (recorded like Pebble's
				// range tombstones); re-use a recently written key often so that
				// put / delete-range / put-again orders on one key occur
				w := genWop(r, " ")
				if len(ops) > 0 && r.Chance(35) {
					if last := ops[len(ops)-1]; last.K == "bw" && last.H == h {
						f := strings.Fields(last.W)
						switch {
						case f[0] == "put" && r.Bool():
							w = "delrange " + f[1] + " " + extendKey(f[1])
						case f[0] == "delrange":
							w = "put " + f[1] + " " + genKey(r, 2)
						}
					}
				}
				ops = append(ops, Op{K: "bw", H: h, W: w})
			}
		case x < 55:
			if h := pickOpen(r, g.batches); h >= 0 && g.indexed[h] {
				k := "bget"
				if r.Chance(30) {
					k = "bhas"
				}
				ops = append(ops, Op{K: k, H: h, A: genKey(r, 3)})
			}
		case x < 57:
			if h := pickOpen(r, g.batches); h >= 0 {
				ops = append(ops, Op{K: "bsize", H: h})
			}
		case x < 61:
			if h := pickOpen(r, g.batches); h >= 0 {
				ops = g.closeItersOf(fmt.Sprintf("b%d", h), ops)
				g.batches[h] = false
				k := "bwrite"
				if r.Chance(25) {
					k = "bclose"
				}
				ops = append(ops, Op{K: k, H: h})
			}
		case x < 64:
			g.snaps = append(g.snaps, true)
			ops = append(ops, Op{K: "newsnap"})
		case x < 67:
			if h := pickOpen(r, g.snaps); h >= 0 {
				k := "sget"
				if r.Chance(30) {
					k = "shas"
				}
				ops = append(ops, Op{K: k, H: h, A: genKey(r, 3)})
			}
		case x < 68:
			if h := pickOpen(r, g.snaps); h >= 0 {
				ops = g.closeItersOf(fmt.Sprintf("s%d", h), ops)
				g.snaps[h] = false
				ops = append(ops, Op{K: "sclose", H: h})
			}
		case x < 75:
			o := Op{K: "newiter", Src: "db"}
			switch y := r.Intn(10); {
			case y < 2:
				if h := pickOpen(r, g.batches); h >= 0 && g.indexed[h] {
					o.Src, o.H = "b", h
				}
			case y < 4:
				if h := pickOpen(r, g.snaps); h >= 0 {
					o.Src, o.H = "s", h
				}
			}
			if r.Chance(strictBias) {
				if r.Chance(30) {
					o.A, o.Flag = "-", false
				} else {
					// a prefix with a non-0xff byte somewhere, with upper bound
					for {
						o.A = genKey(r, 3)
						if dbutils.UpperBound(unhex(o.A)) != nil {
							break
						}
					}
					o.Flag = true
				}
			} else {
				o.A, o.Flag = genKey(r, 2), r.Bool()
			}
			g.iters = append(g.iters, true)
			if o.Src == "db" {
				g.iterSrc = append(g.iterSrc, "db")
			} else {
				g.iterSrc = append(g.iterSrc, fmt.Sprintf("%s%d", o.Src, o.H))
			}
			ops = append(ops, o)
		case x < 94:
			if h := pickOpen(r, g.iters); h >= 0 {
				switch y := r.Intn(10); {
				case y < 2:
					ops = append(ops, Op{K: "first", H: h})
				case y < 6:
					ops = append(ops, Op{K: "next", H: h})
				case y < 8:
					ops = append(ops, Op{K: "prev", H: h})
				default:
					ops = append(ops, Op{K: "seek", H: h, A: genKey(r, 3)})
				}
			}
		case x < 95:
			if h := pickOpen(r, g.iters); h >= 0 {
				g.iters[h] = false
				ops = append(ops, Op{K: "iclose", H: h})
			}
		default:
			o := Op{K: "helper", Flag: r.Bool(), Fail: r.Chance(35), Rd: "_"}
			for i := r.Intn(4); i > 0; i-- {
				w := genWop(r, ":")
				if n := len(o.Ws); n > 0 && r.Chance(40) {
					f := strings.Split(o.Ws[n-1], ":")
					switch {
					case f[0] == "put" && r.Bool():
						w = "delrange:" + f[1] + ":" + extendKey(f[1])
					case f[0] == "delrange":
						w = "put:" + f[1] + ":" + genKey(r, 2)
					}
				}
				o.Ws = append(o.Ws, w)
			}
			if o.Flag && r.Bool() {
				o.Rd = genKey(r, 3)
			}
			ops = append(ops, o)
		}
	}
	return ops
}

// remove op i keeping handle numbering consistent; nil if the result would use a removed handle
func removeOp(ops []Op, i int) []Op {
	o := ops[i]
	kind := ""
	switch o.K {
	case "newbatch":
		kind = "b"
	case "newsnap":
		kind = "s"
	case "newiter":
		kind = "i"
	}
	idx := 0
	if kind != "" {
		for _, p := range ops[:i] {
			if p.K == o.K {
				idx++
			}
		}
	}
	handleKind := func(p Op) string {
		switch p.K {
		case "bw", "bget", "bhas", "bsize", "bwrite", "bclose":
			return "b"
		case "sget", "shas", "sclose":
			return "s"
		case "first", "next", "prev", "seek", "iclose":
			return "i"
		}
		return ""
	}
	var res []Op
	for j, p := range ops {
		if j == i {
			continue
		}
		if kind != "" {
			if handleKind(p) == kind {
				if p.H == idx {
					continue
				}
				if p.H > idx {
					p.H--
				}
			}
			if p.K == "newiter" && p.Src == kind {
				if p.H == idx {
					// iterator over a removed source: drop it too (recursively handled by caller loop)
					return nil
				}
				if p.H > idx {
					p.H--
				}
			}
		}
		res = append(res, p)
	}
	return res
}

type backends struct {
	mem, p2, p1 db.KeyValueStore
}

type verdict struct {
	class string
	what  string
}

func evalCase(or *hx.Oracle, bk *backends, ops []Op) (v *verdict, shape string, outs map[string]string) {
	line := caseLine(ops)
	rep := or.Ask(line, 3)
	spec := strings.TrimPrefix(rep[0], "spec ")
	memModel := strings.TrimPrefix(rep[1], "mem ")
	shape = strings.TrimPrefix(rep[2], "shape ")
	outs = map[string]string{"spec": spec, "mem_model": memModel}
	outs["memory"] = runOn(bk.mem, ops)
	wipe(bk.mem)
	outs["pebblev2"] = runOn(bk.p2, ops)
	wipe(bk.p2)
	if bk.p1 != nil {
		outs["pebble"] = runOn(bk.p1, ops)
		wipe(bk.p1)
	}
	outs["memory+syncbatch"] = runWrapped(bk.mem, ops, wrapSync)
	wipe(bk.mem)
	outs["pebblev2+syncbatch"] = runWrapped(bk.p2, ops, wrapSync)
	wipe(bk.p2)
	if shape == "none" && bufferOK(ops) {
		outs["memory+bufferbatch"] = runWrapped(bk.mem, ops, wrapBuffer)
		wipe(bk.mem)
		outs["pebblev2+bufferbatch"] = runWrapped(bk.p2, ops, wrapBuffer)
		wipe(bk.p2)
	}
	for _, b := range []string{"memory", "pebblev2"} {
		if outs[b+"+syncbatch"] != outs[b] {
			return &verdict{"syncbatch-not-transparent:" + b, "indexed batches wrapped in db.SyncBatch answer differently from the bare indexed batch on " + b}, shape, outs
		}
		if o, ok := outs[b+"+bufferbatch"]; ok && o != outs[b] {
			return &verdict{"bufferbatch-not-transparent:" + b, "indexed batches wrapped in db.BufferBatch (point writes, Get, Write, Close only) answer differently from the bare indexed batch on " + b}, shape, outs
		}
	}
	switch {
	case outs["pebblev2"] != spec:
		return &verdict{"pebblev2-vs-contract", "db/pebblev2 differs from the contract (Spec)"}, shape, outs
	case bk.p1 != nil && outs["pebble"] != spec:
		return &verdict{"pebble-vs-contract", "db/pebble differs from the contract (Spec)"}, shape, outs
	case outs["memory"] != memModel:
		return &verdict{"memory-vs-model", "db/memory differs from its transcription (correspondence C15.Model.run_mem)"}, shape, outs
	case outs["memory"] != outs["pebblev2"]:
		if shape == "none" {
			return &verdict{"memory-vs-pebble:strict", "db/memory and db/pebblev2 differ inside the strict contract (theorem C15_mem_refines no longer transfers)"}, shape, outs
		}
		return &verdict{"memory-vs-pebble:" + shape, "db/memory and db/pebblev2 differ"}, shape, outs
	}
	return nil, shape, outs
}

// family of a class: the part before ':' (the shapes after it may shrink away)
func family(class string) string { return strings.SplitN(class, ":", 2)[0] }

func shrink(or *hx.Oracle, bk *backends, ops []Op, class string) []Op {
	changed := true
	for changed {
		changed = false
		for i := len(ops) - 1; i >= 0; i-- {
			cand := removeOp(ops, i)
			if cand == nil || len(cand) == 0 {
				continue
			}
			v, shape, _ := evalCase(or, bk, cand)
			if strings.Contains(shape, "bad-handle") {
				continue
			}
			if v != nil && family(v.class) == family(class) {
				ops = cand
				changed = true
			}
		}
	}
	return ops
}

func main() {
	c := hx.NewCtx("C15")
	or := hx.StartOracle(c.OraclePath)
	defer or.Close()

	dir := hx.TempDir("c15")
	defer os.RemoveAll(dir)
	p2, err := pebblev2.New(dir + "/v2")
	hx.Must(err)
	p1, err := pebble.New(dir + "/v1")
	hx.Must(err)
	bk := &backends{mem: memory.New(), p2: p2, p1: p1}

	shrinkUntil := time.Now().Add(90 * time.Second) // total shrinking budget of one run
	report := func(ops []Op, v *verdict) {
		if c.Reported(v.class) {
			return // this class already has its (shrunk) replay
		}
		small := ops
		if time.Now().Before(shrinkUntil) {
			small = shrink(or, bk, ops, v.class)
		}
		v2, shape, outs := evalCase(or, bk, small)
		if v2 != nil {
			v = v2
		}
		c.Violation(v.class, fmt.Sprintf("%s on: %s", v.what, caseLine(small)),
			map[string]any{"ops": small, "line": caseLine(small), "shape": shape, "outputs": outs}, false)
	}

	if c.ReplayIn != "" {
		var rp struct {
			Ops     []Op   `json:"ops"`
			Stage   string `json:"stage"`
			Backend string `json:"backend"`
			Batches int    `json:"batches"`
		}
		c.LoadReplay(&rp)
		if rp.Stage == "reopen" {
			reopenStage(c, 60)
			c.Finish("replay of the close-and-reopen stage")
		}
		if rp.Stage == "atomic-visibility" {
			d := map[string]db.KeyValueStore{"memory": bk.mem, "pebblev2": bk.p2, "pebble": bk.p1}[rp.Backend]
			fmt.Printf("replay: %d batches on %s with three concurrent readers (scheduler-dependent: repeated 5 times)\n", rp.Batches, rp.Backend)
			for i := 0; i < 5 && !c.Reported(rp.Backend+":batch-not-atomic-for-concurrent-readers"); i++ {
				atomicVisibility(c, rp.Backend, d, rp.Batches)
			}
			c.Finish("replay of the atomic-visibility stage")
		}
		v, shape, outs := evalCase(or, bk, rp.Ops)
		fmt.Printf("replay: %s\nshape=%s\n", caseLine(rp.Ops), shape)
		for k, o := range outs {
			fmt.Printf("  %-10s %s\n", k, o)
		}
		if v != nil {
			report(rp.Ops, v)
		}
		c.Count(caseLine(rp.Ops), true)
		c.Finish("replay of one recorded case")
	}

	// 1. UpperBound, exhaustively over a 4-letter alphabet up to length 5 (covers every carry shape)
	nub := 0
	var rec func(p []byte, depth int)
	rec = func(p []byte, depth int) {
		got := dbutils.UpperBound(p)
		want := strings.TrimPrefix(or.Ask("ub "+tohex(p), 1)[0], "ub ")
		g := "nil"
		if got != nil {
			g = tohex(got)
		}
		nub++
		if g != want {
			c.Violation("upper-bound", fmt.Sprintf("dbutils.UpperBound(%s) = %s, model %s", tohex(p), g, want),
				map[string]any{"prefix": tohex(p), "impl": g, "model": want}, false)
		}
		if depth == 0 {
			return
		}
		for _, a := range alphabet {
			rec(append(append([]byte{}, p...), a), depth-1)
		}
	}
	rec(nil, 5)
	c.Extra["upper_bound_inputs"] = nub

	// 1b. batches are atomic for concurrent readers too (history predicate; see atomic.go)
	nb := 3000
	if c.Thorough() {
		nb = 60000
	}
	atomicVisibility(c, "memory", bk.mem, nb)
	atomicVisibility(c, "pebblev2", bk.p2, nb/3)
	atomicVisibility(c, "pebble", bk.p1, nb/3)

	// 1c. what was written survives Close + reopen of the Pebble backends (see reopen.go)
	nre := 60
	if c.Thorough() {
		nre = 600
	}
	reopenStage(c, nre)

	// 2. operation sequences
	ncases := 1500
	if c.Thorough() {
		ncases = 5000 // the Pebble engines slow down as tombstones accumulate over a run: 12 000 took over an hour, 40 000 ran past the two-hour limit
	}
	r := hx.NewRNG(c.Seed)
	shapes := map[string]int{}
	for i := 0; i < ncases; i++ {
		bias := 92
		if i%4 == 3 {
			bias = 40 // a quarter of the cases roam outside the strict contract
		}
		ops := genCase(r.Fork(uint64(i)), 6+r.Intn(30), bias)
		v, shape, outs := evalCase(or, bk, ops)
		shapes[shape]++
		if _, ok := outs["memory+bufferbatch"]; ok {
			c.Hist["cases_also_run_through_BufferBatch"]++
		}
		for _, o := range ops {
			c.Hist[o.K]++
		}
		nontrivial := false
		for _, o := range ops {
			switch o.K {
			case "newiter", "bwrite", "newsnap", "helper", "delrange":
				nontrivial = true
			}
		}
		c.Count(caseLine(ops), nontrivial)
		if i < 3 {
			c.Sample(map[string]any{"ops": caseLine(ops), "shape": shape, "memory": outs["memory"], "pebblev2": outs["pebblev2"]})
		}
		if v != nil {
			report(ops, v)
		}
	}
	c.Extra["cases_by_first_excluded_shape"] = shapes
	c.Extra["backends"] = []string{"contract(Spec, extracted)", "memory model (extracted)", "db/memory", "db/pebblev2", "db/pebble", "db/memory and db/pebblev2 with indexed batches wrapped in db.SyncBatch (every case) and db.BufferBatch (cases using only its supported operations)"}
	c.Finish("operation sequences over keys from alphabet {00,01,fe,ff} (len<=3, biased to 0xff/0x00 so that 0xff-terminated prefixes, empty keys/values and keys extending keys occur); " +
		"non-trivial = contains an iterator, batch commit, snapshot, helper or range delete; distinct by the full op sequence")
}
