// reopen.go - what was written survives closing and reopening the Pebble backends unchanged (and equals what the
// in-memory backend holds after the same writes). The operation sequences of the main differential never close a
// database, so anything an engine resolves only when it flushes its memtable or replays its log (e.g. a tombstone
// that cancels only the newest of several writes of a key) stayed invisible; here every case ends with Close + reopen
// of the same directory, followed by a full comparison with the point-write semantics of the contract (later
// operations win, a delete removes the key whatever was written before; Spec.v: db_put / db_del / batch_write).
package main

import (
	"fmt"
	"os"
	"sort"

	"github.com/NethermindEth/juno/db"
	"github.com/NethermindEth/juno/db/memory"
	"github.com/NethermindEth/juno/db/pebble"
	"github.com/NethermindEth/juno/db/pebblev2"
	"verifharness/hx"
)

type reopenOp struct {
	Kind string `json:"kind"` // put | del | bput | bdel | bwrite
	Key  string `json:"key"`
	Val  string `json:"val,omitempty"`
}

func genReopenCase(r *hx.RNG) []reopenOp {
	keys := []string{"a1", "a2", "a3", "b1"}
	var ops []reopenOp
	inBatch := false
	for n := 6 + r.Intn(14); n > 0; n-- {
		k := keys[r.Intn(len(keys))]
		switch x := r.Intn(100); {
		case x < 30:
			ops = append(ops, reopenOp{Kind: "put", Key: k, Val: fmt.Sprintf("v%d", r.Intn(1000))})
		case x < 40:
			ops = append(ops, reopenOp{Kind: "del", Key: k})
		case x < 65:
			ops = append(ops, reopenOp{Kind: "bput", Key: k, Val: fmt.Sprintf("w%d", r.Intn(1000))})
			inBatch = true
		case x < 85:
			ops = append(ops, reopenOp{Kind: "bdel", Key: k})
			inBatch = true
		default:
			if inBatch {
				ops = append(ops, reopenOp{Kind: "bwrite"})
				inBatch = false
			}
		}
	}
	if inBatch {
		ops = append(ops, reopenOp{Kind: "bwrite"})
	}
	return ops
}

func applyReopenOps(d db.KeyValueStore, ops []reopenOp) error {
	var b db.Batch
	for _, o := range ops {
		var err error
		switch o.Kind {
		case "put":
			err = d.Put([]byte(o.Key), []byte(o.Val))
		case "del":
			err = d.Delete([]byte(o.Key))
		case "bput", "bdel":
			if b == nil {
				b = d.NewBatch()
			}
			if o.Kind == "bput" {
				err = b.Put([]byte(o.Key), []byte(o.Val))
			} else {
				err = b.Delete([]byte(o.Key))
			}
		case "bwrite":
			if b != nil {
				err = b.Write()
				b = nil
			}
		}
		if err != nil {
			return err
		}
	}
	return nil
}

func contentOfDB(d db.KeyValueStore) (string, error) {
	it, err := d.NewIterator(nil, false)
	if err != nil {
		return "", err
	}
	defer it.Close()
	var l []string
	for ok := it.First(); ok; ok = it.Next() {
		v, err := it.Value()
		if err != nil {
			return "", err
		}
		l = append(l, string(it.Key())+"="+string(v))
	}
	sort.Strings(l)
	return fmt.Sprint(l), nil
}

func reopenStage(c *hx.Ctx, n int) {
	r := hx.NewRNG(c.Seed ^ 0x7e09e7)
	base := hx.TempDir("c15reopen")
	defer os.RemoveAll(base)
	engines := []struct {
		name string
		open func(string) (db.KeyValueStore, error)
	}{
		{"pebblev2", func(p string) (db.KeyValueStore, error) { return pebblev2.New(p) }},
		{"pebble", func(p string) (db.KeyValueStore, error) { return pebble.New(p) }},
	}
	for i := 0; i < n; i++ {
		ops := genReopenCase(r.Fork(uint64(i)))
		if i == 0 { // directed: a key written twice, deleted through a batch, reopened
			ops = []reopenOp{{Kind: "put", Key: "a1", Val: "v1"}, {Kind: "put", Key: "a1", Val: "v2"}, {Kind: "bdel", Key: "a1"}, {Kind: "bwrite"}}
		}
		mem := memory.New()
		hx.Must(applyReopenOps(mem, ops))
		want, err := contentOfDB(mem)
		hx.Must(err)
		for _, e := range engines {
			if c.Reported(e.name + ":content-changes-across-close-and-reopen") {
				continue
			}
			dir := fmt.Sprintf("%s/%s-%d", base, e.name, i)
			d, err := e.open(dir)
			hx.Must(err)
			hx.Must(applyReopenOps(d, ops))
			before, err := contentOfDB(d)
			hx.Must(err)
			hx.Must(d.Close())
			d, err = e.open(dir)
			hx.Must(err)
			after, err := contentOfDB(d)
			hx.Must(err)
			hx.Must(d.Close())
			os.RemoveAll(dir)
			c.Evaluations++
			c.Hist["reopen:"+e.name+":cases"]++
			if before != want || after != want {
				c.Violation(e.name+":content-changes-across-close-and-reopen",
					fmt.Sprintf("%s after %v: before closing %s, after reopening %s, the in-memory backend / the contract %s", e.name, ops, before, after, want),
					map[string]any{"stage": "reopen", "backend": e.name, "reopen_ops": ops}, false)
			}
		}
	}
}
