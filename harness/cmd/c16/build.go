// C16 harness, part 1: synthetic chain content (with L1-handler transactions), twin nodes, and the
// counting database proxy that interrupts a prune at its n-th batch commit.
package main

import (
	"context"
	"encoding/binary"
	"errors"
	"fmt"
	"sort"
	"sync"

	"github.com/NethermindEth/juno/blockchain"
	"github.com/NethermindEth/juno/blockchain/networks"
	"github.com/NethermindEth/juno/core"
	"github.com/NethermindEth/juno/core/felt"
	"github.com/NethermindEth/juno/db"
	"github.com/NethermindEth/juno/db/memory"
	_ "github.com/NethermindEth/juno/encoder/registry"
	"github.com/NethermindEth/juno/pruner"
	"github.com/NethermindEth/juno/utils/log"
	"verifharness/hx"
)

func F(x uint64) *felt.Felt { f := felt.FromUint64[felt.Felt](x); return &f }

// ---------- block content in small integers (JSON-able: it is the replay format) ----------
type Spec struct {
	Timestamp uint64                       `json:"ts"`
	Deploy    map[uint64]uint64            `json:"deploy,omitempty"`  // address -> class hash
	Replace   map[uint64]uint64            `json:"replace,omitempty"` // address -> class hash
	Nonces    map[uint64]uint64            `json:"nonces,omitempty"`
	Storage   map[uint64]map[uint64]uint64 `json:"storage,omitempty"` // address -> slot -> value
	Txs       int                          `json:"txs"`               // invoke transactions (each emits one event)
	L1        int                          `json:"l1,omitempty"`      // L1-handler transactions
}

type Built struct {
	Block   *core.Block
	Update  *core.StateUpdate
	Classes map[felt.Felt]core.ClassDefinition
	MsgHash [][]byte // message hashes of the L1-handler transactions
}

func (s *Spec) diff() *core.StateDiff {
	d := &core.StateDiff{
		StorageDiffs:      map[felt.Felt]map[felt.Felt]*felt.Felt{},
		Nonces:            map[felt.Felt]*felt.Felt{},
		DeployedContracts: map[felt.Felt]*felt.Felt{},
		DeclaredV1Classes: map[felt.Felt]*felt.Felt{},
		ReplacedClasses:   map[felt.Felt]*felt.Felt{},
	}
	for a, c := range s.Deploy {
		d.DeployedContracts[*F(a)] = F(c)
	}
	for a, c := range s.Replace {
		d.ReplacedClasses[*F(a)] = F(c)
	}
	for a, n := range s.Nonces {
		d.Nonces[*F(a)] = F(n)
	}
	for a, m := range s.Storage {
		mm := map[felt.Felt]*felt.Felt{}
		for k, v := range m {
			mm[*F(k)] = F(v)
		}
		d.StorageDiffs[*F(a)] = mm
	}
	return d
}

func (s *Spec) txs(n uint64) ([]core.Transaction, []*core.TransactionReceipt, [][]byte) {
	var txs []core.Transaction
	var rcs []*core.TransactionReceipt
	var msgs [][]byte
	for i := 0; i < s.Txs; i++ {
		tx := &core.InvokeTransaction{
			Version:       new(core.TransactionVersion).SetUint64(3),
			SenderAddress: F(77),
			Nonce:         F(n*1000 + uint64(i)),
			CallData:      []felt.Felt{*F(uint64(i))},
			ResourceBounds: map[core.Resource]core.ResourceBounds{
				core.ResourceL1Gas:     {MaxAmount: 1, MaxPricePerUnit: F(1)},
				core.ResourceL2Gas:     {MaxAmount: 1, MaxPricePerUnit: F(1)},
				core.ResourceL1DataGas: {MaxAmount: 1, MaxPricePerUnit: F(1)},
			},
			TransactionSignature: []felt.Felt{*F(1), *F(2)},
		}
		hv, err := core.TransactionHash(tx, &networks.Sepolia)
		hx.Must(err)
		tx.TransactionHash = &hv
		rc := &core.TransactionReceipt{TransactionHash: &hv, Fee: F(uint64(i) + 1), FeeUnit: core.STRK,
			ExecutionResources: &core.ExecutionResources{},
			Events: []*core.Event{{From: F(500 + n%3), Keys: []felt.Felt{*F(900 + n%2)}, Data: []felt.Felt{*F(n)}}}}
		txs = append(txs, tx)
		rcs = append(rcs, rc)
	}
	for i := 0; i < s.L1; i++ {
		tx := &core.L1HandlerTransaction{
			ContractAddress:    F(11),
			EntryPointSelector: F(12),
			Nonce:              F(n*100 + uint64(i)),
			CallData:           []felt.Felt{*F(0xabc), *F(n), *F(uint64(i))},
			Version:            new(core.TransactionVersion).SetUint64(0),
		}
		hv, err := core.TransactionHash(tx, &networks.Sepolia)
		hx.Must(err)
		tx.TransactionHash = &hv
		rc := &core.TransactionReceipt{TransactionHash: &hv, Fee: F(0), FeeUnit: core.WEI,
			ExecutionResources: &core.ExecutionResources{}}
		txs = append(txs, tx)
		rcs = append(rcs, rc)
		msgs = append(msgs, tx.MessageHash())
	}
	return txs, rcs, msgs
}

// ---------- nodes ----------
type Node struct {
	DB       db.KeyValueStore
	BC       *blockchain.Blockchain
	NewState bool
	Floor    *pruner.RetentionFloor
}

// openNode creates a Blockchain over database. pruning = wire it the way node.go wires a pruning node
// (shared seeded retention floor, pruning-aware running-filter initialiser).
func openNode(database db.KeyValueStore, newState, pruning bool) *Node {
	opts := []blockchain.Option{blockchain.WithNewState(newState)}
	n := &Node{DB: database, NewState: newState}
	if pruning {
		fl, err := pruner.NewRetentionFloor(database)
		hx.Must(err)
		n.Floor = fl
		opts = append(opts, blockchain.WithRetentionFloor(fl),
			blockchain.WithRunningEventFilterInitializer(pruner.InitializeRunningEventFilter))
	}
	n.BC = blockchain.New(database, &networks.Sepolia, opts...)
	return n
}

// finalise appends spec on top of the head through Blockchain.Finalise (juno computes roots, commitments, hash).
func (n *Node) finalise(spec *Spec) (*Built, error) {
	var number uint64
	parent := &felt.Zero
	oldRoot := &felt.Zero
	if h, err := n.BC.HeadsHeader(); err == nil {
		number = h.Number + 1
		parent = h.Hash
		oldRoot = h.GlobalStateRoot
	}
	txs, rcs, msgs := spec.txs(number)
	var evCount uint64
	for _, r := range rcs {
		evCount += uint64(len(r.Events))
	}
	block := &core.Block{
		Header: &core.Header{
			ParentHash: parent, Number: number, SequencerAddress: F(1000), Timestamp: spec.Timestamp,
			TransactionCount: uint64(len(txs)), EventCount: evCount, EventsBloom: core.EventsBloom(rcs),
			L1GasPriceETH: F(1), L1GasPriceSTRK: F(1),
			L1DataGasPrice: &core.GasPrice{PriceInFri: F(1), PriceInWei: F(1)},
			L2GasPrice:     &core.GasPrice{PriceInFri: F(1), PriceInWei: F(1)},
			L1DAMode:       core.Blob, ProtocolVersion: core.Ver0_14_0.String(),
		},
		Transactions: txs, Receipts: rcs,
	}
	su := &core.StateUpdate{OldRoot: oldRoot, StateDiff: spec.diff()}
	classes := map[felt.Felt]core.ClassDefinition{}
	if err := n.BC.Finalise(block, su, classes, nil); err != nil {
		return nil, err
	}
	return &Built{Block: block, Update: su, Classes: classes, MsgHash: msgs}, nil
}

func (n *Node) store(b *Built) error {
	cm, err := n.BC.SanityCheckNewHeight(b.Block, b.Update, b.Classes)
	if err != nil {
		return fmt.Errorf("sanity: %w", err)
	}
	return n.BC.Store(b.Block, cm, b.Update, b.Classes)
}

// ---------- counting proxy ----------
var errInjected = errors.New("injected batch write failure")

// proxy wraps a memory database; every batch created through NewBatch is counted at Write().
// At the at-th commit (1-based, counted since arm()): mode "err" fails the write without applying it,
// "cancel" applies it and cancels the context, "crash" applies it and keeps a Copy() of the database.
type proxy struct {
	*memory.Database
	mu      sync.Mutex
	armed   bool
	commits int
	at      int
	mode    string
	cancel  context.CancelFunc
	image   *memory.Database
	imageAt int         // applied commits when the crash image was taken
	after   func(n int) // called after every applied commit while armed
	// recording (history-pruner migration): every batch Write attempt with a summary of its content, a
	// probe of the database after every applied one, and every state-update read (= block handed to a
	// stager / restorer worker). Mode "cancel-get" cancels the context at the at-th such read.
	rec   bool
	log   []commitRec
	gets  []uint64
	probe func() []string
}

type recOp struct {
	kind     byte // 'p' put, 'r' delete range
	key, val []byte
}

type commitRec struct {
	toks    []string
	applied bool
	getsAt  int // state-update reads seen when Write was called
	probe   []string
}

func (p *proxy) Get(key []byte, cb func([]byte) error) error {
	if p.armed && p.rec && len(key) == 9 && key[0] == byte(db.StateUpdatesByBlockNumber) {
		p.mu.Lock()
		p.gets = append(p.gets, binary.BigEndian.Uint64(key[1:]))
		if p.mode == "cancel-get" && len(p.gets) == p.at && p.cancel != nil {
			p.cancel()
		}
		p.mu.Unlock()
	}
	return p.Database.Get(key, cb)
}

func be8(b []byte) uint64 { return binary.BigEndian.Uint64(b[len(b)-8:]) }

// summarize: the content of a batch in the vocabulary of the model's batch summaries
func summarize(ops []recOp) []string {
	set := map[string]bool{}
	var h2n []uint64
	for _, o := range ops {
		k0 := o.key[0]
		switch o.kind {
		case 'r':
			switch {
			case k0 == byte(db.BlockCommitments) && len(o.val) == 9:
				set[fmt.Sprintf("P%d", be8(o.val))] = true
			case len(o.key) == 1:
				switch db.Bucket(k0) {
				case db.TransactionBlockNumbersAndIndicesByHash, db.L1HandlerTxnHashByMsgHash, db.BlockHeaderNumbersByHash:
					set["WL"] = true
				case db.DeprecatedContractStorageHistory, db.DeprecatedContractNonceHistory, db.DeprecatedContractClassHashHistory:
					set["WH"] = true
				case db.Temporary:
					set["WS"] = true
				}
			}
		case 'p':
			switch db.Bucket(k0) {
			case db.Temporary:
				set[fmt.Sprintf("S%d", be8(o.key))] = true
			case db.BlockHeaderNumbersByHash:
				h2n = append(h2n, be8(o.val))
			}
		}
	}
	for _, n := range h2n {
		if set["WH"] {
			set[fmt.Sprintf("seed%d", n)] = true
		} else {
			set[fmt.Sprintf("R%d", n)] = true
		}
	}
	var out []string
	for t := range set {
		out = append(out, t)
	}
	sort.Strings(out)
	return out
}

func (p *proxy) arm(at int, mode string, cancel context.CancelFunc) {
	p.armed, p.commits, p.at, p.mode, p.cancel, p.image = true, 0, at, mode, cancel, nil
}
func (p *proxy) disarm() { p.armed = false; p.after = nil; p.rec = false; p.probe = nil }

type pbatch struct {
	db.Batch
	p   *proxy
	ops []recOp
}

func cloneB(b []byte) []byte { return append([]byte(nil), b...) }

func (b *pbatch) Put(k, v []byte) error {
	if b.p.rec {
		b.ops = append(b.ops, recOp{'p', cloneB(k), cloneB(v)})
	}
	return b.Batch.Put(k, v)
}

func (b *pbatch) DeleteRange(s, e []byte) error {
	if b.p.rec {
		b.ops = append(b.ops, recOp{'r', cloneB(s), cloneB(e)})
	}
	return b.Batch.DeleteRange(s, e)
}

func (p *proxy) NewBatch() db.Batch              { return &pbatch{Batch: p.Database.NewBatch(), p: p} }
func (p *proxy) NewBatchWithSize(s int) db.Batch { return &pbatch{Batch: p.Database.NewBatchWithSize(s), p: p} }

func (b *pbatch) Write() error {
	p := b.p
	if !p.armed {
		return b.Batch.Write()
	}
	p.mu.Lock()
	defer p.mu.Unlock()
	p.commits++
	n := p.commits
	var cr commitRec
	if p.rec {
		cr = commitRec{toks: summarize(b.ops), getsAt: len(p.gets)}
	}
	if n == p.at && p.mode == "err" {
		if p.rec {
			p.log = append(p.log, cr)
		}
		return errInjected
	}
	if err := b.Batch.Write(); err != nil {
		return err
	}
	if p.rec {
		cr.applied = true
		if p.probe != nil {
			cr.probe = p.probe()
		}
		p.log = append(p.log, cr)
	}
	// mode "crash-wipe": the process dies right after the batch that wipes the scratch namespace (the last
	// write of the migration, before the runner records it as applied)
	if p.rec && p.mode == "crash-wipe" && p.image == nil {
		for _, t := range cr.toks {
			if t == "WS" {
				p.image = p.Database.Copy()
				p.imageAt = len(p.log)
			}
		}
	}
	if p.after != nil {
		p.after(n)
	}
	if n == p.at {
		switch p.mode {
		case "cancel":
			p.cancel()
		case "crash":
			p.image = p.Database.Copy()
			p.imageAt = n
		}
	}
	return nil
}

// ---------- the pruner under test ----------
type prunerCfg struct {
	Retained  uint64 `json:"retained"`
	Every     uint64 `json:"every"`
	MinAgeSec uint64 `json:"min_age_sec"` // 0 = off
	Batch     int    `json:"batch"`       // target batch byte size; 0 = juno's default
}

type pruneObs struct {
	called      bool
	oldestKept  uint64
	blocks      uint64
}

func newPruner(database db.KeyValueStore, floor *pruner.RetentionFloor, c prunerCfg, obs *pruneObs) *pruner.Pruner {
	opts := []pruner.Option{
		pruner.WithL2HeadsPerPrune(c.Every),
		pruner.WithMinAge(secs(c.MinAgeSec)),
		pruner.WithListener(&pruner.SelectiveListener{
			OnPruneCb: func(oldest, blocks uint64, _ durT) { obs.called, obs.oldestKept, obs.blocks = true, oldest, blocks },
		}),
	}
	if c.Batch > 0 {
		opts = append(opts, pruner.WithTargetBatchByteSize(c.Batch))
	}
	return pruner.New(database, floor, c.Retained, nil, nil, log.NewNopZapLogger(), opts...)
}
