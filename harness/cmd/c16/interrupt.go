// C16 harness, part 5: interruption of a prune at every batch commit, restart, resume; revert / extend.
package main

import (
	"context"
	"fmt"
	"strings"

	"github.com/NethermindEth/juno/db/memory"
	"github.com/NethermindEth/juno/pruner"
	"verifharness/hx"
)

func (r *run) deliver(p *pruner.Pruner, ev event, ctx context.Context) error {
	if ev.kind == "block" {
		return p.VerifOnNewBlock(ctx, ev.block)
	}
	return p.VerifOnNewL1Head(ctx, l1HeadOf(ev.l1))
}

func sameProbe(a, b map[string]string) string {
	for _, f := range []string{"hdr", "h2n", "txs", "txl", "l1l", "su", "cm", "hist", "histnew", "bloom"} {
		if v, ok := a[f]; ok && b[f] != v {
			return fmt.Sprintf("family %s: %s vs %s", f, v, b[f])
		}
	}
	return ""
}

// interruptions re-runs the prune decided by ev (oldest-to-keep k, local head `head`) from the database
// image pre, interrupted at every batch commit in three ways, and checks every in-between state.
func (r *run) interruptions(pre *memory.Database, ev event, pend, samp, k, head uint64, saveID string) {
	sc := r.sc
	// the unpruned twin at that height
	fullA := r.A
	A2 := openNode(memory.New(), sc.NewState, false)
	for i := uint64(0); i <= head; i++ {
		hx.Must(A2.store(r.bl[i]))
	}
	r.A = A2
	defer func() { r.A = fullA }()
	rot := "none"
	if sc.Cfg.Batch == 1 {
		rot = "all"
	}
	mk := func() (*proxy, *Node, *pruner.Pruner) {
		px := &proxy{Database: pre.Copy()}
		B := openNode(px, sc.NewState, true)
		p := newPruner(px, B.Floor, sc.Cfg, &pruneObs{})
		p.VerifSetPendingL2Heads(pend)
		p.VerifSetLatestSampledHeight(samp)
		return px, B, p
	}
	// reference: uninterrupted
	px0, _, p0 := mk()
	px0.arm(0, "", nil)
	hx.Must(r.deliver(p0, ev, context.Background()))
	N := px0.commits
	px0.disarm()
	ref := r.probe(px0, head)
	r.or.Ask("load "+saveID, 1)
	startS := r.or.Ask(fmt.Sprintf("oldest %d", head), 1)[0]
	var start uint64
	fmt.Sscan(startS, &start)
	pl := strings.Fields(r.or.Ask(fmt.Sprintf("plan %d %d %d %s 0", head, k, k, rot), 1)[0])
	if pl[0] != fmt.Sprint(N) {
		r.viol("model-store:batch-count", fmt.Sprintf("prune %d->%d rot=%s: %d commits, model %s batches", start, k, rot, N, pl[0]), true)
	}
	r.c.Hist[fmt.Sprintf("interrupt-commits:%d", min(N, 20))]++
	step := 1
	if N > 8 && !r.c.Thorough() {
		step = N / 6
	}
	for at := 1; at <= N; at++ {
		deep := at == 1 || at == N || at%step == 0 // twin comparison at a sample of points, model at all
		for _, mode := range []string{"err", "cancel", "crash"} {
			px, B, p := mk()
			ctx, cancel := context.WithCancel(context.Background())
			px.arm(at, mode, cancel)
			err := r.deliver(p, ev, ctx)
			px.disarm()
			cancel()
			r.c.Count(fmt.Sprintf("%s@%d/%d", mode, at, N), true)
			r.c.Hist["interrupt:"+mode]++
			if (mode == "err") != (err != nil) {
				r.viol("interrupt-error:"+mode, fmt.Sprintf("at commit %d/%d: error %v", at, N, err), true)
			}
			// the model's image of the in-process database
			r.or.Ask("load "+saveID, 1)
			switch mode {
			case "err":
				r.or.Ask(fmt.Sprintf("plan %d %d %d %s %d", head, k, k, rot, at-1), 1)
			case "crash":
				r.or.Ask(fmt.Sprintf("plan %d %d %d %s 100000", head, k, k, rot), 1)
			case "cancel":
				kc := k
				if rot == "all" && start+uint64(at) < k {
					kc = start + uint64(at)
				}
				r.or.Ask(fmt.Sprintf("plan %d %d %d %s 100000", head, k, kc, rot), 1)
			}
			where := fmt.Sprintf("%s at commit %d/%d of prune %d->%d", mode, at, N, start, k)
			r.tag = where
			r.compareModelStore(px, head, where)
			if deep {
				r.compareTwin(B, k, "in-process-after-"+mode, false)
			}
			// graceful stop mid-prune (context cancelled), then a restart: the floor is re-seeded from the
			// database; the property is evaluated for THAT floor (oldest retained block)
			if mode == "cancel" && deep {
				eo, _ := pruner.OldestRetainedBlock(px)
				r.compareTwin(openNode(px, sc.NewState, true), eo, "cancel-restart", false)
			}
			// restart on the crash image
			if mode == "crash" && px.image != nil {
				r.or.Ask("load "+saveID, 1)
				r.or.Ask(fmt.Sprintf("plan %d %d %d %s %d", head, k, k, rot, at), 1)
				pxi := &proxy{Database: px.image}
				Bi := openNode(pxi, sc.NewState, true)
				r.compareModelStore(pxi, head, "image: "+where)
				if deep {
					r.compareTwin(Bi, k, "crash-restart", false)
				}
				px, B = pxi, Bi
				p = newPruner(pxi, Bi.Floor, sc.Cfg, &pruneObs{})
			}
			// resume: a complete PruneUpto(k) must end exactly where the uninterrupted one did
			if mode != "crash" || at < N {
				hx.Must(p.VerifPruneUpto(context.Background(), k))
				r.or.Ask(fmt.Sprintf("plan %d %d %d %s 100000", head, k, k, rot), 1)
				r.compareModelStore(px, head, "resumed: "+where)
				if d := sameProbe(ref, r.probe(px, head)); d != "" {
					r.viol("resume-differs:"+mode, where+": "+d, false)
				}
				if deep {
					r.compareTwin(B, k, "resumed-after-"+mode, false)
				}
			}
		}
	}
	r.tag = ""
}

// revertAndExtend: both twins revert down to the floor (head = e) and are extended again.
func (r *run) revertAndExtend() {
	n := uint64(len(r.bl))
	low := r.e
	if n > 6 && low < n-6 && r.e == 0 {
		low = n - 6
	}
	if r.revertLow > low {
		low = r.revertLow
	}
	h := n - 1
	for h > low {
		ea, eb := r.A.BC.RevertHead(), r.B.BC.RevertHead()
		if (ea == nil) != (eb == nil) {
			r.viol("revert-differs", fmt.Sprintf("reverting block %d (floor %d): unpruned %v pruned %v", h, r.e, ea, eb), false)
			return
		}
		if ea != nil {
			r.c.Hist["revert-refused-on-both"]++
			break
		}
		r.or.Ask(fmt.Sprintf("rev %d", h), 1)
		h--
	}
	r.c.Hist[fmt.Sprintf("reverted-to-floor:%v", h == r.e)]++
	floorSave := r.e
	_ = floorSave
	r.compareTwin(r.B, r.e, "reverted", true)
	r.compareModelStore(r.px, h, "reverted")
	for i := h + 1; i < n; i++ {
		ea, eb := r.A.store(r.bl[i]), r.B.store(r.bl[i])
		if ea != nil || eb != nil {
			r.viol("extend-differs", fmt.Sprintf("re-storing block %d: unpruned %v pruned %v", i, ea, eb), false)
			return
		}
		r.or.Ask(fmt.Sprintf("ext %d", i), 1)
	}
	r.compareTwin(r.B, r.e, "re-extended", true)
	r.compareModelStore(r.px, n-1, "re-extended")
}
