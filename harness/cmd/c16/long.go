// C16 harness, part 6: long histories across two 8192-block window boundaries. The floor lies inside
// window 1 ([8192, 16383], persisted), the head in window 2 (running filter); cheap blocks.
package main

import (
	"github.com/NethermindEth/juno/core"
	"verifharness/hx"
)

type LongCfg struct {
	Seed     uint64 `json:"seed"`
	FloorOff uint64 `json:"floor_off"` // the first big prune lands at 8192 + FloorOff
	Tail     int    `json:"tail"`      // blocks stored one by one (with pruner events) after the copy
}

const W = core.NumBlocksPerFilter

func longScenario(g *hx.RNG, newState bool) *Scenario {
	lc := &LongCfg{Seed: g.U64(), FloorOff: uint64(40 + g.Intn(600)), Tail: 5}
	sc := &Scenario{NewState: newState, Kind: "long", Long: lc, L1Mode: "lag"}
	n := uint64(2*W) + 12 + uint64(lc.Tail)
	sc.Cfg = prunerCfg{Retained: 3, Every: 1}
	// first L1 event after the copy: l1 = sync-1-lag ; floor = l1 - retained = W + FloorOff
	sc.Sync = int(n) - lc.Tail
	sc.L1Lag = uint64(sc.Sync-1) - 3 - (W + lc.FloorOff)
	return sc
}

// interesting block numbers of a long history: ends, both window boundaries, the floor region
func longIdx(sc *Scenario, n uint64) []uint64 {
	fl := W + sc.Long.FloorOff
	var out []uint64
	for i := uint64(0); i < n; i++ {
		if i < 6 || (i+6 >= W && i < W+6) || (i+14 >= fl && i < fl+12) || (i+6 >= 2*W && i < 2*W+6) || i+uint64(sc.Long.Tail)+8 >= n {
			out = append(out, i)
		}
	}
	return out
}

// expand fills r.specs / r.ages (from the scenario, or generated for a long history)
func (r *run) expand() {
	sc := r.sc
	lightState = false
	if sc.Kind != "long" {
		r.specs, r.ages = sc.Specs, sc.Ages
		return
	}
	g := hx.NewRNG(sc.Long.Seed)
	n := uint64(2*W) + 12 + uint64(sc.Long.Tail)
	r.idx = longIdx(sc, n)
	hot := map[uint64]bool{}
	for _, i := range r.idx {
		hot[i] = true
	}
	r.revertLow = 2*W - 4
	lightState = true
	for i := uint64(0); i < n; i++ {
		sp := Spec{}
		if i == 0 {
			sp.Deploy = map[uint64]uint64{21: 31, 22: 31, 23: 32}
			sp.Txs = 1
		} else if hot[i] || i%1024 == 7 {
			sp.Txs = 1 + g.Intn(2)
			if g.Chance(60) {
				sp.Storage = map[uint64]map[uint64]uint64{uniAddrs[g.Intn(2)]: {uniSlots[g.Intn(2)]: uint64(g.Intn(4))}}
			}
			if g.Chance(30) {
				sp.Nonces = map[uint64]uint64{uniAddrs[g.Intn(3)]: i}
			}
			if g.Chance(20) {
				sp.L1 = 1
			}
		}
		r.specs = append(r.specs, sp)
		r.ages = append(r.ages, 200000+(n-i))
	}
}
