// C16 harness, part 3: scenarios. Twin nodes (A unpruned = the sequencer, B pruned) over generated
// chains x L1-head sequences x retention x min-age x batch thresholds; the pruner is driven through the
// verif export; every prune is compared with the extracted model and with the unpruned twin, then
// re-run interrupted at every batch commit (error / cancel / crash image), resumed, reverted, extended.
package main

import (
	"context"
	"fmt"
	"os"
	"strings"
	"time"

	"github.com/NethermindEth/juno/core"
	"github.com/NethermindEth/juno/db"
	"github.com/NethermindEth/juno/db/memory"
	"github.com/NethermindEth/juno/pruner"
	"verifharness/hx"
)

type Scenario struct {
	NewState bool      `json:"new_state"`
	Ages     []uint64  `json:"ages"` // per block: seconds before "now" of its timestamp (non-increasing)
	Specs    []Spec    `json:"specs"`
	Cfg      prunerCfg `json:"cfg"`
	L1Mode   string    `json:"l1_mode"` // lag | equal | ahead | none
	L1Lag    uint64    `json:"l1_lag"`
	Sync     int       `json:"sync"`      // blocks stored before the pruner sees its first event
	Interrupt bool     `json:"interrupt"` // explore every interruption point of the largest prune
	Kind      string   `json:"kind,omitempty"` // "" pruner service | "long" | "migrate" | "runloop"
	Long      *LongCfg `json:"long,omitempty"`
	Mig       *MigCfg  `json:"mig,omitempty"`
}

type run struct {
	c    *hx.Ctx
	or   *hx.Oracle
	sc   *Scenario
	now  uint64
	bl   []*Built
	A, B *Node
	px   *proxy
	p    *pruner.Pruner
	obs  pruneObs
	idx  []uint64 // block indices compared (nil = all)
	ages  []uint64
	specs []Spec  // content of every block (sc.Specs, or generated for long histories)
	revertLow uint64 // revertAndExtend stops here when above the floor (long histories)
	e    uint64 // intended floor: largest oldest-to-keep decided so far
	tag  string
}

func (r *run) backend() string {
	if r.sc.NewState {
		return "new-state"
	}
	return "legacy-state"
}

func (r *run) viol(class, what string, noInput bool) {
	r.c.Violation(r.backend()+":"+class, what+" ["+r.tag+"]", r.sc, noInput)
}

func height(d db.KeyValueReader) uint64 { h, err := core.GetChainHeight(d); hx.Must(err); return h }

// ---------- family presence straight from the database ----------
func (r *run) probe(d db.KeyValueReader, head uint64) map[string]string {
	out := map[string]string{}
	bit := func(err error) byte {
		if err == nil {
			return '1'
		}
		return '0'
	}
	fams := []string{"hdr", "h2n", "txs", "txl", "l1l", "su", "cm", "hist", "histnew"}
	bufs := map[string][]byte{}
	for _, n := range r.indices(head) {
		b := r.bl[n]
		_, e1 := core.GetBlockHeaderHashByNumber(d, n)
		bufs["hdr"] = append(bufs["hdr"], bit(e1))
		_, e2 := core.GetBlockHeaderNumberByHash(d, b.Block.Hash)
		bufs["h2n"] = append(bufs["h2n"], bit(e2))
		_, e3 := core.GetTransactionsByBlockNumber(d, n)
		bufs["txs"] = append(bufs["txs"], bit(e3))
		if len(b.Block.Transactions) > 0 {
			_, e4 := core.TransactionBlockNumbersAndIndicesByHashBucket.Get(d, (*feltTxHash)(b.Block.Transactions[0].Hash()))
			bufs["txl"] = append(bufs["txl"], bit(e4))
		} else {
			bufs["txl"] = append(bufs["txl"], '-')
		}
		if len(b.MsgHash) > 0 {
			_, e5 := core.GetL1HandlerTxnHashByMsgHash(d, b.MsgHash[0])
			bufs["l1l"] = append(bufs["l1l"], bit(e5))
		} else {
			bufs["l1l"] = append(bufs["l1l"], '-')
		}
		_, e6 := core.GetStateUpdateByBlockNum(d, n)
		bufs["su"] = append(bufs["su"], bit(e6))
		_, e7 := core.GetBlockCommitmentByBlockNum(d, n)
		bufs["cm"] = append(bufs["cm"], bit(e7))
		// history logs of this block: only where the unpruned twin has one
		ho, hn := byte('-'), byte('-')
		for a, m := range r.specs[n].Storage {
			for s := range m {
				ko := db.DeprecatedContractStorageHistoryAtBlockKey(F(a), F(s), n)
				if ok, _ := r.A.DB.Has(ko); ok {
					has, _ := d.Has(ko)
					if has && ho != '0' {
						ho = '1'
					} else if !has {
						ho = '0'
					}
				}
				kn := append(db.ContractStorageHistoryKey(F(a), F(s)), be64(n)...)
				if ok, _ := r.A.DB.Has(kn); ok {
					has, _ := d.Has(kn)
					if has && hn != '0' {
						hn = '1'
					} else if !has {
						hn = '0'
					}
				}
			}
		}
		bufs["hist"] = append(bufs["hist"], ho)
		bufs["histnew"] = append(bufs["histnew"], hn)
	}
	for _, f := range fams {
		out[f] = string(bufs[f])
	}
	var ws []string
	for w := uint64(0); w <= head; w += core.NumBlocksPerFilter {
		if _, err := core.GetAggregatedBloomFilter(d, w, w+core.NumBlocksPerFilter-1); err == nil {
			ws = append(ws, fmt.Sprint(w))
		}
	}
	out["bloom"] = "-"
	if len(ws) > 0 {
		out["bloom"] = strings.Join(ws, ",")
	}
	return out
}

func (r *run) probeBloom(d db.KeyValueReader, head uint64) string {
	var ws []string
	for w := uint64(0); w <= head; w += core.NumBlocksPerFilter {
		if _, err := core.GetAggregatedBloomFilter(d, w, w+core.NumBlocksPerFilter-1); err == nil {
			ws = append(ws, fmt.Sprint(w))
		}
	}
	if len(ws) == 0 {
		return "-"
	}
	return strings.Join(ws, ",")
}

var traceT = time.Now()

func trace(what string) {
	if os.Getenv("C16_TRACE") != "" {
		fmt.Fprintf(os.Stderr, "[%7.2fs] %s\n", time.Since(traceT).Seconds(), what)
	}
}

func (r *run) indices(head uint64) []uint64 {
	var out []uint64
	if r.idx == nil {
		for n := uint64(0); n <= head; n++ {
			out = append(out, n)
		}
		return out
	}
	for _, n := range r.idx {
		if n <= head {
			out = append(out, n)
		}
	}
	return out
}

func be64(n uint64) []byte {
	return []byte{byte(n >> 56), byte(n >> 48), byte(n >> 40), byte(n >> 32), byte(n >> 24), byte(n >> 16), byte(n >> 8), byte(n)}
}

// matches compares an implementation bit string with the model's, ignoring '-' positions
func matches(impl, model string) bool {
	if len(impl) != len(model) {
		return false
	}
	for i := range impl {
		if impl[i] != '-' && impl[i] != model[i] {
			return false
		}
	}
	return true
}

// compareModelStore: the session store of the oracle against the database
func (r *run) compareModelStore(d db.KeyValueReader, head uint64, where string) {
	got := r.probe(d, head)
	for _, l := range r.or.Ask(fmt.Sprintf("dump %d", head), 10) {
		w := strings.SplitN(l, " ", 2)
		f, model := w[0], w[1]
		ok := false
		if f == "bloom" {
			ok = got[f] == model
		} else {
			ok = matches(got[f], model)
		}
		if !ok {
			extra := ""
			if f == "bloom" {
				extra = " (unpruned twin: " + r.probeBloom(r.A.DB, head) + ")"
			}
			r.viol("model-store:"+f, fmt.Sprintf("%s: family %s database %s model %s%s", where, f, got[f], model, extra), true)
		}
	}
}

// ---------- the property predicate against the unpruned twin ----------
// e = intended floor (blocks >= e retained, state from e-1). ctx names the situation for the class.
func (r *run) compareTwin(B *Node, e uint64, ctx string, withModelAns bool) {
	head := height(B.DB)
	if ha := height(r.A.DB); ha != head {
		r.viol("twin-height:"+ctx, fmt.Sprintf("heights differ: unpruned %d pruned %d", ha, head), false)
		return
	}
	impl := map[string][]byte{}
	for _, n := range r.indices(head) {
		oa := observeBlock(r.A.BC, r.bl[n])
		ob := observeBlock(B.BC, r.bl[n])
		for _, name := range accNames {
			a, okA := oa[name]
			b := ob[name]
			if !okA {
				impl[name] = append(impl[name], '-')
				continue
			}
			if strings.HasPrefix(b, "ok:") {
				impl[name] = append(impl[name], '1')
			} else {
				impl[name] = append(impl[name], '0')
			}
			r.c.Count("", false)
			if n >= e {
				if a != b {
					r.viol("retained-changed:"+ctx+":"+name, fmt.Sprintf("block %d >= floor %d: %s: unpruned %s pruned %s", n, e, name, clip(a), clip(b)), false)
				}
			} else if b != "nf" && b != a {
				r.viol("partial-below-floor:"+ctx+":"+name, fmt.Sprintf("block %d < floor %d: %s: unpruned %s pruned %s", n, e, name, clip(a), clip(b)), false)
			}
		}
		// state as of block n, by number and by hash (long histories: around the floor and the head only)
		if r.idx != nil && !(n+3 >= e && n <= e+1) && n+2 < head {
			continue
		}
		for _, how := range []string{"number", "hash"} {
			var sa, sb stateObs
			nn, hh := n, r.bl[n].Block.Hash
			if how == "number" {
				sa = observeState(func() (core.StateReader, func() error, error) { return r.A.BC.StateAtBlockNumber(nn) })
				sb = observeState(func() (core.StateReader, func() error, error) { return B.BC.StateAtBlockNumber(nn) })
			} else {
				sa = observeState(func() (core.StateReader, func() error, error) { return r.A.BC.StateAtBlockHash(hh) })
				sb = observeState(func() (core.StateReader, func() error, error) { return B.BC.StateAtBlockHash(hh) })
			}
			r.c.Count("", false)
			if !sa.Served {
				continue
			}
			if n+1 >= e {
				if !sb.Served {
					r.viol("state-refused:"+ctx+":by-"+how, fmt.Sprintf("state at block %d (floor %d) refused: %s", n, e, sb.Err), false)
				} else if d := firstDiff(sa.Vals, sb.Vals); d != "" {
					r.viol("state-changed:"+ctx+":by-"+how, fmt.Sprintf("state at block %d (floor %d): %s", n, e, d), false)
				} else if d := firstDiff(sa.LastUpd, sb.LastUpd); d != "" {
					r.viol("last-updated-block-changed:by-"+how, fmt.Sprintf("state at block %d (floor %d): %s", n, e, d), false)
				}
			} else if sb.Served {
				if d := firstDiff(sa.Vals, sb.Vals); d != "" {
					r.viol("state-below-floor-wrong:"+ctx+":by-"+how, fmt.Sprintf("state at block %d below floor-1=%d is served with a wrong value: %s", n, e-1, d), false)
				}
			} else if sb.Err != "nf" {
				r.viol("state-below-floor-error:"+ctx+":by-"+how, fmt.Sprintf("state at block %d: %s", n, sb.Err), false)
			}
		}
	}
	// head state
	sa := observeState(r.A.BC.HeadState)
	sb := observeState(B.BC.HeadState)
	if d := firstDiff(sa.Vals, sb.Vals); d != "" || sa.Served != sb.Served {
		r.viol("head-state-changed:"+ctx, "head state: "+d, false)
	} else if d := firstDiff(sa.LastUpd, sb.LastUpd); d != "" {
		r.viol("last-updated-block-changed:head", "head state: "+d, false)
	}
	// event queries: over retained ranges they must equal the twin's, with and without address / key
	// filters; a range starting below the floor is refused (pruned) or exact
	W := core.NumBlocksPerFilter
	type rng struct{ from, to uint64 }
	rs := []rng{{0, head}, {e / 2, head}, {e, head}, {(e + head) / 2, head}}
	if wEnd := e - e%W + W - 1; wEnd < head { // the floor's own (persisted) window, and the boundary
		rs = append(rs, rng{e, wEnd}, rng{e, wEnd + 1}, rng{wEnd + 1, head})
	}
	for _, q := range rs {
		if q.from > head || q.from > q.to {
			continue
		}
		for _, flt := range [][2]uint64{{0, 0}, {500, 0}, {0, 901}, {502, 900}} {
			ea, eb := observeEventsF(r.A.BC, q.from, q.to, flt[0], flt[1]), observeEventsF(B.BC, q.from, q.to, flt[0], flt[1])
			r.c.Count("", false)
			what := fmt.Sprintf("events [%d,%d] addr=%d key=%d (floor %d): unpruned %s pruned %s", q.from, q.to, flt[0], flt[1], e, clip(ea), clip(eb))
			if q.from >= e && ea != eb {
				r.viol("events-changed:"+ctx, what, false)
			} else if q.from < e && eb != "nf" && eb != ea {
				r.viol("events-partial-below-floor:"+ctx, what, false)
			}
		}
	}
	if withModelAns {
		for _, l := range r.or.Ask(fmt.Sprintf("ans %d", head), 20) {
			w := strings.SplitN(l, " ", 2)
			if !matches(string(impl[w[0]]), w[1]) {
				r.viol("model-accessor:"+w[0], fmt.Sprintf("%s: accessor %s answers %s model %s", ctx, w[0], impl[w[0]], w[1]), true)
			}
		}
	}
}

type feltTxHash = feltTransactionHash

func nowUnix() uint64 { return uint64(time.Now().Unix()) }

var _ = context.Background
var _ = memory.New
