// C16 harness, part 7: the history-pruner migration (migration/historyprunner) in non-trivial
// configurations, interrupted and resumed, compared with the unpruned twin, with a natively pruned twin
// (PruneUpto on a copy) and with the model's pruned shape; then revert down to the floor and re-store.
package main

import (
	"context"
	"errors"
	"fmt"
	"strings"

	"github.com/NethermindEth/juno/blockchain/networks"
	"github.com/NethermindEth/juno/core"
	"github.com/NethermindEth/juno/db/memory"
	"github.com/NethermindEth/juno/migration/historyprunner"
	"github.com/NethermindEth/juno/pruner"
	"github.com/NethermindEth/juno/utils/log"
	"verifharness/hx"
)

type MigCfg struct {
	L1     string `json:"l1"`      // below | equal | above | absent
	L1Off  uint64 `json:"l1_off"`  // distance of the L1 head from the local head
	MinAge bool   `json:"min_age"` // 1 h
	Mode   string `json:"mode"`    // none | cancel | err | crash : interruption at commit At
	At     int    `json:"at"`
}

func genMigrate(g *hx.RNG, newState bool) *Scenario {
	n := 14 + g.Intn(14)
	sc := genScenario(g, newState, n, false)
	sc.Kind, sc.Interrupt = "migrate", false
	m := &MigCfg{L1: []string{"below", "below", "equal", "above", "absent"}[g.Intn(5)], L1Off: uint64(1 + g.Intn(6)),
		MinAge: sc.Cfg.MinAgeSec > 0, Mode: []string{"none", "cancel", "err", "crash"}[g.Intn(4)], At: 1 + g.Intn(8)}
	if g.Chance(8) {
		m.L1 = "absent"
	}
	sc.Mig = m
	// storage diffs may rewrite the value a slot already has (the legacy backend logs no history entry for such
	// an entry; the migration skips entries without a log since the /repo fix) - half of the scenarios keep
	// them, the other half list changed slots only
	if g.Chance(50) {
		changingWrites(sc)
	}
	return sc
}

// changingWrites rewrites the storage diffs so that every entry changes the slot's value (the
// protocol's state diffs list changed slots only)
func changingWrites(sc *Scenario) {
	cur := map[[2]uint64]uint64{}
	for i := range sc.Specs {
		for a, m := range sc.Specs[i].Storage {
			for s, v := range m {
				k := [2]uint64{a, s}
				if v == cur[k] {
					v = (v + 1) % 4
					m[s] = v
				}
				cur[k] = v
			}
		}
	}
}

func (m *MigCfg) l1(head uint64) (uint64, bool) {
	switch m.L1 {
	case "below":
		if m.L1Off > head {
			return 0, true
		}
		return head - m.L1Off, true
	case "equal":
		return head, true
	case "above":
		return head + m.L1Off, true
	}
	return 0, false
}

// migrateOnce runs one Migrate call the way migration.Runner does (Before, then Migrate)
func migrateOnce(ctx context.Context, px *proxy, sc *Scenario, state []byte) ([]byte, error) {
	m := historyprunner.New(sc.Cfg.Retained, secs(sc.Cfg.MinAgeSec))
	if err := m.Before(state); err != nil {
		return nil, err
	}
	return m.Migrate(ctx, px, &networks.Sepolia, log.NewNopZapLogger())
}

func runMigrate(c *hx.Ctx, or *hx.Oracle, sc *Scenario, tag string) {
	r := &run{c: c, or: or, sc: sc, now: nowUnix(), tag: tag}
	r.expand()
	n := uint64(len(r.specs))
	head := n - 1
	r.A = openNode(memory.New(), sc.NewState, false)
	for i := range r.specs {
		sp := r.specs[i]
		sp.Timestamp = r.now - r.ages[i]
		b, err := r.A.finalise(&sp)
		hx.Must(err)
		r.bl = append(r.bl, b)
	}
	pre := r.A.DB.(*memory.Database).Copy()
	l1, haveL1 := sc.Mig.l1(head)
	if haveL1 {
		hx.Must(core.WriteL1Head(pre, l1HeadOf(l1)))
	}
	c.Hist["migrate:l1:"+sc.Mig.L1]++
	c.Hist["migrate:mode:"+sc.Mig.Mode]++
	// the floor the property allows: min(l1, head) - retained, lowered by the min-age floor
	want, prunes := uint64(0), false
	if haveL1 {
		pivot := min(l1, head)
		if pivot >= sc.Cfg.Retained {
			want, prunes = pivot-sc.Cfg.Retained, true
			if fy := r.firstYoung(); sc.Cfg.MinAgeSec > 0 && fy <= pivot && fy < want {
				want = fy
			}
		}
	}
	// run, interrupted once at commit At, then resumed until complete
	px := &proxy{Database: pre.Copy()}
	ctx, cancel := context.WithCancel(context.Background())
	mode := sc.Mig.Mode
	if mode != "none" {
		px.arm(sc.Mig.At, mode, cancel)
	}
	state, err := migrateOnce(ctx, px, sc, nil)
	fired := px.armed && px.commits >= sc.Mig.At
	px.disarm()
	cancel()
	if mode == "crash" && px.image != nil { // restart on the crash image with the last persisted state (none)
		px = &proxy{Database: px.image}
		state, err = nil, fmt.Errorf("crashed")
	}
	if mode != "none" && fired {
		c.Hist["migrate:interrupted:"+mode]++
	}
	for round := 0; (state != nil || err != nil) && round < 6; round++ {
		if err != nil && (!fired || !haveL1) {
			break // a genuine error of an uninterrupted run (e.g. no L1 head): reported below
		}
		fired = true
		if err != nil && !errors.Is(err, context.Canceled) {
			state = nil // runner: (nil, error) clears the state; a crash keeps the last persisted one (none)
		}
		state, err = migrateOnce(context.Background(), px, sc, state)
	}
	ctxName := "migrated"
	if prunes && want == 0 {
		ctxName = "migrated-floor-zero"
	}
	if err != nil {
		// a failed migration stops the node from starting; it must at least not have damaged the database
		c.Hist["migrate:error"]++
		reason := "other"
		switch {
		case strings.Contains(err.Error(), "18446744073709551615"):
			reason = "floor-zero-underflow"
		case strings.Contains(err.Error(), "history at block"):
			reason = "missing-history-log"
		case strings.Contains(err.Error(), "getting L1 head"):
			reason = "no-l1-head"
		}
		c.Hist["migrate:error:"+reason]++
		c.Count("migrate-error "+reason, true)
		r.tag = tag
		if d := sameProbe(r.probe(pre, head), r.probe(px, head)); d != "" {
			r.viol("migration-failed-damaged:"+reason, fmt.Sprintf("Migrate (l1 %s, head %d, retained %d, min-age %v, interruption %s) returns %q and leaves the database changed: before/after %s",
				optStr(l1, haveL1), head, sc.Cfg.Retained, sc.Cfg.MinAgeSec > 0, mode, clip(err.Error()), d), false)
		} else if reason != "no-l1-head" {
			r.viol("migration-failed:"+reason, fmt.Sprintf("Migrate returns %q", clip(err.Error())), false)
		}
		return
	}
	c.Count(fmt.Sprintf("migrate %s %s", sc.Mig.L1, mode), prunes)
	// what the database now claims as its floor
	got, gerr := pruner.OldestRetainedBlock(px)
	if gerr != nil {
		r.viol("migration:no-oldest", fmt.Sprintf("OldestRetainedBlock: %v", gerr), false)
		return
	}
	if err == nil && got != want {
		r.viol("migration:floor", fmt.Sprintf("oldest retained %d, expected min(l1 %s, head %d) - retained %d (min-age %v) = %d",
			got, optStr(l1, haveL1), head, sc.Cfg.Retained, sc.Cfg.MinAgeSec > 0, want), false)
	}
	if haveL1 && got > 0 && or.Ask(fmt.Sprintf("bound %d %d %d %d", l1, head, sc.Cfg.Retained, got), 1)[0] != "1" {
		r.viol("migration:floor-above-bound", fmt.Sprintf("oldest retained %d with l1 %d head %d retained %d", got, l1, head, sc.Cfg.Retained), false)
	}
	r.e = got
	r.px = px
	r.B = openNode(px, sc.NewState, true)
	// model: the pruned shape at `got`
	or.Ask("idx all", 1)
	or.Ask(fmt.Sprintf("init %d", head), 1)
	or.Ask(fmt.Sprintf("plan %d %d %d none 100000", head, got, got), 1)
	r.compareModelStore(px, head, ctxName)
	// natively pruned twin
	nat := pre.Copy()
	if _, _, perr := pruner.PruneUpto(context.Background(), nat, got, 1<<30); perr != nil {
		r.viol("migration:native-prune-error", perr.Error(), true)
	} else if d := sameProbe(r.probe(nat, head), r.probe(px, head)); d != "" {
		r.viol("migration-vs-native:"+strings.SplitN(d, ":", 2)[0], ctxName+": natively pruned vs migrated: "+d, false)
	}
	// the property predicate against the unpruned twin, then revert to the floor and re-store
	r.compareTwin(r.B, got, ctxName, true)
	r.revertAndExtend()
}
