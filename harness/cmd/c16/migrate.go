// C16 harness, part 7: the history-pruner migration (migration/historyprunner) in non-trivial
// configurations, interrupted (cancel / failing batch write / crash image, any number of times, with
// configuration changes between starts) and resumed the way migration/runner.go does it. EVERY Migrate call
// is tied to the extracted model C16/Migrate.v: the batches it commits, the database after every commit
// (block families, history logs and scratch entries WITH their values), the result and the resume blob,
// the cut-off. The completed migration is compared with the theorems' final shape (mig_final), with the
// unpruned twin, with a natively pruned twin (PruneUpto on a copy); then revert to the floor and re-store.
package main

import (
	"context"
	"encoding/binary"
	"errors"
	"fmt"
	"math/big"
	"runtime"
	"sort"
	"strings"
	"time"

	"github.com/NethermindEth/juno/blockchain/networks"
	"github.com/NethermindEth/juno/core"
	"github.com/NethermindEth/juno/db"
	"github.com/NethermindEth/juno/db/memory"
	"github.com/NethermindEth/juno/migration/historyprunner"
	"github.com/NethermindEth/juno/pruner"
	"github.com/NethermindEth/juno/utils/log"
	"verifharness/hx"
)

// one start of the node while the migration is pending
type MigStep struct {
	Mode     string  `json:"mode"`               // none | cancel | cancel-get | err | crash | crash-wipe (after the scratch-wipe commit)
	At       int     `json:"at"`                 // commit (cancel, err, crash) or state-update read (cancel-get), 1-based within the call
	Procs    int     `json:"procs,omitempty"`    // GOMAXPROCS during the call = number of pipeline workers (0: 2)
	Retained *uint64 `json:"retained,omitempty"` // --prune-retained-blocks changed for this and the following starts
	MinAge   *bool   `json:"min_age,omitempty"`  // --prune-min-age switched on (1 h) / off from this start on
	Force    bool    `json:"force,omitempty"`    // apply the configuration change even when no resume blob is stored (not pinned)
}

type MigCfg struct {
	L1     string    `json:"l1"`      // below | equal | above | absent
	L1Off  uint64    `json:"l1_off"`  // distance of the L1 head from the local head
	MinAge bool      `json:"min_age"` // 1 h
	Mode   string    `json:"mode"`    // (older replays) one interruption at commit At: none | cancel | err | crash
	At     int       `json:"at"`
	Steps  []MigStep `json:"steps,omitempty"` // the interrupted starts; completing starts follow
}

func genMigrate(g *hx.RNG, newState bool) *Scenario {
	n := 14 + g.Intn(14)
	if g.Chance(30) {
		n = 30 + g.Intn(14) // room for a floor more than BlockHashLag above the min-age search's probes
	}
	sc := genScenario(g, newState, n, false)
	sc.Kind, sc.Interrupt = "migrate", false
	m := &MigCfg{L1: []string{"below", "below", "below", "equal", "equal", "above"}[g.Intn(6)], L1Off: uint64(1 + g.Intn(6)),
		MinAge: sc.Cfg.MinAgeSec > 0}
	if g.Chance(7) {
		m.L1 = "absent"
	}
	k := 1 + g.Intn(3)
	if g.Chance(20) || m.L1 == "absent" {
		k = 0
	}
	for ; k > 0; k-- {
		st := MigStep{Mode: []string{"cancel", "cancel-get", "cancel-get", "err", "crash", "crash-wipe"}[g.Intn(6)], Procs: 1 + g.Intn(4)}
		if st.Mode == "cancel-get" {
			st.At = 1 + g.Intn(2*n)
		} else {
			st.At = 1 + g.Intn(4+2*st.Procs)
		}
		if g.Chance(12) {
			r := uint64(g.Intn(n))
			st.Retained = &r
		}
		m.Steps = append(m.Steps, st)
	}
	sc.Mig = m
	// storage diffs may rewrite the value a slot already has (the legacy backend logs no history entry for such
	// an entry; the migration skips entries without a log since the /repo fix) - half of the scenarios keep
	// them, the other half list changed slots only
	if g.Chance(50) {
		changingWrites(sc)
	}
	return sc
}

// changingWrites rewrites the storage diffs so that every entry changes the slot's value (the
// protocol's state diffs list changed slots only)
func changingWrites(sc *Scenario) {
	cur := map[[2]uint64]uint64{}
	for i := range sc.Specs {
		for a, m := range sc.Specs[i].Storage {
			for s, v := range m {
				k := [2]uint64{a, s}
				if v == cur[k] {
					v = (v + 1) % 4
					m[s] = v
				}
				cur[k] = v
			}
		}
	}
}

func (m *MigCfg) l1(head uint64) (uint64, bool) {
	switch m.L1 {
	case "below":
		if m.L1Off > head {
			return 0, true
		}
		return head - m.L1Off, true
	case "equal":
		return head, true
	case "above":
		return head + m.L1Off, true
	}
	return 0, false
}

func (m *MigCfg) steps() []MigStep {
	if len(m.Steps) > 0 || m.Mode == "" || m.Mode == "none" {
		return m.Steps
	}
	return []MigStep{{Mode: m.Mode, At: m.At}}
}

// ---------- the entries of a block's state diff the migration walks over, in a fixed order ----------
type histEntry struct{ hist, scr []byte }

func scratchOf(histKey []byte) []byte {
	return append([]byte{byte(db.Temporary), histKey[0]}, histKey[1:]...)
}

func (r *run) histEntries(n uint64) []histEntry {
	sp := r.specs[n]
	var out []histEntry
	add := func(k []byte) { out = append(out, histEntry{k, scratchOf(k)}) }
	var as []uint64
	for a := range sp.Storage {
		as = append(as, a)
	}
	sort.Slice(as, func(i, j int) bool { return as[i] < as[j] })
	for _, a := range as {
		var ss []uint64
		for s := range sp.Storage[a] {
			ss = append(ss, s)
		}
		sort.Slice(ss, func(i, j int) bool { return ss[i] < ss[j] })
		for _, s := range ss {
			add(db.DeprecatedContractStorageHistoryAtBlockKey(F(a), F(s), n))
		}
	}
	as = as[:0]
	for a := range sp.Nonces {
		as = append(as, a)
	}
	sort.Slice(as, func(i, j int) bool { return as[i] < as[j] })
	for _, a := range as {
		add(db.DeprecatedContractNonceHistoryAtBlockKey(F(a), n))
	}
	as = as[:0]
	for a := range sp.Replace {
		as = append(as, a)
	}
	sort.Slice(as, func(i, j int) bool { return as[i] < as[j] })
	for _, a := range as {
		add(db.DeprecatedContractClassHashHistoryAtBlockKey(F(a), n))
	}
	return out
}

func valHex(d db.KeyValueReader, key []byte) string {
	out := "-"
	_ = d.Get(key, func(v []byte) error {
		out = new(big.Int).SetBytes(v).Text(16)
		return nil
	})
	return out
}

// migProbe: the database in the format of the oracle's `mig dump` (10 lines)
func (r *run) migProbe(d db.KeyValueReader, head uint64) []string {
	p := r.probe(d, head)
	var hist, scr []string
	for n := uint64(0); n <= head; n++ {
		var h, s []string
		for _, e := range r.histEntries(n) {
			h = append(h, valHex(d, e.hist))
			s = append(s, valHex(d, e.scr))
		}
		hist = append(hist, strings.Join(h, "."))
		scr = append(scr, strings.Join(s, "."))
	}
	mark := "0" // the restage marker [db.Temporary][0]
	if ok, _ := d.Has([]byte{byte(db.Temporary), 0}); ok {
		mark = "1"
	}
	return []string{"hdr " + p["hdr"], "h2n " + p["h2n"], "txs " + p["txs"], "txl " + p["txl"], "l1l " + p["l1l"],
		"su " + p["su"], "cm " + p["cm"], "hist " + strings.Join(hist, ";"), "scr " + strings.Join(scr, ";"), "mark " + mark}
}

// any scratch key at all (the namespace, not only the entries the model knows about)
func scratchKeys(d db.KeyValueStore) int {
	it, err := d.NewIterator([]byte{byte(db.Temporary)}, true)
	hx.Must(err)
	defer it.Close()
	n := 0
	for ok := it.First(); ok; ok = it.Next() {
		n++
	}
	return n
}

// sameDump compares two 10-line dumps; '-' positions of the implementation's bit strings are ignored
func sameDump(impl, model []string) string {
	for i := range model {
		wi, wm := strings.SplitN(impl[i], " ", 2), strings.SplitN(model[i], " ", 2)
		ok := false
		if wi[0] == "hist" || wi[0] == "scr" || wi[0] == "mark" {
			ok = wi[1] == wm[1]
		} else {
			ok = matches(wi[1], wm[1])
		}
		if !ok {
			return fmt.Sprintf("%s: database %s model %s", wi[0], wi[1], wm[1])
		}
	}
	return ""
}

func blobStr(b []byte) string {
	if len(b) != 24 {
		if b == nil {
			return "-"
		}
		return fmt.Sprintf("invalid(%d bytes)", len(b))
	}
	return fmt.Sprintf("%d:%d:%d", binary.BigEndian.Uint64(b[0:8]), binary.BigEndian.Uint64(b[8:16]), binary.BigEndian.Uint64(b[16:24]))
}

func blocksOf(toks []string, pre string) []uint64 {
	var out []uint64
	for _, t := range toks {
		if strings.HasPrefix(t, pre) && !strings.HasPrefix(t, "seed") {
			var n uint64
			if _, err := fmt.Sscan(t[len(pre):], &n); err == nil {
				out = append(out, n)
			}
		}
	}
	return out
}

func hasTok(toks []string, t string) bool {
	for _, x := range toks {
		if x == t || (t == "P" && strings.HasPrefix(x, "P")) {
			return true
		}
	}
	return false
}

func joinU(l []uint64) string {
	if len(l) == 0 {
		return "e"
	}
	var s []string
	for _, x := range l {
		s = append(s, fmt.Sprint(x))
	}
	return strings.Join(s, ",")
}

func joinBatches(bs [][]uint64) string {
	if len(bs) == 0 {
		return "-"
	}
	var s []string
	for _, b := range bs {
		s = append(s, joinU(b))
	}
	return strings.Join(s, ";")
}

// migCall runs one Migrate call the way migration.Runner does (fresh Migrator, Before(stored blob), Migrate)
// under the interruption `st`, and ties it to the model. Returns what the runner would see.
type migOut struct {
	state []byte
	err   error
	crash bool
	fl    string // the floor the model worked with ("-": none)
}

func (r *run) migCall(px **proxy, st MigStep, retained uint64, minAge bool, blob []byte, l1 uint64, haveL1 bool, head uint64, where string) migOut {
	c, or := r.c, r.or
	p := *px
	procs := st.Procs
	if procs <= 0 {
		procs = 2
	}
	old := runtime.GOMAXPROCS(procs)
	ctx, cancel := context.WithCancel(context.Background())
	p.arm(st.At, st.Mode, cancel)
	if st.Mode == "none" || st.Mode == "" {
		p.arm(0, "", nil)
	}
	p.rec, p.log, p.gets = true, nil, nil
	mem := p.Database
	p.probe = func() []string { return r.migProbe(mem, head) }
	var age time.Duration
	cutoff := "-"
	if minAge {
		age = time.Hour
		cutoff = fmt.Sprint(uint64(time.Now().Add(-age).Unix()))
	}
	m := historyprunner.New(retained, age)
	var state []byte
	err := m.Before(blob)
	if err == nil {
		state, err = m.Migrate(ctx, p, &networks.Sepolia, log.NewNopZapLogger())
	}
	logs, gets, image, imageAt := p.log, p.gets, p.image, p.imageAt
	p.disarm()
	cancel()
	runtime.GOMAXPROCS(old)
	c.Hist["migrate:call:"+st.Mode]++

	// ---- what was observed: the commits in order, split into the phases of the call ----
	var stage, restore [][]uint64
	putStage := map[uint64]bool{}
	failed := "" // the step whose batch write failed
	stageGets := len(gets)
	seenSetup2 := false
	var applied []commitRec
	for _, cr := range logs {
		kind := "pipe"
		switch {
		case hasTok(cr.toks, "P") || hasTok(cr.toks, "WL"):
			kind = "f1"
		case hasTok(cr.toks, "WH"):
			kind = "f2"
			if !seenSetup2 {
				stageGets = cr.getsAt
			}
			seenSetup2 = true
		case hasTok(cr.toks, "WS"):
			kind = "fw"
		}
		sb, rb := blocksOf(cr.toks, "S"), blocksOf(cr.toks, "R")
		for _, b := range sb {
			putStage[b] = true
		}
		if kind == "pipe" {
			// restorerProgress != 0: set-up and stager are skipped; otherwise the restorer only runs after set-up 2
			// (the stager may run even when stagerProgress > head: the restage decision)
			inRestore := seenSetup2 || len(rb) > 0 || (blob != nil && binary.BigEndian.Uint64(blob[8:16]) != 0)
			if inRestore {
				kind = "fr"
			} else {
				kind = "fs"
			}
		}
		if !cr.applied {
			failed = kind
			continue
		}
		applied = append(applied, cr)
		switch kind {
		case "fs":
			stage = append(stage, sb)
		case "fr":
			restore = append(restore, rb)
		}
	}
	// blocks a stager worker processed without writing anything (no history log at all): they are in no
	// batch; the first committed stager batch stands for them (no effect either way)
	if blob != nil && binary.BigEndian.Uint64(blob[8:16]) != 0 {
		stageGets = 0 // the stager is skipped: every read belongs to the restorer
	}
	if len(stage) > 0 {
		for _, b := range gets[:stageGets] {
			if !putStage[b] {
				stage[0] = append(stage[0], b)
				putStage[b] = true
			}
		}
	}
	stop, crash := "none", "-"
	out := migOut{state: state, err: err}
	switch {
	case (st.Mode == "crash" || st.Mode == "crash-wipe") && image != nil:
		out.crash, out.state, out.err = true, nil, nil
		crash = fmt.Sprint(imageAt)
		if err != nil || state != nil {
			// the in-flight call is expected to run to its end; anything else is reported below
			stop = "?"
		}
	case err != nil && failed != "":
		stop = failed
	case err != nil:
		stop = "none" // a genuine error: the model must predict it
	case state != nil && len(state) == 24:
		sp, rp := binary.BigEndian.Uint64(state[0:8]), binary.BigEndian.Uint64(state[8:16])
		if rp == 0 && sp <= head {
			stop = fmt.Sprintf("cs:%d", sp)
		} else {
			stop = fmt.Sprintf("cr:%d", rp)
		}
	}
	if stop == "?" {
		r.viol("migration-model:result", fmt.Sprintf("%s: a call that should only be copied at commit %d returns (%s, %v)", where, imageAt, blobStr(state), err), true)
		stop = "none"
	}
	// ---- the model's call ----
	rep := or.Ask(fmt.Sprintf("mig run %s %d %s %s %s %s %s %s", optStr(l1, haveL1), retained, cutoff, blobStr(blob),
		joinBatches(stage), joinBatches(restore), stop, crash), 2)
	w := strings.Fields(rep[0])
	kv := map[string]string{}
	for _, x := range w[1:] {
		if p := strings.SplitN(x, "=", 2); len(p) == 2 {
			kv[p[0]] = p[1]
		}
	}
	out.fl = kv["floor"]
	got := "done"
	switch {
	case out.crash:
		got = "crash"
	case err != nil:
		got = "err"
	case state != nil:
		got = "blob:" + blobStr(state)
	}
	desc := fmt.Sprintf("%s: Migrate(l1 %s, head %d, retained %d, min-age %v, stored blob %s, %s at %d, %d workers)",
		where, optStr(l1, haveL1), head, retained, minAge, blobStr(blob), st.Mode, st.At, procs)
	c.Count("migcall "+got+" "+st.Mode, got != "done" || len(applied) > 0)
	if got != w[0] {
		what := "result"
		if strings.HasPrefix(got, "blob") && strings.HasPrefix(w[0], "blob") {
			what = "blob"
		}
		r.viol("migration-model:"+what, fmt.Sprintf("%s returns %s (%v), model %s", desc, got, err, w[0]), true)
	}
	if kv["ok"] != "1" && !(stop == "none" && w[0] == "err") { // (a failure the model predicts itself ends the phase early)
		r.viol("migration-model:schedule", fmt.Sprintf("%s: the blocks the pipeline processed are not what the resume point says (a block skipped, or outside the phase's range): stager %s restorer %s stop %s",
			desc, joinBatches(stage), joinBatches(restore), stop), true)
	}
	if kv["exact"] != "1" {
		r.viol("migration-model:repeat", fmt.Sprintf("%s: a block was processed twice in one call: stager %s restorer %s", desc, joinBatches(stage), joinBatches(restore)), true)
	}
	// the batches, in commit order
	var obs []string
	for _, cr := range applied {
		if len(cr.toks) == 0 {
			obs = append(obs, "e")
		} else {
			obs = append(obs, strings.Join(cr.toks, ","))
		}
	}
	// stager batches: the model lists every block of the batch, the database only sees the ones that had a log
	model := strings.TrimPrefix(rep[1], "batches ")
	if !sameBatches(strings.Join(obs, "|"), model) {
		r.viol("migration-model:batches", fmt.Sprintf("%s commits %s, model %s", desc, strings.Join(obs, "|"), model), true)
	}
	// the database after every commit
	for k, cr := range applied {
		if d := sameDump(cr.probe, or.Ask(fmt.Sprintf("mig dump %d", k+1), 10)); d != "" {
			r.viol("migration-model:store:"+strings.SplitN(d, ":", 2)[0], fmt.Sprintf("%s after commit %d/%d (%s): %s", desc, k+1, len(applied), strings.Join(cr.toks, ","), d), true)
			break
		}
		c.Count("", false)
	}
	if out.crash {
		*px = &proxy{Database: image}
	}
	if d := sameDump(r.migProbe((*px).Database, head), or.Ask("mig dump cur", 10)); d != "" {
		r.viol("migration-model:store:"+strings.SplitN(d, ":", 2)[0], fmt.Sprintf("%s, afterwards: %s", desc, d), true)
	}
	return out
}

// sameBatches: observed vs model batch summaries; in a stager batch the model may list more blocks than
// the database saw written (blocks without any history log write nothing)
func sameBatches(obs, model string) bool {
	if model == "" {
		return obs == ""
	}
	o, m := strings.Split(obs, "|"), strings.Split(model, "|")
	if obs == "" {
		o = nil
	}
	if len(o) != len(m) {
		return false
	}
	for i := range m {
		if o[i] == m[i] {
			continue
		}
		if !strings.HasPrefix(m[i], "S") {
			return false
		}
		ms := map[string]bool{}
		for _, t := range strings.Split(m[i], ",") {
			ms[t] = true
		}
		if o[i] != "e" {
			for _, t := range strings.Split(o[i], ",") {
				if !ms[t] {
					return false
				}
			}
		}
	}
	return true
}

func runMigrate(c *hx.Ctx, or *hx.Oracle, sc *Scenario, tag string) {
	r := &run{c: c, or: or, sc: sc, now: nowUnix(), tag: tag}
	r.expand()
	n := uint64(len(r.specs))
	head := n - 1
	r.A = openNode(memory.New(), sc.NewState, false)
	for i := range r.specs {
		sp := r.specs[i]
		sp.Timestamp = r.now - r.ages[i]
		b, err := r.A.finalise(&sp)
		hx.Must(err)
		r.bl = append(r.bl, b)
	}
	pre := r.A.DB.(*memory.Database).Copy()
	l1, haveL1 := sc.Mig.l1(head)
	if haveL1 {
		hx.Must(core.WriteL1Head(pre, l1HeadOf(l1)))
	}
	c.Hist["migrate:l1:"+sc.Mig.L1]++
	steps := sc.Mig.steps()
	c.Hist[fmt.Sprintf("migrate:interruptions:%d", len(steps))]++
	// the floor the property allows: min(l1, head) - retained, lowered by the min-age floor
	want, prunes := uint64(0), false
	if haveL1 {
		pivot := min(l1, head)
		if pivot >= sc.Cfg.Retained {
			want, prunes = pivot-sc.Cfg.Retained, true
			if fy := r.firstYoung(); sc.Cfg.MinAgeSec > 0 && fy <= pivot && fy < want {
				want = fy
			}
		}
	}
	// the model's chain: diff entries per block, timestamps, the history logs of the unpruned database
	{
		var dl, ts, logs []string
		for i := uint64(0); i <= head; i++ {
			es := r.histEntries(i)
			dl = append(dl, fmt.Sprint(len(es)))
			ts = append(ts, fmt.Sprint(r.now-r.ages[i]))
			for j, e := range es {
				if v := valHex(pre, e.hist); v != "-" {
					logs = append(logs, fmt.Sprintf("%d:%d:%s", i, j, v))
				}
			}
		}
		lg := "-"
		if len(logs) > 0 {
			lg = strings.Join(logs, ",")
		}
		or.Ask(fmt.Sprintf("mig init %d %s %s %s", head, strings.Join(dl, ","), strings.Join(ts, ","), lg), 1)
		c.Hist[fmt.Sprintf("migrate:history-logs>0:%v", len(logs) > 0)]++
	}
	// the interrupted starts, then completing starts; the stored blob follows migration/runner.go: a returned
	// blob is written, (nil, err) and a crash leave the stored one as it is
	px := &proxy{Database: pre.Copy()}
	retained, minAge := sc.Cfg.Retained, sc.Cfg.MinAgeSec > 0
	var stored []byte
	var last migOut
	done, cfgChanged, floorSeen, unsafeCrash := false, false, "", false
	interrupted := false
	for round := 0; round < len(steps)+3 && !done; round++ {
		st := MigStep{Mode: "none", Procs: 1 + round%3}
		if round < len(steps) {
			st = steps[round]
		}
		// a configuration change between starts: the cut-off is pinned in the stored blob, so it must not matter.
		// Without a stored blob nothing is pinned (the generator does not go there; replays can, with force)
		if stored != nil || st.Force {
			if st.Retained != nil && *st.Retained != retained {
				retained, cfgChanged = *st.Retained, true
				c.Hist["migrate:config-changed:retained"]++
			}
			if st.MinAge != nil && *st.MinAge != minAge {
				minAge, cfgChanged = *st.MinAge, true
				c.Hist["migrate:config-changed:min-age"]++
			}
		}
		last = r.migCall(&px, st, retained, minAge, stored, l1, haveL1, head, fmt.Sprintf("start %d", round+1))
		if last.fl != "-" {
			if floorSeen != "" && floorSeen != last.fl && stored != nil {
				r.viol("migration-model:floor-moved", fmt.Sprintf("start %d works with floor %s, an earlier one with %s although a resume blob was stored", round+1, last.fl, floorSeen), false)
			}
			floorSeen = last.fl
		}
		unsafeCrash = unsafeCrash || (last.crash && st.Mode == "crash-wipe") // (names the class of the defect repaired in /repo)
		switch {
		case last.crash:
			interrupted = true
			c.Hist["migrate:interrupted:crash"]++
		case last.err != nil:
			if !haveL1 || (st.Mode == "none" && !interrupted) {
				round = 1 << 20 // a genuine error of an uninterrupted first start (e.g. no L1 head): reported below
			}
			interrupted = true
			c.Hist["migrate:interrupted:err"]++
		case last.state != nil:
			stored = last.state
			interrupted = true
			c.Hist["migrate:interrupted:cancel"]++
		default:
			done = true
		}
	}
	err := last.err
	if !done && err == nil {
		err = fmt.Errorf("not complete after %d starts (stored blob %s)", len(steps)+3, blobStr(stored))
	}
	ctxName := "migrated"
	if prunes && want == 0 {
		ctxName = "migrated-floor-zero"
	}
	mode := "none"
	if len(steps) > 0 {
		mode = steps[0].Mode
	}
	if err != nil {
		// a failed migration stops the node from starting; it must at least not have damaged the database
		c.Hist["migrate:error"]++
		reason := "other"
		switch {
		case strings.Contains(err.Error(), "18446744073709551615"):
			reason = "floor-zero-underflow"
		case strings.Contains(err.Error(), "history at block"):
			reason = "missing-history-log"
		case strings.Contains(err.Error(), "getting L1 head"):
			reason = "no-l1-head"
		case strings.Contains(err.Error(), "computing oldest block kept"):
			reason = "floor-reads-pruned-header"
		case strings.Contains(err.Error(), "load state update"):
			reason = "state-update-pruned"
		}
		c.Hist["migrate:error:"+reason]++
		c.Count("migrate-error "+reason, true)
		r.tag = tag
		if d := sameProbe(r.probe(pre, head), r.probe(px, head)); d != "" {
			cl := "migration-failed-damaged:" + reason
			if interrupted && (reason == "floor-reads-pruned-header" || reason == "state-update-pruned" || reason == "other") {
				cl = "migration-stuck:" + reason // every further start fails the same way
				if cfgChanged {
					cl += ":config-changed"
				}
			}
			r.viol(cl, fmt.Sprintf("Migrate (l1 %s, head %d, retained %d, min-age %v, interruptions %s) returns %q on every further start and leaves the database changed: before/after %s",
				optStr(l1, haveL1), head, sc.Cfg.Retained, sc.Cfg.MinAgeSec > 0, stepsStr(steps), clip(err.Error()), d), false)
		} else if reason != "no-l1-head" {
			r.viol("migration-failed:"+reason, fmt.Sprintf("Migrate returns %q", clip(err.Error())), false)
		}
		return
	}
	c.Count(fmt.Sprintf("migrate %s %s", sc.Mig.L1, mode), prunes)
	// what the database now claims as its floor
	got, gerr := pruner.OldestRetainedBlock(px)
	if gerr != nil {
		r.viol("migration:no-oldest", fmt.Sprintf("OldestRetainedBlock: %v", gerr), false)
		return
	}
	if !cfgChanged && got != want {
		r.viol("migration:floor", fmt.Sprintf("oldest retained %d, expected min(l1 %s, head %d) - retained %d (min-age %v) = %d",
			got, optStr(l1, haveL1), head, sc.Cfg.Retained, sc.Cfg.MinAgeSec > 0, want), false)
	}
	if floorSeen != "" && floorSeen != fmt.Sprint(got) {
		r.viol("migration-model:floor", fmt.Sprintf("oldest retained %d, the model's cut-off %s", got, floorSeen), true)
	}
	if haveL1 && got > 0 && !cfgChanged {
		fy := "-"
		if sc.Cfg.MinAgeSec > 0 {
			fy = fmt.Sprint(r.firstYoung())
		}
		if or.Ask(fmt.Sprintf("mig floor %d %d %d %d %s", l1, head, sc.Cfg.Retained, got, fy), 1)[0] != "1" {
			r.viol("migration:floor-above-bound", fmt.Sprintf("oldest retained %d with l1 %d head %d retained %d first young %s", got, l1, head, sc.Cfg.Retained, fy), false)
		}
	}
	// the completed migration against the theorems' final shape: pruned to the floor on every block family, the
	// keeper window's history logs with the unpruned database's values, nothing in the scratch namespace
	if floorSeen != "" {
		how := stepsStr(steps)
		if d := sameDump(r.migProbe(px.Database, head), or.Ask("mig final "+floorSeen, 10)); d != "" {
			fam := strings.SplitN(d, ":", 2)[0]
			cl := "migration-damaged:" + fam
			if unsafeCrash {
				cl += ":crash-after-scratch-wipe"
			}
			r.viol(cl, fmt.Sprintf("the completed migration (floor %s, interruptions %s) does not leave what the property demands: %s", floorSeen, how, d), false)
			return // (the twin comparisons below would repeat the same damage under other class names)
		}
		if k := scratchKeys(px.Database); k != 0 {
			r.viol("migration-damaged:scratch-left", fmt.Sprintf("%d keys left in the scratch namespace after the completed migration (interruptions %s)", k, how), false)
		}
	}
	r.e = got
	r.px = px
	r.B = openNode(px, sc.NewState, true)
	// model: the pruned shape at `got`
	or.Ask("idx all", 1)
	or.Ask(fmt.Sprintf("init %d", head), 1)
	or.Ask(fmt.Sprintf("plan %d %d %d none 100000", head, got, got), 1)
	r.compareModelStore(px, head, ctxName)
	// natively pruned twin
	nat := pre.Copy()
	if _, _, perr := pruner.PruneUpto(context.Background(), nat, got, 1<<30); perr != nil {
		r.viol("migration:native-prune-error", perr.Error(), true)
	} else if d := sameProbe(r.probe(nat, head), r.probe(px, head)); d != "" {
		r.viol("migration-vs-native:"+strings.SplitN(d, ":", 2)[0], ctxName+": natively pruned vs migrated: "+d, false)
	}
	// the property predicate against the unpruned twin, then revert to the floor and re-store
	r.compareTwin(r.B, got, ctxName, true)
	r.revertAndExtend()
}

func stepsStr(steps []MigStep) string {
	if len(steps) == 0 {
		return "none"
	}
	var s []string
	for _, st := range steps {
		x := fmt.Sprintf("%s@%d", st.Mode, st.At)
		if st.Retained != nil {
			x += fmt.Sprintf("(retained:=%d)", *st.Retained)
		}
		if st.MinAge != nil {
			x += fmt.Sprintf("(min-age:=%v)", *st.MinAge)
		}
		s = append(s, x)
	}
	return strings.Join(s, " ")
}

var _ = errors.Is
