// C16 harness, part 2: every blockchain.Reader accessor and state query, canonicalised, and the twin
// comparison that evaluates the property predicate.
package main

import (
	"encoding/json"
	"errors"
	"fmt"
	"strings"
	"time"

	"github.com/NethermindEth/juno/blockchain"
	"github.com/NethermindEth/juno/core"
	"github.com/NethermindEth/juno/core/felt"
	"github.com/NethermindEth/juno/db"
	"github.com/NethermindEth/juno/l1/eth"
	"github.com/NethermindEth/juno/pruner"
)

type durT = time.Duration

func secs(s uint64) time.Duration { return time.Duration(s) * time.Second }

// answer kinds: "ok:<canonical>", "nf" (db.ErrKeyNotFound / pruned), "err:<text>"
func kind(err error) string {
	if errors.Is(err, db.ErrKeyNotFound) || errors.Is(err, pruner.ErrBlockPruned) {
		return "nf"
	}
	return "err:" + err.Error()
}

func js(v any) string {
	b, err := json.Marshal(v)
	if err != nil {
		return "unmarshalable:" + err.Error()
	}
	return string(b)
}

func res(v any, err error) string {
	if err != nil {
		return kind(err)
	}
	return "ok:" + js(v)
}

func suCanon(su *core.StateUpdate) string {
	c := su.StateDiff.Commitment()
	return fmt.Sprintf("%s/%s/%s/%s/%d", su.BlockHash, su.OldRoot, su.NewRoot, &c, su.StateDiff.Length())
}

// names follow the model's acc constructors (oracle "ans" lines), same order
var accNames = []string{
	"HeaderByNumber", "HeaderHashByNumber", "TxCountByNumber", "BlockByNumber",
	"NumberByHash", "HeaderByHash", "BlockByHash",
	"TxsByNumber", "TxsRcptsByNumber", "TxHashesByNumber", "TxByNumIdx", "ExecStatus", "TxRcptByNumIdx",
	"NumIdxByTxHash", "TxByHash", "Receipt",
	"StateUpdateByNumber", "StateUpdateByHash", "L1HandlerTxnHash", "Commitments",
}

// observeBlock runs every accessor for block b (identified by number, by its hash, by the hash of its
// first transaction, by its first L1 message hash) and returns accessor name -> canonical answer.
// Accessors whose key does not exist for this block (no tx / no L1 message) are omitted.
func observeBlock(bc *blockchain.Blockchain, b *Built) map[string]string {
	n := b.Block.Number
	h := b.Block.Hash
	o := map[string]string{}
	o["HeaderByNumber"] = res(bc.BlockHeaderByNumber(n))
	o["HeaderHashByNumber"] = res(bc.BlockHeaderHashByNumber(n))
	o["TxCountByNumber"] = res(bc.BlockTransactionCountByNumber(n))
	o["BlockByNumber"] = res(bc.BlockByNumber(n))
	o["NumberByHash"] = res(bc.BlockNumberByHash(h))
	o["HeaderByHash"] = res(bc.BlockHeaderByHash(h))
	o["BlockByHash"] = res(bc.BlockByHash(h))
	o["TxsByNumber"] = res(bc.TransactionsByBlockNumber(n))
	{
		t, r, err := bc.TransactionsAndReceiptsByBlockNumber(n)
		o["TxsRcptsByNumber"] = res([]any{t, r}, err)
	}
	o["TxHashesByNumber"] = res(bc.TransactionHashesByBlockNumber(n))
	if su, err := bc.StateUpdateByNumber(n); err != nil {
		o["StateUpdateByNumber"] = kind(err)
	} else {
		o["StateUpdateByNumber"] = "ok:" + suCanon(su)
	}
	if su, err := bc.StateUpdateByHash(h); err != nil {
		o["StateUpdateByHash"] = kind(err)
	} else {
		o["StateUpdateByHash"] = "ok:" + suCanon(su)
	}
	o["Commitments"] = res(bc.BlockCommitmentsByNumber(n))
	if len(b.Block.Transactions) > 0 {
		th := b.Block.Transactions[0].Hash()
		o["TxByNumIdx"] = res(bc.TransactionByBlockNumberAndIndex(n, 0))
		o["ExecStatus"] = res(bc.TransactionExecutionStatusByBlockNumberAndIndex(n, 0))
		{
			t, r, bh, err := bc.TransactionAndReceiptByBlockNumberAndIndex(n, 0)
			o["TxRcptByNumIdx"] = res([]any{t, r, bh}, err)
		}
		{
			bn, ix, err := bc.BlockNumberAndIndexByTxHash((*felt.TransactionHash)(th))
			o["NumIdxByTxHash"] = res([]uint64{bn, ix}, err)
		}
		o["TxByHash"] = res(bc.TransactionByHash(th))
		{
			r, bh, bn, err := bc.Receipt(th)
			o["Receipt"] = res([]any{r, bh, bn}, err)
		}
	}
	if len(b.MsgHash) > 0 {
		var mh eth.Hash
		copy(mh[:], b.MsgHash[0])
		o["L1HandlerTxnHash"] = res(bc.L1HandlerTxnHash(&mh))
	}
	return o
}

// the state universe the generator writes into
var uniAddrs = []uint64{21, 22, 23}
var uniSlots = []uint64{1, 2, 3}

// readState canonicalises everything a StateReader answers on the universe. lastUpd lists the
// ContractStorageLastUpdatedBlock answers separately (their comparison has its own class).
// lightState: long histories on the legacy backend (every historical read through the memory
// database's indexed batch copies the whole database): one address, two slots
var lightState bool

func readState(sr core.StateReader) (vals []string, lastUpd []string) {
	addrs, slots := uniAddrs, uniSlots
	if lightState {
		addrs, slots = uniAddrs[:1], uniSlots[:2]
	}
	for _, a := range addrs {
		af := F(a)
		vals = append(vals, fmt.Sprintf("ch[%d]=%s", a, res(sr.ContractClassHash(af))))
		vals = append(vals, fmt.Sprintf("nonce[%d]=%s", a, res(sr.ContractNonce(af))))
		for _, s := range slots {
			vals = append(vals, fmt.Sprintf("st[%d,%d]=%s", a, s, res(sr.ContractStorage(af, F(s)))))
			lastUpd = append(lastUpd, fmt.Sprintf("lu[%d,%d]=%s", a, s,
				res(sr.ContractStorageLastUpdatedBlock((*felt.Address)(af), F(s)))))
		}
	}
	return vals, lastUpd
}

type stateObs struct {
	Served  bool
	Err     string
	Vals    []string
	LastUpd []string
}

func observeState(get func() (core.StateReader, blockchain.StateCloser, error)) stateObs {
	sr, closer, err := get()
	if err != nil {
		return stateObs{Err: kind(err)}
	}
	defer closer()
	v, l := readState(sr)
	return stateObs{Served: true, Vals: v, LastUpd: l}
}

func firstDiff(a, b []string) string {
	for i := range a {
		if i >= len(b) || a[i] != b[i] {
			bb := "<missing>"
			if i < len(b) {
				bb = b[i]
			}
			return fmt.Sprintf("unpruned %s / pruned %s", clip(a[i]), clip(bb))
		}
	}
	return ""
}

func clip(s string) string {
	if len(s) > 160 {
		return s[:160] + "…"
	}
	return s
}

// events of blocks [from, to] matching (addr, key) as canonical strings, or the error kind.
// addr = 0: any address; key = 0: any key.
func observeEventsF(bc *blockchain.Blockchain, from, to, addr, key uint64) string {
	var addrs []felt.Address
	var keys [][]felt.Felt
	if addr != 0 {
		addrs = []felt.Address{felt.Address(*F(addr))}
	}
	if key != 0 {
		keys = [][]felt.Felt{{*F(key)}}
	}
	f, err := bc.EventFilter(addrs, keys, func() (blockchain.PreConfirmedReader, error) { return nil, nil })
	if err != nil {
		return kind(err)
	}
	defer f.Close()
	if err := f.SetRangeEndBlockByNumber(blockchain.EventFilterFrom, from); err != nil {
		return kind(err)
	}
	if err := f.SetRangeEndBlockByNumber(blockchain.EventFilterTo, to); err != nil {
		return kind(err)
	}
	evs, _, err := f.Events(nil, 1<<20)
	if err != nil {
		return kind(err)
	}
	var sb strings.Builder
	fmt.Fprintf(&sb, "ok:%d:", len(evs))
	for _, e := range evs {
		fmt.Fprintf(&sb, "%d/%d/%d/%s;", e.BlockNumber, e.TransactionIndex, e.EventIndex, e.TransactionHash)
	}
	return sb.String()
}

func observeEvents(bc *blockchain.Blockchain, from, head uint64) string {
	return observeEventsF(bc, from, head, 0, 0)
}
