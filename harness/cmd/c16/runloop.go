// C16 harness, part 8: the real service loop (pruner.Run) with its feeds and a short floor tick.
package main

import (
	"context"
	"fmt"
	"sync"
	"time"

	"github.com/NethermindEth/juno/core"
	"github.com/NethermindEth/juno/db/memory"
	"github.com/NethermindEth/juno/feed"
	"github.com/NethermindEth/juno/pruner"
	"github.com/NethermindEth/juno/utils/log"
	"verifharness/hx"
)

// runLoop: B stores the first half of the chain, the service starts (seedFloor + ticker), the rest of
// the chain and L1 heads arrive through the feeds; after every L1 head the loop must have pruned to
// l1 - retained (min-age lowered) and nothing else; then the full twin comparison.
func runLoop(c *hx.Ctx, or *hx.Oracle, sc *Scenario, tag string) {
	r := &run{c: c, or: or, sc: sc, now: nowUnix(), tag: tag}
	r.expand()
	n := len(r.specs)
	r.A = openNode(memory.New(), sc.NewState, false)
	for i := range r.specs {
		sp := r.specs[i]
		sp.Timestamp = r.now - r.ages[i]
		b, err := r.A.finalise(&sp)
		hx.Must(err)
		r.bl = append(r.bl, b)
	}
	r.px = &proxy{Database: memory.New()}
	r.B = openNode(r.px, sc.NewState, true)
	half := n / 2
	for i := 0; i < half; i++ {
		hx.Must(r.B.store(r.bl[i]))
	}
	var mu sync.Mutex
	var lastKept uint64
	var prunes, errs int
	heads := feed.New[*core.Block]()
	p := pruner.New(r.px, r.B.Floor, sc.Cfg.Retained, heads.Subscribe(), r.B.BC.SubscribeL1Head().Subscription,
		log.NewNopZapLogger(), pruner.WithL2HeadsPerPrune(sc.Cfg.Every), pruner.WithMinAge(secs(sc.Cfg.MinAgeSec)),
		pruner.WithFloorTickInterval(2*time.Millisecond),
		pruner.WithListener(&pruner.SelectiveListener{
			OnPruneCb:      func(o, _ uint64, _ time.Duration) { mu.Lock(); lastKept, prunes = o, prunes+1; mu.Unlock() },
			OnPruneErrorCb: func(error) { mu.Lock(); errs++; mu.Unlock() },
		}))
	ctx, cancel := context.WithCancel(context.Background())
	done := make(chan error, 1)
	go func() { done <- p.Run(ctx) }()
	time.Sleep(10 * time.Millisecond) // seedFloor + a few ticks
	fy := r.firstYoung()
	for i := half; i < n; i++ {
		hx.Must(r.B.store(r.bl[i]))
		heads.Send(r.bl[i].Block)
		l1, ok := sc.l1For(uint64(i))
		if !ok || l1 >= uint64(i) {
			continue
		}
		time.Sleep(6 * time.Millisecond) // let the ticker resample at the new height
		hx.Must(r.B.BC.SetL1Head(l1HeadOf(l1)))
		want := uint64(0)
		if l1 >= sc.Cfg.Retained {
			want = l1 - sc.Cfg.Retained
			if sc.Cfg.MinAgeSec > 0 && fy < want {
				want = fy
			}
		}
		ok = false
		for t := 0; t < 400 && !ok; t++ { // wait for the loop to handle the L1 head
			time.Sleep(time.Millisecond)
			o, _ := pruner.OldestRetainedBlock(r.px)
			ok = o >= want
		}
		o, _ := pruner.OldestRetainedBlock(r.px)
		c.Count(fmt.Sprintf("runloop %d", i), true)
		if o != max(want, r.e) {
			r.viol("run-loop:floor", fmt.Sprintf("after L1 head %d at local head %d: oldest retained %d, expected %d (retained %d, first young %d)",
				l1, i, o, max(want, r.e), sc.Cfg.Retained, fy), false)
		}
		if o > r.e {
			r.e = o
		}
	}
	cancel()
	select {
	case err := <-done:
		if err != nil {
			r.viol("run-loop:returned-error", err.Error(), true)
		}
	case <-time.After(5 * time.Second):
		r.viol("run-loop:does-not-stop", "Run did not return after its context was cancelled", true)
	}
	mu.Lock()
	c.Hist[fmt.Sprintf("runloop:prunes>0:%v", prunes > 0)]++
	if errs > 0 {
		r.viol("run-loop:prune-error", fmt.Sprintf("%d OnPruneError callbacks", errs), true)
	}
	_ = lastKept
	mu.Unlock()
	// the model's shape for the final floor, and the property predicate
	or.Ask("idx all", 1)
	or.Ask(fmt.Sprintf("init %d", n-1), 1)
	or.Ask(fmt.Sprintf("plan %d %d %d none 100000", n-1, r.e, r.e), 1)
	r.compareModelStore(r.px, uint64(n-1), "run-loop")
	r.compareTwin(r.B, r.e, "run-loop", true)
}
