// C16 harness, part 4: scenario generation and execution.
package main

import (
	"context"
	"encoding/json"
	"fmt"
	"os"
	"path/filepath"
	"runtime/pprof"
	"sort"
	"strings"
	"time"

	"github.com/NethermindEth/juno/core"
	"github.com/NethermindEth/juno/core/felt"
	"github.com/NethermindEth/juno/db/memory"
	"github.com/NethermindEth/juno/pruner"
	"verifharness/hx"
)

type feltTransactionHash = felt.TransactionHash

const youngAge = 600 // seconds: "young" blocks are at most this old; min-age is 1 hour

func genScenario(g *hx.RNG, newState bool, length int, long bool) *Scenario {
	sc := &Scenario{NewState: newState}
	sc.Cfg.Retained = []uint64{0, 1, 3, uint64(length) + 5}[g.Intn(4)]
	if g.Chance(25) {
		sc.Cfg.Retained = uint64(g.Intn(length))
	}
	sc.Cfg.Every = []uint64{1, 1, 2, 5}[g.Intn(4)]
	if g.Bool() {
		sc.Cfg.MinAgeSec = 3600
	}
	if g.Bool() {
		sc.Cfg.Batch = 1
	}
	sc.L1Mode = []string{"lag", "lag", "equal", "ahead"}[g.Intn(4)]
	sc.L1Lag = uint64(1 + g.Intn(6))
	sc.Sync = 1 + g.Intn(length/2)
	sc.Interrupt = !long
	young := g.Intn(length/2 + 1) // the last `young` blocks are younger than the minimum age
	if long {
		young = g.Intn(20)
	}
	if g.Chance(15) {
		young = length
	}
	for i := 0; i < length; i++ {
		age := uint64(100000 + (length-i)*10)
		if i >= length-young {
			age = 1
			if off := i - (length - young); off < youngAge-1 {
				age = uint64(youngAge - 1 - off)
			}
		}
		sc.Ages = append(sc.Ages, age)
		sp := Spec{Txs: 1 + g.Intn(2)}
		if long {
			sp.Txs = 1
		}
		if i == 0 {
			sp.Deploy = map[uint64]uint64{21: 31, 22: 31, 23: 32}
		} else if !long || i%97 == 0 || i+40 > length {
			if g.Chance(70) {
				sp.Storage = map[uint64]map[uint64]uint64{}
				for k := 0; k < 1+g.Intn(3); k++ {
					a := uniAddrs[g.Intn(3)]
					if sp.Storage[a] == nil {
						sp.Storage[a] = map[uint64]uint64{}
					}
					sp.Storage[a][uniSlots[g.Intn(3)]] = uint64(g.Intn(4)) // 0 = write zero
				}
			}
			if g.Chance(40) {
				sp.Nonces = map[uint64]uint64{uniAddrs[g.Intn(3)]: uint64(i)}
			}
			if g.Chance(15) {
				sp.Replace = map[uint64]uint64{uniAddrs[g.Intn(3)]: uint64(33 + g.Intn(3))}
			}
			if g.Chance(30) {
				sp.L1 = 1
			}
		}
		sc.Specs = append(sc.Specs, sp)
	}
	return sc
}

// l1For: the L1 head announced after local block i was stored (ok=false: none yet)
func (sc *Scenario) l1For(i uint64) (uint64, bool) {
	switch sc.L1Mode {
	case "lag":
		if i < sc.L1Lag {
			return 0, false
		}
		return i - sc.L1Lag, true
	case "equal":
		return i, true
	case "ahead":
		return i + 5, true
	}
	return 0, false
}

func (r *run) firstYoung() uint64 {
	for i, a := range r.ages {
		if a <= youngAge+60 {
			return uint64(i)
		}
	}
	return uint64(len(r.ages))
}

type event struct {
	kind  string // "block" | "l1"
	block *core.Block
	l1    uint64
}

func optStr(v uint64, ok bool) string {
	if !ok {
		return "-"
	}
	return fmt.Sprint(v)
}

func b01(b bool) string {
	if b {
		return "1"
	}
	return "0"
}

// fire delivers one event to pruner p on node B (database px), checks the decision, the floor bound, the
// resulting store against the model and the twin. rot describes the batch rotation ("all"/"none").
// Returns the decided oldest-to-keep (ok=false: no prune).
func (r *run) fire(p *pruner.Pruner, B *Node, ev event, ctx context.Context, applyModel bool) (uint64, bool) {
	cfg := r.sc.Cfg
	head := height(B.DB)
	pend, samp := p.VerifPendingL2Heads(), p.VerifLatestSampledHeight()
	fl, seeded := B.Floor.VerifFloor()
	st := uint64(0)
	if seeded {
		st = fl + 1
	}
	var line string
	var l1 uint64
	var haveL1 bool
	if ev.kind == "block" {
		if h, err := core.GetL1Head(B.DB); err == nil {
			l1, haveL1 = h.BlockNumber, true
		}
		within := cfg.MinAgeSec > 0 && pruner.VerifWithinTimeWindow(ev.block.Timestamp, secs(cfg.MinAgeSec))
		line = fmt.Sprintf("nb %d %d %s %d %d %s %d %s", cfg.Retained, cfg.Every, b01(cfg.MinAgeSec > 0), pend, samp,
			optStr(l1, haveL1), ev.block.Number, b01(within))
	} else {
		l1, haveL1 = ev.l1, true
		line = fmt.Sprintf("nl %d %d %s %d %d %d %d", cfg.Retained, cfg.Every, b01(cfg.MinAgeSec > 0), pend, samp, ev.l1, head)
	}
	w := strings.Fields(r.or.Ask(line, 1)[0])
	r.obs = pruneObs{}
	var err error
	if ev.kind == "block" {
		err = p.VerifOnNewBlock(ctx, ev.block)
	} else {
		err = p.VerifOnNewL1Head(ctx, &core.L1Head{BlockNumber: ev.l1, BlockHash: F(ev.l1), StateRoot: F(1)})
	}
	_ = err
	r.c.Count(line, w[0] == "prune")
	r.c.Hist["decision:"+ev.kind+":"+w[0]]++
	// pending counter
	wantPend := w[len(w)-2]
	if fmt.Sprint(p.VerifPendingL2Heads()) != wantPend {
		r.viol("model-decision:pending", fmt.Sprintf("%s: pendingL2Heads %d model %s", line, p.VerifPendingL2Heads(), wantPend), true)
	}
	if w[0] != "prune" {
		if r.obs.called {
			r.viol("model-decision:pruned-on-skip", line, true)
		}
		return 0, false
	}
	var k uint64
	fmt.Sscan(w[1], &k)
	// the shared floor moved to max(old, k-1)
	fw := strings.Fields(r.or.Ask(fmt.Sprintf("floor %d %d", k, st), 1)[0])
	fl2, seeded2 := B.Floor.VerifFloor()
	if got := optStr(fl2, seeded2); got != fw[1] {
		r.viol("model-decision:floor", fmt.Sprintf("%s: state floor %s model %s", line, got, fw[1]), true)
	}
	// the property's bound on the implementation's floor: k <= min(l1, head) - retained, no wrap; min-age
	if haveL1 && r.or.Ask(fmt.Sprintf("bound %d %d %d %d", l1, head, cfg.Retained, k), 1)[0] != "1" {
		r.viol("floor-above-bound", fmt.Sprintf("oldest-to-keep %d with l1 %d head %d retained %d", k, l1, head, cfg.Retained), false)
	}
	if seeded2 && fl2 > 0 && haveL1 && r.or.Ask(fmt.Sprintf("bound %d %d %d %d", l1, head, cfg.Retained, fl2), 1)[0] != "1" && fl2+1 > r.e {
		r.viol("state-floor-above-bound", fmt.Sprintf("state floor %d with l1 %d head %d retained %d", fl2, l1, head, cfg.Retained), false)
	}
	if cfg.MinAgeSec > 0 && r.or.Ask(fmt.Sprintf("minage %d %d", k, r.firstYoung()), 1)[0] != "1" {
		r.viol("floor-younger-than-min-age", fmt.Sprintf("oldest-to-keep %d, first block younger than min age %d", k, r.firstYoung()), false)
	}
	if k > r.e {
		r.e = k
	}
	if applyModel {
		rot := "none"
		if cfg.Batch == 1 {
			rot = "all"
		}
		pl := strings.Fields(r.or.Ask(fmt.Sprintf("plan %d %d %d %s 100000", head, k, k, rot), 1)[0])
		if r.obs.called && fmt.Sprint(r.obs.oldestKept) != pl[1] {
			r.viol("model-store:oldest-kept", fmt.Sprintf("%s: oldestKept %d model %s", line, r.obs.oldestKept, pl[1]), true)
		}
		r.c.Hist["plan-batches:"+pl[0]]++
	}
	return k, true
}

func (r *run) storeBoth(i int) {
	hx.Must(r.B.store(r.bl[i]))
	r.or.Ask(fmt.Sprintf("ext %d", i), 1)
}

func runScenario(c *hx.Ctx, or *hx.Oracle, sc *Scenario, tag string) {
	r := &run{c: c, or: or, sc: sc, now: nowUnix(), tag: tag}
	r.expand()
	n := len(r.specs)
	// the unpruned twin builds the chain
	r.A = openNode(memory.New(), sc.NewState, false)
	var syncImage *memory.Database
	for i := range r.specs {
		if sc.Kind == "long" && i == sc.Sync {
			syncImage = r.A.DB.(*memory.Database).Copy()
		}
		sp := r.specs[i]
		sp.Timestamp = r.now - r.ages[i]
		b, err := r.A.finalise(&sp)
		hx.Must(err)
		r.bl = append(r.bl, b)
	}
	// A is rewound virtually: comparisons only look at blocks <= B's head while B syncs, so B is compared
	// once it has caught up; during sync only the model is compared.
	trace("chain built")
	if syncImage != nil { // long history: the pruned node starts from a copy of the twin's database
		r.px = &proxy{Database: syncImage}
		r.B = openNode(r.px, sc.NewState, true)
	} else {
		r.px = &proxy{Database: memory.New()}
		r.B = openNode(r.px, sc.NewState, true)
		for i := 0; i < sc.Sync && i < n; i++ {
			hx.Must(r.B.store(r.bl[i]))
		}
	}
	r.p = newPruner(r.px, r.B.Floor, sc.Cfg, &r.obs)
	start := sc.Sync
	if start > n {
		start = n
	}
	or.Ask("idx all", 1)
	if r.idx != nil {
		var l []string
		for _, i := range r.idx {
			l = append(l, fmt.Sprint(i))
		}
		or.Ask("idx "+strings.Join(l, ","), 1)
	}
	or.Ask(fmt.Sprintf("init %d", start-1), 1)
	if sc.Cfg.MinAgeSec > 0 {
		hx.Must(r.p.VerifSeedFloor())
	}
	ctx := context.Background()
	type pruneCase struct {
		pre        *memory.Database
		ev         event
		pend, samp uint64
		k          uint64
		head       uint64
		id         string
	}
	evCount := 0
	var biggest *pruneCase
	var biggestN uint64
	for i := start - 1; i < n; i++ {
		if i >= start {
			r.storeBoth(i)
		}
		if sc.Cfg.MinAgeSec > 0 && i%3 == 0 {
			hx.Must(r.p.VerifSampleHeight())
		}
		evs := []event{{kind: "block", block: r.bl[i].Block}}
		if l1, ok := sc.l1For(uint64(i)); ok && (i%2 == 0 || i == n-1) {
			h := &core.L1Head{BlockNumber: l1, BlockHash: F(l1), StateRoot: F(1)}
			hx.Must(core.WriteL1Head(r.px, h))
			evs = append(evs, event{kind: "l1", l1: l1})
		}
		for _, ev := range evs {
			evCount++
			pc := &pruneCase{ev: ev, pend: r.p.VerifPendingL2Heads(),
				samp: r.p.VerifLatestSampledHeight(), head: uint64(i), id: fmt.Sprint(evCount)}
			if sc.Interrupt {
				pc.pre = r.px.Database.Copy()
				or.Ask("save "+pc.id, 1)
			}
			oldBefore, _ := pruner.OldestRetainedBlock(r.px)
			k, pruned := r.fire(r.p, r.B, ev, ctx, true)
			trace("fired " + ev.kind)
			if pruned {
				r.compareModelStore(r.px, uint64(i), "after "+ev.kind)
				trace("model store compared")
				if k > oldBefore && k-oldBefore >= biggestN {
					pc.k, biggest, biggestN = k, pc, k-oldBefore
				}
			}
		}
	}
	// B has caught up with A: the property predicate against the twin, and the model's accessor table
	trace("events done")
	r.compareTwin(r.B, r.e, "complete", true)
	trace("compared complete")
	c.Hist[fmt.Sprintf("final-floor>0:%v", r.e > 0)]++
	if sc.Interrupt && biggest != nil {
		or.Ask("save final", 1)
		r.interruptions(biggest.pre, biggest.ev, biggest.pend, biggest.samp, biggest.k, biggest.head, biggest.id)
		or.Ask("load final", 1)
	}
	r.revertAndExtend()
	trace("reverted and extended")
}

var _ = strings.Fields

func l1HeadOf(n uint64) *core.L1Head { return &core.L1Head{BlockNumber: n, BlockHash: F(n), StateRoot: F(1)} }

const rule = "twin(pruned,unpruned) + extracted pruner model; predicate: floor bound, retained unchanged (accessors, state, filtered event queries), state from floor-1, below floor pruned-or-exact, resume, revert/extend; pruner service, Run loop; historyprunner migration: every Migrate call (complete, cancelled, failed batch write, crash image; any number of starts) tied to the extracted C16/Migrate.v (committed batches, database after every commit incl. history-log and scratch VALUES, result, resume blob, cut-off), completed migration = the theorems' mig_final"

func dispatch(c *hx.Ctx, or *hx.Oracle, sc *Scenario, tag string) {
	c.Hist["kind:"+sc.Kind]++
	switch sc.Kind {
	case "migrate":
		runMigrate(c, or, sc, tag)
	case "runloop":
		runLoop(c, or, sc, tag)
	default:
		runScenario(c, or, sc, tag)
	}
}

// the migration when the computed floor is block 0 (pivot == retained)
func floorZeroMigration(g *hx.RNG, newState bool) *Scenario {
	sc := genScenario(g, newState, 12, false)
	sc.Kind, sc.Interrupt = "migrate", false
	sc.Cfg.Retained, sc.Cfg.MinAgeSec = 8, 0
	sc.Mig = &MigCfg{L1: "below", L1Off: 3, Mode: "none"}
	changingWrites(sc)
	return sc
}

func main() {
	c := hx.NewCtx("C16")
	if pf := os.Getenv("C16_PROF"); pf != "" {
		f, _ := os.Create(pf)
		pprof.StartCPUProfile(f)
		go func() { time.Sleep(100 * time.Second); pprof.StopCPUProfile(); f.Close() }()
	}
	or := hx.StartOracle(c.OraclePath)
	defer or.Close()
	if c.ReplayIn != "" {
		var sc Scenario
		c.LoadReplay(&sc)
		dispatch(c, or, &sc, "replay")
		c.Finish(rule)
	}
	// corpus first: the minimised failing scenarios of earlier runs (registered findings and repaired defects)
	if files, _ := filepath.Glob("/verif/corpus/C16/*.json"); len(files) > 0 {
		sort.Strings(files)
		for _, f := range files {
			var w struct {
				Replay Scenario `json:"replay"`
			}
			b, err := os.ReadFile(f)
			hx.Must(err)
			hx.Must(json.Unmarshal(b, &w))
			c.Hist["corpus"]++
			dispatch(c, or, &w.Replay, "corpus "+filepath.Base(f))
		}
	}
	g := hx.NewRNG(c.Seed)
	short, migs, loops := 10, 10, 2 // (migs 14 -> 10: the migration corpus grew by five scenarios that run first)
	if c.Thorough() {
		short, migs, loops = 120, 150, 12
	}
	only := os.Getenv("C16_ONLY") // development: "migrate" runs the migration family only, C16_MIGS scenarios
	if only == "migrate" {
		short, loops = 0, 0
		fmt.Sscan(os.Getenv("C16_MIGS"), &migs)
	}
	t0 := time.Now()
	for i := 0; i < short; i++ {
		for _, ns := range []bool{false, true} {
			sc := genScenario(g.Fork(uint64(i)), ns, 16+g.Intn(14), false)
			c.Hist["retained:"+fmt.Sprint(sc.Cfg.Retained)]++
			c.Hist["l1:"+sc.L1Mode]++
			c.Hist[fmt.Sprintf("min-age:%v batch:%d", sc.Cfg.MinAgeSec > 0, sc.Cfg.Batch)]++
			dispatch(c, or, sc, fmt.Sprintf("short %d", i))
		}
	}
	c.Extra["wall_short_s"] = time.Since(t0).Seconds()
	t0 = time.Now()
	for i := 0; i < migs; i++ {
		for _, ns := range []bool{false, true} {
			if ns && i%3 != 0 { // the migration's history stages are no-ops on a new-state database: fewer runs
				continue
			}
			dispatch(c, or, genMigrate(g.Fork(5000+uint64(i)), ns), fmt.Sprintf("migrate %d", i))
		}
	}
	for _, ns := range []bool{false, true} {
		dispatch(c, or, floorZeroMigration(g.Fork(6000), ns), "migrate floor 0")
	}
	for i := 0; i < loops; i++ {
		for _, ns := range []bool{false, true} {
			sc := genScenario(g.Fork(7000+uint64(i)), ns, 18+g.Intn(8), false)
			sc.Kind, sc.Interrupt, sc.L1Mode, sc.Cfg.Every = "runloop", false, "lag", 1
			if sc.Cfg.Retained > 6 {
				sc.Cfg.Retained = 2
			}
			dispatch(c, or, sc, fmt.Sprintf("runloop %d", i))
		}
	}
	c.Extra["wall_migrate_runloop_s"] = time.Since(t0).Seconds()
	t0 = time.Now()
	// long histories: floor inside the persisted window [8192,16383], head in the next (running) window
	longs := []bool{c.Seed%2 == 0}
	if c.Thorough() {
		longs = []bool{false, true, false, true}
	}
	if only != "" {
		longs = nil
	}
	for i, ns := range longs {
		dispatch(c, or, longScenario(g.Fork(777+uint64(i)), ns), "long")
	}
	c.Extra["wall_long_s"] = time.Since(t0).Seconds()
	c.Finish(rule)
}
