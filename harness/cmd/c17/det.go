// det.go — mode A: drive the client's atomic steps one at a time (VerifApply / VerifSetL1Head /
// VerifCatchUp), observe head and buffer after every step, compare with the oracle.
package main

import (
	"context"
	"fmt"
	"strings"
	"time"

	"github.com/NethermindEth/juno/blockchain"
	"github.com/NethermindEth/juno/blockchain/networks"
	"github.com/NethermindEth/juno/db/memory"
	"github.com/NethermindEth/juno/l1"
	"github.com/NethermindEth/juno/utils/log"
	"verifharness/hx"
)

var nopLog = log.NewNopZapLogger()

type detObs struct {
	heads  []string
	bufs   []string
	cuOK   []int // per step: -1 not a C step, 0 VerifCatchUp returned an error, 1 returned nil
	torn   string
	tornAt int
	feed   string // first disagreement between the L1-head feed and the stored head
	// mode C
	fwdOut     []string  // per step: what the forwarding loop handed on ("" = step does not use it)
	adapter    []verdict // life-cycle problems of the forwarding loop
	adjacent   int       // geth events delivered directly behind one another (no sentinel in between)
	ownRemoval int
}

func runDet(cs *Case) *detObs {
	network := networks.Mainnet
	chain := blockchain.New(memory.New(), &network)
	storeH0(chain, cs.H0)
	o := &detObs{tornAt: -1}
	p := &detProvider{chainID: network.L1ChainID, failAt: -1, decode: cs.Fwd}
	var sess *fwdSession
	if cs.Fwd {
		sess = newFwdSession()
	}
	adapterProblem := func(i int, kind, what string) {
		if what != "" {
			o.adapter = append(o.adapter, verdict{"geth-adapter:" + kind, fmt.Sprintf("step %d: %s", i, what), true})
		}
	}
	cl := l1.NewClient(p, chain, nopLog,
		l1.WithCatchUpChunkSize(cs.Chunk), l1.WithResubscribeDelay(time.Millisecond))
	ctx := context.Background()
	// the L1-head feed (buffer 1, at most one commit per step): an event iff the stored head was written
	fsub := chain.SubscribeL1Head()
	defer fsub.Unsubscribe()
	prevHead, _ := observeHead(chain)
	for i, s := range cs.Steps {
		cu := -1
		fo := ""
		switch {
		case cs.Fwd && (s.K == 'U' || s.K == 'R'):
			var outs []*l1.StateUpdate
			var problem string
			if nextIsGeth := i+1 < len(cs.Steps) && (cs.Steps[i+1].K == 'U' || cs.Steps[i+1].K == 'R'); nextIsGeth && (i+int(cs.Chunk))%3 != 0 {
				o.adjacent++
				if n := cs.Steps[i+1]; s.K == 'U' && n.K == 'R' && n.E == s.E {
					o.ownRemoval++
				}
				outs, problem = sess.pushAdjacent(s.E.gethLog(s.K == 'R'))
			} else {
				outs, problem = sess.push(s.E.gethLog(s.K == 'R'))
			}
			adapterProblem(i, "stuck", problem)
			fo = fwdTexts(outs)
			for _, u := range outs {
				if u != nil {
					cl.VerifApply(u)
				}
			}
		case cs.Fwd && s.K == 'S':
			adapterProblem(i, "error-path", sess.fail())
			fo = "S"
			sess = newFwdSession() // the client resubscribes
		}
		o.fwdOut = append(o.fwdOut, fo)
		switch s.K {
		case 'U':
			if !cs.Fwd {
				cl.VerifApply(s.E.update(false))
			}
		case 'R':
			if !cs.Fwd {
				cl.VerifApply(s.E.update(true))
			}
		case 'T':
			p.finQ = []uint64{s.Fin}
			if err := cl.VerifSetL1Head(ctx); err != nil {
				hx.Fatalf("setL1Head failed at step %d of %s: %v", i, cs.key(), err)
			}
		case 'C':
			p.latest, p.finQ, p.canon, p.failAt, p.calls = s.Latest, []uint64{s.Fin1, s.Fin2}, s.Canon, s.Fail, 0
			if err := cl.VerifCatchUp(ctx); err != nil {
				cu = 0
			} else {
				cu = 1
			}
		case 'S':
		}
		h, torn := observeHead(chain)
		if torn != "" && o.torn == "" {
			o.torn, o.tornAt = torn, i
		}
		select {
		case fh := <-fsub.Recv():
			got := "nil"
			if fh != nil && fh.BlockHash != nil && isU64(fh.BlockHash) {
				got = fmt.Sprintf("%d:%d", fh.BlockNumber, fh.BlockHash.Uint64())
			}
			if got != h && o.feed == "" {
				o.feed = fmt.Sprintf("step %d: feed announced %s, stored head is %s", i, got, h)
			}
		default:
			if h != prevHead && o.feed == "" {
				o.feed = fmt.Sprintf("step %d: stored head changed %s -> %s without a feed event", i, prevHead, h)
			}
		}
		prevHead = h
		o.heads = append(o.heads, h)
		o.bufs = append(o.bufs, observeBuffer(cl))
		o.cuOK = append(o.cuOK, cu)
	}
	if cs.Fwd {
		adapterProblem(len(cs.Steps), "unsubscribe", sess.quit())
	}
	return o
}

type verdict struct {
	class, what string
	noInput     bool
}

type evalRes struct {
	line, reply string
	recs        []Rec
	heads       []string
	verdicts    []verdict
	cuFailed    int
	cuOK        int
	headChanges int
	commitMoved int // commits (T / successful C) that changed the stored head
	outside     map[string]int
	unconfirmed bool // node mode: verdicts of the first run did not reproduce
	adjacent    int  // mode C: geth events delivered directly behind one another
	ownRemoval  int  // mode C: a log directly followed by its own removal notice, delivered adjacently
}

func (r *evalRes) has(class string) *verdict {
	for i := range r.verdicts {
		if r.verdicts[i].class == class {
			return &r.verdicts[i]
		}
	}
	return nil
}

// predicate verdicts for one step; prefix distinguishes mode A ("") and mode B ("run-loop")
func predicateVerdicts(res *evalRes, i int, k byte, rec Rec, obs string, runLoop bool) {
	if !rec.Env {
		if rec.Spec == "bad" {
			res.outside["outside-env:spec-bad"]++
		}
		if rec.Never == "bad" {
			res.outside["outside-env:never-bad"]++
		}
		if rec.Mono == "bad" {
			res.outside["outside-env:mono-bad"]++
		}
		return
	}
	add := func(detClass, runClass, txt string) {
		cl := detClass
		if runLoop {
			cl = runClass
		}
		res.verdicts = append(res.verdicts, verdict{cl,
			fmt.Sprintf("step %d (%c): observed head %s %s (trace satisfies the environment assumptions, commit=%s)",
				i, k, obs, txt, rec.Commit), false})
	}
	if rec.Spec == "bad" {
		add(fmt.Sprintf("head-spec:after-%c", k), "run-loop:head-spec",
			"is not the highest delivered, not removed event at or below the finalised height")
	}
	if rec.Never == "bad" {
		add("above-finalised", "run-loop:above-finalised",
			"is neither the initial head nor a delivered, not removed event at or below the highest finalised height")
	}
	if rec.Mono == "bad" {
		add("l2-regress", "run-loop:l2-regress", "regresses in L2 number (or disappeared)")
	}
}

// evalDet evaluates one case. Node-mode cases run over a real websocket: a verdict is only kept when
// it fires again on a second, fresh run of the same case (a defect of the code is deterministic, a
// transport hiccup is not).
func evalDet(or *hx.Oracle, cs *Case) *evalRes {
	res := evalDetOnce(or, cs)
	if cs.Node && len(res.verdicts) > 0 {
		again := evalDetOnce(or, cs)
		kept := res.verdicts[:0]
		for _, v := range res.verdicts {
			if again.has(v.class) != nil {
				kept = append(kept, v)
			}
		}
		res.verdicts = kept
		res.unconfirmed = len(kept) == 0
	}
	return res
}

func evalDetOnce(or *hx.Oracle, cs *Case) *evalRes {
	var o *detObs
	if cs.Node {
		o = runNode(cs)
	} else {
		o = runDet(cs)
	}
	res := &evalRes{heads: o.heads, outside: map[string]int{}, adjacent: o.adjacent, ownRemoval: o.ownRemoval}
	res.line = cs.line(o.heads)
	res.reply = or.Ask(res.line, 1)[0]
	res.recs = parseReply(res.reply, len(cs.Steps))
	if o.feed != "" {
		res.verdicts = append(res.verdicts, verdict{"feed-mismatch", o.feed, true})
	}
	if o.torn != "" {
		res.verdicts = append(res.verdicts, verdict{"torn-head",
			fmt.Sprintf("step %d: %s", o.tornAt, o.torn), false})
	}
	prev := "-"
	if cs.H0 != nil {
		prev = fmt.Sprintf("%d:%d", cs.H0.L2, cs.H0.ID)
	}
	for i, s := range cs.Steps {
		rec := res.recs[i]
		mm := func(what, impl, model string) {
			res.verdicts = append(res.verdicts, verdict{
				fmt.Sprintf("model-mismatch:%c:%s", s.K, what),
				fmt.Sprintf("step %d (%s): implementation %s=%s, model %s=%s", i, s.Text(cs.Chunk), what, impl, what, model),
				true})
		}
		if o.heads[i] != rec.MH {
			mm("head", o.heads[i], rec.MH)
		}
		if o.bufs[i] != rec.MB {
			mm("buffer", o.bufs[i], rec.MB)
		}
		if s.K == 'C' {
			implOK := o.cuOK[i] == 1
			if implOK {
				res.cuOK++
			} else {
				res.cuFailed++
			}
			if implOK != (rec.Commit != "-") {
				mm("commit", fmt.Sprintf("returned-nil=%v", implOK), "commit="+rec.Commit)
			}
		}
		predicateVerdicts(res, i, s.K, rec, o.heads[i], false)
		if o.heads[i] != prev {
			res.headChanges++
			if rec.Commit != "-" {
				res.commitMoved++
			}
		}
		prev = o.heads[i]
	}
	if cs.Fwd || cs.Node {
		pfx := "geth-adapter:"
		if cs.Node {
			pfx = "geth-node:"
		}
		for i := range res.verdicts {
			cl := res.verdicts[i].class
			if f := strings.Split(cl, ":"); len(f) == 3 && f[0] == "model-mismatch" {
				cl = f[0] + ":" + f[2] // the step kind adds nothing here: the events came through the adapter
			}
			res.verdicts[i].class = pfx + cl
		}
		res.verdicts = append(res.verdicts, o.adapter...)
		if gline, idx := gethStream(cs); len(idx) > 0 {
			want := strings.Split(or.Ask(gline, 1)[0], ";")
			for j, i := range idx {
				if j >= len(want) || o.fwdOut[i] == want[j] {
					continue
				}
				kind := "altered"
				switch s := cs.Steps[i]; {
				case o.fwdOut[i] == "-" && s.K == 'R':
					kind = "dropped:removed"
				case o.fwdOut[i] == "-":
					kind = "dropped:live"
				case strings.Contains(o.fwdOut[i], ","):
					kind = "duplicated"
				}
				res.verdicts = append(res.verdicts, verdict{pfx + "forward:" + kind,
					fmt.Sprintf("step %d: geth event %q: the forwarding loop handed on %q, the adapter model %q",
						i, strings.TrimSpace(strings.Split(strings.TrimPrefix(gline, "G "), ";")[j]), o.fwdOut[i], want[j]), true})
			}
		}
	}
	return res
}

// shrinkDet drops steps (and the initial head) one at a time while the class still fires.
func shrinkDet(or *hx.Oracle, cs *Case, class string) *Case {
	cur := &Case{H0: cs.H0, Chunk: cs.Chunk, Steps: append([]Step{}, cs.Steps...), Gen: cs.Gen, Fwd: cs.Fwd, Node: cs.Node}
	for changed := true; changed; {
		changed = false
		for i := len(cur.Steps) - 1; i >= 0; i-- {
			if len(cur.Steps) <= 1 {
				break
			}
			cand := &Case{H0: cur.H0, Chunk: cur.Chunk, Gen: cur.Gen, Fwd: cur.Fwd, Node: cur.Node}
			cand.Steps = append(append([]Step{}, cur.Steps[:i]...), cur.Steps[i+1:]...)
			if evalDet(or, cand).has(class) != nil {
				cur, changed = cand, true
			}
		}
		if cur.H0 != nil {
			cand := &Case{Chunk: cur.Chunk, Steps: cur.Steps, Gen: cur.Gen, Fwd: cur.Fwd, Node: cur.Node}
			if evalDet(or, cand).has(class) != nil {
				cur, changed = cand, true
			}
		}
	}
	return cur
}
