// fwd.go — mode C: the geth adapter below the L1StateProvider interface.
// Scripted geth-level events (*contract.StarknetLogStateUpdate, subscription errors) are pushed through
// the REAL forwardStateUpdates / stateUpdateFromGethContract (verif export: l1.VerifForward,
// l1.VerifDecode); what comes out is compared with the extracted adapter model (oracle "G" line) and
// handed to the real client, so head / buffer / predicates are checked end to end against the
// geth-level stream.
package main

import (
	"fmt"
	"math/big"
	"strings"
	"sync/atomic"
	"time"

	"github.com/NethermindEth/juno/l1"
	"github.com/NethermindEth/juno/l1/geth/contract"
	"github.com/ethereum/go-ethereum/core/types"
)

const (
	fwdTimeout = 2 * time.Second
	sentinelL1 = uint64(1) << 40
	sentinelID = uint64(999_999_999)
)

func (e Ev) gethLog(removed bool) *contract.StarknetLogStateUpdate {
	return &contract.StarknetLogStateUpdate{
		GlobalRoot:  new(big.Int).SetUint64(e.ID + rootOffset),
		BlockNumber: new(big.Int).SetUint64(e.L2),
		BlockHash:   new(big.Int).SetUint64(e.ID),
		Raw:         types.Log{BlockNumber: e.L1, Removed: removed},
	}
}

// gethSubFake is the go-ethereum event.Subscription the forwarding loop wraps.
type gethSubFake struct {
	errCh    chan error
	unsubbed atomic.Bool
}

func (f *gethSubFake) Err() <-chan error { return f.errCh }
func (f *gethSubFake) Unsubscribe() {
	if f.unsubbed.CompareAndSwap(false, true) {
		close(f.errCh)
	}
}

type fwdSession struct {
	gsub *gethSubFake
	in   chan *contract.StarknetLogStateUpdate
	out  chan *l1.StateUpdate
	sub  l1.Subscription
}

func newFwdSession() *fwdSession {
	s := &fwdSession{
		gsub: &gethSubFake{errCh: make(chan error, 1)},
		in:   make(chan *contract.StarknetLogStateUpdate),
		out:  make(chan *l1.StateUpdate, 4),
	}
	s.sub = l1.VerifForward(s.gsub, s.in, s.out)
	return s
}

func (s *fwdSession) send(ev *contract.StarknetLogStateUpdate) bool {
	select {
	case s.in <- ev:
		return true
	case <-time.After(fwdTimeout):
		return false
	}
}

// push delivers one geth event followed by a sentinel (a live log at an impossible L1 block, never
// handed to the client); everything that comes out before the sentinel is what the loop made of ev.
func (s *fwdSession) push(ev *contract.StarknetLogStateUpdate) (outs []*l1.StateUpdate, problem string) {
	if !s.send(ev) {
		return nil, "forwarding loop does not take the event"
	}
	if !s.send(Ev{sentinelL1, 0, sentinelID}.gethLog(false)) {
		return nil, "forwarding loop does not take the next event"
	}
	for {
		select {
		case u := <-s.out:
			if u != nil && u.L1RefHeight == sentinelL1 {
				return outs, ""
			}
			outs = append(outs, u)
		case <-time.After(fwdTimeout):
			return outs, "forwarding loop does not forward a live log"
		}
	}
}

// pushAdjacent delivers one geth event WITHOUT a sentinel behind it, so that the next event of the script reaches the
// loop directly after this one (a sentinel between every two events would hide anything the loop remembers from one
// event to the next, e.g. a "same as the last forwarded" suppression). The unmodified loop hands on exactly one
// update per event; an event that produces none within the grace period counts as dropped.
func (s *fwdSession) pushAdjacent(ev *contract.StarknetLogStateUpdate) (outs []*l1.StateUpdate, problem string) {
	if adjacentTimeouts >= 5 {
		// the loop under test keeps dropping events: every further wait would cost the whole grace period (a run with
		// thousands of them would hit the time limit instead of reporting); the sentinel delivery needs no waiting
		return s.push(ev)
	}
	if !s.send(ev) {
		return nil, "forwarding loop does not take the event"
	}
	select {
	case u := <-s.out:
		return []*l1.StateUpdate{u}, ""
	case <-time.After(400 * time.Millisecond):
		adjacentTimeouts++
		return nil, ""
	}
}

var adjacentTimeouts int

// fail makes the geth subscription fail: the error must surface on Err(), the loop must end and
// release the geth subscription.
func (s *fwdSession) fail() string {
	s.gsub.errCh <- errScripted
	select {
	case err, ok := <-s.sub.Err():
		if !ok || err != errScripted {
			return fmt.Sprintf("Err() delivered (%v, open=%v) instead of the geth subscription's error", err, ok)
		}
	case <-time.After(fwdTimeout):
		return "geth subscription error not surfaced on Err()"
	}
	return s.ended()
}

func (s *fwdSession) ended() string {
	select {
	case _, ok := <-s.sub.Err():
		if ok {
			return "Err() delivered a second value"
		}
	case <-time.After(fwdTimeout):
		return "Err() not closed after the loop ended"
	}
	if !s.gsub.unsubbed.Load() {
		return "geth subscription not released"
	}
	return ""
}

// quit = the caller unsubscribes (client shutdown / resubscribe).
func (s *fwdSession) quit() string {
	s.sub.Unsubscribe()
	return s.ended()
}

// text of a forwarded StateUpdate in the oracle's input syntax
func fwdText(u *l1.StateUpdate) string {
	if u == nil {
		return "nil"
	}
	k := "U"
	if u.Removed {
		k = "R"
	}
	if !isU64(&u.L2BlockHash) {
		return fmt.Sprintf("%s %d %d hash=%s", k, u.L1RefHeight, u.L2BlockNumber, u.L2BlockHash.String())
	}
	id := u.L2BlockHash.Uint64()
	want := feltOf(id + rootOffset)
	if !u.StateRoot.Equal(&want) {
		return fmt.Sprintf("%s %d %d %d root=%s", k, u.L1RefHeight, u.L2BlockNumber, id, u.StateRoot.String())
	}
	return fmt.Sprintf("%s %d %d %d", k, u.L1RefHeight, u.L2BlockNumber, id)
}

func fwdTexts(us []*l1.StateUpdate) string {
	if len(us) == 0 {
		return "-"
	}
	p := make([]string, len(us))
	for i, u := range us {
		p[i] = fwdText(u)
	}
	return strings.Join(p, ",")
}

// the geth-level stream of a case, in the oracle's "G" syntax; idx maps stream positions to steps
func gethStream(cs *Case) (line string, idx []int) {
	var parts []string
	for i, s := range cs.Steps {
		switch s.K {
		case 'U':
			parts = append(parts, fmt.Sprintf("L %d %d %d 0", s.E.L1, s.E.L2, s.E.ID))
		case 'R':
			parts = append(parts, fmt.Sprintf("L %d %d %d 1", s.E.L1, s.E.L2, s.E.ID))
		case 'S':
			parts = append(parts, "E")
		default:
			continue
		}
		idx = append(idx, i)
	}
	return "G " + strings.Join(parts, " ; "), idx
}
