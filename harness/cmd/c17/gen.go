// gen.go — case generators. g1: a well-behaved L1 (inside the environment assumptions of the
// property), g2: arbitrary step sequences over a tiny universe.
package main

import (
	"sort"

	"verifharness/hx"
)

type cev struct {
	Ev
	delivered bool
}

// g1sim simulates an L1 chain and what the client gets to see of it.
type g1sim struct {
	r      *hx.RNG
	nextID uint64
	canon  []cev  // canonical events, l1 and l2 non-decreasing
	H, F   uint64 // L1 height, finalised height
	finRep int64  // highest finalised height used in a T / C so far (-1: none)
	minL2  uint64 // lower bound for L2 numbers (the stored head's)
	cs     *Case
}

func (g *g1sim) id() uint64 { g.nextID++; return g.nextID }

func (g *g1sim) emit(s Step) { g.cs.Steps = append(g.cs.Steps, s) }

func (g *g1sim) curL2() uint64 {
	m := g.minL2
	for _, e := range g.canon {
		if e.L2 > m {
			m = e.L2
		}
	}
	return m
}

func (g *g1sim) tick() {
	g.emit(Step{K: 'T', Fin: g.F})
	if int64(g.F) > g.finRep {
		g.finRep = int64(g.F)
	}
}

var chunkChoices = []uint64{1, 2, 3, 5, 8, 16, 1000}

// canonical prefix for the start-up catch-up: 0..12 events over L1 blocks 0..~60
func (g *g1sim) prefix() {
	r := g.r
	n := r.Intn(13)
	if r.Chance(10) {
		n = 0
	}
	l1 := uint64(r.Intn(6))
	l2 := uint64(r.Intn(4))
	for i := 0; i < n; i++ {
		if i > 0 && r.Chance(25) {
			g.cs.Multi++ // same L1 block as the previous event
		} else if i > 0 {
			l1 += 1 + uint64(r.Intn(9))
		}
		l2 += uint64(r.Intn(3))
		g.canon = append(g.canon, cev{Ev: Ev{l1, l2, g.id()}})
	}
}

// catchUp emits the C step (and, for the run loop, the T fin2 the ticker contributes).
// strict: stay inside the assumptions (mode B).
func (g *g1sim) catchUp(strict bool, wantH0 bool) {
	r := g.r
	g.prefix()
	var last uint64
	if n := len(g.canon); n > 0 {
		last = g.canon[n-1].L1
	}
	latest := last + uint64(r.Intn(11))
	if len(g.canon) == 0 {
		latest = uint64(r.Intn(21))
	}
	fin1 := uint64(r.Intn(int(latest) + 1))
	fin2 := fin1
	if r.Bool() {
		fin2 = fin1 + uint64(r.Intn(int(latest-fin1)+1))
	}
	if !strict {
		switch x := r.Intn(100); {
		case x < 3 && fin2 > fin1:
			fin1, fin2 = fin2, fin1 // finalised height going backwards: outside the assumptions
		case x < 6:
			fin2 = latest + uint64(r.Intn(3)) // LatestHeight was stale
		}
	}
	fail := -1
	if r.Chance(40) {
		fail = r.Intn(5)
	}
	if wantH0 {
		// a block b <= fin1 that carries canonical events
		var blocks []uint64
		for _, e := range g.canon {
			if e.L1 <= fin1 && (len(blocks) == 0 || blocks[len(blocks)-1] != e.L1) {
				blocks = append(blocks, e.L1)
			}
		}
		if len(blocks) > 0 {
			b := blocks[r.Intn(len(blocks))]
			var in []Ev
			for _, e := range g.canon {
				if e.L1 == b {
					in = append(in, e.Ev)
				}
			}
			h := Ev{b, in[0].L2, 0} // smallest L2 in block b (canon is sorted)
			if len(in) == 1 && r.Bool() {
				h.ID = in[0].ID // exactly the canonical event that is alone in its block
			} else {
				h.ID = g.id()
			}
			g.cs.H0 = &h
			g.minL2 = h.L2
		}
	}
	st := Step{K: 'C', Latest: latest, Fin1: fin1, Fin2: fin2, Fail: fail}
	for _, e := range g.canon {
		st.Canon = append(st.Canon, e.Ev)
	}
	g.emit(st)
	g.markDelivered(st)
	g.H = max(latest, fin1, fin2)
	g.F = max(fin1, fin2)
	g.finRep = int64(g.F)
}

// which canonical events the backward scan hands to the client (mirrors the scan bounds only to
// know what a later reorg has to send removal notices for)
func (g *g1sim) markDelivered(st Step) {
	to := st.Latest
	chunk := g.cs.Chunk
	for call := 0; ; call++ {
		if call == st.Fail {
			return
		}
		var from uint64
		if to+1 > chunk {
			from = to + 1 - chunk
		}
		found := false
		for i := range g.canon {
			if e := &g.canon[i]; from <= e.L1 && e.L1 <= to {
				e.delivered = true
				if e.L1 <= st.Fin1 {
					found = true
				}
			}
		}
		if found || from == 0 {
			return
		}
		to = from - 1
	}
}

// new L1 block(s) with 1..3 new state-update events, delivered live
func (g *g1sim) newEvents() {
	r := g.r
	g.H += 1 + uint64(r.Intn(3))
	k := 1
	if r.Chance(25) {
		k = 2 + r.Intn(2)
	}
	l2 := g.curL2()
	emitted := 0
	for i := 0; i < k; i++ {
		l2 += uint64(r.Intn(3))
		e := cev{Ev: Ev{g.H, l2, g.id()}, delivered: true}
		if r.Chance(4) {
			e.delivered = false // a log the subscription never delivered
		} else {
			g.emit(Step{K: 'U', E: e.Ev})
			emitted++
		}
		g.canon = append(g.canon, e)
	}
	if emitted > 1 {
		g.cs.Multi++
	}
}

func (g *g1sim) finality() {
	r := g.r
	if !r.Chance(15) { // sometimes a T with unchanged F
		g.F += uint64(r.Intn(int(g.H-g.F) + 1))
	}
	g.tick()
	if r.Chance(20) {
		g.tick()
	}
}

// reorg from block b (finRep < b, F < b, b <= H); false if no such block exists
func (g *g1sim) reorg() bool {
	r := g.r
	lo := uint64(g.finRep + 1)
	if g.F+1 > lo {
		lo = g.F + 1
	}
	if g.cs.H0 != nil && lo < g.cs.H0.L1+1 {
		lo = g.cs.H0.L1 + 1
	}
	if lo > g.H {
		return false
	}
	b := lo + uint64(r.Intn(int(g.H-lo)+1))
	var notices []Step
	keep := g.canon[:0:0]
	for _, e := range g.canon {
		if e.L1 < b {
			keep = append(keep, e)
		} else if e.delivered {
			notices = append(notices, Step{K: 'R', E: e.Ev})
		}
	}
	switch r.Intn(3) {
	case 0: // ascending
	case 1:
		sort.SliceStable(notices, func(i, j int) bool { return notices[i].E.L1 > notices[j].E.L1 })
	default:
		for i := len(notices) - 1; i > 0; i-- {
			j := r.Intn(i + 1)
			notices[i], notices[j] = notices[j], notices[i]
		}
	}
	insert := func(s Step) {
		at := r.Intn(len(notices) + 1)
		notices = append(notices, Step{})
		copy(notices[at+1:], notices[at:])
		notices[at] = s
	}
	if r.Chance(25) { // a removal notice for a log that was never delivered
		insert(Step{K: 'R', E: Ev{b + uint64(r.Intn(int(g.H-b)+1)), g.curL2() + uint64(r.Intn(3)), g.id()}})
	}
	nR := len(notices)
	if nR > 0 && r.Chance(20) { // a tick in the middle of the notices (F < b)
		insert(Step{K: 'T', Fin: g.F})
		if int64(g.F) > g.finRep {
			g.finRep = int64(g.F)
		}
	}
	for _, s := range notices {
		g.emit(s)
	}
	if nR > 0 {
		g.cs.Reorgs++
	}
	g.canon = keep
	g.H = b - 1 + uint64(r.Intn(3))
	return true
}

// genG1 builds one well-behaved case. runMode: for the real Run loop (always starts with C followed
// by the ticker's T fin2, stays strictly inside the assumptions, nActions counts batches).
func genG1(r *hx.RNG, runMode bool, nActions int) *Case {
	g := &g1sim{r: r, finRep: -1, cs: &Case{Gen: "g1"}}
	g.cs.Chunk = chunkChoices[r.Intn(len(chunkChoices))]
	wantH0 := r.Chance(40)
	if runMode || r.Bool() {
		g.catchUp(runMode, wantH0)
		if runMode {
			g.emit(Step{K: 'T', Fin: g.cs.Steps[0].Fin2})
		}
	} else {
		if wantH0 {
			h := Ev{0, uint64(r.Intn(3)), g.id()}
			g.cs.H0 = &h
			g.minL2 = h.L2
		}
		g.F = uint64(r.Intn(4))
		g.H = g.F + uint64(r.Intn(6))
	}
	for i := 0; i < nActions; i++ {
		switch x := r.Intn(100); {
		case x < 45:
			g.newEvents()
		case x < 70:
			g.finality()
		case x < 88:
			if !g.reorg() {
				g.newEvents()
			}
		default:
			g.emit(Step{K: 'S'})
		}
	}
	if !r.Chance(30) {
		g.F += uint64(r.Intn(int(g.H-g.F) + 1))
	} else {
		g.F = g.H
	}
	g.tick()
	return g.cs
}

// genG2: no assumptions respected; tiny universe so that collisions are frequent.
func genG2(r *hx.RNG) *Case {
	cs := &Case{Gen: "g2", Chunk: 1 + uint64(r.Intn(6))}
	var nextID uint64
	var used []Ev
	ev := func() Ev {
		if len(used) > 0 && r.Chance(30) {
			e := used[r.Intn(len(used))]
			switch r.Intn(3) {
			case 0: // the same event again
				return e
			case 1: // same id at another place
				return Ev{uint64(r.Intn(13)), uint64(r.Intn(7)), e.ID}
			default:
				return Ev{e.L1, uint64(r.Intn(7)), e.ID}
			}
		}
		nextID++
		e := Ev{uint64(r.Intn(13)), uint64(r.Intn(7)), nextID}
		used = append(used, e)
		return e
	}
	if r.Chance(40) {
		h := ev()
		cs.H0 = &h
	}
	n := 3 + r.Intn(23)
	for i := 0; i < n; i++ {
		switch x := r.Intn(100); {
		case x < 38:
			cs.Steps = append(cs.Steps, Step{K: 'U', E: ev()})
		case x < 56:
			cs.Steps = append(cs.Steps, Step{K: 'R', E: ev()})
		case x < 80:
			cs.Steps = append(cs.Steps, Step{K: 'T', Fin: uint64(r.Intn(15))})
		case x < 92:
			st := Step{K: 'C', Latest: uint64(r.Intn(15)), Fin1: uint64(r.Intn(15)), Fin2: uint64(r.Intn(15)), Fail: -1}
			if r.Chance(30) {
				st.Fail = r.Intn(4)
			}
			for k := r.Intn(6); k > 0; k-- {
				st.Canon = append(st.Canon, ev())
			}
			sort.SliceStable(st.Canon, func(i, j int) bool { return st.Canon[i].L1 < st.Canon[j].L1 })
			for j := 1; j < len(st.Canon); j++ {
				if st.Canon[j-1].L1 == st.Canon[j].L1 && r.Bool() { // same block in either order
					st.Canon[j-1], st.Canon[j] = st.Canon[j], st.Canon[j-1]
				}
			}
			cs.Steps = append(cs.Steps, st)
		default:
			cs.Steps = append(cs.Steps, Step{K: 'S'})
		}
	}
	return cs
}
