// gen3.go — g3: histories aimed at the start-up catch-up scan (inside the environment assumptions):
// every chunk size from 1 to "one chunk covers everything", the newest finalised update 0, 1 or
// several chunks below the chunk that contains the finalised height, updates exactly on chunk
// edges, no update at all, finalised = 0 / = latest, a second finalised read above the first,
// failing log queries; followed by a few polls and live events.
package main

import "verifharness/hx"

var g3Chunks = []uint64{1, 1, 2, 2, 3, 4, 5, 7, 10, 13, 16, 64, 1000}

func genG3(r *hx.RNG) *Case {
	cs := &Case{Gen: "g3", Chunk: g3Chunks[r.Intn(len(g3Chunks))]}
	chunk := cs.Chunk
	latest := uint64(r.Intn(70))
	if r.Chance(5) {
		latest = 0
	}
	var fin uint64
	switch r.Intn(6) {
	case 0:
		fin = 0
	case 1:
		fin = latest
	default:
		fin = uint64(r.Intn(int(latest) + 1))
	}
	// lower edge of the chunk [lo, hi] that contains fin (chunks are cut from latest downwards)
	k := (latest - fin) / chunk
	var lo uint64
	if latest+1 > (k+1)*chunk {
		lo = latest + 1 - (k+1)*chunk
	}
	below := func(limit uint64) (uint64, bool) { // a block in [0, limit)
		if limit == 0 {
			return 0, false
		}
		return uint64(r.Intn(int(limit))), true
	}
	blocks := map[uint64]int{} // L1 block -> number of updates
	scenario := r.Intn(7)
	cs.Reorgs = 0
	switch scenario {
	case 0: // no update at all
	case 1: // newest finalised update in the chunk that contains fin
		blocks[lo+uint64(r.Intn(int(fin-lo)+1))]++
	case 2: // one chunk below
		if lo > 0 {
			w := chunk
			if w > lo {
				w = lo
			}
			blocks[lo-1-uint64(r.Intn(int(w)))]++
		}
	case 3: // several chunks below
		if lo > chunk {
			b, _ := below(lo - chunk)
			blocks[b]++
		} else if b, ok := below(lo); ok {
			blocks[b]++
		}
	case 4: // exactly on chunk edges / on fin
		edges := []uint64{fin, lo}
		if lo > 0 {
			edges = append(edges, lo-1)
		}
		if lo >= chunk {
			edges = append(edges, lo-chunk)
		}
		if lo > chunk {
			edges = append(edges, lo-chunk-1)
		}
		for n := 1 + r.Intn(2); n > 0; n-- {
			if e := edges[r.Intn(len(edges))]; e <= fin {
				blocks[e]++
			}
		}
	case 5: // only updates above fin
	default: // scatter
		for n := r.Intn(6); n > 0; n-- {
			blocks[uint64(r.Intn(int(latest)+1))]++
		}
	}
	// older updates below the newest finalised one, updates above fin, several per block
	for n := r.Intn(3); n > 0 && scenario != 0; n-- {
		if b, ok := below(lo); ok && scenario != 5 {
			blocks[b]++
		}
	}
	for n := r.Intn(4); n > 0 && scenario != 0 && latest > fin; n-- {
		blocks[fin+1+uint64(r.Intn(int(latest-fin)))]++
	}
	for b := range blocks {
		if r.Chance(20) {
			blocks[b] += 1 + r.Intn(2)
			cs.Multi++
		}
	}
	var canon []Ev
	id, l2 := uint64(0), uint64(r.Intn(3))
	for b := uint64(0); b <= latest; b++ {
		for n := blocks[b]; n > 0; n-- {
			id++
			l2 += uint64(r.Intn(3))
			canon = append(canon, Ev{b, l2, id})
		}
	}
	fin2 := fin
	if r.Chance(20) && latest > fin {
		fin2 = fin + uint64(r.Intn(int(latest-fin)+1))
	}
	fail := -1
	if r.Chance(15) {
		fail = r.Intn(5)
	}
	// a persisted head: the oldest canonical update at or below fin (alone in its block), or older than everything
	if r.Chance(25) {
		switch {
		case len(canon) > 0 && canon[0].L1 <= fin && blocks[canon[0].L1] == 1 && r.Bool():
			h := canon[0]
			cs.H0 = &h
		case len(canon) == 0 || canon[0].L2 > 0:
			// nothing canonical at its block would violate h0_anchored; only usable without canonical events
			if len(canon) == 0 {
				cs.H0 = nil
			}
		}
	}
	cs.Steps = append(cs.Steps, Step{K: 'C', Latest: latest, Fin1: fin, Fin2: fin2, Fail: fail, Canon: canon})
	// afterwards: polls and live events above everything seen so far
	cur, h := fin2, latest
	for n := r.Intn(5); n > 0; n-- {
		switch r.Intn(3) {
		case 0:
			h += 1 + uint64(r.Intn(3))
			id++
			l2 += uint64(r.Intn(3))
			cs.Steps = append(cs.Steps, Step{K: 'U', E: Ev{h, l2, id}})
		case 1:
			cs.Steps = append(cs.Steps, Step{K: 'S'})
		default:
			if h > cur {
				cur += uint64(r.Intn(int(h-cur) + 1))
			}
			cs.Steps = append(cs.Steps, Step{K: 'T', Fin: cur})
		}
	}
	if h > cur && r.Bool() {
		cur = h
	}
	cs.Steps = append(cs.Steps, Step{K: 'T', Fin: cur})
	return cs
}
