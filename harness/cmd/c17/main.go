// C17 harness: juno's L1 head tracking (l1.Client) against the extracted Coq model.
//
//	mode A (deterministic): applyStateUpdate / setL1Head / catchUpL1HeadUpdates driven one step at a
//	       time through the verif-tagged wrappers; head, buffer and catch-up outcome compared with
//	       the model after every step; the extracted predicates evaluated on the observed heads.
//	mode B (run loop): Client.Run in a goroutine against a scripted provider; heads compared at ticks.
//	mode C (geth adapter): mode A with every live event, subscription error and catch-up log going
//	       through the real forwardStateUpdates / stateUpdateFromGethContract; the forwarded events are
//	       compared with the extracted adapter model, the predicates are evaluated on the geth-level stream.
package main

import (
	"fmt"

	"verifharness/hx"
)

const rule = "model == implementation on head, buffer and catch-up outcome after every step; extracted predicates head_spec / never_above_finalised / monotone_l2 hold on the implementation's observations whenever the trace satisfies the environment assumptions"

type runner struct {
	c        *hx.Ctx
	or       *hx.Oracle
	reported map[string]bool
}

func (rn *runner) reportDet(cs *Case, res *evalRes) {
	for _, v := range res.verdicts {
		if rn.reported[v.class] {
			continue
		}
		rn.reported[v.class] = true
		small := shrinkDet(rn.or, cs, v.class)
		sres := evalDet(rn.or, small)
		w := sres.has(v.class)
		if w == nil { // cannot happen: shrinkDet only keeps cases where the class fires
			small, sres, w = cs, res, &v
		}
		mode := "det"
		if small.Fwd {
			mode = "fwd"
		}
		if small.Node {
			mode = "node"
		}
		rp := small.replay(mode)
		rp.Line, rp.Reply = sres.line, sres.reply
		rn.c.Violation(w.class, fmt.Sprintf("%s on: %s", w.what, sres.line), rp, w.noInput)
	}
}

func (rn *runner) reportRun(cs *Case, res *evalRes) {
	for _, v := range res.verdicts {
		if rn.reported[v.class] {
			continue
		}
		rn.reported[v.class] = true
		rp := cs.replay("run")
		rp.Line, rp.Reply = res.line, res.reply
		rn.c.Violation(v.class, fmt.Sprintf("%s on: %s", v.what, res.line), rp, v.noInput)
	}
}

func hasMulti(cs *Case) bool {
	if cs.Multi > 0 {
		return true
	}
	for i := 1; i < len(cs.Steps); i++ {
		if a, b := cs.Steps[i-1], cs.Steps[i]; a.K == 'U' && b.K == 'U' && a.E.L1 == b.E.L1 {
			return true
		}
	}
	return false
}

// histogram bookkeeping common to both modes
func (rn *runner) account(cs *Case, res *evalRes) {
	c := rn.c
	c.Hist["gen:"+cs.Gen]++
	c.Hist["geth-adapter:events-delivered-adjacently"] += res.adjacent
	c.Hist["geth-adapter:log-directly-followed-by-its-own-removal"] += res.ownRemoval
	hasRC := false
	for _, s := range cs.Steps {
		c.Hist["in:"+string(s.K)]++
		if s.K == 'R' || s.K == 'C' {
			hasRC = true
		}
	}
	if cs.H0 != nil {
		c.Hist["case:h0"]++
	}
	envOK := len(res.recs) > 0 && res.recs[len(res.recs)-1].Env
	if envOK {
		c.Hist["case:env-ok"]++
		c.Hist[cs.Gen+":env-ok"]++
	} else {
		c.Hist["case:env-broken"]++
		c.Hist[cs.Gen+":env-broken"]++
		if cs.Gen == "g1" { // g1 leaves the assumptions only by a start-up catch-up whose finalised height goes backwards
			if s := cs.Steps[0]; s.K == 'C' && s.Fin1 > s.Fin2 {
				c.Hist["g1:env-broken:fin-backwards"]++
			} else {
				c.Hist["g1:env-broken:other"]++
				c.Sample(map[string]string{"mode": "g1-env-broken-unexpected", "gen": cs.Gen, "line": res.line, "reply": res.reply})
			}
		}
	}
	c.Hist["reorg"] += cs.Reorgs
	c.Hist["multi-event-block"] += cs.Multi
	c.Hist["commit:head-changed"] += res.commitMoved
	c.Hist["catchup:failed"] += res.cuFailed
	c.Hist["catchup:ok"] += res.cuOK
	for k, n := range res.outside {
		c.Hist[k] += n
	}
	c.Count(cs.key(), res.headChanges > 0 && (hasRC || hasMulti(cs)))
}

func main() {
	c := hx.NewCtx("C17")
	or := hx.StartOracle(c.OraclePath)
	defer or.Close()
	rn := &runner{c: c, or: or, reported: map[string]bool{}}

	if c.ReplayIn != "" {
		var rp Replay
		c.LoadReplay(&rp)
		cs := caseOfReplay(&rp)
		var res *evalRes
		if rp.Mode == "run" {
			res, _ = evalRun(or, cs, hx.NewRNG(c.Seed))
			fmt.Printf("replay (run loop): %s\nreply: %s\n", res.line, res.reply)
			rn.reportRun(cs, res)
		} else {
			res = evalDet(or, cs)
			fmt.Printf("replay: %s\nreply: %s\n", res.line, res.reply)
			rn.reportDet(cs, res)
		}
		c.Count(cs.key(), true)
		c.Finish("replay of one recorded case")
	}

	nDet, nRun := 24000, 600
	if c.Thorough() {
		nDet, nRun = 240000, 6000
	}
	r := hx.NewRNG(c.Seed)

	// ---------- mode A ----------
	for i := 0; i < nDet; i++ {
		cr := r.Fork(uint64(i))
		var cs *Case
		switch x := cr.Intn(100); {
		case x < 55:
			cs = genG1(cr, false, 5+cr.Intn(36))
		case x < 75:
			cs = genG3(cr)
		default:
			cs = genG2(cr)
		}
		res := evalDet(or, cs)
		rn.account(cs, res)
		if i%1000 == 7 {
			c.Sample(map[string]string{"mode": "det", "gen": cs.Gen, "line": res.line, "reply": res.reply})
		}
		if len(res.verdicts) > 0 {
			rn.reportDet(cs, res)
		}
	}
	c.Extra["cases_deterministic"] = nDet

	// ---------- mode C: the same driving, through the real geth adapter ----------
	nFwd := nDet / 8
	for i := 0; i < nFwd; i++ {
		cr := r.Fork(uint64(2_000_000 + i))
		var cs *Case
		switch x := cr.Intn(100); {
		case x < 60:
			cs = genG1(cr, false, 5+cr.Intn(25))
		case x < 80:
			cs = genG3(cr)
		default:
			cs = genG2(cr)
		}
		cs.Fwd = true
		res := evalDet(or, cs)
		c.Hist["mode:geth-adapter"]++
		rn.account(cs, res)
		if i%500 == 11 {
			c.Sample(map[string]string{"mode": "fwd", "gen": cs.Gen, "line": res.line, "reply": res.reply})
		}
		if len(res.verdicts) > 0 {
			rn.reportDet(cs, res)
		}
	}
	c.Extra["cases_geth_adapter"] = nFwd

	// ---------- mode D: the real GethL1StateProvider against a scripted Ethereum JSON-RPC node ----------
	nNode, nProv, nLoop := nDet/60, nDet/400, nDet/400
	for i := 0; i < nNode; i++ {
		cr := r.Fork(uint64(3_000_000 + i))
		var cs *Case
		switch x := cr.Intn(100); {
		case x < 40:
			cs = genG1(cr, false, 5+cr.Intn(20))
		case x < 85:
			cs = genG3(cr)
		default:
			cs = genG2(cr)
		}
		cs.Node = true
		withNullPolls(cs, cr)
		res := evalDet(or, cs)
		c.Hist["mode:geth-node"]++
		if res.unconfirmed {
			c.Hist["mode:geth-node:unconfirmed-rerun"]++
		}
		rn.account(cs, res)
		if i%100 == 5 {
			c.Sample(map[string]string{"mode": "node", "gen": cs.Gen, "line": res.line, "reply": res.reply})
		}
		if len(res.verdicts) > 0 {
			rn.reportDet(cs, res)
		}
	}
	for i := 0; i < nProv; i++ {
		for _, f := range providerChecks(r.Fork(uint64(4_000_000 + i))) {
			if !rn.reported[f.class] {
				rn.reported[f.class] = true
				c.Violation(f.class, f.what, map[string]any{"mode": "provider", "seed": c.Seed, "index": i}, false)
			}
		}
		c.Hist["mode:geth-node:provider-checks"]++
		c.Count(fmt.Sprintf("provider-check-%d", i), true)
	}
	for i := 0; i < nLoop; i++ {
		cs, res := evalNodeLoop(or, r.Fork(uint64(5_000_000+i)))
		c.Hist["mode:geth-node:run"]++
		rn.account(cs, res)
		if len(res.verdicts) > 0 {
			rn.reportRun(cs, res)
		}
	}
	c.Extra["cases_geth_node"] = map[string]int{"deterministic": nNode, "provider_checks": nProv, "run_loop": nLoop}

	// ---------- mode B ----------
	for i := 0; i < nRun; i++ {
		cr := r.Fork(uint64(1_000_000 + i))
		cs := genG1(cr, true, 3+cr.Intn(6))
		res, o := evalRun(or, cs, cr)
		c.Hist["mode:run"]++
		c.Hist["run:suberr"] += o.subErrs
		c.Hist["run:watch-failures"] += o.watchFailures
		if cs.Steps[0].Fail >= 0 {
			c.Hist["run:catchup-scripted-failure"]++
		}
		rn.account(cs, res)
		if i%60 == 3 {
			c.Sample(map[string]string{"mode": "run", "gen": cs.Gen, "line": res.line, "reply": res.reply})
		}
		if len(res.verdicts) > 0 {
			rn.reportRun(cs, res)
		}
	}
	c.Extra["cases_runloop"] = nRun

	c.Finish(rule)
}
