// node.go — a scripted Ethereum execution node speaking JSON-RPC over a websocket (go-ethereum's own
// rpc.Server): eth_chainId, eth_blockNumber, eth_getBlockByNumber (latest / safe / finalized incl.
// null answers), eth_getLogs (with scripted failures), eth_subscribe("logs") with removed flags,
// eth_getTransactionReceipt. The REAL l1.GethL1StateProvider is dialled to it.
package main

import (
	"context"
	"errors"
	"math/big"
	"net/http/httptest"
	"strings"
	"sync"

	"github.com/NethermindEth/juno/l1"
	"github.com/NethermindEth/juno/l1/eth"
	"github.com/ethereum/go-ethereum/common"
	"github.com/ethereum/go-ethereum/common/hexutil"
	"github.com/ethereum/go-ethereum/core/types"
	"github.com/ethereum/go-ethereum/rpc"
)

// keccak256("LogStateUpdate(uint256,int256,uint256)")
const logStateUpdateTopic = "0xd342ddf7a308dec111745b00315c14b7efb2bdae570a6856e088ed0c65a3576c"

func word(v uint64) []byte { return common.LeftPadBytes(new(big.Int).SetUint64(v).Bytes(), 32) }

// the ABI-encoded LogStateUpdate log of an event
func (e Ev) rawLog(removed bool) types.Log {
	var data []byte
	data = append(data, word(e.ID+rootOffset)...) // globalRoot
	data = append(data, word(e.L2)...)            // blockNumber
	data = append(data, word(e.ID)...)            // blockHash
	return types.Log{
		Topics:      []common.Hash{common.HexToHash(logStateUpdateTopic)},
		Data:        data,
		BlockNumber: e.L1,
		TxHash:      common.BigToHash(new(big.Int).SetUint64(e.ID + 7_000_000)),
		BlockHash:   common.BigToHash(new(big.Int).SetUint64(e.L1 + 9_000_000)),
		Removed:     removed,
	}
}

type nodeSub struct {
	ch   chan types.Log
	done chan struct{}
}

type ethNode struct {
	mu         sync.Mutex
	latest     uint64
	safe       uint64
	finQ       []*uint64 // answers to "finalized": popped, the last one sticks; nil entry = JSON null
	logs       []types.Log
	failAt     int // index of the eth_getLogs call that fails (-1: none)
	logCalls   int
	finalCalls int
	safeCalls  int
	subs       []*nodeSub
	receipts   map[common.Hash]*types.Receipt

	server *rpc.Server
	ts     *httptest.Server
}

type ethAPI struct{ n *ethNode }

type logFilter struct {
	FromBlock *rpc.BlockNumber `json:"fromBlock"`
	ToBlock   *rpc.BlockNumber `json:"toBlock"`
}

func (a *ethAPI) ChainId() *hexutil.Big { return (*hexutil.Big)(big.NewInt(1)) } //nolint:revive,staticcheck

func (a *ethAPI) BlockNumber() hexutil.Uint64 {
	a.n.mu.Lock()
	defer a.n.mu.Unlock()
	return hexutil.Uint64(a.n.latest)
}

func (a *ethAPI) GetBlockByNumber(tag rpc.BlockNumber, _ bool) any {
	n := a.n
	n.mu.Lock()
	defer n.mu.Unlock()
	var number uint64
	switch tag {
	case rpc.FinalizedBlockNumber:
		n.finalCalls++
		if len(n.finQ) == 0 {
			return nil
		}
		v := n.finQ[0]
		if len(n.finQ) > 1 {
			n.finQ = n.finQ[1:]
		}
		if v == nil {
			return nil // JSON null: the node has no finalised block
		}
		number = *v
	case rpc.SafeBlockNumber:
		n.safeCalls++
		number = n.safe
	case rpc.LatestBlockNumber:
		number = n.latest
	default:
		if tag < 0 {
			return nil
		}
		number = uint64(tag)
	}
	return &types.Header{Number: new(big.Int).SetUint64(number), Difficulty: new(big.Int)}
}

func (a *ethAPI) GetLogs(crit logFilter) ([]types.Log, error) {
	n := a.n
	n.mu.Lock()
	defer n.mu.Unlock()
	i := n.logCalls
	n.logCalls++
	if i == n.failAt {
		return nil, errors.New("scripted eth_getLogs failure")
	}
	from, to := uint64(0), n.latest
	if crit.FromBlock != nil && *crit.FromBlock >= 0 {
		from = uint64(*crit.FromBlock)
	}
	if crit.ToBlock != nil && *crit.ToBlock >= 0 {
		to = uint64(*crit.ToBlock)
	}
	out := []types.Log{}
	for _, l := range n.logs {
		if l.BlockNumber >= from && l.BlockNumber <= to {
			out = append(out, l)
		}
	}
	return out, nil
}

// an unknown hash answers JSON null like a real node (a typed nil *types.Receipt would make the rpc
// package call the value method MarshalJSON through a nil pointer)
func (a *ethAPI) GetTransactionReceipt(h common.Hash) (any, error) {
	a.n.mu.Lock()
	defer a.n.mu.Unlock()
	if r := a.n.receipts[h]; r != nil {
		return r, nil
	}
	return nil, nil
}

// Logs serves eth_subscribe("logs", filter).
func (a *ethAPI) Logs(ctx context.Context, _ logFilter) (*rpc.Subscription, error) {
	notifier, ok := rpc.NotifierFromContext(ctx)
	if !ok {
		return nil, rpc.ErrNotificationsUnsupported
	}
	sub := notifier.CreateSubscription()
	ns := &nodeSub{ch: make(chan types.Log, 256), done: make(chan struct{})}
	a.n.mu.Lock()
	a.n.subs = append(a.n.subs, ns)
	a.n.mu.Unlock()
	go func() {
		defer close(ns.done)
		for {
			select {
			case l := <-ns.ch:
				_ = notifier.Notify(sub.ID, l)
			case <-sub.Err():
				return
			}
		}
	}()
	return sub, nil
}

// push sends a log notification to every live subscription (a mined or reorged LogStateUpdate).
func (n *ethNode) push(l types.Log) {
	n.mu.Lock()
	subs := append([]*nodeSub(nil), n.subs...)
	n.mu.Unlock()
	for _, s := range subs {
		select {
		case s.ch <- l:
		case <-s.done:
		}
	}
}

func (n *ethNode) liveSubs() int {
	n.mu.Lock()
	defer n.mu.Unlock()
	c := 0
	for _, s := range n.subs {
		select {
		case <-s.done:
		default:
			c++
		}
	}
	return c
}

func (n *ethNode) set(f func()) {
	n.mu.Lock()
	defer n.mu.Unlock()
	f()
}

func u64p(v uint64) *uint64 { return &v }

// startNode serves the node on a websocket and dials the real provider to it.
func startNode(ctx context.Context, opts ...l1.GethL1StateProviderOption) (*ethNode, *l1.GethL1StateProvider, error) {
	n := &ethNode{failAt: -1, receipts: map[common.Hash]*types.Receipt{}}
	n.server = rpc.NewServer()
	if err := n.server.RegisterName("eth", &ethAPI{n: n}); err != nil {
		return nil, nil, err
	}
	n.ts = httptest.NewServer(n.server.WebsocketHandler([]string{"*"}))
	url := "ws" + strings.TrimPrefix(n.ts.URL, "http")
	p, err := l1.NewGethL1StateProvider(ctx, url, eth.Address{}, opts...)
	if err != nil {
		n.stop()
		return nil, nil, err
	}
	return n, p, nil
}

func (n *ethNode) stop() {
	n.server.Stop()
	n.ts.Close()
}
