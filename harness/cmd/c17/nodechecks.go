// nodechecks.go — mode D, the rest: null-finalised polls inserted into cases, direct checks of every
// GethL1StateProvider method against the scripted node, and the real Client.Run loop on the real provider.
package main

import (
	"context"
	"errors"
	"fmt"
	"math/big"
	"strings"
	"time"

	"github.com/NethermindEth/juno/blockchain"
	"github.com/NethermindEth/juno/blockchain/networks"
	"github.com/NethermindEth/juno/db/memory"
	"github.com/NethermindEth/juno/l1"
	"github.com/NethermindEth/juno/l1/eth"
	"github.com/ethereum/go-ethereum/common"
	"github.com/ethereum/go-ethereum/core/types"
	"verifharness/hx"
)

// withNullPolls inserts up to three N steps after position 0: the node answers "finalized" with null
// three times (safe head at or above everything seen so far), then with the highest height it had
// reported before (0 if none). For the model that is a poll with that height.
func withNullPolls(cs *Case, r *hx.RNG) {
	var out []Step
	var top, lastFin uint64
	n := 0
	for i, s := range cs.Steps {
		out = append(out, s)
		switch s.K {
		case 'U', 'R':
			if s.E.L1 > top {
				top = s.E.L1
			}
		case 'T':
			if s.Fin > top {
				top = s.Fin
			}
			if s.Fin > lastFin {
				lastFin = s.Fin
			}
		case 'C':
			if s.Latest > top {
				top = s.Latest
			}
			if s.Fin2 > lastFin {
				lastFin = s.Fin2
			}
			if s.Fin1 > lastFin {
				lastFin = s.Fin1
			}
		}
		if i+1 < len(cs.Steps) && n < 3 && r.Chance(12) {
			out = append(out, Step{K: 'N', Fin: top + uint64(r.Intn(3)), Fin1: lastFin})
			n++
		}
	}
	cs.Steps = out
}

type provFinding struct{ class, what string }

// providerChecks: one scripted node state, every provider method compared with what the node holds.
func providerChecks(r *hx.RNG) (out []provFinding) {
	ctx, cancel := context.WithTimeout(context.Background(), 20*time.Second)
	defer cancel()
	node, prov, err := startNode(ctx)
	if err != nil {
		hx.Fatalf("scripted Ethereum node: %v", err)
	}
	defer node.stop()
	defer prov.Close()
	bad := func(class, f string, a ...any) { out = append(out, provFinding{"geth-node:provider:" + class, fmt.Sprintf(f, a...)}) }

	fin := uint64(r.Intn(50))
	safe := fin + uint64(r.Intn(20))
	latest := safe + uint64(r.Intn(20))
	var evs []Ev
	var logs []types.Log
	for b, id := uint64(r.Intn(4)), uint64(1); b <= latest && len(evs) < 8; b += uint64(r.Intn(12)) {
		for n := 1 + r.Intn(2); n > 0; n-- {
			e := Ev{b, id / 2, id}
			evs, logs, id = append(evs, e), append(logs, e.rawLog(false)), id+1
		}
	}
	hasFin := r.Chance(60)
	node.set(func() {
		node.latest, node.safe, node.logs = latest, safe, logs
		node.finQ = []*uint64{nil}
		if hasFin {
			node.finQ = []*uint64{u64p(fin)}
		}
	})
	state := fmt.Sprintf("node: latest=%d safe=%d finalized=%v(%d) logs=%v", latest, safe, hasFin, fin, evs)

	if id, err := prov.ChainID(ctx); err != nil || id.Cmp(big.NewInt(1)) != 0 {
		bad("chain-id", "ChainID = %v, %v; %s", id, err, state)
	}
	if h, err := prov.LatestHeight(ctx); err != nil || h != latest {
		bad("latest-height", "LatestHeight = %d, %v; %s", h, err, state)
	}
	h, err := prov.FinalisedHeight(ctx)
	switch {
	case hasFin && (err != nil || h != fin):
		bad("finalised-height", "FinalisedHeight = %d, %v but the node calls block %d finalized; %s", h, err, fin, state)
	case !hasFin && err == nil:
		bad("finalised-height-without-finalised-block",
			"FinalisedHeight = %d although the node answers \"finalized\" with null; %s", h, state)
	case !hasFin && !errors.Is(err, eth.ErrNotFound):
		bad("finalised-height-error", "FinalisedHeight error %v is not eth.ErrNotFound; %s", err, state)
	}
	from := uint64(r.Intn(int(latest) + 1))
	to := from + uint64(r.Intn(int(latest-from)+1))
	var want []string
	for _, e := range evs {
		if from <= e.L1 && e.L1 <= to {
			want = append(want, fmt.Sprintf("U %d %d %d", e.L1, e.L2, e.ID))
		}
	}
	got, err := prov.FilterStateUpdate(ctx, from, to)
	if gt := fwdTexts(got); err != nil || (len(want) > 0 && gt != strings.Join(want, ",")) || (len(want) == 0 && len(got) != 0) {
		bad("filter", "FilterStateUpdate(%d,%d) = %s, %v; expected %v; %s", from, to, gt, err, want, state)
	}
	node.set(func() { node.failAt = node.logCalls })
	if _, err := prov.FilterStateUpdate(ctx, from, to); err == nil {
		bad("filter-error", "FilterStateUpdate hides an eth_getLogs error; %s", state)
	}
	// receipts (rpccore.L1Client side of the provider)
	txh := common.BigToHash(big.NewInt(int64(4242 + r.Intn(1000))))
	if len(logs) > 0 {
		rl := logs[r.Intn(len(logs))]
		rl.Removed = r.Bool()
		node.set(func() {
			node.receipts[txh] = &types.Receipt{TxHash: txh, Logs: []*types.Log{&rl}, BlockNumber: new(big.Int)}
		})
		rc, err := prov.TransactionReceipt(ctx, eth.Hash(txh))
		if err != nil || len(rc.Logs) != 1 || uint64(rc.Logs[0].BlockNumber) != rl.BlockNumber ||
			rc.Logs[0].Removed != rl.Removed || len(rc.Logs[0].Topics) != 1 ||
			common.Hash(rc.Logs[0].Topics[0]) != rl.Topics[0] || string(rc.Logs[0].Data) != string(rl.Data) {
			bad("receipt", "TransactionReceipt = %+v, %v; node holds log %+v", rc, err, rl)
		}
	}
	if _, err := prov.TransactionReceipt(ctx, eth.Hash(common.BigToHash(big.NewInt(1)))); !errors.Is(err, eth.ErrNotFound) {
		bad("receipt-not-found", "TransactionReceipt of an unknown hash: %v (want eth.ErrNotFound)", err)
	}
	// one-shot catch-up on a fresh client: nothing may be recorded without a finalised block
	network := networks.Mainnet
	chain := blockchain.New(memory.New(), &network)
	node.set(func() { node.failAt = -1 })
	cl := l1.NewClient(prov, chain, nopLog, l1.WithCatchUpChunkSize(uint64(1+r.Intn(30))))
	cerr := cl.VerifCatchUp(ctx)
	head, _ := observeHead(chain)
	var newest *Ev
	for i := range evs {
		if evs[i].L1 <= fin {
			newest = &evs[i]
		}
	}
	switch {
	case !hasFin && (cerr == nil || head != "-"):
		bad("catch-up-without-finalised-block", "catch-up returned %v and recorded head %s although nothing is finalised; %s", cerr, head, state)
	case hasFin && newest == nil && (cerr != nil || head != "-"):
		bad("catch-up", "catch-up: %v, head %s; expected no head; %s", cerr, head, state)
	case hasFin && newest != nil && (cerr != nil || head != fmt.Sprintf("%d:%d", newest.L2, newest.ID)):
		bad("catch-up", "catch-up: %v, head %s; expected %d:%d; %s", cerr, head, newest.L2, newest.ID, state)
	}
	return out
}
