// nodeloop.go — mode D, Run loop: the real Client.Run on the real GethL1StateProvider against the
// scripted node. Only live (never removed) logs, so that partially applied batches converge; the head
// is compared with the model at every poll point by "eventually equal, then stable".
package main

import (
	"context"
	"fmt"
	"time"

	"github.com/NethermindEth/juno/blockchain"
	"github.com/NethermindEth/juno/blockchain/networks"
	"github.com/NethermindEth/juno/db/memory"
	"github.com/NethermindEth/juno/l1"
	"github.com/ethereum/go-ethereum/core/types"
	"verifharness/hx"
)

// genNodeLoop: optional null-finalised start (the catch-up then fails before touching anything),
// otherwise a g3 catch-up; then batches of live logs above everything, each followed by a poll.
func genNodeLoop(r *hx.RNG) (cs *Case, nullStart bool, canon []Ev, latest uint64) {
	g := genG3(r)
	c0 := g.Steps[0]
	c0.Fail = -1
	canon, latest = c0.Canon, c0.Latest
	cs = &Case{Gen: "g3", Chunk: g.Chunk, Node: true, Multi: g.Multi}
	nullStart = r.Chance(40)
	cur := c0.Fin2
	if !nullStart {
		cs.Steps = append(cs.Steps, c0, Step{K: 'T', Fin: c0.Fin2})
	} else {
		cur = 0
	}
	h, id, l2 := latest, uint64(1000), uint64(500)
	for n := 1 + r.Intn(3); n > 0; n-- {
		for m := r.Intn(3); m > 0; m-- {
			h += 1 + uint64(r.Intn(3))
			id++
			l2 += uint64(r.Intn(3))
			cs.Steps = append(cs.Steps, Step{K: 'U', E: Ev{h, l2, id}})
		}
		if h > cur {
			cur += uint64(r.Intn(int(h-cur) + 1))
		}
		cs.Steps = append(cs.Steps, Step{K: 'T', Fin: cur})
	}
	return cs, nullStart, canon, latest
}

func evalNodeLoop(or *hx.Oracle, r *hx.RNG) (*Case, *evalRes) {
	cs, nullStart, canon, latest := genNodeLoop(r)
	res := &evalRes{outside: map[string]int{}}
	// the model's heads first: they are what the loop has to reach
	pre := parseReply(or.Ask(cs.line(nil), 1)[0], len(cs.Steps))

	ctx, cancel := context.WithCancel(context.Background())
	node, prov, err := startNode(ctx)
	if err != nil {
		hx.Fatalf("scripted Ethereum node: %v", err)
	}
	defer node.stop()
	logs := make([]types.Log, 0, len(canon))
	for _, e := range canon {
		logs = append(logs, e.rawLog(false))
	}
	safe := latest
	node.set(func() {
		node.logs, node.latest, node.safe = logs, latest, safe
		node.finQ = []*uint64{nil}
		if !nullStart {
			node.finQ = []*uint64{u64p(cs.Steps[0].Fin1), u64p(cs.Steps[0].Fin2)}
		}
	})
	network := networks.Mainnet
	chain := blockchain.New(memory.New(), &network)
	cl := l1.NewClient(prov, chain, nopLog, l1.WithCatchUpChunkSize(cs.Chunk),
		l1.WithPollFinalisedInterval(time.Millisecond), l1.WithResubscribeDelay(time.Millisecond))
	done := make(chan error, 1)
	go func() { done <- cl.Run(ctx) }()
	obs := make([]string, len(cs.Steps))
	fatal := func(class, what string, noInput bool) {
		res.verdicts = append(res.verdicts, verdict{"geth-node:run:" + class, what, noInput})
	}
	finCalls := func() int { node.mu.Lock(); defer node.mu.Unlock(); return node.finalCalls }
	settle := func(k int) bool { c0 := finCalls(); return waitFor(func() bool { return finCalls() >= c0+k }) }
	ok := waitFor(func() bool { return node.liveSubs() >= 1 })
	if !ok {
		fatal("stuck", "no eth_subscribe after start-up", true)
	}
	if ok && nullStart {
		settle(4)
		if h, _ := observeHead(chain); h != "-" {
			fatal("head-without-finalised-block", fmt.Sprintf(
				"the node reports NO finalised block (latest %d, safe %d, updates %v), yet Run recorded L1 head %s",
				latest, safe, canon, h), false)
			ok = false
		}
	}
	for i := 0; ok && i < len(cs.Steps); i++ {
		switch s := cs.Steps[i]; s.K {
		case 'U':
			node.set(func() { node.latest = s.E.L1 })
			node.push(s.E.rawLog(false))
		case 'T':
			node.set(func() { node.finQ = []*uint64{u64p(s.Fin)} })
			want := pre[i].MH
			reached := waitFor(func() bool { h, _ := observeHead(chain); return h == want })
			settle(3)
			h, torn := observeHead(chain)
			obs[i] = h
			if torn != "" {
				fatal("torn-head", torn, false)
			}
			if !reached || h != want {
				fatal("mismatch:head", fmt.Sprintf("step %d (%s): Run on the real provider shows head %s, model %s",
					i, s.Text(cs.Chunk), h, want), true)
				ok = false
			}
		}
	}
	cancel()
	select {
	case err := <-done:
		if err != nil {
			fatal("error", fmt.Sprintf("Run returned %v", err), true)
		}
	case <-time.After(waitTimeout):
		fatal("stuck", "Run did not return after cancellation", true)
	}
	res.heads = obs
	res.line = cs.line(obs)
	res.reply = or.Ask(res.line, 1)[0]
	res.recs = parseReply(res.reply, len(cs.Steps))
	for i, s := range cs.Steps {
		if obs[i] != "" {
			n := len(res.verdicts)
			predicateVerdicts(res, i, s.K, res.recs[i], obs[i], true)
			for j := n; j < len(res.verdicts); j++ {
				res.verdicts[j].class = "geth-node:" + res.verdicts[j].class
			}
			res.headChanges++
		}
	}
	return cs, res
}
