// nodemode.go — mode D (deterministic part): the model's histories against the REAL
// GethL1StateProvider (dialled to the scripted node of node.go) + real l1.Client + real Blockchain.
// Live logs travel node -> websocket -> abigen filterer -> forwardStateUpdates -> sink; catch-up and
// polls use the provider's real eth_blockNumber / eth_getBlockByNumber / eth_getLogs calls.
package main

import (
	"context"
	"fmt"
	"time"

	"github.com/NethermindEth/juno/blockchain"
	"github.com/NethermindEth/juno/blockchain/networks"
	"github.com/NethermindEth/juno/db/memory"
	"github.com/NethermindEth/juno/l1"
	"github.com/ethereum/go-ethereum/core/types"
	"verifharness/hx"
)

const nodeTimeout = 2 * time.Second

func runNode(cs *Case) *detObs {
	o := &detObs{tornAt: -1}
	ctx, cancel := context.WithCancel(context.Background())
	defer cancel()
	node, prov, err := startNode(ctx)
	if err != nil {
		hx.Fatalf("scripted Ethereum node: %v", err)
	}
	defer node.stop()
	defer prov.Close()
	network := networks.Mainnet
	chain := blockchain.New(memory.New(), &network)
	storeH0(chain, cs.H0)
	cl := l1.NewClient(prov, chain, nopLog,
		l1.WithCatchUpChunkSize(cs.Chunk), l1.WithResubscribeDelay(time.Millisecond))
	fsub := chain.SubscribeL1Head()
	defer fsub.Unsubscribe()
	prevHead, _ := observeHead(chain)
	problem := func(i int, kind, what string) {
		if what != "" {
			o.adapter = append(o.adapter, verdict{"geth-node:" + kind, fmt.Sprintf("step %d: %s", i, what), true})
		}
	}
	sink := make(chan *l1.StateUpdate, 64)
	sub, err := prov.WatchStateUpdate(ctx, sink)
	if err != nil {
		hx.Fatalf("WatchStateUpdate against the scripted node: %v", err)
	}
	// one log, then a sentinel live log: what arrives before the sentinel is what the provider made of it
	collect := func(l1log Ev, removed bool) (outs []*l1.StateUpdate, what string) {
		node.push(l1log.rawLog(removed))
		node.push(Ev{sentinelL1, 0, sentinelID}.rawLog(false))
		for {
			select {
			case u := <-sink:
				if u != nil && u.L1RefHeight == sentinelL1 {
					return outs, ""
				}
				outs = append(outs, u)
			case <-time.After(nodeTimeout):
				return outs, "the provider does not deliver a live log of the node"
			}
		}
	}
	var maxL1 uint64
	see := func(v uint64) {
		if v > maxL1 {
			maxL1 = v
		}
	}
	for i, s := range cs.Steps {
		cu, fo := -1, ""
		switch s.K {
		case 'U', 'R':
			see(s.E.L1)
			select { // a dropped subscription surfaces on Err(); the client resubscribes
			case e := <-sub.Err():
				problem(i, "subscription-dropped", fmt.Sprintf("the log subscription ended by itself: %v", e))
				if sub, err = prov.WatchStateUpdate(ctx, sink); err != nil {
					hx.Fatalf("WatchStateUpdate (resubscribe): %v", err)
				}
			default:
			}
			outs, what := collect(s.E, s.K == 'R')
			problem(i, "stuck", what)
			fo = fwdTexts(outs)
			for _, u := range outs {
				if u != nil {
					cl.VerifApply(u)
				}
			}
		case 'S': // the client drops the subscription and subscribes again
			sub.Unsubscribe()
			if !waitFor(func() bool { return node.liveSubs() == 0 }) {
				problem(i, "unsubscribe", "eth_unsubscribe never reached the node")
			}
			if sub, err = prov.WatchStateUpdate(ctx, sink); err != nil {
				hx.Fatalf("WatchStateUpdate (resubscribe): %v", err)
			}
			fo = "S"
		case 'T':
			see(s.Fin)
			node.set(func() { node.finQ, node.safe, node.latest = []*uint64{u64p(s.Fin)}, maxL1, maxL1+3 })
			if err := cl.VerifSetL1Head(ctx); err != nil {
				hx.Fatalf("setL1Head failed at step %d of %s: %v", i, cs.key(), err)
			}
		case 'N': // three null answers to "finalized" (safe head s.Fin), then s.Fin1
			see(s.Fin)
			node.set(func() {
				node.finQ, node.safe, node.latest = []*uint64{nil, nil, nil, u64p(s.Fin1)}, s.Fin, maxL1+3
			})
			if err := cl.VerifSetL1Head(ctx); err != nil {
				hx.Fatalf("setL1Head failed at step %d of %s: %v", i, cs.key(), err)
			}
		case 'C':
			see(s.Latest)
			logs := make([]types.Log, 0, len(s.Canon))
			for _, e := range s.Canon {
				logs = append(logs, e.rawLog(false))
			}
			node.set(func() {
				node.logs, node.latest, node.safe = logs, s.Latest, s.Latest
				node.finQ, node.failAt, node.logCalls = []*uint64{u64p(s.Fin1), u64p(s.Fin2)}, s.Fail, 0
			})
			if err := cl.VerifCatchUp(ctx); err != nil {
				cu = 0
			} else {
				cu = 1
			}
			node.set(func() { node.failAt = -1 })
		}
		h, torn := observeHead(chain)
		if torn != "" && o.torn == "" {
			o.torn, o.tornAt = torn, i
		}
		select {
		case fh := <-fsub.Recv():
			got := "nil"
			if fh != nil && fh.BlockHash != nil && isU64(fh.BlockHash) {
				got = fmt.Sprintf("%d:%d", fh.BlockNumber, fh.BlockHash.Uint64())
			}
			if got != h && o.feed == "" {
				o.feed = fmt.Sprintf("step %d: feed announced %s, stored head is %s", i, got, h)
			}
		default:
			if h != prevHead && o.feed == "" {
				o.feed = fmt.Sprintf("step %d: stored head changed %s -> %s without a feed event", i, prevHead, h)
			}
		}
		prevHead = h
		o.heads = append(o.heads, h)
		o.bufs = append(o.bufs, observeBuffer(cl))
		o.cuOK = append(o.cuOK, cu)
		o.fwdOut = append(o.fwdOut, fo)
	}
	sub.Unsubscribe()
	return o
}
