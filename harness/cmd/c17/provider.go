// provider.go — scripted l1.L1StateProvider implementations: detProvider (single goroutine, mode A)
// and runProvider (thread-safe, drives the real Run loop in mode B).
package main

import (
	"context"
	"errors"
	"math/big"
	"sync"

	"github.com/NethermindEth/juno/l1"
)

var errScripted = errors.New("scripted provider failure")

func inRange(canon []Ev, from, to uint64) []*l1.StateUpdate {
	var out []*l1.StateUpdate
	for _, e := range canon {
		if from <= e.L1 && e.L1 <= to {
			out = append(out, e.update(false))
		}
	}
	return out
}

// ---------- mode A ----------
type detProvider struct {
	chainID *big.Int
	finQ    []uint64 // FinalisedHeight pops; the last value sticks
	latest  uint64
	canon   []Ev
	failAt  int
	calls   int // FilterStateUpdate calls since the last C step
	decode  bool // mode C: logs decoded by the real stateUpdateFromGethContract
}

func (p *detProvider) ChainID(context.Context) (*big.Int, error) { return p.chainID, nil }

func (p *detProvider) FinalisedHeight(context.Context) (uint64, error) {
	if len(p.finQ) == 0 {
		return 0, errScripted
	}
	v := p.finQ[0]
	if len(p.finQ) > 1 {
		p.finQ = p.finQ[1:]
	}
	return v, nil
}

func (p *detProvider) LatestHeight(context.Context) (uint64, error) { return p.latest, nil }

func (p *detProvider) FilterStateUpdate(_ context.Context, from, to uint64) ([]*l1.StateUpdate, error) {
	i := p.calls
	p.calls++
	if i == p.failAt {
		return nil, errScripted
	}
	if p.decode {
		var out []*l1.StateUpdate
		for _, e := range p.canon {
			if from <= e.L1 && e.L1 <= to {
				out = append(out, l1.VerifDecode(e.gethLog(false)))
			}
		}
		return out, nil
	}
	return inRange(p.canon, from, to), nil
}

func (p *detProvider) WatchStateUpdate(context.Context, chan<- *l1.StateUpdate) (l1.Subscription, error) {
	return nil, errScripted
}

func (p *detProvider) Close() {}

// ---------- mode B ----------
type fakeSub struct {
	errCh chan error
	once  sync.Once
	done  chan struct{}
}

func newFakeSub() *fakeSub { return &fakeSub{errCh: make(chan error, 1), done: make(chan struct{})} }

func (s *fakeSub) Err() <-chan error { return s.errCh }
func (s *fakeSub) Unsubscribe()      { s.once.Do(func() { close(s.done) }) }

type runProvider struct {
	mu            sync.Mutex
	chainID       *big.Int
	latest        uint64
	fin1          uint64 // the first FinalisedHeight call (catch-up) sees this
	fin           uint64 // every later call sees this
	finCalls      int
	canon         []Ev
	failAt        int
	calls         int
	watchFailures int
	subscribed    int
	sink          chan<- *l1.StateUpdate
	sub           *fakeSub
	closed        int
}

func (p *runProvider) ChainID(context.Context) (*big.Int, error) { return p.chainID, nil }

func (p *runProvider) FinalisedHeight(context.Context) (uint64, error) {
	p.mu.Lock()
	defer p.mu.Unlock()
	p.finCalls++
	if p.finCalls == 1 {
		return p.fin1, nil
	}
	return p.fin, nil
}

func (p *runProvider) LatestHeight(context.Context) (uint64, error) {
	p.mu.Lock()
	defer p.mu.Unlock()
	return p.latest, nil
}

func (p *runProvider) FilterStateUpdate(_ context.Context, from, to uint64) ([]*l1.StateUpdate, error) {
	p.mu.Lock()
	defer p.mu.Unlock()
	i := p.calls
	p.calls++
	if i == p.failAt {
		return nil, errScripted
	}
	return inRange(p.canon, from, to), nil
}

func (p *runProvider) WatchStateUpdate(_ context.Context, sink chan<- *l1.StateUpdate) (l1.Subscription, error) {
	p.mu.Lock()
	defer p.mu.Unlock()
	if p.watchFailures > 0 {
		p.watchFailures--
		return nil, errScripted // NOTE: a nil Subscription together with the error
	}
	p.sink = sink
	p.sub = newFakeSub()
	p.subscribed++
	return p.sub, nil
}

func (p *runProvider) Close() {
	p.mu.Lock()
	p.closed++
	p.mu.Unlock()
}

// snapshot helpers used by the script
func (p *runProvider) nSubscribed() int {
	p.mu.Lock()
	defer p.mu.Unlock()
	return p.subscribed
}

func (p *runProvider) nFinCalls() int {
	p.mu.Lock()
	defer p.mu.Unlock()
	return p.finCalls
}

func (p *runProvider) current() (chan<- *l1.StateUpdate, *fakeSub) {
	p.mu.Lock()
	defer p.mu.Unlock()
	return p.sink, p.sub
}
