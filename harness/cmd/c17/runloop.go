// runloop.go — mode B: the real Client.Run loop in a goroutine, a thread-safe scripted provider,
// synchronisation at the T steps only.
package main

import (
	"context"
	"fmt"
	"time"

	"github.com/NethermindEth/juno/blockchain"
	"github.com/NethermindEth/juno/blockchain/networks"
	"github.com/NethermindEth/juno/db/memory"
	"github.com/NethermindEth/juno/l1"
	"verifharness/hx"
)

const waitTimeout = 5 * time.Second

func waitFor(cond func() bool) bool {
	deadline := time.Now().Add(waitTimeout)
	for !cond() {
		if time.Now().After(deadline) {
			return false
		}
		time.Sleep(200 * time.Microsecond)
	}
	return true
}

type runObs struct {
	obs           []string // per step: "" = not observed
	fatal         *verdict // run-loop-stuck / run-loop-error / torn-head
	subErrs       int
	watchFailures int
}

// runLoop executes cs (first step C, then the ticker's T fin2) against Client.Run.
func runLoop(cs *Case, r *hx.RNG) *runObs {
	if len(cs.Steps) == 0 || cs.Steps[0].K != 'C' {
		hx.Fatalf("run-loop case must start with a C step: %s", cs.key())
	}
	c0 := cs.Steps[0]
	network := networks.Mainnet
	chain := blockchain.New(memory.New(), &network)
	storeH0(chain, cs.H0)
	p := &runProvider{chainID: network.L1ChainID, latest: c0.Latest, fin1: c0.Fin1, fin: c0.Fin2,
		canon: c0.Canon, failAt: c0.Fail}
	cl := l1.NewClient(p, chain, nopLog,
		l1.WithPollFinalisedInterval(time.Millisecond),
		l1.WithResubscribeDelay(time.Millisecond),
		l1.WithCatchUpChunkSize(cs.Chunk))
	ctx, cancel := context.WithCancel(context.Background())
	done := make(chan error, 1)
	go func() { done <- cl.Run(ctx) }()

	o := &runObs{obs: make([]string, len(cs.Steps))}
	stuck := func(i int, what string) {
		o.fatal = &verdict{"run-loop-stuck", fmt.Sprintf("step %d: %s within %s", i, what, waitTimeout), true}
	}
	finish := func() *runObs {
		cancel()
		select {
		case err := <-done:
			if err != nil && o.fatal == nil {
				o.fatal = &verdict{"run-loop-error", fmt.Sprintf("Run returned %v after cancellation", err), true}
			}
		case <-time.After(waitTimeout):
			if o.fatal == nil {
				o.fatal = &verdict{"run-loop-stuck", "Run did not return after cancellation", true}
			}
		}
		return o
	}

	if !waitFor(func() bool { return p.nSubscribed() >= 1 }) {
		stuck(0, "no subscription after start-up")
		return finish()
	}
	for i := 1; i < len(cs.Steps); i++ {
		s := cs.Steps[i]
		switch s.K {
		case 'U', 'R':
			sink, _ := p.current()
			select {
			case sink <- s.E.update(s.K == 'R'):
			case <-time.After(waitTimeout):
				stuck(i, "update channel not drained")
				return finish()
			}
		case 'S':
			o.subErrs++
			n := r.Intn(3)
			o.watchFailures += n
			p.mu.Lock()
			p.watchFailures = n
			before := p.subscribed
			sub := p.sub
			p.mu.Unlock()
			sub.errCh <- errScripted
			if !waitFor(func() bool { return p.nSubscribed() > before }) {
				stuck(i, "no resubscription after a subscription error")
				return finish()
			}
		case 'T':
			sink, _ := p.current()
			if !waitFor(func() bool { return len(sink) == 0 }) {
				stuck(i, "update channel not drained")
				return finish()
			}
			p.mu.Lock()
			p.fin = s.Fin
			calls := p.finCalls
			p.mu.Unlock()
			// the second call from here on proves one complete setL1Head that saw s.Fin
			if !waitFor(func() bool { return p.nFinCalls() >= calls+2 }) {
				stuck(i, "ticker does not call FinalisedHeight")
				return finish()
			}
			h, torn := observeHead(chain)
			o.obs[i] = h
			if torn != "" && o.fatal == nil {
				o.fatal = &verdict{"torn-head", fmt.Sprintf("step %d: %s", i, torn), false}
			}
		case 'C':
			hx.Fatalf("run-loop case with a second C step: %s", cs.key())
		}
	}
	return finish()
}

func evalRun(or *hx.Oracle, cs *Case, r *hx.RNG) (*evalRes, *runObs) {
	o := runLoop(cs, r)
	res := &evalRes{heads: o.obs, outside: map[string]int{}}
	res.line = cs.line(o.obs)
	res.reply = or.Ask(res.line, 1)[0]
	res.recs = parseReply(res.reply, len(cs.Steps))
	if o.fatal != nil {
		res.verdicts = append(res.verdicts, *o.fatal)
		if o.fatal.class == "run-loop-stuck" {
			return res, o // observations are incomplete
		}
	}
	prev := "-"
	if cs.H0 != nil {
		prev = fmt.Sprintf("%d:%d", cs.H0.L2, cs.H0.ID)
	}
	for i, s := range cs.Steps {
		if o.obs[i] == "" {
			continue
		}
		rec := res.recs[i]
		if o.obs[i] != rec.MH {
			res.verdicts = append(res.verdicts, verdict{"run-loop-mismatch:head",
				fmt.Sprintf("step %d (%s): Run loop shows head %s, model %s", i, s.Text(cs.Chunk), o.obs[i], rec.MH), true})
		}
		predicateVerdicts(res, i, s.K, rec, o.obs[i], true)
		if o.obs[i] != prev {
			res.headChanges++
			res.commitMoved++
		}
		prev = o.obs[i]
	}
	return res, o
}
