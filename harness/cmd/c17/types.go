// C17: L1 head tracking (l1/l1.go) against the extracted Coq model (coq/theories/C17/Model.v).
// types.go — events, steps, cases, the textual forms shared with the oracle, observations.
package main

import (
	"errors"
	"fmt"
	"sort"
	"strconv"
	"strings"

	"github.com/NethermindEth/juno/blockchain"
	"github.com/NethermindEth/juno/core"
	"github.com/NethermindEth/juno/core/felt"
	"github.com/NethermindEth/juno/db"
	"github.com/NethermindEth/juno/l1"
	"verifharness/hx"
)

const rootOffset = 1_000_000 // StateRoot = felt(id + rootOffset)

// Ev is one LogStateUpdate event: L1 block, L2 block number, id (stands for hash and root).
type Ev struct{ L1, L2, ID uint64 }

func (e Ev) String() string { return fmt.Sprintf("%d:%d:%d", e.L1, e.L2, e.ID) }

func parseEv(s string) (Ev, error) {
	f := strings.Split(strings.TrimSpace(s), ":")
	if len(f) != 3 {
		return Ev{}, fmt.Errorf("event %q", s)
	}
	var v [3]uint64
	for i := range f {
		x, err := strconv.ParseUint(f[i], 10, 32)
		if err != nil {
			return Ev{}, fmt.Errorf("event %q: %v", s, err)
		}
		v[i] = x
	}
	return Ev{v[0], v[1], v[2]}, nil
}

func feltOf(x uint64) felt.Felt {
	var f felt.Felt
	f.SetUint64(x)
	return f
}

func (e Ev) update(removed bool) *l1.StateUpdate {
	return &l1.StateUpdate{
		L2BlockNumber: e.L2,
		L2BlockHash:   feltOf(e.ID),
		StateRoot:     feltOf(e.ID + rootOffset),
		L1RefHeight:   e.L1,
		Removed:       removed,
	}
}

// Step is one input of the model: U | R | T | C | S.
type Step struct {
	K                  byte
	E                  Ev     // U, R
	Fin                uint64 // T
	Latest, Fin1, Fin2 uint64 // C
	Fail               int    // C: -1 = no failing FilterStateUpdate call
	Canon              []Ev   // C
}

func (s Step) String() string {
	switch s.K {
	case 'U', 'R':
		return fmt.Sprintf("%c %d %d %d", s.K, s.E.L1, s.E.L2, s.E.ID)
	case 'T':
		return fmt.Sprintf("T %d", s.Fin)
	case 'S':
		return "S"
	case 'C':
		fail := "-"
		if s.Fail >= 0 {
			fail = strconv.Itoa(s.Fail)
		}
		evs := "-"
		if len(s.Canon) > 0 {
			p := make([]string, len(s.Canon))
			for i, e := range s.Canon {
				p[i] = e.String()
			}
			evs = strings.Join(p, ",")
		}
		return fmt.Sprintf("C %d %d %d %s %d %s", s.Latest, s.Fin1, 0, fail, s.Fin2, evs)
	}
	panic("step kind")
}

// text with the case's chunk size filled in (the chunk size is a property of the client)
func (s Step) Text(chunk uint64) string {
	if s.K != 'C' {
		return s.String()
	}
	f := strings.Fields(s.String())
	f[3] = strconv.FormatUint(chunk, 10)
	return strings.Join(f, " ")
}

func parseStep(txt string) (Step, uint64, error) {
	f := strings.Fields(txt)
	bad := func() (Step, uint64, error) { return Step{}, 0, fmt.Errorf("step %q", txt) }
	if len(f) == 0 {
		return bad()
	}
	num := func(s string) uint64 {
		x, err := strconv.ParseUint(s, 10, 32)
		if err != nil {
			hx.Fatalf("step %q: %v", txt, err)
		}
		return x
	}
	switch f[0] {
	case "U", "R":
		if len(f) != 4 {
			return bad()
		}
		return Step{K: f[0][0], E: Ev{num(f[1]), num(f[2]), num(f[3])}}, 0, nil
	case "T":
		if len(f) != 2 {
			return bad()
		}
		return Step{K: 'T', Fin: num(f[1])}, 0, nil
	case "S":
		return Step{K: 'S'}, 0, nil
	case "C":
		if len(f) != 7 {
			return bad()
		}
		st := Step{K: 'C', Latest: num(f[1]), Fin1: num(f[2]), Fin2: num(f[5]), Fail: -1}
		if f[4] != "-" {
			st.Fail = int(num(f[4]))
		}
		if f[6] != "-" {
			for _, p := range strings.Split(f[6], ",") {
				e, err := parseEv(p)
				if err != nil {
					return bad()
				}
				st.Canon = append(st.Canon, e)
			}
		}
		return st, num(f[3]), nil
	}
	return bad()
}
