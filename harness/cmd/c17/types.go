// C17: L1 head tracking (l1/l1.go) against the extracted Coq model (coq/theories/C17/Model.v).
// types.go — events, steps, cases, the textual forms shared with the oracle, observations.
package main

import (
	"errors"
	"fmt"
	"sort"
	"strconv"
	"strings"

	"github.com/NethermindEth/juno/blockchain"
	"github.com/NethermindEth/juno/core"
	"github.com/NethermindEth/juno/core/felt"
	"github.com/NethermindEth/juno/db"
	"github.com/NethermindEth/juno/l1"
	"verifharness/hx"
)

const rootOffset = 1_000_000 // StateRoot = felt(id + rootOffset)

// Ev is one LogStateUpdate event: L1 block, L2 block number, id (stands for hash and root).
type Ev struct{ L1, L2, ID uint64 }

func (e Ev) String() string { return fmt.Sprintf("%d:%d:%d", e.L1, e.L2, e.ID) }

func parseEv(s string) (Ev, error) {
	f := strings.Split(strings.TrimSpace(s), ":")
	if len(f) != 3 {
		return Ev{}, fmt.Errorf("event %q", s)
	}
	var v [3]uint64
	for i := range f {
		x, err := strconv.ParseUint(f[i], 10, 32)
		if err != nil {
			return Ev{}, fmt.Errorf("event %q: %v", s, err)
		}
		v[i] = x
	}
	return Ev{v[0], v[1], v[2]}, nil
}

func feltOf(x uint64) felt.Felt {
	var f felt.Felt
	f.SetUint64(x)
	return f
}

func isU64(f *felt.Felt) bool {
	g := feltOf(f.Uint64())
	return g.Equal(f)
}

func (e Ev) update(removed bool) *l1.StateUpdate {
	return &l1.StateUpdate{
		L2BlockNumber: e.L2,
		L2BlockHash:   feltOf(e.ID),
		StateRoot:     feltOf(e.ID + rootOffset),
		L1RefHeight:   e.L1,
		Removed:       removed,
	}
}

// Step is one input of the model: U | R | T | C | S.
type Step struct {
	K                  byte
	E                  Ev     // U, R
	Fin                uint64 // T
	Latest, Fin1, Fin2 uint64 // C
	Fail               int    // C: -1 = no failing FilterStateUpdate call
	Canon              []Ev   // C
}

func (s Step) String() string {
	switch s.K {
	case 'U', 'R':
		return fmt.Sprintf("%c %d %d %d", s.K, s.E.L1, s.E.L2, s.E.ID)
	case 'T':
		return fmt.Sprintf("T %d", s.Fin)
	case 'S':
		return "S"
	case 'N': // node mode only: a poll during which the node first has NO finalised block (three null
		// answers, safe head = Fin) and then reports Fin1, a height it had reported before; model: T Fin1
		return fmt.Sprintf("N %d %d", s.Fin, s.Fin1)
	case 'C':
		fail := "-"
		if s.Fail >= 0 {
			fail = strconv.Itoa(s.Fail)
		}
		evs := "-"
		if len(s.Canon) > 0 {
			p := make([]string, len(s.Canon))
			for i, e := range s.Canon {
				p[i] = e.String()
			}
			evs = strings.Join(p, ",")
		}
		return fmt.Sprintf("C %d %d %d %s %d %s", s.Latest, s.Fin1, 0, fail, s.Fin2, evs)
	}
	panic("step kind")
}

// text with the case's chunk size filled in (the chunk size is a property of the client)
func (s Step) Text(chunk uint64) string {
	if s.K != 'C' {
		return s.String()
	}
	f := strings.Fields(s.String())
	f[3] = strconv.FormatUint(chunk, 10)
	return strings.Join(f, " ")
}

func parseStep(txt string) (Step, uint64, error) {
	f := strings.Fields(txt)
	bad := func() (Step, uint64, error) { return Step{}, 0, fmt.Errorf("step %q", txt) }
	if len(f) == 0 {
		return bad()
	}
	num := func(s string) uint64 {
		x, err := strconv.ParseUint(s, 10, 32)
		if err != nil {
			hx.Fatalf("step %q: %v", txt, err)
		}
		return x
	}
	switch f[0] {
	case "U", "R":
		if len(f) != 4 {
			return bad()
		}
		return Step{K: f[0][0], E: Ev{num(f[1]), num(f[2]), num(f[3])}}, 0, nil
	case "T":
		if len(f) != 2 {
			return bad()
		}
		return Step{K: 'T', Fin: num(f[1])}, 0, nil
	case "S":
		return Step{K: 'S'}, 0, nil
	case "N":
		if len(f) != 3 {
			return bad()
		}
		return Step{K: 'N', Fin: num(f[1]), Fin1: num(f[2])}, 0, nil
	case "C":
		if len(f) != 7 {
			return bad()
		}
		st := Step{K: 'C', Latest: num(f[1]), Fin1: num(f[2]), Fin2: num(f[5]), Fail: -1}
		if f[4] != "-" {
			st.Fail = int(num(f[4]))
		}
		if f[6] != "-" {
			for _, p := range strings.Split(f[6], ",") {
				e, err := parseEv(p)
				if err != nil {
					return bad()
				}
				st.Canon = append(st.Canon, e)
			}
		}
		return st, num(f[3]), nil
	}
	return bad()
}

// Case: optional stored head, the client's chunk size, the steps.
type Case struct {
	H0    *Ev
	Chunk uint64
	Steps []Step
	Fwd   bool // mode C: live events and catch-up logs go through the real geth adapter
	Node  bool // mode D: real GethL1StateProvider against a scripted Ethereum JSON-RPC node
	// generator statistics (not part of the case)
	Gen    string
	Reorgs int
	Multi  int
}

func (c *Case) h0Text() string {
	if c.H0 == nil {
		return "-"
	}
	return c.H0.String()
}

func (c *Case) stepTexts() []string {
	out := make([]string, len(c.Steps))
	for i, s := range c.Steps {
		out[i] = s.Text(c.Chunk)
	}
	return out
}

// the oracle line; obs[i] = observation after step i ("?" when nil or missing)
func (c *Case) line(obs []string) string {
	parts := make([]string, len(c.Steps))
	for i, s := range c.Steps {
		o := "?"
		if i < len(obs) && obs[i] != "" {
			o = obs[i]
		}
		txt := s.Text(c.Chunk)
		if s.K == 'N' {
			txt = fmt.Sprintf("T %d", s.Fin1) // the null answers are invisible to the client
		}
		parts[i] = txt + " @ " + o
	}
	return c.h0Text() + " | " + strings.Join(parts, " ; ")
}

// input-only form (no observations): identifies the case
func (c *Case) key() string {
	return c.h0Text() + " | " + strings.Join(c.stepTexts(), " ; ")
}

type Replay struct {
	Mode  string   `json:"mode"` // det | run | fwd | node
	H0    string   `json:"h0"`
	Chunk uint64   `json:"chunk"`
	Steps []string `json:"steps"`
	Line  string   `json:"line,omitempty"`
	Reply string   `json:"reply,omitempty"`
}

func (c *Case) replay(mode string) Replay {
	return Replay{Mode: mode, H0: c.h0Text(), Chunk: c.Chunk, Steps: c.stepTexts()}
}

func caseOfReplay(rp *Replay) *Case {
	cs := &Case{Chunk: rp.Chunk, Gen: "replay", Fwd: rp.Mode == "fwd", Node: rp.Mode == "node"}
	if cs.Chunk == 0 {
		cs.Chunk = 1 // chunk 0 does not terminate in the Go code
	}
	if h := strings.TrimSpace(rp.H0); h != "-" && h != "" {
		e, err := parseEv(h)
		hx.Must(err)
		cs.H0 = &e
	}
	for _, t := range rp.Steps {
		s, _, err := parseStep(t)
		hx.Must(err)
		cs.Steps = append(cs.Steps, s)
	}
	return cs
}

// ---------- observations ----------

// observeHead renders Blockchain.L1Head(): "-" | "l2:id"; torn = hash and root do not belong together.
func observeHead(chain *blockchain.Blockchain) (obs string, torn string) {
	h, err := chain.L1Head()
	if errors.Is(err, db.ErrKeyNotFound) {
		return "-", ""
	}
	if err != nil {
		hx.Fatalf("L1Head: %v", err)
	}
	if h.BlockHash == nil || h.StateRoot == nil {
		return fmt.Sprintf("%d:nil", h.BlockNumber), "nil hash or root in stored head"
	}
	if !isU64(h.BlockHash) {
		return fmt.Sprintf("%d:%s", h.BlockNumber, h.BlockHash.String()), "hash outside the id range: " + h.BlockHash.String()
	}
	id := h.BlockHash.Uint64()
	want := feltOf(id + rootOffset)
	if !h.StateRoot.Equal(&want) {
		torn = fmt.Sprintf("head l2=%d hash=id %d but root=%s", h.BlockNumber, id, h.StateRoot.String())
	}
	return fmt.Sprintf("%d:%d", h.BlockNumber, id), torn
}

func observeBuffer(cl *l1.Client) string {
	b := cl.VerifBuffer()
	if len(b) == 0 {
		return "-"
	}
	keys := make([]uint64, 0, len(b))
	for k := range b {
		keys = append(keys, k)
	}
	sort.Slice(keys, func(i, j int) bool { return keys[i] < keys[j] })
	parts := make([]string, len(keys))
	for i, k := range keys {
		v := b[k]
		id := "x" + v.L2BlockHash.String()
		if isU64(&v.L2BlockHash) {
			id = strconv.FormatUint(v.L2BlockHash.Uint64(), 10)
		}
		parts[i] = fmt.Sprintf("%d:%d:%s", k, v.L2BlockNumber, id)
	}
	return strings.Join(parts, ",")
}

func storeH0(chain *blockchain.Blockchain, h0 *Ev) {
	if h0 == nil {
		return
	}
	hash, root := feltOf(h0.ID), feltOf(h0.ID+rootOffset)
	hx.Must(chain.SetL1Head(&core.L1Head{BlockNumber: h0.L2, BlockHash: &hash, StateRoot: &root}))
}

// ---------- oracle reply ----------
type Rec struct {
	MH, MB, Commit    string
	Env               bool
	Spec, Never, Mono string
}

func parseReply(reply string, n int) []Rec {
	parts := strings.Split(reply, ";")
	if len(parts) != n {
		hx.Fatalf("oracle reply has %d records for %d steps: %q", len(parts), n, reply)
	}
	out := make([]Rec, n)
	for i, p := range parts {
		for _, kv := range strings.Fields(p) {
			k, v, ok := strings.Cut(kv, "=")
			if !ok {
				hx.Fatalf("oracle record %q", p)
			}
			switch k {
			case "mh":
				out[i].MH = v
			case "mb":
				out[i].MB = v
			case "env":
				out[i].Env = v == "1"
			case "commit":
				out[i].Commit = v
			case "spec":
				out[i].Spec = v
			case "never":
				out[i].Never = v
			case "mono":
				out[i].Mono = v
			}
		}
	}
	return out
}
