// C18: the real migration runner / registry / migrations against the extracted Coq model.
//   R-cases: real runner + real registry with scripted stub migrations, multi-boot schedules
//            (cancel after the n-th write, crash after the k-th write, optional flags toggled,
//            registries truncated), compared boot by boot with the model's run_boot.
//   B-cases: old-layout databases produced with the deprecated per-transaction writers, the real
//            registered migrations (wrapped only to observe what Migrate returns), interruption at
//            every write / sampled reads, crash copies after every commit, restarts; every block's
//            transactions / receipts / lookups compared with the originals, final database compared
//            with the uninterrupted one, well_behaved checked at every cancellation point, the
//            blocktransactions model (bt_complete / preserved) compared with what the code did.
package main

import (
	"bytes"
	"context"
	"encoding/binary"
	"errors"
	"fmt"
	"reflect"
	"sort"
	"strconv"
	"strings"
	"sync"

	"github.com/NethermindEth/juno/blockchain"
	"github.com/NethermindEth/juno/blockchain/networks"
	"github.com/NethermindEth/juno/core"
	"github.com/NethermindEth/juno/core/felt"
	"github.com/NethermindEth/juno/db"
	"github.com/NethermindEth/juno/db/memory"
	"github.com/NethermindEth/juno/migration"
	"github.com/NethermindEth/juno/migration/blocktransactions"
	"github.com/NethermindEth/juno/migration/blocktransactions/txlayout"
	"github.com/NethermindEth/juno/migration/historyprunner"
	"github.com/NethermindEth/juno/migration/state/headstate"
	"github.com/NethermindEth/juno/migration/statedifflength"
	"github.com/NethermindEth/juno/pruner"
	"github.com/NethermindEth/juno/utils/log"
	"verifharness/chain"
	"verifharness/hx"
)

// ---------------------------------------------------------------------------------------------
// db proxy: counts reads and writes, cancels the context at the n-th read / write, keeps a crash
// copy after every write, can make the n-th batch commit fail
// ---------------------------------------------------------------------------------------------
type proxy struct {
	db.KeyValueStore
	mem           *memory.Database
	mu            sync.Mutex
	reads, writes int
	cancelAtRead  int
	cancelAtWrite int
	cancel        context.CancelFunc
	keep          bool
	copies        []*memory.Database
	// fault injection: the faultAtWrite-th write attempt / faultAtRead-th read (Get, Has, NewIterator,
	// iterator Value) returns errInjected, once
	faultAtWrite, faultAtRead int
	fwrites, freads           int
	faulted                   bool
	curMig                    int // migration whose Migrate is running (-1 none), for diagnostics
	faultMig                  int
	// observation of the modelled migrations (headstate, statedifflength): every successful write
	// while obsOn, with the keys of the batch and a copy of the database after it
	obsOn  bool
	events []wevent
}

// one successful write: a committed batch (the keys put into it), a DeleteRange on the store, or
// any other direct write
type wevent struct {
	kind  string // "batch" | "delrange" | "other"
	keys  [][]byte
	start []byte
	cp    *memory.Database
}

var errInjected = errors.New("verif: injected I/O error")

func (p *proxy) failWrite() bool {
	p.mu.Lock()
	defer p.mu.Unlock()
	p.fwrites++
	if p.fwrites == p.faultAtWrite && !p.faulted {
		p.faulted, p.faultMig = true, p.curMig
		return true
	}
	return false
}
func (p *proxy) failRead() bool {
	p.mu.Lock()
	defer p.mu.Unlock()
	p.freads++
	if p.freads == p.faultAtRead && !p.faulted {
		p.faulted, p.faultMig = true, p.curMig
		return true
	}
	return false
}

type piter struct {
	db.Iterator
	p *proxy
}

func (it *piter) Value() ([]byte, error) {
	if it.p.failRead() {
		return nil, errInjected
	}
	return it.Iterator.Value()
}
func (it *piter) UncopiedValue() ([]byte, error) {
	if it.p.failRead() {
		return nil, errInjected
	}
	return it.Iterator.UncopiedValue()
}

func newProxy(m *memory.Database, keep bool) *proxy {
	return &proxy{KeyValueStore: m, mem: m, keep: keep, curMig: -1, faultMig: -1}
}

func (p *proxy) onRead() {
	p.mu.Lock()
	p.reads++
	if p.reads == p.cancelAtRead && p.cancel != nil {
		p.cancel()
	}
	p.mu.Unlock()
}
func (p *proxy) onWrite(ev *wevent) {
	p.mu.Lock()
	p.writes++
	var cp *memory.Database
	if p.keep {
		cp = p.mem.Copy()
		p.copies = append(p.copies, cp)
	}
	if p.obsOn {
		if ev == nil {
			ev = &wevent{kind: "other"}
		}
		if cp == nil {
			cp = p.mem.Copy()
		}
		ev.cp = cp
		p.events = append(p.events, *ev)
	}
	if p.writes == p.cancelAtWrite && p.cancel != nil {
		p.cancel()
	}
	p.mu.Unlock()
}
func (p *proxy) Get(k []byte, cb func([]byte) error) error {
	p.onRead()
	if p.failRead() {
		return errInjected
	}
	return p.KeyValueStore.Get(k, cb)
}
func (p *proxy) Has(k []byte) (bool, error) {
	p.onRead()
	if p.failRead() {
		return false, errInjected
	}
	return p.KeyValueStore.Has(k)
}
func (p *proxy) NewIterator(pre []byte, ub bool) (db.Iterator, error) {
	p.onRead()
	if p.failRead() {
		return nil, errInjected
	}
	it, err := p.KeyValueStore.NewIterator(pre, ub)
	if err != nil {
		return nil, err
	}
	return &piter{it, p}, nil
}
func (p *proxy) Put(k, v []byte) error {
	if p.failWrite() {
		return errInjected
	}
	err := p.KeyValueStore.Put(k, v)
	if err == nil {
		p.onWrite(nil)
	}
	return err
}
func (p *proxy) Delete(k []byte) error {
	if p.failWrite() {
		return errInjected
	}
	err := p.KeyValueStore.Delete(k)
	if err == nil {
		p.onWrite(nil)
	}
	return err
}
func (p *proxy) DeleteRange(a, b []byte) error {
	if p.failWrite() {
		return errInjected
	}
	err := p.KeyValueStore.DeleteRange(a, b)
	if err == nil {
		p.onWrite(&wevent{kind: "delrange", start: append([]byte{}, a...)})
	}
	return err
}
func (p *proxy) Update(fn func(db.IndexedBatch) error) error {
	if p.failWrite() {
		return errInjected
	}
	err := p.KeyValueStore.Update(fn)
	if err == nil {
		p.onWrite(nil)
	}
	return err
}
func (p *proxy) Write(fn func(db.Batch) error) error {
	if p.failWrite() {
		return errInjected
	}
	err := p.KeyValueStore.Write(fn)
	if err == nil {
		p.onWrite(nil)
	}
	return err
}

type pbatch struct {
	db.Batch
	p       *proxy
	keys    [][]byte
	nonPuts int // Delete / DeleteRange recorded into the batch
}

func (b *pbatch) Put(k, v []byte) error {
	b.keys = append(b.keys, append([]byte{}, k...))
	return b.Batch.Put(k, v)
}
func (b *pbatch) Delete(k []byte) error {
	b.nonPuts++
	return b.Batch.Delete(k)
}
func (b *pbatch) DeleteRange(s, e []byte) error {
	b.nonPuts++
	return b.Batch.DeleteRange(s, e)
}

func (b *pbatch) Write() error {
	if b.p.failWrite() {
		return errInjected
	}
	err := b.Batch.Write()
	if err == nil {
		kind := "batch"
		if b.nonPuts > 0 {
			kind = "other"
		}
		b.p.onWrite(&wevent{kind: kind, keys: b.keys})
	}
	return err
}

type pibatch struct {
	db.IndexedBatch
	p *proxy
}

func (b *pibatch) Write() error {
	if b.p.failWrite() {
		return errInjected
	}
	err := b.IndexedBatch.Write()
	if err == nil {
		b.p.onWrite(nil)
	}
	return err
}
func (p *proxy) NewBatch() db.Batch              { return &pbatch{Batch: p.KeyValueStore.NewBatch(), p: p} }
func (p *proxy) NewBatchWithSize(n int) db.Batch {
	return &pbatch{Batch: p.KeyValueStore.NewBatchWithSize(n), p: p}
}
func (p *proxy) NewIndexedBatch() db.IndexedBatch {
	return &pibatch{p.KeyValueStore.NewIndexedBatch(), p}
}
func (p *proxy) NewIndexedBatchWithSize(n int) db.IndexedBatch {
	return &pibatch{p.KeyValueStore.NewIndexedBatchWithSize(n), p}
}

// the state before the failed write = the last crash copy (or the database itself when none)
func (p *proxy) copiesLastOrStart(m *memory.Database) *memory.Database {
	if len(p.copies) == 0 {
		return m
	}
	return p.copies[len(p.copies)-1]
}

func dump(m *memory.Database) string {
	mp := m.Impl().(map[string][]byte)
	ks := make([]string, 0, len(mp))
	for k := range mp {
		ks = append(ks, k)
	}
	sort.Strings(ks)
	var b bytes.Buffer
	for _, k := range ks {
		fmt.Fprintf(&b, "%x=%x\n", k, mp[k])
	}
	return b.String()
}

func resultOf(newErr, runErr error) string {
	if newErr != nil {
		s := newErr.Error()
		switch {
		case strings.Contains(s, "cannot opt out"):
			return "optout"
		case strings.Contains(s, "newer, incompatible"):
			return "downgrade"
		}
		return "newrunner-error"
	}
	if runErr == nil {
		return "ok"
	}
	if errors.Is(runErr, context.Canceled) {
		return "cancelled"
	}
	return "failed"
}

// ---------------------------------------------------------------------------------------------
// R-cases
// ---------------------------------------------------------------------------------------------
type StubSpec struct {
	Optional bool
	Total    int
	Mode     string // "s" resume token on cancel, "n" (nil, ctx.Err())
	FailAt   int
	YieldAt  int
	CtxErr   bool // mode s: return (tok, ctx.Err()) instead of (tok, nil)
}

func (s StubSpec) String() string {
	o := "m"
	if s.Optional {
		o = "o"
	}
	return fmt.Sprintf("%s:%d:%s:%d:%d", o, s.Total, s.Mode, s.FailAt, s.YieldAt)
}

type stub struct {
	StubSpec
	idx int
	p   int
	log *[]string
}

func progKey(i int) []byte { return []byte(fmt.Sprintf("\xf0verif-progress-%02d", i)) }

func readProg(r db.KeyValueReader, i int) int {
	v := 0
	err := r.Get(progKey(i), func(b []byte) error { v, _ = strconv.Atoi(string(b)); return nil })
	if err != nil && !errors.Is(err, db.ErrKeyNotFound) {
		hx.Must(err)
	}
	return v
}
func enc(p int) []byte { b := make([]byte, 8); binary.BigEndian.PutUint64(b, uint64(p)); return b }

func (s *stub) Before(st []byte) error {
	tok := "-"
	s.p = 0
	if st != nil {
		if len(st) == 8 {
			s.p = int(binary.BigEndian.Uint64(st))
		}
		tok = strconv.Itoa(s.p)
	}
	*s.log = append(*s.log, fmt.Sprintf("I%d:%s", s.idx, tok))
	return nil
}

func (s *stub) Migrate(ctx context.Context, d db.KeyValueStore, _ *networks.Network, _ log.StructuredLogger) ([]byte, error) {
	p := s.p
	ret := func(o string) { *s.log = append(*s.log, fmt.Sprintf("R%d:%s", s.idx, o)) }
	for {
		if ctx.Err() != nil {
			if s.Mode == "n" {
				ret("N")
				return nil, ctx.Err()
			}
			ret("S" + strconv.Itoa(p))
			if s.CtxErr {
				return enc(p), fmt.Errorf("stub interrupted: %w", ctx.Err())
			}
			return enc(p), nil
		}
		old := readProg(d, s.idx)
		if s.FailAt == p+1 {
			_ = d.Put(progKey(s.idx), []byte(strconv.Itoa(old)))
			ret("F")
			return nil, errors.New("stub failure")
		}
		if err := d.Put(progKey(s.idx), []byte(strconv.Itoa(max(old, p+1)))); err != nil {
			ret("F") // the store failed (injected I/O error): return it, nothing stored
			return nil, fmt.Errorf("stub write: %w", err)
		}
		if p+1 >= s.Total {
			ret("D")
			return nil, nil
		}
		if s.YieldAt == p+1 {
			ret("Y" + strconv.Itoa(p+1))
			return enc(p + 1), nil
		}
		p++
	}
}

type RState struct {
	Cur, Last uint64
	Inter     map[int]int
	Prog      []int
}

func readRState(m *memory.Database, n int) RState {
	st := RState{Inter: map[int]int{}, Prog: make([]int, n)}
	md, err := migration.GetSchemaMetadata(m)
	if err == nil {
		st.Cur, st.Last = uint64(md.CurrentVersion), uint64(md.LastTargetVersion)
	} else if !errors.Is(err, db.ErrKeyNotFound) {
		hx.Must(err)
	}
	for i := 0; i < 64; i++ {
		b, err := migration.GetIntermediateState(m, uint8(i))
		if err == nil {
			v := -1
			if len(b) == 8 {
				v = int(binary.BigEndian.Uint64(b))
			}
			st.Inter[i] = v
		}
	}
	for i := range st.Prog {
		st.Prog[i] = readProg(m, i)
	}
	return st
}

func (s RState) String() string {
	var in []string
	ks := make([]int, 0)
	for k := range s.Inter {
		ks = append(ks, k)
	}
	sort.Ints(ks)
	for _, k := range ks {
		in = append(in, fmt.Sprintf("%d:%d", k, s.Inter[k]))
	}
	is := "-"
	if len(in) > 0 {
		is = strings.Join(in, ",")
	}
	ps := make([]string, len(s.Prog))
	for i, p := range s.Prog {
		ps[i] = strconv.Itoa(p)
	}
	return fmt.Sprintf("%x %x %s %s", s.Cur, s.Last, is, strings.Join(ps, ","))
}

type RBoot struct {
	NMig    int    // registry truncated to the first NMig stubs
	Enabled uint64 // optional flags
	Cancel  int    // -1 never, else cancelled after that many writes
	Crash   int    // -1 none, else the process dies after that many writes
	Fault   int    // 0 none, else the Fault-th write attempt of this start fails once (I/O error)
}
type RCase struct {
	Stubs []StubSpec
	Boots []RBoot
}

func dedup(l []string) []string {
	var out []string
	for _, s := range l {
		if len(out) == 0 || out[len(out)-1] != s {
			out = append(out, s)
		}
	}
	return out
}

// runR runs the case on the real runner and the model; returns a description of the first
// disagreement ("" if none) and tags for the histogram.
func runR(c *hx.Ctx, or *hx.Oracle, rc RCase) (string, string, []string) {
	mem := memory.New()
	nAll := len(rc.Stubs)
	var tags []string
	for bi, b := range rc.Boots {
		start := readRState(mem, nAll)
		var evlog []string
		reg := migration.NewRegistry()
		specs := make([]string, 0, b.NMig)
		for i := 0; i < b.NMig; i++ {
			sp := rc.Stubs[i]
			st := &stub{StubSpec: sp, idx: i, log: &evlog}
			if sp.Optional {
				reg.WithOptional(st, b.Enabled&(1<<uint(i)) != 0, fmt.Sprintf("opt-%d", i))
			} else {
				reg.With(st)
			}
			specs = append(specs, sp.String())
		}
		px := newProxy(mem, true)
		ctx, cancel := context.WithCancel(context.Background())
		px.cancel = cancel
		px.cancelAtWrite = b.Cancel
		px.faultAtWrite = b.Fault
		if b.Cancel == 0 {
			cancel()
		}
		var runErr error
		runner, newErr := migration.NewRunner(reg, px, &networks.Sepolia, log.NewNopZapLogger())
		if newErr == nil {
			runErr = runner.Run(ctx)
		}
		cancel()
		res := resultOf(newErr, runErr)
		final := readRState(mem, nAll)
		// applied events: derived from the crash copies (bit newly set)
		trace := []string{}
		prevCur := start.Cur
		appliedAt := map[int][]int{} // write index -> bits
		for wi, cp := range px.copies {
			s := readRState(cp, nAll)
			trace = append(trace, s.String())
			for i := 0; i < 64; i++ {
				if s.Cur&(1<<uint(i)) != 0 && prevCur&(1<<uint(i)) == 0 {
					appliedAt[wi] = append(appliedAt[wi], i)
				}
			}
			prevCur = s.Cur
		}
		// merge A events into the stub log: a bit set right after the return of that migration
		var merged []string
		{
			applied := []int{}
			for wi := range px.copies {
				applied = append(applied, appliedAt[wi]...)
			}
			ai := 0
			for k, e := range evlog {
				merged = append(merged, e)
				if e[0] == 'R' {
					// an A event of the same index follows iff that bit was set before the next invoke
					idx, _ := strconv.Atoi(strings.SplitN(e[1:], ":", 2)[0])
					if ai < len(applied) && applied[ai] == idx {
						nextIsInvokeOrEnd := k+1 == len(evlog) || evlog[k+1][0] == 'I'
						if nextIsInvokeOrEnd {
							merged = append(merged, fmt.Sprintf("A%d", idx))
							ai++
						}
					}
				}
			}
			for ; ai < len(applied); ai++ { // a bit set without a preceding return of that migration
				merged = append(merged, fmt.Sprintf("A%d", applied[ai]))
			}
		}
		cancelS := "-"
		if b.Cancel >= 0 {
			cancelS = strconv.Itoa(b.Cancel)
		}
		faultS := "-"
		if b.Fault > 0 {
			faultS = strconv.Itoa(b.Fault - 1)
		}
		line := fmt.Sprintf("R %s ; 60 %x %s %s ; %s", strings.Join(specs, ","), b.Enabled, cancelS, faultS, start.String())
		rep := strings.Split(or.Ask(line, 1)[0], " | ")
		if len(rep) != 5 {
			hx.Fatalf("oracle reply %q", rep)
		}
		mlog := "-"
		if len(merged) > 0 {
			mlog = strings.Join(merged, ",")
		}
		mtrace := []string{}
		if rep[3] != "-" {
			mtrace = strings.Split(rep[3], "~")
		}
		what, mk := "", ""
		switch {
		case rep[0] != res:
			what, mk = fmt.Sprintf("boot %d: result model=%s real=%s", bi, rep[0], res), "result"
		case rep[1] != final.String():
			what, mk = fmt.Sprintf("boot %d: final state model=[%s] real=[%s]", bi, rep[1], final.String()), "state"
		case rep[2] != mlog:
			what, mk = fmt.Sprintf("boot %d: log model=%s real=%s", bi, rep[2], mlog), "log"
		case strings.Join(dedup(append([]string{start.String()}, mtrace...)), "~") != strings.Join(dedup(append([]string{start.String()}, trace...)), "~"):
			what, mk = fmt.Sprintf("boot %d: crash points model=%v real=%v", bi, mtrace, trace), "crashpoints"
		}
		tags = append(tags, "r:"+res)
		if px.faulted {
			tags = append(tags, "r:io-error-fired")
			// property predicate on the real observation: the start that hit the error returns an
			// error and sets no bit / stores no token after it
			if res != "failed" || final.Cur != readRState(px.copiesLastOrStart(mem), nAll).Cur {
				return fmt.Sprintf("boot %d: injected write error but result=%s cur %b", bi, res, final.Cur), "runner:io-error-not-final", tags
			}
		}
		if rep[4] == "f" {
			tags = append(tags, "r:applied-early(ill-behaved stub)")
		}
		if res == "ok" && final.Cur&final.Last != final.Last {
			tags = append(tags, "r:ok-but-incomplete(yielding stub)")
		}
		if what != "" {
			return what, "runner-model-mismatch:" + mk, tags
		}
		// property predicates on the real observations
		if rep[4] == "f" {
			// only stubs in mode n may cause this
			nmode := false
			for i := 0; i < b.NMig; i++ {
				nmode = nmode || rc.Stubs[i].Mode == "n"
			}
			if !nmode {
				return fmt.Sprintf("boot %d: bit set without a completed Migrate: %s", bi, mlog), "runner:applied-before-complete", tags
			}
		}
		// opted-in bit beyond the registry accepted?
		if res != "optout" && res != "downgrade" && res != "newrunner-error" {
			for i := b.NMig; i < 64; i++ {
				if start.Last&(1<<uint(i)) != 0 {
					return fmt.Sprintf("boot %d: registry of %d migrations accepted a database whose LastTargetVersion has bit %d (cur=%b last=%b)", bi, b.NMig, i, start.Cur, start.Last),
						"runner:opted-in-bit-beyond-registry-accepted", tags
				}
			}
		}
		if b.Crash >= 1 && b.Crash <= len(px.copies) {
			mem = px.copies[b.Crash-1].Copy()
			tags = append(tags, "r:crash")
		}
	}
	return "", "", tags
}

func genR(r *hx.RNG) RCase {
	n := 1 + r.Intn(4)
	rc := RCase{}
	for i := 0; i < n; i++ {
		s := StubSpec{Optional: r.Chance(35), Total: 1 + r.Intn(4), Mode: "s", CtxErr: r.Bool()}
		if r.Chance(20) {
			s.Mode = "n"
		}
		if r.Chance(12) {
			s.FailAt = 1 + r.Intn(s.Total)
		}
		if r.Chance(12) && s.Total > 1 {
			s.YieldAt = 1 + r.Intn(s.Total-1)
		}
		rc.Stubs = append(rc.Stubs, s)
	}
	nb := 1 + r.Intn(5)
	en := uint64(0)
	for b := 0; b < nb; b++ {
		if r.Chance(60) {
			en |= 1 << uint(r.Intn(n))
		}
		if r.Chance(10) {
			en &^= 1 << uint(r.Intn(n))
		}
		bt := RBoot{NMig: n, Enabled: en, Cancel: -1, Crash: -1}
		if r.Chance(12) && n > 1 {
			bt.NMig = 1 + r.Intn(n-1)
		}
		switch k := r.Intn(100); {
		case k < 40:
			bt.Cancel = r.Intn(14)
		case k < 65:
			bt.Fault = 1 + r.Intn(12)
		}
		if r.Chance(30) {
			bt.Crash = 1 + r.Intn(10)
		}
		rc.Boots = append(rc.Boots, bt)
	}
	rc.Boots = append(rc.Boots, RBoot{NMig: n, Enabled: en, Cancel: -1, Crash: -1})
	return rc
}

// ---------------------------------------------------------------------------------------------
// B-cases
// ---------------------------------------------------------------------------------------------
type BCase struct {
	Counts  []int  // transactions per block
	Variant string // "v0" = per-tx layout, no metadata; "v1" = combined layout, bit 0 applied, pruned prefix
	Prune   int    // v1: blocks below are pruned
	Only    string // replay: restrict to one schedule kind
}

type world struct {
	bc      BCase
	newDB   *memory.Database // what the current code writes directly
	oldDB   *memory.Database // previous layout
	ids     map[felt.Felt]int
	height  int
	newDump string
}

func buildWorld(bc BCase) *world {
	mem := memory.New()
	n := chain.NewNode(mem, false)
	w := &world{bc: bc, ids: map[felt.Felt]int{}, height: len(bc.Counts) - 1}
	id := 0
	for i, cnt := range bc.Counts {
		spec := &chain.BlockSpec{Salt: uint64(i), Timestamp: uint64(1000 + i)}
		if i == 0 {
			spec.Deploy = map[uint64]uint64{100: 7, 101: 7}
			spec.DeclareV0 = []uint64{7}
		}
		if i%3 == 1 {
			spec.Storage = map[uint64]map[uint64]uint64{100: {uint64(i): uint64(i) + 1}}
			spec.Nonces = map[uint64]uint64{101: uint64(i)}
		}
		for j := 0; j < cnt; j++ {
			spec.Txs = append(spec.Txs, []chain.Ev{{From: 5, Keys: []uint64{1, uint64(j)}, Data: []uint64{uint64(i)}}})
		}
		b, err := n.Finalise(spec)
		hx.Must(err)
		for _, tx := range b.Block.Transactions {
			id++
			w.ids[*tx.Hash()] = id
		}
	}
	if bc.Variant == "v1" {
		hx.Must(migration.WriteSchemaMetadata(mem, migration.SchemaMetadata{CurrentVersion: 1, LastTargetVersion: 1}))
	}
	w.newDB = mem.Copy()
	old := mem.Copy()
	for i := range bc.Counts {
		bn := uint64(i)
		if bc.Variant == "v0" {
			txs, rcs, err := core.GetTransactionsAndReceiptsByBlockNumber(old, bn)
			hx.Must(err)
			hx.Must(core.BlockTransactionsBucket.Delete(old, bn))
			hx.Must(txlayout.TransactionLayoutPerTx.WriteTransactionsAndReceipts(old, bn, txs, rcs))
		}
		cm, err := core.GetBlockCommitmentByBlockNum(old, bn)
		hx.Must(err)
		cm.StateDiffLength = 0
		hx.Must(core.WriteBlockCommitment(old, bn, cm))
	}
	if bc.Variant == "v1" && bc.Prune > 0 {
		for _, m := range []*memory.Database{old, w.newDB} {
			b := m.NewBatch()
			hx.Must(pruner.PruneBlockDataUpto(b, uint64(bc.Prune)))
			hx.Must(b.Write())
		}
	}
	w.oldDB = old
	return w
}

// spy wraps a registered migration to observe what Migrate returns and the context state
type spy struct {
	inner    migration.Migration
	idx      int
	log      *[]string
	bad      *[]string
	onBefore func(idx int, st []byte)
	px       *proxy
	win      map[int][4]int // idx -> freads, fwrites at Migrate entry / exit
	tok      []byte         // what Before received
	obs      *[]migObs      // observed Migrate calls of the modelled migrations (headstate, statedifflength)
}

func (s *spy) Before(st []byte) error {
	tok := "-"
	if st != nil {
		tok = strconv.Itoa(len(st))
	}
	*s.log = append(*s.log, fmt.Sprintf("I%d:%s", s.idx, tok))
	if s.onBefore != nil {
		s.onBefore(s.idx, st)
	}
	s.tok = st
	return s.inner.Before(st)
}
func (s *spy) Migrate(ctx context.Context, d db.KeyValueStore, n *networks.Network, l log.StructuredLogger) ([]byte, error) {
	var w [4]int
	if s.px != nil {
		s.px.mu.Lock()
		s.px.curMig = s.idx
		w[0], w[1] = s.px.freads, s.px.fwrites
		s.px.mu.Unlock()
	}
	modelled := s.px != nil && s.obs != nil && (s.idx == 2 || s.idx == 3)
	var pre *memory.Database
	if modelled {
		s.px.mu.Lock()
		pre = s.px.mem.Copy()
		s.px.obsOn, s.px.events = true, nil
		s.px.mu.Unlock()
	}
	st, err := s.inner.Migrate(ctx, d, n, l)
	if modelled {
		s.px.mu.Lock()
		*s.obs = append(*s.obs, migObs{idx: s.idx, tok: s.tok, pre: pre, events: s.px.events, post: s.px.mem.Copy(),
			st: st, err: err, ctxErr: ctx.Err() != nil && errors.Is(err, ctx.Err())})
		s.px.obsOn, s.px.events = false, nil
		s.px.mu.Unlock()
	}
	if s.px != nil {
		s.px.mu.Lock()
		s.px.curMig = -1
		w[2], w[3] = s.px.freads, s.px.fwrites
		s.px.mu.Unlock()
		s.win[s.idx] = w
	}
	o := ""
	switch {
	case st == nil && err == nil:
		o = "D"
	case st == nil && ctx.Err() != nil && errors.Is(err, ctx.Err()):
		o = "N"
		*s.bad = append(*s.bad, fmt.Sprintf("migration %d returned (nil, %v) with the context cancelled", s.idx, err))
	case st != nil && (err == nil || (ctx.Err() != nil && errors.Is(err, ctx.Err()))):
		if ctx.Err() == nil {
			o = "Y" + strconv.Itoa(len(st))
		} else {
			o = "S" + strconv.Itoa(len(st))
		}
	default:
		o = "F"
	}
	*s.log = append(*s.log, fmt.Sprintf("R%d:%s", s.idx, o))
	return st, err
}

type cfg struct {
	newState bool   // headstate optional flag
	prune    bool   // historyprunner optional flag
	retained uint64 // historyprunner retained blocks; 0 = so many that nothing is prunable
	nmig     int    // registry truncated (downgrade test); 4 = full
	// cancel the context at the cancelReads-th read after Before of migration cancelMig-1 (0 = off)
	cancelMig   int
	cancelReads int
	// I/O error injection: the faultWrite-th write attempt / faultRead-th read of this start fails once
	faultWrite, faultRead int
}

// abstraction of the commitments / state updates to the model's sdb
func abstractSDL(m *memory.Database) string {
	h, err := core.GetChainHeight(m)
	if err != nil {
		return ""
	}
	var bl []string
	for i := uint64(0); i <= h; i++ {
		cm, err := core.GetBlockCommitmentByBlockNum(m, i)
		if err != nil {
			bl = append(bl, "-")
			continue
		}
		su, err := core.GetStateUpdateByBlockNum(m, i)
		hx.Must(err)
		bl = append(bl, fmt.Sprintf("%d:%d", su.StateDiff.Length(), cm.StateDiffLength))
	}
	return strings.Join(bl, ",")
}

type runOut struct {
	win    map[int][4]int
	sdlPre string // "<checkpoint> <sdb>" when statedifflength was invoked
	res    string
	err    error
	px     *proxy
	log    []string
	bad    []string
	merged []string
	obs    []migObs
}

func realRegistry(c cfg, evlog, bad *[]string, onBefore func(int, []byte), px *proxy, win map[int][4]int, obs *[]migObs) *migration.Registry {
	reg := migration.NewRegistry()
	retained := c.retained
	if retained == 0 {
		retained = 1 << 40
	}
	add := func(i int, m migration.Migration, optional, enabled bool, name string) {
		if i >= c.nmig {
			return
		}
		s := &spy{inner: m, idx: i, log: evlog, bad: bad, onBefore: onBefore, px: px, win: win, obs: obs}
		if optional {
			reg.WithOptional(s, enabled, name)
		} else {
			reg.With(s)
		}
	}
	// node/migration.go registerMigrations
	add(0, &blocktransactions.Migrator{}, false, true, "")
	add(1, historyprunner.New(retained, 0), true, c.prune, "prune")
	add(2, &headstate.Migrator{}, true, c.newState, "new-state")
	add(3, &statedifflength.Migrator{}, false, true, "")
	return reg
}

func runReal(m *memory.Database, c cfg, keep bool, cancelAtWrite, cancelAtRead int) runOut {
	out := runOut{}
	px := newProxy(m, keep)
	ctx, cancel := context.WithCancel(context.Background())
	defer cancel()
	px.cancel = cancel
	px.cancelAtWrite, px.cancelAtRead = cancelAtWrite, cancelAtRead
	px.faultAtWrite, px.faultAtRead = c.faultWrite, c.faultRead
	out.px = px
	out.win = map[int][4]int{}
	reg := realRegistry(c, &out.log, &out.bad, func(idx int, st []byte) {
		if idx == 3 {
			// the state the statedifflength backfill starts from, for the model (sdl_migrate)
			ck := 0
			if len(st) == 8 {
				ck = int(binary.BigEndian.Uint64(st))
			}
			out.sdlPre = fmt.Sprintf("%d %s", ck, abstractSDL(m))
		}
		if c.cancelMig == idx+1 {
			px.mu.Lock()
			px.cancelAtRead = px.reads + c.cancelReads
			px.mu.Unlock()
		}
	}, px, out.win, &out.obs)
	before, _ := migration.GetSchemaMetadata(m)
	runner, newErr := migration.NewRunner(reg, px, &networks.Sepolia, log.NewNopZapLogger())
	var runErr error
	if newErr == nil {
		runErr = runner.Run(ctx)
	}
	out.res = resultOf(newErr, runErr)
	out.err = runErr
	if newErr != nil {
		out.err = newErr
	}
	// A events: bits newly set, placed after the return of that migration
	after, _ := migration.GetSchemaMetadata(m)
	for _, e := range out.log {
		out.merged = append(out.merged, e)
		if e[0] == 'R' {
			idx, _ := strconv.Atoi(strings.SplitN(e[1:], ":", 2)[0])
			if !before.CurrentVersion.Has(uint8(idx)) && after.CurrentVersion.Has(uint8(idx)) {
				out.merged = append(out.merged, fmt.Sprintf("A%d", idx))
			}
		}
	}
	for i := 0; i < 64; i++ {
		if !before.CurrentVersion.Has(uint8(i)) && after.CurrentVersion.Has(uint8(i)) {
			seen := false
			for _, e := range out.log {
				seen = seen || strings.HasPrefix(e, fmt.Sprintf("R%d:", i))
			}
			if !seen {
				out.merged = append(out.merged, fmt.Sprintf("A%d", i))
			}
		}
	}
	checkObs(&out, m, c)
	if gOr != nil {
		checkBookkeeping(m, out, fmt.Sprintf("start with cfg %+v", c))
	}
	return out
}

// abstraction of the transaction part of a database to the model's btdb
func (w *world) abstract(m *memory.Database) string {
	if _, err := core.GetChainHeight(m); err != nil {
		return "_"
	}
	idl := func(hs []*felt.Felt) string {
		if len(hs) == 0 {
			return "e"
		}
		s := make([]string, len(hs))
		for i, h := range hs {
			id, ok := w.ids[*h]
			if !ok {
				id = 999999
			}
			s[i] = strconv.Itoa(id)
		}
		return strings.Join(s, ".")
	}
	var blocks []string
	for i := 0; i <= w.height; i++ {
		bn := uint64(i)
		h, err := core.GetBlockHeaderByNumber(m, bn)
		hx.Must(err)
		var otx, orc, ntx, nrc []*felt.Felt
		for e, err := range core.TransactionsByBlockNumberAndIndexBucket.Prefix().Add(bn).Scan(m) {
			hx.Must(err)
			otx = append(otx, e.Value.Hash())
		}
		for e, err := range core.ReceiptsByBlockNumberAndIndexBucket.Prefix().Add(bn).Scan(m) {
			hx.Must(err)
			orc = append(orc, e.Value.TransactionHash)
		}
		nw := "-"
		if has, err := core.BlockTransactionsBucket.Has(m, bn); err == nil && has {
			txs, rcs, err := core.GetTransactionsAndReceiptsByBlockNumber(m, bn)
			hx.Must(err)
			for _, t := range txs {
				ntx = append(ntx, t.Hash())
			}
			for _, r := range rcs {
				nrc = append(nrc, r.TransactionHash)
			}
			nw = idl(ntx) + ";" + idl(nrc)
		}
		blocks = append(blocks, fmt.Sprintf("%d/%s/%s/%s", h.TransactionCount, idl(otx), idl(orc), nw))
	}
	return strings.Join(blocks, ",")
}

// data_preserved evaluated on the real database: every retained block's transactions, receipts and
// lookups through the current accessors equal what the directly written database serves.
// returns (symptom, block) of the first difference.
func (w *world) preserved(m *memory.Database) (string, int) {
	first := 0
	if w.bc.Variant == "v1" {
		first = w.bc.Prune
	}
	return w.preservedFrom(m, first)
}

func (w *world) preservedFrom(m *memory.Database, first int) (string, int) {
	bcn := blockchain.New(m, &networks.Sepolia)
	for i := first; i <= w.height; i++ {
		bn := uint64(i)
		wtx, wrc, err := core.GetTransactionsAndReceiptsByBlockNumber(w.newDB, bn)
		hx.Must(err)
		gtx, grc, err := core.GetTransactionsAndReceiptsByBlockNumber(m, bn)
		if err != nil {
			if errors.Is(err, db.ErrKeyNotFound) {
				return "unreadable", i
			}
			return "error", i
		}
		if len(gtx) < len(wtx) && len(gtx) == 0 {
			return "emptied", i
		}
		if !reflect.DeepEqual(wtx, gtx) || !reflect.DeepEqual(wrc, grc) {
			return "differs", i
		}
		t1, e1 := core.GetTransactionsByBlockNumber(m, bn)
		r1, e2 := core.GetReceiptsByBlockNumber(m, bn)
		if e1 != nil || e2 != nil || !reflect.DeepEqual(t1, wtx) || !reflect.DeepEqual(r1, wrc) {
			return "differs-list-accessors", i
		}
		blk, err := bcn.BlockByNumber(bn)
		if err != nil || !reflect.DeepEqual(blk.Transactions, wtx) || !reflect.DeepEqual(blk.Receipts, wrc) {
			return "differs-block-by-number", i
		}
		for j, tx := range wtx {
			g, err := core.GetTransactionByBlockAndIndex(m, bn, uint64(j))
			if err != nil || !reflect.DeepEqual(g, tx) {
				return "differs-by-index", i
			}
			rc, err := core.GetReceiptByBlockAndIndex(m, bn, uint64(j))
			if err != nil || !reflect.DeepEqual(rc, wrc[j]) {
				return "differs-receipt-by-index", i
			}
			g2, err := bcn.TransactionByHash(tx.Hash())
			if err != nil || !reflect.DeepEqual(g2, tx) {
				return "differs-by-hash", i
			}
			rc2, _, num, err := bcn.Receipt(tx.Hash())
			if err != nil || num != bn || !reflect.DeepEqual(rc2, wrc[j]) {
				return "differs-receipt-by-hash", i
			}
		}
		// statedifflength backfilled
		cm, err := core.GetBlockCommitmentByBlockNum(m, bn)
		hx.Must(err)
		su, err := core.GetStateUpdateByBlockNum(m, bn)
		hx.Must(err)
		if cm.StateDiffLength != su.StateDiff.Length() {
			return "statedifflength-wrong", i
		}
	}
	return "", -1
}

// sdl_migrate applied to the state the backfill started from predicts the state after an
// uninterrupted, successful statedifflength run
func checkSDL(c *hx.Ctx, or *hx.Oracle, o runOut, m *memory.Database, cancelled bool, rp any, where string) {
	if o.sdlPre == "" || strings.HasSuffix(o.sdlPre, " ") || cancelled {
		return
	}
	pred := or.Ask("SD "+o.sdlPre, 1)[0]
	got := "none"
	if o.res == "ok" {
		got = "some " + abstractSDL(m)
	}
	c.Hist["sdl-model:"+strings.SplitN(pred, " ", 2)[0]]++
	if pred != got {
		c.Violation("sdl-model-mismatch:"+where, fmt.Sprintf("statedifflength started from (checkpoint, blocks) %s: model predicts %s, code gave %s (%v)", o.sdlPre, pred, got, o.err), rp, o.res == "ok")
	}
}

func (w *world) rangeEmpty(block int) bool {
	s := block - block%10
	for i := s; i < s+10 && i < len(w.bc.Counts); i++ {
		if w.bc.Counts[i] > 0 {
			return false
		}
	}
	return true
}

type bctx struct {
	c      *hx.Ctx
	or     *hx.Oracle
	w      *world
	refDmp string
	refSym string // symptom already present after the uninterrupted run (reported once)
	refBlk int
}

func (b *bctx) violation(sched, symptom string, block int, detail string) {
	class := fmt.Sprintf("blocktransactions:%s:%s", sched, symptom)
	if sched != "uninterrupted" && symptom == b.refSym && block == b.refBlk {
		return // the uninterrupted run already shows it; reported under that class
	}
	if symptom == "unreadable" && block >= 0 && b.w.rangeEmpty(block) {
		if sched == "uninterrupted" {
			class = "blocktransactions:empty-range-skipped:block-unreadable"
		} else {
			class = "blocktransactions:resume-skips-empty-range:block-unreadable"
		}
	}
	if symptom == "emptied" && strings.HasPrefix(sched, "crash") {
		class = "blocktransactions:crash-between-batch-commits:migrated-block-emptied"
	}
	rp := b.w.bc
	rp.Only = sched
	b.c.Violation(class, fmt.Sprintf("counts=%v variant=%s schedule=%s: block %d %s. %s", b.w.bc.Counts, b.w.bc.Variant, sched, block, symptom, detail),
		map[string]any{"kind": "B", "case": rp}, false)
}

// checkFinal: after a run sequence that ended with result ok on database m
func (b *bctx) checkFinal(m *memory.Database, sched string, startAbs string, startTok string, detail string) {
	sym, blk := b.w.preserved(m)
	// correspondence with the block-granularity model: what bt_complete predicts from the abstract
	// start state is what the code produced
	if b.w.bc.Variant == "v0" && startAbs != "" {
		pred := b.or.Ask("BC "+startTok+" "+startAbs, 1)[0]
		got := b.w.abstract(m)
		if pred != "some "+got {
			b.c.Violation("bt-model-mismatch:"+sched, fmt.Sprintf("counts=%v: model predicts %s, code produced %s (from %s)", b.w.bc.Counts, pred, got, startAbs),
				map[string]any{"kind": "B", "case": b.w.bc}, sym == "")
		}
		// the extracted predicate on the real final state
		pp := b.or.Ask("BP "+b.w.abstract(b.w.oldDB)+" "+got, 1)[0]
		if (pp == "t") != (sym == "" || strings.HasPrefix(sym, "statedifflength")) {
			b.c.Violation("bt-predicate-mismatch:"+sched, fmt.Sprintf("counts=%v: preserved(model)=%s, accessor comparison=%q block %d", b.w.bc.Counts, pp, sym, blk),
				map[string]any{"kind": "B", "case": b.w.bc}, sym == "")
		}
	}
	if sym != "" {
		if sched == "uninterrupted" {
			b.refSym, b.refBlk = sym, blk
		}
		b.violation(sched, sym, blk, detail)
		return
	}
	if d := dump(m); d != b.refDmp {
		b.c.Violation("resume-final-db-differs:"+sched, fmt.Sprintf("counts=%v variant=%s: final database differs from the uninterrupted one although all blocks read back. %s", b.w.bc.Counts, b.w.bc.Variant, detail),
			map[string]any{"kind": "B", "case": b.w.bc}, false)
	}
}

func (b *bctx) checkRun(o runOut, sched string) {
	for _, s := range o.bad {
		b.c.Violation("well-behaved:"+sched, fmt.Sprintf("counts=%v: %s", b.w.bc.Counts, s), map[string]any{"kind": "B", "case": b.w.bc}, false)
	}
	l := "-"
	if len(o.merged) > 0 {
		l = strings.Join(o.merged, ",")
	}
	if b.or.Ask("AD "+l, 1)[0] != "t" {
		b.c.Violation("applied-before-complete:"+sched, fmt.Sprintf("counts=%v: log %s", b.w.bc.Counts, l), map[string]any{"kind": "B", "case": b.w.bc}, false)
	}
	for _, e := range o.log {
		if strings.Contains(e, ":Y") {
			b.c.Violation("yield-without-cancel:"+sched, fmt.Sprintf("counts=%v: log %s", b.w.bc.Counts, l), map[string]any{"kind": "B", "case": b.w.bc}, false)
		}
	}
	// once, in order
	lastIdx := -1
	for _, e := range o.log {
		if e[0] == 'I' {
			idx, _ := strconv.Atoi(strings.SplitN(e[1:], ":", 2)[0])
			if idx <= lastIdx {
				b.c.Violation("not-once-in-order:"+sched, fmt.Sprintf("counts=%v: log %s", b.w.bc.Counts, l), map[string]any{"kind": "B", "case": b.w.bc}, false)
			}
			lastIdx = idx
		}
	}
	b.c.Hist["b:"+sched+":"+o.res]++
}

var migNames = []string{"blocktransactions", "historyprunner", "headstate", "statedifflength"}

// runFaults: all four registered migrations enabled (historyprunner in its no-op configuration); the
// store returns an error once at a sampled read inside each migration's Migrate call or at any
// write attempt; Run is observed; restarts on the healthy store run to completion. Predicate: the
// completed database is exactly the one obtained without any error (full dump + per-block
// accessors + StateDiffLength), i.e. the failed start neither marked an unfinished migration
// applied nor saved a resume point that skips work.
func (b *bctx) runFaults(r *hx.RNG, budget int) {
	c, w, bc := b.c, b.w, b.w.bc
	rp := map[string]any{"kind": "B", "case": BCase{Counts: bc.Counts, Variant: bc.Variant, Prune: bc.Prune, Only: "io-error"}}
	start := w.oldDB.Copy()
	hx.Must(core.WriteL1Head(start, &core.L1Head{BlockNumber: uint64(w.height), BlockHash: &felt.Zero, StateRoot: &felt.Zero}))
	all := cfg{nmig: 4, newState: true, prune: true}
	ref := start.Copy()
	o := runReal(ref, all, false, 0, 0)
	if o.res != "ok" {
		c.Violation("io-error:reference-run-failed", fmt.Sprintf("counts=%v variant=%s: %v", bc.Counts, bc.Variant, o.err), rp, false)
		return
	}
	refDmp := dump(ref)
	refSym, refBlk := w.preserved(ref)
	type pt struct {
		read, write int
		what        string
	}
	var pts []pt
	for k := 1; k <= o.px.fwrites; k++ {
		pts = append(pts, pt{write: k, what: fmt.Sprintf("write attempt %d of %d", k, o.px.fwrites)})
	}
	per := 2 + budget/4
	for idx := 0; idx < 4; idx++ {
		win, ok := o.win[idx]
		if !ok || win[2] <= win[0] {
			continue
		}
		for j := 0; j < per; j++ {
			n := win[0] + 1 + r.Intn(win[2]-win[0])
			pts = append(pts, pt{read: n, what: fmt.Sprintf("read %d (reads %d..%d belong to %s)", n, win[0]+1, win[2], migNames[idx])})
		}
	}
	pts = append(pts, pt{read: 1, what: "read 1 (NewRunner)"})
	for _, p := range pts {
		m := start.Copy()
		cf := all
		cf.faultRead, cf.faultWrite = p.read, p.write
		o1 := runReal(m, cf, false, 0, 0)
		if !o1.px.faulted {
			continue // scheduling moved the point past the end of the run
		}
		where := "runner"
		if o1.px.faultMig >= 0 {
			where = migNames[o1.px.faultMig]
		}
		c.Hist["b:io-error:"+where+":"+o1.res]++
		b.checkRunQuiet(o1, "io-error", rp)
		md1, _ := migration.GetSchemaMetadata(m)
		tok1 := "none"
		if o1.px.faultMig >= 0 {
			if t, err := migration.GetIntermediateState(m, uint8(o1.px.faultMig)); err == nil {
				tok1 = fmt.Sprintf("%x", t)
			}
		}
		desc := fmt.Sprintf("counts=%v variant=%s: injected error at %s, hit %s; that start: Run=%s (%v), CurrentVersion=%b, token of that migration=%s, log %v",
			bc.Counts, bc.Variant, p.what, where, o1.res, o1.err, md1.CurrentVersion, tok1, o1.log)
		var o2 runOut
		for try := 0; try < 3; try++ {
			o2 = runReal(m, all, false, 0, 0)
			b.checkRunQuiet(o2, "io-error-restart", rp)
			if o2.res == "ok" {
				break
			}
		}
		kind := "read"
		if p.write > 0 {
			kind = "write"
		}
		c.Count(fmt.Sprintf("B:io:%v:%s:%d:%d", bc.Counts, bc.Variant, p.read, p.write), true)
		if o2.res != "ok" {
			c.Violation(fmt.Sprintf("io-error:%s:%s:restart-never-completes", kind, where), fmt.Sprintf("%s; restart: %s %v", desc, o2.res, o2.err), rp, false)
			continue
		}
		sym, blk := w.preserved(m)
		if sym != "" && !(sym == refSym && blk == refBlk) {
			class := fmt.Sprintf("io-error:%s:%s:%s", kind, where, sym)
			if sym == "unreadable" && w.rangeEmpty(blk) {
				class = "blocktransactions:resume-skips-empty-range:block-unreadable" // same defect, other interruption kind
			}
			c.Violation(class, fmt.Sprintf("%s; after the restart block %d: %s", desc, blk, sym), rp, false)
			continue
		}
		if dump(m) != refDmp {
			c.Violation(fmt.Sprintf("io-error:%s:%s:final-db-differs", kind, where), desc+"; the completed database differs from the one obtained without the error", rp, false)
		}
	}
}

// checkRun without the histogram line (used by the fault schedules)
func (b *bctx) checkRunQuiet(o runOut, sched string, rp any) {
	for _, s := range o.bad {
		b.c.Violation("well-behaved:"+sched, fmt.Sprintf("counts=%v: %s", b.w.bc.Counts, s), rp, false)
	}
	l := "-"
	if len(o.merged) > 0 {
		l = strings.Join(o.merged, ",")
	}
	if b.or.Ask("AD "+l, 1)[0] != "t" {
		b.c.Violation("applied-before-complete:"+sched, fmt.Sprintf("counts=%v: log %s", b.w.bc.Counts, l), rp, false)
	}
}

func runB(c *hx.Ctx, or *hx.Oracle, r *hx.RNG, bc BCase, budget int) {
	gReplay = map[string]any{"kind": "B", "case": bc}
	w := buildWorld(bc)
	b := &bctx{c: c, or: or, w: w}
	full := cfg{nmig: 4}
	key := fmt.Sprintf("B:%s:%v:%d", bc.Variant, bc.Counts, bc.Prune)
	want := func(k string) bool { return bc.Only == "" || strings.HasPrefix(bc.Only, k) }

	// ---- uninterrupted reference, with a crash copy after every write ----
	ref := w.oldDB.Copy()
	o := runReal(ref, full, true, 0, 0)
	b.checkRun(o, "uninterrupted")
	if o.res != "ok" {
		c.Violation("uninterrupted-run-failed", fmt.Sprintf("counts=%v variant=%s: %v", bc.Counts, bc.Variant, o.err), map[string]any{"kind": "B", "case": bc}, false)
		return
	}
	b.refDmp = dump(ref)
	startAbs := ""
	if bc.Variant == "v0" {
		startAbs = w.abstract(w.oldDB)
		info := strings.Fields(or.Ask("BI "+startAbs, 1)[0])
		c.Hist["b:wf_old="+info[0]+",no_empty_range="+info[1]]++
	}
	md, _ := migration.GetSchemaMetadata(ref)
	if uint64(md.CurrentVersion) != 0b1001 || uint64(md.LastTargetVersion) != 0b1001 {
		c.Violation("metadata-after-run", fmt.Sprintf("cur=%b last=%b", md.CurrentVersion, md.LastTargetVersion), map[string]any{"kind": "B", "case": bc}, false)
	}
	if want("uninterrupted") {
		b.checkFinal(ref, "uninterrupted", startAbs, "-", "")
	}
	c.Count(key+":ref", true)
	nWrites, nReads := o.px.writes, o.px.reads
	c.Hist[fmt.Sprintf("b:writes=%d", nWrites)]++

	// ---- crash after every write, restart ----
	if want("crash") {
		copies := o.px.copies
		if len(bc.Counts) <= 30 && bc.Variant == "v0" {
			// which ranges share a batch and the commit order depend on the Go scheduler: enumerate the
			// crash points of a few more uninterrupted runs of the same (small) database
			for extra := 0; extra < 5; extra++ {
				ox := runReal(w.oldDB.Copy(), full, true, 0, 0)
				copies = append(copies, ox.px.copies...)
			}
		}
		for k, cp := range copies {
			m := cp.Copy()
			abs := ""
			if bc.Variant == "v0" {
				abs = w.abstract(m)
			}
			tok := "-"
			if _, err := migration.GetIntermediateState(m, 0); err == nil {
				tok = "r"
			}
			o2 := runReal(m, full, false, 0, 0)
			checkSDL(c, or, o2, m, false, map[string]any{"kind": "B", "case": bc}, "crash-restart")
			b.checkRun(o2, "crash-restart")
			if o2.res != "ok" {
				c.Violation("crash-restart-failed", fmt.Sprintf("counts=%v: crash after write %d, restart: %v", bc.Counts, k%nWrites+1, o2.err), map[string]any{"kind": "B", "case": bc}, false)
				continue
			}
			b.checkFinal(m, "crash-restart", abs, tok, fmt.Sprintf("process died after write %d of uninterrupted run #%d (%d writes per run); abstract state at the crash: %s", k%nWrites+1, k/nWrites+1, nWrites, abs))
			c.Count(fmt.Sprintf("%s:crash:%d", key, k), true)
		}
	}

	// ---- cancellation at write k / read n, then restarts (possibly cancelled again) ----
	type cp struct{ w, r int }
	var points []cp
	for k := 0; k <= nWrites; k++ {
		points = append(points, cp{w: k})
	}
	for i := 0; i < budget; i++ {
		points = append(points, cp{r: 1 + r.Intn(nReads)})
	}
	if want("cancel") {
		for _, pt := range points {
			m := w.oldDB.Copy()
			desc := fmt.Sprintf("cancel at write %d / read %d", pt.w, pt.r)
			var o2 runOut
			if pt.w == 0 && pt.r == 0 {
				// cancelled before start
				pt.r = 1
			}
			o2 = runReal(m, full, false, pt.w, pt.r)
			b.checkRun(o2, "cancel")
			if o2.res == "failed" || o2.res == "newrunner-error" {
				c.Violation("cancelled-run-failed", fmt.Sprintf("counts=%v: %s: %v", bc.Counts, desc, o2.err), map[string]any{"kind": "B", "case": bc}, false)
				continue
			}
			// bits set so far must be complete: applied bit 0 => no old entries and all blocks served
			for round := 0; round < 4 && o2.res != "ok"; round++ {
				cw, cr := 0, 0
				if round < 2 && r.Chance(50) {
					cr = 1 + r.Intn(nReads)
					desc += fmt.Sprintf(", then read %d", cr)
				}
				abs := ""
				if bc.Variant == "v0" && cr == 0 {
					abs = w.abstract(m)
				}
				tok := "-"
				if _, err := migration.GetIntermediateState(m, 0); err == nil {
					tok = "r"
				}
				o2 = runReal(m, full, false, cw, cr)
				b.checkRun(o2, "cancel-resume")
				if o2.res == "ok" {
					b.checkFinal(m, "cancel-resume", abs, tok, desc+"; abstract state before the last run: "+abs)
				}
			}
			if o2.res != "ok" {
				c.Violation("resume-never-completes", fmt.Sprintf("counts=%v: %s: %s %v", bc.Counts, desc, o2.res, o2.err), map[string]any{"kind": "B", "case": bc}, false)
			}
			c.Count(fmt.Sprintf("%s:cancel:%d:%d", key, pt.w, pt.r), true)
		}
	}

	// ---- I/O errors: the n-th read / write attempt fails once, for every registered migration ----
	if want("io-error") {
		b.runFaults(r, budget)
	}

	// ---- optional migrations toggled across restarts, opt-out and downgrade refused ----
	if want("toggle") {
		m := w.oldDB.Copy()
		hx.Must(core.WriteL1Head(m, &core.L1Head{BlockNumber: uint64(w.height), BlockHash: &felt.Zero, StateRoot: &felt.Zero}))
		seq := []cfg{{nmig: 4}, {nmig: 4, newState: true}, {nmig: 4, newState: true, prune: true}}
		if r.Bool() {
			seq = []cfg{{nmig: 4, prune: true}, {nmig: 4, prune: true, newState: true}}
		}
		okAll := true
		for i, cf := range seq {
			cw := 0
			if r.Chance(50) {
				cw = 1 + r.Intn(nWrites)
			}
			o3 := runReal(m, cf, false, cw, 0)
			b.checkRun(o3, "toggle")
			if o3.res == "cancelled" {
				o3 = runReal(m, cf, false, 0, 0)
				b.checkRun(o3, "toggle")
			}
			if o3.res != "ok" {
				okAll = false
				c.Violation("toggle-run-failed", fmt.Sprintf("counts=%v: boot %d cfg %+v: %s %v", bc.Counts, i, cf, o3.res, o3.err), map[string]any{"kind": "B", "case": bc}, false)
				break
			}
		}
		if okAll {
			if sym, blk := w.preserved(m); sym != "" {
				b.violation("toggle", sym, blk, "optional migrations enabled in later boots")
			}
			md, _ := migration.GetSchemaMetadata(m)
			last := seq[len(seq)-1]
			wantBits := uint64(0b1001)
			if last.prune {
				wantBits |= 2
			}
			if last.newState {
				wantBits |= 4
			}
			if uint64(md.CurrentVersion) != wantBits || uint64(md.LastTargetVersion) != wantBits {
				c.Violation("toggle-metadata", fmt.Sprintf("cur=%b last=%b want %b", md.CurrentVersion, md.LastTargetVersion, wantBits), map[string]any{"kind": "B", "case": bc}, false)
			}
			before := dump(m)
			// opt-out of a previously enabled optional migration
			o4 := runReal(m, cfg{nmig: 4, newState: false, prune: last.prune}, false, 0, 0)
			if last.newState && (o4.res != "optout" || dump(m) != before) {
				c.Violation("optout-not-refused", fmt.Sprintf("res=%s", o4.res), map[string]any{"kind": "B", "case": bc}, false)
			}
			// binary lacking an applied migration
			o5 := runReal(m, cfg{nmig: 3, newState: last.newState, prune: last.prune}, false, 0, 0)
			if o5.res != "downgrade" || dump(m) != before {
				c.Violation("downgrade-not-refused", fmt.Sprintf("res=%s", o5.res), map[string]any{"kind": "B", "case": bc}, false)
			}
			c.Hist["b:refusal:"+o4.res+"+"+o5.res]++
			c.Count(key+":toggle", true)
		}
	}
}

// ---------------------------------------------------------------------------------------------
// P-cases: the optional pruning migration (real historyprunner with a real retention window)
// enabled between restarts while the statedifflength backfill holds a checkpoint
// ---------------------------------------------------------------------------------------------
type PCase struct {
	Blocks   int
	Retained int
	Points   []int // cancel at that many reads after statedifflength's Before, pruning still disabled
}

func runP(c *hx.Ctx, or *hx.Oracle, pc PCase) {
	cs := make([]int, pc.Blocks)
	for i := range cs {
		cs[i] = (i*7 + 3) % 3
	}
	w := buildWorld(BCase{Counts: cs, Variant: "v1"})
	start := w.oldDB.Copy()
	hx.Must(core.WriteL1Head(start, &core.L1Head{BlockNumber: uint64(w.height), BlockHash: &felt.Zero, StateRoot: &felt.Zero}))
	final := cfg{nmig: 4, prune: true, retained: uint64(pc.Retained)}
	rp := map[string]any{"kind": "P", "p": pc}
	gReplay = rp
	ref := start.Copy()
	o := runReal(ref, final, false, 0, 0)
	checkSDL(c, or, o, ref, false, rp, "prune-toggle-uninterrupted")
	if o.res != "ok" {
		c.Violation("prune-toggle:uninterrupted-run-failed", fmt.Sprintf("blocks=%d retained=%d: %v", pc.Blocks, pc.Retained, o.err), rp, false)
		return
	}
	floorU, err := pruner.OldestRetainedBlock(ref)
	hx.Must(err)
	floor := int(floorU)
	if sym, blk := w.preservedFrom(ref, floor); sym != "" {
		c.Violation("prune-toggle:uninterrupted:"+sym, fmt.Sprintf("blocks=%d retained=%d floor=%d: block %d %s", pc.Blocks, pc.Retained, floor, blk, sym), rp, false)
		return
	}
	refDmp := dump(ref)
	c.Hist[fmt.Sprintf("p:floor=%d/height=%d", floor, w.height)]++
	for _, pt := range pc.Points {
		m := start.Copy()
		o1 := runReal(m, cfg{nmig: 4, cancelMig: 4, cancelReads: pt}, false, 0, 0)
		for _, s := range o1.bad {
			c.Violation("well-behaved:prune-toggle", s, rp, false)
		}
		ck := -1
		if b, err := migration.GetIntermediateState(m, 3); err == nil && len(b) == 8 {
			ck = int(binary.BigEndian.Uint64(b))
		}
		rel := "none"
		switch {
		case ck < 0:
		case ck == 0:
			rel = "zero"
		case ck < floor:
			rel = "below-floor"
		case ck == floor:
			rel = "at-floor"
		default:
			rel = "above-floor"
		}
		c.Hist["p:boot1="+o1.res+",checkpoint="+rel]++
		desc := fmt.Sprintf("blocks=%d retained=%d (floor %d): start 1 with pruning disabled cancelled at read %d of the statedifflength backfill (%s, checkpoint %d); start 2 with pruning enabled", pc.Blocks, pc.Retained, floor, pt, o1.res, ck)
		var o2 runOut
		for try := 0; try < 3; try++ {
			o2 = runReal(m, final, false, 0, 0)
			checkSDL(c, or, o2, m, false, rp, "prune-toggle-resume")
			for _, s := range o2.bad {
				c.Violation("well-behaved:prune-toggle", s, rp, false)
			}
			if o2.res == "ok" {
				break
			}
		}
		c.Count(fmt.Sprintf("P:%d:%d:%d", pc.Blocks, pc.Retained, pt), ck > 0)
		if o2.res != "ok" {
			c.Violation("statedifflength:resume-after-pruning-enabled:run-fails:checkpoint-"+rel,
				fmt.Sprintf("%s never completes: %s: %v", desc, o2.res, o2.err), rp, false)
			continue
		}
		md, _ := migration.GetSchemaMetadata(m)
		if uint64(md.CurrentVersion) != 0b1011 || uint64(md.LastTargetVersion) != 0b1011 {
			c.Violation("prune-toggle:metadata", fmt.Sprintf("%s: cur=%b last=%b", desc, md.CurrentVersion, md.LastTargetVersion), rp, false)
		}
		if _, err := migration.GetIntermediateState(m, 3); err == nil {
			c.Violation("prune-toggle:token-left", desc, rp, false)
		}
		if sym, blk := w.preservedFrom(m, floor); sym != "" {
			c.Violation("prune-toggle:"+sym+":checkpoint-"+rel, fmt.Sprintf("%s: block %d %s", desc, blk, sym), rp, false)
			continue
		}
		if dump(m) != refDmp {
			c.Violation("prune-toggle:final-db-differs:checkpoint-"+rel, desc+": final database differs from the one obtained without interruption under the same final flags", rp, false)
		}
	}
}

func main() {
	c := hx.NewCtx("C18")
	or := hx.StartOracle(c.OraclePath)
	defer or.Close()
	rng := hx.NewRNG(c.Seed)
	gC, gOr = c, or

	if c.ReplayIn != "" {
		var rp struct {
			Kind string
			Case BCase
			R    RCase
			P    PCase
			H    HCase
		}
		c.LoadReplay(&rp)
		if rp.Kind == "P" {
			runP(c, or, rp.P)
		} else if rp.Kind == "H" {
			for i := 0; i < 3; i++ { // batches and commit order are scheduler-dependent: a few attempts
				runH(c, or, rng, rp.H, 6)
			}
		} else if rp.Kind == "B" {
			for i := 0; i < 3; i++ { // commit order is scheduler-dependent: a few attempts
				runB(c, or, rng, rp.Case, 4)
			}
		} else {
			what, class, _ := runR(c, or, rp.R)
			if what != "" {
				c.Violation(class, what, map[string]any{"kind": "R", "r": rp.R}, strings.HasPrefix(class, "runner-model-mismatch"))
			}
		}
		c.Finish("replay")
	}

	// ---- R ----
	nR := 600
	if c.Thorough() {
		nR = 20000
	}
	// fixed first: the opted-in-but-unfinished migration followed by a binary without it
	fixed := []RCase{
		{Stubs: []StubSpec{{Total: 1, Mode: "s"}, {Total: 3, Mode: "s"}},
			Boots: []RBoot{{NMig: 2, Cancel: 3, Crash: -1}, {NMig: 1, Cancel: -1, Crash: -1}}},
		{Stubs: []StubSpec{{Total: 3, Mode: "n"}}, Boots: []RBoot{{NMig: 1, Cancel: 2, Crash: -1}}},
	}
	for i := 0; i < nR; i++ {
		var rc RCase
		if i < len(fixed) {
			rc = fixed[i]
		} else {
			rc = genR(rng)
		}
		what, class, tags := runR(c, or, rc)
		for _, t := range tags {
			c.Hist[t]++
		}
		c.Count(fmt.Sprintf("R:%+v", rc), len(rc.Boots) > 1)
		if i < 3 {
			c.Sample(map[string]any{"kind": "R", "case": rc, "mismatch": what})
		}
		if what != "" {
			// shrink: drop boots from the end / front while the class stays
			best := rc
			for changed := true; changed; {
				changed = false
				for d := 0; d < len(best.Boots); d++ {
					t := RCase{Stubs: best.Stubs}
					t.Boots = append(append([]RBoot{}, best.Boots[:d]...), best.Boots[d+1:]...)
					if len(t.Boots) == 0 {
						continue
					}
					if w2, c2, _ := runR(c, or, t); w2 != "" && c2 == class {
						best, what, changed = t, w2, true
						break
					}
				}
			}
			c.Violation(class, what, map[string]any{"kind": "R", "r": best}, strings.HasPrefix(class, "runner-model-mismatch"))
		}
	}

	// ---- B ----
	z := func(n int) []int { return make([]int, n) }
	withTx := func(l []int, at ...int) []int {
		for _, a := range at {
			l[a] = 1
		}
		return l
	}
	cases := []BCase{
		{Counts: []int{2}, Variant: "v0"},
		{Counts: withTx(z(11), 0, 10), Variant: "v0"},
		{Counts: withTx(z(12), 11), Variant: "v0"},
		{Counts: withTx(z(25), 0, 24), Variant: "v0"},
		{Counts: z(5), Variant: "v0"},
		{Counts: withTx(z(14), 0, 3, 9, 10, 13), Variant: "v1", Prune: 4},
	}
	nRand := 3
	maxLen := 55
	if c.Thorough() {
		nRand, maxLen = 60, 140
	}
	for i := 0; i < nRand; i++ {
		n := 12 + rng.Intn(maxLen)
		cs := make([]int, n)
		for j := range cs {
			if rng.Chance(70) {
				cs[j] = 1 + rng.Intn(3)
			}
		}
		v := "v0"
		pr := 0
		if i%3 == 2 {
			v = "v1"
			pr = rng.Intn(n / 2)
		}
		cases = append(cases, BCase{Counts: cs, Variant: v, Prune: pr})
	}
	budget := 8
	if c.Thorough() {
		budget = 40
	}
	for i, bc := range cases {
		runB(c, or, rng.Fork(uint64(i)), bc, budget)
		if i < 3 {
			c.Sample(map[string]any{"kind": "B", "case": bc})
		}
	}
	// ---- P ----
	pcases := []PCase{
		{Blocks: 60, Retained: 20, Points: []int{1, 2, 6, 16, 30, 50, 76, 78, 80, 82, 90, 110}},
		{Blocks: 33, Retained: 3, Points: []int{3, 9, 20, 40, 58, 60, 62}},
	}
	if c.Thorough() {
		for i := 0; i < 10; i++ {
			n := 30 + rng.Intn(120)
			pc := PCase{Blocks: n, Retained: 1 + rng.Intn(n-12)}
			for k := 0; k < 16; k++ {
				pc.Points = append(pc.Points, 1+rng.Intn(2*n+8))
			}
			pcases = append(pcases, pc)
		}
	}
	for _, pc := range pcases {
		runP(c, or, pc)
	}
	// ---- H ----
	hcases := []HCase{{Contracts: 1, Blocks: 2, Seed: 1}, {Contracts: 6, Blocks: 3, Seed: 2}, {Contracts: 13, Blocks: 5, Seed: 3}}
	if c.Thorough() {
		for i := 0; i < 12; i++ {
			hcases = append(hcases, HCase{Contracts: 2 + rng.Intn(40), Blocks: 2 + rng.Intn(8), Seed: rng.U64()})
		}
	}
	for i, hcase := range hcases {
		runH(c, or, rng.Fork(uint64(1000+i)), hcase, budget)
	}
	c.Extra["registered_migrations_checked_for_well_behaved"] = []string{"blocktransactions", "historyprunner(no-op config; real retention only uninterrupted)", "headstate", "statedifflength"}
	c.Finish("real runner+registry vs extracted run_boot on multi-boot schedules (result, metadata, tokens, crash points, event log); real migrations: data_preserved via accessors, resume_same_db via full dump, well_behaved/applied_after_done on observed returns, bt_complete/preserved vs code")
}
