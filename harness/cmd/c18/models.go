// C18: tie of the batch-granularity models of statedifflength (coq/theories/C18/Sdl.v) and
// state/headstate (coq/theories/C18/HeadState.v) to the real migrations.
//
// Every Migrate call of the two real migrations, in every run the harness makes (uninterrupted,
// cancelled at a write / read, one-shot I/O error, restart from a crash copy, pruning enabled
// between starts), is observed through the db proxy: the database before, every successful write
// (for a batch: the keys put into it; for a DeleteRange: its bucket) with a copy of the database
// after it, the database after, and what Migrate returned. The observation is handed to the
// extracted model as one ATTEMPT (batches in commit order, end = done / checkpoint n / interrupted /
// error) and compared:
//
//	producible     the model's predicate "the code can produce this attempt" (sdl_attempt_ok /
//	               hs_attempt_ok) must hold                       -> <mig>-model:attempt-not-producible
//	per batch      the decoded database after every committed batch / DeleteRange equals the
//	               model's trace                                   -> <mig>-model:state-after-write
//	final          the decoded database after Migrate equals the model's -> <mig>-model:final-state
//	predicates     a returned checkpoint lies within the committed prefix (sdl_ck_ok), (nil, nil)
//	               only with the postcondition (sdl_done / hs_wiped + database = hs_complete)
//	               -> sdl-model:checkpoint-beyond-committed-prefix, <mig>-model:done-without-postcondition
//	anything else written during Migrate                           -> <mig>-model:unexpected-write
//
// H-cases: legacy-state chains with a dozen contracts (some without a nonce entry), the headstate
// migration interrupted at every write and at sampled reads of its Migrate call, hit by an I/O error
// at every write attempt and sampled reads, restarted from every crash copy; final database equal
// to the uninterrupted one, Contract records = legacy head state (extracted predicate on the decoded
// databases), token / bit as the model says.
package main

import (
	"bytes"
	"context"
	"encoding/binary"
	"errors"
	"fmt"
	"math/big"
	"sort"
	"strconv"
	"strings"

	"github.com/NethermindEth/juno/core"
	"github.com/NethermindEth/juno/core/felt"
	"github.com/NethermindEth/juno/core/state"
	"github.com/NethermindEth/juno/db"
	"github.com/NethermindEth/juno/db/memory"
	"github.com/NethermindEth/juno/migration"
	"verifharness/chain"
	"verifharness/hx"
)

var (
	gC      *hx.Ctx
	gOr     *hx.Oracle
	gReplay any // replay object of the case that is running
)

type migObs struct {
	idx    int
	tok    []byte
	pre    *memory.Database
	events []wevent
	post   *memory.Database
	st     []byte
	err    error
	ctxErr bool
}

func sdbOf(m *memory.Database) string {
	s := abstractSDL(m)
	if s == "" {
		return "_"
	}
	return s
}

func hexBytes(b []byte) string { return new(big.Int).SetBytes(b).Text(16) }

// abstraction of the four contract buckets to the model's hsdb: one row per address, ascending
func abstractHS(m *memory.Database) (string, []string) {
	type row struct{ class, nonce, height, contract string }
	rows := map[string]*row{}
	var flags []string
	get := func(addr string) *row {
		r, ok := rows[addr]
		if !ok {
			r = &row{"-", "-", "-", "-"}
			rows[addr] = r
		}
		return r
	}
	for k, v := range m.Impl().(map[string][]byte) {
		if len(k) == 0 {
			continue
		}
		b := db.Bucket(k[0])
		if b != db.ContractClassHash && b != db.ContractNonce && b != db.ContractDeploymentHeight && b != db.Contract {
			continue
		}
		if len(k) != 1+felt.Bytes {
			flags = append(flags, fmt.Sprintf("key of length %d in bucket %d", len(k), k[0]))
			continue
		}
		addr := k[1:]
		r := get(addr)
		switch b {
		case db.ContractClassHash:
			r.class = hexBytes(v)
		case db.ContractNonce:
			r.nonce = hexBytes(v)
		case db.ContractDeploymentHeight:
			r.height = strconv.FormatUint(binary.BigEndian.Uint64(v), 16)
		case db.Contract:
			a := new(felt.Felt).SetBytes([]byte(addr))
			c, err := state.GetContract(m, a)
			if err != nil {
				flags = append(flags, fmt.Sprintf("Contract[%s] does not decode: %v", hexBytes([]byte(addr)), err))
				continue
			}
			if !c.StorageRoot.IsZero() {
				flags = append(flags, fmt.Sprintf("Contract[%s] has a storage root", hexBytes([]byte(addr))))
			}
			nb, cb := c.Nonce.Bytes(), c.ClassHash.Bytes()
			r.contract = hexBytes(nb[:]) + "." + hexBytes(cb[:]) + "." + strconv.FormatUint(c.DeployedHeight, 16)
		}
	}
	if len(rows) == 0 {
		return "_", flags
	}
	ks := make([]string, 0, len(rows))
	for k := range rows {
		ks = append(ks, k)
	}
	sort.Strings(ks)
	out := make([]string, len(ks))
	for i, k := range ks {
		r := rows[k]
		out[i] = hexBytes([]byte(k)) + "/" + r.class + "/" + r.nonce + "/" + r.height + "/" + r.contract
	}
	return strings.Join(out, ","), flags
}

func hsdbOf(m *memory.Database) string { s, _ := abstractHS(m); return s }

func batchesStr(bs [][]string) string {
	if len(bs) == 0 {
		return "-"
	}
	out := make([]string, len(bs))
	for i, b := range bs {
		if len(b) == 0 {
			out[i] = "e"
		} else {
			out[i] = strings.Join(b, ".")
		}
	}
	return strings.Join(out, ";")
}

func modelViolation(class, what string, noInput bool) {
	gC.Violation(class, what, gReplay, noInput)
}

// checkObs compares every observed Migrate call of headstate / statedifflength with the models
func checkObs(o *runOut, m *memory.Database, cf cfg) {
	if gOr == nil {
		return
	}
	for _, ob := range o.obs {
		if ob.idx == 3 {
			checkSdlObs(ob)
		} else if ob.idx == 2 {
			checkHsObs(ob)
		}
	}
	o.obs = nil
}

func splitReply(r string, n int) []string {
	p := strings.Split(r, " | ")
	if len(p) != n {
		hx.Fatalf("oracle reply %q", r)
	}
	return p
}

func checkSdlObs(ob migObs) {
	ck := uint64(0)
	if len(ob.tok) == 8 {
		ck = binary.BigEndian.Uint64(ob.tok)
	}
	pre := sdbOf(ob.pre)
	var batches [][]string
	var after []string
	unexpected := ""
	for _, ev := range ob.events {
		if ev.kind != "batch" {
			unexpected = "a " + ev.kind + " write"
			continue
		}
		b := []string{}
		for _, k := range ev.keys {
			if len(k) == 9 && db.Bucket(k[0]) == db.BlockCommitments {
				b = append(b, strconv.FormatUint(binary.BigEndian.Uint64(k[1:]), 10))
			} else {
				unexpected = fmt.Sprintf("a batch with key %x", k)
			}
		}
		batches = append(batches, b)
		after = append(after, sdbOf(ev.cp))
	}
	end, ret := "e", fmt.Sprintf("(%x, %v)", ob.st, ob.err)
	switch {
	case ob.st == nil && ob.err == nil:
		end = "d"
	case len(ob.st) == 8 && (ob.err == nil || ob.ctxErr):
		end = "c" + strconv.FormatUint(binary.BigEndian.Uint64(ob.st), 10)
	}
	desc := fmt.Sprintf("statedifflength.Migrate entered with checkpoint %d on blocks [%s] (len:stored, '-' pruned) wrote batches %s and returned %s",
		ck, pre, batchesStr(batches), ret)
	gC.Hist["sdl-model:end="+end[:1]]++
	gC.Hist[fmt.Sprintf("sdl-model:batches=%d", len(batches))]++
	if unexpected != "" {
		modelViolation("sdl-model:unexpected-write", desc+": "+unexpected, true)
		return
	}
	rep := splitReply(gOr.Ask(fmt.Sprintf("SA %d %s %s %s", ck, pre, end, batchesStr(batches)), 1)[0], 5)
	flags := strings.Fields(rep[4]) // ck_ok done wf completes
	final := sdbOf(ob.post)
	// the property's own predicates on what the implementation did
	if end[0] == 'c' && flags[0] != "t" {
		modelViolation("sdl-model:checkpoint-beyond-committed-prefix", desc+": a retained block below the returned checkpoint still has a stale length; database after: ["+final+"]", false)
		return
	}
	if end == "d" && flags[1] != "t" && rep[2] == final {
		modelViolation("sdl-model:done-without-postcondition", desc+": a retained block's StateDiffLength differs from StateDiff.Length(); database after: ["+final+"]", false)
		return
	}
	if rep[0] != "t" {
		modelViolation("sdl-model:attempt-not-producible", desc+": the model (sdl_attempt_ok) says the code cannot behave like this", true)
		return
	}
	got := "-"
	if len(after) > 0 {
		got = strings.Join(after, "~")
	}
	if rep[1] != got {
		modelViolation("sdl-model:state-after-write", desc+fmt.Sprintf(": database after each committed batch: model %s, code %s", rep[1], got), true)
		return
	}
	if rep[2] != final {
		modelViolation("sdl-model:final-state", desc+fmt.Sprintf(": database after Migrate: model [%s], code [%s]", rep[2], final), true)
		return
	}
	// the step-level model (the migration the runner-level theorem speaks about) replays the attempt
	gC.Hist["sdl-model:step-level-replay="+flags[4]]++
	if flags[4] == "f" {
		modelViolation("sdl-model:step-model-differs", desc+": sdl_step under the environment proposing these batches does not reach this database / token", true)
	}
}

func checkHsObs(ob migObs) {
	pre, flags := abstractHS(ob.pre)
	var batches [][]string
	var after []string
	wipes := 0
	unexpected := ""
	wipeOrder := [][]byte{db.ContractClassHash.Key(), db.ContractNonce.Key(), db.ContractDeploymentHeight.Key()}
	for _, ev := range ob.events {
		switch ev.kind {
		case "batch":
			if wipes > 0 {
				unexpected = "a batch after a DeleteRange"
			}
			b := []string{}
			for _, k := range ev.keys {
				if len(k) == 1+felt.Bytes && db.Bucket(k[0]) == db.Contract {
					b = append(b, hexBytes(k[1:]))
				} else {
					unexpected = fmt.Sprintf("a batch with key %x", k)
				}
			}
			batches = append(batches, b)
		case "delrange":
			if wipes >= 3 || !bytes.Equal(ev.start, wipeOrder[wipes]) {
				unexpected = fmt.Sprintf("DeleteRange starting at %x as number %d", ev.start, wipes+1)
			}
			wipes++
		default:
			unexpected = "a direct write"
		}
		s, f := abstractHS(ev.cp)
		flags = append(flags, f...)
		after = append(after, s)
	}
	end, ret := "e", fmt.Sprintf("(%x nil=%v, %v)", ob.st, ob.st == nil, ob.err)
	switch {
	case ob.st == nil && ob.err == nil:
		end = "d"
	case ob.st != nil && ob.ctxErr:
		end = "i"
	}
	desc := fmt.Sprintf("headstate.Migrate on rows [%s] (addr/class/nonce/height/contract) wrote batches %s, %d DeleteRanges and returned %s",
		pre, batchesStr(batches), wipes, ret)
	gC.Hist["headstate-model:end="+end]++
	gC.Hist[fmt.Sprintf("headstate-model:batches=%d,wipes=%d", len(batches), wipes)]++
	final, f := abstractHS(ob.post)
	flags = append(flags, f...)
	if len(flags) > 0 {
		modelViolation("headstate-model:undecodable", desc+": "+strings.Join(flags, "; "), true)
		return
	}
	if unexpected != "" {
		modelViolation("headstate-model:unexpected-write", desc+": "+unexpected, true)
		return
	}
	rep := splitReply(gOr.Ask(fmt.Sprintf("HA %s %s %d %s", pre, end, wipes, batchesStr(batches)), 1)[0], 5)
	fl := strings.Fields(rep[4]) // hs_ok(start) hs_wiped(final) hs_complete(start)
	if end == "d" && (fl[1] != "t" || fl[2] != final) && rep[2] == final {
		modelViolation("headstate-model:done-without-postcondition", desc+": database after: ["+final+"], completion of the start state: ["+fl[2]+"]", false)
		return
	}
	if rep[0] != "t" {
		modelViolation("headstate-model:attempt-not-producible", desc+": the model (hs_attempt_ok) says the code cannot behave like this", true)
		return
	}
	got := "-"
	if len(after) > 0 {
		got = strings.Join(after, "~")
	}
	if rep[1] != got {
		modelViolation("headstate-model:state-after-write", desc+fmt.Sprintf(": database after each write: model %s, code %s", rep[1], got), true)
		return
	}
	if rep[2] != final {
		modelViolation("headstate-model:final-state", desc+fmt.Sprintf(": database after Migrate: model [%s], code [%s]", rep[2], final), true)
		return
	}
	gC.Hist["headstate-model:step-level-replay="+fl[3]]++
	if fl[3] == "f" {
		modelViolation("headstate-model:step-model-differs", desc+": hs_step under the environment proposing these batches does not reach this database / token", true)
	}
}

// the runner's bookkeeping for the two modelled migrations after a start, against the model's
// apply functions: token stored / bit set
func checkBookkeeping(m *memory.Database, o runOut, where string) {
	md, _ := migration.GetSchemaMetadata(m)
	for _, e := range o.log {
		if !strings.HasPrefix(e, "R2:") && !strings.HasPrefix(e, "R3:") {
			continue
		}
		idx := int(e[1] - '0')
		tok, terr := migration.GetIntermediateState(m, uint8(idx))
		has := md.CurrentVersion.Has(uint8(idx))
		out := e[3:]
		name := "sdl-model"
		if idx == 2 {
			name = "headstate-model"
		}
		switch {
		case out == "D" && o.res != "failed" && (!has || terr == nil):
			modelViolation(name+":bookkeeping", fmt.Sprintf("%s: Migrate returned (nil, nil) but bit=%v token present=%v (Run: %s)", where, has, terr == nil, o.res), false)
		case strings.HasPrefix(out, "S") && o.res == "cancelled" && (has || terr != nil):
			modelViolation(name+":bookkeeping", fmt.Sprintf("%s: Migrate returned a resume token but bit=%v token present=%v", where, has, terr == nil), false)
		case out == "F" && has:
			modelViolation(name+":bookkeeping", fmt.Sprintf("%s: Migrate returned an error but the bit is set (token %x)", where, tok), false)
		}
	}
}

// ---------------------------------------------------------------------------------------------
// H-cases
// ---------------------------------------------------------------------------------------------
type HCase struct {
	Contracts int // number of contracts deployed over the first blocks
	Blocks    int
	Seed      uint64
}

func buildHWorld(hc HCase) *memory.Database {
	mem := memory.New()
	n := chain.NewNode(mem, false)
	r := hx.NewRNG(hc.Seed)
	next := uint64(100)
	deployed := []uint64{}
	for i := 0; i < hc.Blocks; i++ {
		spec := &chain.BlockSpec{Salt: uint64(i), Timestamp: uint64(2000 + i)}
		if i == 0 {
			spec.DeclareV0 = []uint64{7, 8}
		}
		left := hc.Contracts - len(deployed)
		k := 0
		if left > 0 {
			k = 1 + r.Intn(left)
			if i == hc.Blocks-1 {
				k = left
			}
		}
		spec.Deploy = map[uint64]uint64{}
		for j := 0; j < k; j++ {
			spec.Deploy[next] = 7 + uint64(r.Intn(2))
			deployed = append(deployed, next)
			next++
		}
		if len(deployed) > k && i > 0 {
			old := deployed[:len(deployed)-k]
			spec.Nonces = map[uint64]uint64{old[r.Intn(len(old))]: uint64(i) + 1}
			a := old[r.Intn(len(old))]
			spec.Storage = map[uint64]map[uint64]uint64{a: {uint64(i): uint64(i) * 3}}
			if r.Chance(40) {
				spec.Replace = map[uint64]uint64{old[r.Intn(len(old))]: 8}
			}
		}
		_, err := n.Finalise(spec)
		hx.Must(err)
	}
	// blocktransactions applied already (the chain is written in the current layout)
	hx.Must(migration.WriteSchemaMetadata(mem, migration.SchemaMetadata{CurrentVersion: 1, LastTargetVersion: 1}))
	for i := 0; i < hc.Blocks; i++ {
		cm, err := core.GetBlockCommitmentByBlockNum(mem, uint64(i))
		hx.Must(err)
		cm.StateDiffLength = 0
		hx.Must(core.WriteBlockCommitment(mem, uint64(i), cm))
	}
	// a contract whose nonce entry is missing (ingestAddress treats it as zero)
	if len(deployed) > 2 {
		hx.Must(mem.Delete(db.ContractNonceKey(chain.F(deployed[1]))))
	}
	return mem
}

func runH(c *hx.Ctx, or *hx.Oracle, r *hx.RNG, hc HCase, budget int) {
	gReplay = map[string]any{"kind": "H", "h": hc}
	rp := gReplay
	start := buildHWorld(hc)
	startAbs, fl := abstractHS(start)
	if len(fl) > 0 {
		hx.Fatalf("H world: %v", fl)
	}
	full := cfg{nmig: 4, newState: true}
	ref := start.Copy()
	o := runReal(ref, full, true, 0, 0)
	if o.res != "ok" {
		c.Violation("headstate:uninterrupted-run-failed", fmt.Sprintf("contracts=%d blocks=%d: %v", hc.Contracts, hc.Blocks, o.err), rp, false)
		return
	}
	refDmp := dump(ref)
	md, _ := migration.GetSchemaMetadata(ref)
	if uint64(md.CurrentVersion) != 0b1101 {
		c.Violation("headstate:metadata-after-run", fmt.Sprintf("cur=%b", md.CurrentVersion), rp, false)
	}
	// data preservation on the decoded databases: the extracted predicate
	finalAbs := hsdbOf(ref)
	pv := strings.Fields(or.Ask("HV "+startAbs+" "+finalAbs, 1)[0])
	c.Hist["h:consistent="+pv[0]]++
	if pv[0] != "t" || pv[1] != "t" || pv[2] != "t" {
		c.Violation("headstate:data-not-preserved", fmt.Sprintf("contracts=%d: legacy rows [%s], after the migration [%s]: consistent=%s view-equal=%s wiped=%s",
			hc.Contracts, startAbs, finalAbs, pv[0], pv[1], pv[2]), rp, false)
	}
	// ... and through the accessors: every legacy contract's class hash / nonce / height, and its
	// storage through the legacy reader (untouched buckets)
	checkHAccessors(c, start, ref, rp, "uninterrupted")
	win, ok := o.win[2]
	if !ok {
		hx.Fatalf("headstate not run")
	}
	c.Hist[fmt.Sprintf("h:contracts=%d,headstate-writes=%d,reads=%d", hc.Contracts, win[3]-win[1], win[2]-win[0])]++
	c.Count(fmt.Sprintf("H:%d:%d:%d:ref", hc.Contracts, hc.Blocks, hc.Seed), true)

	finish := func(m *memory.Database, desc string) {
		var o2 runOut
		for try := 0; try < 4; try++ {
			o2 = runReal(m, full, false, 0, 0)
			for _, s := range o2.bad {
				c.Violation("well-behaved:headstate", s, rp, false)
			}
			if o2.res == "ok" {
				break
			}
		}
		if o2.res != "ok" {
			c.Violation("headstate:resume-never-completes", fmt.Sprintf("%s: %s %v", desc, o2.res, o2.err), rp, false)
			return
		}
		if dump(m) != refDmp {
			c.Violation("headstate:resume-final-db-differs", desc+": the completed database differs from the uninterrupted one; rows now ["+hsdbOf(m)+"]", rp, false)
			return
		}
	}
	// crash after every write of (a few) uninterrupted runs, restart
	copies := o.px.copies
	for extra := 0; extra < 3; extra++ {
		ox := runReal(start.Copy(), full, true, 0, 0)
		copies = append(copies, ox.px.copies...)
	}
	for k, cp := range copies {
		finish(cp.Copy(), fmt.Sprintf("contracts=%d: process died after write %d", hc.Contracts, k%len(o.px.copies)+1))
		c.Count(fmt.Sprintf("H:%d:%d:%d:crash:%d", hc.Contracts, hc.Blocks, hc.Seed, k), true)
	}
	// cancellation at every write of the run and at sampled reads inside headstate's Migrate
	type pt struct{ w, r int }
	var pts []pt
	for k := 1; k <= o.px.writes; k++ {
		pts = append(pts, pt{w: k})
	}
	for j := 0; j < 2*budget && win[2] > win[0]; j++ {
		pts = append(pts, pt{r: 1 + r.Intn(win[2]-win[0])})
	}
	for _, p := range pts {
		m := start.Copy()
		cf := full
		var o1 runOut
		if p.w > 0 {
			o1 = runReal(m, cf, false, p.w, 0)
		} else {
			cf.cancelMig, cf.cancelReads = 3, p.r
			o1 = runReal(m, cf, false, 0, 0)
		}
		for _, s := range o1.bad {
			c.Violation("well-behaved:headstate", s, rp, false)
		}
		desc := fmt.Sprintf("contracts=%d: cancelled at write %d / read %d of headstate (%s)", hc.Contracts, p.w, p.r, o1.res)
		c.Hist["h:cancel:"+o1.res]++
		if o1.res == "failed" {
			c.Violation("headstate:cancelled-run-failed", fmt.Sprintf("%s: %v", desc, o1.err), rp, false)
			continue
		}
		if o1.res != "ok" {
			finish(m, desc)
		} else if dump(m) != refDmp {
			c.Violation("headstate:resume-final-db-differs", desc+": differs from the uninterrupted database", rp, false)
		}
		c.Count(fmt.Sprintf("H:%d:%d:%d:cancel:%d:%d", hc.Contracts, hc.Blocks, hc.Seed, p.w, p.r), true)
	}
	// one-shot I/O errors: every write attempt of the run, sampled reads inside headstate and statedifflength
	var fpts []pt
	for k := 1; k <= o.px.fwrites; k++ {
		fpts = append(fpts, pt{w: k})
	}
	for _, idx := range []int{2, 3} {
		wn := o.win[idx]
		for j := 0; j < 2*budget && wn[2] > wn[0]; j++ {
			fpts = append(fpts, pt{r: wn[0] + 1 + r.Intn(wn[2]-wn[0])})
		}
	}
	for _, p := range fpts {
		m := start.Copy()
		cf := full
		cf.faultWrite, cf.faultRead = p.w, p.r
		o1 := runReal(m, cf, false, 0, 0)
		if !o1.px.faulted {
			continue
		}
		where := "runner"
		if o1.px.faultMig >= 0 {
			where = migNames[o1.px.faultMig]
		}
		c.Hist["h:io-error:"+where+":"+o1.res]++
		desc := fmt.Sprintf("contracts=%d: injected I/O error at write attempt %d / read %d (hit %s): Run=%s (%v)", hc.Contracts, p.w, p.r, where, o1.res, o1.err)
		if o1.res == "ok" || o1.res == "cancelled" {
			c.Violation("headstate:io-error-swallowed:"+where, desc, rp, false)
		}
		finish(m, desc)
		c.Count(fmt.Sprintf("H:%d:%d:%d:io:%d:%d", hc.Contracts, hc.Blocks, hc.Seed, p.w, p.r), true)
	}
}

// the head state through the accessors: new layout after the migration vs legacy layout before it
func checkHAccessors(c *hx.Ctx, before, after *memory.Database, rp any, where string) {
	for k := range before.Impl().(map[string][]byte) {
		if len(k) != 1+felt.Bytes || db.Bucket(k[0]) != db.ContractClassHash {
			continue
		}
		addr := new(felt.Felt).SetBytes([]byte(k[1:]))
		class, err := core.GetContractClassHash(before, addr)
		hx.Must(err)
		nonce, err := core.GetContractNonce(before, addr)
		if err != nil && !errors.Is(err, db.ErrKeyNotFound) {
			hx.Must(err)
		}
		height, err := core.GetContractDeploymentHeight(before, addr)
		hx.Must(err)
		got, err := state.GetContract(after, addr)
		if err != nil || !got.ClassHash.Equal(&class) || !got.Nonce.Equal(&nonce) || got.DeployedHeight != height {
			c.Violation("headstate:contract-differs", fmt.Sprintf("%s: contract %s: legacy (class %s nonce %s height %d), Contract record %+v (%v)",
				where, addr, &class, &nonce, height, got, err), rp, false)
			return
		}
		if _, err := core.GetContractClassHash(after, addr); !errors.Is(err, db.ErrKeyNotFound) {
			c.Violation("headstate:legacy-bucket-not-wiped", fmt.Sprintf("%s: ContractClassHash[%s] still present", where, addr), rp, false)
			return
		}
	}
}

var _ = context.Background
