// C19 correspondence: real consensus/propeller (PadMessage/UnpadMessage, CreatePropellerUnits,
// ConstructMessageFromUnits, merkle, Scheduler, UnitValidator) against the extracted Coq model, plus
// the property predicates evaluated on what the implementation did.
package main

import (
	"bytes"
	"cmp"
	"crypto/ed25519"
	"crypto/sha256"
	"encoding/hex"
	"fmt"
	"slices"
	"strconv"
	"strings"

	"github.com/NethermindEth/juno/consensus/propeller"
	"github.com/NethermindEth/juno/consensus/propeller/merkle"
	jrs "github.com/NethermindEth/juno/consensus/propeller/reedsolomon"
	"github.com/libp2p/go-libp2p/core/crypto"
	"github.com/libp2p/go-libp2p/core/peer"
	"verifharness/hx"
)

var (
	c    *hx.Ctx
	or   *hx.Oracle
	tags [5][]byte
)

func tohex(b []byte) string {
	if len(b) == 0 {
		return "-"
	}
	return hex.EncodeToString(b)
}
func unhex(s string) []byte {
	if s == "-" || s == "" {
		return []byte{}
	}
	b, err := hex.DecodeString(s)
	hx.Must(err)
	return b
}

// ---------- evaluation of the model's digest terms with real SHA-256 and the MODEL's tags ----------
func evalTerm(s string, pos *int) [32]byte {
	switch s[*pos] {
	case 'L', 'C':
		kind := s[*pos]
		*pos++
		end := strings.IndexByte(s[*pos:], '.') + *pos
		data := unhex(s[*pos:end])
		*pos = end + 1
		if kind == 'C' {
			var d [32]byte
			copy(d[:], data)
			return d
		}
		return sha256.Sum256(slices.Concat(tags[0], data, tags[1]))
	case 'N':
		*pos++
		l := evalTerm(s, pos)
		r := evalTerm(s, pos)
		return sha256.Sum256(slices.Concat(tags[2], l[:], tags[3], r[:], tags[4]))
	}
	hx.Fatalf("bad term %q at %d", s, *pos)
	return [32]byte{}
}
func evalT(s string) [32]byte { p := 0; return evalTerm(s, &p) }
func evalProof(s string) [][32]byte {
	if s == "-" || s == "" {
		return nil
	}
	var res [][32]byte
	for _, t := range strings.Split(s, ",") {
		res = append(res, evalT(t))
	}
	return res
}

// ---------- deterministic committee ----------
type member struct {
	priv crypto.PrivKey
	id   peer.ID
}

func mkKey(seed int) member {
	s := make([]byte, ed25519.SeedSize)
	s[0], s[1], s[2] = byte(seed), byte(seed>>8), 0x19
	priv, _, err := crypto.GenerateEd25519Key(bytes.NewReader(s))
	hx.Must(err)
	id, err := peer.IDFromPrivateKey(priv)
	hx.Must(err)
	return member{priv, id}
}

// committee(n): members sorted by peer id, so that rank r (1-based) is position r-1 of the scheduler
func committee(n int) []member {
	ms := make([]member, n)
	for i := range ms {
		ms[i] = mkKey(i + 1)
	}
	slices.SortFunc(ms, func(a, b member) int { return cmp.Compare(a.id, b.id) })
	return ms
}

var outsider = mkKey(9999)

func msgOf(r *hx.RNG, n int) []byte {
	m := make([]byte, n)
	mode := r.Intn(4)
	for i := range m {
		switch mode {
		case 0:
			m[i] = byte(r.U64())
		case 1:
			m[i] = 0
		case 2:
			m[i] = 0xff
		default:
			m[i] = byte(i)
		}
	}
	return m
}

// ---------- real-code wrappers that turn panics into observations ----------
func realConstruct(units []*propeller.Unit, local, k, parity int) (res string, msg []byte) {
	defer func() {
		if p := recover(); p != nil {
			res, msg = "panic", nil
		}
	}()
	m, sd, proof, err := propeller.ConstructMessageFromUnits(units, propeller.ShardIndex(local), k, parity)
	if err != nil {
		e := err.Error()
		switch {
		case strings.Contains(e, "no propeller units"):
			return "err:nounits", nil
		case strings.Contains(e, "recovering shards data"):
			return "err:rs", nil
		case strings.Contains(e, "missmatch on shard size"):
			return "err:shardsize", nil
		case strings.Contains(e, "wrong message root"):
			return "err:root", nil
		case strings.Contains(e, "unpadding"):
			return "err:unpad", nil
		}
		return "err:other:" + e, nil
	}
	ps := make([]string, len(proof.Siblings))
	for i, s := range proof.Siblings {
		ps[i] = hex.EncodeToString(s[:])
	}
	p := strings.Join(ps, ",")
	if p == "" {
		p = "-"
	}
	var sh []byte
	if len(sd) == 1 {
		sh = sd[0]
	}
	return "ok:" + tohex(m) + ":" + tohex(sh) + ":" + p, m
}

// the model's "ok:msg:shard:proofterms" with the proof terms evaluated to digests
func evalModelOut(o string) string {
	if !strings.HasPrefix(o, "ok:") {
		return o
	}
	f := strings.SplitN(o, ":", 4)
	ps := evalProof(f[3])
	hs := make([]string, len(ps))
	for i, d := range ps {
		hs[i] = hex.EncodeToString(d[:])
	}
	p := strings.Join(hs, ",")
	if p == "" {
		p = "-"
	}
	return "ok:" + f[1] + ":" + f[2] + ":" + p
}

func realUnpad(p []byte) (res string) {
	defer func() {
		if x := recover(); x != nil {
			res = "panic"
		}
	}()
	m, err := propeller.UnpadMessage(p)
	if err != nil {
		return "err"
	}
	return "ok:" + tohex(m)
}

func copyUnit(u *propeller.Unit) *propeller.Unit {
	v := *u
	v.MerkleProof.Siblings = append([]merkle.Hash{}, u.MerkleProof.Siblings...)
	v.Signature = append(propeller.Signature{}, u.Signature...)
	v.ShardData = make(propeller.ShardData, len(u.ShardData))
	for i, s := range u.ShardData {
		v.ShardData[i] = append(propeller.Shard{}, s...)
	}
	return &v
}

// ---------- part B: create -> subset -> construct ----------
type CaseB struct {
	Kind   string   `json:"kind"`
	K      int      `json:"k"`
	Parity int      `json:"parity"`
	Local  int      `json:"local"`
	Msg    string   `json:"msg"`
	Nonce  int64    `json:"nonce"`
	Masks  []string `json:"masks"`
}

var cid = propeller.CommitteeID{0xc1, 0x9}
var pub = mkKey(777)

func runCaseB(cb CaseB, sample bool) {
	msg := unhex(cb.Msg)
	k, parity, n := cb.K, cb.Parity, cb.K+cb.Parity
	rep := func(class, what string, noInput bool) { c.Violation(class, what, cb, noInput) }
	units, err := propeller.CreatePropellerUnits(pub.priv, &cid, propeller.Nonce(cb.Nonce), msg, k, parity)
	if err != nil {
		rep("create-error", fmt.Sprintf("CreatePropellerUnits(k=%d,parity=%d,len=%d) failed: %v", k, parity, len(msg), err), false)
		return
	}
	shs := make([]string, len(units))
	for i := range units {
		if len(units[i].ShardData) != 1 {
			rep("create-shape", "unit without exactly one shard", true)
			return
		}
		shs[i] = tohex(units[i].ShardData[0])
	}
	masks := "-"
	if len(cb.Masks) > 0 {
		masks = strings.Join(cb.Masks, ",")
	}
	lines := or.AskUntil(fmt.Sprintf("case %d %d %d %d %s %s %s", k, parity, cb.Local, cb.Nonce, tohex(msg), strings.Join(shs, ","), masks), "end")
	get := func(pre string) string {
		for _, l := range lines {
			if strings.HasPrefix(l, pre+" ") {
				return strings.TrimPrefix(l, pre+" ")
			}
		}
		hx.Fatalf("oracle reply lacks %q", pre)
		return ""
	}
	// padding bytes
	padded := propeller.PadMessage(msg, k)
	if tohex(padded) != get("padded") {
		rep("pad-vs-model", fmt.Sprintf("PadMessage(len %d, k %d) = %s, model %s", len(msg), k, tohex(padded), get("padded")), true)
	}
	if len(padded)%(2*k) != 0 {
		rep("pad-not-divisible", fmt.Sprintf("len(PadMessage)=%d not divisible by 2k=%d", len(padded), 2*k), false)
	}
	if r := realUnpad(padded); r != "ok:"+tohex(msg) {
		rep("unpad-pad", fmt.Sprintf("UnpadMessage(PadMessage(m)) = %s for len %d k %d", r, len(msg), k), false)
	}
	// shard count / size / content (data shards come from the model's split, parity is the table)
	if len(units) != n {
		rep("shard-count", fmt.Sprintf("%d units for k=%d parity=%d", len(units), k, parity), false)
	}
	if strings.Join(shs, ",") != get("enc") {
		rep("shards-vs-model", fmt.Sprintf("shards differ from the model's split: %s vs %s", strings.Join(shs, ","), get("enc")), true)
	}
	for i := range units {
		if len(units[i].ShardData[0]) != len(padded)/k {
			rep("shard-size", fmt.Sprintf("shard %d has %d bytes, padded %d / k %d", i, len(units[i].ShardData[0]), len(padded), k), false)
		}
	}
	// root and proofs through the term structure
	root := evalT(get("root"))
	proofs := strings.Split(get("proofs"), "|")
	for i := range units {
		u := &units[i]
		if [32]byte(u.MessageRoot) != root {
			rep("root-vs-model", fmt.Sprintf("unit %d root %x, model %x", i, u.MessageRoot, root), true)
			break
		}
		mp := evalProof(proofs[i])
		if len(mp) != len(u.MerkleProof.Siblings) {
			rep("proof-length-vs-model", fmt.Sprintf("unit %d proof has %d siblings, model %d (n=%d)", i, len(u.MerkleProof.Siblings), len(mp), n), true)
			break
		}
		for j := range mp {
			if mp[j] != [32]byte(u.MerkleProof.Siblings[j]) {
				rep("proof-sibling-vs-model", fmt.Sprintf("unit %d sibling %d differs", i, j), true)
			}
		}
		// property: every shard's proof verifies against the signed root ...
		h := merkle.Hash(u.MessageRoot)
		if !u.MerkleProof.Verify(&h, u.ShardData[0], uint32(u.ShardIndex)) {
			rep("proof-does-not-verify", fmt.Sprintf("unit %d: Proof.Verify(root, shard, index) = false", i), false)
		}
		if int(u.ShardIndex) != i || u.Publisher != pub.id || u.CommitteeID != cid {
			rep("unit-fields", fmt.Sprintf("unit %d has index %d / wrong publisher or committee", i, u.ShardIndex), false)
		}
		// ... and the root is signed (with the nonce given to creation)
		if err := propeller.VerifyMessageSignature(pub.priv.GetPublic(), &u.MessageRoot, &u.CommitteeID, propeller.Nonce(cb.Nonce), u.Signature); err != nil {
			rep("signature-does-not-verify", fmt.Sprintf("unit %d: signature over (root, committee, nonce) invalid: %v", i, err), false)
		}
		// the signature as the validator will check it: with the nonce carried by the unit
		if err := propeller.VerifyMessageSignature(pub.priv.GetPublic(), &u.MessageRoot, &u.CommitteeID, u.Nonce, u.Signature); err != nil {
			rep("unit-nonce-does-not-verify", fmt.Sprintf("unit %d: CreatePropellerUnits(nonce=%d) made Unit.Nonce=%d; VerifyMessageSignature with the unit's own nonce fails: %v", i, cb.Nonce, u.Nonce, err), false)
		}
	}
	if strconv.FormatInt(int64(units[0].Nonce), 16) != get("nonce") {
		rep("unit-nonce-vs-model", fmt.Sprintf("Unit.Nonce = %d, model %s", units[0].Nonce, get("nonce")), true)
	}
	// every requested subset
	var outs []string
	for _, l := range lines {
		if strings.HasPrefix(l, "out ") {
			f := strings.SplitN(l, " ", 3)
			outs = append(outs, evalModelOut(f[2]))
		}
	}
	var res []string
	if len(cb.Masks) > 0 {
		res = strings.Split(get("res"), ",")
	}
	for mi, mask := range cb.Masks {
		ptrs := make([]*propeller.Unit, n)
		present := 0
		for i := 0; i < n; i++ {
			if mask[i] == '1' {
				ptrs[i] = copyUnit(&units[i])
				present++
			}
		}
		got, gm := realConstruct(ptrs, cb.Local, k, parity)
		idx, _ := strconv.Atoi(res[mi])
		want := outs[idx]
		miss0 := "0present"
		if mask[0] == '0' {
			miss0 = "0missing"
		}
		c.Hist[fmt.Sprintf("subset:%s:%s", miss0, strings.SplitN(got, ":", 3)[0]+":"+map[bool]string{true: "enough", false: "few"}[present >= k])]++
		c.Count(fmt.Sprintf("B/%d/%d/%d/%s/%s", k, parity, cb.Local, cb.Msg, mask), present < n)
		one := cb
		one.Masks = []string{mask}
		// the property predicate
		if got == "panic" {
			c.Violation("construct-panic:"+miss0, fmt.Sprintf("ConstructMessageFromUnits panicked: k=%d parity=%d present=%s len=%d", k, parity, mask, len(msg)), one, false)
			continue
		}
		if present >= k && (gm == nil || !bytes.Equal(gm, msg) || !strings.HasPrefix(got, "ok:")) {
			c.Violation("not-reconstructed:"+miss0, fmt.Sprintf("%d of %d shards present (k=%d, mask %s) but result %s", present, n, k, mask, got[:min(len(got), 60)]), one, false)
			continue
		}
		if strings.HasPrefix(got, "ok:") && !bytes.Equal(gm, msg) {
			c.Violation("wrong-message-delivered", fmt.Sprintf("mask %s delivered a different message", mask), one, false)
			continue
		}
		if got != want {
			c.Violation("construct-vs-model", fmt.Sprintf("mask %s: real %s, model %s", mask, got[:min(len(got), 80)], want[:min(len(want), 80)]), one, true)
		}
	}
	if sample {
		c.Sample(map[string]any{"k": k, "parity": parity, "len": len(msg), "local": cb.Local, "padded_len": len(padded), "proof_len": len(units[0].MerkleProof.Siblings), "masks": len(cb.Masks)})
	}
}

// a publisher that signs a padded message whose varint announces 2^64-1 bytes: every field of every
// unit matches, reconstruction reaches UnpadMessage (observation, see findings/C19.md)
func craftedOverflowProbe() string {
	padded := []byte{0xff, 0xff, 0xff, 0xff, 0xff, 0xff, 0xff, 0xff, 0xff, 0x01, 0, 0}
	shards, err := jrs.EncodeData(padded, 2, 1)
	if err != nil {
		return "encode-error"
	}
	root, tree := merkle.New(shards)
	units := make([]*propeller.Unit, len(shards))
	for i := range shards {
		units[i] = &propeller.Unit{CommitteeID: cid, Publisher: pub.id, MessageRoot: propeller.MessageRoot(root), MerkleProof: tree[i], ShardIndex: propeller.ShardIndex(i), ShardData: propeller.ShardData{shards[i]}}
	}
	got, _ := realConstruct(units, 0, 2, 1)
	return got
}

// tampered units straight into ConstructMessageFromUnits: error or the same message, never a panic
func tamperConstruct(r *hx.RNG, k, parity int, msg []byte) {
	n := k + parity
	units, err := propeller.CreatePropellerUnits(pub.priv, &cid, 0, msg, k, parity)
	hx.Must(err)
	other, err := propeller.CreatePropellerUnits(pub.priv, &cid, 0, append([]byte{0x5a}, msg...), k, parity)
	hx.Must(err)
	for t := 0; t < 6; t++ {
		ptrs := make([]*propeller.Unit, n)
		present := []int{}
		for i := 0; i < n; i++ {
			if r.Chance(75) {
				ptrs[i] = copyUnit(&units[i])
				present = append(present, i)
			}
		}
		if len(present) == 0 {
			continue
		}
		victim := present[r.Intn(len(present))]
		kind := []string{"shard-byte", "root-first", "root-other", "swap", "foreign-unit", "shard-truncated", "proof"}[r.Intn(7)]
		mustErr := false
		switch kind {
		case "shard-byte":
			s := ptrs[victim].ShardData[0]
			s[r.Intn(len(s))] ^= 1 << r.Intn(8)
		case "root-first":
			ptrs[present[0]].MessageRoot[r.Intn(32)] ^= 1
			mustErr = true
		case "root-other":
			ptrs[victim].MessageRoot[r.Intn(32)] ^= 1
			mustErr = victim == present[0]
		case "swap":
			o := r.Intn(n)
			ptrs[victim], ptrs[o] = ptrs[o], ptrs[victim]
		case "foreign-unit":
			ptrs[victim] = copyUnit(&other[victim])
		case "shard-truncated":
			s := ptrs[victim].ShardData[0]
			ptrs[victim].ShardData[0] = s[:len(s)-1]
		case "proof":
			if len(ptrs[victim].MerkleProof.Siblings) > 0 {
				ptrs[victim].MerkleProof.Siblings[0][0] ^= 1
			}
		}
		var claimed propeller.MessageRoot
		for _, u := range ptrs {
			if u != nil {
				claimed = u.MessageRoot
				break
			}
		}
		got, gm := realConstruct(ptrs, r.Intn(n), k, parity)
		st := strings.SplitN(got, ":", 3)
		hk := st[0]
		if st[0] == "err" {
			hk = got
		}
		c.Hist["tamper-construct:"+kind+":"+hk]++
		c.Count(fmt.Sprintf("T/%d/%d/%x/%s/%d/%d", k, parity, msg, kind, victim, t), true)
		rp := map[string]any{"kind": "tamper", "k": k, "parity": parity, "msg": tohex(msg), "tamper": kind, "victim": victim, "present": present}
		isOk := strings.HasPrefix(got, "ok:")
		switch {
		case got == "panic":
			c.Violation("tampered-unit-panics-construct:"+kind, fmt.Sprintf("ConstructMessageFromUnits panicked on a tampered unit (%s, k=%d parity=%d)", kind, k, parity), rp, false)
		case isOk && claimed == units[0].MessageRoot && !bytes.Equal(gm, msg):
			// C19_no_wrong_message: under the honest signed root only the sent message comes out
			c.Violation("tampered-unit-changes-message:"+kind, fmt.Sprintf("a tampered unit (%s) made a different message come out under the honest root", kind), rp, false)
		case isOk && claimed == other[0].MessageRoot && !bytes.Equal(gm, append([]byte{0x5a}, msg...)):
			c.Violation("tampered-unit-changes-message:"+kind, "under the other message's signed root something else than that message came out", rp, false)
		case isOk && claimed != units[0].MessageRoot && claimed != other[0].MessageRoot:
			c.Violation("tampered-root-accepted", "the first present unit carries a root nobody signed but a message was delivered", rp, false)
		}
		_ = mustErr
	}
}


// ---------- Merkle layer alone: merkle.New / Proof.Verify against the model's tree over abstract leaves ----------
// The model's tree is parametric in the leaf data (TL d), so the oracle is asked once per leaf count for
// the tree over the one-byte leaves 00, 01, ...; leaf i is then substituted by the real data and the
// terms are evaluated with SHA-256 and the model's tags.
var shapeCache = map[int][2]string{}

func evalTermSub(s string, pos *int, leaves [][]byte) [32]byte {
	switch s[*pos] {
	case 'L':
		*pos++
		end := strings.IndexByte(s[*pos:], '.') + *pos
		idx := unhex(s[*pos:end])
		*pos = end + 1
		var data []byte // the padding leaf hashes no data
		if len(idx) == 1 {
			data = leaves[idx[0]]
		}
		return sha256.Sum256(slices.Concat(tags[0], data, tags[1]))
	case 'N':
		*pos++
		l := evalTermSub(s, pos, leaves)
		r := evalTermSub(s, pos, leaves)
		return sha256.Sum256(slices.Concat(tags[2], l[:], tags[3], r[:], tags[4]))
	}
	hx.Fatalf("bad shape term %q at %d", s, *pos)
	return [32]byte{}
}

func merkleShape(n int) (string, []string) {
	if sh, ok := shapeCache[n]; ok {
		return sh[0], strings.Split(sh[1], "|")
	}
	ls := make([]string, n)
	for i := range ls {
		ls[i] = fmt.Sprintf("%02x", i)
	}
	rep := or.Ask("merkle "+strings.Join(ls, ","), 2)
	shapeCache[n] = [2]string{strings.TrimPrefix(rep[0], "root "), strings.TrimPrefix(rep[1], "proofs ")}
	return merkleShape(n)
}

func tailPositions(n int) map[string]int {
	res := map[string]int{}
	if n >= 1 {
		res["first"] = 0
		res["middle"] = n / 2
		res["last"] = n - 1
	}
	if n >= 2 {
		res["last2"] = n - 2
	}
	return res
}

func merkleDirect(r *hx.RNG, lens []int) {
	n := len(lens)
	leaves := make([][]byte, n)
	for i, l := range lens {
		leaves[i] = make([]byte, l)
		for j := range leaves[i] {
			leaves[i][j] = byte(r.U64())
		}
	}
	rootT, proofsT := merkleShape(n)
	root, tree := merkle.New(leaves)
	rp := map[string]any{"kind": "merkle", "lens": lens, "seed": c.Seed}
	c.Count(fmt.Sprintf("M/%v/%x", lens, root[:6]), true)
	c.Hist[fmt.Sprintf("merkle-direct:n=%d", n)]++
	p := 0
	if want := evalTermSub(rootT, &p, leaves); want != [32]byte(root) {
		c.Violation("merkle-root-vs-model", fmt.Sprintf("merkle.New over leaves of lengths %v: root differs from SHA-256 over the model's tree", lens), rp, true)
	}
	if len(tree) != n {
		c.Violation("merkle-proof-count", fmt.Sprintf("merkle.New returned %d proofs for %d leaves", len(tree), n), rp, true)
		return
	}
	for i := 0; i < n; i++ {
		var sibs []string
		if proofsT[i] != "-" {
			sibs = strings.Split(proofsT[i], ",")
		}
		if len(sibs) != len(tree[i].Siblings) {
			c.Violation("merkle-proof-length-vs-model", fmt.Sprintf("leaf %d of %d: %d siblings, model %d", i, n, len(tree[i].Siblings), len(sibs)), rp, true)
			continue
		}
		for j, t := range sibs {
			q := 0
			if evalTermSub(t, &q, leaves) != [32]byte(tree[i].Siblings[j]) {
				c.Violation("merkle-sibling-vs-model", fmt.Sprintf("leaf %d sibling %d differs from the model (leaf lengths %v)", i, j, lens), rp, true)
			}
		}
		// completeness on the implementation
		if !tree[i].Verify(&root, leaves[i], uint32(i)) {
			c.Violation("merkle-proof-does-not-verify", fmt.Sprintf("Proof.Verify false for leaf %d (length %d) of %d", i, lens[i], n), rp, false)
		}
		// soundness on the implementation: a leaf changed in one byte / one byte shorter / longer must not verify
		for name, pos := range tailPositions(lens[i]) {
			t := append([]byte{}, leaves[i]...)
			t[pos] ^= 1 << r.Intn(8)
			if tree[i].Verify(&root, t, uint32(i)) {
				c.Violation("merkle-verify-accepts-tampered-leaf:"+name, fmt.Sprintf("Proof.Verify accepts leaf %d (length %d) with byte %d flipped", i, lens[i], pos),
					map[string]any{"kind": "merkle", "lens": lens, "seed": c.Seed, "leaf": i, "pos": pos}, false)
			}
		}
		if lens[i] > 0 && tree[i].Verify(&root, leaves[i][:lens[i]-1], uint32(i)) {
			c.Violation("merkle-verify-accepts-tampered-leaf:truncated", fmt.Sprintf("Proof.Verify accepts leaf %d (length %d) with its last byte cut", i, lens[i]), rp, false)
		}
		if tree[i].Verify(&root, append(append([]byte{}, leaves[i]...), 0), uint32(i)) {
			c.Violation("merkle-verify-accepts-tampered-leaf:extended", fmt.Sprintf("Proof.Verify accepts leaf %d (length %d) with a zero byte appended", i, lens[i]), rp, false)
		}
	}
}

// message length whose padding gives exactly k shards of the wanted (even) size
func msgLenForShard(size, k int) int {
	for vl := 1; vl <= 4; vl++ {
		m := size*k - vl
		if m >= 0 && len(propeller.PadMessage(make([]byte, m), k)) == size*k {
			return m
		}
	}
	return -1
}

// a byte flipped at the first / middle / second-to-last / last position of one present shard, with exactly
// k units present (every present shard is used by the decoder) and with all present
func tamperTail(r *hx.RNG, k, parity int, msg []byte) {
	n := k + parity
	units, err := propeller.CreatePropellerUnits(pub.priv, &cid, 0, msg, k, parity)
	hx.Must(err)
	size := len(units[0].ShardData[0])
	for name, pos := range tailPositions(size) {
		for _, exact := range []bool{true, true, false} {
			perm := make([]int, n)
			for i := range perm {
				perm[i] = i
			}
			for i := n - 1; i > 0; i-- {
				j := r.Intn(i + 1)
				perm[i], perm[j] = perm[j], perm[i]
			}
			cnt := n
			if exact {
				cnt = k
			}
			present := append([]int{}, perm[:cnt]...)
			slices.Sort(present)
			ptrs := make([]*propeller.Unit, n)
			for _, i := range present {
				ptrs[i] = copyUnit(&units[i])
			}
			victim := present[r.Intn(len(present))]
			ptrs[victim].ShardData[0][pos] ^= 1 << r.Intn(8)
			got, gm := realConstruct(ptrs, r.Intn(n), k, parity)
			hk := strings.SplitN(got, ":", 3)[0]
			if hk == "err" {
				hk = got
			}
			ex := map[bool]string{true: "exactly-k", false: "all"}[exact]
			c.Hist["tamper-byte:"+name+":"+ex+":"+hk]++
			c.Count(fmt.Sprintf("TT/%d/%d/%d/%s/%v/%d", k, parity, len(msg), name, present, victim), true)
			rp := map[string]any{"kind": "tamper-byte", "k": k, "parity": parity, "msg_len": len(msg), "msg": tohex(msg[:min(len(msg), 64)]) + "...", "shard_size": size, "pos": pos, "victim": victim, "present": present}
			switch {
			case got == "panic":
				c.Violation("tampered-unit-panics-construct:shard-"+name, fmt.Sprintf("ConstructMessageFromUnits panicked (shard %d byte %d flipped, k=%d parity=%d)", victim, pos, k, parity), rp, false)
			case strings.HasPrefix(got, "ok:") && !bytes.Equal(gm, msg):
				c.Violation("tampered-unit-changes-message:shard-"+name,
					fmt.Sprintf("shard %d (size %d) with byte %d flipped, %d of %d units present (k=%d): a different message was delivered under the honest root", victim, size, pos, len(present), n, k), rp, false)
			}
		}
	}
}

// ---------- part C: the validator ----------
type CaseV struct {
	Kind  string   `json:"kind"`
	N     int      `json:"n"`
	Local int      `json:"local"` // ranks, 1-based
	Pub   int      `json:"pub"`
	Mode  string   `json:"mode"` // raw = units exactly as CreatePropellerUnits makes them; proto = tree over MarshalProto leaves
	Copy  int      `json:"copy"` // 1 = Unit.Nonce as CreatePropellerUnits sets it (the signed nonce); 0 = stripped to 0 (variant)
	Nonce int      `json:"nonce"`
	Msg   string   `json:"msg"`
	Steps []string `json:"steps"` // unit:corruption:senderRank
}

func idOfRank(ms []member, r int) peer.ID {
	if r >= 1 && r <= len(ms) {
		return ms[r-1].id
	}
	return outsider.id
}

func verdictOf(err error) string {
	if err == nil {
		return "ok"
	}
	e := err.Error()
	switch {
	case strings.Contains(e, "duplicated shard"):
		return "dup"
	case strings.Contains(e, "self sending"):
		return "origin-selfsend"
	case strings.Contains(e, "self published"):
		return "origin-selfpub"
	case strings.Contains(e, "couldn't validate publisher"):
		return "origin-sched"
	case strings.Contains(e, "unexpected sender"):
		return "origin-unexpected"
	case strings.Contains(e, "unexpected amount of shards"):
		return "shardcount"
	case strings.Contains(e, "data shards verification failed"):
		return "merkle"
	case strings.Contains(e, "signature missmatch"):
		return "sigmismatch"
	case strings.Contains(e, "failed message signature verification"):
		return "sig"
	}
	return "other:" + e
}

func fill(v byte) (h [32]byte) {
	for i := range h {
		h[i] = v
	}
	return
}

func applyCorruption(u *propeller.Unit, corr string, ms []member) {
	num := func(pre string) int { x, err := strconv.Atoi(strings.TrimPrefix(corr, pre)); hx.Must(err); return x }
	switch {
	case corr == "none":
	case corr == "dataempty":
		u.ShardData = propeller.ShardData{}
	case corr == "data2":
		u.ShardData = append(u.ShardData, u.ShardData[0])
	case strings.HasPrefix(corr, "data"):
		u.ShardData[0][num("data")] ^= 1
	case corr == "sibdrop":
		u.MerkleProof.Siblings = u.MerkleProof.Siblings[:len(u.MerkleProof.Siblings)-1]
	case corr == "sibadd":
		u.MerkleProof.Siblings = append(u.MerkleProof.Siblings, merkle.Hash(fill(0xaa)))
	case strings.HasPrefix(corr, "sib"):
		u.MerkleProof.Siblings[num("sib")] = merkle.Hash(fill(0xbb))
	case corr == "root":
		u.MessageRoot = propeller.MessageRoot(fill(0xcc))
	case strings.HasPrefix(corr, "index"):
		u.ShardIndex = propeller.ShardIndex(num("index"))
	case corr == "sig":
		u.Signature[len(u.Signature)/2] ^= 4
	case corr == "sigempty":
		u.Signature = nil
	case corr == "committee":
		u.CommitteeID = propeller.CommitteeID(fill(0xdd))
	case strings.HasPrefix(corr, "nonce"):
		u.Nonce = propeller.Nonce(num("nonce"))
	case strings.HasPrefix(corr, "publisher"):
		u.Publisher = idOfRank(ms, num("publisher"))
	default:
		hx.Fatalf("corruption %q", corr)
	}
}

func runCaseV(cv CaseV, sample bool) {
	ms := committee(cv.N)
	nodes := make([]propeller.PeerCommittee, cv.N)
	for i := range ms {
		nodes[cv.N-1-i] = propeller.PeerCommittee{ID: ms[i].id, Stake: 1}
	}
	sch, err := propeller.NewScheduler(ms[cv.Local-1].id, nodes)
	hx.Must(err)
	k, parity := sch.NumDataShards(), sch.NumCodingShards()
	pubm := ms[cv.Pub-1]
	msg := unhex(cv.Msg)
	units, err := propeller.CreatePropellerUnits(pubm.priv, &cid, propeller.Nonce(cv.Nonce), msg, k, parity)
	hx.Must(err)
	shs := make([]string, len(units))
	honest := make([][]byte, len(units))
	for i := range units {
		honest[i] = append([]byte{}, units[i].ShardData[0]...)
		shs[i] = tohex(honest[i])
	}
	if cv.Mode == "proto" {
		leaves := make([][]byte, len(units))
		for i := range units {
			leaves[i] = units[i].ShardData.MarshalProto()
		}
		root, tree := merkle.New(leaves)
		mr := propeller.MessageRoot(root)
		sig, err := propeller.SignMessage(pubm.priv, &mr, &cid, propeller.Nonce(cv.Nonce))
		hx.Must(err)
		for i := range units {
			units[i].MessageRoot, units[i].MerkleProof, units[i].Signature = mr, tree[i], sig
		}
	}
	if cv.Copy == 0 { // variant: the unit does not carry the nonce (what creation did before 5be9250)
		for i := range units {
			units[i].Nonce = 0
		}
	}
	honestRoot := units[0].MessageRoot
	rep := or.Ask(fmt.Sprintf("val %d %d %d %s %d %d %s %s %s", cv.N, cv.Local, cv.Pub, cv.Mode, cv.Copy, cv.Nonce, tohex(msg), strings.Join(shs, ","), strings.Join(cv.Steps, ";")), 1)[0]
	f := strings.Fields(rep)
	if f[1] != strconv.Itoa(k) || f[2] != strconv.Itoa(parity) {
		c.Violation("scheduler-shards-vs-model", fmt.Sprintf("n=%d: real k=%d parity=%d, model %s %s", cv.N, k, parity, f[1], f[2]), cv, true)
		return
	}
	model := f[3:]
	v := propeller.NewValidator(pubm.id, sch)
	accepted := map[int]*propeller.Unit{}
	var reals []string
	for si, st := range cv.Steps {
		p := strings.Split(st, ":")
		ui, _ := strconv.Atoi(p[0])
		sr, _ := strconv.Atoi(p[2])
		u := copyUnit(&units[ui])
		applyCorruption(u, p[1], ms)
		sender := idOfRank(ms, sr)
		var got string
		func() {
			defer func() {
				if x := recover(); x != nil {
					got = "panic"
				}
			}()
			got = verdictOf(v.Validate(u, sender))
		}()
		if got == "ok" {
			same := u.MessageRoot == honestRoot && int(u.ShardIndex) < len(honest) && len(u.ShardData) == 1 && bytes.Equal(u.ShardData[0], honest[u.ShardIndex])
			if same {
				got = "ok+"
				accepted[int(u.ShardIndex)] = u
			} else {
				got = "ok-"
			}
		}
		reals = append(reals, got)
		kind := strings.TrimRight(p[1], "0123456789")
		c.Hist["validate:"+cv.Mode+":"+kind+":"+got]++
		one := cv
		one.Steps = cv.Steps[:si+1]
		switch {
		case got == "panic":
			c.Violation("validate-panics:"+kind, fmt.Sprintf("UnitValidator.Validate panicked on a unit with tampered %s", kind), one, false)
		case got == "ok-":
			c.Violation("tampered-unit-accepted:"+kind, fmt.Sprintf("Validate accepted a unit with tampered %s that does not carry the honest shard of its index", kind), one, false)
		case got != model[si]:
			c.Violation("validate-vs-model:"+kind, fmt.Sprintf("step %d (%s): real %s, model %s", si, st, got, model[si]), one, true)
		}
		// units exactly as CreatePropellerUnits makes them, from the right sender, first time: must pass
		if cv.Mode == "raw" && cv.Copy == 1 && p[1] == "none" && got != "ok+" && got != "dup" && !strings.HasPrefix(got, "origin") {
			why := "other-" + got
			if got == "merkle" {
				why = "merkle-leaf-raw-vs-proto"
			}
			c.Hist["asmade_unit_rejected:"+got]++
			// shrink: empty message, nonce 0, smallest committee on which the same verdict shows
			small := CaseV{Kind: "V", N: cv.N, Local: cv.Local, Pub: cv.Pub, Mode: "raw", Copy: 1, Nonce: cv.Nonce, Msg: cv.Msg, Steps: []string{st}}
			for _, cand := range []CaseV{
				{Kind: "V", N: 2, Local: 1, Pub: 2, Mode: "raw", Copy: 1, Nonce: 0, Msg: "-", Steps: []string{"0:none:2"}},
				{Kind: "V", N: cv.N, Local: cv.Local, Pub: cv.Pub, Mode: "raw", Copy: 1, Nonce: 0, Msg: "-", Steps: []string{st}},
				{Kind: "V", N: cv.N, Local: cv.Local, Pub: cv.Pub, Mode: "raw", Copy: 1, Nonce: cv.Nonce, Msg: "-", Steps: []string{st}},
			} {
				if probeAsMade(cand) == got {
					small = cand
					break
				}
			}
			st = small.Steps[0]
			cv2 := small
			_ = cv2
			c.Violation("honest-unit-rejected:"+why,
				fmt.Sprintf("a unit made by CreatePropellerUnits, sent by its designated sender, is rejected by UnitValidator.Validate (%s): the proof was built over the raw shard, Validate checks it against ShardData.MarshalProto()", got),
				small, false)
		}
	}
	c.Count(fmt.Sprintf("V/%d/%d/%d/%s/%d/%d/%s/%s", cv.N, cv.Local, cv.Pub, cv.Mode, cv.Copy, cv.Nonce, cv.Msg, strings.Join(cv.Steps, ";")), true)
	// what passed validation goes on to reconstruction, as in processor.go
	if len(accepted) >= k {
		ptrs := make([]*propeller.Unit, k+parity)
		for i, u := range accepted {
			ptrs[i] = u
		}
		li, err := sch.ShardIndexForPublisher(pubm.id)
		hx.Must(err)
		got, gm := realConstruct(ptrs, int(li), k, parity)
		c.Hist["pipeline:"+cv.Mode+":"+strings.Join(strings.SplitN(got, ":", 3)[:min(2, len(strings.SplitN(got, ":", 3)))], ":")[:min(9, len(got))]]++
		if got == "panic" {
			c.Violation("pipeline-panic", "validated units made ConstructMessageFromUnits panic", cv, false)
		} else if strings.HasPrefix(got, "ok:") && !bytes.Equal(gm, msg) {
			c.Violation("pipeline-wrong-message", "validated units delivered a different message", cv, false)
		}
	}
	if sample {
		c.Sample(map[string]any{"n": cv.N, "k": k, "parity": parity, "mode": cv.Mode, "steps": cv.Steps, "real": reals})
	}
}

// one unit exactly as CreatePropellerUnits makes it, through a fresh validator
func probeAsMade(cv CaseV) string {
	ms := committee(cv.N)
	nodes := make([]propeller.PeerCommittee, cv.N)
	for i := range ms {
		nodes[i] = propeller.PeerCommittee{ID: ms[i].id, Stake: 1}
	}
	sch, err := propeller.NewScheduler(ms[cv.Local-1].id, nodes)
	hx.Must(err)
	units, err := propeller.CreatePropellerUnits(ms[cv.Pub-1].priv, &cid, propeller.Nonce(cv.Nonce), unhex(cv.Msg), sch.NumDataShards(), sch.NumCodingShards())
	hx.Must(err)
	p := strings.Split(cv.Steps[0], ":")
	ui, _ := strconv.Atoi(p[0])
	sr, _ := strconv.Atoi(p[2])
	if ui >= len(units) {
		return "n/a"
	}
	v := propeller.NewValidator(ms[cv.Pub-1].id, sch)
	return verdictOf(v.Validate(&units[ui], idOfRank(ms, sr)))
}

func genSteps(r *hx.RNG, ms []member, sch *propeller.Scheduler, local, pubr int, nshards, shardSize, proofLen, nonce int) []string {
	rankOf := func(id peer.ID) int {
		for i, m := range ms {
			if m.id == id {
				return i + 1
			}
		}
		return len(ms) + 5
	}
	rightSender := func(idx int) int {
		e, err := sch.PeerForShardIndex(ms[pubr-1].id, propeller.ShardIndex(idx))
		hx.Must(err)
		if rankOf(e) == local {
			return pubr
		}
		return rankOf(e)
	}
	var steps []string
	order := make([]int, nshards)
	for i := range order {
		order[i] = i
	}
	for i := len(order) - 1; i > 0; i-- {
		j := r.Intn(i + 1)
		order[i], order[j] = order[j], order[i]
	}
	for _, idx := range order {
		rs := rightSender(idx)
		if r.Chance(60) {
			var corr string
			switch r.Intn(14) {
			case 0:
				corr = fmt.Sprintf("data%d", r.Intn(shardSize))
			case 1:
				corr = "dataempty"
			case 2:
				corr = "data2"
			case 3:
				corr = fmt.Sprintf("sib%d", r.Intn(proofLen))
			case 4:
				corr = "sibdrop"
			case 5:
				corr = "sibadd"
			case 6:
				corr = "root"
			case 7:
				j := r.Intn(nshards + 2)
				if j == idx {
					j = nshards + 1
				}
				corr = fmt.Sprintf("index%d", j)
			case 8:
				corr = "sig"
			case 9:
				corr = "sigempty"
			case 10:
				corr = "committee"
			case 11:
				corr = fmt.Sprintf("nonce%d", nonce+1+r.Intn(3))
			case 12:
				p := 1 + r.Intn(len(ms)+1)
				if p == pubr {
					p = len(ms) + 5
				}
				corr = fmt.Sprintf("publisher%d", p)
			default:
				corr = "none" // right unit, wrong sender below
			}
			s := rs
			if corr == "none" || r.Chance(15) {
				s = 1 + r.Intn(len(ms)+1)
				if s == rs && corr == "none" {
					s = len(ms) + 5
				}
				if s > len(ms) {
					s = len(ms) + 5
				}
			}
			steps = append(steps, fmt.Sprintf("%d:%s:%d", idx, corr, s))
		}
		if r.Chance(85) {
			steps = append(steps, fmt.Sprintf("%d:none:%d", idx, rs))
			if r.Chance(25) {
				steps = append(steps, fmt.Sprintf("%d:none:%d", idx, rs)) // duplicate
			}
		}
	}
	if len(steps) == 0 {
		steps = []string{fmt.Sprintf("0:none:%d", rightSender(0))}
	}
	return steps
}

func allMasks(n int) []string {
	res := make([]string, 0, 1<<n)
	for m := 0; m < 1<<n; m++ {
		b := make([]byte, n)
		for i := range b {
			b[i] = '0' + byte(m>>i&1)
		}
		res = append(res, string(b))
	}
	return res
}

func someMasks(r *hx.RNG, n, k, count int) []string {
	mk := func(present int, miss0 bool) string {
		b := bytes.Repeat([]byte{'0'}, n)
		idx := r.Fork(uint64(present)).U64()
		_ = idx
		perm := make([]int, n)
		for i := range perm {
			perm[i] = i
		}
		for i := n - 1; i > 0; i-- {
			j := r.Intn(i + 1)
			perm[i], perm[j] = perm[j], perm[i]
		}
		c := 0
		for _, p := range perm {
			if c == present {
				break
			}
			if miss0 && p == 0 {
				continue
			}
			b[p] = '1'
			c++
		}
		return string(b)
	}
	res := []string{strings.Repeat("1", n), mk(k, false)}
	if n > k {
		res = append(res, mk(k, true), mk(n-1, true))
	}
	if k > 0 {
		res = append(res, mk(k-1, false))
	}
	for len(res) < count {
		res = append(res, mk(r.Intn(n+1), r.Bool()))
	}
	return res
}

func main() {
	c = hx.NewCtx("C19")
	or = hx.StartOracle(c.OraclePath)
	defer or.Close()
	tg := strings.Fields(or.Ask("tags", 1)[0])
	for i := 0; i < 5; i++ {
		tags[i] = unhex(tg[i+1])
	}

	if c.ReplayIn != "" {
		var probe struct {
			Kind string `json:"kind"`
		}
		c.LoadReplay(&probe)
		switch probe.Kind {
		case "B":
			var cb CaseB
			c.LoadReplay(&cb)
			runCaseB(cb, true)
		case "V":
			var cv CaseV
			c.LoadReplay(&cv)
			runCaseV(cv, true)
		case "wire":
			var w wireCase
			c.LoadReplay(&w)
			runWire(w, true)
		case "merkle":
			var rm struct {
				Lens []int  `json:"lens"`
				Seed uint64 `json:"seed"`
			}
			c.LoadReplay(&rm)
			for sd := uint64(0); sd < 8; sd++ {
				merkleDirect(hx.NewRNG(rm.Seed+sd), rm.Lens)
			}
		case "tamper-byte":
			var rt struct {
				K      int `json:"k"`
				Parity int `json:"parity"`
				MsgLen int `json:"msg_len"`
			}
			c.LoadReplay(&rt)
			for sd := uint64(0); sd < 8; sd++ {
				rr := hx.NewRNG(sd)
				tamperTail(rr, rt.K, rt.Parity, msgOf(rr, rt.MsgLen))
			}
		default:
			var rp struct {
				K, Parity int
				Msg       string
			}
			c.LoadReplay(&rp)
			for s := uint64(0); s < 50; s++ {
				tamperConstruct(hx.NewRNG(s), rp.K, rp.Parity, unhex(rp.Msg))
			}
		}
		c.Finish("replay of one recorded case")
	}

	r := hx.NewRNG(c.Seed)
	thorough := c.Thorough()

	// ---- W. the wire: UnitFromProto on honest and malformed protobuf units ----
	wireStage(r.Fork(77), thorough)

	// ---- A. padding: all lengths 0..300 and the varint / divisor boundaries, malformed prefixes ----
	lens := []int{}
	for l := 0; l <= 300; l++ {
		lens = append(lens, l)
	}
	lens = append(lens, 16380, 16381, 16382, 16383, 16384, 16385)
	ks := []int{1, 2, 3, 5, 7, 16, 33, 64}
	npad := 0
	for _, l := range lens {
		msg := msgOf(r, l)
		for _, k := range ks {
			if l > 300 && k != 1 && k != 5 && k != 64 {
				continue
			}
			real := propeller.PadMessage(msg, k)
			rep := strings.Fields(or.Ask(fmt.Sprintf("pad %d %s", k, tohex(msg)), 1)[0])
			npad++
			c.Count(fmt.Sprintf("P/%d/%d/%x", k, l, sha256.Sum256(msg)), l > 0)
			rp := map[string]any{"kind": "pad", "k": k, "msg": tohex(msg)}
			if tohex(real) != rep[1] {
				c.Violation("pad-vs-model", fmt.Sprintf("PadMessage(len %d, k %d) differs from the model", l, k), rp, true)
			}
			if len(real)%(2*k) != 0 || len(real) == 0 {
				c.Violation("pad-not-divisible", fmt.Sprintf("len(PadMessage(len %d, k %d)) = %d", l, k, len(real)), rp, false)
			}
			if ru := realUnpad(real); ru != "ok:"+tohex(msg) || rep[2] != ru {
				c.Violation("unpad-pad", fmt.Sprintf("UnpadMessage(PadMessage(m)) = %s (model %s) for len %d k %d", ru[:min(len(ru), 40)], rep[2][:min(len(rep[2]), 40)], l, k), rp, false)
			}
		}
	}
	// a 2 MiB-class boundary of the third varint byte, real side only (predicate)
	for _, l := range []int{2097151, 2097152} {
		msg := make([]byte, l)
		msg[l-1] = 7
		p := propeller.PadMessage(msg, 3)
		m, err := propeller.UnpadMessage(p)
		if err != nil || !bytes.Equal(m, msg) || len(p)%6 != 0 {
			c.Violation("unpad-pad", fmt.Sprintf("round trip fails at length %d", l), map[string]any{"kind": "pad", "k": 3, "len": l}, false)
		}
		npad++
	}
	// malformed / adversarial prefixes through UnpadMessage: model and code must agree (incl. the panic)
	unpadOutcomes := map[string]int{}
	prefixes := [][]byte{{}, {0x80}, {0xff, 0xff}, {0x05, 1, 2}, {0x02, 1, 2, 3}, {0x80, 0x00, 9},
		{0xff, 0xff, 0xff, 0xff, 0xff, 0xff, 0xff, 0xff, 0xff, 0x01},
		{0xff, 0xff, 0xff, 0xff, 0xff, 0xff, 0xff, 0xff, 0xff, 0x01, 0, 0},
		{0xff, 0xff, 0xff, 0xff, 0xff, 0xff, 0xff, 0xff, 0xff, 0x02, 0, 0},
		{0xf7, 0xff, 0xff, 0xff, 0xff, 0xff, 0xff, 0xff, 0xff, 0x01, 0, 0, 0, 0},
		{0x80, 0x80, 0x80, 0x80, 0x80, 0x80, 0x80, 0x80, 0x80, 0x80, 0x01}}
	for i := 0; i < 400; i++ {
		var p []byte
		if i < len(prefixes) {
			p = prefixes[i]
		} else {
			p = make([]byte, r.Intn(14))
			for j := range p {
				if r.Chance(55) {
					p[j] = 0x80 | byte(r.U64())
				} else {
					p[j] = byte(r.Intn(20))
				}
			}
		}
		real := realUnpad(p)
		model := strings.TrimPrefix(or.Ask("unpad "+tohex(p), 1)[0], "unpad ")
		unpadOutcomes[strings.SplitN(real, ":", 2)[0]]++
		c.Count("U/"+tohex(p), true)
		if real != model {
			c.Violation("unpad-vs-model", fmt.Sprintf("UnpadMessage(%s) = %s, model %s", tohex(p), real, model), map[string]any{"kind": "unpad", "bytes": tohex(p)}, true)
		}
	}
	c.Extra["unpad_malformed_outcomes"] = unpadOutcomes
	c.Extra["unpad_note"] = "UnpadMessage panics (slice bounds) on a 10-byte varint prefix announcing >= 2^64-10 followed by enough bytes; the model predicts it (unpad = UPanic). Reachable only through a publisher that signs such a padded message; recorded, not counted as a violation of C19's rejection clause."
	c.Extra["pad_cases"] = npad
	c.Extra["crafted_publisher_length_overflow_construct"] = craftedOverflowProbe()
	// protobuf leaf encoding used by the validator
	for _, l := range []int{0, 1, 2, 126, 127, 128, 300} {
		s := msgOf(r, l)
		real := propeller.ShardData{s}.MarshalProto()
		model := strings.TrimPrefix(or.Ask("proto "+tohex(s), 1)[0], "proto ")
		if tohex(real) != model {
			c.Violation("proto-vs-model", fmt.Sprintf("MarshalProto of a %d-byte shard differs from the model", l), map[string]any{"kind": "proto", "shard": tohex(s)}, true)
		}
	}

	// ---- B. create -> every subset -> construct ----
	small := [][2]int{{1, 0}, {1, 1}, {1, 2}, {2, 0}, {2, 1}, {2, 2}, {3, 0}, {2, 4}, {3, 2}, {3, 5}, {4, 4}, {1, 7}, {5, 3}, {6, 1}}
	large := [][2]int{{3, 6}, {4, 9}, {5, 10}, {8, 16}, {10, 20}, {21, 43}}
	exhaustiveLens := map[int]bool{0: true, 1: true, 2: true, 3: true, 5: true, 8: true, 13: true, 34: true, 89: true, 126: true, 127: true, 128: true, 129: true, 233: true, 300: true}
	nB := 0
	for _, l := range lens {
		if l > 300 && l != 16383 && l != 16384 {
			continue
		}
		msg := msgOf(r, l)
		var cfgs [][2]int
		if exhaustiveLens[l] || (thorough && l <= 300) {
			cfgs = append(cfgs, small...)
			cfgs = append(cfgs, large[r.Intn(len(large))])
		} else {
			cfgs = append(cfgs, small[r.Intn(len(small))], small[r.Intn(len(small))], large[r.Intn(len(large))])
		}
		for _, kp := range cfgs {
			k, parity := kp[0], kp[1]
			n := k + parity
			var masks []string
			if n <= 8 && (exhaustiveLens[l] || thorough) {
				masks = allMasks(n)
				c.Hist["B:exhaustive-subsets"]++
			} else {
				masks = someMasks(r, n, k, 8)
				c.Hist["B:sampled-subsets"]++
			}
			nonce := int64(0)
			if r.Chance(50) {
				nonce = int64(1 + r.Intn(1000))
			}
			runCaseB(CaseB{Kind: "B", K: k, Parity: parity, Local: r.Intn(n), Msg: tohex(msg), Nonce: nonce, Masks: masks}, nB < 2)
			nB++
			if l <= 300 && (l%7 == 0 || exhaustiveLens[l]) {
				tamperConstruct(r.Fork(uint64(nB)), k, parity, msg)
			}
		}
	}
	c.Extra["create_construct_cases"] = nB

	// ---- M. the Merkle layer alone, leaf lengths around buffer / block boundaries, 1..9 leaves ----
	var mlens []int
	mlens = append(mlens, 0, 1, 31, 32, 33, 55, 56, 57, 63, 64, 65, 119, 120, 121, 127, 128, 129, 255, 256, 257, 500)
	for l := 1000; l <= 1050; l++ {
		mlens = append(mlens, l)
	}
	mlens = append(mlens, 2047, 2048, 2049, 4095, 4096, 4097, 65535, 65536, 65537)
	for i := 0; i < 6; i++ {
		mlens = append(mlens, r.Intn(70001))
	}
	nM := 0
	for li, l := range mlens {
		// all leaves of that length (leaf count cycles through 1..9) ...
		n := 1 + li%9
		ls := make([]int, n)
		for i := range ls {
			ls[i] = l
		}
		merkleDirect(r.Fork(uint64(li)), ls)
		nM++
		// ... and a tree mixing it with other boundary lengths (smaller ones, to bound the cost)
		n2 := 1 + (li*5+3)%9
		ls2 := make([]int, n2)
		for i := range ls2 {
			ls2[i] = mlens[r.Intn(len(mlens))]
			if ls2[i] > 5000 {
				ls2[i] %= 1100
			}
		}
		ls2[r.Intn(n2)] = l
		merkleDirect(r.Fork(uint64(li)+7777), ls2)
		nM++
	}
	c.Extra["merkle_direct_cases"] = nM

	// ---- B2. create -> subset -> construct with shard sizes on those boundaries; byte flips at the
	//          first / middle / second-to-last / last position with exactly k units present ----
	kps := [][2]int{{1, 1}, {2, 1}, {2, 2}, {3, 2}, {1, 3}, {3, 3}, {4, 2}, {2, 3}}
	var sizes []int
	sizes = append(sizes, 2, 32, 56, 64, 120, 128, 256, 500)
	for sz := 1000; sz <= 1050; sz += 2 {
		sizes = append(sizes, sz)
	}
	sizes = append(sizes, 2048, 4096, 65536)
	nB2 := 0
	for si, sz := range sizes {
		kp := kps[si%len(kps)]
		k, parity := kp[0], kp[1]
		ml := msgLenForShard(sz, k)
		if ml < 0 {
			continue
		}
		msg := msgOf(r, ml)
		if sz <= 4096 && (sz < 1000 || sz > 1050 || sz%4 == 0 || thorough) {
			// with the model (a few subsets incl. exactly-k and shard-0-missing)
			runCaseB(CaseB{Kind: "B", K: k, Parity: parity, Local: r.Intn(k + parity), Msg: tohex(msg), Nonce: int64(r.Intn(3)), Masks: someMasks(r, k+parity, k, 5)}, false)
		}
		tamperTail(r.Fork(uint64(si)), k, parity, msg)
		c.Hist[fmt.Sprintf("B2:shard-size-%s", map[bool]string{true: "1000..1050", false: "other"}[sz >= 1000 && sz <= 1050])]++
		nB2++
	}
	// the same byte positions on the ordinary small cases
	for _, l := range []int{0, 1, 5, 30, 127, 128, 300} {
		for _, kp := range kps {
			tamperTail(r.Fork(uint64(l)), kp[0], kp[1], msgOf(r, l))
		}
	}
	c.Extra["boundary_shard_cases"] = nB2

	// ---- C. the validator: units as made, validator-consistent variants, single-field corruptions ----
	nV := 0
	rounds := 12
	if thorough {
		rounds = 200
	}
	for _, n := range []int{2, 3, 4, 5, 7, 10, 13} {
		ms := committee(n)
		for t := 0; t < rounds; t++ {
			local := 1 + r.Intn(n)
			pubr := 1 + r.Intn(n)
			if pubr == local {
				pubr = pubr%n + 1
			}
			nodes := make([]propeller.PeerCommittee, n)
			for i := range ms {
				nodes[i] = propeller.PeerCommittee{ID: ms[i].id, Stake: 1}
			}
			sch, err := propeller.NewScheduler(ms[local-1].id, nodes)
			hx.Must(err)
			k, parity := sch.NumDataShards(), sch.NumCodingShards()
			// scheduler mapping vs model
			if t == 0 {
				rep := strings.Fields(or.Ask(fmt.Sprintf("sched %d %d %d", n, local, pubr), 1)[0])
				li, _ := sch.ShardIndexForPublisher(ms[pubr-1].id)
				var ps []string
				for i := 0; i <= k+parity; i++ {
					p, err := sch.PeerForShardIndex(ms[pubr-1].id, propeller.ShardIndex(i))
					if err != nil {
						ps = append(ps, "none")
					} else {
						for rk, m := range ms {
							if m.id == p {
								ps = append(ps, strconv.Itoa(rk+1))
							}
						}
					}
				}
				real := fmt.Sprintf("sched %d %d %d %s", k, parity, li, strings.Join(ps, ","))
				if real != strings.Join(rep, " ") {
					c.Violation("scheduler-vs-model", fmt.Sprintf("n=%d local=%d pub=%d: real %q model %q", n, local, pubr, real, strings.Join(rep, " ")), map[string]any{"kind": "sched", "n": n, "local": local, "pub": pubr}, true)
				}
			}
			msg := msgOf(r, r.Intn(90))
			mode := []string{"raw", "proto", "proto"}[t%3]
			cp := (t / 3) % 2
			nonce := []int{0, 7}[(t/6)%2]
			padded := propeller.PadMessage(msg, k)
			depth := 1
			for 1<<depth < k+parity {
				depth++
			}
			steps := genSteps(r, ms, sch, local, pubr, k+parity, len(padded)/k, depth, nonce)
			runCaseV(CaseV{Kind: "V", N: n, Local: local, Pub: pubr, Mode: mode, Copy: cp, Nonce: nonce, Msg: tohex(msg), Steps: steps}, nV < 2)
			nV++
		}
	}
	// validator: shards whose protobuf leaf (shard + ~6 bytes) lands on the same boundaries, the shard
	// tampered at its first / middle / second-to-last / last byte, sent by the right sender
	for _, sz := range []int{58, 122, 250, 1008, 1010, 1012, 1014, 1016, 1018, 1020, 1022, 1024, 1026, 2042, 4090} {
		n := 4 // k = 1, parity = 2
		ms := committee(n)
		local, pubr := 1, 2
		nodes := make([]propeller.PeerCommittee, n)
		for i := range ms {
			nodes[i] = propeller.PeerCommittee{ID: ms[i].id, Stake: 1}
		}
		sch, err := propeller.NewScheduler(ms[local-1].id, nodes)
		hx.Must(err)
		ml := msgLenForShard(sz, 1)
		if ml < 0 {
			continue
		}
		var steps []string
		for idx := 0; idx < sch.NumTotalShards(); idx++ {
			e, err := sch.PeerForShardIndex(ms[pubr-1].id, propeller.ShardIndex(idx))
			hx.Must(err)
			sender := pubr
			for rk, m := range ms {
				if m.id == e && rk+1 != local {
					sender = rk + 1
				}
			}
			for _, pos := range []int{0, sz / 2, sz - 2, sz - 1} {
				steps = append(steps, fmt.Sprintf("%d:data%d:%d", idx, pos, sender))
			}
			steps = append(steps, fmt.Sprintf("%d:none:%d", idx, sender))
		}
		for _, mode := range []string{"proto", "raw"} {
			runCaseV(CaseV{Kind: "V", N: n, Local: local, Pub: pubr, Mode: mode, Copy: 1, Nonce: 3, Msg: tohex(msgOf(r, ml)), Steps: steps}, false)
			nV++
		}
	}
	c.Extra["validator_cases"] = nV
	c.Extra["unit_families"] = "raw+copy=1 = exactly CreatePropellerUnits' output; copy=0 = Unit.Nonce stripped to 0 (variant); proto = same shards with the tree built over ShardData.MarshalProto() and re-signed (passes Validate, fails ConstructMessageFromUnits with a root mismatch)"
	c.Finish("A: PadMessage/UnpadMessage for every length 0..300 + varint boundaries x k in {1,2,3,5,7,16,33,64}, malformed prefixes; " +
		"B: CreatePropellerUnits -> subsets (all 2^n for n<=8 on 15 lengths incl. 0,126..129,300; sampled incl. shard-0-missing and exactly-k otherwise) -> ConstructMessageFromUnits, " +
		"padding/shards/root/proofs compared with the model through SHA-256 evaluation of its digest terms, tampered units into construct; " +
		"M: merkle.New/Proof.Verify alone vs the model tree over leaf lengths 0,1,31..33,55..57,63..65,119..121,127..129,255..257,500,1000..1050,2047..2049,4095..4097,65535..65537,random<=70000 with 1..9 leaves, one-byte/length tampers must not verify; " +
		"B2: shard sizes 2..4096 (every even size 1000..1050) and 65536, byte flips at first/middle/second-to-last/last position with exactly k and with all units present; " +
		"C: UnitValidator.Validate sequences over committees of 2..13 with single-field corruptions, verdict compared with the model. " +
		"non-trivial = at least one unit missing / tampered / non-empty message; distinct by full case")
}
