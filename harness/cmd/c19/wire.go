// C19 harness, wire stage: the protobuf decoder of a unit (propeller.UnitFromProto) runs in the libp2p stream
// handler on whatever a peer sends. Every generated wire unit - honest ones (ToProto of created units) and every
// malformation of the repeated / length-carrying fields - goes through the REAL decoder under recover and through
// the extracted model's from_proto; outcome (ok / error / panic) and, for accepted units, shards / root / siblings
// must agree, and the property predicate "never a panic, accepted => well-formed" is evaluated on the
// implementation's own outcome.
package main

import (
	"bytes"
	"fmt"
	"strings"

	"github.com/NethermindEth/juno/consensus/propeller"
	pb "github.com/NethermindEth/juno/consensus/propeller/proto"
	"github.com/starknet-io/starknet-p2p-specs/p2p/proto/common"
	"verifharness/hx"
)

type wireCase struct {
	Kind     string   `json:"kind"` // "wire"
	Shards   []string `json:"shards"`
	NoShards bool     `json:"no_shards_field"` // Shards message absent altogether
	Root     string   `json:"root"`
	NoRoot   bool     `json:"no_root_field"`
	Siblings []string `json:"siblings"`
	What     string   `json:"what"`
}

func csvHex(l [][]byte) string {
	if len(l) == 0 {
		return "-"
	}
	p := make([]string, len(l))
	for i, x := range l {
		if len(x) == 0 {
			p[i] = "e"
		} else {
			p[i] = tohex(x)
		}
	}
	return strings.Join(p, ",")
}

func (w *wireCase) proto() *pb.PropellerUnit {
	u := &pb.PropellerUnit{Index: 1, Nonce: 7, Signature: []byte{1, 2, 3}}
	if !w.NoShards {
		sl := &pb.ShardsOfPeer{}
		for _, s := range w.Shards {
			sl.Shards = append(sl.Shards, &pb.Shard{Data: unhex(s)})
		}
		u.Shards = sl
	}
	if !w.NoRoot {
		u.MerkleRoot = &common.Hash256{Elements: unhex(w.Root)}
	}
	mp := &pb.MerkleProof{}
	for _, s := range w.Siblings {
		mp.Siblings = append(mp.Siblings, &common.Hash256{Elements: unhex(s)})
	}
	u.MerkleProof = mp
	return u
}

func runWire(w wireCase, replay bool) {
	var shards, sibs [][]byte
	for _, s := range w.Shards {
		shards = append(shards, unhex(s))
	}
	for _, s := range w.Siblings {
		sibs = append(sibs, unhex(s))
	}
	root := unhex(w.Root)
	// the real decoder
	outcome, detail := "ok", ""
	var unit propeller.Unit
	func() {
		defer func() {
			if r := recover(); r != nil {
				outcome, detail = "panic", fmt.Sprint(r)
			}
		}()
		u, err := propeller.UnitFromProto(w.proto())
		if err != nil {
			outcome, detail = "err", err.Error()
			return
		}
		unit = u
	}()
	impl := outcome
	wellFormed := true
	if outcome == "ok" {
		var sh, sb [][]byte
		for _, s := range unit.ShardData {
			sh = append(sh, []byte(s))
		}
		for _, s := range unit.MerkleProof.Siblings {
			sb = append(sb, s[:])
		}
		r := unit.MessageRoot
		rs := "e"
		if len(r) > 0 {
			rs = tohex(r[:])
		}
		impl = "ok " + csvHex(sh) + " " + rs + " " + csvHex(sb)
		wellFormed = len(sh) > 0
		for _, s := range sh {
			wellFormed = wellFormed && len(s) == len(sh[0])
		}
	}
	rootArg := "e"
	if len(root) > 0 {
		rootArg = tohex(root)
	}
	rep := or.Ask(fmt.Sprintf("wire %s %s %s", csvHex(shards), rootArg, csvHex(sibs)), 1)[0]
	parts := strings.Split(strings.TrimPrefix(rep, "wire "), " | ")
	model := parts[0]
	c.Count("W/"+w.What+"/"+csvHex(shards)+"/"+rootArg+"/"+fmt.Sprint(len(sibs)), outcome != "ok" || len(shards) > 1)
	c.Hist["wire:"+w.What]++
	c.Hist["wire-outcome:"+outcome]++
	if replay {
		fmt.Printf("implementation: %s (%s)\nmodel: %s\n", impl, detail, rep)
	}
	switch {
	case outcome == "panic":
		c.Violation("wire:decoder-panics:"+w.What, fmt.Sprintf("UnitFromProto panics on a unit from the wire (%s): %s", w.What, detail), w, false)
	case outcome == "ok" && !wellFormed:
		c.Violation("wire:malformed-unit-accepted:"+w.What, fmt.Sprintf("UnitFromProto accepts a unit whose shards are not of one length / empty (%s)", w.What), w, false)
	}
	if impl != model {
		c.Violation("wire:decoder-vs-model:"+w.What, fmt.Sprintf("UnitFromProto %.120s, model %.120s", impl, model), w, outcome != "panic" && wellFormed)
	}
	if len(parts) > 1 && parts[1] != "wf=true" {
		c.Violation("wire:model-contradicts-theorem", "the extracted from_proto returned a result that is not wire_wf: "+rep, w, true)
	}
}

func wireStage(r *hx.RNG, thorough bool) {
	rnd := func(n int) string {
		b := make([]byte, n)
		for i := range b {
			b[i] = byte(r.Intn(256))
		}
		return tohex(b)
	}
	root32 := rnd(32)
	mk := func(what string, shards []string, root string, sibs []string) wireCase {
		return wireCase{Kind: "wire", What: what, Shards: shards, Root: root, Siblings: sibs}
	}
	var cases []wireCase
	// honest shapes: 1..5 shards of one length (incl. length 0), 0..4 siblings
	for n := 1; n <= 5; n++ {
		for _, l := range []int{0, 1, 31, 32, 33, 1024} {
			sh := make([]string, n)
			for i := range sh {
				sh[i] = rnd(l)
			}
			sb := make([]string, r.Intn(5))
			for i := range sb {
				sb[i] = rnd(32)
			}
			cases = append(cases, mk("honest", sh, root32, sb))
		}
	}
	// no shards at all (field absent / empty list)
	cases = append(cases, wireCase{Kind: "wire", What: "no-shards-field", NoShards: true, Root: root32},
		mk("empty-shard-list", nil, root32, nil),
		wireCase{Kind: "wire", What: "empty-unit", NoShards: true, NoRoot: true})
	// root of every length around 32, absent root
	for _, l := range []int{0, 1, 2, 31, 33, 64} {
		cases = append(cases, mk(fmt.Sprintf("root-len-%d", l), []string{rnd(4), rnd(4)}, rnd(l), []string{rnd(32)}))
	}
	cases = append(cases, wireCase{Kind: "wire", What: "no-root-field", NoRoot: true, Shards: []string{rnd(4)}})
	// one shard of another length, at every position, shorter / longer / empty
	for n := 2; n <= 5; n++ {
		for pos := 0; pos < n; pos++ {
			for _, d := range []int{-1, 1, -8} {
				sh := make([]string, n)
				for i := range sh {
					sh[i] = rnd(8)
				}
				sh[pos] = rnd(8 + d)
				cases = append(cases, mk(fmt.Sprintf("uneven-shard-%d-of-%d", pos, n), sh, root32, nil))
			}
		}
	}
	// siblings of other lengths (copied into 32-byte arrays: truncated / zero filled)
	for _, l := range []int{0, 1, 31, 33, 64} {
		cases = append(cases, mk(fmt.Sprintf("sibling-len-%d", l), []string{rnd(4)}, root32, []string{rnd(32), rnd(l)}))
	}
	extra := 200
	if thorough {
		extra = 5000
	}
	for i := 0; i < extra; i++ {
		n := r.Intn(5)
		sh := make([]string, n)
		base := r.Intn(6)
		for k := range sh {
			l := base
			if r.Chance(20) {
				l = r.Intn(7)
			}
			sh[k] = rnd(l)
		}
		rl := 32
		if r.Chance(25) {
			rl = []int{0, 16, 31, 33, 40}[r.Intn(5)]
		}
		sb := make([]string, r.Intn(4))
		for k := range sb {
			sl := 32
			if r.Chance(25) {
				sl = r.Intn(70)
			}
			sb[k] = rnd(sl)
		}
		w := mk("random", sh, rnd(rl), sb)
		w.NoShards = n == 0 && r.Bool()
		cases = append(cases, w)
	}
	for _, w := range cases {
		runWire(w, false)
	}
	// honest units created by the real code survive ToProto -> UnitFromProto unchanged
	_ = bytes.Equal
}
