// C20 heap-level correspondence: the REAL object graph reachable from the published chain, from every
// view handed out so far and from the last overlay state created is canonicalised (pointer identity of
// nodes, entries, blocks, headers, state updates, state diffs, maps and slice backing arrays -> first-seen
// numbers; never raw addresses) and compared with the graph of the heap-level Coq model
// (coq/theories/C20/Heap.v, printed by oracle/c20/main.ml `dump`): which objects are shared between which
// views, which were freshly allocated by the operation, lengths and capacities of the slices.
package main

import (
	"crypto/md5"
	"encoding/hex"
	"errors"
	"fmt"
	"reflect"
	"sort"
	"strconv"
	"strings"
	"unsafe"

	"github.com/NethermindEth/juno/core"
	"github.com/NethermindEth/juno/core/felt"
	"github.com/NethermindEth/juno/core/pending"
	"github.com/NethermindEth/juno/sync/preconfirmed"
	"verifharness/chain"
	"verifharness/hx"
)

type regKey struct {
	kind byte
	p    unsafe.Pointer // keeps the object alive: an address is never reused for another object of the case
}

type heapTie struct {
	reg   map[regKey]int
	seen  map[regKey]bool
	b     strings.Builder
	trans *pending.State // the last overlay state created (transient root), or nil
	nDump int
}

func newHeapTie() *heapTie { return &heapTie{reg: map[regKey]int{}} }

var (
	readerType = reflect.TypeOf(preconfirmed.ChainReader{})
	nodeType   reflect.Type
)

// heapSelfTest: the unexported shape this file reads through reflection is the one it expects.
func heapSelfTest() string {
	hf, ok := readerType.FieldByName("head")
	if !ok || hf.Type.Kind() != reflect.Pointer {
		return "ChainReader.head is not a pointer field"
	}
	if lf, ok := readerType.FieldByName("length"); !ok || lf.Type.Kind() != reflect.Int {
		return "ChainReader.length is not an int field"
	}
	nodeType = hf.Type.Elem()
	pf, ok := nodeType.FieldByName("preconfirmed")
	if !ok || pf.Type != reflect.TypeOf((*pending.PreConfirmed)(nil)) {
		return "node.preconfirmed is not a *pending.PreConfirmed"
	}
	if qf, ok := nodeType.FieldByName("parent"); !ok || qf.Type != hf.Type {
		return "node.parent is not a *node"
	}
	if readerType.NumField() != 2 || nodeType.NumField() != 2 {
		return "ChainReader / node have other fields than the modelled ones"
	}
	sf, ok := reflect.TypeOf(pending.State{}).FieldByName("newClasses")
	if !ok || sf.Type != reflect.TypeOf(map[felt.Felt]core.ClassDefinition(nil)) {
		return "pending.State.newClasses is not the class map"
	}
	return ""
}

func readerParts(v *preconfirmed.ChainReader) (unsafe.Pointer, int) {
	rv := reflect.ValueOf(v).Elem()
	return rv.FieldByName("head").UnsafePointer(), int(rv.FieldByName("length").Int())
}

func nodeParts(p unsafe.Pointer) (*pending.PreConfirmed, unsafe.Pointer) {
	nv := reflect.NewAt(nodeType, p).Elem()
	return (*pending.PreConfirmed)(nv.FieldByName("preconfirmed").UnsafePointer()), nv.FieldByName("parent").UnsafePointer()
}

// a Go map value is one pointer word
func mapPtr[K comparable, V any](m map[K]V) unsafe.Pointer { return *(*unsafe.Pointer)(unsafe.Pointer(&m)) }

func stateClasses(ps *pending.State) map[felt.Felt]core.ClassDefinition {
	f := reflect.ValueOf(ps).Elem().FieldByName("newClasses")
	return *(*map[felt.Felt]core.ClassDefinition)(unsafe.Pointer(f.UnsafeAddr()))
}

func (t *heapTie) tag(kind byte, p unsafe.Pointer) bool {
	k := regKey{kind, p}
	id, ok := t.reg[k]
	if !ok {
		id = len(t.reg)
		t.reg[k] = id
		t.b.WriteByte('*')
	}
	t.b.WriteByte(kind)
	t.b.WriteString(strconv.Itoa(id))
	first := !t.seen[k]
	t.seen[k] = true
	return first
}

func (t *heapTie) mapn(p unsafe.Pointer) { t.tag('M', p) }

func (t *heapTie) slice(p unsafe.Pointer, ln, cp int, children []*core.StateDiff) {
	if cp == 0 {
		t.b.WriteByte('-')
		return
	}
	first := t.tag('A', p)
	fmt.Fprintf(&t.b, "/%d/%d", ln, cp)
	if first && children != nil {
		t.b.WriteByte('[')
		for _, d := range children {
			t.diff(d)
			t.b.WriteByte(';')
		}
		t.b.WriteByte(']')
	}
}

func (t *heapTie) diff(d *core.StateDiff) {
	if !t.tag('D', unsafe.Pointer(d)) {
		return
	}
	t.b.WriteByte('{')
	if t.tag('O', mapPtr(d.StorageDiffs)) {
		t.b.WriteByte('[')
		type ai struct {
			a uint64
			m unsafe.Pointer
		}
		l := make([]ai, 0, len(d.StorageDiffs))
		for a, m := range d.StorageDiffs {
			a := a
			l = append(l, ai{u64(&a), mapPtr(m)})
		}
		sort.Slice(l, func(i, j int) bool { return l[i].a < l[j].a })
		for _, x := range l {
			t.b.WriteString(strconv.FormatUint(x.a, 10))
			t.b.WriteByte(':')
			t.mapn(x.m)
			t.b.WriteByte(';')
		}
		t.b.WriteByte(']')
	}
	for _, m := range []unsafe.Pointer{mapPtr(d.Nonces), mapPtr(d.DeployedContracts), mapPtr(d.ReplacedClasses), mapPtr(d.DeclaredV1Classes), mapPtr(d.MigratedClasses)} {
		t.b.WriteByte(',')
		t.mapn(m)
	}
	t.b.WriteByte(',')
	t.slice(unsafe.Pointer(unsafe.SliceData(d.DeclaredV0Classes)), len(d.DeclaredV0Classes), cap(d.DeclaredV0Classes), nil)
	t.b.WriteByte('}')
}

func (t *heapTie) classes(m map[felt.Felt]core.ClassDefinition) {
	if m == nil {
		t.b.WriteString("nil")
		return
	}
	t.mapn(mapPtr(m))
}

func (t *heapTie) entry(pc *pending.PreConfirmed) {
	if !t.tag('E', unsafe.Pointer(pc)) {
		return
	}
	t.b.WriteByte('{')
	if bl := pc.Block; t.tag('B', unsafe.Pointer(bl)) {
		t.b.WriteByte('{')
		t.tag('H', unsafe.Pointer(bl.Header))
		t.b.WriteByte(',')
		t.slice(unsafe.Pointer(unsafe.SliceData(bl.Transactions)), len(bl.Transactions), cap(bl.Transactions), nil)
		t.b.WriteByte(',')
		t.slice(unsafe.Pointer(unsafe.SliceData(bl.Receipts)), len(bl.Receipts), cap(bl.Receipts), nil)
		t.b.WriteByte('}')
	}
	t.b.WriteByte(',')
	if su := pc.StateUpdate; t.tag('S', unsafe.Pointer(su)) {
		t.b.WriteByte('{')
		t.diff(su.StateDiff)
		t.b.WriteByte('}')
	}
	t.b.WriteByte(',')
	t.classes(pc.NewClasses)
	t.b.WriteByte(',')
	td := pc.TransactionStateDiffs
	if td == nil {
		td = []*core.StateDiff{}
	}
	t.slice(unsafe.Pointer(unsafe.SliceData(pc.TransactionStateDiffs)), len(pc.TransactionStateDiffs), cap(pc.TransactionStateDiffs), td)
	t.b.WriteByte('}')
}

func (t *heapTie) node(p unsafe.Pointer) {
	if p == nil {
		t.b.WriteString("nil")
		return
	}
	if !t.tag('N', p) {
		return
	}
	pc, parent := nodeParts(p)
	t.b.WriteByte('{')
	t.entry(pc)
	t.b.WriteByte(',')
	t.node(parent)
	t.b.WriteByte('}')
}

func (t *heapTie) view(lbl string, v *preconfirmed.ChainReader) {
	hd, n := readerParts(v)
	t.b.WriteString(lbl)
	t.node(hd)
	fmt.Fprintf(&t.b, "/%d|", n)
}

// dump: the canonical text of the graph reachable from the published chain, the views and the last overlay.
func (t *heapTie) dump(cur *preconfirmed.ChainReader, helds []*held) string {
	t.b.Reset()
	t.seen = map[regKey]bool{}
	t.view("C:", cur)
	for _, h := range helds {
		t.view("V:", &h.view)
	}
	if t.trans != nil {
		t.b.WriteString("R:")
		t.diff(t.trans.StateDiff())
		t.b.WriteByte(',')
		t.classes(stateClasses(t.trans))
		t.b.WriteByte('|')
	}
	t.nDump++
	return t.b.String()
}

func firstDiff(a, b string) string {
	i := 0
	for i < len(a) && i < len(b) && a[i] == b[i] {
		i++
	}
	lo := max(0, i-160)
	return fmt.Sprintf("first difference at byte %d: code ...%s<<<%s  model ...%s<<<%s", i, a[lo:i], a[i:min(len(a), i+200)], b[lo:i], b[i:min(len(b), i+200)])
}

// published: the ChainReader the storage currently points to (its head node and full length).
func published(st *preconfirmed.ChainStorage, shadow []slot) preconfirmed.ChainReader {
	if len(shadow) == 0 {
		return preconfirmed.ChainReader{}
	}
	return st.SnapshotForBlock(shadow[len(shadow)-1].num)
}

// heapCheck: after an operation, (1) every view handed out earlier still has the content it had when it
// was handed out, (2) the sharing structure of the real object graph is the heap model's.
func (rn *runner) heapCheck(t *heapTie, st *preconfirmed.ChainStorage, shadow []slot, helds []*held, ctx string) {
	if t == nil {
		return
	}
	for i, h := range helds {
		if now, _ := canonChain(&h.view); now != h.canon {
			rn.fail("heap:old-view-changed", fmt.Sprintf("view #%d taken by SnapshotForBlock(%d) = [%s] denotes [%s] after %s", i, h.n, h.canon, now, ctx), false)
			return
		}
	}
	cur := published(st, shadow)
	got := t.dump(&cur, helds)
	sum := md5.Sum([]byte(got))
	ans := strings.Fields(rn.or.Ask("hdump", 1)[0])
	rn.c.Hist["heap:graphs-compared"]++
	if len(ans) != 4 || ans[0] != "hd" {
		hx.Fatalf("hdump reply %v", ans)
	}
	if ans[3] != "ok" {
		rn.fail("heap:model-refinement-broken", fmt.Sprintf("after %s: the heap model's own cross-check failed: %s", ctx, ans[3]), true)
	}
	if ans[1] != hex.EncodeToString(sum[:]) {
		model := rn.or.Ask("hdumpfull", 1)[0]
		rn.fail("heap:sharing-differs", fmt.Sprintf("after %s: the object graph reachable from the chain and the %d views handed out differs from the heap model's; %s", ctx, len(helds), firstDiff(got, model)), true)
	}
	if n := strings.Count(got, "*"); n > 0 {
		rn.c.Hist["heap:ops-allocating-reachable-objects"]++
	}
}

// heapReader: create one overlay state through a held view (PreConfirmedStateAt or
// PreConfirmedStateBeforeIndexAt), compare what it holds and how it is connected to the views.
func (rn *runner) heapReader(t *heapTie, node *chain.Node, st *preconfirmed.ChainStorage, shadow []slot, helds []*held, hi int, rng *hx.RNG) {
	if t == nil {
		return
	}
	h := helds[hi]
	b := h.n + uint64(rng.Intn(4))
	if h.view.Length() > 0 {
		tip := h.view.Head().Block.Number
		b = tip - uint64(rng.Intn(h.view.Length()+1)) + uint64(rng.Intn(2))
	}
	before := rng.Chance(40)
	idx := uint64(rng.Intn(4))
	var sr core.StateReader
	var closer func() error
	var err error
	line := fmt.Sprintf("hstate %d %d", hi, b)
	if before {
		sr, closer, err = h.view.PreConfirmedStateBeforeIndexAt(b, uint(idx), node.BC)
		line = fmt.Sprintf("hstate %d %d %d", hi, b, idx)
	} else {
		sr, closer, err = h.view.PreConfirmedStateAt(b, node.BC)
	}
	got := ""
	switch {
	case err == nil:
		ps, ok := sr.(*pending.State)
		if !ok {
			closer()
			return
		}
		t.trans = ps
		var cl [][2]uint64
		for hh, c := range stateClasses(ps) {
			hh := hh
			cl = append(cl, [2]uint64{u64(&hh), classID(c)})
		}
		sort.Slice(cl, func(i, j int) bool { return cl[i][0] < cl[j][0] })
		got = "ok " + canonDiff(ps.StateDiff()) + " " + pairs(cl)
		closer()
	case errors.Is(err, pending.ErrPreConfirmedNotFound):
		got = "err notfound"
	case errors.Is(err, pending.ErrTransactionIndexOutOfBounds):
		got = "err oob"
	default: // the canonical state below the view is gone (head reverted): nothing was built
		rn.c.Hist["heap:reader:base-gone"]++
		return
	}
	ans := rn.or.Ask(line, 1)[0]
	if err == nil {
		rn.c.Hist["heap:reader:ok"]++
	} else {
		rn.c.Hist["heap:reader:"+got]++
	}
	if got != ans {
		rn.fail("heap:reader-differs", fmt.Sprintf("%s on view [%s]: code %q, heap model %q", line, h.canon, got, ans), true)
	}
	rn.heapCheck(t, st, shadow, helds, line)
	t.trans = nil
	rn.or.Ask("hdrop", 1)
}
