// C20 correspondence: real preconfirmed.ChainStorage / ChainReader / pending.State driven by scripted
// poller updates and head movements on a real Blockchain, against the extracted Coq model
// (oracle/c20).  Sequential cases compare every result and the whole chain after every op, every
// view, every state read of a small universe and every hash lookup; concurrent cases run one writer
// and several lock-free readers and check that every view a reader got is a snapshot of a chain the
// model published in the reader's load window, and that the deep fingerprint of every view held
// never changes.
package main

import (
	"crypto/sha256"
	"encoding/hex"
	"errors"
	"fmt"
	"io"
	"os"
	"reflect"
	"runtime"
	"sort"
	"strconv"
	"strings"
	"sync"
	"sync/atomic"
	"time"

	"github.com/NethermindEth/juno/adapters/sn2core"
	"github.com/NethermindEth/juno/core"
	"github.com/NethermindEth/juno/core/felt"
	"github.com/NethermindEth/juno/core/pending"
	"github.com/NethermindEth/juno/starknet"
	"github.com/NethermindEth/juno/sync/preconfirmed"
	"verifharness/chain"
	"verifharness/hx"
)

// ---------- universe ----------
var (
	addrs      = []uint64{16, 17, 18, 19, 20, 21}
	baseDeploy = []uint64{16, 17, 18} // deployed in the canonical base; 19..21 may be deployed by views
	slots      = []uint64{1, 2, 3, 4, 5}
	classes    = []uint64{40, 41, 42, 43, 50, 51}
	hashLo     = uint64(100)
	hashHi     = uint64(124)
)

// ---------- generated inputs ----------
type Diff struct {
	S             [][3]uint64
	N, D, R, C, M [][2]uint64
	C0            []uint64
}
type Item struct {
	Hash, Tx, RHash, Rc uint64
	D                   Diff
}
type Op struct {
	K      string // apply | advance | snap | grow | revert
	UK     string // B | D | N
	Bn     uint64
	Bt     uint64
	Opc    uint64
	Cls    [][2]uint64
	ID     uint64
	Fault  int
	Items  []Item
	N      uint64
	Why    string // generator's intention (histogram only)
	Reads  bool
	BeforI int
}

func pairs(l [][2]uint64) string {
	if len(l) == 0 {
		return "-"
	}
	p := make([]string, len(l))
	for i, x := range l {
		p[i] = fmt.Sprintf("%d.%d", x[0], x[1])
	}
	return strings.Join(p, ",")
}
func (d Diff) String() string {
	s := "-"
	if len(d.S) > 0 {
		p := make([]string, len(d.S))
		for i, x := range d.S {
			p[i] = fmt.Sprintf("%d.%d.%d", x[0], x[1], x[2])
		}
		s = strings.Join(p, ",")
	}
	c0 := "-"
	if len(d.C0) > 0 {
		p := make([]string, len(d.C0))
		for i, x := range d.C0 {
			p[i] = strconv.FormatUint(x, 10)
		}
		c0 = strings.Join(p, ",")
	}
	return strings.Join([]string{s, pairs(d.N), pairs(d.D), pairs(d.R), pairs(d.C), pairs(d.M), c0}, "/")
}
func itemsString(its []Item) string {
	if len(its) == 0 {
		return "-"
	}
	p := make([]string, len(its))
	for i, it := range its {
		p[i] = fmt.Sprintf("%d:%d:%d:%d:%s", it.Hash, it.Tx, it.RHash, it.Rc, it.D)
	}
	return strings.Join(p, "|")
}
func (o Op) Line() string {
	switch o.K {
	case "apply":
		if o.UK == "N" {
			return fmt.Sprintf("apply N %d %d %d %s", o.Bn, o.Bt, o.Opc, pairs(o.Cls))
		}
		return fmt.Sprintf("apply %s %d %d %d %s %d %d %s", o.UK, o.Bn, o.Bt, o.Opc, pairs(o.Cls), o.ID, o.Fault, itemsString(o.Items))
	case "advance":
		return fmt.Sprintf("advance %d", o.N)
	case "snap":
		return fmt.Sprintf("snap %d", o.N)
	}
	return o.K
}

// ---------- wire objects ----------
func F(x uint64) *felt.Felt { return chain.F(x) }

func wireDiff(d Diff, fault bool) *starknet.StateDiff {
	sd := &starknet.StateDiff{}
	if len(d.S) > 0 {
		sd.StorageDiffs = map[string][]struct {
			Key   *felt.Felt `json:"key"`
			Value *felt.Felt `json:"value"`
		}{}
		for _, x := range d.S {
			a := F(x[0]).String()
			sd.StorageDiffs[a] = append(sd.StorageDiffs[a], struct {
				Key   *felt.Felt `json:"key"`
				Value *felt.Felt `json:"value"`
			}{F(x[1]), F(x[2])})
		}
	}
	sd.Nonces = map[string]*felt.Felt{}
	for _, x := range d.N {
		sd.Nonces[F(x[0]).String()] = F(x[1])
	}
	if fault {
		sd.Nonces["zz-not-a-felt"] = F(1)
	}
	for _, x := range d.D {
		sd.DeployedContracts = append(sd.DeployedContracts, struct {
			Address   *felt.Felt `json:"address"`
			ClassHash *felt.Felt `json:"class_hash"`
		}{F(x[0]), F(x[1])})
	}
	for _, x := range d.R {
		sd.ReplacedClasses = append(sd.ReplacedClasses, struct {
			Address   *felt.Felt `json:"address"`
			ClassHash *felt.Felt `json:"class_hash"`
		}{F(x[0]), F(x[1])})
	}
	for _, x := range d.C {
		sd.DeclaredClasses = append(sd.DeclaredClasses, struct {
			ClassHash         *felt.Felt `json:"class_hash"`
			CompiledClassHash *felt.Felt `json:"compiled_class_hash"`
		}{F(x[0]), F(x[1])})
	}
	for _, x := range d.M {
		sd.MigratedClasses = append(sd.MigratedClasses, struct {
			ClassHash         felt.SierraClassHash `json:"class_hash"`
			CompiledClassHash felt.CasmClassHash   `json:"compiled_class_hash"`
		}{felt.SierraClassHash(*F(x[0])), felt.CasmClassHash(*F(x[1]))})
	}
	if len(d.C0) > 0 { // exact capacity: the heap model gives a wire slice cap == len
		sd.OldDeclaredContracts = make([]*felt.Felt, 0, len(d.C0))
	}
	for _, x := range d.C0 {
		sd.OldDeclaredContracts = append(sd.OldDeclaredContracts, F(x))
	}
	return sd
}

func wireItems(its []Item, fault bool) ([]starknet.Transaction, []*starknet.TransactionReceipt, []*starknet.StateDiff) {
	txs := make([]starknet.Transaction, len(its))
	rcs := make([]*starknet.TransactionReceipt, len(its))
	sds := make([]*starknet.StateDiff, len(its))
	for i, it := range its {
		empty := []felt.Felt{}
		sig := []felt.Felt{}
		txs[i] = starknet.Transaction{Hash: F(it.Hash), Type: starknet.TxnInvoke, Version: F(1), Nonce: F(it.Tx),
			CallData: &empty, Signature: &sig, SenderAddress: F(77)}
		status := starknet.Succeeded
		if it.Rc%2 == 1 {
			status = starknet.Reverted // reverted txs still carry a diff (nonce, fee): it must be folded like any other
		}
		rcs[i] = &starknet.TransactionReceipt{TransactionHash: F(it.RHash), ActualFee: F(it.Rc), ExecutionStatus: status,
			Events: []*starknet.Event{{From: F(it.Hash), Keys: []felt.Felt{*F(it.Tx)}, Data: []felt.Felt{}}}}
		sds[i] = wireDiff(it.D, fault && i == len(its)-1)
	}
	return txs, rcs, sds
}

func idString(id uint64) string { return fmt.Sprintf("0x%x", id) }

func classDef(id uint64) core.ClassDefinition {
	return &core.DeprecatedCairoClass{Abi: []byte("[]"), Program: strconv.FormatUint(id, 10)}
}

func wireUpdate(o *Op) (starknet.PreConfirmedUpdate, map[felt.Felt]core.ClassDefinition) {
	var cls map[felt.Felt]core.ClassDefinition
	if len(o.Cls) > 0 {
		cls = map[felt.Felt]core.ClassDefinition{}
		for _, x := range o.Cls {
			cls[*F(x[0])] = classDef(x[1])
		}
	}
	switch o.UK {
	case "N":
		return starknet.PreConfirmedNoChange{}, cls
	case "D":
		txs, rcs, sds := wireItems(o.Items, o.Fault == 1)
		if o.Fault == 1 && len(o.Items) == 0 {
			panic("delta fault needs an item")
		}
		return starknet.PreConfirmedDeltaUpdate{BlockIdentifier: idString(o.ID), Transactions: txs, Receipts: rcs, TransactionStateDiffs: sds}, cls
	}
	txs, rcs, sds := wireItems(o.Items, o.Fault == 1)
	ver := core.Ver0_14_0.String()
	if o.Fault == 2 {
		ver = "99.0.0"
	}
	one := F(1)
	return starknet.PreConfirmedBlock{BlockIdentifier: idString(o.ID), Transactions: txs, Receipts: rcs, TransactionStateDiffs: sds,
		Status: "PRE_CONFIRMED", Timestamp: 1700000000 + o.Bn, Version: ver, SequencerAddress: one,
		L1GasPrice: &starknet.GasPrice{PriceInWei: one, PriceInFri: one}, L2GasPrice: &starknet.GasPrice{PriceInWei: one, PriceInFri: one},
		L1DAMode: starknet.Blob, L1DataGasPrice: &starknet.GasPrice{PriceInWei: one, PriceInFri: one}}, cls
}

// ---------- canonicalisation of what the real code holds ----------
func u64(f *felt.Felt) uint64 {
	if f == nil {
		return 1<<63 + 1
	}
	if b := f.Bits(); b[1] != 0 || b[2] != 0 || b[3] != 0 {
		return 1<<63 + 2
	}
	return f.Uint64()
}

func sortedPairs(m map[felt.Felt]*felt.Felt) string {
	l := make([][2]uint64, 0, len(m))
	for k, v := range m {
		k := k
		l = append(l, [2]uint64{u64(&k), u64(v)})
	}
	sort.Slice(l, func(i, j int) bool { return l[i][0] < l[j][0] })
	return pairs(l)
}

func canonDiff(d *core.StateDiff) string {
	if d == nil {
		return "nil"
	}
	var st [][3]uint64
	for a, m := range d.StorageDiffs {
		a := a
		for k, v := range m {
			k := k
			st = append(st, [3]uint64{u64(&a), u64(&k), u64(v)})
		}
	}
	sort.Slice(st, func(i, j int) bool {
		if st[i][0] != st[j][0] {
			return st[i][0] < st[j][0]
		}
		return st[i][1] < st[j][1]
	})
	var mig [][2]uint64
	for k, v := range d.MigratedClasses {
		kf, vf := felt.Felt(k), felt.Felt(v)
		mig = append(mig, [2]uint64{u64(&kf), u64(&vf)})
	}
	sort.Slice(mig, func(i, j int) bool { return mig[i][0] < mig[j][0] })
	var c0 []uint64
	for _, h := range d.DeclaredV0Classes {
		c0 = append(c0, u64(h))
	}
	dd := Diff{S: st, M: mig, C0: c0}
	parts := strings.Split(dd.String(), "/")
	parts[1] = sortedPairs(d.Nonces)
	parts[2] = sortedPairs(d.DeployedContracts)
	parts[3] = sortedPairs(d.ReplacedClasses)
	parts[4] = sortedPairs(d.DeclaredV1Classes)
	return strings.Join(parts, "/")
}

func classID(c core.ClassDefinition) uint64 {
	if dc, ok := c.(*core.DeprecatedCairoClass); ok {
		if v, err := strconv.ParseUint(dc.Program, 10, 64); err == nil {
			return v
		}
	}
	return 999
}

// canonEntry also asserts the model's representation assumptions; a broken one comes back in bad.
func canonEntry(pc *pending.PreConfirmed) (string, string) {
	bad := ""
	b := pc.GetBlock()
	n := len(pc.GetTransactions())
	if b != pc.Block || pc.GetHeader() != b.Header || pc.GetStateUpdate() != pc.StateUpdate ||
		len(pc.GetNewClasses()) != len(pc.NewClasses) || len(pc.GetTransactionStateDiffs()) != len(pc.TransactionStateDiffs) {
		bad = "accessor: pending.PreConfirmed getters disagree with the fields"
	}
	if cp := pc.Copy(); cp == pc || cp.Block != pc.Block || cp.BlockIdentifier != pc.BlockIdentifier {
		bad = "accessor: Copy is not a shallow copy"
	}
	if len(b.Receipts) != n || len(pc.TransactionStateDiffs) != n || b.TransactionCount != uint64(n) {
		bad = fmt.Sprintf("block %d: txs=%d receipts=%d txdiffs=%d Header.TransactionCount=%d", b.Number, n, len(b.Receipts), len(pc.TransactionStateDiffs), b.TransactionCount)
	}
	id, err := strconv.ParseUint(strings.TrimPrefix(pc.BlockIdentifier, "0x"), 16, 64)
	if err != nil {
		bad = "identifier " + pc.BlockIdentifier
	}
	its := make([]string, 0, n)
	for i := 0; i < n && i < len(b.Receipts) && i < len(pc.TransactionStateDiffs); i++ {
		tx := b.Transactions[i]
		var payload uint64 = 1<<63 + 3
		if inv, ok := tx.(*core.InvokeTransaction); ok {
			payload = u64(inv.Nonce)
		}
		rc := b.Receipts[i]
		if rc.Reverted != (u64(rc.Fee)%2 == 1) {
			bad = fmt.Sprintf("reverted-flag: block %d tx %d receipt Reverted=%v, sent fee payload %d", b.Number, i, rc.Reverted, u64(rc.Fee))
		}
		its = append(its, fmt.Sprintf("%d:%d:%d:%d:%s", u64(tx.Hash()), payload, u64(rc.TransactionHash), u64(rc.Fee), canonDiff(pc.TransactionStateDiffs[i])))
	}
	items := "-"
	if len(its) > 0 {
		items = strings.Join(its, "|")
	}
	var cl [][2]uint64
	for h, c := range pc.NewClasses {
		h := h
		cl = append(cl, [2]uint64{u64(&h), classID(c)})
	}
	sort.Slice(cl, func(i, j int) bool { return cl[i][0] < cl[j][0] })
	return fmt.Sprintf("%d;%d;%s;%s;%s", b.Number, id, items, canonDiff(pc.StateUpdate.StateDiff), pairs(cl)), bad
}

func canonChain(v *preconfirmed.ChainReader) (string, string) {
	if v.Length() == 0 {
		return "-", ""
	}
	var p []string
	bad := ""
	for pc := range v.NewestFirst() {
		s, b := canonEntry(pc)
		if b != "" {
			bad = b
		}
		p = append(p, s)
	}
	if len(p) != v.Length() {
		bad = fmt.Sprintf("Length()=%d but %d nodes reachable within it", v.Length(), len(p))
	}
	return strings.Join(p, " "), bad
}

// ---------- reflective deep fingerprint: every field reachable from a view ----------
func deep(w io.Writer, v reflect.Value, depth int) {
	if depth > 20000 { // only a guard against cycles; a cut-off inside map keys would make their order arbitrary
		io.WriteString(w, "<deep>")
		return
	}
	switch v.Kind() {
	case reflect.Invalid:
		io.WriteString(w, "<inv>")
	case reflect.Pointer:
		if v.IsNil() {
			io.WriteString(w, "nil")
			return
		}
		io.WriteString(w, "&")
		deep(w, v.Elem(), depth+1)
	case reflect.Interface:
		if v.IsNil() {
			io.WriteString(w, "inil")
			return
		}
		io.WriteString(w, v.Elem().Type().String()+":")
		deep(w, v.Elem(), depth+1)
	case reflect.Struct:
		io.WriteString(w, "{")
		for i := 0; i < v.NumField(); i++ {
			io.WriteString(w, v.Type().Field(i).Name+"=")
			deep(w, v.Field(i), depth+1)
			io.WriteString(w, ";")
		}
		io.WriteString(w, "}")
	case reflect.Slice:
		if v.IsNil() {
			io.WriteString(w, "snil")
			return
		}
		fallthrough
	case reflect.Array:
		fmt.Fprintf(w, "[%d:", v.Len())
		for i := 0; i < v.Len(); i++ {
			deep(w, v.Index(i), depth+1)
			io.WriteString(w, ",")
		}
		io.WriteString(w, "]")
	case reflect.Map:
		if v.IsNil() {
			io.WriteString(w, "mnil")
			return
		}
		type kv struct{ k, v string }
		var l []kv
		it := v.MapRange()
		for it.Next() {
			var kb, vb strings.Builder
			deep(&kb, it.Key(), depth+1)
			deep(&vb, it.Value(), depth+1)
			l = append(l, kv{kb.String(), vb.String()})
		}
		sort.Slice(l, func(i, j int) bool { return l[i].k < l[j].k || (l[i].k == l[j].k && l[i].v < l[j].v) })
		fmt.Fprintf(w, "m%d{", len(l))
		for _, e := range l {
			io.WriteString(w, e.k+"->"+e.v+";")
		}
		io.WriteString(w, "}")
	case reflect.Bool:
		fmt.Fprintf(w, "%t", v.Bool())
	case reflect.Int, reflect.Int8, reflect.Int16, reflect.Int32, reflect.Int64:
		fmt.Fprintf(w, "%d", v.Int())
	case reflect.Uint, reflect.Uint8, reflect.Uint16, reflect.Uint32, reflect.Uint64, reflect.Uintptr:
		fmt.Fprintf(w, "%d", v.Uint())
	case reflect.Float32, reflect.Float64:
		fmt.Fprintf(w, "%g", v.Float())
	case reflect.String:
		fmt.Fprintf(w, "%q", v.String())
	default:
		io.WriteString(w, "<"+v.Kind().String()+">")
	}
}

var fpDebug map[string]string // C20_DEBUG_FP: fingerprint -> the walk it is the hash of

func fingerprint(v *preconfirmed.ChainReader) string {
	if fpDebug != nil {
		var sb strings.Builder
		deep(&sb, reflect.ValueOf(v).Elem(), 0)
		sum := sha256.Sum256([]byte(sb.String()))
		fp := hex.EncodeToString(sum[:12])
		fpDebug[fp] = sb.String()
		return fp
	}
	h := sha256.New()
	deep(h, reflect.ValueOf(v).Elem(), 0)
	return hex.EncodeToString(h.Sum(nil)[:12])
}

// ---------- error classes ----------
func errClass(err error) string {
	if err == nil {
		return ""
	}
	m := err.Error()
	switch {
	case errors.Is(err, preconfirmed.ErrBaseTxCountMismatch):
		return "base-tx-count"
	case errors.Is(err, sn2core.ErrPreConfirmedIdentifierMismatch):
		return "id-mismatch"
	case strings.HasPrefix(m, "bootstrap rejected"):
		return "bootstrap-kind"
	case strings.HasPrefix(m, "bootstrap block"):
		return "bootstrap-height"
	case strings.HasPrefix(m, "chain's oldest"):
		return "unaligned"
	case strings.HasPrefix(m, "applying target"):
		return "below-oldest"
	case strings.HasPrefix(m, "gap above tip"):
		return "gap"
	case strings.HasPrefix(m, "append rejected"):
		return "append-kind"
	case strings.HasPrefix(m, "delta at non-tip"):
		return "delta-non-tip"
	case strings.HasPrefix(m, "no-change at non-tip"):
		return "nochange-non-tip"
	case strings.HasPrefix(m, "unsupported block version"):
		return "version"
	case strings.HasPrefix(m, "chain changed between"):
		return "cas-failed"
	case strings.Contains(m, "zz-not-a-felt") || strings.Contains(m, "hex string") || strings.Contains(m, "invalid"):
		return "adapt"
	}
	return "other:" + m
}

// ---------- shadow of the model chain (parsed from the oracle's reply; drives the generator) ----------
type slot struct {
	num, id  uint64
	ntx, ncl int
}

func parseShadow(chainLine string) []slot { // newest first
	c := strings.TrimPrefix(chainLine, "chain ")
	if c == "-" {
		return nil
	}
	var out []slot
	for _, e := range strings.Fields(c) {
		f := strings.Split(e, ";")
		num, _ := strconv.ParseUint(f[0], 10, 64)
		id, _ := strconv.ParseUint(f[1], 10, 64)
		s := slot{num: num, id: id}
		if f[2] != "-" {
			s.ntx = len(strings.Split(f[2], "|"))
		}
		if f[4] != "-" {
			s.ncl = len(strings.Split(f[4], ","))
		}
		out = append(out, s)
	}
	return out
}

// ---------- generator ----------
type gen struct {
	r      *hx.RNG
	nextTx uint64
	nextID uint64
}

func pick(r *hx.RNG, l []uint64) uint64 { return l[r.Intn(len(l))] }

// distinct picks k distinct elements of l (k <= len(l)).
func distinct(r *hx.RNG, l []uint64, k int) []uint64 {
	c := append([]uint64(nil), l...)
	for i := 0; i < k; i++ {
		j := i + r.Intn(len(c)-i)
		c[i], c[j] = c[j], c[i]
	}
	return c[:k]
}

// writes appends k distinct slots of contract a (values 0..15, zero included).
func (g *gen) writes(d *Diff, a uint64, k int) {
	for _, s := range distinct(g.r, slots, k) {
		dup := false
		for _, x := range d.S {
			dup = dup || (x[0] == a && x[1] == s)
		}
		if !dup {
			d.S = append(d.S, [3]uint64{a, s, uint64(g.r.Intn(16))})
		}
	}
}

// diff: per-contract storage maps of very different sizes across transactions / blocks / deltas
// with overlapping keys: a "hot" contract gets one-slot writes, then wide writes (2..5 slots) that
// are strictly larger than what was accumulated and rewrite it; also equal, smaller and disjoint
// shapes, several contracts per tx; nonces / class hashes / declarations repeat on few addresses.
func (g *gen) diff() Diff {
	r := g.r
	var d Diff
	hot := baseDeploy[0]
	if r.Chance(30) {
		hot = pick(r, baseDeploy)
	}
	switch x := r.Intn(100); {
	case x < 12: // nothing
	case x < 40:
		g.writes(&d, hot, 1)
	case x < 62:
		g.writes(&d, hot, 2+r.Intn(len(slots)-1)) // wide: 2..all slots of one contract
	case x < 78:
		g.writes(&d, pick(r, baseDeploy), 1+r.Intn(3))
		g.writes(&d, pick(r, addrs), 1+r.Intn(len(slots)))
	default:
		for i := 1 + r.Intn(2); i > 0; i-- {
			g.writes(&d, pick(r, addrs), 1+r.Intn(2))
		}
	}
	if r.Chance(40) {
		a := hot
		if r.Chance(40) {
			a = pick(r, addrs[:4])
		}
		d.N = append(d.N, [2]uint64{a, uint64(1 + r.Intn(15))})
		if r.Chance(25) {
			if b := pick(r, addrs[:4]); b != a {
				d.N = append(d.N, [2]uint64{b, uint64(1 + r.Intn(15))})
			}
		}
	}
	if r.Chance(12) {
		d.D = append(d.D, [2]uint64{pick(r, addrs[3:]), pick(r, classes[:4])})
	}
	if r.Chance(16) {
		a := hot
		if r.Chance(50) {
			a = pick(r, addrs[:5])
		}
		d.R = append(d.R, [2]uint64{a, pick(r, classes[:4])})
	}
	if r.Chance(14) {
		for _, h := range distinct(r, classes[4:], 1+r.Intn(2)) {
			d.C = append(d.C, [2]uint64{h, uint64(60 + r.Intn(8))})
		}
	}
	if r.Chance(8) {
		d.M = append(d.M, [2]uint64{pick(r, classes[4:]), uint64(70 + r.Intn(8))})
	}
	if r.Chance(6) {
		d.C0 = append(d.C0, pick(r, classes[:4]))
	}
	return d
}

func (g *gen) items(n int) []Item {
	its := make([]Item, n)
	for i := range its {
		h := hashLo + uint64(g.r.Intn(int(hashHi-hashLo)))
		g.nextTx++
		rh := h
		if g.r.Chance(8) {
			rh = hashLo + uint64(g.r.Intn(int(hashHi-hashLo)))
		}
		rc := 2 * (g.nextTx + 5000)
		if g.r.Chance(25) {
			rc++ // REVERTED
		}
		its[i] = Item{Hash: h, Tx: g.nextTx, RHash: rh, Rc: rc, D: g.diff()}
	}
	return its
}

func (g *gen) cls(n int) [][2]uint64 {
	seen := map[uint64]bool{}
	var out [][2]uint64
	for len(out) < n {
		h := pick(g.r, classes)
		if seen[h] {
			continue
		}
		seen[h] = true
		out = append(out, [2]uint64{h, 400 + uint64(g.r.Intn(50))})
	}
	return out
}

func (g *gen) newID() uint64 { g.nextID++; return 0x100 + g.nextID }

// applyOp generates one ApplyUpdate call given the model chain (newest first) and the canonical height.
func (g *gen) applyOp(sh []slot, height uint64) Op {
	r := g.r
	o := Op{K: "apply", UK: "B", Opc: height + 1}
	if len(sh) == 0 {
		o.Bn = height + 1
		o.ID = g.newID()
		o.Items = g.items(r.Intn(4))
		switch x := r.Intn(100); {
		case x < 70:
			o.Why = "bootstrap"
			if r.Chance(20) {
				o.Cls = g.cls(1 + r.Intn(2))
			}
		case x < 78:
			o.Why = "bootstrap-wrong-height"
			o.Bn = height + 2
		case x < 84:
			o.Why = "bootstrap-delta"
			o.UK = "D"
			o.Items = g.items(1)
		case x < 90:
			o.Why = "bootstrap-nochange"
			o.UK = "N"
			o.Items = nil
		case x < 95:
			o.Why = "bootstrap-version"
			o.Fault = 2
		default:
			o.Why = "bootstrap-adapt-error"
			o.Fault = 1
			o.Items = g.items(1 + r.Intn(2))
		}
		return o
	}
	tip, oldest := sh[0], sh[len(sh)-1]
	x := r.Intn(100)
	switch {
	case x < 20:
		o.Why = "extend"
		o.Bn, o.ID, o.Items = tip.num+1, g.newID(), g.items(r.Intn(4))
		if r.Chance(15) {
			o.Cls = g.cls(1)
		}
	case x < 27:
		o.Why = "same-round-richer"
		o.Bn, o.ID, o.Items = tip.num, tip.id, g.items(tip.ntx+1+r.Intn(2))
	case x < 31:
		o.Why = "same-round-not-richer"
		o.Bn, o.ID, o.Items = tip.num, tip.id, g.items(r.Intn(tip.ntx+1))
	case x < 34:
		o.Why = "blank-identifier"
		o.Bn, o.ID, o.Items = tip.num, 0, g.items(r.Intn(tip.ntx+2))
	case x < 41:
		o.Why = "new-round-tip"
		o.Bn, o.ID, o.Items = tip.num, g.newID(), g.items(r.Intn(3))
	case x < 47:
		o.Why = "new-round-inner-slot"
		s := sh[r.Intn(len(sh))]
		o.Bn, o.ID, o.Items = s.num, g.newID(), g.items(r.Intn(3))
	case x < 50:
		o.Why = "same-round-more-classes"
		s := sh[r.Intn(len(sh))]
		o.Bn, o.ID, o.Items, o.Cls = s.num, s.id, g.items(r.Intn(s.ntx+1)), g.cls(min(s.ncl+1, len(classes)))
	case x < 64:
		o.Why = "delta-tip"
		o.UK, o.Bn, o.Bt, o.ID, o.Items = "D", tip.num, uint64(tip.ntx), tip.id, g.items(1+r.Intn(3))
		if r.Chance(20) {
			o.Cls = g.cls(1 + r.Intn(2))
		}
	case x < 67:
		o.Why = "delta-wrong-base-count"
		o.UK, o.Bn, o.Bt, o.ID, o.Items = "D", tip.num, uint64(tip.ntx+1+r.Intn(2)), tip.id, g.items(1)
	case x < 70:
		o.Why = "delta-wrong-identifier"
		o.UK, o.Bn, o.Bt, o.ID, o.Items = "D", tip.num, uint64(tip.ntx), g.newID(), g.items(1)
	case x < 73:
		o.Why = "delta-inner-slot"
		s := sh[r.Intn(len(sh))]
		o.UK, o.Bn, o.Bt, o.ID, o.Items = "D", s.num, uint64(s.ntx), s.id, g.items(1)
	case x < 75:
		o.Why = "delta-adapt-error"
		o.UK, o.Bn, o.Bt, o.ID, o.Items, o.Fault = "D", tip.num, uint64(tip.ntx), tip.id, g.items(1+r.Intn(2)), 1
	case x < 78:
		o.Why = "nochange-plain"
		s := sh[r.Intn(len(sh))]
		o.UK, o.Bn = "N", s.num
	case x < 83:
		o.Why = "nochange-classes-tip"
		o.UK, o.Bn, o.Cls = "N", tip.num, g.cls(1+r.Intn(3))
	case x < 85:
		o.Why = "nochange-classes-inner"
		s := sh[r.Intn(len(sh))]
		o.UK, o.Bn, o.Cls = "N", s.num, g.cls(1)
	case x < 88:
		o.Why = "gap"
		o.Bn, o.ID, o.Items = tip.num+2+uint64(r.Intn(2)), g.newID(), g.items(1)
	case x < 90:
		o.Why = "below-oldest"
		o.Bn, o.ID, o.Items = oldest.num-1, g.newID(), g.items(1)
	case x < 93:
		o.Why = "unaligned"
		o.Bn, o.ID, o.Items = tip.num+1, g.newID(), g.items(1)
		o.Opc = oldest.num + 1 - uint64(r.Intn(3))
	case x < 95:
		o.Why = "version-error"
		o.Bn, o.ID, o.Items, o.Fault = tip.num+uint64(r.Intn(2)), g.newID(), g.items(1), 2
	case x < 97:
		o.Why = "adapt-error"
		o.Bn, o.ID, o.Items, o.Fault = tip.num+uint64(r.Intn(2)), g.newID(), g.items(1+r.Intn(2)), 1
	case x < 99:
		o.Why = "append-delta"
		o.UK, o.Bn, o.ID, o.Items = "D", tip.num+1, tip.id, g.items(1)
	default:
		o.Why = "append-nochange"
		o.UK, o.Bn = "N", tip.num+1
	}
	return o
}

// ---------- the canonical base ----------
func (g *gen) baseBlock(genesis bool) *chain.BlockSpec {
	r := g.r
	s := &chain.BlockSpec{Salt: r.U64() & 0xff, Timestamp: 1600000000}
	if genesis {
		s.DeclareV0 = []uint64{40, 41, 42, 43}
		s.Deploy = map[uint64]uint64{}
		for _, a := range baseDeploy {
			s.Deploy[a] = pick(r, classes[:4])
		}
	}
	s.Storage = map[uint64]map[uint64]uint64{}
	for i := 1 + r.Intn(3); i > 0; i-- {
		a := pick(r, baseDeploy)
		if s.Storage[a] == nil {
			s.Storage[a] = map[uint64]uint64{}
		}
		s.Storage[a][pick(r, slots)] = uint64(10 + r.Intn(8))
	}
	if r.Chance(50) {
		s.Nonces = map[uint64]uint64{pick(r, baseDeploy): uint64(1 + r.Intn(9))}
	}
	if !genesis && r.Chance(25) {
		s.Replace = map[uint64]uint64{pick(r, baseDeploy): pick(r, classes[:4])}
	}
	return s
}

// ---------- one sequential case ----------
type replay struct {
	Kind     string
	CaseSeed uint64
	NOps     int
	NewState bool
	Lines    []string // the ops as sent to the oracle (informative)
	Script   []Op     // directed case: these ops instead of generated ones
}

type held struct {
	view  preconfirmed.ChainReader
	vid   int
	n     uint64
	canon string
	fp    string
}

type runner struct {
	c      *hx.Ctx
	or     *hx.Oracle
	rp     replay
	fails  int
	script []Op
	heapOn bool // compare the real object graph with the heap model after every op of a sequential case
}

func (rn *runner) fail(class, what string, noInput bool) {
	rn.fails++
	rn.c.Violation(class, what, rn.rp, noInput)
}

func val(f felt.Felt, err error) string {
	if err != nil {
		return "e"
	}
	return strconv.FormatUint(u64(&f), 10)
}

// readAll performs every query of the universe on a state reader; q -> "e" | number.
func queries() []string {
	var qs []string
	for _, a := range addrs {
		qs = append(qs, fmt.Sprintf("n.%d", a), fmt.Sprintf("h.%d", a))
		for _, k := range slots {
			qs = append(qs, fmt.Sprintf("s.%d.%d", a, k), fmt.Sprintf("u.%d.%d", a, k))
		}
	}
	for _, h := range classes {
		qs = append(qs, fmt.Sprintf("c.%d", h), fmt.Sprintf("p.%d", h), fmt.Sprintf("m.%d", h))
	}
	return qs
}

var allQueries = queries()

func readQuery(st core.StateReader, q string) string {
	f := strings.Split(q, ".")
	a, _ := strconv.ParseUint(f[1], 10, 64)
	switch f[0] {
	case "n":
		return val(st.ContractNonce(F(a)))
	case "h":
		return val(st.ContractClassHash(F(a)))
	case "s":
		k, _ := strconv.ParseUint(f[2], 10, 64)
		return val(st.ContractStorage(F(a), F(k)))
	case "u":
		k, _ := strconv.ParseUint(f[2], 10, 64)
		n, err := st.ContractStorageLastUpdatedBlock((*felt.Address)(F(a)), F(k))
		if err != nil {
			return "e"
		}
		return strconv.FormatUint(n, 10)
	case "c":
		d, err := st.Class(F(a))
		if err != nil || d == nil {
			return "e"
		}
		return strconv.FormatUint(classID(d.Class), 10)
	case "p":
		h, err := st.CompiledClassHash((*felt.SierraClassHash)(F(a)))
		return val(felt.Felt(h), err)
	case "m":
		h, err := st.CompiledClassHashV2((*felt.SierraClassHash)(F(a)))
		return val(felt.Felt(h), err)
	}
	panic(q)
}

// checkReads compares PreConfirmedStateAt / PreConfirmedStateBeforeIndexAt reads through a held view
// with the model, and evaluates the property predicate (reads == diffs applied block by block).
func (rn *runner) checkReads(node *chain.Node, h *held, rng *hx.RNG) {
	c := rn.c
	if h.view.Length() == 0 {
		st, _, err := h.view.PreConfirmedStateAt(h.n, node.BC)
		if err == nil || st != nil {
			rn.fail("state-at:empty-view-no-error", fmt.Sprintf("empty view answered PreConfirmedStateAt(%d)", h.n), true)
		}
		return
	}
	tip := h.view.Head().Block.Number
	oldest := tip - uint64(h.view.Length()-1)
	base, closeBase, err := node.BC.StateAtBlockNumber(oldest - 1)
	if err != nil {
		// the head reverted below the view: no canonical state below it any more
		_, _, err2 := h.view.PreConfirmedStateAt(tip, node.BC)
		c.Hist["reads:base-gone"]++
		if err2 == nil {
			rn.fail("state-at:base-missing-no-error", fmt.Sprintf("no state at %d but PreConfirmedStateAt(%d) succeeded", oldest-1, tip), true)
		}
		return
	}
	baseVals := make([]string, len(allQueries))
	for i, q := range allQueries {
		baseVals[i] = readQuery(base, q)
	}
	closeBase()
	var qb strings.Builder
	for i, q := range allQueries {
		qb.WriteString(" " + q + "=" + baseVals[i])
	}
	// the predicates are evaluated on the view the CODE holds (its own per-transaction diffs as adapted
	// from the wire), registered with the oracle by its canonical text; equality of that view with the
	// model's is checked where the snapshot is taken
	var cvid int
	fmt.Sscanf(rn.or.Ask("view "+h.canon, 1)[0], "view %d", &cvid)
	ntx := map[uint64]int{}
	for pc := range h.view.OldestFirst() {
		ntx[pc.Block.Number] = len(pc.Block.Transactions)
	}
	type pos struct {
		b      uint64
		before bool
		idx    uint64
	}
	var todo []pos
	for b := oldest - 1; b <= tip+1; b++ {
		todo = append(todo, pos{b, false, 0})
		if n, in := ntx[b]; in && rng.Chance(50) {
			for i := 0; i <= n+1; i++ { // every BeforeIndex position, and one past the end
				todo = append(todo, pos{b, true, uint64(i)})
			}
		} else {
			todo = append(todo, pos{b, true, uint64(rng.Intn(5))})
		}
	}
	// NewChain over the view's own entries (what sync.PreConfirmedChain's fallback uses) is the same view
	var es []*pending.PreConfirmed
	for pc := range h.view.OldestFirst() {
		es = append(es, pc)
	}
	if nc, err := preconfirmed.NewChain(es...); err != nil {
		rn.fail("new-chain:rejects-contiguous", fmt.Sprintf("NewChain over view [%s]: %v", h.canon, err), false)
	} else if s, _ := canonChain(&nc); s != h.canon || nc.Length() != h.view.Length() {
		rn.fail("new-chain:differs", fmt.Sprintf("NewChain over view [%s] gives [%s]", h.canon, s), false)
	}
	if len(es) >= 2 {
		if _, err := preconfirmed.NewChain(es[1], es[0]); err == nil {
			rn.fail("new-chain:accepts-gap", "NewChain accepted non-contiguous entries", false)
		}
		if _, err := preconfirmed.NewChain(es[0], nil); err == nil {
			rn.fail("new-chain:accepts-nil", "NewChain accepted a nil entry", false)
		}
	}
	// BeforeIndex(len(txs)) must read exactly as StateAt, on the real code, for every block of the view
	for b, n := range ntx {
		s1, c1, e1 := h.view.PreConfirmedStateAt(b, node.BC)
		s2, c2, e2 := h.view.PreConfirmedStateBeforeIndexAt(b, uint(n), node.BC)
		if e1 != nil || e2 != nil {
			rn.fail("state-at:in-range-error", fmt.Sprintf("block %d of view [%s]: %v / %v", b, h.canon, e1, e2), false)
			continue
		}
		for _, q := range allQueries {
			if a, bb := readQuery(s1, q), readQuery(s2, q); a != bb {
				rn.fail("before-index-full-vs-state-at:"+q[:1], fmt.Sprintf("view [%s] block %d %s: PreConfirmedStateAt says %s, PreConfirmedStateBeforeIndexAt(%d,%d) (all its transactions) says %s", h.canon, b, q, a, b, n, bb), false)
				break
			}
		}
		c1()
		c2()
		c.Hist["reads:before-index-full-vs-state-at"]++
	}
	for _, p := range todo {
		b, before, idx := p.b, p.before, p.idx
		var st core.StateReader
		var closer func() error
		var line string
		if before {
			st, closer, err = h.view.PreConfirmedStateBeforeIndexAt(b, uint(idx), node.BC)
			line = fmt.Sprintf("before %d %d %d%s", cvid, b, idx, qb.String())
		} else {
			st, closer, err = h.view.PreConfirmedStateAt(b, node.BC)
			line = fmt.Sprintf("state %d %d%s", cvid, b, qb.String())
		}
		ans := rn.or.Ask(line, 1)[0]
		kind := "state-at"
		if before {
			kind = "state-before-index"
		}
		c.Count(fmt.Sprintf("%s|%s|%d|%d", kind, h.canon, b, idx), b >= oldest && b <= tip)
		if err != nil {
			got := "other:" + err.Error()
			switch {
			case errors.Is(err, pending.ErrPreConfirmedNotFound):
				got = "err notfound"
			case errors.Is(err, pending.ErrTransactionIndexOutOfBounds):
				got = "err oob"
			}
			c.Hist["reads:"+got]++
			if got != ans {
				rn.fail("model-mismatch:"+kind+"-error", fmt.Sprintf("%s(%d,%d) on view [%s]: code %q, model %q", kind, b, idx, h.canon, got, ans), true)
			}
			if (b < oldest || b > tip) != (got == "err notfound") {
				rn.fail(kind+":range", fmt.Sprintf("block %d, view %d..%d: %s", b, oldest, tip, got), false)
			}
			continue
		}
		f := strings.Fields(ans)
		if f[0] != "ok" || len(f) != 3+len(allQueries) {
			rn.fail("model-mismatch:"+kind+"-error", fmt.Sprintf("%s(%d,%d) on view [%s]: code ok, model %q", kind, b, idx, h.canon, ans), true)
			closer()
			continue
		}
		if ps, ok := st.(*pending.State); ok { // the merged diff handed out is fresh, tries are refused
			for pc := range h.view.OldestFirst() {
				if ps.StateDiff() == pc.StateUpdate.StateDiff {
					rn.fail("immutable:state-diff-aliased", fmt.Sprintf("%s(%d): State.StateDiff() is block %d's stored diff", kind, b, pc.Block.Number), false)
				}
			}
			_, e1 := ps.ClassTrie()
			_, e2 := ps.ContractTrie()
			_, e3 := ps.ContractStorageTrie(F(16))
			if !errors.Is(e1, pending.ErrHistoricalTrieNotSupported) || !errors.Is(e2, pending.ErrHistoricalTrieNotSupported) || !errors.Is(e3, pending.ErrHistoricalTrieNotSupported) {
				rn.fail("state:trie-access", "a pre-confirmed overlay state handed out a trie", true)
			}
		}
		fresh, freshTx := f[1] == "1", f[2] == "1"
		c.Hist[fmt.Sprintf("reads:%s:fresh=%v:fresh-per-tx=%v", kind, fresh, freshTx)]++
		for i, q := range allQueries {
			got := readQuery(st, q)
			ms := strings.Split(f[3+i], "/")
			// the property predicate against what the feeder sent: in-order fold over the wire per-tx diffs
			if freshTx && q[0] != 'u' && got != ms[2] {
				rn.fail("overlay-wire-tx-fold:"+q[:1], fmt.Sprintf("%s(%d,%d) %s through view [%s]: code %s, the wire per-transaction diffs folded in order say %s (base %s)", kind, b, idx, q, h.canon, got, ms[2], baseVals[i]), false)
			}
			if got != ms[0] {
				rn.fail("model-mismatch:read:"+q[:1], fmt.Sprintf("%s(%d,%d) %s on view [%s] base %s: code %s, model %s", kind, b, idx, q, h.canon, baseVals[i], got, ms[0]), true)
			}
			// the property predicate, on what the code returned
			if fresh && got != ms[1] {
				if q[0] == 'u' {
					rn.fail("overlay:last-updated-block:slot-written-by-older-view-block",
						fmt.Sprintf("%s(block %d) ContractStorageLastUpdatedBlock(%s) through view [%s]: code says %s, the view's diffs applied block by block say %s (base %s)", kind, b, q[2:], h.canon, got, ms[1], baseVals[i]), false)
				} else {
					rn.fail("overlay:"+q[:1], fmt.Sprintf("%s(%d,%d) %s through view [%s]: code %s, diffs applied in order %s (base %s)", kind, b, idx, q, h.canon, got, ms[1], baseVals[i]), false)
				}
			}
			if got != baseVals[i] {
				c.Hist["reads:overlaid:"+q[:1]]++
			}
		}
		closer()
	}
}

func (rn *runner) checkLookups(h *held) {
	for x := hashLo; x < hashHi; x++ {
		want := rn.or.Ask(fmt.Sprintf("tx %d %d", h.vid, x), 1)[0]
		tx, err := h.view.TransactionByHash(F(x))
		got := "none"
		if err == nil {
			got = "some " + strconv.FormatUint(u64(tx.(*core.InvokeTransaction).Nonce), 10)
			if u64(tx.Hash()) != x {
				rn.fail("lookup:tx-wrong-hash", fmt.Sprintf("asked %d got %d", x, u64(tx.Hash())), false)
			}
		} else if !errors.Is(err, pending.ErrTransactionNotFound) {
			got = "other:" + err.Error()
		}
		// per-entry accessors of pending.PreConfirmed: the chain-level answer is the first per-entry hit, newest block first
		hx := felt.TransactionHash(*F(x))
		per, perRc := "none", "none"
		for pc := range h.view.NewestFirst() {
			if t, idx, e := pc.TransactionByHash(&hx); e == nil && per == "none" {
				per = "some " + strconv.FormatUint(u64(t.(*core.InvokeTransaction).Nonce), 10)
				if pc.Block.Transactions[idx] != t {
					rn.fail("lookup:entry-index", fmt.Sprintf("hash %d: index %d of block %d is another transaction", x, idx, pc.Block.Number), false)
				}
			}
			if r, e := pc.ReceiptByHash(&hx); e == nil && perRc == "none" {
				perRc = fmt.Sprintf("some %d %d", u64(r.Fee), pc.Block.Number)
			}
		}
		if per != got {
			rn.fail("lookup:newest-block-wins", fmt.Sprintf("hash %d view [%s]: chain %q, first per-entry hit %q", x, h.canon, got, per), false)
		}
		if got != want {
			rn.fail("model-mismatch:tx-by-hash", fmt.Sprintf("hash %d view [%s]: code %q model %q", x, h.canon, got, want), true)
		}
		// predicate: found iff some block of the view has it
		inView := strings.Contains(" "+strings.ReplaceAll(strings.ReplaceAll(h.canon, ";", " ; "), "|", " | ")+" ", fmt.Sprintf(" %d:", x))
		if (got != "none") != inView {
			rn.fail("lookup:tx-exact", fmt.Sprintf("hash %d view [%s]: %s", x, h.canon, got), false)
		}
		want = rn.or.Ask(fmt.Sprintf("rc %d %d", h.vid, x), 1)[0]
		rc, bn, err := h.view.ReceiptByHash(F(x))
		got = "none"
		if err == nil {
			got = fmt.Sprintf("some %d %d", u64(rc.Fee), bn)
		} else if !errors.Is(err, pending.ErrTransactionReceiptNotFound) {
			got = "other:" + err.Error()
		}
		if perRc != got {
			rn.fail("lookup:newest-block-wins-receipt", fmt.Sprintf("hash %d view [%s]: chain %q, first per-entry hit %q", x, h.canon, got, perRc), false)
		}
		if got != want {
			rn.fail("model-mismatch:receipt-by-hash", fmt.Sprintf("hash %d view [%s]: code %q model %q", x, h.canon, got, want), true)
		}
		rn.c.Hist["lookup:"+strings.Fields(got)[0]]++
	}
	rn.c.Count("lookups|"+h.canon, h.view.Length() > 0)
}

func alignedPredicate(v *preconfirmed.ChainReader, n uint64) bool {
	if v.Length() == 0 {
		return true
	}
	want := n
	for pc := range v.OldestFirst() {
		if pc.Block.Number != want {
			return false
		}
		want++
	}
	return want == n+uint64(v.Length())
}

// applyReal executes one apply/advance on the real storage and compares with the model's two reply lines.
func (rn *runner) applyReal(st *preconfirmed.ChainStorage, o *Op, reply []string) {
	c := rn.c
	switch o.K {
	case "apply":
		u, cls := wireUpdate(o)
		aff, err := st.ApplyUpdate(u, o.Bn, o.Bt, o.Opc, cls)
		got := "noop"
		if err != nil {
			got = "err " + errClass(err)
		} else if aff != nil {
			s, bad := canonEntry(aff)
			if bad != "" {
				rn.fail("representation:"+strings.Fields(bad)[0], bad, true)
			}
			got = "applied " + s
		}
		c.Hist["apply:"+o.Why+" -> "+strings.Fields(got)[0]+func() string {
			if err != nil {
				return " " + errClass(err)
			}
			return ""
		}()]++
		if got != reply[0] {
			rn.fail("model-mismatch:apply:"+o.Why, fmt.Sprintf("%s: code %q, model %q", o.Line(), got, reply[0]), true)
		}
	case "advance":
		b := st.AdvanceTo(o.N)
		got := "adv f"
		if b {
			got = "adv t"
		}
		c.Hist["advance -> "+got]++
		if got != reply[0] {
			rn.fail("model-mismatch:advance", fmt.Sprintf("%s: code %q, model %q", o.Line(), got, reply[0]), true)
		}
	}
}

func (rn *runner) compareChain(st *preconfirmed.ChainStorage, modelChain string, ctx string) {
	sh := parseShadow(modelChain)
	want := strings.TrimPrefix(modelChain, "chain ")
	if len(sh) == 0 {
		for _, n := range []uint64{0, 1, 2, 5, 8, 9, 10, 11, 12} {
			if v := st.SnapshotForBlock(n); v.Length() != 0 {
				s, _ := canonChain(&v)
				rn.fail("model-mismatch:chain", fmt.Sprintf("after %s: model chain empty, code has [%s]", ctx, s), true)
				return
			}
		}
		return
	}
	oldest, tip := sh[len(sh)-1].num, sh[0].num
	v := st.SnapshotForBlock(oldest)
	got, bad := canonChain(&v)
	if bad != "" {
		rn.fail("representation:"+strings.Fields(bad)[0], bad, true)
	}
	if got != want {
		rn.fail("model-mismatch:chain", fmt.Sprintf("after %s: code [%s], model [%s]", ctx, got, want), true)
	}
	if !alignedPredicate(&v, oldest) {
		rn.fail("contiguous:stored-chain", fmt.Sprintf("after %s: stored chain [%s] is not a gap-free run from %d", ctx, got, oldest), false)
	}
	if below := st.SnapshotForBlock(oldest - 1); below.Length() != 0 {
		rn.fail("model-mismatch:chain-extent", fmt.Sprintf("after %s: snapshot below oldest %d non-empty", ctx, oldest), true)
	}
	if above := st.SnapshotForBlock(tip + 1); above.Length() != 0 {
		rn.fail("model-mismatch:chain-extent", fmt.Sprintf("after %s: snapshot above tip %d non-empty", ctx, tip), true)
	}
}

func (rn *runner) seqCase(caseSeed uint64, nops int, newState bool) {
	c := rn.c
	rng := hx.NewRNG(caseSeed)
	g := &gen{r: rng}
	rn.rp = replay{Kind: "seq", CaseSeed: caseSeed, NOps: nops, NewState: newState, Script: rn.script}
	if rn.script != nil {
		nops = len(rn.script)
	}
	node := chain.NewNode(nil, newState)
	nb := 2 + rng.Intn(3)
	if rn.script != nil {
		nb = 3
	}
	for i := 0; i < nb; i++ {
		if _, err := node.Finalise(g.baseBlock(i == 0)); err != nil {
			hx.Fatalf("base chain: %v", err)
		}
	}
	st := preconfirmed.NewChainStorage()
	rn.or.Ask("reset", 1)
	var shadow []slot
	modelChain := "chain -"
	var helds []*held
	var ht *heapTie
	if rn.heapOn {
		ht = newHeapTie()
	}
	before := rn.c.NViolations()
	for i := 0; i < nops && rn.c.NViolations() == before; i++ {
		height, err := node.BC.Height()
		hx.Must(err)
		x := rng.Intn(100)
		var o Op
		switch {
		case rn.script != nil:
			o = rn.script[i]
		case x < 62:
			o = g.applyOp(shadow, height)
		case x < 69:
			o = Op{K: "advance", N: height + 1, Why: "to-head"}
			if rng.Chance(20) {
				o.N = height + uint64(rng.Intn(5))
				o.Why = "arbitrary"
			}
		case x < 75:
			o = Op{K: "grow"}
		case x < 79:
			o = Op{K: "revert"}
		default:
			o = Op{K: "snap", N: height + 1, Why: "head+1", Reads: rng.Chance(60)}
			if rng.Chance(20) {
				o.N = height + uint64(rng.Intn(5))
				o.Why = "arbitrary"
			}
		}
		rn.rp.Lines = append(rn.rp.Lines, o.Line())
		switch o.K {
		case "apply", "advance":
			reply := rn.or.Ask(o.Line(), 2)
			rn.applyReal(st, &o, reply)
			modelChain = reply[1]
			shadow = parseShadow(modelChain)
			rn.compareChain(st, modelChain, o.Line())
			rn.heapCheck(ht, st, shadow, helds, o.Line())
			c.Count(o.Line()+"|"+modelChain, o.Why != "extend" && o.Why != "bootstrap")
			if len(shadow) > 1 {
				c.Hist["chain-length>=2"]++
			}
		case "grow":
			if height >= 12 {
				continue
			}
			if _, err := node.Finalise(g.baseBlock(false)); err != nil {
				hx.Fatalf("grow: %v", err)
			}
			c.Hist["head:advance"]++
			if rn.script == nil && rng.Chance(60) { // the poller's next tick
				rn.rp.Lines = append(rn.rp.Lines, fmt.Sprintf("advance %d", height+2))
				a := Op{K: "advance", N: height + 2, Why: "to-head"}
				reply := rn.or.Ask(a.Line(), 2)
				rn.applyReal(st, &a, reply)
				modelChain = reply[1]
				shadow = parseShadow(modelChain)
				rn.compareChain(st, modelChain, a.Line())
				rn.heapCheck(ht, st, shadow, helds, a.Line())
			}
		case "revert":
			if height <= 1 {
				continue
			}
			if err := node.BC.RevertHead(); err != nil {
				// recorded limitation of the legacy backend (zero write to an absent slot, see C04)
				c.Hist["head:revert-failed"]++
				continue
			}
			c.Hist["head:revert"]++
			if rn.script == nil && rng.Chance(60) {
				a := Op{K: "advance", N: height, Why: "to-head"}
				rn.rp.Lines = append(rn.rp.Lines, a.Line())
				reply := rn.or.Ask(a.Line(), 2)
				rn.applyReal(st, &a, reply)
				modelChain = reply[1]
				shadow = parseShadow(modelChain)
				rn.compareChain(st, modelChain, a.Line())
				rn.heapCheck(ht, st, shadow, helds, a.Line())
			}
		case "snap":
			v := st.SnapshotForBlock(o.N)
			got, bad := canonChain(&v)
			if bad != "" {
				rn.fail("representation:"+strings.Fields(bad)[0], bad, true)
			}
			ans := strings.SplitN(rn.or.Ask(o.Line(), 1)[0], " ", 4)
			vid, _ := strconv.Atoi(ans[1])
			if got != ans[3] {
				rn.fail("model-mismatch:snapshot", fmt.Sprintf("SnapshotForBlock(%d): code [%s], model [%s]", o.N, got, ans[3]), true)
			}
			if !alignedPredicate(&v, o.N) || (o.N > 0 && ans[2] != "1") {
				rn.fail("snapshot:not-aligned", fmt.Sprintf("SnapshotForBlock(%d) = [%s] is not a gap-free run starting at %d", o.N, got, o.N), false)
			}
			c.Hist[fmt.Sprintf("snapshot:%s:len=%d", o.Why, min(v.Length(), 4))]++
			if v.Length() > 0 && v.Length() < len(shadow) {
				c.Hist["snapshot:trimmed"]++
			}
			c.Count(o.Line()+"|"+got, v.Length() > 0)
			h := &held{view: v, vid: vid, n: o.N, canon: got, fp: fingerprint(&v)}
			helds = append(helds, h)
			rn.heapCheck(ht, st, shadow, helds, o.Line())
			if o.Reads {
				rn.checkReads(node, h, rng)
				rn.checkLookups(h)
				rn.heapReader(ht, node, st, shadow, helds, len(helds)-1, rng)
				if rn.script != nil { // directed: overlay states through every view held, old ones included
					for round := 0; round < 2; round++ {
						for hi := range helds {
							rn.heapReader(ht, node, st, shadow, helds, hi, rng)
						}
					}
				}
			}
		}
		// immutability as observed: every view handed out so far still has its fingerprint and content
		for _, h := range helds {
			if fp := fingerprint(&h.view); fp != h.fp {
				now, _ := canonChain(&h.view)
				rn.fail("immutable:view-changed-sequential", fmt.Sprintf("view taken by SnapshotForBlock(%d) = [%s] changed after %s; now [%s]", h.n, h.canon, o.Line(), now), false)
			}
		}
		// reads through an older view after the head and the storage moved on
		if rn.script == nil && len(helds) > 0 && rng.Chance(10) {
			h := helds[rng.Intn(len(helds))]
			c.Hist["reads:through-old-view"]++
			rn.checkReads(node, h, rng)
		}
	}
	if c.NViolations() != before { // something broke: evaluate the predicates on what the code holds now
		if height, err := node.BC.Height(); err == nil {
			rn.windDown(node, st, height+1, rng)
		}
	}
	c.Extra["views_held_sequential"] = addInt(c.Extra["views_held_sequential"], len(helds))
}

// windDown: after a correspondence break the search goes on with the property's own predicates, on
// the chain the code holds (every alignment that has a non-empty view).
func (rn *runner) windDown(node *chain.Node, st *preconfirmed.ChainStorage, opc uint64, rng *hx.RNG) {
	for n := opc; n < opc+3; n++ {
		v := st.SnapshotForBlock(n)
		if v.Length() == 0 {
			continue
		}
		got, _ := canonChain(&v)
		if !alignedPredicate(&v, n) {
			rn.fail("snapshot:not-aligned", fmt.Sprintf("SnapshotForBlock(%d) = [%s]", n, got), false)
		}
		h := &held{view: v, vid: -1, n: n, canon: got, fp: fingerprint(&v)}
		rn.checkReads(node, h, rng)
		return
	}
}

func addInt(a any, n int) int {
	if a == nil {
		return n
	}
	return a.(int) + n
}

// ---------- one concurrent case ----------
type obs struct {
	view          preconfirmed.ChainReader
	n             uint64
	before, after int64
	canon, fp     string
}

func (rn *runner) concCase(caseSeed uint64, nops int, newState bool) {
	c := rn.c
	rng := hx.NewRNG(caseSeed)
	g := &gen{r: rng}
	rn.rp = replay{Kind: "conc", CaseSeed: caseSeed, NOps: nops, NewState: newState}
	node := chain.NewNode(nil, newState)
	for i := 0; i < 3; i++ {
		if _, err := node.Finalise(g.baseBlock(i == 0)); err != nil {
			hx.Fatalf("base chain: %v", err)
		}
	}
	height := uint64(2)
	// 1. the script and the model's run of it (the head is a script variable here: AdvanceTo only)
	rn.or.Ask("reset", 1)
	var ops []Op
	var replies [][]string
	var shadow []slot
	virt := height
	for i := 0; i < nops; i++ {
		var o Op
		switch x := rng.Intn(100); {
		case x < 80:
			o = g.applyOp(shadow, virt)
		case x < 92:
			if len(shadow) > 0 && rng.Chance(70) {
				virt = shadow[len(shadow)-1].num + uint64(rng.Intn(2)) // the head swallows the oldest slot(s)
			} else if virt > 2 && rng.Chance(50) {
				virt-- // a revert
			}
			o = Op{K: "advance", N: virt + 1, Why: "to-head"}
		default:
			o = Op{K: "advance", N: virt + uint64(rng.Intn(4)), Why: "arbitrary"}
		}
		reply := rn.or.Ask(o.Line(), 2)
		ops = append(ops, o)
		replies = append(replies, reply)
		shadow = parseShadow(reply[1])
		rn.rp.Lines = append(rn.rp.Lines, o.Line())
	}
	// 2. one writer, several readers
	st := preconfirmed.NewChainStorage()
	var progress atomic.Int64
	var hint atomic.Uint64 // harness-side only: where the model's chain currently is, so that readers aim at it
	hint.Store(3)
	var done atomic.Bool
	nReaders := 4
	all := make([][]*obs, nReaders)
	var wg sync.WaitGroup
	var changed atomic.Int64
	for r := 0; r < nReaders; r++ {
		wg.Add(1)
		rr := hx.NewRNG(caseSeed ^ uint64(r+1)*0x9e37)
		go func(r int) {
			defer wg.Done()
			lastTip, lastLen := uint64(3), 1
			for it := 0; !done.Load() || it < 20; it++ {
				n := 1 + uint64(rr.Intn(14))
				if rr.Chance(85) {
					if rr.Chance(60) {
						lastTip = hint.Load()
					}
					n = lastTip + 2 - uint64(rr.Intn(lastLen+3))
					if n > 1<<40 {
						n = 0
					}
				}
				b := progress.Load()
				v := st.SnapshotForBlock(n)
				a := progress.Load()
				o := &obs{view: v, n: n, before: b, after: a}
				o.fp = fingerprint(&o.view)
				o.canon, _ = canonChain(&o.view)
				all[r] = append(all[r], o)
				if v.Length() > 0 { // use the view the way RPC handlers do, while the writer runs
					tip := v.Head().Block.Number
					lastTip, lastLen = tip, v.Length()
					if s, cl, err := v.PreConfirmedStateAt(tip, node.BC); err == nil {
						s.ContractStorage(F(16), F(1))
						s.Class(F(40))
						cl()
					}
					v.TransactionByHash(F(hashLo + uint64(rr.Intn(20))))
					v.ReceiptByHash(F(hashLo + uint64(rr.Intn(20))))
				}
				if rr.Chance(30) {
					for _, old := range all[r][max(0, len(all[r])-40):] {
						if fingerprint(&old.view) != old.fp {
							changed.Add(1)
						}
					}
				}
				if rr.Chance(50) {
					runtime.Gosched()
				}
				if len(all[r]) > 4000 {
					time.Sleep(50 * time.Microsecond)
				}
			}
		}(r)
	}
	for i := range ops {
		rn.applyReal(st, &ops[i], replies[i])
		progress.Add(1)
		if sh := parseShadow(replies[i][1]); len(sh) > 0 {
			hint.Store(sh[0].num)
		}
		if rng.Chance(40) {
			runtime.Gosched()
		}
		if rng.Chance(25) {
			time.Sleep(20 * time.Microsecond)
		}
	}
	rn.compareChain(st, replies[len(replies)-1][1], "the concurrent script")
	done.Store(true)
	wg.Wait()
	st.AdvanceTo(1 << 40) // drop everything; the views must survive that too
	// 3. every view: unchanged, aligned, and a snapshot of a chain published in its load window
	nviews, nonEmpty := 0, 0
	distinct := map[string]bool{}
	for r := range all {
		for _, o := range all[r] {
			nviews++
			if fp := fingerprint(&o.view); fp != o.fp {
				now, _ := canonChain(&o.view)
				rn.fail("immutable:view-changed-concurrent", fmt.Sprintf("view SnapshotForBlock(%d) = [%s] taken after writer op %d changed; now [%s]", o.n, o.canon, o.before, now), false)
			}
			if !alignedPredicate(&o.view, o.n) {
				rn.fail("snapshot:not-aligned-concurrent", fmt.Sprintf("SnapshotForBlock(%d) = [%s]", o.n, o.canon), false)
			}
			if o.view.Length() > 0 {
				nonEmpty++
			}
			key := fmt.Sprintf("%d|%d|%d|%s", o.n, o.before, o.after, o.canon)
			if distinct[key] {
				continue
			}
			distinct[key] = true
			ok := false
			hi := o.after + 1
			if hi > int64(len(ops)) {
				hi = int64(len(ops))
			}
			for j := o.before; j <= hi && !ok; j++ {
				ok = rn.or.Ask(fmt.Sprintf("snapat %d %d", j, o.n), 1)[0] == o.canon
			}
			if !ok {
				rn.fail("linearisable:view-not-a-published-chain", fmt.Sprintf("SnapshotForBlock(%d) = [%s] loaded between writer ops %d and %d equals no snapshot of the chains the model published in that window", o.n, o.canon, o.before, o.after+1), false)
			}
		}
	}
	if changed.Load() > 0 {
		rn.fail("immutable:view-changed-concurrent", fmt.Sprintf("%d fingerprint changes seen by readers while the writer ran", changed.Load()), false)
	}
	c.Count(fmt.Sprintf("conc|%d", caseSeed), nonEmpty > 0)
	c.Extra["views_taken_concurrently"] = addInt(c.Extra["views_taken_concurrently"], nviews)
	c.Extra["views_taken_concurrently_nonempty"] = addInt(c.Extra["views_taken_concurrently_nonempty"], nonEmpty)
	c.Extra["distinct_concurrent_observations"] = addInt(c.Extra["distinct_concurrent_observations"], len(distinct))
}

// directed: a slot written only by the older of two pre-confirmed blocks, read at the newer one
// (reads include ContractStorageLastUpdatedBlock); a contract deployed inside the view; a view
// trimmed by a head advance that the storage has not been told about.
func directed() [][]Op {
	w := Diff{S: [][3]uint64{{16, 1, 5}}}
	dep := Diff{D: [][2]uint64{{19, 41}}, S: [][3]uint64{{19, 2, 6}}}
	two := []Op{
		{K: "apply", UK: "B", Bn: 3, Opc: 3, ID: 0x201, Items: []Item{{Hash: 101, Tx: 1, RHash: 101, Rc: 5001, D: w}}, Why: "bootstrap"},
		{K: "apply", UK: "B", Bn: 4, Opc: 3, ID: 0x202, Items: nil, Why: "extend"},
		{K: "snap", N: 3, Why: "head+1", Reads: true},
	}
	three := []Op{
		{K: "apply", UK: "B", Bn: 3, Opc: 3, ID: 0x201, Items: []Item{{Hash: 101, Tx: 1, RHash: 101, Rc: 5001, D: dep}}, Why: "bootstrap"},
		{K: "apply", UK: "B", Bn: 4, Opc: 3, ID: 0x202, Items: []Item{{Hash: 102, Tx: 2, RHash: 102, Rc: 5002, D: Diff{N: [][2]uint64{{19, 1}}, R: [][2]uint64{{19, 42}}}}}, Why: "extend"},
		{K: "apply", UK: "D", Bn: 4, Bt: 1, Opc: 3, ID: 0x202, Items: []Item{{Hash: 101, Tx: 3, RHash: 101, Rc: 5003, D: Diff{S: [][3]uint64{{19, 2, 0}}}}}, Why: "delta-tip"},
		{K: "snap", N: 3, Why: "head+1", Reads: true},
		{K: "grow"},
		{K: "snap", N: 4, Why: "head+1", Reads: true},
		{K: "advance", N: 4, Why: "to-head"},
		{K: "snap", N: 4, Why: "head+1", Reads: true},
		{K: "revert"},
		{K: "snap", N: 3, Why: "head+1", Reads: true},
	}
	// a later tx / delta / block touching strictly more slots of a contract than accumulated and rewriting one
	wide := func(v uint64) Diff { return Diff{S: [][3]uint64{{16, 1, v}, {16, 2, v + 1}, {16, 3, v + 2}}} }
	merge := []Op{
		{K: "apply", UK: "B", Bn: 3, Opc: 3, ID: 0x201, Why: "bootstrap", Items: []Item{
			{Hash: 101, Tx: 1, RHash: 101, Rc: 10002, D: Diff{S: [][3]uint64{{16, 1, 5}}}},
			{Hash: 102, Tx: 2, RHash: 102, Rc: 10004, D: Diff{S: [][3]uint64{{16, 1, 6}, {16, 2, 7}}}}}},
		{K: "apply", UK: "D", Bn: 3, Bt: 2, Opc: 3, ID: 0x201, Why: "delta-tip", Items: []Item{{Hash: 103, Tx: 3, RHash: 103, Rc: 10006, D: wide(8)}}},
		{K: "apply", UK: "B", Bn: 4, Opc: 3, ID: 0x202, Why: "extend", Items: []Item{{Hash: 104, Tx: 4, RHash: 104, Rc: 10008, D: Diff{S: [][3]uint64{{16, 1, 1}, {16, 2, 2}, {16, 3, 3}, {16, 4, 4}}}}}},
		{K: "snap", N: 3, Why: "head+1", Reads: true},
	}
	// reverted transactions still bump the nonce and pay the fee: in a full block, in a delta, in an older block
	acct := func(n, bal uint64) Diff { return Diff{N: [][2]uint64{{17, n}}, S: [][3]uint64{{16, 5, bal}}} }
	reverted := []Op{
		{K: "apply", UK: "B", Bn: 3, Opc: 3, ID: 0x201, Why: "bootstrap", Items: []Item{
			{Hash: 101, Tx: 1, RHash: 101, Rc: 10002, D: acct(1, 9)},
			{Hash: 102, Tx: 2, RHash: 102, Rc: 10005, D: acct(2, 8)}}},
		{K: "snap", N: 3, Why: "head+1", Reads: true},
		{K: "apply", UK: "D", Bn: 3, Bt: 2, Opc: 3, ID: 0x201, Why: "delta-tip", Items: []Item{{Hash: 103, Tx: 3, RHash: 103, Rc: 10007, D: acct(3, 7)}}},
		{K: "apply", UK: "B", Bn: 4, Opc: 3, ID: 0x202, Why: "extend", Items: []Item{{Hash: 104, Tx: 4, RHash: 104, Rc: 10008, D: Diff{S: [][3]uint64{{17, 1, 1}}}}}},
		{K: "snap", N: 3, Why: "head+1", Reads: true},
	}
	// ---- heap-level hot spots (aliasing): every op is followed by the comparison of the real object graph
	// with the heap model's, every snap with Reads by overlay states created through ALL views held ----
	it := func(h, tx uint64, d Diff) Item { return Item{Hash: h, Tx: tx, RHash: h, Rc: 2 * (tx + 6000), D: d} }
	st := func(x ...[3]uint64) [][3]uint64 { return x }
	snap := Op{K: "snap", N: 3, Why: "head+1", Reads: true}
	// (a) deltas merged into a tip that outstanding views hold: the same contract again (Merge writes into the
	// inner storage map it cloned), declared-v0 appends, class map shared by reference / copied, no-change
	deltaIntoHeldTip := []Op{
		{K: "apply", UK: "B", Bn: 3, Opc: 3, ID: 0x201, Why: "bootstrap", Cls: [][2]uint64{{40, 400}},
			Items: []Item{it(101, 1, Diff{S: st([3]uint64{16, 1, 5}, [3]uint64{16, 2, 6}), N: [][2]uint64{{16, 1}}, C0: []uint64{40}})}},
		snap,
		{K: "apply", UK: "D", Bn: 3, Bt: 1, Opc: 3, ID: 0x201, Why: "delta-tip",
			Items: []Item{it(102, 2, Diff{S: st([3]uint64{16, 1, 7}, [3]uint64{16, 3, 8}), C0: []uint64{41}})}},
		snap,
		{K: "apply", UK: "D", Bn: 3, Bt: 2, Opc: 3, ID: 0x201, Why: "delta-tip", Cls: [][2]uint64{{41, 401}},
			Items: []Item{it(103, 3, Diff{S: st([3]uint64{17, 1, 1}, [3]uint64{16, 1, 9}), C0: []uint64{42, 43}}), it(104, 4, Diff{N: [][2]uint64{{16, 2}}})}},
		snap,
		{K: "apply", UK: "N", Bn: 3, Opc: 3, Why: "nochange-classes-tip", Cls: [][2]uint64{{41, 401}}}, // already held: no-op
		{K: "apply", UK: "N", Bn: 3, Opc: 3, Why: "nochange-classes-tip", Cls: [][2]uint64{{42, 402}}}, // struct copy, Block by reference
		snap,
		{K: "apply", UK: "D", Bn: 3, Bt: 4, Opc: 3, ID: 0x201, Why: "delta-tip", Items: []Item{it(105, 5, Diff{S: st([3]uint64{16, 2, 1}), C0: []uint64{40}})}},
		snap,
		// declared-v0 appends with and without spare capacity in the merged diff's backing array:
		// 5 (cap 6), +1 in place, +2 (grown to 12), +1 in place; then a delta on top (fresh array again)
		{K: "apply", UK: "B", Bn: 4, Opc: 3, ID: 0x202, Why: "extend", Items: []Item{
			it(106, 6, Diff{C0: []uint64{40, 41, 42, 43, 50}}), it(107, 7, Diff{C0: []uint64{51}}),
			it(108, 8, Diff{C0: []uint64{40, 41}}), it(109, 9, Diff{C0: []uint64{42}})}},
		snap,
		{K: "apply", UK: "D", Bn: 4, Bt: 4, Opc: 3, ID: 0x202, Why: "delta-tip", Items: []Item{it(110, 10, Diff{C0: []uint64{43}}), it(111, 11, Diff{C0: []uint64{50, 51}})}},
		snap,
	}
	// (b) a slot below the tip replaced while views hold the old suffix: the new node points at the OLD older nodes
	blk := func(bn, id, h, tx uint64, d Diff) Op {
		return Op{K: "apply", UK: "B", Bn: bn, Opc: 3, ID: id, Why: "extend", Items: []Item{it(h, tx, d)}}
	}
	replaceBelowTip := []Op{
		blk(3, 0x201, 101, 1, Diff{S: st([3]uint64{16, 1, 5})}), blk(4, 0x202, 102, 2, Diff{S: st([3]uint64{16, 1, 6})}),
		blk(5, 0x203, 103, 3, Diff{S: st([3]uint64{16, 2, 7})}), snap,
		blk(4, 0x204, 104, 4, Diff{S: st([3]uint64{16, 1, 8})}), // new round at 4: truncates 5, shares node 3
		snap, blk(5, 0x205, 105, 5, Diff{N: [][2]uint64{{16, 3}}}), {K: "snap", N: 4, Why: "arbitrary", Reads: true},
		blk(3, 0x206, 106, 6, Diff{S: st([3]uint64{17, 1, 1})}), // new round at the oldest slot: nothing shared
		snap,
	}
	// (c) the head advances: a view trimmed by length shares all nodes; AdvanceTo rebuilds fresh nodes over the same
	// entries while a view starts at the pruned node; then everything is dropped
	advancePrune := []Op{
		blk(3, 0x201, 101, 1, Diff{S: st([3]uint64{16, 1, 5})}), blk(4, 0x202, 102, 2, Diff{S: st([3]uint64{16, 1, 6})}),
		blk(5, 0x203, 103, 3, Diff{S: st([3]uint64{16, 2, 7})}), snap,
		{K: "grow"}, {K: "snap", N: 4, Why: "head+1", Reads: true},
		{K: "advance", N: 4, Why: "to-head"}, {K: "snap", N: 4, Why: "head+1", Reads: true},
		{K: "apply", UK: "D", Bn: 5, Bt: 1, Opc: 4, ID: 0x203, Why: "delta-tip", Items: []Item{it(104, 4, Diff{S: st([3]uint64{16, 2, 9})})}},
		{K: "snap", N: 4, Why: "head+1", Reads: true}, {K: "snap", N: 5, Why: "arbitrary", Reads: true},
		{K: "advance", N: 5, Why: "arbitrary"}, {K: "snap", N: 5, Why: "arbitrary", Reads: true},
		{K: "advance", N: 9, Why: "arbitrary"}, {K: "snap", N: 9, Why: "arbitrary"},
		{K: "apply", UK: "B", Bn: 4, Opc: 4, ID: 0x207, Why: "bootstrap", Items: []Item{it(107, 7, Diff{})}}, {K: "snap", N: 4, Why: "head+1", Reads: true},
	}
	// (d) class maps carried across blocks and rounds
	classMaps := []Op{
		{K: "apply", UK: "B", Bn: 3, Opc: 3, ID: 0x201, Why: "bootstrap", Cls: [][2]uint64{{40, 400}, {41, 401}}, Items: []Item{it(101, 1, Diff{C: [][2]uint64{{50, 60}}})}},
		snap,
		{K: "apply", UK: "D", Bn: 3, Bt: 1, Opc: 3, ID: 0x201, Why: "delta-tip", Items: []Item{it(102, 2, Diff{C: [][2]uint64{{51, 61}}})}}, // class map by reference
		snap,
		{K: "apply", UK: "B", Bn: 4, Opc: 3, ID: 0x202, Why: "extend", Cls: [][2]uint64{{42, 402}}, Items: []Item{it(103, 3, Diff{})}},
		{K: "apply", UK: "D", Bn: 4, Bt: 1, Opc: 3, ID: 0x202, Why: "delta-tip", Cls: [][2]uint64{{43, 430}, {42, 403}}, Items: []Item{it(104, 4, Diff{})}}, // copied, one overridden
		snap,
		{K: "apply", UK: "N", Bn: 4, Opc: 3, Why: "nochange-classes-tip", Cls: [][2]uint64{{50, 500}}},
		{K: "apply", UK: "B", Bn: 4, Opc: 3, ID: 0x202, Why: "same-round-more-classes", Cls: [][2]uint64{{40, 1}, {41, 2}, {42, 3}, {43, 4}}, Items: []Item{it(105, 5, Diff{})}},
		snap,
		{K: "apply", UK: "B", Bn: 3, Opc: 3, ID: 0x201, Why: "same-round-not-richer", Cls: [][2]uint64{{40, 400}}, Items: []Item{it(106, 6, Diff{})}}, // preserved
		snap,
	}
	return [][]Op{two, three, merge, reverted, deltaIntoHeldTip, replaceBelowTip, advancePrune, classMaps}
}

func main() {
	c := hx.NewCtx("C20")
	if os.Getenv("C20_DEBUG_FP") != "" {
		fpDebug = map[string]string{}
	}
	or := hx.StartOracle(c.OraclePath)
	defer or.Close()
	rn := &runner{c: c, or: or, heapOn: os.Getenv("C20_NO_HEAP") == ""}
	if msg := heapSelfTest(); msg != "" {
		hx.Fatalf("heap tie: %s", msg)
	}
	if c.ReplayIn != "" {
		var rp replay
		c.LoadReplay(&rp)
		if rp.Kind == "conc" {
			rn.concCase(rp.CaseSeed, rp.NOps, rp.NewState)
		} else if rp.Kind == "poll" {
			rn.pollCase(rp.CaseSeed, rp.NOps, rp.NewState)
		} else {
			rn.script = rp.Script
			rn.seqCase(rp.CaseSeed, rp.NOps, rp.NewState)
		}
		c.Finish("replay of one recorded case (re-generated from its case seed)")
	}
	rng := hx.NewRNG(c.Seed)
	nSeq, nConc, nPoll, budget := 420, 40, 60, 66*time.Second
	if c.Thorough() {
		nSeq, nConc, nPoll, budget = 12000, 600, 1500, 20*time.Minute
	}
	start := time.Now()
	// directed minimal cases first (stable replays for what the random search also finds)
	for i, sc := range directed() {
		rn.script = sc
		rn.seqCase(7, len(sc), i%2 == 1)
	}
	rn.script = nil
	if os.Getenv("C20_DIRECTED_ONLY") != "" { // development aid
		c.Finish("directed cases only")
	}
	ran := [3]int{}
	for i := 0; i < nSeq && time.Since(start) < budget*5/10; i++ {
		rn.seqCase(rng.U64(), 60+rng.Intn(60), i%2 == 1)
		ran[0]++
	}
	tSeq := time.Since(start)
	for i := 0; i < nConc && time.Since(start) < budget*7/10; i++ {
		rn.concCase(rng.U64(), 150+rng.Intn(150), i%2 == 1)
		ran[1]++
	}
	for i := 0; i < nPoll && time.Since(start) < budget; i++ {
		rn.pollCase(rng.U64(), 40+rng.Intn(40), i%2 == 1)
		ran[2]++
	}
	c.Extra["cases_run"] = map[string]any{"sequential": ran[0], "concurrent": ran[1], "poller": ran[2], "sequential_wall_s": tSeq.Seconds()}
	c.Extra["backends"] = "both state backends alternate (WithNewState false/true) for the canonical base"
	c.Extra["universe"] = map[string]any{"contracts": addrs, "deployed_in_base": baseDeploy, "slots": slots, "class_hashes": classes, "tx_hashes": []uint64{hashLo, hashHi - 1}, "queries_per_state": len(allQueries)}
	c.Finish("sequential cases: 60-120 ops each (62% ApplyUpdate of every variant incl. every rejected call, AdvanceTo to the head or arbitrary, " +
		"real head advance / RevertHead on a Blockchain, SnapshotForBlock(head+1 or arbitrary) followed by all state reads at every block of the view " +
		"+-1 (PreConfirmedStateAt, and PreConfirmedStateBeforeIndexAt at every tx position, 90 queries each; reads compared with the model, with the block-by-block fold " +
		"and with the in-order fold of the WIRE per-transaction diffs; BeforeIndex(len) vs StateAt on the code) and all tx/receipt lookups; receipts SUCCEEDED/REVERTED; " +
		"per-contract storage maps of 1..5 slots with overlapping keys across txs/blocks/deltas); after every op: result, affected entry, whole chain vs model, " +
		"fingerprints of all views held. concurrent cases: 150-300 writer ops with 4 lock-free readers; each view must equal the model's snapshot of a " +
		"chain published in its load window and keep its deep fingerprint. poller cases: the real preconfirmed.Poller.Run for 40-80 ticks against a scripted " +
		"data source (delta / no-change / new round / re-sent block / jumps ahead requiring backfill with class fetches / feeder errors / stale answers), the real head " +
		"advancing or reverting under a tick, not-at-tip pauses; the calls of each tick are replayed as AdvanceTo + ApplyUpdate ops on the model")
}
