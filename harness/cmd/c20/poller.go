// C20, poller stage: the real preconfirmed.Poller (Run / tick / backfill / apply /
// fetchDeclaredClasses / atTip) driven tick by tick against a scripted data source.  The data
// source hands every call to the harness' main goroutine, so the harness decides the answer
// (delta / no-change / full block / new round / jump ahead requiring backfill / errors), moves the
// real head underneath while the poller is blocked in a call, and knows at every
// PreConfirmedBlockLatest call that the previous tick has finished.  The calls a tick made are
// turned into the storage ops the poller's control flow performs for them (AdvanceTo(head+1), one
// ApplyUpdate per backfilled slot with the classes it fetched, the final ApplyUpdate) and run
// through the model's step function; chain, views, reads and fingerprints are compared as in the
// sequential stage.
package main

import (
	"context"
	"errors"
	"sync"

	"github.com/NethermindEth/juno/core"
	"github.com/NethermindEth/juno/core/felt"
	"github.com/NethermindEth/juno/starknet"
	"github.com/NethermindEth/juno/sync/preconfirmed"
	"verifharness/chain"
	"verifharness/hx"
)

type dsEvent struct {
	Kind   string // latest | bynum | class
	Num    uint64 // bynum: requested block; latest: block number answered
	ID     string // identifier hint the poller sent
	Txc    uint64 // tx-count hint the poller sent
	Hash   uint64 // class: requested hash
	Op     *Op    // the update answered (UK / ID / Items)
	ClsDef uint64 // class: definition id answered
	Err    bool
}

type dsReq struct {
	ev    dsEvent
	reply chan dsEvent
}

// scriptedDS implements preconfirmed.DataSource; every call is answered by the main goroutine.
type scriptedDS struct {
	req  chan *dsReq
	quit chan struct{}
}

var errScripted = errors.New("scripted feeder error")

func (d *scriptedDS) ask(ev dsEvent) (dsEvent, error) {
	r := &dsReq{ev: ev, reply: make(chan dsEvent, 1)}
	select {
	case d.req <- r:
	case <-d.quit:
		return ev, context.Canceled
	}
	select {
	case a := <-r.reply:
		if a.Err {
			return a, errScripted
		}
		return a, nil
	case <-d.quit:
		return ev, context.Canceled
	}
}

func (d *scriptedDS) PreConfirmedBlockLatest(_ context.Context, identifier string, txCount uint64) (starknet.PreConfirmedUpdate, uint64, error) {
	a, err := d.ask(dsEvent{Kind: "latest", ID: identifier, Txc: txCount})
	if err != nil {
		return nil, 0, err
	}
	u, _ := wireUpdate(a.Op)
	return u, a.Num, nil
}

func (d *scriptedDS) PreConfirmedBlockByNumber(_ context.Context, n uint64, identifier string, txCount uint64) (starknet.PreConfirmedUpdate, error) {
	a, err := d.ask(dsEvent{Kind: "bynum", Num: n, ID: identifier, Txc: txCount})
	if err != nil {
		return nil, err
	}
	u, _ := wireUpdate(a.Op)
	return u, nil
}

func (d *scriptedDS) Class(_ context.Context, h *felt.Felt) (core.ClassDefinition, error) {
	a, err := d.ask(dsEvent{Kind: "class", Hash: u64(h)})
	if err != nil {
		return nil, err
	}
	return classDef(a.ClsDef), nil
}

// seqBlock is what the scripted sequencer holds for one pre-confirmed height.
type seqBlock struct {
	id    uint64
	items []Item
}

type tickTrace struct {
	opc, from, txc uint64
	id             string
	ev             []dsEvent
}

type pollRun struct {
	rn     *runner
	g      *gen
	rng    *hx.RNG
	node   *chain.Node
	st     *preconfirmed.ChainStorage
	blocks map[uint64]*seqBlock
	latest uint64
	trace  *tickTrace
	model  string // "chain ..." as last reported by the oracle
	helds  []*held
	mu     sync.Mutex
	pub    []string // entries the poller published on its feed (lossy subscriber)
	expAll []string // entries the model says ApplyUpdate returned (non-NoChange), whole case
	expPos int
	nTicks int
}

// answer builds the feeder's reply for block b given the caller's hints, as the real feeder does:
// same round and nothing new -> no-change; same round, more txs -> delta; otherwise the full block.
func (pr *pollRun) answer(b *seqBlock, identifier string, txc uint64) *Op {
	full := &Op{K: "apply", UK: "B", ID: b.id, Items: b.items}
	if identifier != idString(b.id) || txc > uint64(len(b.items)) || pr.rng.Chance(6) {
		return full // (6%: the server re-sends the whole round although the hint matched)
	}
	if txc == uint64(len(b.items)) {
		return &Op{K: "apply", UK: "N"}
	}
	return &Op{K: "apply", UK: "D", ID: b.id, Items: b.items[txc:]}
}

// evolve: what the sequencer did since the last poll.
func (pr *pollRun) evolve(height uint64) {
	r, g := pr.rng, pr.g
	cur := pr.blocks[pr.latest]
	switch x := r.Intn(100); {
	case cur == nil || pr.latest <= height && r.Chance(70):
		pr.latest = max(pr.latest, height) + 1
		pr.blocks[pr.latest] = &seqBlock{id: g.newID(), items: g.items(r.Intn(3))}
	case x < 48:
		cur.items = append(append([]Item(nil), cur.items...), g.items(1+r.Intn(3))...)
	case x < 62: // nothing new
	case x < 74: // new round at the same height
		pr.blocks[pr.latest] = &seqBlock{id: g.newID(), items: g.items(r.Intn(3))}
	default: // the height closes (maybe with a last few txs) and the sequencer is 1..3 heights further
		if r.Chance(50) {
			cur.items = append(append([]Item(nil), cur.items...), g.items(1+r.Intn(2))...)
		}
		for k := 1 + r.Intn(3); k > 0; k-- {
			pr.latest++
			pr.blocks[pr.latest] = &seqBlock{id: g.newID(), items: g.items(r.Intn(4))}
		}
	}
}
