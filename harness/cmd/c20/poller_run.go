package main

import (
	"context"
	"fmt"
	"strings"
	"sync"
	"sync/atomic"
	"time"

	"github.com/NethermindEth/juno/core"
	"github.com/NethermindEth/juno/core/pending"
	"github.com/NethermindEth/juno/feed"
	"github.com/NethermindEth/juno/sync/preconfirmed"
	"github.com/NethermindEth/juno/utils/log"
	"verifharness/chain"
	"verifharness/hx"
)

func (pr *pollRun) traceFail(what string) {
	pr.rn.fail("poller-trace:"+strings.Fields(what)[0], "tick "+fmt.Sprint(pr.nTicks)+": "+what, true)
}

// modelApply runs one ApplyUpdate of the poller through the model; false = the model says error
// (poller.apply returns it and the tick aborts).
func (pr *pollRun) modelApply(o Op, expectPub *[]string) bool {
	pr.rn.rp.Lines = append(pr.rn.rp.Lines, o.Line())
	reply := pr.rn.or.Ask(o.Line(), 2)
	pr.model = reply[1]
	f := strings.SplitN(reply[0], " ", 2)
	pr.rn.c.Hist["poller:apply "+o.UK+" ("+o.Why+") -> "+f[0]+func() string {
		if f[0] == "err" {
			return " " + f[1]
		}
		return ""
	}()]++
	if f[0] == "applied" && o.UK != "N" {
		*expectPub = append(*expectPub, f[1])
	}
	pr.rn.c.Count("poller|"+o.Line()+"|"+pr.model, true)
	return f[0] != "err"
}

// settle turns the data-source calls of the finished tick into the storage ops poller.tick /
// backfill / apply perform for them and runs them through the model.
func (pr *pollRun) settle() (expectPub []string) {
	t := pr.trace
	pr.trace = nil
	if t == nil || len(t.ev) == 0 {
		return nil
	}
	ev, i := t.ev, 1
	lat := ev[0]
	if lat.Err {
		if len(ev) != 1 {
			pr.traceFail("calls after a failed latest poll")
		}
		return nil
	}
	num := lat.Num
	if lat.Op.UK != "B" {
		num = t.from // NoChange / Delta: same block as the stored tip
	}
	aborted := false
	for n := t.from; n < num && !aborted; n++ { // backfill [from, latest)
		if i >= len(ev) || ev[i].Kind != "bynum" || ev[i].Num != n {
			pr.traceFail(fmt.Sprintf("backfill: expected a by-number poll of %d (from %d, latest %d)", n, t.from, num))
			return
		}
		b := ev[i]
		i++
		wantID, wantTxc := "", uint64(0)
		if n == t.from {
			wantID, wantTxc = t.id, t.txc
		}
		if b.ID != wantID || b.Txc != wantTxc {
			pr.traceFail(fmt.Sprintf("hints of the by-number poll of %d: (%q,%d), expected (%q,%d)", n, b.ID, b.Txc, wantID, wantTxc))
		}
		if b.Err {
			aborted = true
			continue
		}
		var cls [][2]uint64
		for i < len(ev) && ev[i].Kind == "class" && !aborted {
			aborted = ev[i].Err
			cls = append(cls, [2]uint64{ev[i].Hash, ev[i].ClsDef})
			i++
		}
		if aborted {
			continue
		}
		o := *b.Op
		o.Bn, o.Bt, o.Opc, o.Cls, o.Why = n, wantTxc, t.opc, cls, "backfill"
		aborted = !pr.modelApply(o, &expectPub)
	}
	if !aborted {
		o := *lat.Op
		o.Bn, o.Bt, o.Opc, o.Cls, o.Why = num, t.txc, t.opc, nil, "latest"
		pr.modelApply(o, &expectPub)
	}
	if i != len(ev) {
		pr.traceFail(fmt.Sprintf("%d data-source calls not accounted for by the tick's control flow", len(ev)-i))
	}
	return
}

// quiescent: the poller is blocked in PreConfirmedBlockLatest; everything it did so far must agree with the model.
func (pr *pollRun) quiescent(ev dsEvent, last bool) (opc, from, txc uint64, id string) {
	rn, c := pr.rn, pr.rn.c
	expectPub := pr.settle()
	height, err := pr.node.BC.Height()
	hx.Must(err)
	opc = height + 1
	adv := Op{K: "advance", N: opc}
	rn.rp.Lines = append(rn.rp.Lines, adv.Line())
	reply := rn.or.Ask(adv.Line(), 2)
	pr.model = reply[1]
	rn.compareChain(pr.st, pr.model, fmt.Sprintf("poller tick %d", pr.nTicks))
	// the view the poller (and sync.PreConfirmedChain) takes for this head
	v := pr.st.SnapshotForBlock(opc)
	got, bad := canonChain(&v)
	if bad != "" {
		rn.fail("representation:"+strings.Fields(bad)[0], bad, true)
	}
	ans := strings.SplitN(rn.or.Ask(fmt.Sprintf("snap %d", opc), 1)[0], " ", 4)
	var vid int
	fmt.Sscan(ans[1], &vid)
	if got != ans[3] {
		rn.fail("model-mismatch:poller-snapshot", fmt.Sprintf("SnapshotForBlock(%d): code [%s], model [%s]", opc, got, ans[3]), true)
	}
	if !alignedPredicate(&v, opc) || ans[2] != "1" {
		rn.fail("snapshot:not-aligned", fmt.Sprintf("poller stage: SnapshotForBlock(%d) = [%s] is not a gap-free run starting at %d", opc, got, opc), false)
	}
	from = opc
	if sh := parseShadow("chain " + ans[3]); len(sh) > 0 {
		from, id, txc = sh[0].num, idString(sh[0].id), uint64(sh[0].ntx)
	}
	if ev.ID != id || ev.Txc != txc {
		rn.fail("poller-hints", fmt.Sprintf("tick %d polled latest with (%q,%d); the view above head %d has tip (%q,%d)", pr.nTicks, ev.ID, ev.Txc, height, id, txc), true)
	}
	c.Hist[fmt.Sprintf("poller:view-len=%d", min(v.Length(), 4))]++
	h := &held{view: v, vid: vid, n: opc, canon: got, fp: fingerprint(&v)}
	pr.helds = append(pr.helds, h)
	if (v.Length() <= 5 && pr.rng.Chance(40)) || pr.rng.Chance(6) {
		rn.checkReads(pr.node, h, pr.rng)
		rn.checkLookups(h)
	}
	for k, old := range pr.helds { // the newest dozen and a few older ones every tick, all of them at the end
		if k < len(pr.helds)-12 && !last && !pr.rng.Chance(5) {
			continue
		}
		if fingerprint(&old.view) != old.fp {
			now, _ := canonChain(&old.view)
			rn.fail("immutable:view-changed-poller", fmt.Sprintf("view SnapshotForBlock(%d) = [%s] changed by tick %d; now [%s]", old.n, old.canon, pr.nTicks, now), false)
		}
	}
	// what the poller published is (a lossy subsequence of) what the model says ApplyUpdate returned
	pr.mu.Lock()
	pub := pr.pub
	pr.pub = nil
	pr.mu.Unlock()
	// the subscriber goroutine may deliver an entry of tick k after tick k+1 was settled, so the match
	// is a subsequence match over the whole case
	pr.expAll = append(pr.expAll, expectPub...)
	for _, p := range pub {
		j := pr.expPos
		for j < len(pr.expAll) && pr.expAll[j] != p {
			j++
		}
		if j == len(pr.expAll) {
			rn.fail("poller-feed", fmt.Sprintf("tick %d published [%s], not among the entries the model's ApplyUpdate returned since the last published one", pr.nTicks, p), true)
			break
		}
		pr.expPos = j + 1
	}
	c.Hist["poller:published"] += len(pub)
	return
}

// pollCase: one run of the real Poller for nTicks ticks.
func (rn *runner) pollCase(caseSeed uint64, nTicks int, newState bool) {
	c := rn.c
	rng := hx.NewRNG(caseSeed)
	g := &gen{r: rng}
	rn.rp = replay{Kind: "poll", CaseSeed: caseSeed, NOps: nTicks, NewState: newState}
	node := chain.NewNode(nil, newState)
	st := preconfirmed.NewChainStorage()
	ds := &scriptedDS{req: make(chan *dsReq), quit: make(chan struct{})}
	out := feed.New[*pending.PreConfirmed]()
	sub := out.Subscribe()
	var highest atomic.Pointer[core.Header]
	highest.Store(&core.Header{Number: 0})
	pr := &pollRun{rn: rn, g: g, rng: rng, node: node, st: st, blocks: map[uint64]*seqBlock{}, model: "chain -"}
	var wg sync.WaitGroup
	wg.Add(2)
	go func() {
		defer wg.Done()
		for e := range sub.Recv() {
			s, _ := canonEntry(e)
			pr.mu.Lock()
			pr.pub = append(pr.pub, s)
			pr.mu.Unlock()
		}
	}()
	ctx, cancel := context.WithCancel(context.Background())
	poller := preconfirmed.NewPoller(ds, st, node.BC, out, &highest, 150*time.Microsecond, log.NewNopZapLogger())
	go func() { defer wg.Done(); poller.Run(ctx) }()
	// the poller waits while the chain has no genesis, then ticks without polling while the node is
	// not at the tip (AdvanceTo on an empty storage); only then does the scripted dialogue start
	highest.Store(&core.Header{Number: 1 << 40})
	time.Sleep(time.Millisecond)
	for i := 0; i < 3; i++ {
		if _, err := node.Finalise(g.baseBlock(i == 0)); err != nil {
			hx.Fatalf("base chain: %v", err)
		}
	}
	time.Sleep(time.Millisecond)
	highest.Store(&core.Header{Number: 0})
	rn.or.Ask("reset", 1)
	before := rn.c.NViolations()
	paused, idle := false, 0
	for pr.nTicks <= nTicks {
		var r *dsReq
		select {
		case r = <-ds.req:
			idle = 0
		case <-time.After(3 * time.Millisecond):
			idle++
			if paused { // ticks ran AdvanceTo and returned at !atTip without polling
				paused = false
				highest.Store(&core.Header{Number: 0})
				c.Hist["poller:not-at-tip-pause"]++
			} else if idle > 1000 {
				hx.Fatalf("poller stalled (no data-source call for 3 s)")
			}
			continue
		}
		ev := r.ev
		switch ev.Kind {
		case "latest":
			pr.nTicks++
			opc, from, txc, id := pr.quiescent(ev, pr.nTicks > nTicks)
			if pr.nTicks > nTicks || rn.c.NViolations() != before {
				ev.Err = true
				r.reply <- ev
				pr.nTicks = nTicks + 1
				continue
			}
			// the world moves while the poller waits for the feeder
			height := opc - 1
			switch x := rng.Intn(100); {
			case x < 28 && height < 40:
				for k := 1 + rng.Intn(3); k > 0; k-- { // the canonical chain catches up by 1..3 blocks
					if _, err := node.Finalise(g.baseBlock(false)); err != nil {
						hx.Fatalf("grow: %v", err)
					}
				}
				c.Hist["poller:head-advance-under-tick"]++
			case x < 34 && height > 2:
				if node.BC.RevertHead() == nil {
					c.Hist["poller:head-revert-under-tick"]++
				}
			case x < 39:
				paused = true
				highest.Store(&core.Header{Number: 1 << 40})
			}
			pr.evolve(height)
			pr.trace = &tickTrace{opc: opc, from: from, txc: txc, id: id}
			switch {
			case rng.Chance(5):
				ev.Err = true
			case rng.Chance(4) && pr.latest > 1: // the server answers for an older height
				ev.Num = pr.latest - 1
			default:
				ev.Num = pr.latest
			}
			if !ev.Err {
				b := pr.blocks[ev.Num]
				if b == nil {
					b = &seqBlock{id: g.newID()}
					pr.blocks[ev.Num] = b
				}
				ev.Op = pr.answer(b, ev.ID, ev.Txc)
			}
		case "bynum":
			b := pr.blocks[ev.Num]
			switch {
			case rng.Chance(4):
				ev.Err = true
			case b == nil: // a height the sequencer never announced: the feeder still serves a block for it
				b = &seqBlock{id: g.newID(), items: g.items(rng.Intn(3))}
				pr.blocks[ev.Num] = b
				fallthrough
			default:
				ev.Op = pr.answer(b, ev.ID, ev.Txc)
			}
		case "class":
			ev.ClsDef = 400 + ev.Hash
			ev.Err = rng.Chance(4)
		}
		if pr.trace != nil {
			pr.trace.ev = append(pr.trace.ev, ev)
		}
		c.Hist["poller:ds-"+ev.Kind+func() string {
			if ev.Err {
				return ":error"
			}
			if ev.Op != nil {
				return ":" + ev.Op.UK
			}
			return ""
		}()]++
		r.reply <- ev
	}
	if c.NViolations() != before {
		if height, err := node.BC.Height(); err == nil {
			rn.windDown(node, st, height+1, rng)
		}
	}
	cancel()
	close(ds.quit)
	sub.Unsubscribe()
	wg.Wait()
	c.Count(fmt.Sprintf("poll|%d", caseSeed), true)
	c.Extra["poller_ticks"] = addInt(c.Extra["poller_ticks"], pr.nTicks)
	c.Extra["views_held_poller"] = addInt(c.Extra["views_held_poller"], len(pr.helds))
}
