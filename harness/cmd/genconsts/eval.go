// eval.go: loading of Go source files and the constant-expression evaluator of the constants translator.
// NOTE: bin/check rebuilds build/genconsts when main.go is newer than the binary; after editing this file
// `touch main.go`.
package main

import (
	"fmt"
	"go/ast"
	"go/parser"
	"go/token"
	"math/big"
	"path/filepath"
	"strings"
)

type constDecl struct {
	expr ast.Expr // initialiser (possibly inherited from an earlier spec of the same const block)
	iota int      // value of iota for this spec (-1: not inside a const block / var)
	typ  ast.Expr // declared type (possibly inherited), nil if none
	pos  token.Pos
}

type fileInfo struct {
	rel   string
	fset  *token.FileSet
	f     *ast.File
	vals  map[string]ast.Expr // NAME -> initialiser of package-level const/var declarations (explicit ones only)
	iota  map[string]int
	decls map[string]*constDecl // every package-level const (explicit or implicit repetition) and var with initialiser
	types map[string]ast.Expr   // package-level type NAME -> its definition
	order []string              // const names in source order
}

var files = map[string]*fileInfo{}

func load(repo, rel string) (*fileInfo, error) {
	if fi, ok := files[rel]; ok {
		return fi, nil
	}
	fset := token.NewFileSet()
	f, err := parser.ParseFile(fset, filepath.Join(repo, rel), nil, 0)
	if err != nil {
		return nil, err
	}
	fi := &fileInfo{rel: rel, fset: fset, f: f, vals: map[string]ast.Expr{}, iota: map[string]int{},
		decls: map[string]*constDecl{}, types: map[string]ast.Expr{}}
	for _, d := range f.Decls {
		gd, ok := d.(*ast.GenDecl)
		if !ok {
			continue
		}
		if gd.Tok == token.TYPE {
			for _, s := range gd.Specs {
				ts := s.(*ast.TypeSpec)
				fi.types[ts.Name.Name] = ts.Type
			}
			continue
		}
		if gd.Tok != token.CONST && gd.Tok != token.VAR {
			continue
		}
		var lastVals []ast.Expr
		var lastType ast.Expr
		for i, s := range gd.Specs {
			vs := s.(*ast.ValueSpec)
			if len(vs.Values) > 0 {
				lastVals, lastType = vs.Values, vs.Type
			} else if gd.Tok == token.VAR {
				lastVals, lastType = nil, nil
			}
			for k, n := range vs.Names {
				if k < len(vs.Values) {
					fi.vals[n.Name] = vs.Values[k]
					fi.iota[n.Name] = i
				}
				if k < len(lastVals) {
					io := -1
					if gd.Tok == token.CONST {
						io = i
					}
					fi.decls[n.Name] = &constDecl{expr: lastVals[k], iota: io, typ: lastType, pos: n.Pos()}
					if gd.Tok == token.CONST {
						fi.order = append(fi.order, n.Name)
					}
				}
			}
		}
	}
	files[rel] = fi
	return fi, nil
}

func (fi *fileInfo) line(p token.Pos) int { return fi.fset.Position(p).Line }

func (fi *fileInfo) where(n ast.Node) string {
	a, b := fi.line(n.Pos()), fi.line(n.End())
	if a == b {
		return fmt.Sprintf("%s:%d", fi.rel, a)
	}
	return fmt.Sprintf("%s:%d-%d", fi.rel, a, b)
}

// constants of the Go standard library the sources refer to (the translator does not resolve imports)
var stdConsts = map[string]string{
	"math.MaxUint64": "18446744073709551615", "math.MaxUint": "18446744073709551615",
	"math.MaxInt64": "9223372036854775807", "math.MaxInt": "9223372036854775807",
	"math.MinInt64":  "-9223372036854775808",
	"math.MaxUint32": "4294967295", "math.MaxInt32": "2147483647", "math.MaxUint16": "65535",
	"math.MaxUint8": "255", "math.MaxInt8": "127",
	"binary.MaxVarintLen64": "10", "binary.MaxVarintLen32": "5", "binary.MaxVarintLen16": "3",
}

func builtinIntType(name string) bool {
	switch name {
	case "uint64", "int", "uint", "int64", "uint32", "int32", "uint8", "uint16", "int8", "int16", "byte", "uintptr":
		return true
	}
	return false
}

// isIntegerTypeName: a builtin integer type, or a type of the same file defined (transitively) as one
func (fi *fileInfo) isIntegerTypeName(name string, depth int) bool {
	if builtinIntType(name) {
		return true
	}
	if depth > 8 {
		return false
	}
	if t, ok := fi.types[name]; ok {
		if id, ok := t.(*ast.Ident); ok {
			return fi.isIntegerTypeName(id.Name, depth+1)
		}
	}
	return false
}

// evalInt evaluates a constant integer expression; iotaVal < 0 means "iota is not allowed here"
func evalInt(fi *fileInfo, e ast.Expr, depth int) (*big.Int, error) {
	return evalIntI(fi, e, depth, -1)
}

func evalIntI(fi *fileInfo, e ast.Expr, depth, iotaVal int) (*big.Int, error) {
	if depth > 40 {
		return nil, fmt.Errorf("constant expression too deep")
	}
	switch x := e.(type) {
	case *ast.BasicLit:
		switch x.Kind {
		case token.INT:
			v, ok := new(big.Int).SetString(strings.ReplaceAll(x.Value, "_", ""), 0)
			if !ok {
				return nil, fmt.Errorf("cannot read integer literal %s", x.Value)
			}
			return v, nil
		case token.CHAR:
			r, _, _, err := unquoteChar(x.Value)
			if err != nil {
				return nil, fmt.Errorf("cannot read character literal %s", x.Value)
			}
			return big.NewInt(int64(r)), nil
		}
		return nil, fmt.Errorf("literal %s is not an integer", x.Value)
	case *ast.ParenExpr:
		return evalIntI(fi, x.X, depth+1, iotaVal)
	case *ast.Ident:
		if x.Name == "iota" {
			if iotaVal < 0 {
				return nil, fmt.Errorf("iota outside a constant declaration")
			}
			return big.NewInt(int64(iotaVal)), nil
		}
		if d, ok := fi.decls[x.Name]; ok {
			return evalIntI(fi, d.expr, depth+1, d.iota)
		}
		return nil, fmt.Errorf("identifier %s is not a constant of the same file", x.Name)
	case *ast.SelectorExpr:
		if id, ok := x.X.(*ast.Ident); ok {
			if s, ok := stdConsts[id.Name+"."+x.Sel.Name]; ok {
				v, _ := new(big.Int).SetString(s, 10)
				return v, nil
			}
		}
		return nil, fmt.Errorf("selector %s outside the translator's subset", exprString(e))
	case *ast.UnaryExpr:
		a, err := evalIntI(fi, x.X, depth+1, iotaVal)
		if err != nil {
			return nil, err
		}
		switch x.Op {
		case token.SUB:
			return new(big.Int).Neg(a), nil
		case token.ADD:
			return a, nil
		}
		return nil, fmt.Errorf("unary operator %s outside the translator's subset", x.Op)
	case *ast.CallExpr: // conversion T(expr) with an integer type (builtin, or defined in the same file as one)
		if id, ok := x.Fun.(*ast.Ident); ok && len(x.Args) == 1 && fi.isIntegerTypeName(id.Name, 0) {
			return evalIntI(fi, x.Args[0], depth+1, iotaVal)
		}
		return nil, fmt.Errorf("call expression outside the translator's subset")
	case *ast.BinaryExpr:
		a, err := evalIntI(fi, x.X, depth+1, iotaVal)
		if err != nil {
			return nil, err
		}
		b, err := evalIntI(fi, x.Y, depth+1, iotaVal)
		if err != nil {
			return nil, err
		}
		r := new(big.Int)
		switch x.Op {
		case token.ADD:
			return r.Add(a, b), nil
		case token.SUB:
			return r.Sub(a, b), nil
		case token.MUL:
			return r.Mul(a, b), nil
		case token.QUO:
			if b.Sign() == 0 {
				return nil, fmt.Errorf("division by zero")
			}
			return r.Quo(a, b), nil
		case token.REM:
			if b.Sign() == 0 {
				return nil, fmt.Errorf("division by zero")
			}
			return r.Rem(a, b), nil
		case token.SHL:
			return r.Lsh(a, uint(b.Uint64())), nil
		case token.SHR:
			return r.Rsh(a, uint(b.Uint64())), nil
		case token.AND:
			return r.And(a, b), nil
		case token.OR:
			return r.Or(a, b), nil
		case token.XOR:
			return r.Xor(a, b), nil
		}
		return nil, fmt.Errorf("operator %s outside the translator's subset", x.Op)
	}
	return nil, fmt.Errorf("expression %T outside the translator's subset", e)
}

func unquoteChar(lit string) (rune, bool, string, error) {
	if len(lit) < 3 || lit[0] != '\'' || lit[len(lit)-1] != '\'' {
		return 0, false, "", fmt.Errorf("bad char literal")
	}
	return strconvUnquoteChar(lit[1:len(lit)-1], '\'')
}

// findFunc finds a top-level function "name" or method "Recv.name"
func findFunc(fi *fileInfo, ident string) (*ast.FuncDecl, error) {
	recv, name, _ := strings.Cut(ident, ".")
	if name == "" {
		recv, name = "", recv
	}
	var found *ast.FuncDecl
	for _, d := range fi.f.Decls {
		fd, ok := d.(*ast.FuncDecl)
		if !ok || fd.Name.Name != name || fd.Body == nil {
			continue
		}
		if recv != "" {
			if fd.Recv == nil || len(fd.Recv.List) != 1 {
				continue
			}
			t := fd.Recv.List[0].Type
			if st, ok := t.(*ast.StarExpr); ok {
				t = st.X
			}
			if ix, ok := t.(*ast.IndexExpr); ok { // generic receiver T[A]
				t = ix.X
			}
			if ix, ok := t.(*ast.IndexListExpr); ok {
				t = ix.X
			}
			if id, ok := t.(*ast.Ident); !ok || id.Name != recv {
				continue
			}
		} else if fd.Recv != nil {
			continue
		}
		if found != nil {
			return nil, fmt.Errorf("func %s is declared more than once", ident)
		}
		found = fd
	}
	if found == nil {
		return nil, fmt.Errorf("no func %s", ident)
	}
	return found, nil
}
