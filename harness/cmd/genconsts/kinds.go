// kinds.go: the table-like kinds of the constants translator (enumerations, struct-field literals of a named
// variable, literals of a case clause, felts, key layouts). After editing this file `touch main.go`.
package main

import (
	"fmt"
	"go/ast"
	"go/token"
	"go/types"
	"math/big"
	"strconv"
	"strings"
)

var strconvUnquoteChar = strconv.UnquoteChar

func exprString(e ast.Expr) string { return types.ExprString(e) }

func zlist(vs []*big.Int) string {
	var p []string
	for _, v := range vs {
		p = append(p, zlit(v))
	}
	return "[" + strings.Join(p, "; ") + "]"
}

func zlit(v *big.Int) string {
	if v.Sign() < 0 {
		return "(" + v.String() + ")"
	}
	return v.String()
}

// enum: every package-level constant of the file whose declared (or inherited) type is T, or whose value is the
// conversion T(...), in source order. Result: names, values, first/last node for the position comment.
func enumValues(fi *fileInfo, typ string) ([]string, []*big.Int, string, error) {
	if _, ok := fi.types[typ]; !ok {
		return nil, nil, "", fmt.Errorf("no type %s in the file", typ)
	}
	var names []string
	var vals []*big.Int
	first, last := 0, 0
	for _, n := range fi.order {
		d := fi.decls[n]
		is := false
		if id, ok := d.typ.(*ast.Ident); ok && id.Name == typ {
			is = true
		}
		if c, ok := d.expr.(*ast.CallExpr); ok && d.typ == nil {
			if id, ok := c.Fun.(*ast.Ident); ok && id.Name == typ && len(c.Args) == 1 {
				is = true
			}
		}
		if !is {
			continue
		}
		v, err := evalIntI(fi, d.expr, 0, d.iota)
		if err != nil {
			return nil, nil, "", fmt.Errorf("constant %s: %v", n, err)
		}
		names = append(names, n)
		vals = append(vals, v)
		l := fi.line(d.pos)
		if first == 0 {
			first = l
		}
		last = l
	}
	if len(names) == 0 {
		return nil, nil, "", fmt.Errorf("no constant of type %s", typ)
	}
	return names, vals, fmt.Sprintf("%s:%d-%d", fi.rel, first, last), nil
}

// compositeOfVar returns the composite literal that initialises the package-level variable name (&T{..} or T{..})
func compositeOfVar(fi *fileInfo, name string) (*ast.CompositeLit, error) {
	init, ok := fi.vals[name]
	if !ok {
		return nil, fmt.Errorf("no package-level var %s with an initialiser", name)
	}
	if u, ok := init.(*ast.UnaryExpr); ok && u.Op == token.AND {
		init = u.X
	}
	cl, ok := init.(*ast.CompositeLit)
	if !ok {
		return nil, fmt.Errorf("initialiser of %s is not a composite literal", name)
	}
	return cl, nil
}

func keyOf(cl *ast.CompositeLit, key string) (ast.Expr, error) {
	var found ast.Expr
	for _, el := range cl.Elts {
		kv, ok := el.(*ast.KeyValueExpr)
		if !ok {
			continue
		}
		if id, ok := kv.Key.(*ast.Ident); ok && id.Name == key {
			if found != nil {
				return nil, fmt.Errorf("key %s occurs twice", key)
			}
			found = kv.Value
		}
	}
	if found == nil {
		return nil, fmt.Errorf("no key %s in the composite literal", key)
	}
	return found, nil
}

// constString evaluates a constant string expression: literals joined by +
func constString(e ast.Expr) (string, error) {
	switch x := e.(type) {
	case *ast.BasicLit:
		if x.Kind == token.STRING {
			return strconv.Unquote(x.Value)
		}
	case *ast.ParenExpr:
		return constString(x.X)
	case *ast.BinaryExpr:
		if x.Op == token.ADD {
			a, err := constString(x.X)
			if err != nil {
				return "", err
			}
			b, err := constString(x.Y)
			if err != nil {
				return "", err
			}
			return a + b, nil
		}
	}
	return "", fmt.Errorf("expression %s is not a constant string of the translator's subset", exprString(e))
}

// caseClause finds, in func fn, the case clause of a (tag or tagless) switch one of whose expressions prints as label
func caseClause(fi *fileInfo, fn, label string) (*ast.CaseClause, error) {
	fd, err := findFunc(fi, fn)
	if err != nil {
		return nil, err
	}
	var found []*ast.CaseClause
	ast.Inspect(fd.Body, func(n ast.Node) bool {
		if cc, ok := n.(*ast.CaseClause); ok {
			for _, e := range cc.List {
				if exprString(e) == label {
					found = append(found, cc)
				}
			}
		}
		return true
	})
	if len(found) != 1 {
		return nil, fmt.Errorf("func %s holds %d case clauses labelled %s, want exactly 1", fn, len(found), label)
	}
	return found[0], nil
}

// felt value of a package-level variable: felt.Zero | felt.One | felt.FromUint64[felt.Felt](n) | another such variable
func feltValue(fi *fileInfo, name string, depth int) (*big.Int, token.Pos, error) {
	if depth > 8 {
		return nil, 0, fmt.Errorf("felt definition too deep")
	}
	init, ok := fi.vals[name]
	if !ok {
		return nil, 0, fmt.Errorf("no package-level var %s with an initialiser", name)
	}
	v, err := feltExpr(fi, init, depth)
	return v, init.Pos(), err
}

func feltExpr(fi *fileInfo, e ast.Expr, depth int) (*big.Int, error) {
	switch x := e.(type) {
	case *ast.SelectorExpr:
		switch exprString(x) {
		case "felt.Zero":
			return big.NewInt(0), nil
		case "felt.One":
			return big.NewInt(1), nil
		}
	case *ast.Ident:
		v, _, err := feltValue(fi, x.Name, depth+1)
		return v, err
	case *ast.CallExpr:
		f := exprString(x.Fun)
		if (f == "felt.FromUint64[felt.Felt]" || f == "felt.FromUint64") && len(x.Args) == 1 {
			return evalInt(fi, x.Args[0], 0)
		}
	}
	return nil, fmt.Errorf("felt expression %s outside the translator's subset", exprString(e))
}

// key layout of a function of db/schema.go:
//
//	func F(p1 T1, .., pn Tn) []byte { [b := uint64ToBytes(pi)]* ; return Bucket.Key(part, ..) }
//	part ::= pi.Marshal() (felt: 32 bytes big endian, kind 1) | b[:] (uint64 big endian, kind 2) | pi (raw bytes, kind 0)
//
// result: bucket value and the list of (kind, parameter index)
func keyLayout(fi *fileInfo, fn string) (*big.Int, [][2]int, ast.Node, error) {
	fd, err := findFunc(fi, fn)
	if err != nil {
		return nil, nil, nil, err
	}
	params := map[string]int{}
	ptype := map[string]string{}
	idx := 0
	for _, f := range fd.Type.Params.List {
		for _, n := range f.Names {
			params[n.Name] = idx
			ptype[n.Name] = exprString(f.Type)
			idx++
		}
	}
	be := map[string]int{} // local name -> parameter index it is the big-endian image of
	body := fd.Body.List
	if len(body) == 0 {
		return nil, nil, nil, fmt.Errorf("func %s: empty body", fn)
	}
	for _, st := range body[:len(body)-1] {
		as, ok := st.(*ast.AssignStmt)
		if !ok || as.Tok != token.DEFINE || len(as.Lhs) != 1 || len(as.Rhs) != 1 {
			return nil, nil, nil, fmt.Errorf("func %s: statement at line %d outside the key-layout subset", fn, fi.line(st.Pos()))
		}
		call, ok := as.Rhs[0].(*ast.CallExpr)
		if !ok || exprString(call.Fun) != "uint64ToBytes" || len(call.Args) != 1 {
			return nil, nil, nil, fmt.Errorf("func %s: only `b := uint64ToBytes(param)` may precede the return", fn)
		}
		p, ok := call.Args[0].(*ast.Ident)
		if !ok {
			return nil, nil, nil, fmt.Errorf("func %s: argument of uint64ToBytes is not a parameter", fn)
		}
		pi, ok := params[p.Name]
		if !ok || ptype[p.Name] != "uint64" {
			return nil, nil, nil, fmt.Errorf("func %s: argument of uint64ToBytes is not a uint64 parameter", fn)
		}
		be[as.Lhs[0].(*ast.Ident).Name] = pi
	}
	if len(be) > 0 { // uint64ToBytes must be the big-endian encoder
		h, err := findFunc(fi, "uint64ToBytes")
		if err != nil {
			return nil, nil, nil, err
		}
		n := 0
		ast.Inspect(h.Body, func(x ast.Node) bool {
			if c, ok := x.(*ast.CallExpr); ok && exprString(c.Fun) == "binary.BigEndian.PutUint64" {
				n++
			}
			return true
		})
		if n != 1 || len(h.Body.List) != 3 {
			return nil, nil, nil, fmt.Errorf("uint64ToBytes is no longer `var b [8]byte; binary.BigEndian.PutUint64(b[:], num); return b`")
		}
	}
	ret, ok := body[len(body)-1].(*ast.ReturnStmt)
	if !ok || len(ret.Results) != 1 {
		return nil, nil, nil, fmt.Errorf("func %s: the last statement must be `return Bucket.Key(..)`", fn)
	}
	call, ok := ret.Results[0].(*ast.CallExpr)
	if !ok {
		return nil, nil, nil, fmt.Errorf("func %s: the result is not a call of Bucket.Key", fn)
	}
	sel, ok := call.Fun.(*ast.SelectorExpr)
	if !ok || sel.Sel.Name != "Key" {
		return nil, nil, nil, fmt.Errorf("func %s: the result is not a call of Bucket.Key", fn)
	}
	bid, ok := sel.X.(*ast.Ident)
	if !ok {
		return nil, nil, nil, fmt.Errorf("func %s: the bucket is not a plain identifier", fn)
	}
	bfi, err := load(repoRoot, "db/buckets.go")
	if err != nil {
		return nil, nil, nil, err
	}
	bd, ok := bfi.decls[bid.Name]
	if !ok {
		return nil, nil, nil, fmt.Errorf("func %s: bucket %s is not a constant of db/buckets.go", fn, bid.Name)
	}
	bv, err := evalIntI(bfi, bd.expr, 0, bd.iota)
	if err != nil {
		return nil, nil, nil, fmt.Errorf("bucket %s: %v", bid.Name, err)
	}
	var parts [][2]int
	for _, a := range call.Args {
		switch x := a.(type) {
		case *ast.Ident:
			pi, ok := params[x.Name]
			if !ok || ptype[x.Name] != "[]byte" {
				return nil, nil, nil, fmt.Errorf("func %s: key part %s is not a []byte parameter", fn, x.Name)
			}
			parts = append(parts, [2]int{0, pi})
		case *ast.CallExpr:
			s, ok := x.Fun.(*ast.SelectorExpr)
			if !ok || s.Sel.Name != "Marshal" || len(x.Args) != 0 {
				return nil, nil, nil, fmt.Errorf("func %s: key part %s outside the key-layout subset", fn, exprString(a))
			}
			p, ok := s.X.(*ast.Ident)
			if !ok {
				return nil, nil, nil, fmt.Errorf("func %s: key part %s outside the key-layout subset", fn, exprString(a))
			}
			pi, ok := params[p.Name]
			if !ok || !strings.HasPrefix(ptype[p.Name], "*felt.") {
				return nil, nil, nil, fmt.Errorf("func %s: %s is not a felt parameter", fn, p.Name)
			}
			parts = append(parts, [2]int{1, pi})
		case *ast.SliceExpr:
			p, ok := x.X.(*ast.Ident)
			if !ok || x.Low != nil || x.High != nil {
				return nil, nil, nil, fmt.Errorf("func %s: key part %s outside the key-layout subset", fn, exprString(a))
			}
			pi, ok := be[p.Name]
			if !ok {
				return nil, nil, nil, fmt.Errorf("func %s: %s is not the image of uint64ToBytes", fn, p.Name)
			}
			parts = append(parts, [2]int{2, pi})
		default:
			return nil, nil, nil, fmt.Errorf("func %s: key part %s outside the key-layout subset", fn, exprString(a))
		}
	}
	return bv, parts, fd, nil
}

// widthOfLocal: bit width of the unsigned integer type a local variable of func fn is declared with (`var x T`)
func widthOfLocal(fi *fileInfo, fn, name string) (*big.Int, ast.Node, error) {
	fd, err := findFunc(fi, fn)
	if err != nil {
		return nil, nil, err
	}
	var res *big.Int
	var at ast.Node
	n := 0
	ast.Inspect(fd.Body, func(x ast.Node) bool {
		ds, ok := x.(*ast.DeclStmt)
		if !ok {
			return true
		}
		gd := ds.Decl.(*ast.GenDecl)
		if gd.Tok != token.VAR {
			return true
		}
		for _, s := range gd.Specs {
			vs := s.(*ast.ValueSpec)
			for _, nm := range vs.Names {
				if nm.Name != name {
					continue
				}
				n++
				if id, ok := vs.Type.(*ast.Ident); ok {
					if w := unsignedWidth(id.Name); w > 0 {
						res, at = big.NewInt(int64(w)), ds
					}
				}
			}
		}
		return true
	})
	if n != 1 || res == nil {
		return nil, nil, fmt.Errorf("func %s: want exactly one `var %s <unsigned integer type>` (found %d declarations)", fn, name, n)
	}
	return res, at, nil
}

func unsignedWidth(name string) int {
	switch name {
	case "uint", "uint64", "uintptr":
		return 64
	case "uint32":
		return 32
	case "uint16":
		return 16
	case "uint8", "byte":
		return 8
	}
	return 0
}
