// genconsts: the constants translator. Reads Go source files of the repository under verification with
// go/parser (no build, no imports resolved) and regenerates a Coq file with one Definition per constant
// the models depend on. The per-property obligation files coq/obligations/Cxx_consts.v state, by
// reflexivity, that the constant written in the hand-made model equals the regenerated one, so a change
// of the constant in the source breaks a proof obligation on the next run.
//
// Subset understood (anything else is an error, reported as a broken obligation, never skipped):
//
//	int    const/var NAME [T] = <expr>   with <expr> ::= integer literal | NAME' (same file set) | T(<expr>)
//	                                       | (<expr>) | <expr> (+|-|*|/|%|<<|>>) <expr>
//	str    var NAME = <any expression containing exactly one string literal>  ->  big-endian integer of its bytes
//	                   (new(felt.Felt).SetBytes([]byte("invoke")), felt.NewFromBytes[felt.Felt]([]byte(`X`)), ...)
//	field  the integer value of the key NAME in a composite literal of the file (cbor.DecOptions{MaxArrayElements: n})
//
// usage: genconsts <repo> <out.v>
package main

import (
	"fmt"
	"go/ast"
	"go/parser"
	"go/token"
	"math/big"
	"os"
	"path/filepath"
	"sort"
	"strconv"
	"strings"
)

type spec struct {
	coq   string // name of the Coq definition
	file  string // path relative to the repository root
	ident string
	kind  string // int | str | field
}

var specs = []spec{
	{"core_NumBlocksPerFilter", "core/aggregated_bloom_filter.go", "NumBlocksPerFilter", "int"},
	{"core_BlockHashLag", "core/block.go", "BlockHashLag", "int"},
	{"core_commitmentTrieHeight", "core/transaction.go", "commitmentTrieHeight", "int"},
	{"deprecatedstate_globalTrieHeight", "core/deprecatedstate/state.go", "globalTrieHeight", "int"},
	{"deprecatedstate_ContractStorageTrieHeight", "core/deprecatedstate/contract.go", "ContractStorageTrieHeight", "int"},
	{"trie2_contractClassTrieHeight", "core/trie2/trie.go", "contractClassTrieHeight", "int"},
	{"walstore_cleanupPruneRecordInterval", "consensus/walstore/wal_store.go", "cleanupPruneRecordInterval", "int"},
	{"migration_maxMigrations", "migration/registry.go", "maxMigrations", "int"},
	{"blocktransactions_batchSize", "migration/blocktransactions/blocktransactions.go", "batchSize", "int"},
	{"jsonrpc_bufferSize", "jsonrpc/server.go", "bufferSize", "int"},
	{"encoder_MaxArrayElements", "encoder/encoder.go", "MaxArrayElements", "field"},
	{"encoder_MaxMapPairs", "encoder/encoder.go", "MaxMapPairs", "field"},
	{"core_invokeFelt", "core/transaction.go", "invokeFelt", "str"},
	{"core_declareFelt", "core/transaction.go", "declareFelt", "str"},
	{"core_l1HandlerFelt", "core/transaction.go", "l1HandlerFelt", "str"},
	{"core_deployAccountFelt", "core/transaction.go", "deployAccountFelt", "str"},
	{"core_starknetBlockHash0", "core/block.go", "starknetBlockHash0", "str"},
	{"core_starknetBlockHash1", "core/block.go", "starknetBlockHash1", "str"},
	{"core_starknetGasPrices0", "core/block.go", "starknetGasPrices0", "str"},
	{"core_starknetStateDiff0", "core/state_update.go", "starknetStateDiff0", "str"},
	{"deprecatedstate_stateVersion", "core/deprecatedstate/state.go", "stateVersion", "str"},
	{"deprecatedstate_leafVersion", "core/deprecatedstate/state.go", "leafVersion", "str"},
	{"state_stateVersion0", "core/state/state.go", "stateVersion0", "str"},
	{"state_leafVersion0", "core/state/state.go", "leafVersion0", "str"},
}

type fileInfo struct {
	f    *ast.File
	vals map[string]ast.Expr // NAME -> initialiser of package-level const/var declarations
	iota map[string]int
}

var files = map[string]*fileInfo{}

func load(repo, rel string) (*fileInfo, error) {
	if fi, ok := files[rel]; ok {
		return fi, nil
	}
	fset := token.NewFileSet()
	f, err := parser.ParseFile(fset, filepath.Join(repo, rel), nil, 0)
	if err != nil {
		return nil, err
	}
	fi := &fileInfo{f: f, vals: map[string]ast.Expr{}, iota: map[string]int{}}
	for _, d := range f.Decls {
		gd, ok := d.(*ast.GenDecl)
		if !ok || (gd.Tok != token.CONST && gd.Tok != token.VAR) {
			continue
		}
		for i, s := range gd.Specs {
			vs := s.(*ast.ValueSpec)
			for k, n := range vs.Names {
				if k < len(vs.Values) {
					fi.vals[n.Name] = vs.Values[k]
					fi.iota[n.Name] = i
				}
			}
		}
	}
	files[rel] = fi
	return fi, nil
}

func evalInt(fi *fileInfo, e ast.Expr, depth int) (*big.Int, error) {
	if depth > 20 {
		return nil, fmt.Errorf("constant expression too deep")
	}
	switch x := e.(type) {
	case *ast.BasicLit:
		if x.Kind != token.INT {
			return nil, fmt.Errorf("literal %s is not an integer", x.Value)
		}
		v, ok := new(big.Int).SetString(strings.ReplaceAll(x.Value, "_", ""), 0)
		if !ok {
			return nil, fmt.Errorf("cannot read integer literal %s", x.Value)
		}
		return v, nil
	case *ast.ParenExpr:
		return evalInt(fi, x.X, depth+1)
	case *ast.Ident:
		if init, ok := fi.vals[x.Name]; ok {
			return evalInt(fi, init, depth+1)
		}
		return nil, fmt.Errorf("identifier %s is not a constant of the same file", x.Name)
	case *ast.CallExpr: // conversion T(expr) with a builtin integer type
		if id, ok := x.Fun.(*ast.Ident); ok && len(x.Args) == 1 {
			switch id.Name {
			case "uint64", "int", "uint", "int64", "uint32", "int32", "uint8", "uint16":
				return evalInt(fi, x.Args[0], depth+1)
			}
		}
		return nil, fmt.Errorf("call expression outside the translator's subset")
	case *ast.BinaryExpr:
		a, err := evalInt(fi, x.X, depth+1)
		if err != nil {
			return nil, err
		}
		b, err := evalInt(fi, x.Y, depth+1)
		if err != nil {
			return nil, err
		}
		r := new(big.Int)
		switch x.Op {
		case token.ADD:
			return r.Add(a, b), nil
		case token.SUB:
			return r.Sub(a, b), nil
		case token.MUL:
			return r.Mul(a, b), nil
		case token.QUO:
			if b.Sign() == 0 {
				return nil, fmt.Errorf("division by zero")
			}
			return r.Quo(a, b), nil
		case token.REM:
			if b.Sign() == 0 {
				return nil, fmt.Errorf("division by zero")
			}
			return r.Rem(a, b), nil
		case token.SHL:
			return r.Lsh(a, uint(b.Uint64())), nil
		case token.SHR:
			return r.Rsh(a, uint(b.Uint64())), nil
		}
		return nil, fmt.Errorf("operator %s outside the translator's subset", x.Op)
	}
	return nil, fmt.Errorf("expression %T outside the translator's subset", e)
}

func stringLits(e ast.Node) []string {
	var out []string
	ast.Inspect(e, func(n ast.Node) bool {
		if bl, ok := n.(*ast.BasicLit); ok && bl.Kind == token.STRING {
			if s, err := strconv.Unquote(bl.Value); err == nil {
				out = append(out, s)
			}
		}
		return true
	})
	return out
}

func value(repo string, s spec) (*big.Int, string, error) {
	fi, err := load(repo, s.file)
	if err != nil {
		return nil, "", err
	}
	switch s.kind {
	case "int":
		init, ok := fi.vals[s.ident]
		if !ok {
			return nil, "", fmt.Errorf("no package-level const/var %s with an initialiser", s.ident)
		}
		v, err := evalInt(fi, init, 0)
		return v, "", err
	case "str":
		init, ok := fi.vals[s.ident]
		if !ok {
			return nil, "", fmt.Errorf("no package-level var %s with an initialiser", s.ident)
		}
		ls := stringLits(init)
		if len(ls) != 1 {
			return nil, "", fmt.Errorf("initialiser of %s holds %d string literals, want exactly 1", s.ident, len(ls))
		}
		return new(big.Int).SetBytes([]byte(ls[0])), ls[0], nil
	case "field":
		var found []*big.Int
		var ferr error
		ast.Inspect(fi.f, func(n ast.Node) bool {
			kv, ok := n.(*ast.KeyValueExpr)
			if !ok {
				return true
			}
			if id, ok := kv.Key.(*ast.Ident); ok && id.Name == s.ident {
				v, err := evalInt(fi, kv.Value, 0)
				if err != nil {
					ferr = err
				} else {
					found = append(found, v)
				}
			}
			return true
		})
		if ferr != nil {
			return nil, "", ferr
		}
		if len(found) == 0 {
			return nil, "", fmt.Errorf("no composite-literal key %s", s.ident)
		}
		for _, v := range found[1:] {
			if v.Cmp(found[0]) != 0 {
				return nil, "", fmt.Errorf("key %s has different values in the file", s.ident)
			}
		}
		return found[0], "", nil
	}
	return nil, "", fmt.Errorf("unknown kind %s", s.kind)
}

func main() {
	if len(os.Args) != 3 {
		fmt.Fprintln(os.Stderr, "usage: genconsts <repo> <out.v>")
		os.Exit(2)
	}
	repo, out := os.Args[1], os.Args[2]
	var b strings.Builder
	b.WriteString("(* GENERATED by harness/cmd/genconsts from the Go sources of the repository under verification on every run.\n")
	b.WriteString("   Do not edit. One definition per source constant the Coq models depend on; the obligations\n")
	b.WriteString("   coq/obligations/Cxx_consts.v equate the models' hand-written constants with these. *)\n")
	b.WriteString("From Coq Require Import ZArith.\n\n")
	sorted := append([]spec{}, specs...)
	sort.SliceStable(sorted, func(i, j int) bool { return sorted[i].coq < sorted[j].coq })
	failed := 0
	for _, s := range sorted {
		v, str, err := value(repo, s)
		if err != nil {
			// keep the file compilable but make every obligation that mentions the name fail with a readable message
			fmt.Fprintf(&b, "(* TRANSLATOR ERROR %s (%s in %s): %s *)\n", s.coq, s.ident, s.file, err)
			fmt.Fprintf(os.Stderr, "genconsts: %s (%s in %s): %v\n", s.coq, s.ident, s.file, err)
			failed++
			continue
		}
		note := fmt.Sprintf("%s in %s", s.ident, s.file)
		if str != "" {
			note += fmt.Sprintf(", bytes of %q", str)
		}
		fmt.Fprintf(&b, "Definition %s : Z := %s%%Z.  (* %s *)\n", s.coq, v.String(), note)
	}
	if err := os.WriteFile(out, []byte(b.String()), 0o644); err != nil {
		fmt.Fprintln(os.Stderr, err)
		os.Exit(2)
	}
	if failed > 0 {
		os.Exit(3)
	}
}
