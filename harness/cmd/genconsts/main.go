// genconsts: the constants translator. Reads Go source files of the repository under verification with
// go/parser (no build, no imports resolved) and regenerates a Coq file with one Definition per constant
// the models depend on. The per-property obligation files coq/obligations/Cxx_consts.v state, by
// reflexivity, that the constant written in the hand-made model equals the regenerated one, so a change
// of the constant in the source breaks a proof obligation on the next run.
//
// Subset understood (anything else is an error, reported as a broken obligation, never skipped):
//
//	int    const/var NAME [T] = <expr>   with <expr> ::= integer literal | NAME' (same file set) | T(<expr>)
//	                                       | (<expr>) | <expr> (+|-|*|/|%|<<|>>) <expr>
//	str    var NAME = <any expression containing exactly one string literal>  ->  big-endian integer of its bytes
//	                   (new(felt.Felt).SetBytes([]byte("invoke")), felt.NewFromBytes[felt.Felt]([]byte(`X`)), ...)
//	fnstr  the only string literal inside the body of func/method NAME  ->  big-endian integer of its bytes
//	field  the integer value of the key NAME in a composite literal of the file (cbor.DecOptions{MaxArrayElements: n})
//	bits   type NAME <unsigned integer type>  ->  its width in bits on the 64-bit targets juno supports (uint = 64)
//	func   func NAME(p T) T { straight-line unsigned arithmetic }  ->  a Gallina function N -> N with the uint64
//	       wrap-around written out: statements `x := e`, `x = e`, `x++`, `x--`, `if cond { such statements }`
//	       (no else, no return inside), a final `return e`; e ::= literal | variable | (e) | e (+|-|*|/|%) e with a
//	       non-zero literal divisor; cond ::= e (<|<=|>|>=|==|!=) e
//
// Session 4 (files eval.go kinds.go zfunc.go sel.go tables.go of this directory; bin/check rebuilds the binary when
// THIS file is newer than it, so `touch main.go` after editing any of them):
//
//	int       also: iota and implicit repetition inside const blocks, conversions to integer types defined in the
//	          file, unary minus, & | ^, character literals, math.MaxUint64 & co
//	enum      every constant of a named integer type of the file, in source order  ->  list Z
//	varfield  Var.Key: integer value of Key in the composite literal initialising the package-level Var
//	casestr   Func:Label:Key: string value of Key in the composite literal of the case clause Label of Func
//	caselits  Func:K: the integer / character labels of the K-th case clause of Func  ->  list Z
//	hexstr    a string constant holding a 0x number
//	localbits Func:var: width of the unsigned type of `var v T` inside Func
//	felt      felt.Zero | felt.One | felt.FromUint64[felt.Felt](n) | another such variable;  feltlist: [...]felt.Felt{..}
//	keylayout func F(params) []byte { [b := uint64ToBytes(p)]*; return Bucket.Key(parts..) } of db/schema.go
//	          ->  (bucket byte, [(kind, parameter index)]), kind 0 raw / 1 felt.Marshal / 2 uint64 big endian
//	zfunc     whole functions, statement runs and single expressions translated to Gallina over Z (see zfunc.go)
//
// Every emitted definition carries file:line of its source. An identifier that is missing or whose definition leaves
// the subset makes the translator print `genconsts: <coq name> (<identifier> in <file>): <reason>`, leave the
// definition out (so that every obligation mentioning it stops compiling) and exit with status 3.
//
// usage: genconsts <repo> <out.v>
package main

import (
	"fmt"
	"go/ast"
	"go/token"
	"math/big"
	"os"
	"sort"
	"strconv"
	"strings"
)

type spec struct {
	coq   string // name of the Coq definition
	file  string // path relative to the repository root
	ident string
	kind  string // int | str | fnstr | field | bits | func | enum | varfield | casestr | caselits | hexstr | localbits | felt | feltlist | keylayout
	ext   map[string]extConst
}

var repoRoot string

func sp(coq, file, ident, kind string) spec {
	return spec{coq: coq, file: file, ident: ident, kind: kind}
}

var specs = []spec{
	sp("core_NumBlocksPerFilter", "core/aggregated_bloom_filter.go", "NumBlocksPerFilter", "int"),
	sp("core_BlockHashLag", "core/block.go", "BlockHashLag", "int"),
	sp("core_commitmentTrieHeight", "core/transaction.go", "commitmentTrieHeight", "int"),
	sp("deprecatedstate_globalTrieHeight", "core/deprecatedstate/state.go", "globalTrieHeight", "int"),
	sp("deprecatedstate_ContractStorageTrieHeight", "core/deprecatedstate/contract.go", "ContractStorageTrieHeight", "int"),
	sp("trie2_contractClassTrieHeight", "core/trie2/trie.go", "contractClassTrieHeight", "int"),
	sp("walstore_cleanupPruneRecordInterval", "consensus/walstore/wal_store.go", "cleanupPruneRecordInterval", "int"),
	sp("migration_maxMigrations", "migration/registry.go", "maxMigrations", "int"),
	sp("blocktransactions_batchSize", "migration/blocktransactions/blocktransactions.go", "batchSize", "int"),
	sp("jsonrpc_bufferSize", "jsonrpc/server.go", "bufferSize", "int"),
	sp("encoder_MaxArrayElements", "encoder/encoder.go", "MaxArrayElements", "field"),
	sp("encoder_MaxMapPairs", "encoder/encoder.go", "MaxMapPairs", "field"),
	sp("core_invokeFelt", "core/transaction.go", "invokeFelt", "str"),
	sp("core_declareFelt", "core/transaction.go", "declareFelt", "str"),
	sp("core_l1HandlerFelt", "core/transaction.go", "l1HandlerFelt", "str"),
	sp("core_deployAccountFelt", "core/transaction.go", "deployAccountFelt", "str"),
	sp("core_starknetBlockHash0", "core/block.go", "starknetBlockHash0", "str"),
	sp("core_starknetBlockHash1", "core/block.go", "starknetBlockHash1", "str"),
	sp("core_starknetGasPrices0", "core/block.go", "starknetGasPrices0", "str"),
	sp("core_starknetStateDiff0", "core/state_update.go", "starknetStateDiff0", "str"),
	sp("deprecatedstate_stateVersion", "core/deprecatedstate/state.go", "stateVersion", "str"),
	sp("deprecatedstate_leafVersion", "core/deprecatedstate/state.go", "leafVersion", "str"),
	sp("state_stateVersion0", "core/state/state.go", "stateVersion0", "str"),
	sp("state_leafVersion0", "core/state/state.go", "leafVersion0", "str"),
	sp("core_contractClassVersionPrefix", "core/class.go", "SierraClass.Hash", "fnstr"),
	sp("types_VotingPower_bits", "consensus/types/state.go", "VotingPower", "bits"),
	sp("votecounter_f", "consensus/votecounter/vote_counter.go", "f", "func"),
	sp("votecounter_q", "consensus/votecounter/vote_counter.go", "q", "func"),
}

func stringLits(e ast.Node) []string {
	var out []string
	ast.Inspect(e, func(n ast.Node) bool {
		if bl, ok := n.(*ast.BasicLit); ok && bl.Kind == token.STRING {
			if s, err := strconv.Unquote(bl.Value); err == nil {
				out = append(out, s)
			}
		}
		return true
	})
	return out
}

func value(repo string, s spec) (*big.Int, string, error) {
	fi, err := load(repo, s.file)
	if err != nil {
		return nil, "", err
	}
	switch s.kind {
	case "int":
		d, ok := fi.decls[s.ident]
		if !ok {
			return nil, "", fmt.Errorf("no package-level const/var %s with an initialiser", s.ident)
		}
		v, err := evalIntI(fi, d.expr, 0, d.iota)
		return v, "", err
	case "varfield": // Var.Key: integer value of Key in the composite literal that initialises the package-level Var
		vn, key, ok := strings.Cut(s.ident, ".")
		if !ok {
			return nil, "", fmt.Errorf("want Var.Key")
		}
		cl, err := compositeOfVar(fi, vn)
		if err != nil {
			return nil, "", err
		}
		e, err := keyOf(cl, key)
		if err != nil {
			return nil, "", err
		}
		if sel, ok := e.(*ast.SelectorExpr); ok { // a constant of another package, declared in the spec
			if ec, ok := s.ext[exprString(sel)]; ok {
				fi2, err := load(repoRoot, ec.file)
				if err != nil {
					return nil, "", err
				}
				d, ok := fi2.decls[ec.ident]
				if !ok {
					return nil, "", fmt.Errorf("no constant %s in %s", ec.ident, ec.file)
				}
				v, err := evalIntI(fi2, d.expr, 0, d.iota)
				return v, "", err
			}
		}
		v, err := evalInt(fi, e, 0)
		return v, "", err
	case "casestr": // Func:Label:Key: the string value of Key in the only composite literal of the case clause Label of Func
		p := strings.Split(s.ident, ":")
		if len(p) != 3 {
			return nil, "", fmt.Errorf("want Func:Label:Key")
		}
		cc, err := caseClause(fi, p[0], p[1])
		if err != nil {
			return nil, "", err
		}
		var cls []*ast.CompositeLit
		for _, st := range cc.Body {
			ast.Inspect(st, func(n ast.Node) bool {
				if c, ok := n.(*ast.CompositeLit); ok {
					cls = append(cls, c)
				}
				return true
			})
		}
		if len(cls) != 1 {
			return nil, "", fmt.Errorf("case %s of %s holds %d composite literals, want exactly 1", p[1], p[0], len(cls))
		}
		e, err := keyOf(cls[0], p[2])
		if err != nil {
			return nil, "", err
		}
		str, err := constString(e)
		if err != nil {
			return nil, "", err
		}
		return new(big.Int).SetBytes([]byte(str)), str, nil
	case "hexstr": // a string constant holding a 0x.. number
		d, ok := fi.decls[s.ident]
		if !ok {
			return nil, "", fmt.Errorf("no package-level const/var %s with an initialiser", s.ident)
		}
		str, err := constString(d.expr)
		if err != nil {
			return nil, "", err
		}
		v, ok := new(big.Int).SetString(str, 0)
		if !ok || !strings.HasPrefix(str, "0x") {
			return nil, "", fmt.Errorf("%q is not a 0x number", str)
		}
		return v, str, nil
	case "localbits": // Func:var
		fn, vn, ok := strings.Cut(s.ident, ":")
		if !ok {
			return nil, "", fmt.Errorf("want Func:var")
		}
		v, _, err := widthOfLocal(fi, fn, vn)
		return v, "", err
	case "felt":
		v, _, err := feltValue(fi, s.ident, 0)
		return v, "", err
	case "str":
		init, ok := fi.vals[s.ident]
		if !ok {
			return nil, "", fmt.Errorf("no package-level var %s with an initialiser", s.ident)
		}
		ls := stringLits(init)
		if len(ls) != 1 {
			return nil, "", fmt.Errorf("initialiser of %s holds %d string literals, want exactly 1", s.ident, len(ls))
		}
		return new(big.Int).SetBytes([]byte(ls[0])), ls[0], nil
	case "fnstr":
		recv, name, _ := strings.Cut(s.ident, ".")
		if name == "" {
			recv, name = "", recv
		}
		for _, d := range fi.f.Decls {
			fd, ok := d.(*ast.FuncDecl)
			if !ok || fd.Name.Name != name || fd.Body == nil {
				continue
			}
			if recv != "" {
				if fd.Recv == nil || len(fd.Recv.List) != 1 {
					continue
				}
				t := fd.Recv.List[0].Type
				if st, ok := t.(*ast.StarExpr); ok {
					t = st.X
				}
				if id, ok := t.(*ast.Ident); !ok || id.Name != recv {
					continue
				}
			} else if fd.Recv != nil {
				continue
			}
			ls := stringLits(fd.Body)
			if len(ls) != 1 {
				return nil, "", fmt.Errorf("body of %s holds %d string literals, want exactly 1", s.ident, len(ls))
			}
			return new(big.Int).SetBytes([]byte(ls[0])), ls[0], nil
		}
		return nil, "", fmt.Errorf("no func %s", s.ident)
	case "field":
		var found []*big.Int
		var ferr error
		ast.Inspect(fi.f, func(n ast.Node) bool {
			kv, ok := n.(*ast.KeyValueExpr)
			if !ok {
				return true
			}
			if id, ok := kv.Key.(*ast.Ident); ok && id.Name == s.ident {
				v, err := evalInt(fi, kv.Value, 0)
				if err != nil {
					ferr = err
				} else {
					found = append(found, v)
				}
			}
			return true
		})
		if ferr != nil {
			return nil, "", ferr
		}
		if len(found) == 0 {
			return nil, "", fmt.Errorf("no composite-literal key %s", s.ident)
		}
		for _, v := range found[1:] {
			if v.Cmp(found[0]) != 0 {
				return nil, "", fmt.Errorf("key %s has different values in the file", s.ident)
			}
		}
		return found[0], "", nil
	}
	return nil, "", fmt.Errorf("unknown kind %s", s.kind)
}

// ---------- function translator (kind "func") ----------
const w64 = "18446744073709551616"

func trExpr(e ast.Expr, vars map[string]bool) (string, error) {
	switch x := e.(type) {
	case *ast.BasicLit:
		if x.Kind != token.INT {
			return "", fmt.Errorf("literal %s is not an integer", x.Value)
		}
		v, ok := new(big.Int).SetString(strings.ReplaceAll(x.Value, "_", ""), 0)
		if !ok || v.Sign() < 0 {
			return "", fmt.Errorf("cannot read integer literal %s", x.Value)
		}
		return v.String(), nil
	case *ast.Ident:
		if !vars[x.Name] {
			return "", fmt.Errorf("identifier %s is neither the parameter nor a local variable", x.Name)
		}
		return x.Name, nil
	case *ast.ParenExpr:
		return trExpr(x.X, vars)
	case *ast.BinaryExpr:
		a, err := trExpr(x.X, vars)
		if err != nil {
			return "", err
		}
		b, err := trExpr(x.Y, vars)
		if err != nil {
			return "", err
		}
		switch x.Op {
		case token.ADD:
			return fmt.Sprintf("((%s + %s) mod %s)", a, b, w64), nil
		case token.SUB:
			return fmt.Sprintf("((%s + %s - %s) mod %s)", a, w64, b, w64), nil
		case token.MUL:
			return fmt.Sprintf("((%s * %s) mod %s)", a, b, w64), nil
		case token.QUO, token.REM:
			if lit, ok := x.Y.(*ast.BasicLit); !ok || lit.Kind != token.INT || b == "0" {
				return "", fmt.Errorf("divisor must be a non-zero integer literal")
			}
			if x.Op == token.QUO {
				return fmt.Sprintf("(%s / %s)", a, b), nil
			}
			return fmt.Sprintf("(%s mod %s)", a, b), nil
		}
		return "", fmt.Errorf("operator %s outside the translator's subset", x.Op)
	}
	return "", fmt.Errorf("expression %T outside the translator's subset", e)
}

func trCond(e ast.Expr, vars map[string]bool) (string, error) {
	if p, ok := e.(*ast.ParenExpr); ok {
		return trCond(p.X, vars)
	}
	b, ok := e.(*ast.BinaryExpr)
	if !ok {
		return "", fmt.Errorf("condition %T outside the translator's subset", e)
	}
	x, err := trExpr(b.X, vars)
	if err != nil {
		return "", err
	}
	y, err := trExpr(b.Y, vars)
	if err != nil {
		return "", err
	}
	switch b.Op {
	case token.LSS:
		return fmt.Sprintf("(%s <? %s)", x, y), nil
	case token.GTR:
		return fmt.Sprintf("(%s <? %s)", y, x), nil
	case token.LEQ:
		return fmt.Sprintf("(%s <=? %s)", x, y), nil
	case token.GEQ:
		return fmt.Sprintf("(%s <=? %s)", y, x), nil
	case token.EQL:
		return fmt.Sprintf("(%s =? %s)", x, y), nil
	case token.NEQ:
		return fmt.Sprintf("(negb (%s =? %s))", x, y), nil
	}
	return "", fmt.Errorf("comparison %s outside the translator's subset", b.Op)
}

// trSimple translates one assignment-like statement into (variable, expression)
func trSimple(st ast.Stmt, vars map[string]bool, allowDefine bool) (string, string, error) {
	switch x := st.(type) {
	case *ast.AssignStmt:
		if len(x.Lhs) != 1 || len(x.Rhs) != 1 {
			return "", "", fmt.Errorf("multiple assignment outside the translator's subset")
		}
		id, ok := x.Lhs[0].(*ast.Ident)
		if !ok {
			return "", "", fmt.Errorf("assignment target outside the translator's subset")
		}
		if x.Tok == token.DEFINE && !allowDefine {
			return "", "", fmt.Errorf("variable definition inside a branch is outside the translator's subset")
		}
		var rhs ast.Expr = x.Rhs[0]
		switch x.Tok {
		case token.DEFINE, token.ASSIGN:
		case token.ADD_ASSIGN:
			rhs = &ast.BinaryExpr{X: id, Op: token.ADD, Y: x.Rhs[0]}
		case token.SUB_ASSIGN:
			rhs = &ast.BinaryExpr{X: id, Op: token.SUB, Y: x.Rhs[0]}
		case token.MUL_ASSIGN:
			rhs = &ast.BinaryExpr{X: id, Op: token.MUL, Y: x.Rhs[0]}
		default:
			return "", "", fmt.Errorf("assignment operator %s outside the translator's subset", x.Tok)
		}
		if x.Tok != token.DEFINE && !vars[id.Name] {
			return "", "", fmt.Errorf("assignment to unknown variable %s", id.Name)
		}
		e, err := trExpr(rhs, vars)
		if err != nil {
			return "", "", err
		}
		vars[id.Name] = true
		return id.Name, e, nil
	case *ast.IncDecStmt:
		id, ok := x.X.(*ast.Ident)
		if !ok || !vars[id.Name] {
			return "", "", fmt.Errorf("++/-- target outside the translator's subset")
		}
		op := token.ADD
		if x.Tok == token.DEC {
			op = token.SUB
		}
		e, err := trExpr(&ast.BinaryExpr{X: id, Op: op, Y: &ast.BasicLit{Kind: token.INT, Value: "1"}}, vars)
		return id.Name, e, err
	}
	return "", "", fmt.Errorf("statement %T outside the translator's subset", st)
}

func trFunc(repo string, s spec) (string, error) {
	fi, err := load(repo, s.file)
	if err != nil {
		return "", err
	}
	for _, d := range fi.f.Decls {
		fd, ok := d.(*ast.FuncDecl)
		if !ok || fd.Name.Name != s.ident || fd.Recv != nil {
			continue
		}
		if fd.Type.Params == nil || len(fd.Type.Params.List) != 1 || len(fd.Type.Params.List[0].Names) != 1 ||
			fd.Type.Results == nil || len(fd.Type.Results.List) != 1 {
			return "", fmt.Errorf("func %s: want exactly one parameter and one result", s.ident)
		}
		if fmt.Sprint(fd.Type.Params.List[0].Type) != fmt.Sprint(fd.Type.Results.List[0].Type) {
			// both must be the same (unsigned) type; its width is checked by the obligation through the `bits` entry
			return "", fmt.Errorf("func %s: parameter and result types differ", s.ident)
		}
		param := fd.Type.Params.List[0].Names[0].Name
		vars := map[string]bool{param: true}
		var b strings.Builder
		fmt.Fprintf(&b, "Definition %s (%s : N) : N :=\n", s.coq, param)
		body := fd.Body.List
		if len(body) == 0 {
			return "", fmt.Errorf("func %s: empty body", s.ident)
		}
		for i, st := range body {
			if i == len(body)-1 {
				r, ok := st.(*ast.ReturnStmt)
				if !ok || len(r.Results) != 1 {
					return "", fmt.Errorf("func %s: the last statement must be `return e`", s.ident)
				}
				e, err := trExpr(r.Results[0], vars)
				if err != nil {
					return "", fmt.Errorf("func %s: %v", s.ident, err)
				}
				fmt.Fprintf(&b, "  %s.", e)
				break
			}
			if ifs, ok := st.(*ast.IfStmt); ok {
				if ifs.Init != nil || ifs.Else != nil {
					return "", fmt.Errorf("func %s: if with init/else outside the translator's subset", s.ident)
				}
				c, err := trCond(ifs.Cond, vars)
				if err != nil {
					return "", fmt.Errorf("func %s: %v", s.ident, err)
				}
				if len(ifs.Body.List) != 1 {
					return "", fmt.Errorf("func %s: if body must be a single assignment", s.ident)
				}
				v, e, err := trSimple(ifs.Body.List[0], vars, false)
				if err != nil {
					return "", fmt.Errorf("func %s: %v", s.ident, err)
				}
				fmt.Fprintf(&b, "  let %s := (if %s then %s else %s) in\n", v, c, e, v)
				continue
			}
			v, e, err := trSimple(st, vars, true)
			if err != nil {
				return "", fmt.Errorf("func %s: %v", s.ident, err)
			}
			fmt.Fprintf(&b, "  let %s := %s in\n", v, e)
		}
		return b.String(), nil
	}
	return "", fmt.Errorf("no top-level func %s", s.ident)
}

func typeBits(repo string, s spec) (*big.Int, error) {
	fi, err := load(repo, s.file)
	if err != nil {
		return nil, err
	}
	var res *big.Int
	ast.Inspect(fi.f, func(n ast.Node) bool {
		ts, ok := n.(*ast.TypeSpec)
		if !ok || ts.Name.Name != s.ident {
			return true
		}
		if id, ok := ts.Type.(*ast.Ident); ok {
			switch id.Name {
			case "uint", "uint64", "uintptr":
				res = big.NewInt(64)
			case "uint32":
				res = big.NewInt(32)
			case "uint16":
				res = big.NewInt(16)
			case "uint8", "byte":
				res = big.NewInt(8)
			}
		}
		return true
	})
	if res == nil {
		return nil, fmt.Errorf("type %s is not declared as an unsigned integer type", s.ident)
	}
	return res, nil
}

// whereOf: file:line of the source of a scalar spec (after its value has been computed)
func whereOf(s spec) string {
	fi, err := load(repoRoot, s.file)
	if err != nil {
		return s.file
	}
	line := 0
	switch s.kind {
	case "int", "str", "hexstr", "felt":
		if d, ok := fi.decls[s.ident]; ok {
			line = fi.line(d.pos)
		}
	case "varfield":
		vn, _, _ := strings.Cut(s.ident, ".")
		if d, ok := fi.decls[vn]; ok {
			line = fi.line(d.pos)
		}
	case "fnstr", "func":
		if fd, err := findFunc(fi, s.ident); err == nil {
			return fi.where(fd)
		}
	case "casestr":
		p := strings.Split(s.ident, ":")
		if cc, err := caseClause(fi, p[0], p[1]); err == nil {
			return fi.where(cc)
		}
	case "localbits":
		fn, vn, _ := strings.Cut(s.ident, ":")
		if _, n, err := widthOfLocal(fi, fn, vn); err == nil {
			return fi.where(n)
		}
	case "field":
		ast.Inspect(fi.f, func(n ast.Node) bool {
			if kv, ok := n.(*ast.KeyValueExpr); ok && line == 0 {
				if id, ok := kv.Key.(*ast.Ident); ok && id.Name == s.ident {
					line = fi.line(kv.Pos())
				}
			}
			return true
		})
	case "bits":
		ast.Inspect(fi.f, func(n ast.Node) bool {
			if ts, ok := n.(*ast.TypeSpec); ok && ts.Name.Name == s.ident {
				line = fi.line(ts.Pos())
			}
			return true
		})
	}
	if line == 0 {
		return s.file
	}
	return fmt.Sprintf("%s:%d", s.file, line)
}

const prelude = `
(* ---- definitions over Z (kind zfunc, enumerations, key layouts) ---- *)
Local Open Scope Z_scope.
(* two's-complement wrap of a signed type of 2^w = m values *)
Definition wrap_s (m x : Z) : Z := (x + m / 2) mod m - m / 2.
(* x[i] = v on a slice; an index out of range panics in Go (not modelled: the list is returned unchanged) *)
Fixpoint go_set_nat (l : list Z) (n : nat) (v : Z) : list Z :=
  match l, n with
  | [], _ => []
  | _ :: r, O => v :: r
  | a :: r, S n' => a :: go_set_nat r n' v
  end.
Definition go_set (l : list Z) (i v : Z) : list Z := go_set_nat l (Z.to_nat i) v.
(* the slice dst after copy(dst, src): min(len dst, len src) elements are overwritten *)
Definition go_copy (dst src : list Z) : list Z :=
  let n := Nat.min (List.length dst) (List.length src) in List.firstn n src ++ List.skipn n dst.
(* a decision procedure for "pairwise different", for the obligations about enumerations *)
Fixpoint z_nodupb (l : list Z) : bool :=
  match l with [] => true | x :: r => negb (existsb (Z.eqb x) r) && z_nodupb r end.
Lemma z_nodupb_sound : forall l, z_nodupb l = true -> NoDup l.
Proof.
  induction l as [|x r IH]; intro H; [constructor|]. cbn in H. apply andb_prop in H. destruct H as [H1 H2].
  constructor; [|exact (IH H2)]. intro Hin. apply negb_true_iff in H1.
  assert (existsb (Z.eqb x) r = true) by (apply existsb_exists; exists x; split; [exact Hin|apply Z.eqb_refl]).
  congruence.
Qed.

`

func fail(b *strings.Builder, failed *int, coq, ident, file string, err error) {
	// keep the file compilable but make every obligation that mentions the name fail with a readable message
	fmt.Fprintf(b, "(* TRANSLATOR ERROR %s (%s in %s): %s *)\n", coq, ident, file, strings.ReplaceAll(err.Error(), "*)", "* )"))
	fmt.Fprintf(os.Stderr, "genconsts: %s (%s in %s): %v\n", coq, ident, file, err)
	*failed++
}

func main() {
	if len(os.Args) != 3 {
		fmt.Fprintln(os.Stderr, "usage: genconsts <repo> <out.v>")
		os.Exit(2)
	}
	repo, out := os.Args[1], os.Args[2]
	repoRoot = repo
	var b strings.Builder
	b.WriteString("(* GENERATED by harness/cmd/genconsts from the Go sources of the repository under verification on every run.\n")
	b.WriteString("   Do not edit. One definition per source constant / function the Coq models depend on; the obligations\n")
	b.WriteString("   coq/obligations/Cxx_consts.v equate the models' hand-written definitions with these. *)\n")
	b.WriteString("From Coq Require Import ZArith NArith Bool List.\nImport ListNotations.\nLocal Open Scope N_scope.\n\n")
	all := append(append([]spec{}, specs...), specs2...)
	sorted := append([]spec{}, all...)
	sort.SliceStable(sorted, func(i, j int) bool { return sorted[i].coq < sorted[j].coq })
	failed := 0
	isList := map[string]bool{"enum": true, "caselits": true, "feltlist": true, "keylayout": true}
	for _, s := range sorted { // 1. scalar constants
		if s.kind == "func" || isList[s.kind] {
			continue
		}
		var v *big.Int
		var str string
		var err error
		if s.kind == "bits" {
			v, err = typeBits(repo, s)
		} else {
			v, str, err = value(repo, s)
		}
		if err != nil {
			fail(&b, &failed, s.coq, s.ident, s.file, err)
			continue
		}
		note := fmt.Sprintf("%s %s in %s", whereOf(s), s.ident, s.file)
		if str != "" {
			note += fmt.Sprintf(", bytes of %q", str)
		}
		if v.Sign() < 0 {
			fmt.Fprintf(&b, "Definition %s : Z := (%s)%%Z.  (* %s *)\n", s.coq, v.String(), note)
		} else {
			fmt.Fprintf(&b, "Definition %s : Z := %s%%Z.  (* %s *)\n", s.coq, v.String(), note)
		}
	}
	for _, s := range sorted { // 2. functions N -> N (kind func)
		if s.kind != "func" {
			continue
		}
		def, err := trFunc(repo, s)
		if err != nil {
			fail(&b, &failed, s.coq, s.ident, s.file, err)
			continue
		}
		fmt.Fprintf(&b, "(* %s func %s in %s, unsigned 64-bit arithmetic written out *)\n%s\n", whereOf(s), s.ident, s.file, def)
	}
	b.WriteString(prelude)
	for _, s := range sorted { // 3. lists
		if !isList[s.kind] {
			continue
		}
		def, err := listDef(s)
		if err != nil {
			fail(&b, &failed, s.coq, s.ident, s.file, err)
			continue
		}
		b.WriteString(def)
	}
	b.WriteString("\n")
	zs := append([]zspec{}, zspecs...)
	sort.SliceStable(zs, func(i, j int) bool { return zs[i].coq < zs[j].coq })
	for _, s := range zs { // 4. functions over Z
		def, err := trZfunc(s)
		if err != nil {
			fail(&b, &failed, s.coq, s.ident+" "+s.sel, s.file, err)
			continue
		}
		b.WriteString(def)
		b.WriteString("\n")
	}
	if err := os.WriteFile(out, []byte(b.String()), 0o644); err != nil {
		fmt.Fprintln(os.Stderr, err)
		os.Exit(2)
	}
	if failed > 0 {
		os.Exit(3)
	}
}

// listDef: the list-valued kinds
func listDef(s spec) (string, error) {
	fi, err := load(repoRoot, s.file)
	if err != nil {
		return "", err
	}
	switch s.kind {
	case "enum":
		names, vals, where, err := enumValues(fi, s.ident)
		if err != nil {
			return "", err
		}
		return fmt.Sprintf("(* %s  every constant of type %s, in source order: %s *)\nDefinition %s : list Z := %s.\n",
			where, s.ident, strings.Join(names, " "), s.coq, zlist(vals)), nil
	case "caselits": // Func:K  the integer literals of the K-th case clause (source order) of Func that has any
		fn, ks, ok := strings.Cut(s.ident, ":")
		if !ok {
			return "", fmt.Errorf("want Func:K")
		}
		k, err := atoi(ks)
		if err != nil {
			return "", err
		}
		fd, err := findFunc(fi, fn)
		if err != nil {
			return "", err
		}
		var ccs []*ast.CaseClause
		ast.Inspect(fd.Body, func(n ast.Node) bool {
			if cc, ok := n.(*ast.CaseClause); ok && len(cc.List) > 0 {
				ccs = append(ccs, cc)
			}
			return true
		})
		cc, err := pick(ccs, k, "case clauses")
		if err != nil {
			return "", err
		}
		var vals []*big.Int
		for _, e := range cc.List {
			v, err := evalInt(fi, e, 0)
			if err != nil {
				return "", err
			}
			vals = append(vals, v)
		}
		return fmt.Sprintf("(* %s  labels of case clause %d of func %s *)\nDefinition %s : list Z := %s.\n", fi.where(cc), k, fn, s.coq, zlist(vals)), nil
	case "feltlist":
		init, ok := fi.vals[s.ident]
		if !ok {
			return "", fmt.Errorf("no package-level var %s with an initialiser", s.ident)
		}
		cl, ok := init.(*ast.CompositeLit)
		if !ok {
			return "", fmt.Errorf("initialiser of %s is not a composite literal", s.ident)
		}
		var vals []*big.Int
		for _, e := range cl.Elts {
			v, err := feltExpr(fi, e, 0)
			if err != nil {
				return "", err
			}
			vals = append(vals, v)
		}
		return fmt.Sprintf("(* %s  %s *)\nDefinition %s : list Z := %s.\n", fi.where(cl), s.ident, s.coq, zlist(vals)), nil
	case "keylayout":
		bv, parts, node, err := keyLayout(fi, s.ident)
		if err != nil {
			return "", err
		}
		var p []string
		for _, x := range parts {
			p = append(p, fmt.Sprintf("(%d, %d)", x[0], x[1]))
		}
		return fmt.Sprintf("(* %s  key layout of func %s: (bucket byte, parts); part = (kind, parameter index), kind 0 = raw bytes, 1 = felt.Marshal (32 bytes big endian), 2 = uint64 big endian (8 bytes) *)\nDefinition %s : Z * list (Z * Z) := (%s, [%s]).\n",
			fi.where(node), s.ident, s.coq, bv.String(), strings.Join(p, "; ")), nil
	}
	return "", fmt.Errorf("unknown kind %s", s.kind)
}
