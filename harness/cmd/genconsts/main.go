// genconsts: the constants translator. Reads Go source files of the repository under verification with
// go/parser (no build, no imports resolved) and regenerates a Coq file with one Definition per constant
// the models depend on. The per-property obligation files coq/obligations/Cxx_consts.v state, by
// reflexivity, that the constant written in the hand-made model equals the regenerated one, so a change
// of the constant in the source breaks a proof obligation on the next run.
//
// Subset understood (anything else is an error, reported as a broken obligation, never skipped):
//
//	int    const/var NAME [T] = <expr>   with <expr> ::= integer literal | NAME' (same file set) | T(<expr>)
//	                                       | (<expr>) | <expr> (+|-|*|/|%|<<|>>) <expr>
//	str    var NAME = <any expression containing exactly one string literal>  ->  big-endian integer of its bytes
//	                   (new(felt.Felt).SetBytes([]byte("invoke")), felt.NewFromBytes[felt.Felt]([]byte(`X`)), ...)
//	fnstr  the only string literal inside the body of func/method NAME  ->  big-endian integer of its bytes
//	field  the integer value of the key NAME in a composite literal of the file (cbor.DecOptions{MaxArrayElements: n})
//	bits   type NAME <unsigned integer type>  ->  its width in bits on the 64-bit targets juno supports (uint = 64)
//	func   func NAME(p T) T { straight-line unsigned arithmetic }  ->  a Gallina function N -> N with the uint64
//	       wrap-around written out: statements `x := e`, `x = e`, `x++`, `x--`, `if cond { such statements }`
//	       (no else, no return inside), a final `return e`; e ::= literal | variable | (e) | e (+|-|*|/|%) e with a
//	       non-zero literal divisor; cond ::= e (<|<=|>|>=|==|!=) e
//
// usage: genconsts <repo> <out.v>
package main

import (
	"fmt"
	"go/ast"
	"go/parser"
	"go/token"
	"math/big"
	"os"
	"path/filepath"
	"sort"
	"strconv"
	"strings"
)

type spec struct {
	coq   string // name of the Coq definition
	file  string // path relative to the repository root
	ident string
	kind  string // int | str | field
}

var specs = []spec{
	{"core_NumBlocksPerFilter", "core/aggregated_bloom_filter.go", "NumBlocksPerFilter", "int"},
	{"core_BlockHashLag", "core/block.go", "BlockHashLag", "int"},
	{"core_commitmentTrieHeight", "core/transaction.go", "commitmentTrieHeight", "int"},
	{"deprecatedstate_globalTrieHeight", "core/deprecatedstate/state.go", "globalTrieHeight", "int"},
	{"deprecatedstate_ContractStorageTrieHeight", "core/deprecatedstate/contract.go", "ContractStorageTrieHeight", "int"},
	{"trie2_contractClassTrieHeight", "core/trie2/trie.go", "contractClassTrieHeight", "int"},
	{"walstore_cleanupPruneRecordInterval", "consensus/walstore/wal_store.go", "cleanupPruneRecordInterval", "int"},
	{"migration_maxMigrations", "migration/registry.go", "maxMigrations", "int"},
	{"blocktransactions_batchSize", "migration/blocktransactions/blocktransactions.go", "batchSize", "int"},
	{"jsonrpc_bufferSize", "jsonrpc/server.go", "bufferSize", "int"},
	{"encoder_MaxArrayElements", "encoder/encoder.go", "MaxArrayElements", "field"},
	{"encoder_MaxMapPairs", "encoder/encoder.go", "MaxMapPairs", "field"},
	{"core_invokeFelt", "core/transaction.go", "invokeFelt", "str"},
	{"core_declareFelt", "core/transaction.go", "declareFelt", "str"},
	{"core_l1HandlerFelt", "core/transaction.go", "l1HandlerFelt", "str"},
	{"core_deployAccountFelt", "core/transaction.go", "deployAccountFelt", "str"},
	{"core_starknetBlockHash0", "core/block.go", "starknetBlockHash0", "str"},
	{"core_starknetBlockHash1", "core/block.go", "starknetBlockHash1", "str"},
	{"core_starknetGasPrices0", "core/block.go", "starknetGasPrices0", "str"},
	{"core_starknetStateDiff0", "core/state_update.go", "starknetStateDiff0", "str"},
	{"deprecatedstate_stateVersion", "core/deprecatedstate/state.go", "stateVersion", "str"},
	{"deprecatedstate_leafVersion", "core/deprecatedstate/state.go", "leafVersion", "str"},
	{"state_stateVersion0", "core/state/state.go", "stateVersion0", "str"},
	{"state_leafVersion0", "core/state/state.go", "leafVersion0", "str"},
	{"core_contractClassVersionPrefix", "core/class.go", "SierraClass.Hash", "fnstr"},
	{"types_VotingPower_bits", "consensus/types/state.go", "VotingPower", "bits"},
	{"votecounter_f", "consensus/votecounter/vote_counter.go", "f", "func"},
	{"votecounter_q", "consensus/votecounter/vote_counter.go", "q", "func"},
}

type fileInfo struct {
	f    *ast.File
	vals map[string]ast.Expr // NAME -> initialiser of package-level const/var declarations
	iota map[string]int
}

var files = map[string]*fileInfo{}

func load(repo, rel string) (*fileInfo, error) {
	if fi, ok := files[rel]; ok {
		return fi, nil
	}
	fset := token.NewFileSet()
	f, err := parser.ParseFile(fset, filepath.Join(repo, rel), nil, 0)
	if err != nil {
		return nil, err
	}
	fi := &fileInfo{f: f, vals: map[string]ast.Expr{}, iota: map[string]int{}}
	for _, d := range f.Decls {
		gd, ok := d.(*ast.GenDecl)
		if !ok || (gd.Tok != token.CONST && gd.Tok != token.VAR) {
			continue
		}
		for i, s := range gd.Specs {
			vs := s.(*ast.ValueSpec)
			for k, n := range vs.Names {
				if k < len(vs.Values) {
					fi.vals[n.Name] = vs.Values[k]
					fi.iota[n.Name] = i
				}
			}
		}
	}
	files[rel] = fi
	return fi, nil
}

func evalInt(fi *fileInfo, e ast.Expr, depth int) (*big.Int, error) {
	if depth > 20 {
		return nil, fmt.Errorf("constant expression too deep")
	}
	switch x := e.(type) {
	case *ast.BasicLit:
		if x.Kind != token.INT {
			return nil, fmt.Errorf("literal %s is not an integer", x.Value)
		}
		v, ok := new(big.Int).SetString(strings.ReplaceAll(x.Value, "_", ""), 0)
		if !ok {
			return nil, fmt.Errorf("cannot read integer literal %s", x.Value)
		}
		return v, nil
	case *ast.ParenExpr:
		return evalInt(fi, x.X, depth+1)
	case *ast.Ident:
		if init, ok := fi.vals[x.Name]; ok {
			return evalInt(fi, init, depth+1)
		}
		return nil, fmt.Errorf("identifier %s is not a constant of the same file", x.Name)
	case *ast.CallExpr: // conversion T(expr) with a builtin integer type
		if id, ok := x.Fun.(*ast.Ident); ok && len(x.Args) == 1 {
			switch id.Name {
			case "uint64", "int", "uint", "int64", "uint32", "int32", "uint8", "uint16":
				return evalInt(fi, x.Args[0], depth+1)
			}
		}
		return nil, fmt.Errorf("call expression outside the translator's subset")
	case *ast.BinaryExpr:
		a, err := evalInt(fi, x.X, depth+1)
		if err != nil {
			return nil, err
		}
		b, err := evalInt(fi, x.Y, depth+1)
		if err != nil {
			return nil, err
		}
		r := new(big.Int)
		switch x.Op {
		case token.ADD:
			return r.Add(a, b), nil
		case token.SUB:
			return r.Sub(a, b), nil
		case token.MUL:
			return r.Mul(a, b), nil
		case token.QUO:
			if b.Sign() == 0 {
				return nil, fmt.Errorf("division by zero")
			}
			return r.Quo(a, b), nil
		case token.REM:
			if b.Sign() == 0 {
				return nil, fmt.Errorf("division by zero")
			}
			return r.Rem(a, b), nil
		case token.SHL:
			return r.Lsh(a, uint(b.Uint64())), nil
		case token.SHR:
			return r.Rsh(a, uint(b.Uint64())), nil
		}
		return nil, fmt.Errorf("operator %s outside the translator's subset", x.Op)
	}
	return nil, fmt.Errorf("expression %T outside the translator's subset", e)
}

func stringLits(e ast.Node) []string {
	var out []string
	ast.Inspect(e, func(n ast.Node) bool {
		if bl, ok := n.(*ast.BasicLit); ok && bl.Kind == token.STRING {
			if s, err := strconv.Unquote(bl.Value); err == nil {
				out = append(out, s)
			}
		}
		return true
	})
	return out
}

func value(repo string, s spec) (*big.Int, string, error) {
	fi, err := load(repo, s.file)
	if err != nil {
		return nil, "", err
	}
	switch s.kind {
	case "int":
		init, ok := fi.vals[s.ident]
		if !ok {
			return nil, "", fmt.Errorf("no package-level const/var %s with an initialiser", s.ident)
		}
		v, err := evalInt(fi, init, 0)
		return v, "", err
	case "str":
		init, ok := fi.vals[s.ident]
		if !ok {
			return nil, "", fmt.Errorf("no package-level var %s with an initialiser", s.ident)
		}
		ls := stringLits(init)
		if len(ls) != 1 {
			return nil, "", fmt.Errorf("initialiser of %s holds %d string literals, want exactly 1", s.ident, len(ls))
		}
		return new(big.Int).SetBytes([]byte(ls[0])), ls[0], nil
	case "fnstr":
		recv, name, _ := strings.Cut(s.ident, ".")
		if name == "" {
			recv, name = "", recv
		}
		for _, d := range fi.f.Decls {
			fd, ok := d.(*ast.FuncDecl)
			if !ok || fd.Name.Name != name || fd.Body == nil {
				continue
			}
			if recv != "" {
				if fd.Recv == nil || len(fd.Recv.List) != 1 {
					continue
				}
				t := fd.Recv.List[0].Type
				if st, ok := t.(*ast.StarExpr); ok {
					t = st.X
				}
				if id, ok := t.(*ast.Ident); !ok || id.Name != recv {
					continue
				}
			} else if fd.Recv != nil {
				continue
			}
			ls := stringLits(fd.Body)
			if len(ls) != 1 {
				return nil, "", fmt.Errorf("body of %s holds %d string literals, want exactly 1", s.ident, len(ls))
			}
			return new(big.Int).SetBytes([]byte(ls[0])), ls[0], nil
		}
		return nil, "", fmt.Errorf("no func %s", s.ident)
	case "field":
		var found []*big.Int
		var ferr error
		ast.Inspect(fi.f, func(n ast.Node) bool {
			kv, ok := n.(*ast.KeyValueExpr)
			if !ok {
				return true
			}
			if id, ok := kv.Key.(*ast.Ident); ok && id.Name == s.ident {
				v, err := evalInt(fi, kv.Value, 0)
				if err != nil {
					ferr = err
				} else {
					found = append(found, v)
				}
			}
			return true
		})
		if ferr != nil {
			return nil, "", ferr
		}
		if len(found) == 0 {
			return nil, "", fmt.Errorf("no composite-literal key %s", s.ident)
		}
		for _, v := range found[1:] {
			if v.Cmp(found[0]) != 0 {
				return nil, "", fmt.Errorf("key %s has different values in the file", s.ident)
			}
		}
		return found[0], "", nil
	}
	return nil, "", fmt.Errorf("unknown kind %s", s.kind)
}


// ---------- function translator (kind "func") ----------
const w64 = "18446744073709551616"

func trExpr(e ast.Expr, vars map[string]bool) (string, error) {
	switch x := e.(type) {
	case *ast.BasicLit:
		if x.Kind != token.INT {
			return "", fmt.Errorf("literal %s is not an integer", x.Value)
		}
		v, ok := new(big.Int).SetString(strings.ReplaceAll(x.Value, "_", ""), 0)
		if !ok || v.Sign() < 0 {
			return "", fmt.Errorf("cannot read integer literal %s", x.Value)
		}
		return v.String(), nil
	case *ast.Ident:
		if !vars[x.Name] {
			return "", fmt.Errorf("identifier %s is neither the parameter nor a local variable", x.Name)
		}
		return x.Name, nil
	case *ast.ParenExpr:
		return trExpr(x.X, vars)
	case *ast.BinaryExpr:
		a, err := trExpr(x.X, vars)
		if err != nil {
			return "", err
		}
		b, err := trExpr(x.Y, vars)
		if err != nil {
			return "", err
		}
		switch x.Op {
		case token.ADD:
			return fmt.Sprintf("((%s + %s) mod %s)", a, b, w64), nil
		case token.SUB:
			return fmt.Sprintf("((%s + %s - %s) mod %s)", a, w64, b, w64), nil
		case token.MUL:
			return fmt.Sprintf("((%s * %s) mod %s)", a, b, w64), nil
		case token.QUO, token.REM:
			if lit, ok := x.Y.(*ast.BasicLit); !ok || lit.Kind != token.INT || b == "0" {
				return "", fmt.Errorf("divisor must be a non-zero integer literal")
			}
			if x.Op == token.QUO {
				return fmt.Sprintf("(%s / %s)", a, b), nil
			}
			return fmt.Sprintf("(%s mod %s)", a, b), nil
		}
		return "", fmt.Errorf("operator %s outside the translator's subset", x.Op)
	}
	return "", fmt.Errorf("expression %T outside the translator's subset", e)
}

func trCond(e ast.Expr, vars map[string]bool) (string, error) {
	if p, ok := e.(*ast.ParenExpr); ok {
		return trCond(p.X, vars)
	}
	b, ok := e.(*ast.BinaryExpr)
	if !ok {
		return "", fmt.Errorf("condition %T outside the translator's subset", e)
	}
	x, err := trExpr(b.X, vars)
	if err != nil {
		return "", err
	}
	y, err := trExpr(b.Y, vars)
	if err != nil {
		return "", err
	}
	switch b.Op {
	case token.LSS:
		return fmt.Sprintf("(%s <? %s)", x, y), nil
	case token.GTR:
		return fmt.Sprintf("(%s <? %s)", y, x), nil
	case token.LEQ:
		return fmt.Sprintf("(%s <=? %s)", x, y), nil
	case token.GEQ:
		return fmt.Sprintf("(%s <=? %s)", y, x), nil
	case token.EQL:
		return fmt.Sprintf("(%s =? %s)", x, y), nil
	case token.NEQ:
		return fmt.Sprintf("(negb (%s =? %s))", x, y), nil
	}
	return "", fmt.Errorf("comparison %s outside the translator's subset", b.Op)
}

// trSimple translates one assignment-like statement into (variable, expression)
func trSimple(st ast.Stmt, vars map[string]bool, allowDefine bool) (string, string, error) {
	switch x := st.(type) {
	case *ast.AssignStmt:
		if len(x.Lhs) != 1 || len(x.Rhs) != 1 {
			return "", "", fmt.Errorf("multiple assignment outside the translator's subset")
		}
		id, ok := x.Lhs[0].(*ast.Ident)
		if !ok {
			return "", "", fmt.Errorf("assignment target outside the translator's subset")
		}
		if x.Tok == token.DEFINE && !allowDefine {
			return "", "", fmt.Errorf("variable definition inside a branch is outside the translator's subset")
		}
		var rhs ast.Expr = x.Rhs[0]
		switch x.Tok {
		case token.DEFINE, token.ASSIGN:
		case token.ADD_ASSIGN:
			rhs = &ast.BinaryExpr{X: id, Op: token.ADD, Y: x.Rhs[0]}
		case token.SUB_ASSIGN:
			rhs = &ast.BinaryExpr{X: id, Op: token.SUB, Y: x.Rhs[0]}
		case token.MUL_ASSIGN:
			rhs = &ast.BinaryExpr{X: id, Op: token.MUL, Y: x.Rhs[0]}
		default:
			return "", "", fmt.Errorf("assignment operator %s outside the translator's subset", x.Tok)
		}
		if x.Tok != token.DEFINE && !vars[id.Name] {
			return "", "", fmt.Errorf("assignment to unknown variable %s", id.Name)
		}
		e, err := trExpr(rhs, vars)
		if err != nil {
			return "", "", err
		}
		vars[id.Name] = true
		return id.Name, e, nil
	case *ast.IncDecStmt:
		id, ok := x.X.(*ast.Ident)
		if !ok || !vars[id.Name] {
			return "", "", fmt.Errorf("++/-- target outside the translator's subset")
		}
		op := token.ADD
		if x.Tok == token.DEC {
			op = token.SUB
		}
		e, err := trExpr(&ast.BinaryExpr{X: id, Op: op, Y: &ast.BasicLit{Kind: token.INT, Value: "1"}}, vars)
		return id.Name, e, err
	}
	return "", "", fmt.Errorf("statement %T outside the translator's subset", st)
}

func trFunc(repo string, s spec) (string, error) {
	fi, err := load(repo, s.file)
	if err != nil {
		return "", err
	}
	for _, d := range fi.f.Decls {
		fd, ok := d.(*ast.FuncDecl)
		if !ok || fd.Name.Name != s.ident || fd.Recv != nil {
			continue
		}
		if fd.Type.Params == nil || len(fd.Type.Params.List) != 1 || len(fd.Type.Params.List[0].Names) != 1 ||
			fd.Type.Results == nil || len(fd.Type.Results.List) != 1 {
			return "", fmt.Errorf("func %s: want exactly one parameter and one result", s.ident)
		}
		if fmt.Sprint(fd.Type.Params.List[0].Type) != fmt.Sprint(fd.Type.Results.List[0].Type) {
			// both must be the same (unsigned) type; its width is checked by the obligation through the `bits` entry
			return "", fmt.Errorf("func %s: parameter and result types differ", s.ident)
		}
		param := fd.Type.Params.List[0].Names[0].Name
		vars := map[string]bool{param: true}
		var b strings.Builder
		fmt.Fprintf(&b, "Definition %s (%s : N) : N :=\n", s.coq, param)
		body := fd.Body.List
		if len(body) == 0 {
			return "", fmt.Errorf("func %s: empty body", s.ident)
		}
		for i, st := range body {
			if i == len(body)-1 {
				r, ok := st.(*ast.ReturnStmt)
				if !ok || len(r.Results) != 1 {
					return "", fmt.Errorf("func %s: the last statement must be `return e`", s.ident)
				}
				e, err := trExpr(r.Results[0], vars)
				if err != nil {
					return "", fmt.Errorf("func %s: %v", s.ident, err)
				}
				fmt.Fprintf(&b, "  %s.", e)
				break
			}
			if ifs, ok := st.(*ast.IfStmt); ok {
				if ifs.Init != nil || ifs.Else != nil {
					return "", fmt.Errorf("func %s: if with init/else outside the translator's subset", s.ident)
				}
				c, err := trCond(ifs.Cond, vars)
				if err != nil {
					return "", fmt.Errorf("func %s: %v", s.ident, err)
				}
				if len(ifs.Body.List) != 1 {
					return "", fmt.Errorf("func %s: if body must be a single assignment", s.ident)
				}
				v, e, err := trSimple(ifs.Body.List[0], vars, false)
				if err != nil {
					return "", fmt.Errorf("func %s: %v", s.ident, err)
				}
				fmt.Fprintf(&b, "  let %s := (if %s then %s else %s) in\n", v, c, e, v)
				continue
			}
			v, e, err := trSimple(st, vars, true)
			if err != nil {
				return "", fmt.Errorf("func %s: %v", s.ident, err)
			}
			fmt.Fprintf(&b, "  let %s := %s in\n", v, e)
		}
		return b.String(), nil
	}
	return "", fmt.Errorf("no top-level func %s", s.ident)
}

func typeBits(repo string, s spec) (*big.Int, error) {
	fi, err := load(repo, s.file)
	if err != nil {
		return nil, err
	}
	var res *big.Int
	ast.Inspect(fi.f, func(n ast.Node) bool {
		ts, ok := n.(*ast.TypeSpec)
		if !ok || ts.Name.Name != s.ident {
			return true
		}
		if id, ok := ts.Type.(*ast.Ident); ok {
			switch id.Name {
			case "uint", "uint64", "uintptr":
				res = big.NewInt(64)
			case "uint32":
				res = big.NewInt(32)
			case "uint16":
				res = big.NewInt(16)
			case "uint8", "byte":
				res = big.NewInt(8)
			}
		}
		return true
	})
	if res == nil {
		return nil, fmt.Errorf("type %s is not declared as an unsigned integer type", s.ident)
	}
	return res, nil
}

func main() {
	if len(os.Args) != 3 {
		fmt.Fprintln(os.Stderr, "usage: genconsts <repo> <out.v>")
		os.Exit(2)
	}
	repo, out := os.Args[1], os.Args[2]
	var b strings.Builder
	b.WriteString("(* GENERATED by harness/cmd/genconsts from the Go sources of the repository under verification on every run.\n")
	b.WriteString("   Do not edit. One definition per source constant the Coq models depend on; the obligations\n")
	b.WriteString("   coq/obligations/Cxx_consts.v equate the models' hand-written constants with these. *)\n")
	b.WriteString("From Coq Require Import ZArith NArith Bool.\nLocal Open Scope N_scope.\n\n")
	sorted := append([]spec{}, specs...)
	sort.SliceStable(sorted, func(i, j int) bool { return sorted[i].coq < sorted[j].coq })
	failed := 0
	for _, s := range sorted {
		if s.kind == "func" {
			def, err := trFunc(repo, s)
			if err != nil {
				fmt.Fprintf(&b, "(* TRANSLATOR ERROR %s (%s in %s): %s *)\n", s.coq, s.ident, s.file, err)
				fmt.Fprintf(os.Stderr, "genconsts: %s (%s in %s): %v\n", s.coq, s.ident, s.file, err)
				failed++
				continue
			}
			fmt.Fprintf(&b, "(* func %s in %s, unsigned 64-bit arithmetic written out *)\n%s\n", s.ident, s.file, def)
			continue
		}
		var v *big.Int
		var str string
		var err error
		if s.kind == "bits" {
			v, err = typeBits(repo, s)
		} else {
			v, str, err = value(repo, s)
		}
		if err != nil {
			// keep the file compilable but make every obligation that mentions the name fail with a readable message
			fmt.Fprintf(&b, "(* TRANSLATOR ERROR %s (%s in %s): %s *)\n", s.coq, s.ident, s.file, err)
			fmt.Fprintf(os.Stderr, "genconsts: %s (%s in %s): %v\n", s.coq, s.ident, s.file, err)
			failed++
			continue
		}
		note := fmt.Sprintf("%s in %s", s.ident, s.file)
		if str != "" {
			note += fmt.Sprintf(", bytes of %q", str)
		}
		fmt.Fprintf(&b, "Definition %s : Z := %s%%Z.  (* %s *)\n", s.coq, v.String(), note)
	}
	if err := os.WriteFile(out, []byte(b.String()), 0o644); err != nil {
		fmt.Fprintln(os.Stderr, err)
		os.Exit(2)
	}
	if failed > 0 {
		os.Exit(3)
	}
}
