// sel.go: selection of the code a "zfunc" spec names, and the driver that emits its Gallina definition.
// After editing this file `touch main.go`.
package main

import (
	"fmt"
	"go/ast"
	"go/token"
	"sort"
	"strconv"
	"strings"
)

type zspec struct {
	coq, file, ident, sel string
	free                  []string          // "go expression:type[:coq name]"
	ext                   map[string]string // "pkg.Name" -> "file:Name"
	types                 map[string]string // Go type text -> u8 | .. | i64 (named types the translator cannot resolve)
}

func inspectNoLit(n ast.Node, f func(ast.Node) bool) {
	ast.Inspect(n, func(x ast.Node) bool {
		if _, ok := x.(*ast.FuncLit); ok {
			return false
		}
		return f(x)
	})
}

// assignsVar: does this (single) statement assign / define / inc / dec the plain variable name?
func assignsVar(st ast.Stmt, name string) bool {
	is := func(e ast.Expr) bool {
		switch e.(type) {
		case *ast.Ident, *ast.SelectorExpr:
			return exprString(e) == name
		}
		return false
	}
	switch x := st.(type) {
	case *ast.AssignStmt:
		for _, l := range x.Lhs {
			if is(l) {
				return true
			}
		}
	case *ast.IncDecStmt:
		if is(x.X) {
			return true
		}
	case *ast.DeclStmt:
		if gd, ok := x.Decl.(*ast.GenDecl); ok && gd.Tok == token.VAR {
			for _, s := range gd.Specs {
				for _, n := range s.(*ast.ValueSpec).Names {
					if n.Name == name {
						return true
					}
				}
			}
		}
	}
	return false
}

func declaresVar(st ast.Stmt, name string) bool {
	switch x := st.(type) {
	case *ast.AssignStmt:
		return x.Tok == token.DEFINE && assignsVar(st, name)
	case *ast.DeclStmt:
		return assignsVar(st, name)
	}
	return false
}

func allStmtLists(body *ast.BlockStmt) [][]ast.Stmt {
	var out [][]ast.Stmt
	inspectNoLit(body, func(n ast.Node) bool {
		switch x := n.(type) {
		case *ast.BlockStmt:
			out = append(out, x.List)
		case *ast.CaseClause:
			out = append(out, x.Body)
		case *ast.CommClause:
			out = append(out, x.Body)
		}
		return true
	})
	return out
}

func allAssigning(body *ast.BlockStmt, name string) []ast.Stmt {
	var out []ast.Stmt
	inspectNoLit(body, func(n ast.Node) bool {
		if st, ok := n.(ast.Stmt); ok && assignsVar(st, name) {
			out = append(out, st)
		}
		return true
	})
	return out
}

func atoi(s string) (int, error) { return strconv.Atoi(s) }

func pick[T any](l []T, k int, what string) (T, error) {
	var zero T
	if k < 0 {
		k += len(l)
	}
	if k < 0 || k >= len(l) {
		return zero, fmt.Errorf("%s: index out of range (there are %d)", what, len(l))
	}
	return l[k], nil
}

func trZfunc(zs zspec) (string, error) {
	fi, err := load(repoRoot, zs.file)
	if err != nil {
		return "", err
	}
	fd, err := findFunc(fi, zs.ident)
	if err != nil {
		return "", err
	}
	sp := &spec{coq: zs.coq, file: zs.file, ident: zs.ident, kind: "zfunc", ext: map[string]extConst{}}
	for k, v := range zs.ext {
		f, id, ok := strings.Cut(v, ":")
		if !ok {
			return "", fmt.Errorf("bad external constant %s", v)
		}
		sp.ext[k] = extConst{f, id}
	}
	z := &ztr{fi: fi, sp: sp, free: map[string]*freeVar{}, used: map[string]bool{}, lconst: map[string]zexpr{},
		panics: map[string]bool{}, overr: zs.types}
	var freeOrder []*freeVar
	names := map[string]bool{}
	for _, f := range zs.free {
		parts := strings.Split(f, ":")
		if len(parts) < 2 {
			return "", fmt.Errorf("bad free expression %q", f)
		}
		t, err := parseTypeName(parts[1])
		if err != nil {
			return "", err
		}
		fv := &freeVar{expr: parts[0], typ: parts[1], t: t, name: coqName(parts[0])}
		if len(parts) > 2 {
			fv.name = coqName(parts[2])
		}
		if names[fv.name] {
			return "", fmt.Errorf("two free expressions are called %s", fv.name)
		}
		names[fv.name] = true
		z.free[fv.expr] = fv
		freeOrder = append(freeOrder, fv)
	}
	en := &env{vars: map[string]*gtype{}}
	for _, fv := range freeOrder { // a free plain identifier is a variable of the selected code from the start
		if token.IsIdentifier(fv.expr) {
			if fv.name != coqName(fv.expr) {
				return "", fmt.Errorf("the free identifier %s cannot be renamed", fv.expr)
			}
			en.add(fv.expr, fv.t)
		}
	}
	var coqParams []string
	for _, fv := range freeOrder {
		coqParams = append(coqParams, fmt.Sprintf("(%s : %s)", fv.name, fv.t.coq()))
	}
	// a free plain identifier that the function declares with an explicit type (parameter, `var x T`) must be
	// declared with that very type in the table
	declared := map[string]ast.Expr{}
	for _, p := range fd.Type.Params.List {
		for _, n := range p.Names {
			declared[n.Name] = p.Type
		}
	}
	inspectNoLit(fd.Body, func(n ast.Node) bool {
		if ds, ok := n.(*ast.DeclStmt); ok {
			if gd, ok := ds.Decl.(*ast.GenDecl); ok && gd.Tok == token.VAR {
				for _, sp := range gd.Specs {
					vs := sp.(*ast.ValueSpec)
					if vs.Type != nil {
						for _, nm := range vs.Names {
							declared[nm.Name] = vs.Type
						}
					}
				}
			}
		}
		return true
	})
	for _, fv := range freeOrder {
		if te, ok := declared[fv.expr]; ok {
			if t, err := z.goType(te); err == nil && !sameType(t, fv.t) {
				return "", fmt.Errorf("the free identifier %s is declared %s in the source, the table says %s", fv.expr, exprString(te), fv.typ)
			}
		}
	}
	selParts := strings.Split(zs.sel, ":")
	var body string
	var resT []*gtype
	var node ast.Node
	exprSel := func(e ast.Expr, hint *gtype) error {
		node = e
		v, err := z.expr(e, en, hint)
		if err != nil {
			return err
		}
		if v.t.kind == 'u' {
			return fmt.Errorf("the selected expression %s is a constant; use kind int", exprString(e))
		}
		body, resT = v.s, []*gtype{v.t}
		return nil
	}
	switch selParts[0] {
	case "body":
		node = fd
		for _, p := range fd.Type.Params.List {
			t, err := z.goType(p.Type)
			if err != nil {
				continue // a parameter of a type outside the subset: any use of it is an error below
			}
			for _, n := range p.Names {
				if names[coqName(n.Name)] {
					return "", fmt.Errorf("parameter %s clashes with a free expression", n.Name)
				}
				en.add(n.Name, t)
				coqParams = append(coqParams, fmt.Sprintf("(%s : %s)", coqName(n.Name), t.coq()))
			}
		}
		if fd.Type.Results == nil {
			return "", fmt.Errorf("func %s has no result", zs.ident)
		}
		for _, r := range fd.Type.Results.List {
			t, err := z.goType(r.Type)
			if err != nil {
				return "", err
			}
			n := len(r.Names)
			if n == 0 {
				n = 1
			}
			for i := 0; i < n; i++ {
				resT = append(resT, t)
			}
			if len(r.Names) > 0 {
				return "", fmt.Errorf("named results are outside the translator's subset")
			}
		}
		z.res = resT
		z.resCoq = coqTypeOf(resT)
		body, err = z.stmts(fd.Body.List, en, func(e *env) (string, error) {
			return "", fmt.Errorf("control reaches the end of the function without a return")
		}, nil)
		if err != nil {
			return "", err
		}
	case "frag":
		if len(selParts) != 4 {
			return "", fmt.Errorf("bad selector %s", zs.sel)
		}
		first, result := selParts[1], selParts[3]
		n, err := atoi(selParts[2])
		if err != nil || n < 1 {
			return "", fmt.Errorf("bad selector %s", zs.sel)
		}
		var run []ast.Stmt
		hits := 0
		for _, l := range allStmtLists(fd.Body) {
			for i, st := range l {
				if declaresVar(st, first) {
					hits++
					if i+n > len(l) {
						return "", fmt.Errorf("only %d statements follow the declaration of %s", len(l)-i, first)
					}
					run = l[i : i+n]
				}
			}
		}
		if hits != 1 {
			return "", fmt.Errorf("%d declarations of the local %s, want exactly 1", hits, first)
		}
		inside := 0
		for _, st := range run {
			inspectNoLit(st, func(x ast.Node) bool {
				if s, ok := x.(ast.Stmt); ok && assignsVar(s, result) {
					inside++
				}
				return true
			})
		}
		if inside == 0 {
			return "", fmt.Errorf("%s is not assigned in the selected statements", result)
		}
		for _, st := range allAssigning(fd.Body, result) {
			if st.Pos() >= run[len(run)-1].End() {
				return "", fmt.Errorf("%s is assigned again at line %d, after the selected statements", result, fi.line(st.Pos()))
			}
		}
		node = &ast.BlockStmt{Lbrace: run[0].Pos(), List: run, Rbrace: run[len(run)-1].End() - 1}
		z.resCoq = "Z" // a return inside a fragment is an error anyway (z.res is empty)
		body, err = z.stmts(run, en, func(e *env) (string, error) {
			t, ok := e.vars[result]
			if !ok {
				return "", fmt.Errorf("%s is not in scope after the selected statements", result)
			}
			resT = []*gtype{t}
			return coqName(result), nil
		}, nil)
		if err != nil {
			return "", err
		}
	case "assign", "update":
		if len(selParts) < 2 {
			return "", fmt.Errorf("bad selector %s", zs.sel)
		}
		v := selParts[1]
		as := allAssigning(fd.Body, v)
		var st ast.Stmt
		if selParts[0] == "assign" {
			if len(as) != 1 {
				return "", fmt.Errorf("%d statements assign %s, want exactly 1", len(as), v)
			}
			st = as[0]
		} else {
			if len(selParts) != 3 {
				return "", fmt.Errorf("bad selector %s", zs.sel)
			}
			k, err := atoi(selParts[2])
			if err != nil {
				return "", err
			}
			if st, err = pick(as, k, "statements assigning "+v); err != nil {
				return "", err
			}
		}
		node = st
		z.target = v
		body, err = z.stmts([]ast.Stmt{st}, en, func(e *env) (string, error) {
			t, ok := e.vars[v]
			if !ok {
				return "", fmt.Errorf("%s is not in scope after the statement", v)
			}
			resT = []*gtype{t}
			return coqName(v), nil
		}, nil)
		if err != nil {
			return "", err
		}
	case "ifcond":
		if len(selParts) != 2 {
			return "", fmt.Errorf("bad selector %s", zs.sel)
		}
		k, err := atoi(selParts[1])
		if err != nil {
			return "", err
		}
		var ifs []*ast.IfStmt
		inspectNoLit(fd.Body, func(n ast.Node) bool {
			if s, ok := n.(*ast.IfStmt); ok {
				ifs = append(ifs, s)
			}
			return true
		})
		s, err := pick(ifs, k, "if statements")
		if err != nil {
			return "", err
		}
		if s.Init != nil {
			return "", fmt.Errorf("the selected if statement has an init statement")
		}
		if err := exprSel(s.Cond, tBool); err != nil {
			return "", err
		}
	case "return":
		if len(selParts) != 3 {
			return "", fmt.Errorf("bad selector %s", zs.sel)
		}
		k, err1 := atoi(selParts[1])
		i, err2 := atoi(selParts[2])
		if err1 != nil || err2 != nil {
			return "", fmt.Errorf("bad selector %s", zs.sel)
		}
		var rets []*ast.ReturnStmt
		inspectNoLit(fd.Body, func(n ast.Node) bool {
			if s, ok := n.(*ast.ReturnStmt); ok {
				rets = append(rets, s)
			}
			return true
		})
		r, err := pick(rets, k, "return statements")
		if err != nil {
			return "", err
		}
		e, err := pick(r.Results, i, "results of the return statement")
		if err != nil {
			return "", err
		}
		if err := exprSel(e, nil); err != nil {
			return "", err
		}
	case "field": // field:KEY  the value of the unique composite-literal key KEY in the function
		if len(selParts) != 2 {
			return "", fmt.Errorf("bad selector %s", zs.sel)
		}
		var kvs []*ast.KeyValueExpr
		inspectNoLit(fd.Body, func(n ast.Node) bool {
			if kv, ok := n.(*ast.KeyValueExpr); ok {
				if id, ok := kv.Key.(*ast.Ident); ok && id.Name == selParts[1] {
					kvs = append(kvs, kv)
				}
			}
			return true
		})
		if len(kvs) != 1 {
			return "", fmt.Errorf("%d composite-literal keys %s, want exactly 1", len(kvs), selParts[1])
		}
		if err := exprSel(kvs[0].Value, nil); err != nil {
			return "", err
		}
	case "callarg":
		if len(selParts) != 4 {
			return "", fmt.Errorf("bad selector %s", zs.sel)
		}
		k, err1 := atoi(selParts[2])
		i, err2 := atoi(selParts[3])
		if err1 != nil || err2 != nil {
			return "", fmt.Errorf("bad selector %s", zs.sel)
		}
		var calls []*ast.CallExpr
		inspectNoLit(fd.Body, func(n ast.Node) bool {
			if c, ok := n.(*ast.CallExpr); ok {
				name := ""
				switch f := c.Fun.(type) {
				case *ast.Ident:
					name = f.Name
				case *ast.SelectorExpr:
					name = f.Sel.Name
				}
				if name == selParts[1] {
					calls = append(calls, c)
				}
			}
			return true
		})
		c, err := pick(calls, k, "calls of "+selParts[1])
		if err != nil {
			return "", err
		}
		e, err := pick(c.Args, i, "arguments of the call")
		if err != nil {
			return "", err
		}
		if err := exprSel(e, nil); err != nil {
			return "", err
		}
	default:
		return "", fmt.Errorf("unknown selector %s", zs.sel)
	}
	for _, fv := range freeOrder {
		if !z.used[fv.expr] {
			return "", fmt.Errorf("the declared free expression %s no longer occurs in the selected code", fv.expr)
		}
	}
	var pn []string
	for p := range z.panics {
		pn = append(pn, p)
	}
	sort.Strings(pn)
	note := fmt.Sprintf("(* %s  %s of func %s", fi.where(node), zs.sel, zs.ident)
	if len(zs.free) > 0 {
		note += "; free: " + strings.Join(zs.free, ", ")
	}
	if len(pn) > 0 {
		note += "; Go panics not modelled: " + strings.Join(pn, ", ")
	}
	note += " *)\n"
	var b strings.Builder
	b.WriteString(note)
	for _, a := range z.aux {
		b.WriteString(a)
	}
	fmt.Fprintf(&b, "Definition %s %s : %s :=\n%s.\n", zs.coq, strings.Join(coqParams, " "), coqTypeOf(resT), body)
	return b.String(), nil
}

func coqTypeOf(ts []*gtype) string {
	var p []string
	for _, t := range ts {
		p = append(p, t.coq())
	}
	if len(p) == 1 {
		return p[0]
	}
	return "(" + strings.Join(p, " * ") + ")%type"
}
