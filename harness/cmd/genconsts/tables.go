// tables.go: what the translator regenerates for the obligations added in session 4 (C03 C04 C06 C08 C09 C10 C11
// C13 C15 C17 C19 C20, and the strengthened C01 C16). After editing this file `touch main.go`.
package main

const (
	bucketsGo = "db/buckets.go"
	schemaGo  = "db/schema.go"
	prunerGo  = "pruner/pruner.go"
	retentGo  = "pruner/retention.go"
	prAccGo   = "pruner/accessors.go"
	chainStGo = "sync/preconfirmed/chain_storage.go"
	bloomGo   = "core/aggregated_bloom_filter.go"
)

var extWin = map[string]string{"core.NumBlocksPerFilter": bloomGo + ":NumBlocksPerFilter", "core.BlockHashLag": "core/block.go:BlockHashLag"}

func bucket(name string) spec { return sp("db_"+name, bucketsGo, name, "int") }
func layout(name string) spec { return sp("db_"+name, schemaGo, name, "keylayout") }

var specs2 = []spec{
	// ---- db buckets (C03 C04 C15): the whole enumeration and the buckets the state / block models keep apart
	sp("db_innerBucket_values", bucketsGo, "innerBucket", "enum"),
	sp("db_Bucket_values", bucketsGo, "Bucket", "enum"),
	bucket("ContractClassHash"), bucket("ContractStorage"), bucket("ContractNonce"), bucket("ContractDeploymentHeight"),
	bucket("Contract"), bucket("Class"), bucket("ClassCasmHashMetadata"),
	bucket("DeprecatedContractStorageHistory"), bucket("DeprecatedContractNonceHistory"), bucket("DeprecatedContractClassHashHistory"),
	bucket("ContractStorageHistory"), bucket("ContractNonceHistory"), bucket("ContractClassHashHistory"),
	bucket("ChainHeight"), bucket("BlockHeaderNumbersByHash"), bucket("BlockHeadersByNumber"),
	bucket("TransactionBlockNumbersAndIndicesByHash"), bucket("BlockTransactions"), bucket("StateUpdatesByBlockNumber"),
	bucket("BlockCommitments"), bucket("L1HandlerTxnHashByMsgHash"), bucket("L1Height"),
	bucket("AggregatedBloomFilters"), bucket("RunningEventFilter"),
	// ---- key layouts of the history / head buckets (C03 C04)
	layout("ContractStorageHistoryKey"), layout("ContractStorageHistoryAtBlockKey"),
	layout("ContractNonceHistoryKey"), layout("ContractNonceHistoryAtBlockKey"),
	layout("ContractClassHashHistoryKey"), layout("ContractClassHashHistoryAtBlockKey"),
	layout("DeprecatedContractStorageHistoryKey"), layout("DeprecatedContractStorageHistoryAtBlockKey"),
	layout("DeprecatedContractNonceHistoryKey"), layout("DeprecatedContractNonceHistoryAtBlockKey"),
	layout("DeprecatedContractClassHashHistoryKey"), layout("DeprecatedContractClassHashHistoryAtBlockKey"),
	layout("ContractStorageKey"), layout("ContractClassHashKey"), layout("ContractNonceKey"), layout("ContractDeploymentHeightKey"),
	layout("ContractKey"), layout("BlockHeaderByNumberKey"), layout("BlockHeaderNumbersByHashKey"),
	layout("StateUpdateByBlockNumKey"), layout("BlockCommitmentsKey"), layout("L1HandlerTxnHashByMsgHashKey"),
	// ---- system contracts (C03 C04)
	sp("state_SystemContract1Address", "core/state/state.go", "SystemContract1Address", "felt"),
	sp("state_SystemContract2Address", "core/state/state.go", "SystemContract2Address", "felt"),
	sp("state_SystemContractsClassHash", "core/state/state.go", "SystemContractsClassHash", "felt"),
	sp("state_SystemContracts", "core/state/state.go", "SystemContracts", "feltlist"),
	// ---- JSON-RPC (C11, C08)
	sp("jsonrpc_InvalidJSON", "jsonrpc/server.go", "InvalidJSON", "int"),
	sp("jsonrpc_InvalidRequest", "jsonrpc/server.go", "InvalidRequest", "int"),
	sp("jsonrpc_MethodNotFound", "jsonrpc/server.go", "MethodNotFound", "int"),
	sp("jsonrpc_InvalidParams", "jsonrpc/server.go", "InvalidParams", "int"),
	sp("jsonrpc_InternalError", "jsonrpc/server.go", "InternalError", "int"),
	sp("jsonrpc_Err_InvalidJSON_Message", "jsonrpc/server.go", "Err:InvalidJSON:Message", "casestr"),
	sp("jsonrpc_Err_InvalidRequest_Message", "jsonrpc/server.go", "Err:InvalidRequest:Message", "casestr"),
	sp("jsonrpc_Err_MethodNotFound_Message", "jsonrpc/server.go", "Err:MethodNotFound:Message", "casestr"),
	sp("jsonrpc_Err_InvalidParams_Message", "jsonrpc/server.go", "Err:InvalidParams:Message", "casestr"),
	sp("jsonrpc_isBatch_space", "jsonrpc/server.go", "isBatch:0", "caselits"),
	sp("rpccore_ErrContractNotFound_Code", "rpc/rpccore/rpccore.go", "ErrContractNotFound.Code", "varfield"),
	sp("rpccore_ErrBlockNotFound_Code", "rpc/rpccore/rpccore.go", "ErrBlockNotFound.Code", "varfield"),
	sp("rpccore_ErrInvalidTxIndex_Code", "rpc/rpccore/rpccore.go", "ErrInvalidTxIndex.Code", "varfield"),
	sp("rpccore_ErrClassHashNotFound_Code", "rpc/rpccore/rpccore.go", "ErrClassHashNotFound.Code", "varfield"),
	sp("rpccore_ErrTxnHashNotFound_Code", "rpc/rpccore/rpccore.go", "ErrTxnHashNotFound.Code", "varfield"),
	sp("rpccore_ErrNoBlock_Code", "rpc/rpccore/rpccore.go", "ErrNoBlock.Code", "varfield"),
	{coq: "rpccore_ErrInternal_Code", file: "rpc/rpccore/rpccore.go", ident: "ErrInternal.Code", kind: "varfield",
		ext: map[string]extConst{"jsonrpc.InternalError": {"jsonrpc/server.go", "InternalError"}}},
	sp("rpccore_ErrPageSizeTooBig_Code", "rpc/rpccore/rpccore.go", "ErrPageSizeTooBig.Code", "varfield"),
	sp("rpccore_ErrInvalidContinuationToken_Code", "rpc/rpccore/rpccore.go", "ErrInvalidContinuationToken.Code", "varfield"),
	sp("rpccore_ErrTooManyKeysInFilter_Code", "rpc/rpccore/rpccore.go", "ErrTooManyKeysInFilter.Code", "varfield"),
	sp("rpccore_MaxEventChunkSize", "rpc/rpccore/rpccore.go", "MaxEventChunkSize", "int"),
	sp("rpccore_MaxEventFilterKeys", "rpc/rpccore/rpccore.go", "MaxEventFilterKeys", "int"),
	// ---- events (C09)
	sp("core_MaxBlockOffsetPerFilter", bloomGo, "MaxBlockOffsetPerFilter", "int"),
	sp("blockchain_PreConfirmedFilterSentinel", "blockchain/event_filter.go", "PreConfirmedFilterSentinel", "int"),
	// ---- consensus log (C13)
	sp("walstore_walEntryKind_values", "consensus/walstore/record.go", "walEntryKind", "enum"),
	sp("walstore_walRecordKind_values", "consensus/walstore/record.go", "walRecordKind", "enum"),
	// ---- legacy proof verifier (C10)
	sp("trie_VerifyProof_curPos_bits", "core/trie/proof.go", "VerifyProof:curPos", "localbits"),
	// ---- l1 (C17)
	sp("l1_defaultCatchUpChunkSize", "l1/l1.go", "defaultCatchUpChunkSize", "int"),
	// ---- pre-confirmed (C20)
	sp("feeder_PreConfirmedBlankIdentifier", "clients/feeder/feeder.go", "PreConfirmedBlankIdentifier", "hexstr"),
}

var zspecs = []zspec{
	// ---- C15: the exclusive end of a prefix scan
	{coq: "dbutils_UpperBound", file: "db/dbutils/bound.go", ident: "UpperBound", sel: "body"},
	// ---- C16: the pruner's floor arithmetic
	{coq: "pruner_applyTimeFloor", file: prunerGo, ident: "Pruner.applyTimeFloor", sel: "body",
		free: []string{"p.minAge:i64", "p.latestSampledHeight:u64"}},
	{coq: "pruner_onNewBlock_skip", file: prunerGo, ident: "Pruner.onNewBlock", sel: "ifcond:2",
		free: []string{"l1Head.BlockNumber:u64", "block.Number:u64", "p.numRetainedBlocks:u64"}},
	{coq: "pruner_onNewBlock_standardFloor", file: prunerGo, ident: "Pruner.onNewBlock", sel: "assign:standardFloor",
		free: []string{"block.Number:u64", "p.numRetainedBlocks:u64"}},
	{coq: "pruner_onNewBlock_wait", file: prunerGo, ident: "Pruner.onNewBlock", sel: "ifcond:3",
		free: []string{"p.pendingL2Heads:u64", "p.l2HeadsPerPrune:u64"}},
	{coq: "pruner_onNewL1Head_skip", file: prunerGo, ident: "Pruner.onNewL1Head", sel: "ifcond:2",
		free: []string{"l1Head.BlockNumber:u64", "chainHeight:u64", "p.numRetainedBlocks:u64"}},
	{coq: "pruner_onNewL1Head_floor", file: prunerGo, ident: "Pruner.onNewL1Head", sel: "callarg:applyTimeFloor:0:0",
		free: []string{"l1Head.BlockNumber:u64", "p.numRetainedBlocks:u64"}},
	{coq: "pruner_pruneUpto_raises", file: prunerGo, ident: "Pruner.pruneUpto", sel: "ifcond:0", free: []string{"oldestBlockToKeep:u64"}},
	{coq: "pruner_pruneUpto_floor", file: prunerGo, ident: "Pruner.pruneUpto", sel: "callarg:raiseTo:0:0", free: []string{"oldestBlockToKeep:u64"}},
	{coq: "pruner_pruneUpto_sampled", file: prunerGo, ident: "Pruner.pruneUpto", sel: "assign:p.latestSampledHeight",
		free: []string{"p.latestSampledHeight:u64", "oldestKept:u64"}},
	{coq: "retention_Seed_floor", file: retentGo, ident: "RetentionFloor.Seed", sel: "callarg:raiseTo:0:0", free: []string{"oldest:u64"}},
	{coq: "retention_raiseTo_keeps", file: retentGo, ident: "RetentionFloor.raiseTo", sel: "ifcond:0", free: []string{"floor:u64", "cur:u64"}},
	{coq: "retention_raiseTo_new", file: retentGo, ident: "RetentionFloor.raiseTo", sel: "callarg:CompareAndSwap:0:1", free: []string{"floor:u64"}},
	{coq: "retention_floor", file: retentGo, ident: "RetentionFloor.floor", sel: "body", free: []string{"f.state.Load():u64:st"}},
	{coq: "pruner_headerEnd", file: prAccGo, ident: "PruneBlockDataUpto", sel: "frag:headerEnd:2:headerEnd",
		free: []string{"rangeEndExclusive:u64"}, ext: extWin},
	{coq: "pruner_bloom_skip", file: prAccGo, ident: "pruneAggregatedBloomFiltersUpto", sel: "ifcond:0",
		free: []string{"rangeEndExclusive:u64"}, ext: extWin},
	{coq: "pruner_bloom_oldestKept", file: prAccGo, ident: "pruneAggregatedBloomFiltersUpto", sel: "assign:oldestKept",
		free: []string{"rangeEndExclusive:u64"}, ext: extWin},
	// ---- C17: the backward scan of the L1 catch-up
	{coq: "l1_catchUp_from", file: "l1/l1.go", ident: "Client.catchUpL1HeadUpdates", sel: "frag:from:2:from",
		free: []string{"to:u64", "c.catchUpChunkSize:u64"}},
	{coq: "l1_catchUp_next_to", file: "l1/l1.go", ident: "Client.catchUpL1HeadUpdates", sel: "update:to:1", free: []string{"from:u64"}},
	{coq: "l1_catchUp_stop", file: "l1/l1.go", ident: "Client.catchUpL1HeadUpdates", sel: "ifcond:-1",
		free: []string{"foundFinalised:bool", "from:u64"}},
	{coq: "l1_catchUp_isFinalised", file: "l1/l1.go", ident: "Client.catchUpL1HeadUpdates", sel: "ifcond:-2",
		free: []string{"ev.L1RefHeight:u64", "finalised:u64"}},
	// ---- C06: the wrap-around of the revert targets
	{coq: "sync_isReverting_target", file: "sync/sync.go", ident: "Synchronizer.isReverting", sel: "return:-1:0", free: []string{"remoteHeight:u64"}},
	{coq: "sync_isReverting_fast_exit", file: "sync/sync.go", ident: "Synchronizer.isReverting", sel: "ifcond:1",
		free: []string{"localHeight:u64", "nextHeight:u64"}},
	{coq: "sync_isReverting_remote_ahead", file: "sync/sync.go", ident: "Synchronizer.isReverting", sel: "ifcond:3",
		free: []string{"remoteHeight:u64", "localHeight:u64"}},
	{coq: "sync_isReverting_remote_behind", file: "sync/sync.go", ident: "Synchronizer.isReverting", sel: "ifcond:4",
		free: []string{"remoteHeight:u64", "localHeight:u64"}},
	{coq: "sync_isReverting_compare_at", file: "sync/sync.go", ident: "Synchronizer.isReverting", sel: "update:localHeight:1",
		free: []string{"remoteHeight:u64"}},
	{coq: "sync_storeTask_revert_target", file: "sync/sync.go", ident: "Synchronizer.storeTask", sel: "callarg:revertTask:0:1",
		free: []string{"block.Number:u64"}},
	// ---- C19: padding arithmetic
	{coq: "propeller_paddedMsgLen", file: "consensus/propeller/padding.go", ident: "PadMessage", sel: "frag:unpaddedMsgLen:4:paddedMsgLen",
		free: []string{"varintLen:i64", "msg:[]u8", "numDataShards:i64"}},
	{coq: "propeller_unpad_end", file: "consensus/propeller/padding.go", ident: "UnpadMessage", sel: "assign:end",
		free: []string{"varintLen:i64", "msgLen:u64"}},
	{coq: "propeller_unpad_too_long", file: "consensus/propeller/padding.go", ident: "UnpadMessage", sel: "ifcond:1",
		free: []string{"end:u64", "padded:[]u8"}},
	{coq: "propeller_unpad_bad_prefix", file: "consensus/propeller/padding.go", ident: "UnpadMessage", sel: "ifcond:0", free: []string{"varintLen:i64"}},
	{coq: "propeller_unpad_result", file: "consensus/propeller/padding.go", ident: "UnpadMessage", sel: "return:-1:0",
		free: []string{"padded:[]u8", "varintLen:i64", "end:u64"}},
	// ---- C09: window arithmetic of the event index
	{coq: "blockchain_windowStart", file: "blockchain/aggregated_bloom_filter_cache.go", ident: "AggregatedBloomFilterCache.NewMatchedBlockIterator",
		sel: "assign:windowStart", free: []string{"fromBlock:u64"}, ext: extWin},
	{coq: "blockchain_iter_done", file: "blockchain/aggregated_bloom_filter_cache.go", ident: "AggregatedBloomFilterCache.NewMatchedBlockIterator",
		sel: "field:done", free: []string{"fromBlock:u64", "toBlock:u64"}},
	{coq: "blockchain_fromAligned", file: "blockchain/aggregated_bloom_filter_cache.go", ident: "MatchedBlockIterator.loadNextWindow",
		sel: "assign:fromAligned", free: []string{"windowStart:u64"}, ext: extWin},
	{coq: "blockchain_toAligned", file: "blockchain/aggregated_bloom_filter_cache.go", ident: "MatchedBlockIterator.loadNextWindow",
		sel: "assign:toAligned", free: []string{"fromAligned:u64"}, ext: extWin},
	{coq: "blockchain_nextWindowStart", file: "blockchain/aggregated_bloom_filter_cache.go", ident: "MatchedBlockIterator.loadNextWindow",
		sel: "update:windowStart:2", free: []string{"it.currentWindowStart:u64"}, ext: extWin},
	{coq: "blockchain_firstIndex", file: "blockchain/aggregated_bloom_filter_cache.go", ident: "MatchedBlockIterator.loadNextWindow",
		sel: "update:it.nextIndex:0", free: []string{"it.rangeStart:u64"}, ext: extWin},
	{coq: "blockchain_pastRange", file: "blockchain/aggregated_bloom_filter_cache.go", ident: "MatchedBlockIterator.loadNextWindow",
		sel: "ifcond:2", free: []string{"windowStart:u64", "it.rangeEnd:u64"}},
	// ---- C08: the l1_accepted clamp
	{coq: "rpcv10_l1AcceptedBlockNumber", file: "rpc/v10/helpers.go", ident: "Handler.l1AcceptedBlockNumber", sel: "return:-1:0",
		free: []string{"l1Head.BlockNumber:u64", "height:u64"}},
	{coq: "rpcv9_l1AcceptedBlockNumber", file: "rpc/v9/helpers.go", ident: "Handler.l1AcceptedBlockNumber", sel: "return:-1:0",
		free: []string{"l1Head.BlockNumber:u64", "height:u64"}},
	// ---- C11: the byte that makes a request a batch
	{coq: "jsonrpc_isBatch_open", file: "jsonrpc/server.go", ident: "isBatch", sel: "return:-1:0", free: []string{"buf[n - 1]:u8:c"}},
	// ---- C10: position arithmetic of the legacy verifier
	{coq: "trie_VerifyProof_key_short", file: "core/trie/proof.go", ident: "VerifyProof", sel: "ifcond:2",
		free: []string{"keyBits.Len():u8:klen", "curPos:u8"}},
	{coq: "trie_VerifyProof_step_binary", file: "core/trie/proof.go", ident: "VerifyProof", sel: "update:curPos:1", free: []string{"curPos:u8"}},
	{coq: "trie_VerifyProof_step_edge", file: "core/trie/proof.go", ident: "VerifyProof", sel: "update:curPos:2",
		free: []string{"curPos:u8", "node.Path.Len():u8:plen"}},
	{coq: "trie_VerifyProof_done", file: "core/trie/proof.go", ident: "VerifyProof", sel: "ifcond:-1",
		free: []string{"curPos:u8", "keyBits.Len():u8:klen"}},
	// ---- C20: the window of the pre-confirmed chain
	{coq: "preconfirmed_oldestPreConf", file: chainStGo, ident: "ChainReader.oldestPreConf", sel: "body",
		free: []string{"c.head.preconfirmed.Block.Number:u64:tip", "c.length:i64:length"}},
	{coq: "preconfirmed_contains", file: chainStGo, ident: "ChainReader.contains", sel: "body",
		free: []string{"c.length:i64:length", "c.oldestPreConf():u64:oldest", "c.tip():u64:tip"}},
	{coq: "preconfirmed_snapshot_want", file: chainStGo, ident: "ChainStorage.SnapshotForBlock", sel: "assign:want",
		free: []string{"current.tip():u64:tip", "blockNumber:u64"}},
	{coq: "preconfirmed_advance_drop", file: chainStGo, ident: "ChainStorage.AdvanceTo", sel: "assign:drop",
		free: []string{"oldestPreConf:u64", "currentOldest:u64"}},
	{coq: "preconfirmed_advance_keep", file: chainStGo, ident: "ChainStorage.AdvanceTo", sel: "assign:keep",
		free: []string{"current.length:i64:length", "drop:i64"}},
	{coq: "preconfirmed_preserve_fewer_txs", file: chainStGo, ident: "shouldPreserveSlot", sel: "ifcond:1",
		free: []string{"incoming.Block.TransactionCount:u64:inc", "existing.Block.TransactionCount:u64:ex"}},
	{coq: "preconfirmed_preserve_fewer_classes", file: chainStGo, ident: "shouldPreserveSlot", sel: "ifcond:2",
		free: []string{"len(incoming.NewClasses):i64:inc", "len(existing.NewClasses):i64:ex"}},
	// ---- C01: byte counts of the bit-array codec
	{coq: "trie_byteCount", file: "core/trie/bitarray.go", ident: "BitArray.byteCount", sel: "body", free: []string{"b.len:u8:blen"}},
	{coq: "trie_EncodedLen", file: "core/trie/bitarray.go", ident: "BitArray.EncodedLen", sel: "body", free: []string{"b.byteCount():u64:bc"}},
	{coq: "trie_Bit_index", file: "core/trie/bitarray.go", ident: "BitArray.Bit", sel: "callarg:BitFromLSB:0:0", free: []string{"b.Len():u8:blen", "n:u8"}},
	{coq: "trie_Bit_out_of_range", file: "core/trie/bitarray.go", ident: "BitArray.Bit", sel: "ifcond:0", free: []string{"b.Len():u8:blen", "n:u8"}},
	{coq: "trie_BitFromLSB", file: "core/trie/bitarray.go", ident: "BitArray.BitFromLSB", sel: "body", free: []string{"b.len:u8:blen", "b.words:[]u64:words"}},
}
