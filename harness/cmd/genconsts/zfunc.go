// zfunc.go: kind "zfunc" of the constants translator - Go functions, statement runs and single expressions are
// translated from the AST into Gallina over Z with the machine arithmetic written out. After editing this file
// `touch main.go` (bin/check compares the binary's age with main.go only).
//
// What is selected (spec.sel):
//
//	body                 the whole function: parameters = declared free expressions, then the Go parameters
//	frag:FIRST:N:RESULT  the N consecutive statements of one block that start with the (unique) declaration of the
//	                     local FIRST; the value of RESULT after them. RESULT must not be assigned anywhere else.
//	assign:VAR           the unique statement of the function that assigns VAR: VAR's new value
//	update:VAR:K         the K-th (source order) statement that assigns VAR: VAR's new value
//	ifcond:K             the condition of the K-th if statement (source order)
//	return:K:I           the I-th result of the K-th return statement (K < 0 counts from the end)
//	callarg:NAME:K:I     the I-th argument of the K-th call of a function / method called NAME
//
// Every identifier / selector / call the selected code mentions and that is not a local of the selected code, a
// constant of the same file, a declared external constant or a Go parameter (body only) has to be DECLARED in the
// spec as a free expression with its type ("p.minAge:i64"); anything else is an error. A declared free expression
// that the code no longer mentions is an error as well.
//
// Types: u8 u16 u32 u64 i8 i16 i32 i64 bool and slices of them (Coq: Z, bool, list Z). + - * on an unsigned type
// of width w are followed by `mod 2^w`, on a signed type by wrap_s 2^w; / and % are Z.div / Z.modulo for unsigned
// operands and Z.quot / Z.rem for signed ones; << and >> are * 2^s (wrapped) and / 2^s; conversions wrap.
// Statements: := = op= ++ -- (also on x[i]), var / const declarations, copy(dst, src), if / else if / else with
// optional init statement, return, continue, break, and `for i := E; i >= 0; i-- { .. }` (a Fixpoint on the number of
// remaining iterations; variables assigned in the loop are threaded through it).
// NOT modelled: run-time panics (index out of range, division by zero, negative shift counts, negative make
// lengths): the definition says what the function returns WHEN it returns. nil and empty slices are identified.
package main

import (
	"fmt"
	"go/ast"
	"go/token"
	"math/big"
	"strconv"
	"strings"
)

type gtype struct {
	kind   byte // 'i' integer, 'b' bool, 's' slice, 'u' untyped integer constant
	bits   int
	signed bool
	elem   *gtype
}

func (t *gtype) String() string {
	switch t.kind {
	case 'b':
		return "bool"
	case 'u':
		return "untyped"
	case 's':
		return "[]" + t.elem.String()
	}
	if t.signed {
		return "i" + strconv.Itoa(t.bits)
	}
	return "u" + strconv.Itoa(t.bits)
}

func (t *gtype) coq() string {
	switch t.kind {
	case 'b':
		return "bool"
	case 's':
		return "list Z"
	}
	return "Z"
}

func sameType(a, b *gtype) bool {
	if a.kind != b.kind {
		return false
	}
	switch a.kind {
	case 'i':
		return a.bits == b.bits && a.signed == b.signed
	case 's':
		return sameType(a.elem, b.elem)
	}
	return true
}

var tUntyped = &gtype{kind: 'u'}
var tBool = &gtype{kind: 'b'}
var tInt = &gtype{kind: 'i', bits: 64, signed: true}

func parseTypeName(s string) (*gtype, error) {
	if strings.HasPrefix(s, "[]") {
		e, err := parseTypeName(s[2:])
		if err != nil {
			return nil, err
		}
		return &gtype{kind: 's', elem: e}, nil
	}
	switch s {
	case "bool":
		return tBool, nil
	case "u8", "uint8", "byte":
		return &gtype{kind: 'i', bits: 8}, nil
	case "u16", "uint16":
		return &gtype{kind: 'i', bits: 16}, nil
	case "u32", "uint32":
		return &gtype{kind: 'i', bits: 32}, nil
	case "u64", "uint64", "uint", "uintptr":
		return &gtype{kind: 'i', bits: 64}, nil
	case "i8", "int8":
		return &gtype{kind: 'i', bits: 8, signed: true}, nil
	case "i16", "int16":
		return &gtype{kind: 'i', bits: 16, signed: true}, nil
	case "i32", "int32", "rune":
		return &gtype{kind: 'i', bits: 32, signed: true}, nil
	case "i64", "int64", "int":
		return tInt, nil
	}
	return nil, fmt.Errorf("type %s outside the translator's subset", s)
}

func pow2(n int) string { return new(big.Int).Lsh(big.NewInt(1), uint(n)).String() }

func (t *gtype) rangeOK(v *big.Int) bool {
	lo, hi := big.NewInt(0), new(big.Int).Lsh(big.NewInt(1), uint(t.bits))
	if t.signed {
		hi = new(big.Int).Lsh(big.NewInt(1), uint(t.bits-1))
		lo = new(big.Int).Neg(hi)
	}
	return v.Cmp(lo) >= 0 && v.Cmp(hi) < 0
}

func wrap(t *gtype, s string) string {
	if t.signed {
		return fmt.Sprintf("(wrap_s %s %s)", pow2(t.bits), s)
	}
	return fmt.Sprintf("(%s mod %s)", s, pow2(t.bits))
}

type freeVar struct {
	expr, typ, name string
	t               *gtype
}

type extConst struct{ file, ident string }

type zexpr struct {
	s string
	t *gtype
	c *big.Int // value, when the expression is a constant
}

type env struct {
	vars  map[string]*gtype
	order []string
}

func (e *env) clone() *env {
	n := &env{vars: map[string]*gtype{}, order: append([]string{}, e.order...)}
	for k, v := range e.vars {
		n.vars[k] = v
	}
	return n
}

func (e *env) add(name string, t *gtype) {
	if _, ok := e.vars[name]; !ok {
		e.order = append(e.order, name)
	}
	e.vars[name] = t
}

var coqReserved = map[string]bool{"end": true, "at": true, "in": true, "as": true, "if": true, "then": true, "else": true,
	"fun": true, "let": true, "match": true, "with": true, "return": true, "forall": true, "exists": true, "mod": true,
	"Type": true, "Set": true, "Prop": true, "fix": true, "cofix": true, "where": true, "using": true, "for": true,
	"struct": true, "IF": true, "wrap_s": true, "go_set": true, "go_copy": true, "fuel__": true, "Z": true, "nat": true,
	"bool": true, "list": true, "true": true, "false": true, "negb": true, "O": true, "S": true, "_": true}

func coqName(s string) string {
	var b strings.Builder
	for _, r := range s {
		if r == '_' || (r >= '0' && r <= '9') || (r >= 'a' && r <= 'z') || (r >= 'A' && r <= 'Z') {
			b.WriteRune(r)
		} else {
			b.WriteByte('_')
		}
	}
	n := strings.Trim(b.String(), "_")
	if n == "" || (n[0] >= '0' && n[0] <= '9') {
		n = "v_" + n
	}
	if coqReserved[n] {
		n += "_"
	}
	return n
}

type ztr struct {
	fi      *fileInfo
	sp      *spec
	free    map[string]*freeVar
	used    map[string]bool
	lconst  map[string]zexpr
	panics  map[string]bool
	aux     []string
	res     []*gtype // result types of the selected code (return statements)
	resCoq  string
	nloops  int
	overr   map[string]string
	loopNow bool
	target  string // the variable an assign / update selector is about
}

type loopCtx struct {
	cont func(e *env) (string, error)
	brk  func(e *env) (string, error)
}

type cont func(e *env) (string, error)

func (z *ztr) goType(te ast.Expr) (*gtype, error) {
	s := exprString(te)
	if o, ok := z.overr[s]; ok {
		return parseTypeName(o)
	}
	switch x := te.(type) {
	case *ast.Ident:
		switch x.Name {
		case "bool", "uint8", "byte", "uint16", "uint32", "uint64", "uint", "uintptr", "int8", "int16", "int32", "rune", "int64", "int":
			return parseTypeName(x.Name)
		}
		if def, ok := z.fi.types[x.Name]; ok {
			return z.goType(def)
		}
	case *ast.ArrayType:
		e, err := z.goType(x.Elt)
		if err != nil {
			return nil, err
		}
		if e.kind != 'i' {
			return nil, fmt.Errorf("slice of %s outside the translator's subset", e)
		}
		return &gtype{kind: 's', elem: e}, nil
	}
	return nil, fmt.Errorf("type %s outside the translator's subset (declare it in the spec's type table)", s)
}

func (z *ztr) panic(what string) { z.panics[what] = true }

func (z *ztr) conv(a zexpr, t *gtype) (zexpr, error) {
	if a.t.kind != 'u' {
		if !sameType(a.t, t) {
			return zexpr{}, fmt.Errorf("type mismatch: %s is %s, want %s", a.s, a.t, t)
		}
		return a, nil
	}
	if t.kind != 'i' {
		return zexpr{}, fmt.Errorf("integer constant %s used as %s", a.s, t)
	}
	if !t.rangeOK(a.c) {
		return zexpr{}, fmt.Errorf("constant %s overflows %s", a.c, t)
	}
	return zexpr{s: zlit(a.c), t: t, c: a.c}, nil
}

func constExpr(v *big.Int, t *gtype) zexpr { return zexpr{s: zlit(v), t: t, c: v} }

// namedConst: a package-level constant of the same file, typed if it is declared with a builtin integer type
func (z *ztr) namedConst(fi *fileInfo, name string) (zexpr, bool, error) {
	d, ok := fi.decls[name]
	if !ok || d.iota == -1 && !isConstDecl(fi, name) {
		return zexpr{}, false, nil
	}
	v, err := evalIntI(fi, d.expr, 0, d.iota)
	if err != nil {
		return zexpr{}, true, fmt.Errorf("constant %s: %v", name, err)
	}
	t := tUntyped
	if d.typ != nil {
		if tt, err := z.goType(d.typ); err == nil {
			t = tt
		} else {
			return zexpr{}, true, fmt.Errorf("constant %s: %v", name, err)
		}
	} else if c, ok := d.expr.(*ast.CallExpr); ok && len(c.Args) == 1 {
		if tt, err := z.goType(c.Fun); err == nil {
			t = tt
		}
	}
	if t.kind == 'i' && !t.rangeOK(v) {
		return zexpr{}, true, fmt.Errorf("constant %s = %s overflows %s", name, v, t)
	}
	return constExpr(v, t), true, nil
}

func isConstDecl(fi *fileInfo, name string) bool {
	for _, n := range fi.order {
		if n == name {
			return true
		}
	}
	return false
}

func (z *ztr) expr(e ast.Expr, en *env, hint *gtype) (zexpr, error) {
	// a declared free expression?
	if _, isLit := e.(*ast.BasicLit); !isLit {
		key := exprString(e)
		if id, ok := e.(*ast.Ident); !ok || en.vars[id.Name] == nil {
			if fv, ok := z.free[key]; ok {
				z.used[key] = true
				return zexpr{s: fv.name, t: fv.t}, nil
			}
		}
	}
	switch x := e.(type) {
	case *ast.BasicLit:
		if x.Kind == token.INT || x.Kind == token.CHAR {
			v, err := evalInt(z.fi, x, 0)
			if err != nil {
				return zexpr{}, err
			}
			return constExpr(v, tUntyped), nil
		}
		return zexpr{}, fmt.Errorf("literal %s outside the translator's subset", x.Value)
	case *ast.ParenExpr:
		return z.expr(x.X, en, hint)
	case *ast.Ident:
		switch x.Name {
		case "true":
			return zexpr{s: "true", t: tBool}, nil
		case "false":
			return zexpr{s: "false", t: tBool}, nil
		case "nil":
			if hint != nil && hint.kind == 's' {
				return zexpr{s: "[]", t: hint}, nil
			}
			return zexpr{}, fmt.Errorf("nil outside a slice context")
		}
		if t, ok := en.vars[x.Name]; ok {
			if _, isFree := z.free[x.Name]; isFree {
				z.used[x.Name] = true
			}
			return zexpr{s: coqName(x.Name), t: t}, nil
		}
		if c, ok := z.lconst[x.Name]; ok {
			return c, nil
		}
		if c, is, err := z.namedConst(z.fi, x.Name); is {
			return c, err
		}
		return zexpr{}, fmt.Errorf("identifier %s is not a local, a parameter, a constant of the file or a declared free expression", x.Name)
	case *ast.SelectorExpr:
		key := exprString(x)
		if s, ok := stdConsts[key]; ok {
			v, _ := new(big.Int).SetString(s, 10)
			return constExpr(v, tUntyped), nil
		}
		if ec, ok := z.sp.ext[key]; ok {
			fi2, err := load(repoRoot, ec.file)
			if err != nil {
				return zexpr{}, err
			}
			c, is, err := z.namedConst(fi2, ec.ident)
			if !is {
				return zexpr{}, fmt.Errorf("%s: no constant %s in %s", key, ec.ident, ec.file)
			}
			return c, err
		}
		return zexpr{}, fmt.Errorf("selector %s is neither a declared free expression nor a declared external constant", key)
	case *ast.UnaryExpr:
		switch x.Op {
		case token.NOT:
			a, err := z.expr(x.X, en, tBool)
			if err != nil {
				return zexpr{}, err
			}
			if a.t.kind != 'b' {
				return zexpr{}, fmt.Errorf("! applied to %s", a.t)
			}
			return zexpr{s: "(negb " + a.s + ")", t: tBool}, nil
		case token.SUB:
			a, err := z.expr(x.X, en, hint)
			if err != nil {
				return zexpr{}, err
			}
			if a.t.kind == 'u' {
				return constExpr(new(big.Int).Neg(a.c), tUntyped), nil
			}
			if a.t.kind != 'i' {
				return zexpr{}, fmt.Errorf("- applied to %s", a.t)
			}
			return zexpr{s: wrap(a.t, "(- "+a.s+")"), t: a.t}, nil
		}
		return zexpr{}, fmt.Errorf("unary operator %s outside the translator's subset", x.Op)
	case *ast.BinaryExpr:
		return z.binary(x, en, hint)
	case *ast.CallExpr:
		return z.call(x, en, hint)
	case *ast.IndexExpr:
		a, err := z.expr(x.X, en, nil)
		if err != nil {
			return zexpr{}, err
		}
		if a.t.kind != 's' {
			return zexpr{}, fmt.Errorf("index of %s, which is %s", exprString(x.X), a.t)
		}
		i, err := z.index(x.Index, en)
		if err != nil {
			return zexpr{}, err
		}
		z.panic("index out of range")
		return zexpr{s: fmt.Sprintf("(List.nth (Z.to_nat %s) %s 0)", i, a.s), t: a.t.elem}, nil
	case *ast.SliceExpr:
		a, err := z.expr(x.X, en, nil)
		if err != nil {
			return zexpr{}, err
		}
		if a.t.kind != 's' || x.Slice3 {
			return zexpr{}, fmt.Errorf("slice expression %s outside the translator's subset", exprString(x))
		}
		z.panic("slice bounds out of range")
		s := a.s
		lo := "0"
		if x.Low != nil {
			if lo, err = z.index(x.Low, en); err != nil {
				return zexpr{}, err
			}
		}
		if x.High != nil {
			hi, err := z.index(x.High, en)
			if err != nil {
				return zexpr{}, err
			}
			s = fmt.Sprintf("(List.firstn (Z.to_nat %s) %s)", hi, s)
		}
		if x.Low != nil {
			s = fmt.Sprintf("(List.skipn (Z.to_nat %s) %s)", lo, s)
		}
		return zexpr{s: s, t: a.t}, nil
	}
	return zexpr{}, fmt.Errorf("expression %s (%T) outside the translator's subset", exprString(e), e)
}

func (z *ztr) index(e ast.Expr, en *env) (string, error) {
	i, err := z.expr(e, en, tInt)
	if err != nil {
		return "", err
	}
	if i.t.kind == 'u' {
		return zlit(i.c), nil
	}
	if i.t.kind != 'i' {
		return "", fmt.Errorf("index %s is %s", exprString(e), i.t)
	}
	return i.s, nil
}

func (z *ztr) binary(x *ast.BinaryExpr, en *env, hint *gtype) (zexpr, error) {
	switch x.Op {
	case token.LAND, token.LOR:
		a, err := z.expr(x.X, en, tBool)
		if err != nil {
			return zexpr{}, err
		}
		b, err := z.expr(x.Y, en, tBool)
		if err != nil {
			return zexpr{}, err
		}
		if a.t.kind != 'b' || b.t.kind != 'b' {
			return zexpr{}, fmt.Errorf("%s applied to %s and %s", x.Op, a.t, b.t)
		}
		op := "&&"
		if x.Op == token.LOR {
			op = "||"
		}
		return zexpr{s: fmt.Sprintf("(%s %s %s)", a.s, op, b.s), t: tBool}, nil
	case token.SHL, token.SHR:
		a, err := z.expr(x.X, en, hint)
		if err != nil {
			return zexpr{}, err
		}
		b, err := z.expr(x.Y, en, nil)
		if err != nil {
			return zexpr{}, err
		}
		if b.t.kind != 'u' && b.t.kind != 'i' {
			return zexpr{}, fmt.Errorf("shift count of type %s", b.t)
		}
		if b.t.kind == 'u' && b.c.Sign() < 0 {
			return zexpr{}, fmt.Errorf("negative shift count")
		}
		if a.t.kind == 'u' {
			if b.t.kind == 'u' {
				r := new(big.Int)
				if x.Op == token.SHL {
					r.Lsh(a.c, uint(b.c.Uint64()))
				} else {
					r.Rsh(a.c, uint(b.c.Uint64()))
				}
				return constExpr(r, tUntyped), nil
			}
			// untyped constant shifted by a variable: it takes the type the context gives it
			if hint == nil || hint.kind != 'i' {
				return zexpr{}, fmt.Errorf("constant %s shifted by a variable without a typed context", a.s)
			}
			if a, err = z.conv(a, hint); err != nil {
				return zexpr{}, err
			}
		}
		if a.t.kind != 'i' {
			return zexpr{}, fmt.Errorf("shift of %s", a.t)
		}
		if b.t.kind == 'i' && b.t.signed {
			z.panic("negative shift count")
		}
		if x.Op == token.SHL {
			return zexpr{s: wrap(a.t, fmt.Sprintf("(%s * 2 ^ %s)", a.s, b.s)), t: a.t}, nil
		}
		return zexpr{s: fmt.Sprintf("(%s / 2 ^ %s)", a.s, b.s), t: a.t}, nil
	}
	// operands of one type; an untyped constant takes the type of the other operand
	isCmp := false
	switch x.Op {
	case token.LSS, token.GTR, token.LEQ, token.GEQ, token.EQL, token.NEQ:
		isCmp = true
		hint = nil
	}
	a, err := z.expr(x.X, en, hint)
	var b zexpr
	if err == nil && a.t.kind != 'u' {
		b, err = z.expr(x.Y, en, a.t)
	} else {
		b, err = z.expr(x.Y, en, hint)
		if err != nil {
			return zexpr{}, err
		}
		h2 := hint
		if b.t.kind != 'u' {
			h2 = b.t
		}
		a, err = z.expr(x.X, en, h2)
	}
	if err != nil {
		return zexpr{}, err
	}
	if a.t.kind == 'u' && b.t.kind == 'u' {
		r := new(big.Int)
		switch x.Op {
		case token.ADD:
			return constExpr(r.Add(a.c, b.c), tUntyped), nil
		case token.SUB:
			return constExpr(r.Sub(a.c, b.c), tUntyped), nil
		case token.MUL:
			return constExpr(r.Mul(a.c, b.c), tUntyped), nil
		case token.QUO, token.REM:
			if b.c.Sign() == 0 {
				return zexpr{}, fmt.Errorf("constant division by zero")
			}
			if x.Op == token.QUO {
				return constExpr(r.Quo(a.c, b.c), tUntyped), nil
			}
			return constExpr(r.Rem(a.c, b.c), tUntyped), nil
		case token.AND:
			return constExpr(r.And(a.c, b.c), tUntyped), nil
		case token.OR:
			return constExpr(r.Or(a.c, b.c), tUntyped), nil
		case token.XOR:
			return constExpr(r.Xor(a.c, b.c), tUntyped), nil
		}
		if isCmp {
			c := a.c.Cmp(b.c)
			v := map[token.Token]bool{token.LSS: c < 0, token.GTR: c > 0, token.LEQ: c <= 0, token.GEQ: c >= 0, token.EQL: c == 0, token.NEQ: c != 0}[x.Op]
			return zexpr{s: strconv.FormatBool(v), t: tBool}, nil
		}
		return zexpr{}, fmt.Errorf("operator %s outside the translator's subset", x.Op)
	}
	if a.t.kind == 'u' {
		if a, err = z.conv(a, b.t); err != nil {
			return zexpr{}, err
		}
	}
	if b.t.kind == 'u' {
		if b, err = z.conv(b, a.t); err != nil {
			return zexpr{}, err
		}
	}
	if !sameType(a.t, b.t) {
		return zexpr{}, fmt.Errorf("operands of %s have types %s and %s in %s", x.Op, a.t, b.t, exprString(x))
	}
	if isCmp {
		switch a.t.kind {
		case 'i':
			switch x.Op {
			case token.LSS:
				return zexpr{s: fmt.Sprintf("(%s <? %s)", a.s, b.s), t: tBool}, nil
			case token.GTR:
				return zexpr{s: fmt.Sprintf("(%s <? %s)", b.s, a.s), t: tBool}, nil
			case token.LEQ:
				return zexpr{s: fmt.Sprintf("(%s <=? %s)", a.s, b.s), t: tBool}, nil
			case token.GEQ:
				return zexpr{s: fmt.Sprintf("(%s <=? %s)", b.s, a.s), t: tBool}, nil
			case token.EQL:
				return zexpr{s: fmt.Sprintf("(%s =? %s)", a.s, b.s), t: tBool}, nil
			case token.NEQ:
				return zexpr{s: fmt.Sprintf("(negb (%s =? %s))", a.s, b.s), t: tBool}, nil
			}
		case 'b':
			switch x.Op {
			case token.EQL:
				return zexpr{s: fmt.Sprintf("(Bool.eqb %s %s)", a.s, b.s), t: tBool}, nil
			case token.NEQ:
				return zexpr{s: fmt.Sprintf("(negb (Bool.eqb %s %s))", a.s, b.s), t: tBool}, nil
			}
		}
		return zexpr{}, fmt.Errorf("comparison %s of %s outside the translator's subset", x.Op, a.t)
	}
	if a.t.kind != 'i' {
		return zexpr{}, fmt.Errorf("operator %s applied to %s", x.Op, a.t)
	}
	t := a.t
	switch x.Op {
	case token.ADD:
		return zexpr{s: wrap(t, fmt.Sprintf("(%s + %s)", a.s, b.s)), t: t}, nil
	case token.SUB:
		return zexpr{s: wrap(t, fmt.Sprintf("(%s - %s)", a.s, b.s)), t: t}, nil
	case token.MUL:
		return zexpr{s: wrap(t, fmt.Sprintf("(%s * %s)", a.s, b.s)), t: t}, nil
	case token.QUO, token.REM:
		if b.c != nil {
			if b.c.Sign() == 0 {
				return zexpr{}, fmt.Errorf("division by the constant zero")
			}
		} else {
			z.panic("division by zero")
		}
		if t.signed {
			if x.Op == token.QUO {
				return zexpr{s: wrap(t, fmt.Sprintf("(Z.quot %s %s)", a.s, b.s)), t: t}, nil
			}
			return zexpr{s: fmt.Sprintf("(Z.rem %s %s)", a.s, b.s), t: t}, nil
		}
		if x.Op == token.QUO {
			return zexpr{s: fmt.Sprintf("(%s / %s)", a.s, b.s), t: t}, nil
		}
		return zexpr{s: fmt.Sprintf("(%s mod %s)", a.s, b.s), t: t}, nil
	case token.AND:
		return zexpr{s: fmt.Sprintf("(Z.land %s %s)", a.s, b.s), t: t}, nil
	case token.OR:
		return zexpr{s: fmt.Sprintf("(Z.lor %s %s)", a.s, b.s), t: t}, nil
	case token.XOR:
		return zexpr{s: fmt.Sprintf("(Z.lxor %s %s)", a.s, b.s), t: t}, nil
	case token.AND_NOT:
		return zexpr{s: fmt.Sprintf("(Z.ldiff %s %s)", a.s, b.s), t: t}, nil
	}
	return zexpr{}, fmt.Errorf("operator %s outside the translator's subset", x.Op)
}

func (z *ztr) call(x *ast.CallExpr, en *env, hint *gtype) (zexpr, error) {
	if id, ok := x.Fun.(*ast.Ident); ok {
		switch id.Name {
		case "len":
			if len(x.Args) != 1 {
				break
			}
			a, err := z.expr(x.Args[0], en, nil)
			if err != nil {
				return zexpr{}, err
			}
			if a.t.kind != 's' {
				return zexpr{}, fmt.Errorf("len of %s", a.t)
			}
			return zexpr{s: fmt.Sprintf("(Z.of_nat (List.length %s))", a.s), t: tInt}, nil
		case "min", "max":
			if len(x.Args) < 2 {
				break
			}
			var as []zexpr
			var t *gtype
			for _, ar := range x.Args {
				a, err := z.expr(ar, en, hint)
				if err != nil {
					return zexpr{}, err
				}
				if a.t.kind == 'i' && t == nil {
					t = a.t
				}
				as = append(as, a)
			}
			if t == nil {
				return zexpr{}, fmt.Errorf("%s of constants only is outside the translator's subset", id.Name)
			}
			s := ""
			for i, a := range as {
				a, err := z.conv(a, t)
				if err != nil {
					return zexpr{}, err
				}
				if i == 0 {
					s = a.s
				} else {
					s = fmt.Sprintf("(Z.%s %s %s)", id.Name, s, a.s)
				}
			}
			return zexpr{s: s, t: t}, nil
		case "make":
			if len(x.Args) < 2 {
				break
			}
			t, err := z.goType(x.Args[0])
			if err != nil || t.kind != 's' {
				return zexpr{}, fmt.Errorf("make of %s outside the translator's subset", exprString(x.Args[0]))
			}
			n, err := z.index(x.Args[1], en)
			if err != nil {
				return zexpr{}, err
			}
			z.panic("negative length in make")
			return zexpr{s: fmt.Sprintf("(List.repeat 0 (Z.to_nat %s))", n), t: t}, nil
		}
	}
	// conversion T(e)
	if len(x.Args) == 1 {
		if t, err := z.goType(x.Fun); err == nil && t.kind == 'i' {
			a, err := z.expr(x.Args[0], en, t)
			if err != nil {
				return zexpr{}, err
			}
			if a.t.kind == 'u' {
				return z.conv(a, t)
			}
			if a.t.kind != 'i' {
				return zexpr{}, fmt.Errorf("conversion of %s to %s", a.t, t)
			}
			fits := (a.t.signed == t.signed && a.t.bits <= t.bits) || (!a.t.signed && t.signed && a.t.bits < t.bits)
			if fits {
				return zexpr{s: a.s, t: t, c: a.c}, nil
			}
			return zexpr{s: wrap(t, a.s), t: t}, nil
		}
	}
	return zexpr{}, fmt.Errorf("call %s is neither a supported builtin / conversion nor a declared free expression", exprString(x))
}

// ---------- statements ----------

func jumps(n ast.Node) bool {
	found := false
	ast.Inspect(n, func(x ast.Node) bool {
		switch x.(type) {
		case *ast.FuncLit:
			return false
		case *ast.ReturnStmt, *ast.BranchStmt:
			found = true
		}
		return true
	})
	return found
}

func terminates(list []ast.Stmt) bool {
	if len(list) == 0 {
		return false
	}
	switch s := list[len(list)-1].(type) {
	case *ast.ReturnStmt, *ast.BranchStmt:
		return true
	case *ast.IfStmt:
		if s.Else == nil || !terminates(s.Body.List) {
			return false
		}
		switch e := s.Else.(type) {
		case *ast.BlockStmt:
			return terminates(e.List)
		case *ast.IfStmt:
			return terminates([]ast.Stmt{e})
		}
	case *ast.BlockStmt:
		return terminates(s.List)
	}
	return false
}

// assignedOuter: variables of en that the statements assign
func assignedOuter(list []ast.Stmt, en *env) []string {
	set := map[string]bool{}
	mark := func(e ast.Expr) {
		for {
			switch x := e.(type) {
			case *ast.IndexExpr:
				e = x.X
				continue
			case *ast.ParenExpr:
				e = x.X
				continue
			case *ast.Ident:
				if en.vars[x.Name] != nil {
					set[x.Name] = true
				}
			}
			return
		}
	}
	for _, st := range list {
		ast.Inspect(st, func(n ast.Node) bool {
			switch x := n.(type) {
			case *ast.AssignStmt:
				for _, l := range x.Lhs {
					mark(l)
				}
			case *ast.IncDecStmt:
				mark(x.X)
			case *ast.CallExpr:
				if id, ok := x.Fun.(*ast.Ident); ok && id.Name == "copy" && len(x.Args) == 2 {
					mark(x.Args[0])
				}
			}
			return true
		})
	}
	var out []string
	for _, n := range en.order {
		if set[n] {
			out = append(out, n)
		}
	}
	return out
}

func tupleOf(names []string) string {
	var p []string
	for _, n := range names {
		p = append(p, coqName(n))
	}
	if len(p) == 1 {
		return p[0]
	}
	return "(" + strings.Join(p, ", ") + ")"
}

func (z *ztr) stmts(list []ast.Stmt, en *env, k cont, lp *loopCtx) (string, error) {
	if len(list) == 0 {
		return k(en)
	}
	st, rest := list[0], list[1:]
	next := func(e *env) (string, error) { return z.stmts(rest, e, k, lp) }
	at := func(err error) error {
		if err == nil || strings.Contains(err.Error(), "line ") {
			return err
		}
		return fmt.Errorf("line %d: %v", z.fi.line(st.Pos()), err)
	}
	switch x := st.(type) {
	case *ast.ReturnStmt:
		if len(x.Results) != len(z.res) || len(z.res) == 0 {
			return "", at(fmt.Errorf("return with %d results in code with %d translated results", len(x.Results), len(z.res)))
		}
		var parts []string
		for i, r := range x.Results {
			a, err := z.expr(r, en, z.res[i])
			if err != nil {
				return "", at(err)
			}
			if a, err = z.conv(a, z.res[i]); err != nil {
				return "", at(err)
			}
			parts = append(parts, a.s)
		}
		if len(parts) == 1 {
			return parts[0], nil
		}
		return "(" + strings.Join(parts, ", ") + ")", nil
	case *ast.BranchStmt:
		if x.Label != nil || lp == nil {
			return "", at(fmt.Errorf("%s outside a translated loop / with a label", x.Tok))
		}
		switch x.Tok {
		case token.CONTINUE:
			return lp.cont(en)
		case token.BREAK:
			return lp.brk(en)
		}
		return "", at(fmt.Errorf("%s outside the translator's subset", x.Tok))
	case *ast.BlockStmt:
		inner := en.clone()
		outerNames := en.clone()
		return z.stmts(x.List, inner, func(e *env) (string, error) {
			_ = e
			return next(outerNames)
		}, lp)
	case *ast.DeclStmt:
		gd := x.Decl.(*ast.GenDecl)
		e2 := en.clone()
		var lets []string
		for _, s := range gd.Specs {
			vs, ok := s.(*ast.ValueSpec)
			if !ok {
				return "", at(fmt.Errorf("declaration outside the translator's subset"))
			}
			for i, n := range vs.Names {
				if gd.Tok == token.CONST {
					if i >= len(vs.Values) {
						return "", at(fmt.Errorf("local constant %s without a value", n.Name))
					}
					c, err := z.expr(vs.Values[i], e2, nil)
					if err != nil || c.c == nil {
						return "", at(fmt.Errorf("local constant %s: not a constant of the subset (%v)", n.Name, err))
					}
					if vs.Type != nil {
						t, err := z.goType(vs.Type)
						if err != nil {
							return "", at(err)
						}
						if c, err = z.conv(zexpr{s: c.s, t: tUntyped, c: c.c}, t); err != nil {
							return "", at(err)
						}
					}
					z.lconst[n.Name] = c
					continue
				}
				if vs.Type == nil && i >= len(vs.Values) {
					return "", at(fmt.Errorf("var %s without type and value", n.Name))
				}
				var t *gtype
				var err error
				if vs.Type != nil {
					if t, err = z.goType(vs.Type); err != nil {
						return "", at(err)
					}
				}
				var val zexpr
				if i < len(vs.Values) {
					if val, err = z.expr(vs.Values[i], e2, t); err != nil {
						return "", at(err)
					}
					if t == nil {
						if val.t.kind == 'u' {
							t = tInt
						} else {
							t = val.t
						}
					}
					if val, err = z.conv(val, t); err != nil {
						return "", at(err)
					}
				} else {
					zero := map[byte]string{'i': "0", 'b': "false", 's': "[]"}[t.kind]
					val = zexpr{s: zero, t: t}
				}
				if en.vars[n.Name] != nil {
					return "", at(fmt.Errorf("redeclaration of %s", n.Name))
				}
				e2.add(n.Name, t)
				lets = append(lets, fmt.Sprintf("let %s := %s in\n", coqName(n.Name), val.s))
			}
		}
		r, err := next(e2)
		if err != nil {
			return "", err
		}
		return strings.Join(lets, "") + r, nil
	case *ast.AssignStmt, *ast.IncDecStmt:
		name, val, e2, err := z.simple(st, en)
		if err != nil {
			return "", at(err)
		}
		r, err := next(e2)
		if err != nil {
			return "", err
		}
		return fmt.Sprintf("let %s := %s in\n%s", coqName(name), val, r), nil
	case *ast.ExprStmt:
		c, ok := x.X.(*ast.CallExpr)
		if ok {
			if id, ok := c.Fun.(*ast.Ident); ok && id.Name == "copy" && len(c.Args) == 2 {
				dst, ok := c.Args[0].(*ast.Ident)
				if !ok || en.vars[dst.Name] == nil || en.vars[dst.Name].kind != 's' {
					return "", at(fmt.Errorf("copy: the destination must be a local slice variable"))
				}
				src, err := z.expr(c.Args[1], en, en.vars[dst.Name])
				if err != nil {
					return "", at(err)
				}
				if !sameType(src.t, en.vars[dst.Name]) {
					return "", at(fmt.Errorf("copy between %s and %s", en.vars[dst.Name], src.t))
				}
				r, err := next(en)
				if err != nil {
					return "", err
				}
				return fmt.Sprintf("let %s := go_copy %s %s in\n%s", coqName(dst.Name), coqName(dst.Name), src.s, r), nil
			}
		}
		return "", at(fmt.Errorf("expression statement %s outside the translator's subset", exprString(x.X)))
	case *ast.IfStmt:
		return z.ifStmt(x, en, next, lp, at)
	case *ast.ForStmt:
		return z.forStmt(x, en, next, at)
	}
	return "", at(fmt.Errorf("statement %T outside the translator's subset", st))
}

// simple: x := e | x = e | x op= e | x++ | x-- | x[i] = e | x[i] op= e | x[i]++ ; returns the variable that is (re)bound
func (z *ztr) simple(st ast.Stmt, en *env) (string, string, *env, error) {
	var lhs, rhs ast.Expr
	var op token.Token
	define := false
	switch x := st.(type) {
	case *ast.AssignStmt:
		if len(x.Lhs) != 1 || len(x.Rhs) != 1 {
			return "", "", nil, fmt.Errorf("multiple assignment outside the translator's subset")
		}
		lhs, rhs = x.Lhs[0], x.Rhs[0]
		switch x.Tok {
		case token.DEFINE:
			define = true
		case token.ASSIGN:
		case token.ADD_ASSIGN:
			op = token.ADD
		case token.SUB_ASSIGN:
			op = token.SUB
		case token.MUL_ASSIGN:
			op = token.MUL
		case token.QUO_ASSIGN:
			op = token.QUO
		case token.REM_ASSIGN:
			op = token.REM
		case token.AND_ASSIGN:
			op = token.AND
		case token.OR_ASSIGN:
			op = token.OR
		case token.XOR_ASSIGN:
			op = token.XOR
		case token.SHL_ASSIGN:
			op = token.SHL
		case token.SHR_ASSIGN:
			op = token.SHR
		default:
			return "", "", nil, fmt.Errorf("assignment operator %s outside the translator's subset", x.Tok)
		}
	case *ast.IncDecStmt:
		lhs, rhs = x.X, &ast.BasicLit{Kind: token.INT, Value: "1"}
		op = token.ADD
		if x.Tok == token.DEC {
			op = token.SUB
		}
	}
	if op != token.ILLEGAL {
		rhs = &ast.BinaryExpr{X: lhs, Op: op, Y: rhs}
	}
	e2 := en.clone()
	switch l := lhs.(type) {
	case *ast.Ident:
		if define {
			if en.vars[l.Name] != nil {
				return "", "", nil, fmt.Errorf("redeclaration of %s (shadowing is outside the translator's subset)", l.Name)
			}
			v, err := z.expr(rhs, en, nil)
			if err != nil {
				return "", "", nil, err
			}
			if v.t.kind == 'u' {
				if v, err = z.conv(v, tInt); err != nil {
					return "", "", nil, err
				}
			}
			e2.add(l.Name, v.t)
			return l.Name, v.s, e2, nil
		}
		t := en.vars[l.Name]
		if t == nil {
			if z.target == l.Name { // the variable an assign / update selector is about: it takes the type of the value
				v, err := z.expr(rhs, en, nil)
				if err != nil {
					return "", "", nil, err
				}
				if v.t.kind == 'u' {
					return "", "", nil, fmt.Errorf("%s is assigned a constant; declare it as a free expression to give it a type", l.Name)
				}
				e2.add(l.Name, v.t)
				return l.Name, v.s, e2, nil
			}
			return "", "", nil, fmt.Errorf("assignment to unknown variable %s", l.Name)
		}
		if _, isFree := z.free[l.Name]; isFree {
			z.used[l.Name] = true
		}
		v, err := z.expr(rhs, en, t)
		if err != nil {
			return "", "", nil, err
		}
		if v, err = z.conv(v, t); err != nil {
			return "", "", nil, err
		}
		return l.Name, v.s, e2, nil
	case *ast.SelectorExpr: // a field: the selector text is the variable (assign / update selectors only)
		key := exprString(l)
		if z.target != key {
			return "", "", nil, fmt.Errorf("assignment to the field %s outside an assign / update selector", key)
		}
		var hint *gtype
		if fv, ok := z.free[key]; ok {
			hint = fv.t
		}
		v, err := z.expr(rhs, en, hint)
		if err != nil {
			return "", "", nil, err
		}
		if hint != nil {
			if v, err = z.conv(v, hint); err != nil {
				return "", "", nil, err
			}
		}
		if v.t.kind == 'u' {
			return "", "", nil, fmt.Errorf("%s is assigned a constant; declare it as a free expression to give it a type", key)
		}
		e2.add(key, v.t)
		return key, v.s, e2, nil
	case *ast.IndexExpr:
		id, ok := l.X.(*ast.Ident)
		if !ok || en.vars[id.Name] == nil || en.vars[id.Name].kind != 's' {
			return "", "", nil, fmt.Errorf("assignment target %s outside the translator's subset", exprString(lhs))
		}
		t := en.vars[id.Name].elem
		i, err := z.index(l.Index, en)
		if err != nil {
			return "", "", nil, err
		}
		v, err := z.expr(rhs, en, t)
		if err != nil {
			return "", "", nil, err
		}
		if v, err = z.conv(v, t); err != nil {
			return "", "", nil, err
		}
		z.panic("index out of range")
		return id.Name, fmt.Sprintf("go_set %s %s %s", coqName(id.Name), i, v.s), e2, nil
	}
	return "", "", nil, fmt.Errorf("assignment target %s outside the translator's subset", exprString(lhs))
}

func elseList(s ast.Stmt) []ast.Stmt {
	switch e := s.(type) {
	case nil:
		return nil
	case *ast.BlockStmt:
		return e.List
	default:
		return []ast.Stmt{e}
	}
}

func (z *ztr) ifStmt(x *ast.IfStmt, en *env, next cont, lp *loopCtx, at func(error) error) (string, error) {
	pre := ""
	ce := en
	if x.Init != nil {
		name, val, e2, err := z.simple(x.Init, en)
		if err != nil {
			return "", at(err)
		}
		if en.vars[name] != nil {
			return "", at(fmt.Errorf("if-init assigns the outer variable %s", name))
		}
		pre = fmt.Sprintf("let %s := %s in\n", coqName(name), val)
		ce = e2
	}
	c, err := z.expr(x.Cond, ce, tBool)
	if err != nil {
		return "", at(err)
	}
	if c.t.kind != 'b' {
		return "", at(fmt.Errorf("condition of type %s", c.t))
	}
	var els []ast.Stmt
	if x.Else != nil {
		els = elseList(x.Else)
	}
	if !jumps(x.Body) && (x.Else == nil || !jumps(x.Else)) {
		// no return / continue / break inside: the branches only update variables
		vars := assignedOuter(append(append([]ast.Stmt{}, x.Body.List...), els...), en)
		if len(vars) == 0 {
			return "", at(fmt.Errorf("if statement without effect on the translated variables"))
		}
		tup := tupleOf(vars)
		fin := func(e *env) (string, error) { return tup, nil }
		a, err := z.stmts(x.Body.List, ce.clone(), fin, nil)
		if err != nil {
			return "", err
		}
		b, err := z.stmts(els, ce.clone(), fin, nil)
		if err != nil {
			return "", err
		}
		r, err := next(en)
		if err != nil {
			return "", err
		}
		pat := tup
		if len(vars) > 1 {
			pat = "'" + tup
		}
		return fmt.Sprintf("%slet %s := (if %s then %s else %s) in\n%s", pre, pat, c.s, a, b, r), nil
	}
	// general form: the continuation is placed behind both branches
	after := func(e *env) (string, error) {
		o := en.clone() // names declared inside the branch go out of scope; rebound outer names keep their Coq name
		return next(o)
	}
	a, err := z.stmts(x.Body.List, ce.clone(), after, lp)
	if err != nil {
		return "", err
	}
	b, err := z.stmts(els, ce.clone(), after, lp)
	if err != nil {
		return "", err
	}
	return fmt.Sprintf("%s(if %s then\n%s\nelse\n%s)", pre, c.s, a, b), nil
}

// for i := E; i >= 0; i-- { body }
func (z *ztr) forStmt(x *ast.ForStmt, en *env, next cont, at func(error) error) (string, error) {
	if z.loopNow {
		return "", at(fmt.Errorf("nested loops are outside the translator's subset"))
	}
	init, ok := x.Init.(*ast.AssignStmt)
	if !ok || init.Tok != token.DEFINE || len(init.Lhs) != 1 || len(init.Rhs) != 1 {
		return "", at(fmt.Errorf("for loop: want `for i := E; i >= 0; i--`"))
	}
	iv, ok := init.Lhs[0].(*ast.Ident)
	if !ok || en.vars[iv.Name] != nil {
		return "", at(fmt.Errorf("for loop: want `for i := E; i >= 0; i--` with a fresh i"))
	}
	cond, ok := x.Cond.(*ast.BinaryExpr)
	okc := ok && cond.Op == token.GEQ && exprString(cond.X) == iv.Name && exprString(cond.Y) == "0"
	post, ok := x.Post.(*ast.IncDecStmt)
	okp := ok && post.Tok == token.DEC && exprString(post.X) == iv.Name
	if !okc || !okp {
		return "", at(fmt.Errorf("for loop: want `for i := E; i >= 0; i--`"))
	}
	start, err := z.expr(init.Rhs[0], en, tInt)
	if err != nil {
		return "", at(err)
	}
	if start.t.kind == 'u' {
		start, _ = z.conv(start, tInt)
	}
	if start.t.kind != 'i' || !start.t.signed {
		return "", at(fmt.Errorf("for loop: the counter must be a signed integer (i >= 0 is always true otherwise)"))
	}
	// the loop variable must not be assigned in the body
	for _, v := range assignedOuter(x.Body.List, &env{vars: map[string]*gtype{iv.Name: start.t}, order: []string{iv.Name}}) {
		return "", at(fmt.Errorf("for loop: the body assigns the counter %s", v))
	}
	z.nloops++
	fname := fmt.Sprintf("%s_loop%d", z.sp.coq, z.nloops)
	params := append([]string{}, en.order...)
	var sig, args []string
	for _, p := range params {
		sig = append(sig, fmt.Sprintf("(%s : %s)", coqName(p), en.vars[p].coq()))
		args = append(args, coqName(p))
	}
	argStr := ""
	if len(args) > 0 {
		argStr = " " + strings.Join(args, " ")
	}
	z.loopNow = true
	afterLoop := func(e *env) (string, error) { return next(en.clone()) }
	lp := &loopCtx{
		cont: func(e *env) (string, error) { return fmt.Sprintf("%s fuel__'%s", fname, argStr), nil },
		brk:  afterLoop,
	}
	inner := en.clone()
	inner.add(iv.Name, start.t)
	body, err := z.stmts(x.Body.List, inner, lp.cont, lp)
	if err != nil {
		return "", err
	}
	done, err := afterLoop(en)
	if err != nil {
		return "", err
	}
	z.loopNow = false
	z.aux = append(z.aux, fmt.Sprintf("Fixpoint %s (fuel__ : nat) %s : %s :=\n  match fuel__ with\n  | O =>\n%s\n  | S fuel__' =>\nlet %s := Z.of_nat fuel__' in\n%s\n  end.\n",
		fname, strings.Join(sig, " "), z.resCoq, done, coqName(iv.Name), body))
	return fmt.Sprintf("%s (Z.to_nat (%s + 1))%s", fname, start.s, argStr), nil
}
