// Package faultdb is a fault-injecting, commit-counting proxy around any juno db.KeyValueStore.
//
// Every "committed write" — a batch Write() (including the ones issued by the Update/Write helpers)
// or a direct Put/Delete/DeleteRange on the store — gets a running number 1,2,3,… . The proxy can
//   - make the n-th committed write return an injected error instead of reaching the engine
//     (the batch is dropped, exactly what a failing Pebble commit looks like to the caller), and
//   - call a hook right after the n-th committed write reached the engine (used to copy the image:
//     "the process died right after the k-th committed write").
//
// Reads, iterators and snapshots go straight to the wrapped store. Reusable by other checks.
package faultdb

import (
	"errors"
	"reflect"
	"sync"

	"github.com/NethermindEth/juno/db"
)

// ErrInjected is the error returned by a write chosen to fail.
var ErrInjected = errors.New("faultdb: injected write failure")

// Commit describes one committed (or failed) write.
type Commit struct {
	N      int    // running number (1-based)
	Kind   string // "batch" | "put" | "delete" | "deleterange"
	Ops    int    // operations recorded in the batch (1 for direct writes)
	Failed bool   // the injected error was returned, nothing reached the engine
	Bytes  int    // Size() of the batch when it was committed (0 for direct writes)
}

type DB struct {
	db.KeyValueStore // the wrapped engine; all reads are promoted from it

	mu      sync.Mutex
	n       int // committed-write counter (successful and failed ones both advance it)
	failAt  int // absolute number of the write to fail (0 = none)
	Log     []Commit
	OnWrite func(c Commit) // called after each write attempt (after it reached the engine, or failed)
	// BeforeWrite is called when the proxy sees a write, before it is forwarded to the engine (or failed):
	// whatever the engine holds at that moment is what a crash at the start of the commit leaves behind.
	BeforeWrite func(c Commit)
	// staged-write faults: the k-th Put/Delete/DeleteRange STAGED into any batch from now on returns ErrInjected
	// (nothing reaches the engine: the caller's batch closure sees an error in the middle of its work)
	stagedN, stagedFailAt int
}

func New(inner db.KeyValueStore) *DB { return &DB{KeyValueStore: inner} }

// Inner returns the wrapped engine.
func (d *DB) Inner() db.KeyValueStore { return d.KeyValueStore }

// Count returns the number of write attempts seen so far.
func (d *DB) Count() int { d.mu.Lock(); defer d.mu.Unlock(); return d.n }

// FailNext arms the proxy: the k-th write from now (k>=1) returns ErrInjected. k=0 disarms.
func (d *DB) FailNext(k int) {
	d.mu.Lock()
	defer d.mu.Unlock()
	if k <= 0 {
		d.failAt = 0
		return
	}
	d.failAt = d.n + k
}

// Armed reports whether an injected failure is still pending.
func (d *DB) Armed() bool { d.mu.Lock(); defer d.mu.Unlock(); return d.failAt > d.n }

// ResetLog forgets the recorded commits (the counter keeps running).
func (d *DB) ResetLog() { d.mu.Lock(); d.Log = nil; d.mu.Unlock() }

// commit runs one write attempt: do() performs it on the engine.
func (d *DB) commit(kind string, ops int, do func() error, size ...int) error {
	d.mu.Lock()
	d.n++
	c := Commit{N: d.n, Kind: kind, Ops: ops}
	if len(size) > 0 {
		c.Bytes = size[0]
	}
	fail := d.failAt == d.n
	pre := d.BeforeWrite
	d.mu.Unlock()
	if pre != nil {
		pre(c)
	}
	var err error
	if fail {
		c.Failed = true
		err = ErrInjected
	} else {
		err = do()
	}
	d.mu.Lock()
	d.Log = append(d.Log, c)
	hook := d.OnWrite
	d.mu.Unlock()
	if hook != nil && (err == nil || fail) {
		hook(c)
	}
	return err
}

// ---- direct writes ----
func (d *DB) Put(k, v []byte) error {
	return d.commit("put", 1, func() error { return d.KeyValueStore.Put(k, v) })
}

func (d *DB) Delete(k []byte) error {
	return d.commit("delete", 1, func() error { return d.KeyValueStore.Delete(k) })
}

func (d *DB) DeleteRange(a, b []byte) error {
	return d.commit("deleterange", 1, func() error { return d.KeyValueStore.DeleteRange(a, b) })
}

// FailStaged arms a staged-write fault: the k-th operation staged into a batch from now on (k >= 1) fails. k = 0 disarms.
func (d *DB) FailStaged(k int) {
	d.mu.Lock()
	defer d.mu.Unlock()
	if k <= 0 {
		d.stagedFailAt = 0
		return
	}
	d.stagedFailAt = d.stagedN + k
}

// StagedArmed reports whether a staged-write fault is still pending; StagedCount counts staged operations so far.
func (d *DB) StagedArmed() bool { d.mu.Lock(); defer d.mu.Unlock(); return d.stagedFailAt > d.stagedN }
func (d *DB) StagedCount() int  { d.mu.Lock(); defer d.mu.Unlock(); return d.stagedN }

func (d *DB) staged() error {
	d.mu.Lock()
	defer d.mu.Unlock()
	d.stagedN++
	if d.stagedFailAt == d.stagedN {
		return ErrInjected
	}
	return nil
}

// ---- batches ----
type batch struct {
	db.IndexedBatch
	d   *DB
	ops int
}

func (b *batch) Put(k, v []byte) error {
	if err := b.d.staged(); err != nil {
		return err
	}
	b.ops++
	return b.IndexedBatch.Put(k, v)
}
func (b *batch) Delete(k []byte) error {
	if err := b.d.staged(); err != nil {
		return err
	}
	b.ops++
	return b.IndexedBatch.Delete(k)
}
func (b *batch) DeleteRange(x, y []byte) error {
	if err := b.d.staged(); err != nil {
		return err
	}
	b.ops++
	return b.IndexedBatch.DeleteRange(x, y)
}
func (b *batch) Write() error {
	return b.d.commit("batch", b.ops, func() error { return b.IndexedBatch.Write() }, b.IndexedBatch.Size())
}

// plain (non-indexed) batch: the engine's db.Batch has no read methods; wrap it separately so that the
// static type handed to juno is exactly db.Batch.
type plainBatch struct {
	db.Batch
	d   *DB
	ops int
}

func (b *plainBatch) Put(k, v []byte) error {
	if err := b.d.staged(); err != nil {
		return err
	}
	b.ops++
	return b.Batch.Put(k, v)
}
func (b *plainBatch) Delete(k []byte) error {
	if err := b.d.staged(); err != nil {
		return err
	}
	b.ops++
	return b.Batch.Delete(k)
}
func (b *plainBatch) DeleteRange(x, y []byte) error {
	if err := b.d.staged(); err != nil {
		return err
	}
	b.ops++
	return b.Batch.DeleteRange(x, y)
}
func (b *plainBatch) Write() error {
	return b.d.commit("batch", b.ops, func() error { return b.Batch.Write() }, b.Batch.Size())
}

func (d *DB) NewBatch() db.Batch { return &plainBatch{Batch: d.KeyValueStore.NewBatch(), d: d} }
func (d *DB) NewBatchWithSize(n int) db.Batch {
	return &plainBatch{Batch: d.KeyValueStore.NewBatchWithSize(n), d: d}
}

func (d *DB) NewIndexedBatch() db.IndexedBatch {
	return &batch{IndexedBatch: d.KeyValueStore.NewIndexedBatch(), d: d}
}

func (d *DB) NewIndexedBatchWithSize(n int) db.IndexedBatch {
	return &batch{IndexedBatch: d.KeyValueStore.NewIndexedBatchWithSize(n), d: d}
}

// Update / Write helpers: same shape as the engines' (callback, then commit; nothing applied when the
// callback fails), but the commit goes through the proxy.
func (d *DB) Update(fn func(db.IndexedBatch) error) error {
	b := d.NewIndexedBatch()
	if err := fn(b); err != nil {
		_ = b.Close()
		return err
	}
	if err := b.Write(); err != nil {
		_ = b.Close()
		return err
	}
	return nil
}

func (d *DB) Write(fn func(db.Batch) error) error {
	b := d.NewBatch()
	if err := fn(b); err != nil {
		_ = b.Close()
		return err
	}
	if err := b.Write(); err != nil {
		_ = b.Close()
		return err
	}
	return nil
}

func (d *DB) WithListener(l db.EventListener) db.KeyValueStore {
	d.KeyValueStore = d.KeyValueStore.WithListener(l)
	return d
}

// Checkpoint writes a consistent copy of a Pebble-backed store into dir (which must not exist), using
// the engine's own Checkpoint through reflection (no direct dependency on the pebble module).
func Checkpoint(store db.KeyValueStore, dir string) error {
	impl := store.Impl()
	m := reflect.ValueOf(impl).MethodByName("Checkpoint")
	if !m.IsValid() {
		return errors.New("faultdb: engine has no Checkpoint method")
	}
	out := m.Call([]reflect.Value{reflect.ValueOf(dir)})
	if len(out) == 1 && !out[0].IsNil() {
		return out[0].Interface().(error)
	}
	return nil
}
