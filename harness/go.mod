module verifharness

go 1.26.0

require (
	github.com/NethermindEth/juno v0.0.0
	github.com/bits-and-blooms/bloom/v3 v3.7.1
	github.com/cockroachdb/pebble/v2 v2.1.6
	github.com/ethereum/go-ethereum v1.17.5
	github.com/fxamacker/cbor/v2 v2.9.2
	github.com/go-playground/validator/v10 v10.30.3
	github.com/libp2p/go-libp2p v0.48.0
	github.com/starknet-io/starknet-p2p-specs v0.0.0-00010101000000-000000000000
	go.uber.org/zap v1.28.0
	golang.org/x/crypto v0.54.0
)

require (
	filippo.io/bigmod v0.1.1-0.20260103110540-f8a47775ebe5 // indirect
	filippo.io/keygen v0.0.0-20260114151900-8e2790ea4c5b // indirect
	github.com/DataDog/zstd v1.5.7 // indirect
	github.com/KimMachineGun/automemlimit v0.7.5 // indirect
	github.com/Masterminds/semver/v3 v3.5.0 // indirect
	github.com/RaduBerinde/axisds v0.1.0 // indirect
	github.com/RaduBerinde/btreemap v0.0.0-20260105202824-d3184786f603 // indirect
	github.com/VictoriaMetrics/fastcache v1.13.3 // indirect
	github.com/benbjohnson/clock v1.3.5 // indirect
	github.com/beorn7/perks v1.0.1 // indirect
	github.com/bits-and-blooms/bitset v1.24.6 // indirect
	github.com/cespare/xxhash/v2 v2.3.0 // indirect
	github.com/cockroachdb/crlib v0.0.0-20251122031428-fe658a2dbda1 // indirect
	github.com/cockroachdb/errors v1.12.0 // indirect
	github.com/cockroachdb/fifo v0.0.0-20240816210425-c5d0cb0b6fc0 // indirect
	github.com/cockroachdb/logtags v0.0.0-20241215232642-bb51bb14a506 // indirect
	github.com/cockroachdb/pebble v1.1.5 // indirect
	github.com/cockroachdb/redact v1.1.6 // indirect
	github.com/cockroachdb/swiss v0.0.0-20251224182025-b0f6560f979b // indirect
	github.com/cockroachdb/tokenbucket v0.0.0-20250429170803-42689b6311bb // indirect
	github.com/coder/websocket v1.8.15 // indirect
	github.com/consensys/gnark-crypto v0.20.1 // indirect
	github.com/crate-crypto/go-eth-kzg v1.5.0 // indirect
	github.com/davecgh/go-spew v1.1.1 // indirect
	github.com/davidlazar/go-crypto v0.0.0-20200604182044-b73af7476f6c // indirect
	github.com/deckarep/golang-set/v2 v2.8.0 // indirect
	github.com/decred/dcrd/dcrec/secp256k1/v4 v4.4.1 // indirect
	github.com/dunglas/httpsfv v1.1.0 // indirect
	github.com/filecoin-project/go-clock v0.1.0 // indirect
	github.com/fjl/jsonw v0.1.0 // indirect
	github.com/flynn/noise v1.1.0 // indirect
	github.com/fsnotify/fsnotify v1.9.0 // indirect
	github.com/gabriel-vasile/mimetype v1.4.13 // indirect
	github.com/getsentry/sentry-go v0.42.0 // indirect
	github.com/go-logr/logr v1.4.3 // indirect
	github.com/go-logr/stdr v1.2.2 // indirect
	github.com/go-playground/locales v0.14.1 // indirect
	github.com/go-playground/universal-translator v0.18.1 // indirect
	github.com/gogo/protobuf v1.3.2 // indirect
	github.com/golang/snappy v1.0.1-0.20260716114414-9ae09f520e93 // indirect
	github.com/google/gopacket v1.1.19 // indirect
	github.com/google/uuid v1.6.0 // indirect
	github.com/gorilla/websocket v1.5.3 // indirect
	github.com/hashicorp/golang-lru v1.0.2 // indirect
	github.com/hashicorp/golang-lru/v2 v2.0.7 // indirect
	github.com/holiman/uint256 v1.3.2 // indirect
	github.com/huin/goupnp v1.3.0 // indirect
	github.com/ipfs/boxo v0.41.0 // indirect
	github.com/ipfs/go-cid v0.6.2 // indirect
	github.com/ipfs/go-datastore v0.9.2 // indirect
	github.com/ipfs/go-log/v2 v2.9.2 // indirect
	github.com/ipld/go-ipld-prime v0.24.0 // indirect
	github.com/jackpal/go-nat-pmp v1.0.2 // indirect
	github.com/jbenet/go-temp-err-catcher v0.1.0 // indirect
	github.com/klauspost/compress v1.19.1 // indirect
	github.com/klauspost/cpuid/v2 v2.3.0 // indirect
	github.com/klauspost/reedsolomon v1.14.1 // indirect
	github.com/koron/go-ssdp v0.1.0 // indirect
	github.com/kr/pretty v0.3.1 // indirect
	github.com/kr/text v0.2.0 // indirect
	github.com/leodido/go-urn v1.4.0 // indirect
	github.com/libp2p/go-buffer-pool v0.1.0 // indirect
	github.com/libp2p/go-cidranger v1.1.0 // indirect
	github.com/libp2p/go-flow-metrics v0.3.0 // indirect
	github.com/libp2p/go-libp2p-asn-util v0.4.1 // indirect
	github.com/libp2p/go-libp2p-kad-dht v0.42.1 // indirect
	github.com/libp2p/go-libp2p-kbucket v0.9.0 // indirect
	github.com/libp2p/go-libp2p-pubsub v0.17.0 // indirect
	github.com/libp2p/go-libp2p-record v0.3.1 // indirect
	github.com/libp2p/go-libp2p-routing-helpers v0.7.5 // indirect
	github.com/libp2p/go-msgio v0.3.0 // indirect
	github.com/libp2p/go-netroute v0.4.0 // indirect
	github.com/libp2p/go-reuseport v0.4.0 // indirect
	github.com/libp2p/go-yamux/v5 v5.1.0 // indirect
	github.com/marten-seemann/tcp v0.0.0-20210406111302-dfbc87cc63fd // indirect
	github.com/mattn/go-isatty v0.0.22 // indirect
	github.com/mikioh/tcpinfo v0.0.0-20190314235526-30a79bb1804b // indirect
	github.com/mikioh/tcpopt v0.0.0-20190314235656-172688c1accc // indirect
	github.com/minio/minlz v1.0.1 // indirect
	github.com/minio/sha256-simd v1.0.1 // indirect
	github.com/mr-tron/base58 v1.3.0 // indirect
	github.com/multiformats/go-base32 v0.1.0 // indirect
	github.com/multiformats/go-base36 v0.2.0 // indirect
	github.com/multiformats/go-multiaddr v0.16.1 // indirect
	github.com/multiformats/go-multiaddr-dns v0.5.0 // indirect
	github.com/multiformats/go-multiaddr-fmt v0.1.0 // indirect
	github.com/multiformats/go-multibase v0.3.0 // indirect
	github.com/multiformats/go-multicodec v0.10.0 // indirect
	github.com/multiformats/go-multihash v0.2.3 // indirect
	github.com/multiformats/go-multistream v0.6.1 // indirect
	github.com/multiformats/go-varint v0.1.0 // indirect
	github.com/munnerz/goautoneg v0.0.0-20191010083416-a7dc8b61c822 // indirect
	github.com/pbnjay/memory v0.0.0-20210728143218-7b4eea64cf58 // indirect
	github.com/pion/datachannel v1.6.0 // indirect
	github.com/pion/dtls/v3 v3.1.4 // indirect
	github.com/pion/ice/v4 v4.2.1 // indirect
	github.com/pion/interceptor v0.1.44 // indirect
	github.com/pion/logging v0.2.4 // indirect
	github.com/pion/mdns/v2 v2.1.0 // indirect
	github.com/pion/randutil v0.1.0 // indirect
	github.com/pion/rtcp v1.2.16 // indirect
	github.com/pion/rtp v1.10.1 // indirect
	github.com/pion/sctp v1.9.2 // indirect
	github.com/pion/sdp/v3 v3.0.18 // indirect
	github.com/pion/srtp/v3 v3.0.10 // indirect
	github.com/pion/stun/v3 v3.1.5 // indirect
	github.com/pion/transport/v4 v4.0.2 // indirect
	github.com/pion/turn/v4 v4.1.4 // indirect
	github.com/pion/webrtc/v4 v4.2.8 // indirect
	github.com/pkg/errors v0.9.1 // indirect
	github.com/pmezard/go-difflib v1.0.1-0.20181226105442-5d4384ee4fb2 // indirect
	github.com/polydawn/refmt v0.90.0 // indirect
	github.com/prometheus/client_golang v1.24.1 // indirect
	github.com/prometheus/client_model v0.6.2 // indirect
	github.com/prometheus/common v0.70.1 // indirect
	github.com/prometheus/procfs v0.21.1 // indirect
	github.com/quic-go/qpack v0.6.0 // indirect
	github.com/quic-go/quic-go v0.60.0 // indirect
	github.com/quic-go/webtransport-go v0.11.1 // indirect
	github.com/rogpeppe/go-internal v1.14.1 // indirect
	github.com/shirou/gopsutil v3.21.11+incompatible // indirect
	github.com/sourcegraph/conc v0.3.1-0.20240121214520-5f936abd7ae8 // indirect
	github.com/spaolacci/murmur3 v1.1.0 // indirect
	github.com/spf13/pflag v1.0.10 // indirect
	github.com/stretchr/testify v1.11.1 // indirect
	github.com/tklauser/go-sysconf v0.3.16 // indirect
	github.com/tklauser/numcpus v0.11.0 // indirect
	github.com/whyrusleeping/go-keyspace v0.0.0-20160322163242-5b898ac5add1 // indirect
	github.com/wlynxg/anet v0.0.5 // indirect
	github.com/x448/float16 v0.8.4 // indirect
	go.opentelemetry.io/auto/sdk v1.2.1 // indirect
	go.opentelemetry.io/otel v1.44.0 // indirect
	go.opentelemetry.io/otel/metric v1.44.0 // indirect
	go.opentelemetry.io/otel/trace v1.44.0 // indirect
	go.uber.org/dig v1.19.0 // indirect
	go.uber.org/fx v1.24.0 // indirect
	go.uber.org/multierr v1.11.0 // indirect
	golang.org/x/exp v0.0.0-20260603202125-055de637280b // indirect
	golang.org/x/net v0.57.0 // indirect
	golang.org/x/sync v0.22.0 // indirect
	golang.org/x/sys v0.47.0 // indirect
	golang.org/x/text v0.40.0 // indirect
	golang.org/x/time v0.14.0 // indirect
	gonum.org/v1/gonum v0.17.0 // indirect
	google.golang.org/protobuf v1.36.11 // indirect
	gopkg.in/yaml.v3 v3.0.1 // indirect
	lukechampine.com/blake3 v1.4.1 // indirect
)

replace github.com/NethermindEth/juno => /repo

replace github.com/starknet-io/starknet-p2p-specs => /repo/starknet-p2p-specs
