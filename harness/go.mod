module verifharness

go 1.26.0

require (
	github.com/NethermindEth/juno v0.0.0
	github.com/bits-and-blooms/bloom/v3 v3.7.1
	github.com/fxamacker/cbor/v2 v2.9.2
	github.com/go-playground/validator/v10 v10.30.3
	github.com/libp2p/go-libp2p v0.48.0
)

require (
	github.com/DataDog/zstd v1.5.7 // indirect
	github.com/KimMachineGun/automemlimit v0.7.5 // indirect
	github.com/Masterminds/semver/v3 v3.5.0 // indirect
	github.com/RaduBerinde/axisds v0.1.0 // indirect
	github.com/RaduBerinde/btreemap v0.0.0-20260105202824-d3184786f603 // indirect
	github.com/VictoriaMetrics/fastcache v1.13.3 // indirect
	github.com/beorn7/perks v1.0.1 // indirect
	github.com/bits-and-blooms/bitset v1.24.6 // indirect
	github.com/cespare/xxhash/v2 v2.3.0 // indirect
	github.com/cockroachdb/crlib v0.0.0-20251122031428-fe658a2dbda1 // indirect
	github.com/cockroachdb/errors v1.12.0 // indirect
	github.com/cockroachdb/fifo v0.0.0-20240816210425-c5d0cb0b6fc0 // indirect
	github.com/cockroachdb/logtags v0.0.0-20241215232642-bb51bb14a506 // indirect
	github.com/cockroachdb/pebble v1.1.5 // indirect
	github.com/cockroachdb/pebble/v2 v2.1.6 // indirect
	github.com/cockroachdb/redact v1.1.6 // indirect
	github.com/cockroachdb/swiss v0.0.0-20251224182025-b0f6560f979b // indirect
	github.com/cockroachdb/tokenbucket v0.0.0-20250429170803-42689b6311bb // indirect
	github.com/coder/websocket v1.8.15 // indirect
	github.com/consensys/gnark-crypto v0.20.1 // indirect
	github.com/crate-crypto/go-eth-kzg v1.5.0 // indirect
	github.com/davecgh/go-spew v1.1.1 // indirect
	github.com/deckarep/golang-set/v2 v2.8.0 // indirect
	github.com/decred/dcrd/dcrec/secp256k1/v4 v4.4.1 // indirect
	github.com/ethereum/go-ethereum v1.17.5 // indirect
	github.com/fjl/jsonw v0.1.0 // indirect
	github.com/fsnotify/fsnotify v1.9.0 // indirect
	github.com/gabriel-vasile/mimetype v1.4.13 // indirect
	github.com/getsentry/sentry-go v0.42.0 // indirect
	github.com/go-logr/logr v1.4.3 // indirect
	github.com/go-logr/stdr v1.2.2 // indirect
	github.com/go-playground/locales v0.14.1 // indirect
	github.com/go-playground/universal-translator v0.18.1 // indirect
	github.com/gogo/protobuf v1.3.2 // indirect
	github.com/golang/snappy v1.0.1-0.20260716114414-9ae09f520e93 // indirect
	github.com/google/uuid v1.6.0 // indirect
	github.com/gorilla/websocket v1.5.3 // indirect
	github.com/hashicorp/golang-lru/v2 v2.0.7 // indirect
	github.com/holiman/uint256 v1.3.2 // indirect
	github.com/ipfs/go-cid v0.6.2 // indirect
	github.com/klauspost/compress v1.19.1 // indirect
	github.com/klauspost/cpuid/v2 v2.3.0 // indirect
	github.com/klauspost/reedsolomon v1.14.1 // indirect
	github.com/kr/pretty v0.3.1 // indirect
	github.com/kr/text v0.2.0 // indirect
	github.com/leodido/go-urn v1.4.0 // indirect
	github.com/libp2p/go-buffer-pool v0.1.0 // indirect
	github.com/minio/minlz v1.0.1 // indirect
	github.com/mr-tron/base58 v1.3.0 // indirect
	github.com/multiformats/go-base32 v0.1.0 // indirect
	github.com/multiformats/go-base36 v0.2.0 // indirect
	github.com/multiformats/go-multiaddr v0.16.1 // indirect
	github.com/multiformats/go-multibase v0.3.0 // indirect
	github.com/multiformats/go-multicodec v0.10.0 // indirect
	github.com/multiformats/go-multihash v0.2.3 // indirect
	github.com/multiformats/go-multistream v0.6.1 // indirect
	github.com/multiformats/go-varint v0.1.0 // indirect
	github.com/munnerz/goautoneg v0.0.0-20191010083416-a7dc8b61c822 // indirect
	github.com/pbnjay/memory v0.0.0-20210728143218-7b4eea64cf58 // indirect
	github.com/pkg/errors v0.9.1 // indirect
	github.com/pmezard/go-difflib v1.0.1-0.20181226105442-5d4384ee4fb2 // indirect
	github.com/prometheus/client_golang v1.24.1 // indirect
	github.com/prometheus/client_model v0.6.2 // indirect
	github.com/prometheus/common v0.70.1 // indirect
	github.com/prometheus/procfs v0.21.1 // indirect
	github.com/rogpeppe/go-internal v1.14.1 // indirect
	github.com/shirou/gopsutil v3.21.11+incompatible // indirect
	github.com/sourcegraph/conc v0.3.1-0.20240121214520-5f936abd7ae8 // indirect
	github.com/spaolacci/murmur3 v1.1.0 // indirect
	github.com/spf13/pflag v1.0.10 // indirect
	github.com/starknet-io/starknet-p2p-specs v0.0.0-00010101000000-000000000000 // indirect
	github.com/stretchr/testify v1.11.1 // indirect
	github.com/tklauser/go-sysconf v0.3.16 // indirect
	github.com/tklauser/numcpus v0.11.0 // indirect
	github.com/x448/float16 v0.8.4 // indirect
	go.opentelemetry.io/auto/sdk v1.2.1 // indirect
	go.opentelemetry.io/otel v1.44.0 // indirect
	go.opentelemetry.io/otel/metric v1.44.0 // indirect
	go.opentelemetry.io/otel/trace v1.44.0 // indirect
	go.uber.org/multierr v1.11.0 // indirect
	go.uber.org/zap v1.28.0 // indirect
	golang.org/x/crypto v0.54.0 // indirect
	golang.org/x/exp v0.0.0-20260603202125-055de637280b // indirect
	golang.org/x/sync v0.22.0 // indirect
	golang.org/x/sys v0.47.0 // indirect
	golang.org/x/text v0.40.0 // indirect
	google.golang.org/protobuf v1.36.11 // indirect
	gopkg.in/yaml.v3 v3.0.1 // indirect
	lukechampine.com/blake3 v1.4.1 // indirect
)

replace github.com/NethermindEth/juno => /repo

replace github.com/starknet-io/starknet-p2p-specs => /repo/starknet-p2p-specs
