// Package hx: shared plumbing of the verification harnesses (PRNG, oracle co-process,
// violation / known-finding reporting, evidence fragments). Trusted base of the tie.
package hx

import (
	"bufio"
	"encoding/json"
	"flag"
	"fmt"
	"io"
	"os"
	"os/exec"
	"path/filepath"
	"sort"
	"strings"
	"time"
)

// ---------- PRNG: every random choice of a run derives from one seed ----------
type RNG struct{ s uint64 }

func NewRNG(seed uint64) *RNG { return &RNG{s: seed*0x9E3779B97F4A7C15 + 0x1234567} }
func (r *RNG) U64() uint64 {
	r.s += 0x9E3779B97F4A7C15
	z := r.s
	z = (z ^ (z >> 30)) * 0xBF58476D1CE4E5B9
	z = (z ^ (z >> 27)) * 0x94D049BB133111EB
	return z ^ (z >> 31)
}
func (r *RNG) Intn(n int) int {
	if n <= 0 {
		return 0
	}
	return int(r.U64() % uint64(n))
}
func (r *RNG) Bool() bool          { return r.U64()&1 == 1 }
func (r *RNG) Chance(p int) bool   { return r.Intn(100) < p } // p percent
func (r *RNG) Fork(tag uint64) *RNG { return NewRNG(r.U64() ^ tag) }

// ---------- oracle co-process (extracted Coq model) ----------
type Oracle struct {
	cmd *exec.Cmd
	in  io.WriteCloser
	out *bufio.Reader
}

func StartOracle(path string, args ...string) *Oracle {
	cmd := exec.Command(path, args...)
	in, err := cmd.StdinPipe()
	Must(err)
	out, err := cmd.StdoutPipe()
	Must(err)
	cmd.Stderr = os.Stderr
	Must(cmd.Start())
	return &Oracle{cmd: cmd, in: in, out: bufio.NewReaderSize(out, 1<<20)}
}

// Ask sends one line and reads n reply lines.
func (o *Oracle) Ask(line string, n int) []string {
	_, err := io.WriteString(o.in, line+"\n")
	Must(err)
	res := make([]string, 0, n)
	for i := 0; i < n; i++ {
		l, err := o.out.ReadString('\n')
		if err != nil {
			Fatalf("oracle died while answering %q: %v", line, err)
		}
		res = append(res, strings.TrimRight(l, "\n"))
	}
	return res
}

// AskUntil reads reply lines until a line equal to end.
func (o *Oracle) AskUntil(line, end string) []string {
	_, err := io.WriteString(o.in, line+"\n")
	Must(err)
	var res []string
	for {
		l, err := o.out.ReadString('\n')
		if err != nil {
			Fatalf("oracle died while answering %q: %v", line, err)
		}
		l = strings.TrimRight(l, "\n")
		if l == end {
			return res
		}
		res = append(res, l)
	}
}

func (o *Oracle) Close() {
	o.in.Close()
	o.cmd.Wait()
}

// ---------- run context ----------
type Known struct {
	Property string `json:"property"`
	Kind     string `json:"kind"` // "known" | "fixed"
	ID       string `json:"id"`   // identifying class of the failing input
	What     string `json:"what"`
	Commit   string `json:"commit,omitempty"`
}

type Ctx struct {
	Prop      string
	Seed      uint64
	Tier      string
	OraclePath string
	OutPath   string
	ReplayDir string
	ReplayIn  string
	known     []Known
	start     time.Time

	Evaluations int
	distinct    map[string]struct{}
	Hist        map[string]int
	Samples     []any
	Extra       map[string]any
	violations  []string
	knownSeen   map[string]string
	nReplay     int
}

func NewCtx(prop string) *Ctx {
	c := &Ctx{Prop: prop, distinct: map[string]struct{}{}, Hist: map[string]int{}, Extra: map[string]any{}, knownSeen: map[string]string{}}
	var seed uint64
	var knownPath string
	flag.Uint64Var(&seed, "seed", 1, "PRNG seed")
	flag.StringVar(&c.Tier, "tier", "quick", "quick|thorough")
	flag.StringVar(&c.OraclePath, "oracle", "", "path of the extracted-model oracle")
	flag.StringVar(&c.OutPath, "out", "", "evidence fragment (json)")
	flag.StringVar(&c.ReplayDir, "replaydir", "/verif/replays", "where replay files go")
	flag.StringVar(&c.ReplayIn, "replay", "", "replay file to re-run")
	flag.StringVar(&knownPath, "known", "/verif/known_findings.json", "known findings")
	flag.Parse()
	c.Seed = seed
	c.start = time.Now()
	if b, err := os.ReadFile(knownPath); err == nil {
		var all []Known
		if err := json.Unmarshal(b, &all); err != nil {
			Fatalf("known findings file unreadable: %v", err)
		}
		for _, k := range all {
			if k.Property == prop && k.Kind == "known" {
				c.known = append(c.known, k)
			}
		}
	}
	return c
}

func (c *Ctx) Thorough() bool { return c.Tier == "thorough" }

// Count registers one evaluated case; key identifies it for distinctness, nontrivial says whether it
// reached one of the non-default branches the property names.
func (c *Ctx) Count(key string, nontrivial bool) {
	c.Evaluations++
	if nontrivial {
		c.distinct[key] = struct{}{}
	}
}
func (c *Ctx) Sample(s any) {
	if len(c.Samples) < 6 {
		c.Samples = append(c.Samples, s)
	}
}

// Violation reports a failing input. class identifies the kind of failing input (matched against
// known_findings.json); replay is written to a file. noInput = only the tie/obligation broke.
func (c *Ctx) Violation(class string, what string, replay any, noInput bool) {
	for _, k := range c.known {
		if k.ID == class {
			if _, dup := c.knownSeen[class]; !dup {
				c.knownSeen[class] = what
				fmt.Printf("KNOWN-FINDING: property=%s %s [%s] e.g. %s\n", c.Prop, k.What, class, what)
			}
			return
		}
	}
	key := class
	for _, v := range c.violations {
		if v == key {
			return // one replay per class per run
		}
	}
	c.violations = append(c.violations, key)
	os.MkdirAll(c.ReplayDir, 0o755)
	c.nReplay++
	path := filepath.Join(c.ReplayDir, fmt.Sprintf("%s-%d-%d.json", c.Prop, c.Seed, c.nReplay))
	b, _ := json.MarshalIndent(map[string]any{
		"property": c.Prop, "class": class, "what": what, "seed": c.Seed, "tier": c.Tier,
		"replay": replay, "rerun": fmt.Sprintf("bin/check %s --replay %s", c.Prop, path),
	}, "", " ")
	os.WriteFile(path, b, 0o644)
	suffix := ""
	if noInput {
		suffix = " no-failing-input-found"
	}
	fmt.Printf("VIOLATION property=%s replay=%s%s\n", c.Prop, path, suffix)
	fmt.Printf("  class=%s %s\n", class, what)
}

func (c *Ctx) NViolations() int { return len(c.violations) }

// Reported tells whether a violation (or known finding) of this class was already printed in this run:
// harnesses use it to skip the (expensive) shrinking of further failing cases of a class that has its replay
func (c *Ctx) Reported(class string) bool {
	for _, v := range c.violations {
		if v == class {
			return true
		}
	}
	_, known := c.knownSeen[class]
	return known
}

// Finish writes the evidence fragment and exits 0/1.
func (c *Ctx) Finish(rule string) {
	keys := make([]string, 0, len(c.knownSeen))
	for k := range c.knownSeen {
		keys = append(keys, k)
	}
	sort.Strings(keys)
	frag := map[string]any{
		"property_id": c.Prop, "tier": c.Tier, "seed": c.Seed,
		"evaluations": c.Evaluations, "distinct_nontrivial": len(c.distinct), "rule": rule,
		"samples": c.Samples, "histogram": c.Hist, "violations": len(c.violations),
		"violation_classes": c.violations, "known_findings_reproduced": keys,
		"harness_wall_s": time.Since(c.start).Seconds(),
	}
	for k, v := range c.Extra {
		frag[k] = v
	}
	if c.OutPath != "" {
		b, _ := json.MarshalIndent(frag, "", " ")
		Must(os.WriteFile(c.OutPath, b, 0o644))
	}
	if len(c.violations) > 0 {
		os.Exit(1)
	}
	os.Exit(0)
}

// LoadReplay returns the "replay" member of a replay file.
func (c *Ctx) LoadReplay(into any) {
	b, err := os.ReadFile(c.ReplayIn)
	Must(err)
	var w struct {
		Replay json.RawMessage `json:"replay"`
	}
	Must(json.Unmarshal(b, &w))
	Must(json.Unmarshal(w.Replay, into))
}

func Must(err error) {
	if err != nil {
		Fatalf("%v", err)
	}
}

func Fatalf(f string, a ...any) {
	fmt.Fprintf(os.Stderr, "harness error: "+f+"\n", a...)
	os.Exit(2)
}

// TempDir makes a scratch directory on tmpfs when available (never under /repo or /verif).
func TempDir(tag string) string {
	base := os.TempDir()
	if st, err := os.Stat("/dev/shm"); err == nil && st.IsDir() {
		base = "/dev/shm"
	}
	d, err := os.MkdirTemp(base, "verif-"+tag+"-")
	Must(err)
	return d
}
