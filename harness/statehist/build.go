package statehist

import (
	"fmt"
	"math/big"

	"github.com/NethermindEth/juno/blockchain"
	"github.com/NethermindEth/juno/blockchain/networks"
	"github.com/NethermindEth/juno/core"
	"github.com/NethermindEth/juno/core/felt"
	"github.com/NethermindEth/juno/db"
	"github.com/NethermindEth/juno/db/memory"
	_ "github.com/NethermindEth/juno/encoder/registry"
)

// Network every synthetic chain uses (transaction hashes depend on its chain id).
var Network = &networks.Sepolia

// Node is one juno Blockchain over one database.
type Node struct {
	DB       db.KeyValueStore
	BC       *blockchain.Blockchain
	NewState bool

	arena     *Arena
	filter    *core.AggregatedBloomFilter
	maxBlocks uint64 // highest number of blocks the chain ever had (arena wipe bound)
}

// NewNode opens a Blockchain; database nil = fresh memory database.
func NewNode(database db.KeyValueStore, newState bool, opts ...blockchain.Option) *Node {
	if database == nil {
		database = memory.New()
	}
	all := append([]blockchain.Option{blockchain.WithNewState(newState)}, opts...)
	return &Node{DB: database, BC: blockchain.New(database, Network, all...), NewState: newState}
}

// Arena recycles the running event filter of short-lived nodes. blockchain.New lazily allocates an
// AggregatedBloomFilter of 8192 bitsets x 8192 bits (8 MB) per node, which dominates the cost of a
// case of a dozen blocks. An arena node starts on a FRESH memory database with
// WithRunningEventFilterInitializer returning exactly what core.InitializeRunningEventFilter returns
// for an empty database (NewRunningEventFilterHot(db, filter(0), 0)), except that the blank filter
// comes from the arena; Node.Close wipes the blocks the node ever held (RunningEventFilter.OnReorg,
// juno's own clearing) and hands the filter back. Not safe for concurrent use: one arena per worker.
type Arena struct {
	free []*core.AggregatedBloomFilter
}

func NewArena() *Arena { return &Arena{} }

// NewNode opens a Blockchain on a fresh memory database with a recycled running event filter.
func (a *Arena) NewNode(newState bool, opts ...blockchain.Option) *Node {
	var f *core.AggregatedBloomFilter
	if k := len(a.free); k > 0 {
		f, a.free = a.free[k-1], a.free[:k-1]
	} else {
		nf := core.NewAggregatedFilter(0)
		f = &nf
	}
	init := func(database db.KeyValueStore) (*core.RunningEventFilter, error) {
		return core.NewRunningEventFilterHot(database, f, 0), nil
	}
	n := NewNode(nil, newState, append([]blockchain.Option{blockchain.WithRunningEventFilterInitializer(init)}, opts...)...)
	n.arena, n.filter = a, f
	return n
}

// NewPair is NewPair on arena nodes; call Pair.Close when done.
func (a *Arena) NewPair(newState bool) *Pair {
	return &Pair{NewState: newState, Seq: a.NewNode(newState), Fol: a.NewNode(newState)}
}

// Close returns an arena node's filter (wiped) to its arena; the node must not be used afterwards.
// No-op for ordinary nodes.
func (n *Node) Close() {
	if n.arena == nil || n.filter == nil {
		return
	}
	rf := core.NewRunningEventFilterHot(nil, n.filter, n.maxBlocks)
	for i := uint64(0); i < n.maxBlocks; i++ {
		if err := rf.OnReorg(); err != nil {
			n.filter = nil // do not recycle a filter in an unknown state
			return
		}
	}
	n.arena.free = append(n.arena.free, n.filter)
	n.filter = nil
}

func (n *Node) sawBlock(number uint64) {
	if number+1 > n.maxBlocks {
		n.maxBlocks = number + 1
	}
}

// Reopen creates a fresh Blockchain over the same database (a restart).
func (n *Node) Reopen(opts ...blockchain.Option) *Node { return NewNode(n.DB, n.NewState, opts...) }

// SierraClass builds the minimal Sierra class number id; its class hash is juno's own
// SierraClass.Hash(), which is what core.VerifyClassHashes (SanityCheckNewHeight) recomputes.
func SierraClass(id uint64) *core.SierraClass {
	return &core.SierraClass{
		Abi: "[]", AbiHash: FU(7000 + id), ProgramHash: FU(8000 + id), SemanticVersion: "0.1.0",
		Program:  []felt.Felt{*FU(id)},
		Compiled: &core.CasmClass{Bytecode: []felt.Felt{*FU(id)}, CompilerVersion: "2.0.0", Prime: big.NewInt(0)},
	}
}

func SierraHash(id uint64) *felt.Felt {
	h, err := SierraClass(id).Hash()
	if err != nil {
		panic(err)
	}
	return &h
}

// SierraCasmV2 is the blake2s (v2) compiled class hash of SierraClass(id) as hex: what juno pre-computes
// for classes declared below 0.14.1 and answers after their migration (the value carried by
// StateDiff.MigratedClasses is not stored; use this value there to stay consistent).
func SierraCasmV2(id uint64) string {
	h := SierraClass(id).Compiled.Hash(core.HashVersionV2)
	return Hex(&h)
}

// Cairo0Class is the definition stored for every declared Cairo0 class hash (juno does not verify
// Cairo0 class hashes: core.VerifyClassHashes skips them).
func Cairo0Class() *core.DeprecatedCairoClass {
	return &core.DeprecatedCairoClass{Abi: []byte("[]"), Program: "p"}
}

// CoreDiff turns the block description into juno's StateDiff.
func (s *BlockSpec) CoreDiff() *core.StateDiff {
	d := &core.StateDiff{
		StorageDiffs:      map[felt.Felt]map[felt.Felt]*felt.Felt{},
		Nonces:            map[felt.Felt]*felt.Felt{},
		DeployedContracts: map[felt.Felt]*felt.Felt{},
		DeclaredV1Classes: map[felt.Felt]*felt.Felt{},
		ReplacedClasses:   map[felt.Felt]*felt.Felt{},
	}
	for _, e := range s.Diff.Deploy {
		d.DeployedContracts[*Felt(e.A)] = Felt(e.V)
	}
	for _, e := range s.Diff.Replace {
		d.ReplacedClasses[*Felt(e.A)] = Felt(e.V)
	}
	for _, e := range s.Diff.Nonce {
		d.Nonces[*Felt(e.A)] = Felt(e.V)
	}
	for _, e := range s.Diff.Store {
		a := *Felt(e.A)
		if d.StorageDiffs[a] == nil {
			d.StorageDiffs[a] = map[felt.Felt]*felt.Felt{}
		}
		d.StorageDiffs[a][*Felt(e.K)] = Felt(e.V)
	}
	for _, h := range s.Diff.Decl {
		d.DeclaredV0Classes = append(d.DeclaredV0Classes, Felt(h))
	}
	for _, c := range s.DeclareV1 {
		d.DeclaredV1Classes[*SierraHash(c.ID)] = Felt(c.Casm)
	}
	if len(s.Migrate) > 0 {
		d.MigratedClasses = map[felt.SierraClassHash]felt.CasmClassHash{}
		for _, c := range s.Migrate {
			d.MigratedClasses[felt.SierraClassHash(*SierraHash(c.ID))] = felt.CasmClassHash(*Felt(c.Casm))
		}
	}
	return d
}

// Classes are the class definitions that accompany the block (newClasses of Store / Finalise): the declared
// ones and the ones delivered for the block's deployed contracts (Diff.Deliv), as the synchroniser's data source
// hands them over in one map.
func (s *BlockSpec) Classes() map[felt.Felt]core.ClassDefinition {
	classes := map[felt.Felt]core.ClassDefinition{}
	for _, h := range s.Diff.Decl {
		classes[*Felt(h)] = Cairo0Class()
	}
	for _, h := range s.Diff.Deliv {
		classes[*Felt(h)] = Cairo0Class()
	}
	for _, c := range s.DeclareV1 {
		classes[*SierraHash(c.ID)] = SierraClass(c.ID)
	}
	return classes
}

func felts(l []string) []felt.Felt {
	out := make([]felt.Felt, 0, len(l))
	for _, x := range l {
		out = append(out, *Felt(x))
	}
	return out
}

// InvokeTx is the i-th invoke (v3) transaction of block number n; its hash is juno's TransactionHash.
func (s *BlockSpec) InvokeTx(n uint64, i int) *core.InvokeTransaction {
	if s.TxSeed != 0 {
		n = s.TxSeed
	}
	tx := &core.InvokeTransaction{
		Version:       new(core.TransactionVersion).SetUint64(3),
		SenderAddress: FU(77),
		Nonce:         FU(n*1000 + uint64(i)*16 + s.Salt&0xf),
		CallData:      []felt.Felt{*FU(uint64(i))},
		ResourceBounds: map[core.Resource]core.ResourceBounds{
			core.ResourceL1Gas:     {MaxAmount: 1, MaxPricePerUnit: FU(1)},
			core.ResourceL2Gas:     {MaxAmount: 1, MaxPricePerUnit: FU(1)},
			core.ResourceL1DataGas: {MaxAmount: 1, MaxPricePerUnit: FU(1)},
		},
		TransactionSignature: []felt.Felt{*FU(1), *FU(2)},
	}
	hv, err := core.TransactionHash(tx, Network)
	if err != nil {
		panic(err)
	}
	tx.TransactionHash = &hv
	return tx
}

// L1HandlerTx builds the L1-handler transaction of a message; MessageHash() of the result is the key
// of juno's L1HandlerTxnHashByMsgHash bucket.
func L1HandlerTx(m *L1Msg) *core.L1HandlerTransaction {
	if len(m.Payload) == 0 {
		panic("L1Msg.Payload must start with the L1 sender")
	}
	tx := &core.L1HandlerTransaction{
		ContractAddress:    Felt(m.To),
		EntryPointSelector: Felt(m.Selector),
		Nonce:              Felt(m.Nonce),
		CallData:           felts(m.Payload),
		Version:            new(core.TransactionVersion).SetUint64(0),
	}
	hv, err := core.TransactionHash(tx, Network)
	if err != nil {
		panic(err)
	}
	tx.TransactionHash = &hv
	return tx
}

// TxsAndReceipts lists the block's transactions (invokes, then L1 handlers) with their receipts.
func (s *BlockSpec) TxsAndReceipts(n uint64) ([]core.Transaction, []*core.TransactionReceipt) {
	txs := make([]core.Transaction, 0, len(s.Txs)+len(s.L1))
	rcs := make([]*core.TransactionReceipt, 0, len(s.Txs)+len(s.L1))
	for i, evs := range s.Txs {
		tx := s.InvokeTx(n, i)
		rc := &core.TransactionReceipt{TransactionHash: tx.TransactionHash, Fee: FU(uint64(i) + 1), FeeUnit: core.STRK,
			ExecutionResources: &core.ExecutionResources{}}
		for _, e := range evs {
			rc.Events = append(rc.Events, &core.Event{From: Felt(e.From), Keys: felts(e.Keys), Data: felts(e.Data)})
		}
		txs = append(txs, tx)
		rcs = append(rcs, rc)
	}
	for i := range s.L1 {
		tx := L1HandlerTx(&s.L1[i])
		rc := &core.TransactionReceipt{TransactionHash: tx.TransactionHash, Fee: FU(0), FeeUnit: core.WEI,
			ExecutionResources: &core.ExecutionResources{}}
		txs = append(txs, tx)
		rcs = append(rcs, rc)
	}
	return txs, rcs
}

// Built is a finalised block: what juno produced (hash, commitments, roots filled in).
type Built struct {
	Spec    *BlockSpec
	Block   *core.Block
	Update  *core.StateUpdate
	Classes map[felt.Felt]core.ClassDefinition
	Commit  *core.BlockCommitments
}

// Build appends the block described by spec on top of the node's head through Blockchain.Finalise
// (juno computes state roots, commitments and the block hash). StateUpdate.OldRoot is the head's
// state root: the new state backend opens the state at OldRoot.
func (n *Node) Build(spec *BlockSpec) (*Built, error) {
	var number uint64
	parent := &felt.Zero
	oldRoot := &felt.Zero
	if h, err := n.BC.HeadsHeader(); err == nil {
		number = h.Number + 1
		parent = h.Hash
		oldRoot = h.GlobalStateRoot
	}
	ver := spec.Version
	if ver == "" {
		ver = core.Ver0_14_0.String()
	}
	ts := spec.Timestamp
	if ts == 0 {
		ts = number
	}
	txs, rcs := spec.TxsAndReceipts(number)
	var evCount uint64
	for _, r := range rcs {
		evCount += uint64(len(r.Events))
	}
	block := &core.Block{
		Header: &core.Header{
			ParentHash:       parent,
			Number:           number,
			SequencerAddress: FU(1000 + spec.Salt),
			Timestamp:        ts,
			TransactionCount: uint64(len(txs)),
			EventCount:       evCount,
			EventsBloom:      core.EventsBloom(rcs),
			L1GasPriceETH:    FU(1),
			L1GasPriceSTRK:   FU(1),
			L1DataGasPrice:   &core.GasPrice{PriceInFri: FU(1), PriceInWei: FU(1)},
			L2GasPrice:       &core.GasPrice{PriceInFri: FU(1), PriceInWei: FU(1)},
			L1DAMode:         core.Blob,
			ProtocolVersion:  ver,
		},
		Transactions: txs,
		Receipts:     rcs,
	}
	su := &core.StateUpdate{OldRoot: oldRoot, StateDiff: spec.CoreDiff()}
	classes := spec.Classes()
	n.sawBlock(number)
	if err := n.BC.Finalise(block, su, classes, nil); err != nil {
		return nil, err
	}
	cm, err := n.BC.BlockCommitmentsByNumber(number)
	if err != nil {
		return nil, fmt.Errorf("commitments: %w", err)
	}
	return &Built{Spec: spec, Block: block, Update: su, Classes: classes, Commit: cm}, nil
}

// Store pushes a built block into this node the way sync does: SanityCheckNewHeight then Store.
func (n *Node) Store(b *Built) error {
	n.sawBlock(b.Block.Number)
	cm, err := n.BC.SanityCheckNewHeight(b.Block, b.Update, b.Classes)
	if err != nil {
		return fmt.Errorf("sanity: %w", err)
	}
	return n.BC.Store(b.Block, cm, b.Update, b.Classes)
}

// ---------- sequencer + follower of one state backend ----------

// Pair holds the sequencer that finalises blocks and the follower that receives them through Store;
// observations are made on the follower.
type Pair struct {
	NewState bool
	Seq, Fol *Node
	Chain    []*Built // the follower's current chain, block n at index n
}

func NewPair(newState bool) *Pair {
	return &Pair{NewState: newState, Seq: NewNode(nil, newState), Fol: NewNode(nil, newState)}
}

// Close releases arena resources of both nodes (no-op for ordinary pairs).
func (p *Pair) Close() {
	p.Seq.Close()
	p.Fol.Close()
}

// Backend is "new" or "legacy".
func (p *Pair) Backend() string { return BackendName(p.NewState) }

func BackendName(newState bool) string {
	if newState {
		return "new"
	}
	return "legacy"
}

// Outcome of one op. OK = the op took effect on both nodes.
type Outcome struct {
	OK       bool
	SeqErr   error
	FolErr   error
	Diverged bool // the two nodes disagreed (and could not be brought back in step)
}

func (o Outcome) Err() string {
	s := ""
	if o.SeqErr != nil {
		s += "sequencer: " + o.SeqErr.Error()
	}
	if o.FolErr != nil {
		if s != "" {
			s += "; "
		}
		s += "follower: " + o.FolErr.Error()
	}
	return s
}

// Store finalises the block on the sequencer and stores it on the follower.
func (p *Pair) Store(spec *BlockSpec) Outcome {
	b, err := p.Seq.Build(spec)
	if err != nil {
		return Outcome{SeqErr: err}
	}
	if err := p.Fol.Store(b); err != nil {
		out := Outcome{FolErr: err}
		if rerr := p.Seq.BC.RevertHead(); rerr != nil {
			out.Diverged = true
			out.SeqErr = fmt.Errorf("resync revert: %w", rerr)
		}
		return out
	}
	p.Chain = append(p.Chain, b)
	return Outcome{OK: true}
}

// Revert reverts the head of both nodes.
func (p *Pair) Revert() Outcome {
	e1 := p.Seq.BC.RevertHead()
	e2 := p.Fol.BC.RevertHead()
	out := Outcome{OK: e1 == nil && e2 == nil, SeqErr: e1, FolErr: e2, Diverged: (e1 == nil) != (e2 == nil)}
	if out.OK && len(p.Chain) > 0 {
		p.Chain = p.Chain[:len(p.Chain)-1]
	}
	return out
}

func (p *Pair) Apply(op *Op) Outcome {
	if op.Revert {
		return p.Revert()
	}
	return p.Store(op.Block)
}

// Height is the number of blocks of the follower's chain according to juno (0 = empty).
func (p *Pair) Height() uint64 {
	h, err := p.Fol.BC.Height()
	if err != nil {
		return 0
	}
	return h + 1
}
